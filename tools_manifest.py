#!/usr/bin/env python3
"""Regenerates MANIFEST.json from manifest_src.json + checks.json (claimed = has an entry in checks.json)."""
import json, os, subprocess
ROOT = os.path.dirname(os.path.abspath(__file__))
src = json.load(open(os.path.join(ROOT, "manifest_src.json")))
checks = json.load(open(os.path.join(ROOT, "checks.json")))
for dn, target in (("checks.d", checks["properties"]), ("manifest.d", src["checks"])):
    d = os.path.join(ROOT, dn)
    if os.path.isdir(d):
        for fn in sorted(os.listdir(d)):
            if fn.endswith(".json"):
                for pid, frag in json.load(open(os.path.join(d, fn))).items():
                    cur = target.setdefault(pid, {})
                    for k, v in frag.items():
                        if isinstance(v, list):
                            cur.setdefault(k, [])
                            cur[k] += [x for x in v if x not in cur[k]]
                        elif k in ("text", "note") and k in cur and v not in cur[k]:
                            cur[k] = cur[k] + " || " + v
                        else:
                            cur[k] = v
engines = {e["name"]: e for e in src["engines"]}
for pid, c in src["checks"].items():
    for e in c.get("engines", []):
        engines.setdefault(e["name"], e)
        sp = engines[e["name"]].setdefault("serves_properties", [])
        if pid not in sp: sp.append(pid)
src["engines"] = list(engines.values())
props = [json.loads(l) for l in open(os.path.join(ROOT, "properties.jsonl"))]
m = {
    "version": 1,
    "setup_cmd": "./check --setup",
    "hooks": {
        "guard": "verif",
        "enable": "go build -tags verif (the harness module /verif/harness replaces the bb-remote-execution module by /repo and is built with the tag)",
        "baseline_off_cmd": "cd /repo && GOFLAGS=-mod=mod go test -json -vet=off -count=1 -timeout 25m ./...",
        "source_commits": subprocess.check_output(["git", "-C", "/repo", "log", "--format=%h", "--grep=^verif hook"], text=True).split() or src["hook_commits"],
        "add_only": True,
    },
    "engines": src["engines"],
    "checks": [],
    "notes": src["notes"],
    "not_applicable": [],
}
for p in props:
    pid = p["id"]
    if pid in checks["properties"] and pid in src["checks"]:
        c = src["checks"][pid]
        m["checks"].append({
            "property_id": pid,
            "quick_cmd": f"./check {pid} --tier quick",
            "thorough_cmd": f"./check {pid} --tier thorough",
            "evidence_file": f"evidence/{pid}.json",
            "replay_cmd_template": f"./check {pid} --replay {{path}}",
            "engine": c["engine"],
            "level_claimed": {"category": "proof", "text": c["text"], "design_ref": c["design_ref"]},
            "level_note": c["note"],
            "technique": c.get("technique", "Lean 4 theorems (induction/invariants/refinement) about an executable model of the code; model tied to /repo by a differential correspondence run on every check; monitor on the implementation trace searches for a failing input"),
        })
    else:
        m["not_applicable"].append({"property_id": pid, "reason": src["not_claimed"].get(pid, "no Lean model and tie built for this property yet; see DESIGN.md for the planned treatment")})
json.dump(m, open(os.path.join(ROOT, "MANIFEST.json"), "w"), indent=1)
print("claimed:", [c["property_id"] for c in m["checks"]])
