#!/usr/bin/env python3
"""What does the correspondence run of a property actually execute?

  tools/tiecover.py Cxx [seed]      prints JSON: per anchored Go file of the property the statement
                                    coverage reached by the property's harnesses (one quick run each,
                                    built with `go build -cover -coverpkg=<packages of the anchors>`),
                                    and the functions of those files that were never / partly entered.

The differential tie (model vs. code) and the monitors only see what the generators reach; this
measures that reach on the code itself.  Used by `./check Cxx --tier thorough` (evidence key
coverage.tie_statement_coverage) and by hand when a seeded change is missed.  It never decides
anything: a low number is a to-do for the generator, not a violation.
"""
import ast
import json
import os
import re
import shutil
import subprocess
import sys
import tempfile

ROOT = os.path.dirname(os.path.dirname(os.path.abspath(__file__)))
HARNESS = os.path.join(ROOT, "harness")
MOD = "github.com/buildbarn/bb-remote-execution/"


def anchors(prop):
    for l in open(os.path.join(ROOT, "properties.jsonl")):
        d = json.loads(l)
        if d["id"] == prop:
            a = d["anchors"]
            if isinstance(a, str):
                a = ast.literal_eval(a)
            return [f for f in a.get("files", []) if f.endswith(".go")]
    return []


def goenv():
    e = dict(os.environ)
    e["GOFLAGS"] = "-mod=mod"
    e["GOPROXY"] = "off"
    e.pop("GOTOOLCHAIN", None)
    e.pop("GOSUMDB", None)
    return e


def load_cfg(prop):
    cfg = json.load(open(os.path.join(ROOT, "checks.json")))["properties"].get(prop, {})
    d = os.path.join(ROOT, "checks.d")
    hs = list(cfg.get("harnesses", []))
    for fn in sorted(os.listdir(d)):
        if fn.endswith(".json"):
            frag = json.load(open(os.path.join(d, fn))).get(prop)
            if frag:
                for h in frag.get("harnesses", []):
                    if h not in hs:
                        hs.append(h)
    return hs


def measure(prop, seed=1, repo="/repo", log=lambda s: None):
    files = anchors(prop)
    pkgs = sorted({MOD + os.path.dirname(f) for f in files})
    if not pkgs:
        return {"note": "no Go anchors"}
    tmp = tempfile.mkdtemp(prefix="tiecover-")
    profiles = []
    runs = []
    try:
        # (harness/go.sum was installed by ./check; tiecover is also usable by hand after any ./check run)
        for h in load_cfg(prop):
            name = h["name"]
            out = os.path.join(tmp, name + ".bin")
            # the main package must be among the instrumented ones, otherwise a `go build -cover`
            # binary writes no counters at all
            cov = ["-cover", "-coverpkg=" + ",".join(pkgs + ["verifharness/cmd/" + name])]
            if h.get("gotest"):
                cmd = ["go", "test", "-c"] + cov + ["-tags", "verif", "-vet=off", "-o", out, "./cmd/" + name]
            else:
                cmd = ["go", "build"] + cov + ["-tags", "verif", "-o", out, "./cmd/" + name]
            p = subprocess.run(cmd, cwd=HARNESS, env=goenv(), capture_output=True, text=True)
            if p.returncode != 0:
                runs.append({"harness": name, "error": "build failed: " + (p.stdout + p.stderr)[-300:]})
                continue
            prof = os.path.join(tmp, name + ".prof")
            env = goenv()
            run = [out]
            if h.get("gotest"):
                run += ["-test.run", "^TestHarness$", "-test.timeout", "0", "-test.count", "1",
                        "-test.coverprofile", prof]
            else:
                os.makedirs(os.path.join(tmp, name + ".d"), exist_ok=True)
                env["GOCOVERDIR"] = os.path.join(tmp, name + ".d")
            run += ["-seed", str(seed), "-tier", "quick", "-out", os.path.join(tmp, name + ".json")]
            run += h.get("args", [])
            run += ["-prop", prop] if h.get("takes_prop") else []
            try:
                p = subprocess.run(run, cwd=ROOT, env=env, capture_output=True, text=True,
                                   timeout=h.get("timeout_s", 900))
                rc = p.returncode
            except subprocess.TimeoutExpired:
                rc = 124
            if not h.get("gotest"):
                subprocess.run(["go", "tool", "covdata", "textfmt", "-i=" + env["GOCOVERDIR"], "-o", prof],
                               cwd=HARNESS, env=goenv(), capture_output=True, text=True)
            runs.append({"harness": name, "rc": rc})
            if os.path.exists(prof):
                profiles.append(prof)
            log(f"[tiecover] {name} rc={rc}")
        # merge: a block is covered if any harness covered it
        blocks = {}
        for prof in profiles:
            for line in open(prof):
                m = re.match(r"(\S+):(\d+)\.\d+,(\d+)\.\d+ (\d+) (\d+)$", line.strip())
                if m:
                    key = (m.group(1), line.split(" ")[0])
                    n, c = int(m.group(4)), int(m.group(5))
                    old = blocks.get(key, (n, 0))
                    blocks[key] = (n, max(old[1], c))
        per_file = {}
        for (f, _), (n, c) in blocks.items():
            rel = f[len(MOD):] if f.startswith(MOD) else f
            if rel not in files:
                continue
            t = per_file.setdefault(rel, [0, 0])
            t[0] += n
            t[1] += n if c > 0 else 0
        # function level through `go tool cover -func` on a merged profile
        merged = os.path.join(tmp, "merged.prof")
        with open(merged, "w") as fp:
            fp.write("mode: set\n")
            for (f, rng), (n, c) in sorted(blocks.items()):
                fp.write(f"{rng} {n} {1 if c > 0 else 0}\n")
        never, partly = [], []
        p = subprocess.run(["go", "tool", "cover", "-func=" + merged], cwd=HARNESS, env=goenv(),
                           capture_output=True, text=True)
        for line in p.stdout.splitlines():
            parts = line.split()
            if len(parts) != 3 or not parts[0].startswith(MOD):
                continue
            loc = parts[0][len(MOD):]
            fn = loc.split(":")[0]
            if fn not in files or fn.endswith("_verif.go"):
                continue
            pct = float(parts[2].rstrip("%"))
            if pct == 0.0:
                never.append(f"{loc} {parts[1]}")
            elif pct < 100.0:
                partly.append(f"{loc} {parts[1]} {parts[2]}")
        return {
            "anchored_files": {f: {"statements": t[0], "covered": t[1],
                                   "percent": round(100.0 * t[1] / t[0], 1) if t[0] else None}
                               for f, t in sorted(per_file.items())},
            "anchors_without_statements_or_not_linked": [f for f in files if f not in per_file],
            "functions_never_entered": never,
            "functions_partly_covered": partly,
            "runs": runs,
            "how": "quick run (seed %d) of each harness built with go -cover -coverpkg=%s; union over harnesses"
                   % (seed, ",".join(p[len(MOD):] for p in pkgs)),
        }
    finally:
        shutil.rmtree(tmp, ignore_errors=True)


if __name__ == "__main__":
    prop = sys.argv[1]
    seed = int(sys.argv[2]) if len(sys.argv) > 2 else 1
    print(json.dumps(measure(prop, seed, log=lambda s: print(s, file=sys.stderr)), indent=1))
