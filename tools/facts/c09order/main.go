// Command c09order is the "fact tie" of property C09 to cmd/bb_worker/main.go:
// it reads the file with go/ast and fails unless
//   - the executor stack assigned to `buildExecutor` wraps, from the inside out,
//     NewLocalBuildExecutor ... NewStorageFlushingBuildExecutor ... NewCachingBuildExecutor,
//   - only decorators known not to touch status/exit code/output digests sit
//     between the flushing and the caching executor,
//   - the local executor writes through the writer, and the flushing executor
//     uses the flusher, of one and the same NewBatchedStoreBlobAccess call.
//
// usage: c09order <path to cmd/bb_worker/main.go>
package main

import (
	"fmt"
	"go/ast"
	"go/parser"
	"go/token"
	"os"
	"strings"
)

// decorators that only add metadata / statistics
var neutral = map[string]bool{
	"NewTimestampedBuildExecutor": true, "NewFilePoolStatsBuildExecutor": true, "NewMetricsBuildExecutor": true,
	"NewCostComputingBuildExecutor": true, "NewTestInfrastructureFailureDetectingBuildExecutor": true,
}

func name(e ast.Expr) string {
	switch x := e.(type) {
	case *ast.SelectorExpr:
		return x.Sel.Name
	case *ast.Ident:
		return x.Name
	}
	return ""
}

var order []string
var args = map[string][]ast.Expr{}

// visit records constructor calls inside-out (first argument first).
func visit(e ast.Expr) {
	c, ok := e.(*ast.CallExpr)
	if !ok {
		return
	}
	n := name(c.Fun)
	if !strings.HasSuffix(n, "BuildExecutor") || !strings.HasPrefix(n, "New") {
		return
	}
	if len(c.Args) > 0 {
		visit(c.Args[0])
	}
	order = append(order, n)
	args[n] = c.Args
}

func fail(format string, a ...any) {
	fmt.Printf("c09order: FAIL: "+format+"\n", a...)
	os.Exit(1)
}

func main() {
	if len(os.Args) != 2 {
		fail("usage: c09order <main.go>")
	}
	fset := token.NewFileSet()
	f, err := parser.ParseFile(fset, os.Args[1], nil, 0)
	if err != nil {
		fail("%v", err)
	}
	writer, flusher := "", ""
	ast.Inspect(f, func(n ast.Node) bool {
		as, ok := n.(*ast.AssignStmt)
		if !ok {
			return true
		}
		if len(as.Lhs) == 2 && len(as.Rhs) == 1 {
			if c, ok := as.Rhs[0].(*ast.CallExpr); ok && name(c.Fun) == "NewBatchedStoreBlobAccess" {
				writer, flusher = name(as.Lhs[0]), name(as.Lhs[1])
			}
		}
		if len(as.Lhs) == 1 && len(as.Rhs) == 1 && name(as.Lhs[0]) == "buildExecutor" {
			visit(as.Rhs[0])
		}
		return true
	})
	fmt.Println("c09order: executor stack (inside out):", strings.Join(order, " -> "))
	idx := func(n string) int {
		for i, x := range order {
			if x == n {
				return i
			}
		}
		return -1
	}
	l, fl, ca := idx("NewLocalBuildExecutor"), idx("NewStorageFlushingBuildExecutor"), idx("NewCachingBuildExecutor")
	if l != 0 {
		fail("NewLocalBuildExecutor is not the innermost executor")
	}
	if fl < 0 || ca < 0 {
		fail("flushing or caching executor missing from the stack")
	}
	if fl > ca {
		fail("NewStorageFlushingBuildExecutor is constructed outside NewCachingBuildExecutor: results would be cached before the flush")
	}
	for _, n := range order[fl+1 : ca] {
		if !neutral[n] {
			fail("unknown decorator %s between flushing and caching executor (may alter status/digests; extend the model)", n)
		}
	}
	if writer == "" || flusher == "" {
		fail("no `writer, flusher := NewBatchedStoreBlobAccess(...)` found")
	}
	if a := args["NewLocalBuildExecutor"]; len(a) == 0 || name(a[0]) != writer {
		fail("NewLocalBuildExecutor does not write through the batched store %q", writer)
	}
	if a := args["NewStorageFlushingBuildExecutor"]; len(a) < 2 || name(a[1]) != flusher {
		fail("NewStorageFlushingBuildExecutor does not use the flusher %q of the batched store", flusher)
	}
	fmt.Println("c09order: ok (writer", writer+", flusher", flusher+")")
}
