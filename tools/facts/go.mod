module facts

go 1.23
