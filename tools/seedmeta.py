#!/usr/bin/env python3
"""Fills detected_by / round in seeded/Cxx-<tag><n>/meta.json from the last line for that seed in
seeded/results<k>.jsonl.  usage: tools/seedmeta.py 4"""
import json, os, sys
R = os.path.dirname(os.path.dirname(os.path.abspath(__file__)))
k = sys.argv[1]
tag = {'1': 's', '2': 't', '3': 'u', '4': 'v'}[k]
fn = os.path.join(R, 'seeded', 'results%s.jsonl' % ('' if k == '1' else k))
last = {}
for l in open(fn):
    d = json.loads(l); last[(d['prop'], d['n'])] = d
for (p, n), d in sorted(last.items()):
    mp = os.path.join(R, 'seeded', f'{p}-{tag}{n}', 'meta.json')
    if not os.path.exists(mp):
        continue
    m = json.load(open(mp))
    what = (d['what'] or [''])[0].replace('what: ', '', 1)
    m['detected_by'] = f"./check {p} (VERIF_REPO scratch worktree): {d['verdict']} \u2014 {what}" if d['verdict'] != 'MISSED' else 'MISSED'
    m['round'] = int(k)
    if d.get('note'):
        m['note'] = d['note']
    json.dump(m, open(mp, 'w'), indent=1)
    print(p, n, d['verdict'])
