#!/bin/sh
# usage: tools/seedverify.sh <prop> <n>   verifies /tmp/seed-<prop>/out/<n> (patch.diff + demo) in a fresh
# scratch worktree: builds, baseline tests pass, demo fails with the patch and passes without.
# On success copies it to /verif/seeded/<prop>-s<n>/ with meta.json.
prop=$1; n=$2; out=${3:-out}; tag=s; [ "$out" = out2 ] && tag=t; [ "$out" = out3 ] && tag=u; [ "$out" = out4 ] && tag=v; src=/tmp/seed-$prop/$out/$n; wt=/tmp/sv-$prop-$n-$$
export GOFLAGS=-mod=mod GOPROXY=off
[ -f "$src/patch.diff" ] || { echo "no patch in $src"; exit 2; }
git -C /repo worktree add --detach -q "$wt" HEAD || exit 2
mkdir -p "$wt/seeddemo/$n"
# demo files: everything except patch.diff/README/logs
for f in "$src"/*; do case "$f" in *patch.diff|*README.md|*.log|*.txt) ;; *) cp -r "$f" "$wt/seeddemo/$n/";; esac; done
cd "$wt"
res_clean=$(go test -vet=off -count=1 -timeout 300s ./seeddemo/$n/... >/tmp/sv-$$.clean 2>&1; echo $?)
if ! git apply "$src/patch.diff" 2>/dev/null && ! git apply -3 "$src/patch.diff"; then echo "RESULT $prop $n patch-does-not-apply"; cd /; git -C /repo worktree remove --force "$wt"; exit 1; fi
build=$(go build ./pkg/... ./cmd/bb_worker ./cmd/bb_scheduler >/tmp/sv-$$.build 2>&1; echo $?)
base=$(go test -vet=off -count=1 ./pkg/filesystem/access ./pkg/scheduler/invocation ./pkg/scheduler/platform >/tmp/sv-$$.base 2>&1; echo $?)
res_patch=$(go test -vet=off -count=1 -timeout 300s ./seeddemo/$n/... >/tmp/sv-$$.patch 2>&1; echo $?)
cd /verif
echo "RESULT $prop $n build=$build baseline=$base demo_clean=$res_clean demo_patched=$res_patch"
if [ "$build" = 0 ] && [ "$base" = 0 ] && [ "$res_clean" = 0 ] && [ "$res_patch" != 0 ]; then
  d=/verif/seeded/$prop-$tag$n; mkdir -p "$d/demo"
  cp "$src/patch.diff" "$d/patch.diff"; cp -r "$wt/seeddemo/$n/." "$d/demo/"; [ -f "$src/README.md" ] && cp "$src/README.md" "$d/README.md"
  cat > "$d/meta.json" <<EOM
{"property": "$prop", "origin": "independent sub-agent given only the property text and a scratch worktree",
 "needs": "see README.md",
 "confirmed": "in a fresh scratch worktree: go build ok, the 3 baseline test packages pass with the patch, the demo passes on the unchanged tree and fails with the patch (tools/seedverify.sh $prop $n)",
 "detected_by": "TBD"}
EOM
  echo "KEPT $d"
fi
tail -5 /tmp/sv-$$.patch | cut -c1-300
rm -f /tmp/sv-$$.*; git -C /repo worktree remove --force "$wt"
