#!/usr/bin/env python3
"""Verifies every seed under /tmp/seed-Cxx/out/<n> (independent confirmation in a fresh scratch
worktree) and then evaluates it against ./check Cxx.  Results: /verif/seeded/results.jsonl
(one line per seed, appended; seeds already present are skipped).  usage: seedpipe.py [workers] [props...]"""
import json, os, subprocess, sys, glob, concurrent.futures, re
import os as _os
OUT = _os.environ.get('SEED_OUT', 'out')
R = '/verif/seeded/results%s.jsonl' % OUT[3:]
done = set()
if os.path.exists(R):
    for l in open(R):
        try:
            d = json.loads(l); done.add((d['prop'], d['n']))
        except Exception: pass
workers = int(sys.argv[1]) if len(sys.argv) > 1 else 2
props = sys.argv[2:] or sorted({p.split('-')[1].split('/')[0] for p in glob.glob(f'/tmp/seed-C*/{OUT}/*/patch.diff')})
jobs = []
for p in props:
    for d in sorted(glob.glob(f'/tmp/seed-{p}/{OUT}/*/patch.diff')):
        n = d.split('/')[-2]
        if (p, n) not in done:
            jobs.append((p, n))
def run(job):
    p, n = job
    v = subprocess.run(['tools/seedverify.sh', p, n, OUT], cwd='/verif', capture_output=True, text=True, timeout=3600)
    m = re.search(r'RESULT \S+ \S+ (.*)', v.stdout)
    verify = m.group(1) if m else 'verify-failed: ' + (v.stdout + v.stderr)[-300:]
    kept = 'KEPT' in v.stdout
    e = subprocess.run(['tools/seedeval.sh', f'/tmp/seed-{p}/{OUT}/{n}/patch.diff', p], cwd='/verif', capture_output=True, text=True, timeout=3600)
    out = e.stdout
    if 'PATCH-DOES-NOT-APPLY' in out: verdict = 'patch-does-not-apply'
    elif re.search(r'^VIOLATION .*no-failing-input-found', out, re.M) and not re.search(r'^VIOLATION property=\S+ replay=\S+$', out, re.M): verdict = 'mismatch-only'
    elif re.search(r'^VIOLATION', out, re.M): verdict = 'violation'
    else: verdict = 'MISSED'
    what = [l.strip()[:300] for l in out.splitlines() if l.startswith('  what:')][:2]
    rec = {'prop': p, 'n': n, 'verify': verify, 'kept': kept, 'verdict': verdict, 'what': what}
    with open(R, 'a') as f:
        f.write(json.dumps(rec) + '\n')
    return rec
with concurrent.futures.ThreadPoolExecutor(max_workers=workers) as ex:
    for rec in ex.map(run, jobs):
        print(rec['prop'], rec['n'], rec['verdict'], rec['verify'], flush=True)
