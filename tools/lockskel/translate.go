package main

import (
	"fmt"
	"go/ast"
	"go/token"
	"go/types"
	"sort"
	"strings"

	"golang.org/x/tools/go/packages"
)

// Fn is one translated function (declaration or function literal).
type Fn struct {
	ID         int
	Name       string
	Obj        *types.Func
	Decl       *ast.FuncDecl
	Lit        *ast.FuncLit
	Parent     *Fn
	Pkg        *packages.Package
	Formals    map[string]*types.Var
	File       string
	Line       int
	Exported   bool
	Body       *S
	Req        []int
	Post       []int
	SigWhy     string
	Relevant   bool
	Emitted    bool
	Mentions   map[int]bool // lock ids (rooted in a formal) that occur in the body, directly or through calls
	InlineOnly bool         // takes a *LockPile: inlined at call sites
	nLits      int

	aliases      map[*types.Var]ast.Expr
	flagOf       map[*types.Var]int
	fresh        map[*types.Var]bool // locals holding an object created in this function
	Needs        []int               // guard classes the caller must hold (inferred, see inferNeeds)
	HeapCallback bool                // Len/Less/Swap/Push/Pop of a container/heap implementation: called by container/heap, not an entry point
}

type interner struct {
	ids   map[string]int
	names []string
}

func (in *interner) id(s string) int {
	if in.ids == nil {
		in.ids = map[string]int{}
	}
	if i, ok := in.ids[s]; ok {
		return i
	}
	i := len(in.names)
	in.ids[s] = i
	in.names = append(in.names, s)
	return i
}

type Tr struct {
	fset      *token.FileSet
	repo      string
	fns       []*Fn
	byObj     map[*types.Func]*Fn
	byLit     map[*ast.FuncLit]*Fn
	lockIDs   map[string]int    // "class|name" -> id = 1000*guard class + serial
	lockKey   map[int][2]string // id -> (base class, name)
	lockOrder []int             // ids in order of creation
	serial    map[int]int       // guard class -> next serial
	baseOf    []int             // guard class -> base guard class (read mode -> the mutex itself)
	classes   interner          // guard classes: "pkg.Type.field" and "pkg.Type.field#R"
	guards    Guards
	guardIdx  map[string][]GuardType
	nTouches  int
	piles     interner
	flags     interner
	whys      interner
	sigma     map[string]SigmaEntry
	skip      map[string]string
	skipped   [][2]string
	sigmaUsed map[string]bool
	skipUsed  map[string]bool
	implCache map[string][]*Fn
	noCHA     bool
}

// Guards is tools/lockskel/guards.json.
type Guards struct {
	Types   []GuardType         `json:"types"`
	Methods []GuardMethods      `json:"methods"`
	Needs   map[string][]string `json:"needs"`  // override of the inferred entry requirement of a function
	Exempt  map[string]string   `json:"exempt"` // functions whose touches are not checked, with the reason
}

type GuardType struct {
	Type   string   `json:"type"`
	Locks  []string `json:"locks"`
	Fields []string `json:"fields"`
}

type GuardMethods struct {
	FieldType string   `json:"fieldType"`
	Read      []string `json:"read"`
	Write     []string `json:"write"`
	Check     []string `json:"check"`
	Act       []string `json:"act"`
}

type SigmaEntry struct {
	Req  []string `json:"req"`
	Post []string `json:"post"`
	Why  string   `json:"why"`
}

// ctx is the translation context of a statement list.
type ctx struct {
	fn       *Fn               // function whose skeleton is being built
	pkg      *packages.Package // package of the code being walked (differs from fn.Pkg never, kept for clarity)
	env      map[string]string // inlining: formal name -> caller text
	prefix   string            // inlining: prefix for the inlined function's locals
	locals   map[*types.Var]bool
	top      bool // statement list is a function-level block (defer ≡ finally)
	depth    int
	inlining map[*Fn]bool
	inLoop   bool
	late     *[]*S // function level: deferred statements registered conditionally (see stmts)
}

func (c ctx) loopBody() ctx { c.top = false; c.inLoop = true; return c }

func (c ctx) nested() ctx { c.top = false; return c }

// guardClass interns a guard class; the read mode of an RWMutex is a class of its own.
func (t *Tr) guardClass(class string, read bool) int {
	n := len(t.classes.names)
	b := t.classes.id(class)
	if b == n {
		t.baseOf = append(t.baseOf, b)
	}
	if !read {
		return b
	}
	n = len(t.classes.names)
	r := t.classes.id(class + "#R")
	if r == n {
		t.baseOf = append(t.baseOf, b)
	}
	return r
}

// lockID: id = 1000 * guard class + serial (see Model/LockSkel.lean, `gcls`).
func (t *Tr) lockID(class, name string) int {
	key := class + "|" + name
	if id, ok := t.lockIDs[key]; ok {
		return id
	}
	gc := t.guardClass(class, strings.HasSuffix(name, "#R"))
	k := t.serial[gc]
	if k >= 998 {
		die("more than 998 lock expressions of class %s", class)
	}
	t.serial[gc] = k + 1
	id := 1000*gc + k
	t.lockIDs[key] = id
	t.lockKey[id] = [2]string{class, name}
	t.lockOrder = append(t.lockOrder, id)
	return id
}

func (t *Tr) ghostID(gc int) int { return 1000*gc + 999 }

// ownID: serial 998 = "exclusive ownership of an object created in this call" (never
// blocks: ignored by the acquired-while-holding relation).
func (t *Tr) ownID(gc int) int {
	id := 1000*gc + 998
	if _, ok := t.lockKey[id]; !ok {
		t.lockKey[id] = [2]string{t.classes.names[gc], "‹object created in this call›"}
		t.lockOrder = append(t.lockOrder, id)
	}
	return id
}

func (t *Tr) line(p token.Pos) int { return t.fset.Position(p).Line }

func (t *Tr) unsupMsg(pos token.Pos, format string, a ...any) (string, int) {
	p := t.fset.Position(pos)
	return fmt.Sprintf("%s:%d: ", strings.TrimPrefix(p.Filename, t.repo+"/"), p.Line) + fmt.Sprintf(format, a...), p.Line
}

// guardSkip: `eff` must turn out to have no lock effect, else the construct at pos is unsupported.
func (t *Tr) guardSkip(eff *S, pos token.Pos, format string, a ...any) *S {
	msg, line := t.unsupMsg(pos, format, a...)
	return guard(eff, msg, line)
}

func (t *Tr) unsup(c ctx, pos token.Pos, format string, a ...any) *S {
	p := t.fset.Position(pos)
	msg := fmt.Sprintf("%s:%d: ", strings.TrimPrefix(p.Filename, t.repo+"/"), p.Line) + fmt.Sprintf(format, a...)
	return unsupported(msg, p.Line)
}

// ---- names ---------------------------------------------------------------

func shortType(ty types.Type) string {
	for {
		if p, ok := ty.(*types.Pointer); ok {
			ty = p.Elem()
			continue
		}
		break
	}
	if n, ok := ty.(*types.Named); ok {
		o := n.Obj()
		if o.Pkg() != nil {
			return o.Pkg().Name() + "." + o.Name()
		}
		return o.Name()
	}
	return types.TypeString(ty, func(p *types.Package) string { return p.Name() })
}

func stripAddr(e ast.Expr) ast.Expr {
	for {
		switch x := e.(type) {
		case *ast.ParenExpr:
			e = x.X
		case *ast.UnaryExpr:
			if x.Op == token.AND {
				e = x.X
			} else {
				return e
			}
		case *ast.StarExpr:
			e = x.X
		default:
			return e
		}
	}
}

// purePath: identifiers, selectors, &, *, parentheses only.
func purePath(e ast.Expr) bool {
	switch x := e.(type) {
	case *ast.Ident:
		return true
	case *ast.SelectorExpr:
		return purePath(x.X)
	case *ast.ParenExpr:
		return purePath(x.X)
	case *ast.StarExpr:
		return purePath(x.X)
	case *ast.UnaryExpr:
		return x.Op == token.AND && purePath(x.X)
	}
	return false
}

// resolve follows single-assignment local aliases (`p := s.program`,
// `childDirectoryLock := &directory.lock`).
func (t *Tr) resolve(c ctx, e ast.Expr, depth int) ast.Expr {
	e = stripAddr(e)
	if id, ok := e.(*ast.Ident); ok && depth < 8 {
		if v, ok := c.pkg.TypesInfo.Uses[id].(*types.Var); ok {
			if rhs, ok := c.fn.aliasFor(v); ok {
				return t.resolve(c, rhs, depth+1)
			}
		}
	}
	return e
}

func (f *Fn) aliasFor(v *types.Var) (ast.Expr, bool) {
	for g := f; g != nil; g = g.Parent {
		if e, ok := g.aliases[v]; ok {
			return e, true
		}
	}
	return nil, false
}

// canon renders an expression as the canonical lock/pile path text.
func (t *Tr) canon(c ctx, e ast.Expr) string {
	e = t.resolve(c, e, 0)
	switch x := e.(type) {
	case *ast.Ident:
		if c.env != nil {
			if s, ok := c.env[x.Name]; ok {
				return s
			}
			if v, ok := c.pkg.TypesInfo.Uses[x].(*types.Var); ok && c.locals[v] {
				return c.prefix + x.Name
			}
		}
		return x.Name
	case *ast.SelectorExpr:
		return t.canon(c, x.X) + "." + x.Sel.Name
	case *ast.IndexExpr:
		return t.canon(c, x.X) + "[" + types.ExprString(x.Index) + "]"
	case *ast.CallExpr:
		return t.canon(c, x.Fun) + "()"
	}
	return types.ExprString(e)
}

func (t *Tr) classOf(c ctx, e ast.Expr) string {
	e = t.resolve(c, e, 0)
	info := c.pkg.TypesInfo
	switch x := e.(type) {
	case *ast.SelectorExpr:
		if tv, ok := info.Types[x.X]; ok && tv.Type != nil {
			return shortType(tv.Type) + "." + x.Sel.Name
		}
	case *ast.Ident:
		if o := info.Uses[x]; o != nil {
			if o.Parent() == o.Pkg().Scope() {
				return "var " + o.Pkg().Name() + "." + o.Name()
			}
			return "local " + shortType(o.Type())
		}
	}
	if tv, ok := info.Types[e]; ok && tv.Type != nil {
		return "expr " + shortType(tv.Type)
	}
	return "unknown"
}

func rootOf(name string) string {
	for i, r := range name {
		if r == '.' || r == '[' || r == '#' {
			return name[:i]
		}
	}
	return name
}

// ---- callee resolution ------------------------------------------------------

func calleeOf(info *types.Info, call *ast.CallExpr) *types.Func {
	fun := ast.Unparen(call.Fun)
	for {
		if ix, ok := fun.(*ast.IndexExpr); ok {
			fun = ix.X
			continue
		}
		if ix, ok := fun.(*ast.IndexListExpr); ok {
			fun = ix.X
			continue
		}
		break
	}
	switch f := fun.(type) {
	case *ast.Ident:
		if fn, ok := info.Uses[f].(*types.Func); ok {
			return fn.Origin()
		}
	case *ast.SelectorExpr:
		if sel, ok := info.Selections[f]; ok {
			if fn, ok := sel.Obj().(*types.Func); ok {
				return fn.Origin()
			}
			return nil
		}
		if fn, ok := info.Uses[f.Sel].(*types.Func); ok {
			return fn.Origin()
		}
	}
	return nil
}

const pilePkg = "github.com/buildbarn/bb-remote-execution/pkg/sync"

func isPileType(ty types.Type) bool {
	for {
		if p, ok := ty.(*types.Pointer); ok {
			ty = p.Elem()
			continue
		}
		break
	}
	n, ok := ty.(*types.Named)
	return ok && n.Obj().Name() == "LockPile" && n.Obj().Pkg() != nil && n.Obj().Pkg().Path() == pilePkg
}

// ---- prepass: aliases and flags ------------------------------------------------

// analyse finds single-assignment aliases and lock-tracking flags of a function
// (literals nested in it are analysed with it: they share its variables).
func (t *Tr) analyse(f *Fn, body *ast.BlockStmt, info *types.Info) {
	f.aliases = map[*types.Var]ast.Expr{}
	f.flagOf = map[*types.Var]int{}
	f.fresh = map[*types.Var]bool{}
	isFreshExpr := func(e ast.Expr) bool {
		switch x := ast.Unparen(e).(type) {
		case *ast.CompositeLit:
			return true
		case *ast.UnaryExpr:
			if x.Op == token.AND {
				_, ok := ast.Unparen(x.X).(*ast.CompositeLit)
				return ok
			}
		case *ast.CallExpr:
			if id, ok := x.Fun.(*ast.Ident); ok && (id.Name == "new" || id.Name == "make") {
				return true
			}
		}
		return false
	}
	assigns := map[*types.Var]int{}  // number of assignments (a definition counts)
	defined := map[*types.Var]bool{} // defined inside the body (not a parameter)
	rhsOf := map[*types.Var]ast.Expr{}
	nonConst := map[*types.Var]bool{} // assigned something that is not the constant true/false
	inLoopAssign := map[*types.Var]bool{}
	pureTest := map[*types.Var]bool{}
	escapes := map[*types.Var]bool{}
	isConstBool := func(e ast.Expr) bool {
		id, ok := ast.Unparen(e).(*ast.Ident)
		return ok && (id.Name == "true" || id.Name == "false") && info.Uses[id] != nil && info.Uses[id].Parent() == types.Universe
	}
	varOf := func(e ast.Expr) (*types.Var, bool) {
		id, ok := ast.Unparen(e).(*ast.Ident)
		if !ok {
			return nil, false
		}
		if v, ok := info.Defs[id].(*types.Var); ok {
			return v, true
		}
		if v, ok := info.Uses[id].(*types.Var); ok {
			return v, false
		}
		return nil, false
	}
	record := func(lhs ast.Expr, rhs ast.Expr, loop bool) {
		v, def := varOf(lhs)
		if v == nil {
			return
		}
		assigns[v]++
		if def {
			defined[v] = true
		}
		rhsOf[v] = rhs
		if def && (rhs == nil || isFreshExpr(rhs)) {
			f.fresh[v] = true
		} else if !def {
			delete(f.fresh, v) // re-assigned: may now point to a shared object
		}
		if rhs != nil && !isConstBool(rhs) {
			nonConst[v] = true
		}
		if loop {
			inLoopAssign[v] = true
		}
	}
	opaque := func(e ast.Expr) {
		if v, def := varOf(e); v != nil {
			assigns[v] += 2
			nonConst[v] = true
			if def {
				defined[v] = true
			}
		}
	}
	var walk func(n ast.Node, loop bool)
	walk = func(n ast.Node, loop bool) {
		ast.Inspect(n, func(m ast.Node) bool {
			switch x := m.(type) {
			case *ast.AssignStmt:
				if len(x.Lhs) == len(x.Rhs) && (x.Tok == token.ASSIGN || x.Tok == token.DEFINE) {
					for i := range x.Lhs {
						record(x.Lhs[i], x.Rhs[i], loop)
					}
				} else {
					for i := range x.Lhs {
						opaque(x.Lhs[i])
					}
				}
			case *ast.ValueSpec:
				for i, n := range x.Names {
					if i < len(x.Values) && len(x.Values) == len(x.Names) {
						record(n, x.Values[i], loop)
					} else if len(x.Values) == 0 {
						record(n, nil, loop) // zero value
					} else {
						opaque(n)
					}
				}
			case *ast.IncDecStmt:
				opaque(x.X)
			case *ast.RangeStmt:
				if x.Key != nil {
					opaque(x.Key)
				}
				if x.Value != nil {
					opaque(x.Value)
				}
				walk(x.X, loop)
				walk(x.Body, true)
				return false
			case *ast.ForStmt:
				if x.Init != nil {
					walk(x.Init, loop)
				}
				if x.Cond != nil {
					walk(x.Cond, true)
				}
				if x.Post != nil {
					walk(x.Post, true)
				}
				walk(x.Body, true)
				return false
			case *ast.UnaryExpr:
				if x.Op == token.AND {
					if v, _ := varOf(x.X); v != nil {
						escapes[v] = true
					}
				}
			case *ast.IfStmt:
				c := ast.Unparen(x.Cond)
				if u, ok := c.(*ast.UnaryExpr); ok && u.Op == token.NOT {
					c = ast.Unparen(u.X)
				}
				if v, _ := varOf(c); v != nil {
					pureTest[v] = true
				}
			}
			return true
		})
	}
	walk(body, false)
	isBool := func(v *types.Var) bool {
		b, ok := v.Type().Underlying().(*types.Basic)
		return ok && b.Kind() == types.Bool
	}
	for v, n := range assigns {
		if n != 1 || !defined[v] || rhsOf[v] == nil || escapes[v] || isBool(v) {
			continue
		}
		if _, isLit := rhsOf[v].(*ast.FuncLit); isLit || purePath(rhsOf[v]) {
			f.aliases[v] = rhsOf[v]
		}
	}
	var flagVars []*types.Var
	for v := range assigns {
		if isBool(v) && defined[v] && !nonConst[v] && !inLoopAssign[v] && !escapes[v] && pureTest[v] {
			flagVars = append(flagVars, v)
		}
	}
	sort.Slice(flagVars, func(i, j int) bool { return flagVars[i].Pos() < flagVars[j].Pos() }) // deterministic ids
	for _, v := range flagVars {
		f.flagOf[v] = t.flags.id(fmt.Sprintf("%s:%s@%d", f.Name, v.Name(), t.line(v.Pos())))
	}
}

func (f *Fn) flagFor(v *types.Var) (int, bool) {
	for g := f; g != nil; g = g.Parent {
		if id, ok := g.flagOf[v]; ok {
			return id, true
		}
	}
	return 0, false
}

// ---- guarded-by ---------------------------------------------------------------------

func in(xs []string, x string) bool {
	for _, y := range xs {
		if x == y {
			return true
		}
	}
	return false
}

// guardOfField returns the lock classes guarding field `name` of the struct type `ty`.
func (t *Tr) guardOfField(ty types.Type, name string) []string {
	for _, g := range t.guardIdx[shortType(ty)] {
		if len(g.Fields) == 0 || in(g.Fields, name) {
			return g.Locks
		}
	}
	return nil
}

// freshLocal: is the root of the expression a local variable that was created in this
// function (x := &T{...}, x := T{...}, x := new(T), var x T)? Such an object is not
// shared yet; initialising it needs no lock.
func (t *Tr) freshLocal(c ctx, e ast.Expr) bool {
	for {
		switch x := e.(type) {
		case *ast.ParenExpr:
			e = x.X
			continue
		case *ast.StarExpr:
			e = x.X
			continue
		case *ast.SelectorExpr:
			e = x.X
			continue
		case *ast.IndexExpr:
			e = x.X
			continue
		case *ast.Ident:
			v, ok := c.pkg.TypesInfo.Uses[x].(*types.Var)
			if !ok {
				return false
			}
			// only within the creating function itself: a closure that captures the
			// variable may run after the object has been published
			return c.fn.fresh[v]
		}
		return false
	}
}

// fieldTouched finds the field that an assignment to `lhs` mutates: the innermost
// selector of a struct field, looking through indexing and dereferences.
func (t *Tr) fieldTouched(c ctx, lhs ast.Expr) (types.Type, string, bool) {
	e := lhs
	for {
		switch x := e.(type) {
		case *ast.ParenExpr:
			e = x.X
			continue
		case *ast.StarExpr:
			e = x.X
			continue
		case *ast.IndexExpr:
			e = x.X
			continue
		case *ast.SliceExpr:
			e = x.X
			continue
		case *ast.SelectorExpr:
			sel, ok := c.pkg.TypesInfo.Selections[x]
			if !ok || sel.Kind() != types.FieldVal {
				return nil, "", false
			}
			// walk embedded fields: the struct that declares the field
			recv := sel.Recv()
			path := sel.Index()
			for _, i := range path[:len(path)-1] {
				recv = derefStruct(recv).Field(i).Type()
			}
			return recv, x.Sel.Name, true
		}
		return nil, "", false
	}
}

func derefStruct(ty types.Type) *types.Struct {
	for {
		if p, ok := ty.Underlying().(*types.Pointer); ok {
			ty = p.Elem()
			continue
		}
		break
	}
	st, _ := ty.Underlying().(*types.Struct)
	return st
}

// needNode: a mutation of state guarded by `locks` (write mode) / a read (either mode).
func (t *Tr) needNode(locks []string, read bool, pos token.Pos) *S {
	var cs []int
	for _, l := range locks {
		cs = append(cs, t.guardClass(l, false))
		if read {
			cs = append(cs, t.guardClass(l, true))
		}
	}
	t.nTouches++
	return &S{K: "need", Ren2: cs, Tag: t.line(pos)}
}

// touch: the guarded-by obligation of an assignment to lhs (skip if unguarded).
func (t *Tr) touch(c ctx, lhs ast.Expr) *S {
	if _, exempt := t.guards.Exempt[c.fn.Name]; exempt {
		return skipS
	}
	ty, name, ok := t.fieldTouched(c, lhs)
	if !ok {
		return skipS
	}
	locks := t.guardOfField(ty, name)
	if locks == nil || t.freshLocal(c, lhs) {
		return skipS
	}
	return t.needNode(locks, false, lhs.Pos())
}

// guardedMethodCall: x.f.M(...) where f is a guarded field whose type has declared
// read/write (and check/act) methods.
func (t *Tr) guardedMethodCall(c ctx, call *ast.CallExpr) *S {
	if _, exempt := t.guards.Exempt[c.fn.Name]; exempt {
		return skipS
	}
	sel, ok := ast.Unparen(call.Fun).(*ast.SelectorExpr)
	if !ok {
		return skipS
	}
	tv, ok := c.pkg.TypesInfo.Types[sel.X]
	if !ok || tv.Type == nil {
		return skipS
	}
	for _, m := range t.guards.Methods {
		if shortType(tv.Type) != m.FieldType {
			continue
		}
		ty, name, ok := t.fieldTouched(c, sel.X)
		if !ok {
			return skipS
		}
		locks := t.guardOfField(ty, name)
		if locks == nil || t.freshLocal(c, sel.X) {
			return skipS
		}
		var out []*S
		meth := sel.Sel.Name
		if in(m.Write, meth) {
			out = append(out, t.needNode(locks, false, call.Pos()))
		} else if in(m.Read, meth) {
			out = append(out, t.needNode(locks, true, call.Pos()))
		}
		base := t.guardClass(locks[0], false)
		if in(m.Check, meth) {
			out = append(out, &S{K: "mark", L: 0, P: base, Tag: t.line(call.Pos())})
		}
		if in(m.Act, meth) {
			out = append(out, &S{K: "mark", L: 1, P: base, Tag: t.line(call.Pos())})
		}
		return seqs(out...)
	}
	return skipS
}

// ---- statements -------------------------------------------------------------------

func terminates(list []ast.Stmt) bool {
	if len(list) == 0 {
		return false
	}
	switch x := list[len(list)-1].(type) {
	case *ast.ReturnStmt:
		return true
	case *ast.ExprStmt:
		if call, ok := x.X.(*ast.CallExpr); ok {
			if id, ok := call.Fun.(*ast.Ident); ok && id.Name == "panic" {
				return true
			}
		}
	case *ast.BlockStmt:
		return terminates(x.List)
	case *ast.IfStmt:
		if x.Else == nil {
			return false
		}
		if !terminates(x.Body.List) {
			return false
		}
		switch e := x.Else.(type) {
		case *ast.BlockStmt:
			return terminates(e.List)
		case *ast.IfStmt:
			return terminates([]ast.Stmt{e})
		}
	}
	return false
}

func (t *Tr) stmts(c ctx, list []ast.Stmt) *S {
	var out []*S
	for i, st := range list {
		if d, ok := st.(*ast.DeferStmt); ok {
			ds := t.deferred(c, d)
			if ds.K == "skip" {
				continue
			}
			rest := list[i+1:]
			if c.top || terminates(rest) {
				out = append(out, fin(t.stmts(c, rest), ds))
			} else if c.late != nil && !c.inLoop && selfContained(ds) {
				// A defer registered conditionally (in a nested block that can fall
				// through): remembered in a synthetic flag and run when the function
				// returns. Only for deferred calls that require nothing and leave nothing
				// behind, so that their position among the other deferred calls is
				// immaterial for the held locks.
				fl := t.flags.id(fmt.Sprintf("%s:defer@%d", c.fn.Name, t.line(d.Pos())))
				*c.late = append(*c.late, &S{K: "ifFlag", L: fl, A: ds, B: skipS})
				out = append(out, &S{K: "setFlag", L: fl, Flag: true})
				out = append(out, t.stmts(c, rest))
			} else {
				out = append(out, t.guardSkip(ds, d.Pos(), "defer with a lock effect in a nested block that can fall through"))
				out = append(out, t.stmts(c, rest))
			}
			return seqs(out...)
		}
		if c.top {
			// conditional defers registered inside this statement (see above) run when the
			// function returns, before the defers registered by earlier statements
			var late []*S
			c2 := c
			c2.late = &late
			s := t.stmt(c2, st)
			if len(late) > 0 {
				body := seq(s, t.stmts(c, list[i+1:]))
				for _, d := range late {
					body = fin(body, d)
				}
				out = append(out, body)
				return seqs(out...)
			}
			out = append(out, s)
			continue
		}
		out = append(out, t.stmt(c, st))
	}
	return seqs(out...)
}

// selfContained: only calls of functions with the empty summary (and choices between them).
func selfContained(s *S) bool {
	if s == nil {
		return true
	}
	switch s.K {
	case "skip":
		return true
	case "call":
		return len(s.Call.Callee.Req) == 0 && len(s.Call.Callee.Post) == 0
	case "choice", "seq":
		return selfContained(s.A) && selfContained(s.B)
	}
	return false
}

func (t *Tr) deferred(c ctx, d *ast.DeferStmt) *S {
	// argument evaluation happens at the defer statement; lock-relevant
	// argument expressions are not expected there
	var pre []*S
	for _, a := range d.Call.Args {
		pre = append(pre, t.expr(c, a))
	}
	if g := t.guardSkip(seqs(pre...), d.Pos(), "defer whose arguments have lock effects"); g.K != "skip" {
		// evaluated at the defer statement, i.e. before the rest; keep the order by failing if it matters
		return seq(g, t.call(c, d.Call, true))
	}
	return t.call(c, d.Call, true)
}

func (t *Tr) stmt(c ctx, st ast.Stmt) *S {
	info := c.pkg.TypesInfo
	switch x := st.(type) {
	case nil:
		return skipS
	case *ast.EmptyStmt:
		return skipS
	case *ast.ExprStmt:
		return t.expr(c, x.X)
	case *ast.SendStmt:
		return seq(t.expr(c, x.Chan), t.expr(c, x.Value))
	case *ast.IncDecStmt:
		return seq(t.expr(c, x.X), t.touch(c, x.X))
	case *ast.AssignStmt:
		var out []*S
		for _, r := range x.Rhs {
			out = append(out, t.expr(c, r))
		}
		for _, l := range x.Lhs {
			if _, ok := l.(*ast.Ident); !ok {
				out = append(out, t.expr(c, l))
				out = append(out, t.touch(c, l))
			}
		}
		if len(x.Lhs) == len(x.Rhs) {
			for i, l := range x.Lhs {
				if id, ok := l.(*ast.Ident); ok {
					var v *types.Var
					if d, ok := info.Defs[id].(*types.Var); ok {
						v = d
					} else if u, ok := info.Uses[id].(*types.Var); ok {
						v = u
					}
					if v != nil {
						if fl, ok := c.fn.flagFor(v); ok {
							if rid, ok := ast.Unparen(x.Rhs[i]).(*ast.Ident); ok {
								out = append(out, &S{K: "setFlag", L: fl, Flag: rid.Name == "true"})
							}
						}
					}
				}
			}
		}
		return seqs(out...)
	case *ast.DeclStmt:
		var out []*S
		if gd, ok := x.Decl.(*ast.GenDecl); ok {
			for _, sp := range gd.Specs {
				if vs, ok := sp.(*ast.ValueSpec); ok {
					for _, v := range vs.Values {
						out = append(out, t.expr(c, v))
					}
					for i, n := range vs.Names {
						if v, ok := info.Defs[n].(*types.Var); ok {
							if fl, ok := c.fn.flagFor(v); ok {
								val := false
								if i < len(vs.Values) {
									if rid, ok := ast.Unparen(vs.Values[i]).(*ast.Ident); ok {
										val = rid.Name == "true"
									}
								}
								out = append(out, &S{K: "setFlag", L: fl, Flag: val})
							}
						}
					}
				}
			}
		}
		return seqs(out...)
	case *ast.GoStmt:
		var out []*S
		for _, a := range x.Call.Args {
			out = append(out, t.expr(c, a))
		}
		if fn := calleeOf(info, x.Call); fn != nil {
			if g := t.byObj[fn]; g != nil && (len(g.Req) > 0 || len(g.Post) > 0) {
				out = append(out, t.unsup(c, x.Pos(), "go statement starting a function with a non-empty lock summary"))
			}
		}
		return seqs(out...)
	case *ast.DeferStmt:
		// only reached when a defer is not in a statement list (impossible in Go)
		return t.unsup(c, x.Pos(), "defer outside a statement list")
	case *ast.ReturnStmt:
		var out []*S
		for _, r := range x.Results {
			out = append(out, t.expr(c, r))
		}
		out = append(out, &S{K: "ret", Tag: t.line(x.Pos())})
		return seqs(out...)
	case *ast.BranchStmt:
		if x.Label != nil {
			return t.unsup(c, x.Pos(), "labelled %s", x.Tok)
		}
		switch x.Tok {
		case token.BREAK:
			return atom("brk")
		case token.CONTINUE:
			return atom("cont")
		}
		return t.unsup(c, x.Pos(), "%s statement", x.Tok)
	case *ast.BlockStmt:
		return t.stmts(c.nested(), x.List)
	case *ast.LabeledStmt:
		used := false
		ast.Inspect(x.Stmt, func(n ast.Node) bool {
			if b, ok := n.(*ast.BranchStmt); ok && b.Label != nil && b.Label.Name == x.Label.Name {
				used = true
			}
			return true
		})
		if used {
			return t.unsup(c, x.Pos(), "label %s is the target of a branch", x.Label.Name)
		}
		return t.stmt(c, x.Stmt)
	case *ast.IfStmt:
		init := t.stmt(c.nested(), x.Init)
		thenS := t.stmts(c.nested(), x.Body.List)
		elseS := skipS
		if x.Else != nil {
			elseS = t.stmt(c.nested(), x.Else)
		}
		// lock-tracking flag test?
		cond := ast.Unparen(x.Cond)
		neg := false
		if u, ok := cond.(*ast.UnaryExpr); ok && u.Op == token.NOT {
			cond, neg = ast.Unparen(u.X), true
		}
		if id, ok := cond.(*ast.Ident); ok {
			if v, ok := info.Uses[id].(*types.Var); ok {
				if fl, ok := c.fn.flagFor(v); ok {
					a, b := thenS, elseS
					if neg {
						a, b = b, a
					}
					if a.K == "skip" && b.K == "skip" {
						return init
					}
					return seq(init, &S{K: "ifFlag", L: fl, A: a, B: b})
				}
			}
		}
		return seqs(init, t.expr(c, x.Cond), choice(t.line(x.Pos()), thenS, elseS))
	case *ast.SwitchStmt:
		pre := seq(t.stmt(c.nested(), x.Init), t.expr(c, x.Tag))
		return seq(pre, t.clauses(c, x.Body, x.Pos(), true))
	case *ast.TypeSwitchStmt:
		pre := seq(t.stmt(c.nested(), x.Init), t.stmt(c.nested(), x.Assign))
		return seq(pre, t.clauses(c, x.Body, x.Pos(), true))
	case *ast.SelectStmt:
		if len(x.Body.List) == 0 {
			return t.unsup(c, x.Pos(), "empty select")
		}
		return t.clauses(c, x.Body, x.Pos(), false)
	case *ast.ForStmt:
		init := t.stmt(c.nested(), x.Init)
		// `for cond { body }`: the condition is evaluated before every iteration and once
		// more when the loop ends (also added after a `break`, where it is not evaluated:
		// a harmless over-approximation for the balanced calls that occur in conditions).
		condEff := t.expr(c, x.Cond)
		g2 := t.guardSkip(t.stmt(c.nested(), x.Post), x.Pos(), "loop post statement with lock effects")
		return seqs(init, g2, loop(x.Cond != nil, seq(condEff, t.stmts(c.loopBody(), x.Body.List))), condEff)
	case *ast.RangeStmt:
		if tv, ok := info.Types[x.X]; ok {
			if _, isFunc := tv.Type.Underlying().(*types.Signature); isFunc {
				return t.unsup(c, x.Pos(), "range over function")
			}
		}
		return seq(t.expr(c, x.X), loop(true, t.stmts(c.loopBody(), x.Body.List)))
	}
	return t.unsup(c, st.Pos(), "statement %T", st)
}

// breaksOut: does the statement list contain a `break` that targets the
// enclosing switch/select (i.e. not nested in an inner for/switch/select)?
func breaksOut(list []ast.Stmt) bool {
	found := false
	var visit func(n ast.Node) bool
	visit = func(n ast.Node) bool {
		switch x := n.(type) {
		case *ast.ForStmt, *ast.RangeStmt, *ast.SwitchStmt, *ast.TypeSwitchStmt, *ast.SelectStmt, *ast.FuncLit:
			return false
		case *ast.BranchStmt:
			if x.Tok == token.BREAK && x.Label == nil {
				found = true
			}
		}
		return true
	}
	for _, s := range list {
		ast.Inspect(s, visit)
	}
	return found
}

func (t *Tr) clauses(c ctx, body *ast.BlockStmt, pos token.Pos, addSkipWithoutDefault bool) *S {
	var alts, pre []*S
	hasDefault := false
	anyBreak := false
	for _, cl := range body.List {
		switch x := cl.(type) {
		case *ast.CaseClause:
			if x.List == nil {
				hasDefault = true
			}
			for _, e := range x.List {
				pre = append(pre, t.guardSkip(t.expr(c, e), e.Pos(), "case expression with lock effects"))
			}
			for _, s := range x.Body {
				if b, ok := s.(*ast.BranchStmt); ok && b.Tok == token.FALLTHROUGH {
					return t.unsup(c, b.Pos(), "fallthrough")
				}
			}
			anyBreak = anyBreak || breaksOut(x.Body)
			alts = append(alts, t.stmts(c.nested(), x.Body))
		case *ast.CommClause:
			if x.Comm == nil {
				hasDefault = true
			}
			anyBreak = anyBreak || breaksOut(x.Body)
			alts = append(alts, seq(t.stmt(c.nested(), x.Comm), t.stmts(c.nested(), x.Body)))
		}
	}
	if addSkipWithoutDefault && !hasDefault {
		alts = append(alts, skipS)
	}
	if len(alts) == 0 {
		return skipS
	}
	r := alts[len(alts)-1]
	for i := len(alts) - 2; i >= 0; i-- {
		r = choice(t.line(pos), alts[i], r)
	}
	if anyBreak && r.has("brk") {
		r = block(r)
	}
	return seq(seqs(pre...), r)
}

// ---- expressions --------------------------------------------------------------------

// expr collects, in evaluation order, the lock-relevant calls of an expression.
func (t *Tr) expr(c ctx, e ast.Expr) *S {
	switch x := e.(type) {
	case nil:
		return skipS
	case *ast.Ident, *ast.BasicLit, *ast.FuncLit:
		return skipS
	case *ast.ParenExpr:
		return t.expr(c, x.X)
	case *ast.SelectorExpr:
		return t.expr(c, x.X)
	case *ast.StarExpr:
		return t.expr(c, x.X)
	case *ast.UnaryExpr:
		return t.expr(c, x.X)
	case *ast.TypeAssertExpr:
		return t.expr(c, x.X)
	case *ast.IndexExpr:
		return seq(t.expr(c, x.X), t.expr(c, x.Index))
	case *ast.IndexListExpr:
		return t.expr(c, x.X)
	case *ast.SliceExpr:
		return seqs(t.expr(c, x.X), t.expr(c, x.Low), t.expr(c, x.High), t.expr(c, x.Max))
	case *ast.KeyValueExpr:
		return seq(t.expr(c, x.Key), t.expr(c, x.Value))
	case *ast.CompositeLit:
		var out []*S
		for _, el := range x.Elts {
			out = append(out, t.expr(c, el))
		}
		return seqs(out...)
	case *ast.BinaryExpr:
		l, r := t.expr(c, x.X), t.expr(c, x.Y)
		if x.Op == token.LAND || x.Op == token.LOR {
			return seq(l, choice(t.line(x.Pos()), r, skipS))
		}
		return seq(l, r)
	case *ast.CallExpr:
		var out []*S
		// a conversion or builtin has no callee; arguments first
		if sel, ok := ast.Unparen(x.Fun).(*ast.SelectorExpr); ok {
			if !t.isLockOrPileCall(c, x) {
				out = append(out, t.expr(c, sel.X))
			}
		} else if _, ok := ast.Unparen(x.Fun).(*ast.FuncLit); !ok {
			out = append(out, t.expr(c, x.Fun))
		}
		if !t.isLockOrPileCall(c, x) {
			for _, a := range x.Args {
				out = append(out, t.expr(c, a))
			}
		}
		out = append(out, t.call(c, x, false))
		return seqs(out...)
	case *ast.ArrayType, *ast.MapType, *ast.ChanType, *ast.FuncType, *ast.StructType, *ast.InterfaceType, *ast.Ellipsis:
		return skipS
	}
	return t.unsup(c, e.Pos(), "expression %T", e)
}

func (t *Tr) isLockOrPileCall(c ctx, call *ast.CallExpr) bool {
	fn := calleeOf(c.pkg.TypesInfo, call)
	if fn == nil {
		return false
	}
	full := fn.FullName()
	if _, ok := syncOps[full]; ok {
		return true
	}
	return strings.HasPrefix(full, "(*"+pilePkg+".LockPile).")
}

var syncOps = map[string]string{
	"(*sync.Mutex).Lock":                  "acq",
	"(*sync.Mutex).Unlock":                "rel",
	"(*sync.RWMutex).Lock":                "acq",
	"(*sync.RWMutex).Unlock":              "rel",
	"(*sync.RWMutex).RLock":               "racq",
	"(*sync.RWMutex).RUnlock":             "rrel",
	"(sync.Locker).Lock":                  "acq",
	"(sync.Locker).Unlock":                "rel",
	"(*sync.Mutex).TryLock":               "try",
	"(*sync.RWMutex).TryLock":             "try",
	"(*sync.RWMutex).TryRLock":            "try",
	"(" + pilePkg + ".TryLocker).TryLock": "try",
	"(" + pilePkg + ".TryLocker).Lock":    "acq",
	"(" + pilePkg + ".TryLocker).Unlock":  "rel",
}

// call translates the call itself (arguments were handled by the caller).
func (t *Tr) call(c ctx, call *ast.CallExpr, isDefer bool) *S {
	info := c.pkg.TypesInfo
	fun := ast.Unparen(call.Fun)

	// immediately invoked literal: inline
	if lit, ok := fun.(*ast.FuncLit); ok {
		return t.inlineLit(c, lit, call)
	}
	if id, ok := fun.(*ast.Ident); ok {
		if id.Name == "panic" && info.Uses[id] != nil && info.Uses[id].Parent() == types.Universe {
			return atom("panic")
		}
		if (id.Name == "delete" || id.Name == "clear") && info.Uses[id] != nil && info.Uses[id].Parent() == types.Universe && len(call.Args) > 0 {
			return t.touch(c, call.Args[0])
		}
		// local variable bound once to a literal: inline its body
		if v, ok := info.Uses[id].(*types.Var); ok {
			if rhs, ok := c.fn.litFor(v); ok {
				return t.inlineLit(c, rhs, call)
			}
		}
	}
	if g := t.guardedMethodCall(c, call); g.K != "skip" {
		return g
	}
	fn := calleeOf(info, call)
	if fn == nil {
		// call through a function value (or a conversion): the callee is unknown and
		// erased, but closures passed to it may be invoked during the call
		return t.callbacks(c, call)
	}
	full := fn.FullName()
	if op, ok := syncOps[full]; ok {
		sel := fun.(*ast.SelectorExpr)
		name, class := t.canon(c, sel.X), t.classOf(c, sel.X)
		switch op {
		case "acq":
			return &S{K: "acq", L: t.lockID(class, name)}
		case "rel":
			return &S{K: "rel", L: t.lockID(class, name)}
		case "racq":
			return &S{K: "acq", L: t.lockID(class, name+"#R")}
		case "rrel":
			return &S{K: "rel", L: t.lockID(class, name+"#R")}
		}
		return t.unsup(c, call.Pos(), "TryLock")
	}
	if strings.HasPrefix(full, "(*"+pilePkg+".LockPile).") {
		sel := fun.(*ast.SelectorExpr)
		p := t.piles.id(t.canon(c, sel.X))
		switch fn.Name() {
		case "Lock":
			var out []*S
			for _, a := range call.Args {
				out = append(out, &S{K: "pileLock", P: p, L: t.lockID(t.classOf(c, a), t.canon(c, a))})
			}
			if call.Ellipsis.IsValid() {
				return t.unsup(c, call.Pos(), "LockPile.Lock with a spread argument")
			}
			return seqs(out...)
		case "Unlock":
			a := call.Args[0]
			return &S{K: "pileUnlock", P: p, L: t.lockID(t.classOf(c, a), t.canon(c, a))}
		case "UnlockAll":
			return &S{K: "pileUnlockAll", P: p}
		}
		return t.unsup(c, call.Pos(), "LockPile.%s", fn.Name())
	}
	g := t.byObj[fn]
	if g == nil {
		// Interface method: class hierarchy analysis. The call may dispatch to any
		// translated method of that name whose receiver implements the interface
		// (or to an implementation outside the translated files: the `skip` branch).
		// For lock balance this changes nothing (implementations are exported
		// methods, whose summary must be empty); it makes the locks they take
		// visible to the acquired-while-holding relation.
		if sel, ok := fun.(*ast.SelectorExpr); ok {
			if s, ok := info.Selections[sel]; ok && types.IsInterface(s.Recv()) && !t.noCHA {
				alts := skipS
				impls := t.implementations(s.Recv(), fn.Name())
				for i := len(impls) - 1; i >= 0; i-- {
					alts = choice(t.line(call.Pos()), t.callTo(c, impls[i], fun, call), alts)
				}
				// implementations outside the translated files may invoke closure arguments
				return seq(t.callbacks(c, call), alts)
			}
		}
		// A concrete function or method outside the translated files (errgroup.Group.Go,
		// sort.Slice, …): erased; its closure arguments are translated as functions of
		// their own (they may run on another goroutine).
		return skipS
	}
	return t.callTo(c, g, fun, call)
}

// callbacks: a function literal passed as an argument to a callee whose body is
// not translated (function value, interface method, other package) may be invoked
// synchronously during that call. Rendered as "may call it, or not", so that
// locks taken by the callback while the caller's locks are held are seen by the
// checker and by the acquired-while-holding relation (e.g. a ChildFilter invoked
// under a directory lock whose `remove` closure re-enters the directory).
func (t *Tr) callbacks(c ctx, call *ast.CallExpr) *S {
	if tv, ok := c.pkg.TypesInfo.Types[call.Fun]; ok && tv.IsType() {
		return skipS // conversion
	}
	out := skipS
	for i := len(call.Args) - 1; i >= 0; i-- {
		if lit, ok := ast.Unparen(call.Args[i]).(*ast.FuncLit); ok {
			if g := t.byLit[lit]; g != nil {
				cb := &S{K: "call", Tag: t.line(lit.Pos()), Call: &CallSite{Callee: g, Actual: map[string]string{}}}
				out = seq(choice(t.line(lit.Pos()), cb, skipS), out)
			}
		}
	}
	return out
}

// implementations returns the translated methods named `name` whose receiver
// type implements the interface type `iface`, in a stable order.
func (t *Tr) implementations(ifaceT types.Type, name string) []*Fn {
	iface, ok := ifaceT.Underlying().(*types.Interface)
	if !ok {
		return nil
	}
	key := types.TypeString(ifaceT, nil) + "." + name
	if r, ok := t.implCache[key]; ok {
		return r
	}
	var out []*Fn
	for _, g := range t.fns {
		if g.Obj == nil || g.Obj.Name() != name || g.InlineOnly {
			continue
		}
		r := g.Obj.Type().(*types.Signature).Recv()
		if r == nil {
			continue
		}
		rt := r.Type()
		if _, isPtr := rt.(*types.Pointer); !isPtr {
			rt = types.NewPointer(rt)
		}
		if types.Implements(rt, iface) {
			out = append(out, g)
		}
	}
	sort.Slice(out, func(i, j int) bool { return out[i].Name < out[j].Name })
	if t.implCache == nil {
		t.implCache = map[string][]*Fn{}
	}
	t.implCache[key] = out
	return out
}

// callTo renders a call of the translated function g.
func (t *Tr) callTo(c ctx, g *Fn, fun ast.Expr, call *ast.CallExpr) *S {
	// formal -> actual text
	actual := map[string]string{}
	sig := g.Obj.Type().(*types.Signature)
	hasPile := false
	if r := sig.Recv(); r != nil && r.Name() != "" && r.Name() != "_" {
		if sel, ok := fun.(*ast.SelectorExpr); ok {
			actual[r.Name()] = t.canon(c, sel.X)
		}
	}
	for i := 0; i < sig.Params().Len(); i++ {
		p := sig.Params().At(i)
		if isPileType(p.Type()) {
			hasPile = true
		}
		if sig.Variadic() && i == sig.Params().Len()-1 {
			break
		}
		if i < len(call.Args) && p.Name() != "" && p.Name() != "_" {
			actual[p.Name()] = t.canon(c, call.Args[i])
		}
	}
	if hasPile {
		return t.inlineFn(c, g, actual, call)
	}
	var fresh []string
	noteFresh := func(e ast.Expr) {
		if !t.freshLocal(c, e) {
			return
		}
		if tv, ok := c.pkg.TypesInfo.Types[e]; ok && tv.Type != nil {
			for _, gt := range t.guardIdx[shortType(tv.Type)] {
				fresh = append(fresh, gt.Locks...)
			}
		}
	}
	if sel, ok := fun.(*ast.SelectorExpr); ok {
		noteFresh(sel.X)
	}
	for _, a := range call.Args {
		noteFresh(a)
	}
	return &S{K: "call", Tag: t.line(call.Pos()), Call: &CallSite{Callee: g, Actual: actual, Fresh: fresh}}
}

// wrapFresh: a call whose callee requires "caller holds a lock of class c" and whose
// receiver/argument is an unpublished object of a type guarded by class c is bracketed by
// the acquisition and release of a synthetic lock of that class ("ownership of a fresh
// object").
func (t *Tr) wrapFresh(s *S) *S {
	if s == nil {
		return nil
	}
	if s.K == "call" {
		out := s
		for _, gc := range s.Call.Callee.Needs {
			cl := t.classes.names[gc]
			if in(s.Call.Fresh, cl) {
				id := t.ownID(t.guardClass(cl, false))
				out = seqs(&S{K: "acq", L: id}, out, &S{K: "rel", L: id})
			}
		}
		return out
	}
	if s.A == nil && s.B == nil {
		return s
	}
	c := *s
	c.A, c.B = t.wrapFresh(s.A), t.wrapFresh(s.B)
	return &c
}

func (f *Fn) litFor(v *types.Var) (*ast.FuncLit, bool) {
	for g := f; g != nil; g = g.Parent {
		if e, ok := g.aliases[v]; ok {
			if lit, ok := e.(*ast.FuncLit); ok {
				return lit, true
			}
		}
	}
	return nil, false
}

func (t *Tr) inlineLit(c ctx, lit *ast.FuncLit, call *ast.CallExpr) *S {
	if c.depth > 6 {
		return t.unsup(c, call.Pos(), "closure inlining too deep (recursive closure?)")
	}
	c2 := c
	c2.top = true
	c2.depth++
	return scope(t.stmts(c2, lit.Body.List))
}

// inlineFn inlines a function that takes a *LockPile parameter: the effect on
// the caller's pile depends on the path, so it has no summary.
func (t *Tr) inlineFn(c ctx, g *Fn, actual map[string]string, call *ast.CallExpr) *S {
	if g.Decl == nil || g.Decl.Body == nil {
		return t.unsup(c, call.Pos(), "cannot inline %s", g.Name)
	}
	if c.inlining[g] || c.depth > 6 {
		return t.unsup(c, call.Pos(), "recursive inlining of %s", g.Name)
	}
	hasDefer := false
	ast.Inspect(g.Decl.Body, func(n ast.Node) bool {
		if _, ok := n.(*ast.DeferStmt); ok {
			hasDefer = true
		}
		return true
	})
	if hasDefer {
		return t.unsup(c, call.Pos(), "inlined function %s contains defer", g.Name)
	}
	locals := map[*types.Var]bool{}
	ast.Inspect(g.Decl.Body, func(n ast.Node) bool {
		if id, ok := n.(*ast.Ident); ok {
			if v, ok := g.Pkg.TypesInfo.Defs[id].(*types.Var); ok {
				locals[v] = true
			}
		}
		return true
	})
	inl := map[*Fn]bool{g: true}
	for k := range c.inlining {
		inl[k] = true
	}
	short := g.Name[strings.LastIndex(g.Name, ".")+1:]
	c2 := ctx{fn: g, pkg: g.Pkg, env: actual, prefix: c.prefix + short + "·", locals: locals, top: true, depth: c.depth + 1, inlining: inl}
	// flags of the inlined function keep their own ids (g.flagOf); aliases too.
	return scope(t.stmts(c2, g.Decl.Body.List))
}

// ---- summaries ----------------------------------------------------------------------

// sigLock turns a name of sigma.json (over the function's formals) into a lock id.
func (t *Tr) sigLock(f *Fn, name string) (int, error) {
	base := strings.TrimSuffix(name, "#R")
	parts := strings.Split(base, ".")
	v, ok := f.Formals[parts[0]]
	if !ok {
		// maybe a captured variable of an enclosing function (literals)
		for g := f.Parent; g != nil && !ok; g = g.Parent {
			v, ok = g.Formals[parts[0]]
		}
		if !ok {
			return 0, fmt.Errorf("%s: %q is not rooted in a receiver/parameter", f.Name, name)
		}
	}
	ty := v.Type()
	class := "local " + shortType(ty)
	for i := 1; i < len(parts); i++ {
		obj, _, _ := types.LookupFieldOrMethod(ty, true, f.Pkg.Types, parts[i])
		if obj == nil {
			return 0, fmt.Errorf("%s: no field %s in %s", f.Name, parts[i], ty)
		}
		class = shortType(ty) + "." + parts[i]
		ty = obj.Type()
	}
	return t.lockID(class, name), nil
}

func substName(name string, actual map[string]string) (string, bool) {
	r := rootOf(name)
	if a, ok := actual[r]; ok {
		return a + name[len(r):], true
	}
	return name, false
}

func (t *Tr) classOfLock(id int) string { return t.lockKey[id][0] }
func (t *Tr) nameOfLock(id int) string {
	if id%1000 == 999 {
		return "‹caller›"
	}
	return t.lockKey[id][1]
}

// collect lock ids mentioned directly
func (s *S) lockIDs(acc map[int]bool) {
	if s == nil {
		return
	}
	switch s.K {
	case "acq", "rel", "pileLock", "pileUnlock":
		acc[s.L] = true
	}
	s.A.lockIDs(acc)
	s.B.lockIDs(acc)
}

// lock ids acquired directly
func (s *S) acqIDs(acc map[int]bool) {
	if s == nil {
		return
	}
	if (s.K == "acq" || s.K == "pileLock") && s.L%1000 != 998 {
		acc[s.L] = true
	}
	s.A.acqIDs(acc)
	s.B.acqIDs(acc)
}

// lock ids released directly
func (s *S) relIDs(acc map[int]bool) {
	if s == nil {
		return
	}
	if s.K == "rel" || s.K == "pileUnlock" {
		acc[s.L] = true
	}
	s.A.relIDs(acc)
	s.B.relIDs(acc)
}

// guard-class alternatives of the need nodes
func (s *S) needs(acc *[][]int) {
	if s == nil {
		return
	}
	if s.K == "need" {
		*acc = append(*acc, s.Ren2)
	}
	s.A.needs(acc)
	s.B.needs(acc)
}

// dropNeeds removes the need nodes selected by `drop`.
func (s *S) dropNeeds(drop func([]int) bool) *S {
	if s == nil {
		return nil
	}
	if s.K == "need" && drop(s.Ren2) {
		return skipS
	}
	if s.A == nil && s.B == nil {
		return s
	}
	c := *s
	c.A, c.B = s.A.dropNeeds(drop), s.B.dropNeeds(drop)
	return &c
}

// inferNeeds infers, for every function that mutates guarded state (directly or
// through calls) without taking a lock of the guarding class itself, the entry
// requirement "my caller holds a lock of that class": the ghost lock of the class is
// added to the function's summary (req and post). The checker then verifies the touches
// inside the function against the ghost and, at every translated call site, that the
// caller really holds a lock of that class (callA). Exported functions and methods
// get no such requirement: they must take the lock themselves.
// State guarded by "lock A or lock B" (NFSv4.1 client state) is only checked in
// functions that take one of the locks themselves; in helpers these touches are dropped
// and the helper is listed (returned).
func (t *Tr) inferNeeds(rel []*Fn) []string {
	base := func(gc int) int { return t.baseOf[gc] }
	selfAcq := map[*Fn]map[int]bool{}
	for _, f := range rel {
		m := map[int]bool{}
		ids := map[int]bool{}
		f.Body.acqIDs(ids)
		for _, id := range append(append([]int{}, f.Req...), f.Post...) {
			ids[id] = true
		}
		var cs []*CallSite
		f.Body.calls(&cs)
		for _, c := range cs {
			for _, id := range c.Callee.Post {
				ids[id] = true
			}
		}
		for id := range ids {
			m[base(id/1000)] = true
		}
		selfAcq[f] = m
	}
	// either-lock touches in functions that take none of the alternatives
	var either []string
	for _, f := range rel {
		dropped := false
		f.Body = f.Body.dropNeeds(func(cs []int) bool {
			bases := map[int]bool{}
			for _, c := range cs {
				bases[base(c)] = true
			}
			if len(bases) < 2 {
				return false
			}
			for b := range bases {
				if selfAcq[f][b] {
					return false
				}
			}
			dropped = true
			return true
		})
		if dropped {
			either = append(either, f.Name)
		}
	}
	need := map[*Fn]map[int]bool{}
	for _, f := range rel {
		need[f] = map[int]bool{}
	}
	forced := func(f *Fn) ([]string, bool) { v, ok := t.guards.Needs[f.Name]; return v, ok }
	for changed := true; changed; {
		changed = false
		for _, f := range rel {
			if _, ok := forced(f); ok || (f.Exported && !f.HeapCallback) {
				continue
			}
			var want []int
			var ns [][]int
			f.Body.needs(&ns)
			for _, cs := range ns {
				held := false
				for _, c := range cs {
					if selfAcq[f][base(c)] {
						held = true
					}
				}
				if !held {
					want = append(want, base(cs[0]))
				}
			}
			var cs []*CallSite
			f.Body.calls(&cs)
			for _, c := range cs {
				for gc := range need[c.Callee] {
					want = append(want, gc)
				}
			}
			for _, gc := range want {
				if !selfAcq[f][gc] && !need[f][gc] {
					need[f][gc] = true
					changed = true
				}
			}
		}
	}
	for _, f := range rel {
		if v, ok := forced(f); ok {
			for _, cl := range v {
				need[f][t.guardClass(cl, false)] = true
			}
		}
		for gc := range need[f] {
			f.Needs = append(f.Needs, gc)
		}
		sort.Ints(f.Needs)
		for _, gc := range f.Needs {
			f.Req = append(f.Req, t.ghostID(gc))
			f.Post = append(f.Post, t.ghostID(gc))
		}
	}
	for _, f := range rel {
		f.Body = t.wrapFresh(f.Body)
	}
	sort.Strings(either)
	return either
}

func (s *S) calls(acc *[]*CallSite) {
	if s == nil {
		return
	}
	if s.K == "call" {
		*acc = append(*acc, s.Call)
	}
	s.A.calls(acc)
	s.B.calls(acc)
}

// finishCalls computes the lock names each function mentions (rooted in its
// formals) and the renaming of every call site.
func (t *Tr) finishCalls() {
	rooted := func(f *Fn, id int) bool {
		_, ok := f.Formals[rootOf(t.nameOfLock(id))]
		return ok
	}
	for _, f := range t.fns {
		f.Mentions = map[int]bool{}
		if f.Body == nil {
			continue
		}
		direct := map[int]bool{}
		f.Body.lockIDs(direct)
		for _, id := range append(append([]int{}, f.Req...), f.Post...) {
			direct[id] = true
		}
		for id := range direct {
			if rooted(f, id) {
				f.Mentions[id] = true
			}
		}
	}
	// One pass: a call site renames the lock names that the callee's summary and
	// body mention directly. (Names that only occur deeper in the call tree keep the
	// callee's spelling; with recursion through interface dispatch a transitive
	// closure would not be finite: l.pool.lock, l.Leaf.pool.lock, …)
	for _, f := range t.fns {
		if f.Body == nil {
			continue
		}
		var cs []*CallSite
		f.Body.calls(&cs)
		for _, c := range cs {
			ids := make([]int, 0, len(c.Callee.Mentions))
			for id := range c.Callee.Mentions {
				ids = append(ids, id)
			}
			sort.Ints(ids)
			c.Ren = c.Ren[:0]
			for _, id := range ids {
				nn, ok := substName(t.nameOfLock(id), c.Actual)
				if !ok {
					continue
				}
				nid := t.lockID(t.classOfLock(id), nn)
				if nid != id {
					c.Ren = append(c.Ren, [2]int{id, nid})
				}
			}
		}
	}
}
