package main

import (
	"fmt"
	"os"
	"time"

	"golang.org/x/tools/go/packages"
)

func main() {
	t0 := time.Now()
	cfg := &packages.Config{Dir: os.Args[1], Mode: packages.NeedName | packages.NeedFiles | packages.NeedSyntax | packages.NeedTypes | packages.NeedTypesInfo | packages.NeedImports | packages.NeedDeps,
		Env: append(os.Environ(), "GOFLAGS=-mod=mod", "GOPROXY=off")}
	pkgs, err := packages.Load(cfg, os.Args[2:]...)
	if err != nil {
		panic(err)
	}
	for _, p := range pkgs {
		fmt.Println(p.PkgPath, len(p.Syntax), len(p.Errors), time.Since(t0))
		for _, e := range p.Errors {
			fmt.Println("  ", e)
		}
	}
}
