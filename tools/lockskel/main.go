// lockskel translates the functions of the Go files anchored by property C14
// into lock skeletons (BbRe.LockSkel.Stmt) and writes them as a Lean file.
// It is re-run by ./check on every invocation, so the Lean obligations are
// always about the source as it is now.
//
//	go run . -repo /repo -out ../../lean/BbRe/Generated/LockSkel.lean
//
// Everything that is not a lock operation, a LockPile operation, a call to
// another translated function, or control flow is erased. Constructs that
// cannot be expressed become `unsupported` nodes (the Lean checker rejects
// them); functions listed in skip.json are not translated and are listed, with
// the reason, in the generated file. Non-default summaries (locks required on
// entry / held on return) come from sigma.json and are verified by the checker
// at the definition and at every call site.
package main

import (
	"encoding/json"
	"flag"
	"fmt"
	"go/ast"
	"go/token"
	"go/types"
	"os"
	"path/filepath"
	"sort"
	"strconv"
	"strings"

	"golang.org/x/tools/go/packages"
)

// Files whose functions are translated (relative to the repository root).
var defaultFiles = []string{
	"pkg/filesystem/virtual/in_memory_prepopulated_directory.go",
	"pkg/filesystem/virtual/pool_backed_file_allocator.go",
	"pkg/filesystem/virtual/nfs_handle_allocator.go",
	"pkg/filesystem/virtual/nfsv4/nfs40_program.go",
	"pkg/filesystem/virtual/nfsv4/nfs41_program.go",
	"pkg/filesystem/virtual/nfsv4/opened_files_pool.go",
	"pkg/cleaner/idle_invoker.go",
	"pkg/scheduler/in_memory_build_queue.go",
	"pkg/sync/lock_pile.go",
	"pkg/filesystem/pool/bitmap_sector_allocator.go",
	"pkg/filesystem/pool/block_device_backed_file_pool.go",
	"pkg/filesystem/pool/quota_enforcing_file_pool.go",
	"pkg/filesystem/pool/metrics_file_pool.go",
	"pkg/filesystem/pool/empty_file_pool.go",
	"pkg/filesystem/pool/hole_source.go",
	"pkg/blobstore/batched_store_blob_access.go",
	"pkg/blobstore/blob_access_mutable_proto_store.go",
}

func die(format string, a ...any) {
	fmt.Fprintf(os.Stderr, "lockskel: "+format+"\n", a...)
	os.Exit(1)
}

func loadJSON(path string, v any) {
	b, err := os.ReadFile(path)
	if err != nil {
		die("%v", err)
	}
	if err := json.Unmarshal(b, v); err != nil {
		die("%s: %v", path, err)
	}
}

func leanStr(s string) string { return strconv.Quote(s) }

func main() {
	repo := flag.String("repo", "/repo", "repository root")
	out := flag.String("out", "", "Lean file to write")
	obl := flag.String("obl", "", "Lean file with the generated obligations (default: ../Properties/C14Generated.lean next to -out)")
	filesFlag := flag.String("files", "", "comma separated list of files (default: the C14 anchors)")
	sigmaPath := flag.String("sigma", "sigma.json", "declared non-default summaries")
	skipPath := flag.String("skip", "skip.json", "functions that are not translated, with reasons")
	guardsPath := flag.String("guards", "guards.json", "guarded-by table")
	verbose := flag.Bool("v", false, "print per-function skeleton sizes")
	noCHA := flag.Bool("nocha", false, "do not resolve interface method calls to the translated implementations")
	flag.Parse()

	abs, err := filepath.Abs(*repo)
	if err != nil {
		die("%v", err)
	}
	files := defaultFiles
	if *filesFlag != "" {
		files = strings.Split(*filesFlag, ",")
	}
	t := &Tr{repo: abs, byObj: map[*types.Func]*Fn{}, byLit: map[*ast.FuncLit]*Fn{},
		sigma: map[string]SigmaEntry{}, skip: map[string]string{}, sigmaUsed: map[string]bool{}, skipUsed: map[string]bool{}}
	t.noCHA = *noCHA
	t.lockIDs, t.lockKey, t.serial, t.guardIdx = map[string]int{}, map[int][2]string{}, map[int]int{}, map[string][]GuardType{}
	loadJSON(*guardsPath, &t.guards)
	for _, g := range t.guards.Types {
		t.guardIdx[g.Type] = append(t.guardIdx[g.Type], g)
	}
	loadJSON(*sigmaPath, &t.sigma)
	loadJSON(*skipPath, &t.skip)

	wanted := map[string]bool{}
	dirs := map[string]bool{}
	for _, f := range files {
		p := filepath.Join(abs, f)
		if _, err := os.Stat(p); err != nil {
			die("anchored file is gone: %s", f)
		}
		wanted[p] = true
		dirs["./"+filepath.Dir(f)] = true
	}
	var patterns []string
	for d := range dirs {
		patterns = append(patterns, d)
	}
	sort.Strings(patterns)

	t.fset = token.NewFileSet()
	cfg := &packages.Config{
		Dir:  abs,
		Fset: t.fset,
		Mode: packages.NeedName | packages.NeedFiles | packages.NeedSyntax | packages.NeedTypes |
			packages.NeedTypesInfo | packages.NeedImports | packages.NeedDeps,
		Env: append(os.Environ(), "GOFLAGS=-mod=mod", "GOPROXY=off"),
	}
	pkgs, err := packages.Load(cfg, patterns...)
	if err != nil {
		die("loading packages: %v", err)
	}
	sort.Slice(pkgs, func(i, j int) bool { return pkgs[i].PkgPath < pkgs[j].PkgPath })
	for _, p := range pkgs {
		for _, e := range p.Errors {
			die("package %s: %v", p.PkgPath, e)
		}
	}

	// ---- function table ---------------------------------------------------------
	type pending struct {
		fn   *Fn
		body *ast.BlockStmt
	}
	var work []pending
	for _, p := range pkgs {
		for _, file := range p.Syntax {
			fname := t.fset.Position(file.Pos()).Filename
			if !wanted[fname] {
				continue
			}
			delete(wanted, fname)
			for _, d := range file.Decls {
				fd, ok := d.(*ast.FuncDecl)
				if !ok || fd.Body == nil {
					continue
				}
				obj := p.TypesInfo.Defs[fd.Name].(*types.Func)
				name := fnName(obj)
				if why, ok := t.skip[name]; ok {
					t.skipped = append(t.skipped, [2]string{name, why})
					t.skipUsed[name] = true
					continue
				}
				fn := &Fn{Name: name, Obj: obj, Decl: fd, Pkg: p, Formals: map[string]*types.Var{},
					File: strings.TrimPrefix(fname, abs+"/"), Line: t.line(fd.Pos()), Exported: fd.Name.IsExported()}
				sig := obj.Type().(*types.Signature)
				if r := sig.Recv(); r != nil && r.Name() != "" {
					fn.Formals[r.Name()] = r
				}
				for i := 0; i < sig.Params().Len(); i++ {
					v := sig.Params().At(i)
					if v.Name() != "" {
						fn.Formals[v.Name()] = v
					}
					if isPileType(v.Type()) {
						// the effect on the caller's pile depends on the path: no summary,
						// the body is inlined at every call site instead
						fn.InlineOnly = true
					}
				}
				if r := sig.Recv(); r != nil && in([]string{"Len", "Less", "Swap", "Push", "Pop"}, obj.Name()) {
					ms := types.NewMethodSet(types.NewPointer(derefNamed(r.Type())))
					all := true
					for _, n := range []string{"Len", "Less", "Swap", "Push", "Pop"} {
						if ms.Lookup(obj.Pkg(), n) == nil {
							all = false
						}
					}
					fn.HeapCallback = all
				}
				if fn.InlineOnly && fn.Exported {
					die("%s is exported and takes a *LockPile: cannot be inlined at unknown call sites", name)
				}
				t.fns = append(t.fns, fn)
				t.byObj[obj] = fn
				work = append(work, pending{fn, fd.Body})
			}
		}
	}
	for f := range wanted {
		die("file %s is not part of a loaded package", f)
	}

	// function literals: those that are not invoked in place become functions of their own
	for _, w := range work {
		t.analyse(w.fn, w.body, w.fn.Pkg.TypesInfo)
		t.findLits(w.fn, w.body)
	}

	// ---- summaries ------------------------------------------------------------------
	for _, f := range t.fns {
		if e, ok := t.sigma[f.Name]; ok {
			t.sigmaUsed[f.Name] = true
			f.SigWhy = e.Why
			for _, n := range e.Req {
				id, err := t.sigLock(f, n)
				if err != nil {
					die("sigma.json: %v", err)
				}
				f.Req = append(f.Req, id)
			}
			for _, n := range e.Post {
				id, err := t.sigLock(f, n)
				if err != nil {
					die("sigma.json: %v", err)
				}
				f.Post = append(f.Post, id)
			}
		}
	}
	for n := range t.sigma {
		if !t.sigmaUsed[n] {
			die("sigma.json names %s, which does not exist (any more); remove or rename the entry", n)
		}
	}
	for n := range t.skip {
		if !t.skipUsed[n] {
			die("skip.json names %s, which does not exist (any more); remove or rename the entry", n)
		}
	}

	// ---- translate ------------------------------------------------------------------
	for _, f := range t.fns {
		var body *ast.BlockStmt
		if f.Decl != nil {
			body = f.Decl.Body
		} else {
			body = f.Lit.Body
		}
		c := ctx{fn: f, pkg: f.Pkg, top: true}
		f.Body = t.stmts(c, body.List)
		if *verbose {
			fmt.Fprintf(os.Stderr, "translated %s size=%d\n", f.Name, f.Body.size())
		}
	}

	// ---- relevance: functions whose skeleton is empty are dropped, calls to them erased ----
	for _, f := range t.fns {
		f.Relevant = len(f.Req) > 0 || len(f.Post) > 0
		if f.InlineOnly {
			f.Body = skipS // never called (inlined), no obligation of its own
		}
	}
	isRel := func(g *Fn) bool { return g.Relevant }
	for changed := true; changed; {
		changed = false
		for _, f := range t.fns {
			if !f.Relevant && f.Body.relevantAtoms(isRel) {
				f.Relevant = true
				changed = true
			}
		}
	}
	for _, f := range t.fns {
		f.Body = f.Body.prune(isRel)
	}
	id := 0
	var rel []*Fn
	for _, f := range t.fns {
		if f.Relevant {
			f.ID = id
			id++
			rel = append(rel, f)
		}
	}
	eitherLock := t.inferNeeds(rel)
	t.finishCalls()

	// classes every function may acquire / release, directly or through calls
	// (acqTbl is verified closed in Lean: acqClosed)
	closure := func(direct func(*S, map[int]bool)) map[*Fn]map[int]bool {
		m := map[*Fn]map[int]bool{}
		for _, f := range rel {
			m[f] = map[int]bool{}
			ids := map[int]bool{}
			direct(f.Body, ids)
			for id := range ids {
				m[f][t.baseOf[id/1000]] = true
			}
		}
		for changed := true; changed; {
			changed = false
			for _, f := range rel {
				var cs []*CallSite
				f.Body.calls(&cs)
				for _, c := range cs {
					for cl := range m[c.Callee] {
						if !m[f][cl] {
							m[f][cl] = true
							changed = true
						}
					}
				}
			}
		}
		return m
	}
	acq := closure(func(b *S, ids map[int]bool) { b.acqIDs(ids) })
	relc := closure(func(b *S, ids map[int]bool) { b.relIDs(ids) })

	// ---- emit -----------------------------------------------------------------------
	bodies := map[*Fn]string{}
	for _, f := range rel {
		var bb strings.Builder
		f.Body.lean(&bb, &t.whys)
		bodies[f] = bb.String()
	}
	var b strings.Builder
	b.WriteString("-- GENERATED by tools/lockskel from the Go sources; regenerated by ./check on every run. Do not edit.\n")
	b.WriteString("import BbRe.Model.LockSkel\n")
	b.WriteString("set_option maxRecDepth 100000\n")
	b.WriteString("namespace BbRe.Generated.LockSkel\nopen BbRe.LockSkel\n\n")
	writeStrList := func(name string, xs []string, doc string) {
		fmt.Fprintf(&b, "/-- %s -/\ndef %s : List String := [", doc, name)
		for i, x := range xs {
			if i > 0 {
				b.WriteString(",")
			}
			b.WriteString("\n  " + leanStr(x))
		}
		b.WriteString("]\n\n")
	}
	sort.Strings(files)
	writeStrList("files", files, "translated Go files")
	b.WriteString("/-- lock id (= 1000 * guard class + serial) ↦ `class|canonical expression` (`#R` = read mode of an RWMutex) -/\ndef lockNames : List (Nat × String) := [")
	for i, id := range t.lockOrder {
		if i > 0 {
			b.WriteString(",")
		}
		fmt.Fprintf(&b, "\n  (%d, %s)", id, leanStr(t.lockKey[id][0]+"|"+t.lockKey[id][1]))
	}
	b.WriteString("]\n\n")
	writeStrList("classNames", t.classes.names, "guard classes: `package.Type.field`, and `…#R` for the read mode of an RWMutex")
	fmt.Fprintf(&b, "/-- guard class ↦ edge class = base class (the read mode is merged with the mutex) -/\ndef edgeClass : List Nat := %s\n\n", natList(t.baseOf))
	writeStrList("pileNames", t.piles.names, "LockPile variables")
	writeStrList("flagNames", t.flags.names, "lock-tracking boolean locals")
	writeStrList("whyNames", t.whys.names, "reasons of `unsupported` nodes")
	var fnNames []string
	for _, f := range rel {
		fnNames = append(fnNames, fmt.Sprintf("%s @%s:%d", f.Name, f.File, f.Line))
	}
	writeStrList("fnNames", fnNames, "function id ↦ name @file:line")
	var trivial, inlined []string
	for _, f := range t.fns {
		if f.InlineOnly {
			inlined = append(inlined, f.Name)
		} else if !f.Relevant {
			trivial = append(trivial, f.Name)
		}
	}
	writeStrList("inlinedFns", inlined, "functions taking a *LockPile parameter: inlined at every call site, no obligation of their own")
	writeStrList("trivialFns", trivial, "translated functions whose skeleton is empty (no lock operation, no call to a function with one); calls to them are erased")
	b.WriteString("/-- functions that are not translated (tools/lockskel/skip.json), with the reason -/\ndef skipped : List (String × String) := [")
	sort.Slice(t.skipped, func(i, j int) bool { return t.skipped[i][0] < t.skipped[j][0] })
	for i, s := range t.skipped {
		if i > 0 {
			b.WriteString(",")
		}
		fmt.Fprintf(&b, "\n  (%s, %s)", leanStr(s[0]), leanStr(s[1]))
	}
	b.WriteString("]\n\n")
	b.WriteString("/-- declared non-default summaries (tools/lockskel/sigma.json), with the justification -/\ndef declared : List (String × String) := [")
	first := true
	for _, f := range rel {
		if t.sigmaUsed[f.Name] {
			if !first {
				b.WriteString(",")
			}
			first = false
			fmt.Fprintf(&b, "\n  (%s, %s)", leanStr(f.Name), leanStr(f.SigWhy))
		}
	}
	b.WriteString("]\n\n")
	callers := map[*Fn]int{}
	for _, f := range rel {
		var cs []*CallSite
		f.Body.calls(&cs)
		for _, c := range cs {
			callers[c.Callee]++
		}
	}
	var inferred, uncalled []string
	for _, f := range rel {
		if len(f.Needs) == 0 {
			continue
		}
		var cl []string
		for _, gc := range f.Needs {
			cl = append(cl, t.classes.names[gc])
		}
		inferred = append(inferred, f.Name+" needs "+strings.Join(cl, ", "))
		if callers[f] == 0 {
			uncalled = append(uncalled, f.Name+" needs "+strings.Join(cl, ", "))
		}
	}
	writeStrList("inferredNeeds", inferred, "helpers that mutate guarded state without taking the lock: inferred entry requirement (ghost lock of the class in Σ), verified at every translated call site")
	writeStrList("needsWithoutCaller", uncalled, "of these, the functions without a translated caller (heap callbacks, closures run by other packages): their entry requirement is an assumption")
	writeStrList("eitherLockHelpers", eitherLock, "helpers touching NFSv4.1 state guarded by `clientsLock or clientIncarnationState.lock` without taking either: these touches are not checked")
	var exempt []string
	for n, why := range t.guards.Exempt {
		exempt = append(exempt, n+" — "+why)
	}
	sort.Strings(exempt)
	writeStrList("guardExempt", exempt, "functions whose mutations are exempt from the guarded-by check (tools/lockskel/guards.json), with the reason")
	fmt.Fprintf(&b, "/-- number of guarded-by obligations (`need` nodes) emitted -/\ndef touchCount : Nat := %d\n\n", countKind(rel, "need"))
	b.WriteString("/-- Σ: function ↦ (locks required on entry, locks held on return in their place); a lock `1000*c+999` is the ghost of class `c` (\"my caller holds a lock of class c\") -/\ndef sigma : Sig := [")
	for i, f := range rel {
		if i > 0 {
			b.WriteString(",")
		}
		fmt.Fprintf(&b, "\n  (%d, (%s, %s))", f.ID, natList(f.Req), natList(f.Post))
	}
	b.WriteString("]\n\n")
	b.WriteString("/-- function ↦ lock classes it may acquire, directly or through calls (checked by `acqClosed`) -/\ndef acqTbl : AcqTbl := [")
	for i, f := range rel {
		if i > 0 {
			b.WriteString(",")
		}
		var cl []int
		for c := range acq[f] {
			cl = append(cl, c)
		}
		sort.Ints(cl)
		fmt.Fprintf(&b, "\n  (%d, %s)", f.ID, natList(cl))
	}
	b.WriteString("]\n\n")
	b.WriteString("/-- function ↦ base lock classes it may release, directly or through calls (used by the transaction analysis `txOk`) -/\ndef relTbl : AcqTbl := [")
	for i, f := range rel {
		if i > 0 {
			b.WriteString(",")
		}
		var cl []int
		for c := range relc[f] {
			cl = append(cl, c)
		}
		sort.Ints(cl)
		fmt.Fprintf(&b, "\n  (%d, %s)", f.ID, natList(cl))
	}
	b.WriteString("]\n\n")
	var entries []int
	for _, f := range rel {
		if f.Exported && !f.HeapCallback {
			entries = append(entries, f.ID)
		}
	}
	fmt.Fprintf(&b, "/-- exported functions and methods: must be balanced and require nothing -/\ndef entries : List Nat := %s\n\n", natList(entries))
	for _, f := range rel {
		fmt.Fprintf(&b, "/-- %s (%s:%d) -/\ndef f%d : Stmt :=\n  %s\n\n", f.Name, f.File, f.Line, f.ID, bodies[f])
	}
	b.WriteString("def prog : Prog := [")
	for i, f := range rel {
		if i > 0 {
			b.WriteString(", ")
		}
		fmt.Fprintf(&b, "(%d, f%d)", f.ID, f.ID)
	}
	b.WriteString("]\n\nend BbRe.Generated.LockSkel\n")

	if *verbose {
		for _, f := range rel {
			fmt.Fprintf(os.Stderr, "%4d %5d %s\n", f.ID, f.Body.size(), f.Name)
		}
	}
	nUnsup := 0
	for _, f := range rel {
		if f.Body.has("unsupported") {
			nUnsup++
		}
	}
	fmt.Fprintf(os.Stderr, "lockskel: %d files, %d functions (%d with a non-empty skeleton, %d with unsupported constructs), %d locks, %d classes, %d skipped\n",
		len(files), len(t.fns), len(rel), nUnsup, len(t.lockOrder), len(t.classes.names), len(t.skipped))
	for _, w := range t.whys.names {
		fmt.Fprintf(os.Stderr, "lockskel: unsupported: %s\n", w)
	}
	if *out == "" {
		os.Stdout.WriteString(b.String())
		return
	}
	writeIfChanged(*out, b.String())
	if *obl == "" {
		*obl = filepath.Join(filepath.Dir(*out), "..", "Properties", "C14Generated.lean")
	}
	writeIfChanged(*obl, obligations(rel))
}

// writeIfChanged keeps the timestamp of an unchanged file so that lake does not rebuild.
func writeIfChanged(path, content string) {
	if old, err := os.ReadFile(path); err == nil && string(old) == content {
		return
	}
	if err := os.WriteFile(path, []byte(content), 0o644); err != nil {
		die("%v", err)
	}
}

func leanIdent(s string) string {
	var b strings.Builder
	for _, r := range s {
		switch {
		case r >= 'a' && r <= 'z', r >= 'A' && r <= 'Z', r >= '0' && r <= '9':
			b.WriteRune(r)
		case r == '$':
			b.WriteString("_lit")
		case r == '.':
			b.WriteString("_")
		}
	}
	return b.String()
}

// obligations renders Properties/C14Generated.lean: one kernel-evaluated theorem
// per function, assembled into `consistent sigma prog = true`.
func obligations(rel []*Fn) string {
	var b strings.Builder
	b.WriteString(`-- GENERATED by tools/lockskel together with BbRe/Generated/LockSkel.lean; regenerated by ./check on every run. Do not edit.
import BbRe.Generated.LockSkel
import BbRe.Lemmas.LockSkel
import BbRe.Lemmas.LockSkelDiag
import BbRe.Lemmas.LockSkelEdges
import BbRe.Properties.C14
/-!
# C14 — obligations about the lock skeletons generated from the current source

` + "`BbRe/Generated/LockSkel.lean`" + ` is rewritten by ` + "`tools/lockskel`" + ` from the Go sources on
every ` + "`./check C14`" + `. The theorems below are therefore re-proved against the code as
it is now, by kernel evaluation of the verified checker (` + "`decide +kernel`" + `; no
` + "`native_decide`" + `): one theorem per translated function
(` + "`checkFn sigma k f_k = true`" + `: started with exactly the locks its summary requires,
no path releases a lock that is not held, and every returning path ends holding
exactly the locks its summary promises), assembled into
` + "`skeletons_consistent : consistent sigma prog = true`" + `, which is the hypothesis of
` + "`C14.checker_sound`" + `. ` + "`entry_points_balanced`" + `: every exported function / method has
the empty summary.

The ` + "`#eval`" + ` only prints a readable explanation (function, held locks, path with Go
line numbers) when an obligation fails; it proves nothing.
-/
set_option maxRecDepth 100000
set_option Elab.async false
namespace BbRe.Properties.C14Generated
open BbRe.LockSkel BbRe.Generated.LockSkel

def names : Diag.Names where
  lock := fun i => if isGhost i then "‹a lock of class " ++ classNames.getD (gcls i) "?" ++ " held by the caller›"
    else (lockNames.lookup i).getD s!"lock#{i}"
  gclass := fun c => classNames.getD c s!"class#{c}"
  pile := fun i => pileNames.getD i s!"pile#{i}"
  fn := fun i => fnNames.getD i s!"fn#{i}"
  why := fun i => whyNames.getD i s!"why#{i}"

#eval show IO Unit from do
  let bad := Diag.explainAll names sigma prog
  if !bad.isEmpty then
    throw (IO.userError ("C14 lock balance violated: " ++ " || ".intercalate (bad.map (·.2))))

#eval show IO Unit from do
  let bad := Diag.explainTx names edgeClass relTbl prog
  if !bad.isEmpty then
    throw (IO.userError ("C14 transaction (check-then-act) violated: " ++ " || ".intercalate bad))

#eval show IO Unit from do
  let bad := Diag.explainEdges names (fun c => classNames.getD c s!"class#{c}") classNames.length edgeClass acqTbl sigma prog
  if !bad.isEmpty then
    throw (IO.userError ("C14 lock order violated: " ++ " || ".intercalate bad))

`)
	used := map[string]bool{}
	thm := make([]string, len(rel))
	for i, f := range rel {
		n := "fn_" + leanIdent(f.Name)
		for used[n] {
			n += "'"
		}
		used[n] = true
		thm[i] = n
		fmt.Fprintf(&b, "/-- %s (%s:%d) meets its summary. -/\ntheorem %s : checkFn sigma %d f%d = true := by decide +kernel\n", f.Name, f.File, f.Line, n, f.ID, f.ID)
	}
	b.WriteString("\nend BbRe.Properties.C14Generated\n\nnamespace BbRe.Generated.LockSkelChain\nopen BbRe.LockSkel BbRe.Generated.LockSkel BbRe.Lemmas.LockSkel BbRe.Properties.C14Generated\n\n")
	fmt.Fprintf(&b, "def p%d : Prog := []\ntheorem c%d : consistent sigma p%d = true := consistent_nil sigma\n", len(rel), len(rel), len(rel))
	for i := len(rel) - 1; i >= 0; i-- {
		fmt.Fprintf(&b, "def p%d : Prog := (%d, f%d) :: p%d\ntheorem c%d : consistent sigma p%d = true := consistent_cons %s c%d\n", i, rel[i].ID, rel[i].ID, i+1, i, i, thm[i], i+1)
	}
	b.WriteString("theorem prog_eq : prog = p0 := rfl\n\nend BbRe.Generated.LockSkelChain\n\nnamespace BbRe.Properties.C14Generated\nopen BbRe.LockSkel BbRe.Generated.LockSkel\n\n")
	b.WriteString(`/-- Every translated function meets its summary (hypothesis of ` + "`C14.checker_sound`" + `). -/
theorem skeletons_consistent : consistent sigma prog = true :=
  BbRe.Generated.LockSkelChain.prog_eq ▸ BbRe.Generated.LockSkelChain.c0

/-- Every exported function / method (RPC handlers, ` + "`virtual.Directory`/`Leaf`" + ` methods,
file pool, cleaner and scheduler API) has the empty summary: it requires nothing and
leaves nothing behind. -/
theorem entry_points_balanced : entriesBalanced sigma entries = true := by decide +kernel

/-- **No call leaves a lock behind** (for the code as it is now): every run of every
exported function / method of the translated files that returns — whatever branches it
took, however often its loops ran, including everything its callees did and every
error return — never released a lock it did not hold and holds no lock at the end. -/
theorem no_entry_point_leaves_a_lock_behind (f : Nat) (hf : f ∈ entries) (tr : List Ev)
    (he : Exec prog f tr) : run [] tr = some [] := by
  have hb := entry_points_balanced
  unfold entriesBalanced at hb
  have h1 := List.all_eq_true.mp hb f hf
  exact BbRe.Properties.C14.balanced_entry_leaves_nothing sigma prog skeletons_consistent f
    (by simpa using h1) tr he

/-- **Guarded-by, for the code as it is now**: in every returning run of every exported
function / method, every mutation of state listed in tools/lockskel/guards.json (a need
event) happens while a lock of a guarding class is held in write mode. -/
theorem entry_point_mutations_are_locked (f : Nat) (hf : f ∈ entries) (p q : List Ev)
    (cs : List Nat) (he : Exec prog f (p ++ Ev.need cs :: q)) :
    ∃ h1, run [] p = some h1 ∧ holdsClass h1 cs = true := by
  have hb := entry_points_balanced
  unfold entriesBalanced at hb
  have h1 := List.all_eq_true.mp hb f hf
  have hs : sigma.get f = some ([], []) := by simpa using h1
  obtain ⟨req, post, hs', h, hr, hc⟩ :=
    BbRe.Properties.C14.guarded_mutations_are_locked sigma prog skeletons_consistent f p q cs he
  rw [hs] at hs'
  cases hs'
  exact ⟨h, hr, hc⟩

/-! ### Transactions -/

/-- Declared check/act pairs on guarded state (ByteRangeLockSet.Test … Set on
OpenedFile.locks) happen within one critical section: no function acts on a check made
before the guarding lock was released. (Executable may-analysis txOk; not linked to the
path semantics by a theorem.) -/
theorem transactions_ok : txOk edgeClass relTbl prog = true := by decide +kernel

/-! ### Lock classes (part b) -/

/-- The translator's table of what each function may acquire contains all direct
acquisitions and is closed under the call graph. -/
theorem acq_table_closed : acqClosed edgeClass acqTbl prog = true := by decide +kernel

/-- All (class of a held lock, class of a lock acquired by a possibly blocking operation)
pairs of the translated code; acquisitions through a LockPile do not count the locks of
that pile as held (C14.pile_no_hold_and_wait). -/
def classEdges : Edges := (edgesProg edgeClass acqTbl sigma prog []).getD [(0, 0)]

/-- A rank per lock class, computed from the edges (Kahn's algorithm). -/
def classRanks : List (Nat × Nat) := rankTable classNames.length classEdges

/-- **The lock-class graph extracted from the current source is acyclic**: the rank is
strictly increasing along every acquired-while-holding edge. In particular there is no
edge from a class to itself: a directory lock (or any other lock) is never awaited while
another lock of the same class is held, except through a LockPile. -/
theorem class_graph_ok :
    (edgesProg edgeClass acqTbl sigma prog []).isSome = true ∧ ranksOk classRanks classEdges = true := by
  decide +kernel

/-- No call renames an ownership token (serial 998) into a real lock (side condition of
edges_sound). -/
theorem own_ok : BbRe.Lemmas.LockSkelEdges.ownOk prog = true := by decide +kernel

/-- **The extraction is sound, and every run respects the lock order** (for the code as it
is now): in every returning run of every translated function, replayed from the locks its
summary requires, every (class of a held lock, class of a lock being acquired) pair —
an acquisition through a LockPile not counting that pile's own locks as held — is an
extracted edge, hence strictly increases the class rank. -/
theorem runs_respect_lock_order (f : Nat) (tr : List Ev) (he : Exec prog f tr)
    (req post : List Nat) (hs : sigma.get f = some (req, post)) :
    ∀ e ∈ BbRe.Lemmas.LockSkelEdges.pairsRun edgeClass req (fun _ => []) tr,
      e ∈ classEdges ∧ rankOf classRanks e.1 < rankOf classRanks e.2 := by
  have hsome := class_graph_ok.1
  have hes : edgesProg edgeClass acqTbl sigma prog [] = some classEdges := by
    unfold classEdges
    cases h : edgesProg edgeClass acqTbl sigma prog [] with
    | none => rw [h] at hsome; cases hsome
    | some es => rfl
  intro e hm
  exact ⟨BbRe.Lemmas.LockSkelEdges.edges_sound edgeClass acqTbl sigma prog classEdges
      skeletons_consistent acq_table_closed own_ok hes f tr he req post hs e hm,
    BbRe.Lemmas.LockSkelEdges.pairs_ranked edgeClass acqTbl sigma prog classEdges classRanks
      skeletons_consistent acq_table_closed own_ok hes class_graph_ok.2 f tr he req post hs e hm⟩

/-- Link to C14.no_deadlock: in any state of any system of threads in which every
(held lock, awaited lock) pair of a blocked thread is one of the extracted edges
(lc = class of a run-time lock), hypothesis H holds for the order rank ∘ class;
hence the wait-for graph is acyclic. -/
theorem lock_order_gives_H (holds : Nat → Nat → Prop) (waits : Nat → Option Nat) (lc : Nat → Nat)
    (hsrc : ∀ t l l', waits t = some l → holds t l' → (lc l', lc l) ∈ classEdges) :
    BbRe.Lemmas.LockPile.H holds waits (fun l => rankOf classRanks (lc l)) := by
  intro t l hl
  right
  intro l' hh
  have h := class_graph_ok.2
  unfold ranksOk at h
  have := List.all_eq_true.mp h _ (hsrc t l l' hl hh)
  simpa using this

theorem no_deadlock_by_lock_order (holds : Nat → Nat → Prop) (waits : Nat → Option Nat) (lc : Nat → Nat)
    (hsrc : ∀ t l l', waits t = some l → holds t l' → (lc l', lc l) ∈ classEdges)
    (t0 : Nat) (rest : List Nat) :
    ¬ BbRe.Lemmas.LockPile.Chain (BbRe.Lemmas.LockPile.Edge holds waits) t0 (rest ++ [t0]) :=
  BbRe.Properties.C14.no_deadlock (lock_order_gives_H holds waits lc hsrc) t0 rest

/-- The translation is not vacuous. -/
theorem covers_anchored_code : 60 ≤ entries.length ∧ 120 ≤ prog.length ∧ 25 ≤ lockNames.length ∧ 200 ≤ touchCount := by decide +kernel

end BbRe.Properties.C14Generated
`)
	return b.String()
}

func countKind(rel []*Fn, k string) int {
	n := 0
	var walk func(s *S)
	walk = func(s *S) {
		if s == nil {
			return
		}
		if s.K == k {
			n++
		}
		walk(s.A)
		walk(s.B)
	}
	for _, f := range rel {
		walk(f.Body)
	}
	return n
}

func derefNamed(ty types.Type) types.Type {
	if p, ok := ty.(*types.Pointer); ok {
		return p.Elem()
	}
	return ty
}

func natList(xs []int) string {
	var b strings.Builder
	b.WriteString("[")
	for i, x := range xs {
		if i > 0 {
			b.WriteString(", ")
		}
		fmt.Fprintf(&b, "%d", x)
	}
	b.WriteString("]")
	return b.String()
}

func fnName(obj *types.Func) string {
	sig := obj.Type().(*types.Signature)
	pkg := obj.Pkg().Name()
	if r := sig.Recv(); r != nil {
		ty := r.Type()
		ptr := ""
		if p, ok := ty.(*types.Pointer); ok {
			ty = p.Elem()
			ptr = "*"
		}
		if n, ok := ty.(*types.Named); ok {
			return fmt.Sprintf("%s.(%s%s).%s", pkg, ptr, n.Obj().Name(), obj.Name())
		}
	}
	return pkg + "." + obj.Name()
}

// findLits registers the function literals of a declaration. A literal that is
// invoked in place (`func(){…}()`, `defer func(){…}()`) or bound once to a local
// variable that is only ever called is inlined at its calls; every other
// literal (callback, goroutine body, stored closure) becomes a function of its
// own, with the default summary unless sigma.json says otherwise.
func (t *Tr) findLits(parent *Fn, body *ast.BlockStmt) {
	info := parent.Pkg.TypesInfo
	inPlace := map[*ast.FuncLit]bool{}
	// literals bound to a local alias variable
	boundTo := map[*ast.FuncLit]*types.Var{}
	for v, e := range parent.aliases {
		if lit, ok := e.(*ast.FuncLit); ok {
			boundTo[lit] = v
		}
	}
	calledOnly := map[*types.Var]bool{}
	for _, v := range boundTo {
		calledOnly[v] = true
	}
	var stack []ast.Node
	ast.Inspect(body, func(n ast.Node) bool {
		if n == nil {
			stack = stack[:len(stack)-1]
			return true
		}
		switch x := n.(type) {
		case *ast.CallExpr:
			if lit, ok := ast.Unparen(x.Fun).(*ast.FuncLit); ok {
				isGo := false
				if len(stack) > 0 {
					if g, ok := stack[len(stack)-1].(*ast.GoStmt); ok && g.Call == x {
						isGo = true
					}
				}
				if !isGo {
					inPlace[lit] = true
				}
			}
		case *ast.Ident:
			if v, ok := info.Uses[x].(*types.Var); ok && calledOnly[v] {
				// a use that is not the Fun of a call (or that is started with `go`) makes the closure escape
				ok := false
				if len(stack) > 0 {
					if call, isCall := stack[len(stack)-1].(*ast.CallExpr); isCall && ast.Unparen(call.Fun) == ast.Expr(x) {
						ok = true
						if len(stack) > 1 {
							if g, isGo := stack[len(stack)-2].(*ast.GoStmt); isGo && g.Call == call {
								ok = false
							}
						}
					}
				}
				if !ok {
					calledOnly[v] = false
				}
			}
		}
		stack = append(stack, n)
		return true
	})
	var visit func(n ast.Node, owner *Fn)
	visit = func(n ast.Node, owner *Fn) {
		ast.Inspect(n, func(m ast.Node) bool {
			lit, ok := m.(*ast.FuncLit)
			if !ok {
				return true
			}
			if v, bound := boundTo[lit]; inPlace[lit] || (bound && calledOnly[v]) {
				visit(lit.Body, owner) // inlined: nested literals still belong to the owner
				return false
			}
			owner.nLits++
			name := fmt.Sprintf("%s$%d", owner.Name, owner.nLits)
			if why, ok := t.skip[name]; ok {
				t.skipped = append(t.skipped, [2]string{name, why})
				t.skipUsed[name] = true
				return false
			}
			fn := &Fn{Name: name, Lit: lit, Parent: owner, Pkg: owner.Pkg, Formals: map[string]*types.Var{},
				File: owner.File, Line: t.line(lit.Pos())}
			if sig, ok := info.Types[lit].Type.(*types.Signature); ok {
				for i := 0; i < sig.Params().Len(); i++ {
					if v := sig.Params().At(i); v.Name() != "" {
						fn.Formals[v.Name()] = v
					}
				}
			}
			t.fns = append(t.fns, fn)
			t.byLit[lit] = fn
			visit(lit.Body, fn)
			return false
		})
	}
	visit(body, parent)
}
