package main

import (
	"fmt"
	"strings"
)

// S is a node of the lock-skeleton IR (mirrors BbRe.LockSkel.Stmt).
type S struct {
	K    string // skip acq rel pileLock pileUnlock pileUnlockAll call seq choice loop fin scope block setFlag ifFlag ret brk cont panic unsupported
	L    int    // lock / flag / why id
	P    int    // pile id
	Tag  int    // source line
	Flag bool   // canExit / flag value
	A, B *S
	Call *CallSite
	Why  string // unsupported / guard: reason
	Ren2 []int  // need: guard classes
}

// CallSite is a call to a translated function; Ren is filled in late (pass 2).
type CallSite struct {
	Callee *Fn
	// Actual maps the callee's formal names (receiver, parameters) to the
	// caller's canonical expression text.
	Actual map[string]string
	Ren    [][2]int
	// Fresh lists the lock classes guarding the types of those actuals that are objects
	// created in the calling function and not yet published (x := &T{...}): owning such
	// an object exclusively is as good as holding its lock.
	Fresh []string
}

var skipS = &S{K: "skip"}

func atom(k string) *S { return &S{K: k} }

func seq(a, b *S) *S {
	if a.K == "skip" {
		return b
	}
	if b.K == "skip" {
		return a
	}
	// nothing can follow a statement that never completes normally
	if a.K == "ret" || a.K == "brk" || a.K == "cont" || a.K == "panic" {
		return a
	}
	return &S{K: "seq", A: a, B: b}
}

func seqs(xs ...*S) *S {
	r := skipS
	for i := len(xs) - 1; i >= 0; i-- {
		r = seq(xs[i], r)
	}
	return r
}

func choice(tag int, a, b *S) *S {
	if a.K == "skip" && b.K == "skip" {
		return skipS
	}
	return &S{K: "choice", Tag: tag, A: a, B: b}
}

func loop(canExit bool, body *S) *S {
	if body.K == "skip" && canExit {
		return skipS
	}
	return &S{K: "loop", Flag: canExit, A: body}
}

func fin(body, d *S) *S {
	if d.K == "skip" {
		return body
	}
	return &S{K: "fin", A: body, B: d}
}

// has reports whether the tree contains a node of one of the given kinds.
func (s *S) has(kinds ...string) bool {
	if s == nil {
		return false
	}
	for _, k := range kinds {
		if s.K == k {
			return true
		}
	}
	return s.A.has(kinds...) || s.B.has(kinds...)
}

func scope(s *S) *S {
	if !s.has("ret") {
		return s
	}
	return &S{K: "scope", A: s}
}

// block catches `break` of a switch/select. Only used when the statement
// contains a break that targets it.
func block(s *S) *S {
	return &S{K: "block", A: s}
}

func unsupported(why string, line int) *S { return &S{K: "unsupported", Why: why, Tag: line} }

// guard: the effects A are expected to be empty once calls to functions with an
// empty skeleton are erased; otherwise the construct is unsupported.
func guard(a *S, why string, line int) *S {
	if a.K == "skip" {
		return skipS
	}
	return &S{K: "guard", A: a, Why: why, Tag: line}
}

// relevant: does the skeleton contain anything the checker looks at?
func (s *S) relevantAtoms(isRelevantCallee func(*Fn) bool) bool {
	if s == nil {
		return false
	}
	switch s.K {
	case "acq", "rel", "pileLock", "pileUnlock", "pileUnlockAll", "unsupported", "need":
		return true
	case "call":
		return isRelevantCallee(s.Call.Callee)
	}
	return s.A.relevantAtoms(isRelevantCallee) || s.B.relevantAtoms(isRelevantCallee)
}

// prune erases calls to irrelevant callees and flag operations that guard nothing, re-simplifying.
func (s *S) prune(isRelevantCallee func(*Fn) bool) *S {
	switch s.K {
	case "call":
		if !isRelevantCallee(s.Call.Callee) {
			return skipS
		}
		return s
	case "seq":
		return seq(s.A.prune(isRelevantCallee), s.B.prune(isRelevantCallee))
	case "choice":
		return choice(s.Tag, s.A.prune(isRelevantCallee), s.B.prune(isRelevantCallee))
	case "loop":
		return loop(s.Flag, s.A.prune(isRelevantCallee))
	case "fin":
		return fin(s.A.prune(isRelevantCallee), s.B.prune(isRelevantCallee))
	case "scope":
		return scope(s.A.prune(isRelevantCallee))
	case "block":
		a := s.A.prune(isRelevantCallee)
		if !a.has("brk") {
			return a
		}
		return block(a)
	case "guard":
		if s.A.prune(isRelevantCallee).K == "skip" {
			return skipS
		}
		return unsupported(s.Why, s.Tag)
	case "ifFlag":
		a, b := s.A.prune(isRelevantCallee), s.B.prune(isRelevantCallee)
		if a.K == "skip" && b.K == "skip" {
			return skipS
		}
		return &S{K: "ifFlag", L: s.L, A: a, B: b}
	}
	return s
}

func (s *S) lean(b *strings.Builder, whys *interner) {
	switch s.K {
	case "skip", "brk", "cont", "panic":
		b.WriteString("." + s.K)
	case "acq", "rel":
		fmt.Fprintf(b, "(.%s %d)", s.K, s.L)
	case "pileLock", "pileUnlock":
		fmt.Fprintf(b, "(.%s %d %d)", s.K, s.P, s.L)
	case "pileUnlockAll":
		fmt.Fprintf(b, "(.pileUnlockAll %d)", s.P)
	case "call":
		fmt.Fprintf(b, "(.call %d [", s.Call.Callee.ID)
		for i, r := range s.Call.Ren {
			if i > 0 {
				b.WriteString(", ")
			}
			fmt.Fprintf(b, "(%d, %d)", r[0], r[1])
		}
		b.WriteString("])")
	case "seq", "fin":
		b.WriteString("(." + s.K + " ")
		s.A.lean(b, whys)
		b.WriteString(" ")
		s.B.lean(b, whys)
		b.WriteString(")")
	case "choice":
		fmt.Fprintf(b, "(.choice %d ", s.Tag)
		s.A.lean(b, whys)
		b.WriteString(" ")
		s.B.lean(b, whys)
		b.WriteString(")")
	case "loop":
		fmt.Fprintf(b, "(.loop %v ", s.Flag)
		s.A.lean(b, whys)
		b.WriteString(")")
	case "scope", "block":
		b.WriteString("(." + s.K + " ")
		s.A.lean(b, whys)
		b.WriteString(")")
	case "setFlag":
		fmt.Fprintf(b, "(.setFlag %d %v)", s.L, s.Flag)
	case "ifFlag":
		fmt.Fprintf(b, "(.ifFlag %d ", s.L)
		s.A.lean(b, whys)
		b.WriteString(" ")
		s.B.lean(b, whys)
		b.WriteString(")")
	case "need":
		b.WriteString("(.need [")
		for i, c := range s.Ren2 {
			if i > 0 {
				b.WriteString(", ")
			}
			fmt.Fprintf(b, "%d", c)
		}
		b.WriteString("])")
	case "mark":
		fmt.Fprintf(b, "(.mark %d %d)", s.L, s.P)
	case "ret":
		fmt.Fprintf(b, "(.ret %d)", s.Tag)
	case "unsupported":
		fmt.Fprintf(b, "(.unsupported %d)", whys.id(s.Why))
	default:
		panic("unknown IR node " + s.K)
	}
}

func (s *S) size() int {
	if s == nil {
		return 0
	}
	return 1 + s.A.size() + s.B.size()
}
