#!/bin/sh
# usage: tools/seedeval.sh <patch.diff> <prop> [prop...]   (env VERIF_SEED)
# Applies the patch in a scratch worktree of /repo (never touches /repo's tree), runs the
# given checks against it through VERIF_REPO and removes the worktree again.
patch=$(readlink -f "$1"); shift
wt=/tmp/ev-$$
git -C /repo worktree add --detach -q "$wt" HEAD || exit 2
if ! git -C "$wt" apply "$patch" 2>/dev/null && ! git -C "$wt" apply -3 "$patch"; then echo "PATCH-DOES-NOT-APPLY $patch"; git -C /repo worktree remove --force "$wt"; exit 2; fi
cd /verif
for p in "$@"; do
  out=$(VERIF_REPO="$wt" ./check "$p" 2>&1)
  echo "$out" | grep -E "^VIOLATION|^KNOWN-FINDING|^  what:|^\[done\]" | cut -c1-400
done
git -C /repo worktree remove --force "$wt"
h=$(printf %s "$wt" | sha256sum | cut -c1-8); rm -rf "/verif/harness/bin/$h" /verif/harness/go.alt$h.mod /verif/harness/go.alt$h.sum
