// Package hx holds what every correspondence harness shares: a seeded PRNG,
// a wrapper around the compiled Lean model driver (line protocol), and the
// result file that ./check turns into evidence.
package hx

import (
	"bufio"
	"crypto/sha256"
	"encoding/hex"
	"encoding/json"
	"flag"
	"fmt"
	"io"
	"os"
	"os/exec"
	"path/filepath"
	"sort"
	"strings"
	"time"
)

// Rand is a splitmix64 generator: every random choice of a harness is drawn
// from one of these, seeded from VERIF_SEED, so a disagreement replays exactly.
type Rand struct{ s uint64 }

// NewRand derives the initial state from the seed through one finaliser round, so that
// the streams of neighbouring seeds (VERIF_SEED=1,2,…, thorough shards) are unrelated
// rather than shifted copies of each other.
func NewRand(seed uint64) *Rand {
	z := seed + 0x9E3779B97F4A7C15
	z = (z ^ (z >> 30)) * 0xBF58476D1CE4E5B9
	z = (z ^ (z >> 27)) * 0x94D049BB133111EB
	return &Rand{s: z ^ (z >> 31)}
}

func (r *Rand) Uint64() uint64 {
	r.s += 0x9E3779B97F4A7C15
	z := r.s
	z = (z ^ (z >> 30)) * 0xBF58476D1CE4E5B9
	z = (z ^ (z >> 27)) * 0x94D049BB133111EB
	return z ^ (z >> 31)
}

// Intn returns a value in [0,n).
func (r *Rand) Intn(n int) int {
	if n <= 0 {
		return 0
	}
	return int(r.Uint64() % uint64(n))
}

// Chance returns true with probability num/den.
func (r *Rand) Chance(num, den int) bool { return r.Intn(den) < num }

// Pick returns one of the weights' indices proportionally.
func (r *Rand) Pick(weights ...int) int {
	t := 0
	for _, w := range weights {
		t += w
	}
	x := r.Intn(t)
	for i, w := range weights {
		if x < w {
			return i
		}
		x -= w
	}
	return len(weights) - 1
}

// Driver is a running `driver <model>` process.
type Driver struct {
	cmd   *exec.Cmd
	in    io.WriteCloser
	out   *bufio.Reader
	Model string
	Lines int
}

// DriverPath locates the compiled Lean driver of a model (lean_exe drv_<model>).
func DriverPath(model string) string {
	dir := os.Getenv("VERIF_DRIVER_DIR")
	if dir == "" {
		dir = "/verif/lean/.lake/build/bin"
	}
	return filepath.Join(dir, "drv_"+model)
}

func StartDriver(model string, args ...string) (*Driver, error) {
	cmd := exec.Command(DriverPath(model), args...)
	in, err := cmd.StdinPipe()
	if err != nil {
		return nil, err
	}
	out, err := cmd.StdoutPipe()
	if err != nil {
		return nil, err
	}
	cmd.Stderr = os.Stderr
	if err := cmd.Start(); err != nil {
		return nil, err
	}
	return &Driver{cmd: cmd, in: in, out: bufio.NewReaderSize(out, 1<<20), Model: model}, nil
}

// Ask sends one op line and returns the model's one output line.
func (d *Driver) Ask(line string) (string, error) {
	if strings.ContainsAny(line, "\n\r") {
		return "", fmt.Errorf("op contains newline: %q", line)
	}
	if _, err := io.WriteString(d.in, line+"\n"); err != nil {
		return "", err
	}
	d.Lines++
	s, err := d.out.ReadString('\n')
	if err != nil {
		return "", fmt.Errorf("driver %s died after %q: %v", d.Model, line, err)
	}
	return strings.TrimRight(s, "\n"), nil
}

func (d *Driver) Close() {
	d.in.Close()
	d.cmd.Wait()
}

// Finding is one thing a harness reports. Kind is "violation" when the
// implementation trace itself breaks the property (Replay is the failing
// history), "mismatch" when model and implementation disagree but no failing
// input for the property was found.
type Finding struct {
	Kind     string   `json:"kind"`
	Property string   `json:"property"`
	What     string   `json:"what"`
	Name     string   `json:"name"` // theorem / correspondence that no longer checks
	Sig      string   `json:"signature"`
	History  []string `json:"history"`
	Expected string   `json:"expected,omitempty"`
	Actual   string   `json:"actual,omitempty"`
}

// Result is what a harness run writes for ./check.
type Result struct {
	Harness      string         `json:"harness"`
	Seed         uint64         `json:"seed"`
	Tier         string         `json:"tier"`
	Evaluations  int            `json:"evaluations"`
	Histories    int            `json:"histories"`
	Nontrivial   int            `json:"distinct_nontrivial"`
	Rule         string         `json:"rule"`
	Samples      []any          `json:"samples"`
	Histogram    map[string]int `json:"histogram"`
	TracesVsImpl int            `json:"traces_validated_against_impl"`
	ModelLines   int            `json:"model_lines"`
	Findings     []Finding      `json:"findings"`
	Notes        []string       `json:"notes,omitempty"`
	PerProperty  map[string]int `json:"per_property_evaluations,omitempty"`
	WallS        float64        `json:"wall_s"`
	distinct     map[string]bool
	start        time.Time
}

// Opts are the flags common to every harness.
type Opts struct {
	Seed   uint64
	Tier   string
	Out    string
	Replay string
	Scale  int
	Prop   string
}

var flags Opts

func init() {
	// Registered at init so that harnesses built as test binaries (go test -c,
	// needed for testing/synctest) accept the same flags.
	flag.Uint64Var(&flags.Seed, "seed", 1, "PRNG seed")
	flag.StringVar(&flags.Tier, "tier", "quick", "quick|thorough")
	flag.StringVar(&flags.Out, "out", "", "result file")
	flag.StringVar(&flags.Replay, "replay", "", "replay file (JSON Finding)")
	flag.IntVar(&flags.Scale, "scale", 1, "multiplier for the number of histories")
	flag.StringVar(&flags.Prop, "prop", "", "property the run is for (harnesses serving several)")
}

func ParseFlags() Opts {
	if !flag.Parsed() {
		flag.Parse()
	}
	return flags
}

func NewResult(name string, o Opts, rule string) *Result {
	return &Result{Harness: name, Seed: o.Seed, Tier: o.Tier, Rule: rule,
		Histogram: map[string]int{}, distinct: map[string]bool{}, start: time.Now(),
		PerProperty: map[string]int{}}
}

func (r *Result) Count(key string) { r.Histogram[key]++ }

// History records one generated history; nontrivial says whether it met the
// harness's stated non-triviality rule. Distinctness is by hash of the ops.
func (r *Result) History(ops []string, nontrivial bool) {
	r.Histories++
	if !nontrivial {
		return
	}
	h := sha256.Sum256([]byte(strings.Join(ops, "\n")))
	k := hex.EncodeToString(h[:8])
	if !r.distinct[k] {
		r.distinct[k] = true
		r.Nontrivial++
		if len(r.Samples) < 3 && len(ops) <= 40 {
			r.Samples = append(r.Samples, ops)
		}
	}
}

func (r *Result) AddSample(s any) {
	if len(r.Samples) < 3 {
		r.Samples = append(r.Samples, s)
	}
}

func Sig(parts ...string) string {
	h := sha256.Sum256([]byte(strings.Join(parts, "\x00")))
	return hex.EncodeToString(h[:8])
}

func (r *Result) Report(f Finding) {
	if f.Sig == "" {
		f.Sig = Sig(f.Property, f.What)
	}
	r.Findings = append(r.Findings, f)
}

// Write stores the result file; returns the process exit code (always 0: the
// decision is taken by ./check, which knows the known-findings file).
func (r *Result) Write(o Opts) {
	r.WallS = time.Since(r.start).Seconds()
	if len(r.Samples) == 0 {
		r.Samples = []any{}
	}
	if r.Findings == nil {
		r.Findings = []Finding{}
	}
	b, _ := json.MarshalIndent(r, "", " ")
	if o.Out == "" {
		os.Stdout.Write(b)
		return
	}
	os.MkdirAll(filepath.Dir(o.Out), 0o755)
	if err := os.WriteFile(o.Out, b, 0o644); err != nil {
		fmt.Fprintln(os.Stderr, err)
		os.Exit(3)
	}
}

func SortedKeys(m map[string]int) []string {
	ks := make([]string, 0, len(m))
	for k := range m {
		ks = append(ks, k)
	}
	sort.Strings(ks)
	return ks
}

// LoadReplay reads a Finding written by ./check into the replay file.
func LoadReplay(path string) (Finding, error) {
	var f Finding
	b, err := os.ReadFile(path)
	if err != nil {
		return f, err
	}
	err = json.Unmarshal(b, &f)
	return f, err
}

// Shrink removes ops from a failing history while fails() keeps returning true.
func Shrink(ops []string, fails func([]string) bool) []string {
	cur := append([]string(nil), ops...)
	for chunk := len(cur) / 2; chunk >= 1; chunk /= 2 {
		for i := 0; i+chunk <= len(cur); {
			cand := append(append([]string(nil), cur[:i]...), cur[i+chunk:]...)
			if fails(cand) {
				cur = cand
			} else {
				i += chunk
			}
		}
	}
	return cur
}
