package hx

import (
	"os"
	"runtime"
	"strconv"
	"strings"
	"time"
)

// StallLimit scales the real-time limit of a harness watchdog ("no step finished for this
// long: the implementation hangs") by the load of the machine.  The watchdogs exist to turn a
// deadlocked implementation into a finding with the history so far; on a machine that runs many
// checks at once a healthy step can take minutes of wall time, and a false "hang" would be a
// false alarm.  The limit is base (never below 240 s) times max(1, 4 * load1 / #CPU), at most
// 12 times; VERIF_STALL_SCALE multiplies it further.
func StallLimit(base time.Duration) time.Duration {
	if base < 240*time.Second {
		base = 240 * time.Second
	}
	return ScaledTimeout(base)
}

// ScaledTimeout is the load scaling of StallLimit without the 240 s floor, for the short
// "this in-memory call must return" watchdogs of scenario harnesses (evaluated when called, so a
// package-level `var limit = hx.ScaledTimeout(...)` takes the load at process start).
func ScaledTimeout(base time.Duration) time.Duration {
	scale := 1.0
	if b, err := os.ReadFile("/proc/loadavg"); err == nil {
		if f := strings.Fields(string(b)); len(f) > 0 {
			if l, err := strconv.ParseFloat(f[0], 64); err == nil {
				if s := 4 * l / float64(runtime.NumCPU()); s > scale {
					scale = s
				}
			}
		}
	}
	if scale > 12 {
		scale = 12
	}
	if v, err := strconv.ParseFloat(os.Getenv("VERIF_STALL_SCALE"), 64); err == nil && v > 0 {
		scale *= v
	}
	return time.Duration(float64(base) * scale)
}
