// Package nfsx is the shared in-process NFSv4 test bed of the C18/C19/C20
// harnesses: the REAL nfsv4.NewNFS40Program / NewNFS41Program on top of a real
// InMemoryPrepopulatedDirectory whose regular files come from an instrumented
// file allocator (every VirtualOpenSelf / VirtualClose / VirtualRead /
// VirtualWrite / file creation is appended to an effect log and can be parked
// until released), a settable clock and seeded deterministic random sources.
//
// Concurrency contract (testing/synctest): a parked call blocks on a channel
// BEFORE it delegates to the real leaf, i.e. without holding the leaf's own
// lock. A park inside VirtualOpenSelf that is reached through
// Directory.VirtualOpenChild (OPEN with CLAIM_NULL of an existing file) or
// inside file creation does hold the lock of the containing directory: while
// such a call is parked no other request may look into that directory (it
// would block on a mutex, which synctest.Wait does not treat as durably
// blocked). World therefore puts every file in its own directory d<i>/f, and
// directories reached through PUTFH are wrapped (IDir): the "openchild" event
// of an OPEN by name is logged, and can be parked, BEFORE the real
// VirtualOpenChild takes the directory lock - park there, not in "open" /
// "create", when the OPEN goes through a directory.
package nfsx

import (
	"bytes"
	"context"
	"fmt"
	"io"
	"sort"
	"sync"
	"sync/atomic"
	"time"

	"github.com/buildbarn/bb-remote-execution/pkg/filesystem/pool"
	"github.com/buildbarn/bb-remote-execution/pkg/filesystem/virtual"
	re_nfsv4 "github.com/buildbarn/bb-remote-execution/pkg/filesystem/virtual/nfsv4"
	"github.com/buildbarn/bb-storage/pkg/clock"
	"github.com/buildbarn/bb-storage/pkg/filesystem"
	"github.com/buildbarn/bb-storage/pkg/filesystem/path"
	"github.com/buildbarn/bb-storage/pkg/util"
	"github.com/buildbarn/go-xdr/pkg/protocols/nfsv4"
)

// ---------------------------------------------------------------------------
// deterministic random source (random.SingleThreadedGenerator)

// Rand is a splitmix64 implementation of bb-storage's
// random.SingleThreadedGenerator; every consumer gets its own instance.
type Rand struct{ s uint64 }

func NewRand(seed uint64) *Rand { return &Rand{s: seed*0x9E3779B97F4A7C15 + 0xABCDEF} }

func (r *Rand) Uint64() uint64 {
	r.s += 0x9E3779B97F4A7C15
	z := r.s
	z = (z ^ (z >> 30)) * 0xBF58476D1CE4E5B9
	z = (z ^ (z >> 27)) * 0x94D049BB133111EB
	return z ^ (z >> 31)
}
func (r *Rand) Uint32() uint32       { return uint32(r.Uint64() >> 32) }
func (r *Rand) Float64() float64     { return float64(r.Uint64()>>11) / (1 << 53) }
func (r *Rand) Int64N(n int64) int64 { return int64(r.Uint64() % uint64(n)) }
func (r *Rand) IntN(n int) int       { return int(r.Uint64() % uint64(n)) }
func (r *Rand) Read(p []byte) (int, error) {
	for i := range p {
		p[i] = byte(r.Uint64())
	}
	return len(p), nil
}

func (r *Rand) Shuffle(n int, swap func(i, j int)) {
	for i := n - 1; i > 0; i-- {
		swap(i, r.IntN(i+1))
	}
}

// ---------------------------------------------------------------------------
// settable clock

// Clock is a clock.Clock whose Now() is set by the harness. The NFS programs
// only call Now().
type Clock struct {
	mu  sync.Mutex
	now time.Time
}

func NewClock() *Clock { return &Clock{now: time.Unix(10000, 0)} }

func (c *Clock) Now() time.Time {
	c.mu.Lock()
	defer c.mu.Unlock()
	return c.now
}

// Advance moves the clock forward.
func (c *Clock) Advance(d time.Duration) {
	c.mu.Lock()
	c.now = c.now.Add(d)
	c.mu.Unlock()
}

func (c *Clock) NewContextWithTimeout(p context.Context, d time.Duration) (context.Context, context.CancelFunc) {
	return context.WithCancel(p)
}
func (c *Clock) NewTimer(d time.Duration) (clock.Timer, <-chan time.Time) {
	panic("nfsx.Clock.NewTimer")
}
func (c *Clock) NewTicker(d time.Duration) (clock.Ticker, <-chan time.Time) {
	panic("nfsx.Clock.NewTicker")
}

// ---------------------------------------------------------------------------
// in-memory file pool below the real pool-backed file allocator

type memFile struct{ data []byte }

func (f *memFile) Close() error { return nil }
func (f *memFile) GetNextRegionOffset(off int64, r filesystem.RegionType) (int64, error) {
	return off, nil
}

func (f *memFile) ReadAt(p []byte, off int64) (int, error) {
	if int(off) >= len(f.data) {
		return 0, nil
	}
	return copy(p, f.data[off:]), nil
}
func (f *memFile) Sync() error         { return nil }
func (f *memFile) Len() (int64, error) { return int64(len(f.data)), nil }
func (f *memFile) Truncate(n int64) error {
	if int(n) < len(f.data) {
		f.data = f.data[:n]
	} else {
		f.data = append(f.data, make([]byte, int(n)-len(f.data))...)
	}
	return nil
}

func (f *memFile) WriteAt(p []byte, off int64) (int, error) {
	if need := int(off) + len(p); need > len(f.data) {
		f.data = append(f.data, make([]byte, need-len(f.data))...)
	}
	return copy(f.data[off:], p), nil
}

type memPool struct{}

func (memPool) NewFile(h pool.HoleSource, size uint64) (filesystem.FileReadWriter, error) {
	return &memFile{data: make([]byte, size)}, nil
}

// ---------------------------------------------------------------------------
// effect log and gates

// Event is one call the NFS server made into an instrumented leaf (or into
// the file allocator). Tag is whatever the harness last stored with SetTag
// before letting a request run (the id of the compound being executed).
type Event struct {
	Kind  string // "create" | "open" | "close" | "read" | "write" | "openchild" (Leaf = directory index)
	Leaf  int    // creation index of the leaf
	Share int    // share mask (open/close/create)
	Off   uint64 // read/write
	Len   int    // read/write
	Trunc bool   // open with truncation
	Tag   int
}

func (e Event) String() string {
	switch e.Kind {
	case "read", "write":
		return fmt.Sprintf("%s(leaf=%d,off=%d,len=%d)@%d", e.Kind, e.Leaf, e.Off, e.Len, e.Tag)
	}
	t := ""
	if e.Trunc {
		t = ",trunc"
	}
	return fmt.Sprintf("%s(leaf=%d,share=%d%s)@%d", e.Kind, e.Leaf, e.Share, t, e.Tag)
}

// Gate parks the next matching leaf call until Release.
type Gate struct {
	leaf    int // -1: any leaf
	tag     int // -1: any tag
	kind    string
	entered chan struct{}
	release chan struct{}
	once    sync.Once
	fail    atomic.Bool
}

// Fail makes the call that matches the gate return an I/O error
// (virtual.StatusErrIO) once it is released, without reaching the real file.
// Only for the kinds "read", "write" and "setattr"; call it before Release. A
// gate that is failed and released before any call arrives does not park: the
// next matching call fails immediately.
func (g *Gate) Fail() { g.fail.Store(true) }

// Entered reports whether a call is (or was) parked at the gate.
func (g *Gate) Entered() bool {
	select {
	case <-g.entered:
		return true
	default:
		return false
	}
}

// Release lets the parked call (or, if none arrived yet, the next matching
// one) continue.
func (g *Gate) Release() { g.once.Do(func() { close(g.release) }) }

// World is the file system below the NFS programs plus its instrumentation.
type World struct {
	Clock *Clock
	Root  virtual.PrepopulatedDirectory
	HA    *virtual.NFSStatefulHandleAllocator
	Pool  *re_nfsv4.OpenedFilesPool
	Seed  uint64

	mu     sync.Mutex
	log    []Event
	tag    int
	nLeaf  int
	gates  []*Gate // armed
	all    []*Gate // every gate ever armed (ReleaseAll)
	record bool

	// FileHandles[i] / DirHandles[i]: NFS file handles of d<i>/f and d<i>.
	FileHandles [][]byte
	DirHandles  [][]byte
	RootHandle  []byte
}

func (w *World) SetTag(t int) {
	w.mu.Lock()
	w.tag = t
	w.mu.Unlock()
}

// Log returns a copy of the effect log.
func (w *World) Log() []Event {
	w.mu.Lock()
	defer w.mu.Unlock()
	return append([]Event(nil), w.log...)
}

func (w *World) LogLen() int {
	w.mu.Lock()
	defer w.mu.Unlock()
	return len(w.log)
}

// Park arms a one-shot gate: the next call of `kind` ("open", "read",
// "write", "create") on leaf (creation index, -1 = any) blocks until Release.
func (w *World) Park(leaf int, kind string) *Gate { return w.ParkFor(-1, leaf, kind) }

// ParkFor is Park restricted to calls made while the current tag (SetTag) is
// `tag`, i.e. by the request the harness started under that tag.
func (w *World) ParkFor(tag, leaf int, kind string) *Gate {
	g := &Gate{leaf: leaf, tag: tag, kind: kind, entered: make(chan struct{}), release: make(chan struct{})}
	w.mu.Lock()
	w.gates = append(w.gates, g)
	w.all = append(w.all, g)
	w.mu.Unlock()
	return g
}

// Disarm removes a gate nobody has reached yet (no-op otherwise).
func (w *World) Disarm(g *Gate) {
	w.mu.Lock()
	for i, c := range w.gates {
		if c == g {
			w.gates = append(w.gates[:i:i], w.gates[i+1:]...)
			break
		}
	}
	w.mu.Unlock()
}

// ReleaseAll releases every gate (call at the end of a synctest bubble).
func (w *World) ReleaseAll() {
	w.mu.Lock()
	gs := append([]*Gate(nil), w.all...)
	w.gates, w.all = nil, nil
	w.mu.Unlock()
	for _, g := range gs {
		g.Release()
	}
}

// event logs e and, if a gate matches, parks the caller (no lock held).
func (w *World) event(e Event) { w.eventF(e, true) }

// eventF is event; it reports whether the matching gate asks the call to fail
// (Gate.Fail). With log == false the call is not recorded in the effect log.
func (w *World) eventF(e Event, log bool) bool {
	w.mu.Lock()
	if !w.record {
		w.mu.Unlock()
		return false
	}
	e.Tag = w.tag
	if log {
		w.log = append(w.log, e)
	}
	var g *Gate
	for i, c := range w.gates {
		if c.kind == e.Kind && (c.leaf == -1 || c.leaf == e.Leaf) && (c.tag == -1 || c.tag == e.Tag) {
			g = c
			w.gates = append(w.gates[:i:i], w.gates[i+1:]...)
			break
		}
	}
	w.mu.Unlock()
	if g != nil {
		close(g.entered)
		<-g.release
		return g.fail.Load()
	}
	return false
}

// ---------------------------------------------------------------------------
// instrumented allocator / leaf

type instrumentedAllocator struct {
	w    *World
	base virtual.FileAllocator
}

func (a *instrumentedAllocator) NewFile(h pool.HoleSource, isExecutable bool, size uint64, share virtual.ShareMask) (virtual.LinkableLeaf, error) {
	a.w.mu.Lock()
	id := a.w.nLeaf
	a.w.nLeaf++
	a.w.mu.Unlock()
	a.w.event(Event{Kind: "create", Leaf: id, Share: int(share)})
	l, err := a.base.NewFile(h, isExecutable, size, share)
	if err != nil {
		return nil, err
	}
	return &ILeaf{LinkableLeaf: l, w: a.w, ID: id}, nil
}

// ILeaf wraps the real pool-backed file.
type ILeaf struct {
	virtual.LinkableLeaf
	w  *World
	ID int
}

func (l *ILeaf) VirtualOpenSelf(ctx context.Context, share virtual.ShareMask, options *virtual.OpenExistingOptions, requested virtual.AttributesMask, attributes *virtual.Attributes) virtual.Status {
	l.w.event(Event{Kind: "open", Leaf: l.ID, Share: int(share), Trunc: options != nil && options.Truncate})
	return l.LinkableLeaf.VirtualOpenSelf(ctx, share, options, requested, attributes)
}

func (l *ILeaf) VirtualClose(share virtual.ShareMask) {
	l.w.event(Event{Kind: "close", Leaf: l.ID, Share: int(share)})
	l.LinkableLeaf.VirtualClose(share)
}

func (l *ILeaf) VirtualRead(ctx context.Context, buf []byte, off uint64) (int, bool, virtual.Status) {
	if l.w.eventF(Event{Kind: "read", Leaf: l.ID, Off: off, Len: len(buf)}, true) {
		return 0, false, virtual.StatusErrIO
	}
	return l.LinkableLeaf.VirtualRead(ctx, buf, off)
}

func (l *ILeaf) VirtualWrite(ctx context.Context, buf []byte, off uint64) (int, virtual.Status) {
	if l.w.eventF(Event{Kind: "write", Leaf: l.ID, Off: off, Len: len(buf)}, true) {
		return 0, virtual.StatusErrIO
	}
	return l.LinkableLeaf.VirtualWrite(ctx, buf, off)
}

// VirtualSetAttributes is not recorded in the effect log; a gate of kind
// "setattr" can park it or make it fail.
func (l *ILeaf) VirtualSetAttributes(ctx context.Context, in *virtual.Attributes, requested virtual.AttributesMask, out *virtual.Attributes) virtual.Status {
	if l.w.eventF(Event{Kind: "setattr", Leaf: l.ID}, false) {
		// The injected fault stands for a failing truncation of the backing file.  The real
		// file refuses a size change with ESTALE *before* it touches its storage when nobody
		// refers to it any more (fileBackedFile.VirtualSetAttributes: referenceCount == 0), so a
		// dead leaf answers ESTALE, not EIO (found by a thorough run: SETATTR with the anonymous
		// state ID on an unlinked, closed file with a fault injected).
		if _, hasSize := in.GetSizeBytes(); hasSize {
			var a virtual.Attributes
			if st := l.LinkableLeaf.VirtualOpenSelf(ctx, virtual.ShareMaskRead, &virtual.OpenExistingOptions{}, 0, &a); st == virtual.StatusErrStale {
				return virtual.StatusErrStale
			} else if st == virtual.StatusOK {
				l.LinkableLeaf.VirtualClose(virtual.ShareMaskRead)
			}
		}
		return virtual.StatusErrIO
	}
	return l.LinkableLeaf.VirtualSetAttributes(ctx, in, requested, out)
}

// IDir wraps a directory resolved from a file handle.
type IDir struct {
	virtual.Directory
	w  *World
	ID int // index of d<i>; len(DirHandles) for the root; -1 unknown
}

func (d *IDir) VirtualOpenChild(ctx context.Context, name path.Component, share virtual.ShareMask, createAttributes *virtual.Attributes, existingOptions *virtual.OpenExistingOptions, requested virtual.AttributesMask, openedFileAttributes *virtual.Attributes) (virtual.Leaf, virtual.AttributesMask, virtual.ChangeInfo, virtual.Status) {
	d.w.event(Event{Kind: "openchild", Leaf: d.ID, Share: int(share), Trunc: existingOptions != nil && existingOptions.Truncate})
	return d.Directory.VirtualOpenChild(ctx, name, share, createAttributes, existingOptions, requested, openedFileAttributes)
}

type recordingReader struct {
	r   io.ByteReader
	buf []byte
}

func (r *recordingReader) ReadByte() (byte, error) {
	b, err := r.r.ReadByte()
	if err == nil {
		r.buf = append(r.buf, b)
	}
	return b, err
}

// resolveHandle is the HandleResolver given to the OpenedFilesPool: the NFS
// handle allocator's, with directories wrapped in IDir.
func (w *World) resolveHandle(r io.ByteReader) (virtual.DirectoryChild, virtual.Status) {
	rr := &recordingReader{r: r}
	child, s := w.HA.ResolveHandle(rr)
	if s != virtual.StatusOK {
		return child, s
	}
	if dir, _ := child.GetPair(); dir != nil {
		id := -1
		if bytes.Equal(rr.buf, w.RootHandle) {
			id = len(w.DirHandles)
		}
		for i, h := range w.DirHandles {
			if bytes.Equal(rr.buf, h) {
				id = i
			}
		}
		return virtual.DirectoryChild{}.FromDirectory(&IDir{Directory: dir, w: w, ID: id}), s
	}
	return child, s
}

// ---------------------------------------------------------------------------
// construction

func defaultAttributesSetter(requested virtual.AttributesMask, attributes *virtual.Attributes) {}

// NewWorld builds root/d0/f .. root/d<nFiles-1>/f (each file holds 64 bytes
// "file<i>..."); leaf creation index i is file i. Recording of effects starts
// after the set-up.
func NewWorld(seed uint64, nFiles int) *World {
	w := &World{Clock: NewClock(), Seed: seed}
	w.HA = virtual.NewNFSHandleAllocator(NewRand(seed ^ 0x1111))
	fa := virtual.NewHandleAllocatingFileAllocator(
		&instrumentedAllocator{w: w, base: virtual.NewPoolBackedFileAllocator(memPool{}, util.DefaultErrorLogger, defaultAttributesSetter, virtual.NoNamedAttributesFactory)},
		w.HA)
	w.Root = virtual.NewInMemoryPrepopulatedDirectory(
		fa,
		virtual.NewHandleAllocatingSymlinkFactory(virtual.NewBaseSymlinkFactory(defaultAttributesSetter), w.HA.New(), path.UNIXFormat),
		util.DefaultErrorLogger, w.HA, sort.Sort, func(string) bool { return false }, w.Clock,
		virtual.CaseSensitiveComponentNormalizer, defaultAttributesSetter, virtual.NoNamedAttributesFactory)
	w.Pool = re_nfsv4.NewOpenedFilesPool(w.resolveHandle)

	ctx := context.Background()
	var attrs virtual.Attributes
	w.Root.VirtualGetAttributes(ctx, virtual.AttributesMaskFileHandle, &attrs)
	w.RootHandle = append([]byte(nil), attrs.GetFileHandle()...)
	for i := 0; i < nFiles; i++ {
		var da virtual.Attributes
		d, _, s := w.Root.VirtualMkdir(ctx, path.MustNewComponent(fmt.Sprintf("d%d", i)), &virtual.Attributes{}, virtual.AttributesMaskFileHandle, &da)
		if s != virtual.StatusOK {
			panic(fmt.Sprintf("nfsx: mkdir: %v", s))
		}
		w.DirHandles = append(w.DirHandles, append([]byte(nil), da.GetFileHandle()...))
		var fattr virtual.Attributes
		leaf, _, _, s := d.VirtualOpenChild(ctx, path.MustNewComponent("f"), virtual.ShareMaskWrite,
			(&virtual.Attributes{}).SetPermissions(virtual.PermissionsRead|virtual.PermissionsWrite), nil,
			virtual.AttributesMaskFileHandle, &fattr)
		if s != virtual.StatusOK {
			panic(fmt.Sprintf("nfsx: create: %v", s))
		}
		content := []byte(fmt.Sprintf("file%d:", i))
		for len(content) < 64 {
			content = append(content, byte('a'+len(content)%26))
		}
		if _, s := leaf.VirtualWrite(ctx, content, 0); s != virtual.StatusOK {
			panic(fmt.Sprintf("nfsx: write: %v", s))
		}
		leaf.VirtualClose(virtual.ShareMaskWrite)
		w.FileHandles = append(w.FileHandles, append([]byte(nil), fattr.GetFileHandle()...))
	}
	w.mu.Lock()
	w.record = true
	w.mu.Unlock()
	return w
}

// LeaseTime is the enforced and announced lease time of both programs.
const LeaseTime = 2 * time.Minute

// MaxOps is ca_maxoperations of the NFSv4.1 program; Slots its ca_maxrequests.
const (
	MaxOps = 12
	Slots  = 3
)

// StateIDPrefix is the NFSv4.0 program's state ID "other" prefix.
var StateIDPrefix = [4]byte{0x76, 0x65, 0x72, 0x69}

// NewNFS40 builds the real NFSv4.0 program over the world.
func (w *World) NewNFS40() nfsv4.Nfs4Program {
	return re_nfsv4.NewNFS40Program(w.Root, w.Pool, NewRand(w.Seed^0x4040), nfsv4.Verifier4{4, 0}, StateIDPrefix,
		w.Clock, LeaseTime, LeaseTime, path.UNIXFormat, nil)
}

// NewNFS41 builds the real NFSv4.1 program over the world.
func (w *World) NewNFS41() nfsv4.Nfs4Program {
	return re_nfsv4.NewNFS41Program(w.Root, w.Pool, nfsv4.ServerOwner4{SoMinorId: 1, SoMajorId: []byte("verif")}, []byte("scope"),
		&nfsv4.ChannelAttrs4{CaMaxrequestsize: 1 << 20, CaMaxresponsesize: 1 << 20, CaMaxresponsesizeCached: 1 << 20, CaMaxoperations: MaxOps, CaMaxrequests: Slots},
		NewRand(w.Seed^0x4141), nfsv4.Verifier4{4, 1}, w.Clock, LeaseTime, LeaseTime, path.UNIXFormat, nil)
}
