package nfsx

import (
	"bytes"
	"context"
	"fmt"

	"github.com/buildbarn/go-xdr/pkg/protocols/nfsv4"
)

// Compound issues one COMPOUND in-process. A panic inside the server is
// returned as err.
func Compound(p nfsv4.Nfs4Program, minor uint32, ops ...nfsv4.NfsArgop4) (res *nfsv4.Compound4res, err error) {
	defer func() {
		if r := recover(); r != nil {
			err = fmt.Errorf("panic in NFSv4.%d COMPOUND: %v", minor, r)
		}
	}()
	return p.NfsV4Nfsproc4Compound(context.Background(), &nfsv4.Compound4args{Minorversion: minor, Argarray: ops})
}

// Marshal is the XDR encoding of a COMPOUND reply: "byte equality of replies"
// is equality of these.
func Marshal(r *nfsv4.Compound4res) []byte {
	if r == nil {
		return nil
	}
	var b bytes.Buffer
	if _, err := r.WriteTo(&b); err != nil {
		return []byte("marshal-error: " + err.Error())
	}
	return b.Bytes()
}

// OpNums lists the operation numbers of the results.
func OpNums(r *nfsv4.Compound4res) []uint32 {
	out := make([]uint32, len(r.Resarray))
	for i, x := range r.Resarray {
		out[i] = uint32(x.GetResop())
	}
	return out
}

// ArgNums lists the operation numbers of the arguments.
func ArgNums(ops []nfsv4.NfsArgop4) []uint32 {
	out := make([]uint32, len(ops))
	for i, x := range ops {
		out[i] = uint32(x.GetArgop())
	}
	return out
}

// ---- file handle navigation -------------------------------------------------

func PutRootFH() nfsv4.NfsArgop4 { return &nfsv4.NfsArgop4_OP_PUTROOTFH{} }
func PutFH(h []byte) nfsv4.NfsArgop4 {
	return &nfsv4.NfsArgop4_OP_PUTFH{Opputfh: nfsv4.Putfh4args{Object: h}}
}
func GetFH() nfsv4.NfsArgop4 { return &nfsv4.NfsArgop4_OP_GETFH{} }
func Lookup(name string) nfsv4.NfsArgop4 {
	return &nfsv4.NfsArgop4_OP_LOOKUP{Oplookup: nfsv4.Lookup4args{Objname: name}}
}
func GetAttr(bits ...uint32) nfsv4.NfsArgop4 {
	return &nfsv4.NfsArgop4_OP_GETATTR{Opgetattr: nfsv4.Getattr4args{AttrRequest: bits}}
}
func Remove(name string) nfsv4.NfsArgop4 {
	return &nfsv4.NfsArgop4_OP_REMOVE{Opremove: nfsv4.Remove4args{Target: name}}
}

// ---- open / close ---------------------------------------------------------------

// OpenHow selects openflag4/createhow4.
type OpenHow int

const (
	NoCreate OpenHow = iota
	Unchecked
	UncheckedTruncate
	Guarded
)

func openHow(h OpenHow) nfsv4.Openflag4 {
	switch h {
	case Unchecked:
		return &nfsv4.Openflag4_OPEN4_CREATE{How: &nfsv4.Createhow4_UNCHECKED4{}}
	case UncheckedTruncate:
		// size=0 attribute: FATTR4_SIZE (bit 4), value uint64 0
		return &nfsv4.Openflag4_OPEN4_CREATE{How: &nfsv4.Createhow4_UNCHECKED4{Createattrs: nfsv4.Fattr4{
			Attrmask: nfsv4.Bitmap4{1 << nfsv4.FATTR4_SIZE}, AttrVals: make([]byte, 8),
		}}}
	case Guarded:
		return &nfsv4.Openflag4_OPEN4_CREATE{How: &nfsv4.Createhow4_GUARDED4{}}
	}
	return &nfsv4.Openflag4_default{Opentype: nfsv4.OPEN4_NOCREATE}
}

// OpenNull is OPEN with CLAIM_NULL (current FH = directory). seqid is ignored
// by NFSv4.1.
func OpenNull(clientID uint64, owner string, seqid uint32, access uint32, how OpenHow, name string) nfsv4.NfsArgop4 {
	return &nfsv4.NfsArgop4_OP_OPEN{Opopen: nfsv4.Open4args{
		Seqid: seqid, ShareAccess: access, ShareDeny: nfsv4.OPEN4_SHARE_DENY_NONE,
		Owner:   nfsv4.StateOwner4{Clientid: clientID, Owner: []byte(owner)},
		Openhow: openHow(how), Claim: &nfsv4.OpenClaim4_CLAIM_NULL{File: name},
	}}
}

// OpenFH is OPEN with CLAIM_FH (NFSv4.1 only; current FH = file).
func OpenFH(clientID uint64, owner string, access uint32, how OpenHow) nfsv4.NfsArgop4 {
	return &nfsv4.NfsArgop4_OP_OPEN{Opopen: nfsv4.Open4args{
		ShareAccess: access, ShareDeny: nfsv4.OPEN4_SHARE_DENY_NONE,
		Owner:   nfsv4.StateOwner4{Clientid: clientID, Owner: []byte(owner)},
		Openhow: openHow(how), Claim: &nfsv4.OpenClaim4_CLAIM_FH{},
	}}
}

// OpenPrevious is OPEN with CLAIM_PREVIOUS (current FH = file).
func OpenPrevious(clientID uint64, owner string, seqid uint32, access uint32) nfsv4.NfsArgop4 {
	return &nfsv4.NfsArgop4_OP_OPEN{Opopen: nfsv4.Open4args{
		Seqid: seqid, ShareAccess: access, ShareDeny: nfsv4.OPEN4_SHARE_DENY_NONE,
		Owner:   nfsv4.StateOwner4{Clientid: clientID, Owner: []byte(owner)},
		Openhow: openHow(NoCreate), Claim: &nfsv4.OpenClaim4_CLAIM_PREVIOUS{DelegateType: nfsv4.OPEN_DELEGATE_NONE},
	}}
}

func OpenConfirm(sid nfsv4.Stateid4, seqid uint32) nfsv4.NfsArgop4 {
	return &nfsv4.NfsArgop4_OP_OPEN_CONFIRM{OpopenConfirm: nfsv4.OpenConfirm4args{OpenStateid: sid, Seqid: seqid}}
}

func OpenDowngrade(sid nfsv4.Stateid4, seqid uint32, access uint32) nfsv4.NfsArgop4 {
	return &nfsv4.NfsArgop4_OP_OPEN_DOWNGRADE{OpopenDowngrade: nfsv4.OpenDowngrade4args{
		OpenStateid: sid, Seqid: seqid, ShareAccess: access, ShareDeny: nfsv4.OPEN4_SHARE_DENY_NONE}}
}

func Close(sid nfsv4.Stateid4, seqid uint32) nfsv4.NfsArgop4 {
	return &nfsv4.NfsArgop4_OP_CLOSE{Opclose: nfsv4.Close4args{Seqid: seqid, OpenStateid: sid}}
}

// ---- locks ---------------------------------------------------------------------

// LockNew is LOCK with new_lock_owner = true.
func LockNew(lt nfsv4.NfsLockType4, off, length uint64, openSeqid uint32, openSid nfsv4.Stateid4, lockSeqid uint32, clientID uint64, lockOwner string) nfsv4.NfsArgop4 {
	return &nfsv4.NfsArgop4_OP_LOCK{Oplock: nfsv4.Lock4args{Locktype: lt, Offset: off, Length: length,
		Locker: &nfsv4.Locker4_TRUE{OpenOwner: nfsv4.OpenToLockOwner4{OpenSeqid: openSeqid, OpenStateid: openSid, LockSeqid: lockSeqid,
			LockOwner: nfsv4.StateOwner4{Clientid: clientID, Owner: []byte(lockOwner)}}}}}
}

// LockExisting is LOCK with new_lock_owner = false.
func LockExisting(lt nfsv4.NfsLockType4, off, length uint64, lockSid nfsv4.Stateid4, lockSeqid uint32) nfsv4.NfsArgop4 {
	return &nfsv4.NfsArgop4_OP_LOCK{Oplock: nfsv4.Lock4args{Locktype: lt, Offset: off, Length: length,
		Locker: &nfsv4.Locker4_FALSE{LockOwner: nfsv4.ExistLockOwner4{LockStateid: lockSid, LockSeqid: lockSeqid}}}}
}

func LockT(lt nfsv4.NfsLockType4, off, length uint64, clientID uint64, lockOwner string) nfsv4.NfsArgop4 {
	return &nfsv4.NfsArgop4_OP_LOCKT{Oplockt: nfsv4.Lockt4args{Locktype: lt, Offset: off, Length: length,
		Owner: nfsv4.StateOwner4{Clientid: clientID, Owner: []byte(lockOwner)}}}
}

func LockU(lt nfsv4.NfsLockType4, off, length uint64, lockSid nfsv4.Stateid4, seqid uint32) nfsv4.NfsArgop4 {
	return &nfsv4.NfsArgop4_OP_LOCKU{Oplocku: nfsv4.Locku4args{Locktype: lt, Seqid: seqid, LockStateid: lockSid, Offset: off, Length: length}}
}

func ReleaseLockOwner(clientID uint64, lockOwner string) nfsv4.NfsArgop4 {
	return &nfsv4.NfsArgop4_OP_RELEASE_LOCKOWNER{OpreleaseLockowner: nfsv4.ReleaseLockowner4args{
		LockOwner: nfsv4.StateOwner4{Clientid: clientID, Owner: []byte(lockOwner)}}}
}

func FreeStateID(sid nfsv4.Stateid4) nfsv4.NfsArgop4 {
	return &nfsv4.NfsArgop4_OP_FREE_STATEID{OpfreeStateid: nfsv4.FreeStateid4args{FsaStateid: sid}}
}

// ---- I/O -------------------------------------------------------------------------

func Read(sid nfsv4.Stateid4, off uint64, count uint32) nfsv4.NfsArgop4 {
	return &nfsv4.NfsArgop4_OP_READ{Opread: nfsv4.Read4args{Stateid: sid, Offset: off, Count: count}}
}

func Write(sid nfsv4.Stateid4, off uint64, data []byte) nfsv4.NfsArgop4 {
	return &nfsv4.NfsArgop4_OP_WRITE{Opwrite: nfsv4.Write4args{Stateid: sid, Offset: off, Stable: nfsv4.FILE_SYNC4, Data: data}}
}

// ---- NFSv4.0 client registration ----------------------------------------------------

func SetClientID(id string, verifier byte) nfsv4.NfsArgop4 {
	return &nfsv4.NfsArgop4_OP_SETCLIENTID{Opsetclientid: nfsv4.Setclientid4args{
		Client: nfsv4.NfsClientId4{Verifier: nfsv4.Verifier4{verifier}, Id: []byte(id)}}}
}

func SetClientIDConfirm(clientID uint64, verifier nfsv4.Verifier4) nfsv4.NfsArgop4 {
	return &nfsv4.NfsArgop4_OP_SETCLIENTID_CONFIRM{OpsetclientidConfirm: nfsv4.SetclientidConfirm4args{Clientid: clientID, SetclientidConfirm: verifier}}
}

func Renew(clientID uint64) nfsv4.NfsArgop4 {
	return &nfsv4.NfsArgop4_OP_RENEW{Oprenew: nfsv4.Renew4args{Clientid: clientID}}
}

// Register40 performs SETCLIENTID + SETCLIENTID_CONFIRM and returns the short
// client id.
func Register40(p nfsv4.Nfs4Program, id string, verifier byte) (uint64, error) {
	r, err := Compound(p, 0, SetClientID(id, verifier))
	if err != nil {
		return 0, err
	}
	ok, isOK := r.Resarray[0].(*nfsv4.NfsResop4_OP_SETCLIENTID).Opsetclientid.(*nfsv4.Setclientid4res_NFS4_OK)
	if !isOK {
		return 0, fmt.Errorf("SETCLIENTID status %d", r.Status)
	}
	r, err = Compound(p, 0, SetClientIDConfirm(ok.Resok4.Clientid, ok.Resok4.SetclientidConfirm))
	if err != nil {
		return 0, err
	}
	if r.Status != nfsv4.NFS4_OK {
		return 0, fmt.Errorf("SETCLIENTID_CONFIRM status %d", r.Status)
	}
	return ok.Resok4.Clientid, nil
}

// ---- NFSv4.1 sessions ------------------------------------------------------------------

func ExchangeID(owner string, verifier byte) nfsv4.NfsArgop4 {
	return &nfsv4.NfsArgop4_OP_EXCHANGE_ID{OpexchangeId: nfsv4.ExchangeId4args{
		EiaClientowner:  nfsv4.ClientOwner4{CoVerifier: nfsv4.Verifier4{verifier}, CoOwnerid: []byte(owner)},
		EiaStateProtect: &nfsv4.StateProtect4A_SP4_NONE{}}}
}

func CreateSession(clientID uint64, seq uint32) nfsv4.NfsArgop4 {
	big := nfsv4.ChannelAttrs4{CaMaxrequestsize: 1 << 20, CaMaxresponsesize: 1 << 20, CaMaxresponsesizeCached: 1 << 20, CaMaxoperations: 64, CaMaxrequests: 16}
	return &nfsv4.NfsArgop4_OP_CREATE_SESSION{OpcreateSession: nfsv4.CreateSession4args{
		CsaClientid: clientID, CsaSequence: seq, CsaForeChanAttrs: big, CsaBackChanAttrs: big}}
}

func Sequence(sess [16]byte, slot, seq uint32, cacheThis bool) nfsv4.NfsArgop4 {
	return &nfsv4.NfsArgop4_OP_SEQUENCE{Opsequence: nfsv4.Sequence4args{SaSessionid: sess, SaSequenceid: seq, SaSlotid: slot, SaHighestSlotid: Slots - 1, SaCachethis: cacheThis}}
}

func DestroySession(sess [16]byte) nfsv4.NfsArgop4 {
	return &nfsv4.NfsArgop4_OP_DESTROY_SESSION{OpdestroySession: nfsv4.DestroySession4args{DsaSessionid: sess}}
}

func DestroyClientID(clientID uint64) nfsv4.NfsArgop4 {
	return &nfsv4.NfsArgop4_OP_DESTROY_CLIENTID{OpdestroyClientid: nfsv4.DestroyClientid4args{DcaClientid: clientID}}
}

func ReclaimComplete() nfsv4.NfsArgop4 {
	return &nfsv4.NfsArgop4_OP_RECLAIM_COMPLETE{}
}

// Register41 performs EXCHANGE_ID + CREATE_SESSION; returns client id, the
// sequence id used for CREATE_SESSION and the session id.
func Register41(p nfsv4.Nfs4Program, owner string, verifier byte) (uint64, uint32, [16]byte, error) {
	var none [16]byte
	r, err := Compound(p, 1, ExchangeID(owner, verifier))
	if err != nil {
		return 0, 0, none, err
	}
	ok, isOK := r.Resarray[0].(*nfsv4.NfsResop4_OP_EXCHANGE_ID).OpexchangeId.(*nfsv4.ExchangeId4res_NFS4_OK)
	if !isOK {
		return 0, 0, none, fmt.Errorf("EXCHANGE_ID status %d", r.Status)
	}
	r, err = Compound(p, 1, CreateSession(ok.EirResok4.EirClientid, ok.EirResok4.EirSequenceid))
	if err != nil {
		return 0, 0, none, err
	}
	cs, isOK := r.Resarray[0].(*nfsv4.NfsResop4_OP_CREATE_SESSION).OpcreateSession.(*nfsv4.CreateSession4res_NFS4_OK)
	if !isOK {
		return 0, 0, none, fmt.Errorf("CREATE_SESSION status %d", r.Status)
	}
	return ok.EirResok4.EirClientid, ok.EirResok4.EirSequenceid, cs.CsrResok4.CsrSessionid, nil
}

// ---- result accessors ------------------------------------------------------------------

// OpenStateID extracts the state ID of the first successful OPEN result.
func OpenStateID(r *nfsv4.Compound4res) (nfsv4.Stateid4, bool) {
	for _, x := range r.Resarray {
		if o, ok := x.(*nfsv4.NfsResop4_OP_OPEN); ok {
			if okRes, ok := o.Opopen.(*nfsv4.Open4res_NFS4_OK); ok {
				return okRes.Resok4.Stateid, true
			}
		}
	}
	return nfsv4.Stateid4{}, false
}

// OpenNeedsConfirm reports OPEN4_RESULT_CONFIRM of the first successful OPEN.
func OpenNeedsConfirm(r *nfsv4.Compound4res) bool {
	for _, x := range r.Resarray {
		if o, ok := x.(*nfsv4.NfsResop4_OP_OPEN); ok {
			if okRes, ok := o.Opopen.(*nfsv4.Open4res_NFS4_OK); ok {
				return okRes.Resok4.Rflags&nfsv4.OPEN4_RESULT_CONFIRM != 0
			}
		}
	}
	return false
}

// ResultStateID extracts the state ID returned by the first successful
// OPEN_CONFIRM / OPEN_DOWNGRADE / CLOSE / LOCK / LOCKU result.
func ResultStateID(r *nfsv4.Compound4res) (nfsv4.Stateid4, bool) {
	for _, x := range r.Resarray {
		switch o := x.(type) {
		case *nfsv4.NfsResop4_OP_OPEN_CONFIRM:
			if okRes, ok := o.OpopenConfirm.(*nfsv4.OpenConfirm4res_NFS4_OK); ok {
				return okRes.Resok4.OpenStateid, true
			}
		case *nfsv4.NfsResop4_OP_OPEN_DOWNGRADE:
			if okRes, ok := o.OpopenDowngrade.(*nfsv4.OpenDowngrade4res_NFS4_OK); ok {
				return okRes.Resok4.OpenStateid, true
			}
		case *nfsv4.NfsResop4_OP_CLOSE:
			if okRes, ok := o.Opclose.(*nfsv4.Close4res_NFS4_OK); ok {
				return okRes.OpenStateid, true
			}
		case *nfsv4.NfsResop4_OP_LOCK:
			if okRes, ok := o.Oplock.(*nfsv4.Lock4res_NFS4_OK); ok {
				return okRes.Resok4.LockStateid, true
			}
		case *nfsv4.NfsResop4_OP_LOCKU:
			if okRes, ok := o.Oplocku.(*nfsv4.Locku4res_NFS4_OK); ok {
				return okRes.LockStateid, true
			}
		}
	}
	return nfsv4.Stateid4{}, false
}

// ReadData extracts the data of the first successful READ result.
func ReadData(r *nfsv4.Compound4res) ([]byte, bool) {
	for _, x := range r.Resarray {
		if o, ok := x.(*nfsv4.NfsResop4_OP_READ); ok {
			if okRes, ok := o.Opread.(*nfsv4.Read4res_NFS4_OK); ok {
				return okRes.Resok4.Data, true
			}
		}
	}
	return nil, false
}

// Share access constants re-exported for harnesses.
const (
	AccessRead  = nfsv4.OPEN4_SHARE_ACCESS_READ
	AccessWrite = nfsv4.OPEN4_SHARE_ACCESS_WRITE
	AccessBoth  = nfsv4.OPEN4_SHARE_ACCESS_BOTH
)
