package nfsx

import (
	"bytes"
	"testing"
	"testing/synctest"

	"github.com/buildbarn/go-xdr/pkg/protocols/nfsv4"
)

// OPEN / READ / CLOSE against both real programs, plus one parked WRITE.
func TestSmoke40(t *testing.T) {
	w := NewWorld(1, 2)
	p := w.NewNFS40()
	cid, err := Register40(p, "client", 1)
	if err != nil {
		t.Fatal(err)
	}
	r, err := Compound(p, 0, PutFH(w.DirHandles[0]), OpenNull(cid, "oo", 1, AccessBoth, NoCreate, "f"), GetFH())
	if err != nil || r.Status != nfsv4.NFS4_OK {
		t.Fatalf("open: %v %v", err, r)
	}
	sid, _ := OpenStateID(r)
	if !OpenNeedsConfirm(r) {
		t.Fatal("first OPEN of an open-owner must ask for OPEN_CONFIRM")
	}
	r, _ = Compound(p, 0, PutFH(w.FileHandles[0]), OpenConfirm(sid, 2))
	if r.Status != nfsv4.NFS4_OK {
		t.Fatalf("open_confirm: %d", r.Status)
	}
	sid, _ = ResultStateID(r)
	r, _ = Compound(p, 0, PutFH(w.FileHandles[0]), Read(sid, 0, 6))
	if d, ok := ReadData(r); !ok || !bytes.Equal(d, []byte("file0:")) {
		t.Fatalf("read: %d %q", r.Status, d)
	}
	r, _ = Compound(p, 0, PutFH(w.FileHandles[0]), Close(sid, 3))
	if r.Status != nfsv4.NFS4_OK {
		t.Fatalf("close: %d", r.Status)
	}
	c := NewCanon()
	t.Log(c.Res(r))
	t.Log(w.Log())
}

func TestSmoke41(t *testing.T) {
	synctest.Test(t, func(t *testing.T) {
		w := NewWorld(1, 2)
		p := w.NewNFS41()
		cid, _, sess, err := Register41(p, "client", 1)
		if err != nil {
			t.Fatal(err)
		}
		r, err := Compound(p, 1, Sequence(sess, 0, 1, true), PutFH(w.FileHandles[1]), OpenFH(cid, "oo", AccessBoth, NoCreate))
		if err != nil || r.Status != nfsv4.NFS4_OK {
			t.Fatalf("open: %v %v", err, r)
		}
		sid, _ := OpenStateID(r)
		r, _ = Compound(p, 1, Sequence(sess, 0, 2, true), PutFH(w.FileHandles[1]), Read(sid, 0, 6))
		if d, ok := ReadData(r); !ok || !bytes.Equal(d, []byte("file1:")) {
			t.Fatalf("read: %d %q", r.Status, d)
		}
		g := w.Park(1, "write")
		done := make(chan *nfsv4.Compound4res, 1)
		go func() {
			r, _ := Compound(p, 1, Sequence(sess, 1, 1, true), PutFH(w.FileHandles[1]), Write(sid, 0, []byte("HELLO")))
			done <- r
		}()
		synctest.Wait()
		if !g.Entered() || len(done) != 0 {
			t.Fatal("WRITE should be parked")
		}
		g.Release()
		synctest.Wait()
		if len(done) != 1 {
			t.Fatal("WRITE should have returned")
		}
		r, _ = Compound(p, 1, Sequence(sess, 0, 3, true), PutFH(w.FileHandles[1]), Close(sid, 0))
		if r.Status != nfsv4.NFS4_OK {
			t.Fatalf("close: %d", r.Status)
		}
		t.Log(NewCanon().Res(r))
		t.Log(w.Log())
		w.ReleaseAll()
	})
}
