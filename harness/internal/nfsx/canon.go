package nfsx

import (
	"encoding/hex"
	"fmt"
	"reflect"
	"strings"

	"github.com/buildbarn/go-xdr/pkg/protocols/nfsv4"
)

// Canon renders COMPOUND replies with every server-chosen identifier replaced
// by the index at which it was first seen: client ids ("c0"), state ID `other`
// values ("s0", special all-zero / all-one values stay "anon" / "bypass"),
// session ids ("S0"), SETCLIENTID verifiers ("v0") and file handles ("h0").
// Two runs that differ only in the random identifiers the server picked
// render identically. One Canon per history.
type Canon struct {
	clients   map[uint64]int
	others    map[[12]byte]int
	sessions  map[[16]byte]int
	verifiers map[[8]byte]int
	handles   map[string]int
}

func NewCanon() *Canon {
	return &Canon{clients: map[uint64]int{}, others: map[[12]byte]int{}, sessions: map[[16]byte]int{},
		verifiers: map[[8]byte]int{}, handles: map[string]int{}}
}

func (c *Canon) Client(id uint64) string {
	if _, ok := c.clients[id]; !ok {
		c.clients[id] = len(c.clients)
	}
	return fmt.Sprintf("c%d", c.clients[id])
}

func (c *Canon) Other(o [12]byte) string {
	if o == [12]byte{} {
		return "anon"
	}
	if o == [12]byte{0xff, 0xff, 0xff, 0xff, 0xff, 0xff, 0xff, 0xff, 0xff, 0xff, 0xff, 0xff} {
		return "bypass"
	}
	if _, ok := c.others[o]; !ok {
		c.others[o] = len(c.others)
	}
	return fmt.Sprintf("s%d", c.others[o])
}

func (c *Canon) StateID(s nfsv4.Stateid4) string {
	return fmt.Sprintf("%s.%d", c.Other(s.Other), s.Seqid)
}

func (c *Canon) Session(s [16]byte) string {
	if _, ok := c.sessions[s]; !ok {
		c.sessions[s] = len(c.sessions)
	}
	return fmt.Sprintf("S%d", c.sessions[s])
}

func (c *Canon) Handle(h []byte) string {
	k := string(h)
	if _, ok := c.handles[k]; !ok {
		c.handles[k] = len(c.handles)
	}
	return fmt.Sprintf("h%d", c.handles[k])
}

// Res renders a whole COMPOUND reply.
func (c *Canon) Res(r *nfsv4.Compound4res) string {
	if r == nil {
		return "nil"
	}
	var b strings.Builder
	fmt.Fprintf(&b, "st=%d", uint32(r.Status))
	for _, x := range r.Resarray {
		b.WriteString(" [")
		fmt.Fprintf(&b, "%d:", uint32(x.GetResop()))
		c.walk(&b, reflect.ValueOf(x), "")
		b.WriteString("]")
	}
	return b.String()
}

var stateidType = reflect.TypeOf(nfsv4.Stateid4{})

func (c *Canon) walk(b *strings.Builder, v reflect.Value, field string) {
	if !v.IsValid() {
		b.WriteString("nil")
		return
	}
	switch v.Kind() {
	case reflect.Interface, reflect.Ptr:
		if v.IsNil() {
			b.WriteString("nil")
			return
		}
		c.walk(b, v.Elem(), field)
	case reflect.Struct:
		if v.Type() == stateidType {
			b.WriteString(c.StateID(v.Interface().(nfsv4.Stateid4)))
			return
		}
		// the Go type name distinguishes the arms of an XDR union (…_NFS4_OK / …_default)
		name := v.Type().Name()
		if i := strings.LastIndex(name, "_"); i >= 0 && strings.Contains(name, "res") {
			b.WriteString(name[i+1:])
		}
		b.WriteString("{")
		for i := 0; i < v.NumField(); i++ {
			f := v.Type().Field(i)
			if !f.IsExported() {
				continue
			}
			if i > 0 {
				b.WriteString(",")
			}
			c.walk(b, v.Field(i), f.Name)
		}
		b.WriteString("}")
	case reflect.Array:
		if v.Type().Elem().Kind() == reflect.Uint8 {
			n := v.Len()
			buf := make([]byte, n)
			for i := 0; i < n; i++ {
				buf[i] = byte(v.Index(i).Uint())
			}
			switch {
			case n == 16 && strings.Contains(strings.ToLower(field), "sessid") || n == 16 && strings.Contains(strings.ToLower(field), "sessionid"):
				var s [16]byte
				copy(s[:], buf)
				b.WriteString(c.Session(s))
			case n == 8 && field == "SetclientidConfirm":
				var s [8]byte
				copy(s[:], buf)
				if _, ok := c.verifiers[s]; !ok {
					c.verifiers[s] = len(c.verifiers)
				}
				fmt.Fprintf(b, "v%d", c.verifiers[s])
			default:
				b.WriteString(hex.EncodeToString(buf))
			}
			return
		}
		b.WriteString("(")
		for i := 0; i < v.Len(); i++ {
			if i > 0 {
				b.WriteString(",")
			}
			c.walk(b, v.Index(i), field)
		}
		b.WriteString(")")
	case reflect.Slice:
		if v.Type().Elem().Kind() == reflect.Uint8 {
			if field == "Object" { // getfh4resok.object
				b.WriteString(c.Handle(v.Bytes()))
			} else {
				b.WriteString(hex.EncodeToString(v.Bytes()))
			}
			return
		}
		b.WriteString("(")
		for i := 0; i < v.Len(); i++ {
			if i > 0 {
				b.WriteString(",")
			}
			c.walk(b, v.Index(i), field)
		}
		b.WriteString(")")
	case reflect.Uint64:
		if strings.HasSuffix(strings.ToLower(field), "clientid") {
			b.WriteString(c.Client(v.Uint()))
		} else {
			fmt.Fprintf(b, "%d", v.Uint())
		}
	case reflect.Uint8, reflect.Uint16, reflect.Uint32, reflect.Uint:
		fmt.Fprintf(b, "%d", v.Uint())
	case reflect.Int, reflect.Int8, reflect.Int16, reflect.Int32, reflect.Int64:
		fmt.Fprintf(b, "%d", v.Int())
	case reflect.Bool:
		fmt.Fprintf(b, "%v", v.Bool())
	case reflect.String:
		fmt.Fprintf(b, "%q", v.String())
	default:
		fmt.Fprintf(b, "?%s", v.Kind())
	}
}
