package main

import (
	"fmt"
	"math/big"
	"os"
	"sort"
	"strconv"
	"strings"

	remoteexecution "github.com/bazelbuild/remote-apis/build/bazel/remote/execution/v2"
	"github.com/buildbarn/bb-storage/pkg/blobstore"
	"github.com/buildbarn/bb-storage/pkg/digest"

	"verifharness/internal/hx"
)

func reducedDigest(df digest.Function, a *remoteexecution.Action) (digest.Digest, error) {
	return blobstore.GetReducedActionDigest(df, a)
}

const (
	second = int64(1000000000)
	now0   = int64(1700000000) * second
)

// denormal is the smallest positive double, 2^-1074, as a rational.
var denormal = "1/" + new(big.Int).Lsh(big.NewInt(1), 1074).String()

func pickI64(r *hx.Rand, xs ...int64) int64 { return xs[r.Intn(len(xs))] }

func classesString(cs []uint32) string {
	if len(cs) == 0 {
		return "-"
	}
	p := make([]string, len(cs))
	for i, c := range cs {
		p[i] = strconv.FormatUint(uint64(c), 10)
	}
	return strings.Join(p, ",")
}

func subset(r *hx.Rand, universe []uint32, n int) []uint32 {
	idx := map[int]bool{}
	for len(idx) < n && len(idx) < len(universe) {
		idx[r.Intn(len(universe))] = true
	}
	var out []uint32
	for i := range idx {
		out = append(out, universe[i])
	}
	sort.Slice(out, func(i, j int) bool { return out[i] < out[j] })
	return out
}

// gen produces one history: configuration, statistics tables, then interleaved
// requests.  Terminal calls are generated blindly; a call that does not apply
// (no outstanding learner) is skipped by exec and never reaches the model.
func gen(r *hx.Rand) []string {
	var lines []string
	floatMode := r.Chance(1, 10)
	// quantised: exponent 0 and one or two distinct durations per table, with very different
	// multiplicities per size class (ties between normalised execution times of different classes)
	quant := !floatMode && r.Chance(1, 4)
	// sequential: a request is only started when no other is outstanding, so that the store
	// writes the message back and drops it between requests (fail -> flush -> succeed)
	sequential := r.Chance(1, 2)
	kind := "fd"
	if r.Chance(12, 100) {
		kind = "fb"
	}
	calc := "pr"
	if r.Chance(12, 100) {
		calc = "small"
	}
	// single: a platform queue with one size class (no strategies are computed; a failure is only
	// remembered as last_seen_failure); biased towards fail -> write back -> succeed within the
	// failure cache duration
	single := r.Chance(18, 100)
	hist := pickI64(r, 1, 2, 3, 4, 8, 32)
	fcd := pickI64(r, 0, second, 3600*second)
	if single && r.Chance(2, 3) {
		fcd = 3600 * second
	}
	if single && r.Chance(3, 4) {
		sequential = true
	}
	maxTO := pickI64(r, 3600*second, 7200*second)
	defTO := pickI64(r, maxTO/4, maxTO, 0, 1800*second)
	minTO := pickI64(r, 0, 1, 10*second, 100*second, 2*maxTO)
	var universe []uint32
	if floatMode {
		exps := []string{"0.2", "0.5", "0.7", "1", "-1", "3.3", "NaN", "+Inf", "0"}
		muls := []string{"1.5", "1", "0.1", "0", "-1", "NaN", "+Inf", "1e300", "2.5"}
		epss := []string{"0.01", "0.002", "0.001", "1e-06"}
		lines = append(lines, fmt.Sprintf("cfgf %s %s %d %d %d %s %s %s %d %d", kind, calc, hist, fcd, minTO,
			exps[r.Intn(len(exps))], muls[r.Intn(len(muls))], epss[r.Intn(len(epss))], defTO, maxTO))
		universe = []uint32{1, 2, 3, 7, 10, 16, 1000, 4294967295}
	} else {
		e := r.Intn(3)
		if quant {
			e = 0
		}
		mul := [][2]int{{1, 1}, {3, 2}, {2, 1}, {5, 4}, {3, 1}, {1, 2}, {3, 4}}[r.Intn(7)]
		eps := [][2]int{{1, 100}, {1, 500}, {1, 1000}, {1, 1000000}}[r.Intn(4)]
		if !quant && r.Chance(1, 12) {
			// far above the recommended 0.002: compared with the model, range of the probabilities not judged
			eps = [][2]int{{1, 2}, {1, 10}}[r.Intn(2)]
		}
		lines = append(lines, fmt.Sprintf("cfg %s %s %d %d %d %d %d %d %d %d 1000000 %d %d", kind, calc, hist, fcd, minTO,
			e, mul[0], mul[1], eps[0], eps[1], defTO, maxTO))
		base := uint32(pickI64(r, 1, 1, 3, 5))
		for k := 0; k < 6; k++ {
			universe = append(universe, base<<uint(k))
		}
	}
	nClasses := 2 + r.Pick(27, 27, 23, 23)
	if single && !quant {
		nClasses = 1
	}
	classes := subset(r, universe, nClasses)
	if nClasses == 1 && r.Chance(1, 3) {
		classes = []uint32{0} // workers that do not use size classes
	}

	// statistics tables
	nKeys := 1 + r.Intn(3)
	if single && r.Chance(1, 2) {
		nKeys = 1
	}
	for k := 0; k < nKeys; k++ {
		if r.Chance(1, 8) || (single && r.Chance(1, 2)) {
			continue // never seen before: empty message
		}
		unit := pickI64(r, 1000000, second, 30*second, 600*second) / 4
		lsf := "-"
		// rich tables: every size class of the list has samples and the largest mostly succeeded, so that
		// GetStrategies reaches the matrix and the power iteration
		rich := quant || r.Chance(2, 5)
		lsfKind := r.Intn(4)
		if rich && lsfKind == 1 {
			lsfKind = 0
		}
		switch lsfKind {
		case 0:
			lsf = strconv.FormatInt(now0-fcd-second-int64(r.Intn(1000))*second, 10)
		case 1:
			lsf = strconv.FormatInt(now0+int64(r.Intn(4000))*second, 10)
		}
		line := fmt.Sprintf("stats %d %s", k, lsf)
		for _, sc := range universe {
			inList := false
			for _, c := range classes {
				inList = inList || c == sc
			}
			if (inList && !rich && r.Chance(1, 5)) || (!inList && r.Chance(2, 3)) {
				continue
			}
			n := 0
			kindN := r.Pick(15, 35, 35, 15)
			if rich && inList && kindN == 0 {
				kindN = 2
			}
			switch kindN {
			case 1:
				n = 1 + r.Intn(3)
			case 2:
				n = 1 + r.Intn(int(hist))
			case 3:
				n = 1 + r.Intn(32)
			}
			// how this size class tends to behave
			pS, pF := 60, 15
			switch r.Intn(4) {
			case 0:
				pS, pF = 95, 3
			case 1:
				pS, pF = 15, 45
			}
			if rich && sc == classes[len(classes)-1] {
				pS, pF = 90, 5
			}
			var os []string
			qv := [2]int64{unit * 4, unit * 8}
			qw := r.Intn(5) // how often the first of the two values is used by this class (of 4)
			if quant {
				pS, pF = 92, 4
				n = []int{1, 2, 3, 8, 20, 32}[r.Intn(6)]
			}
			for i := 0; i < n; i++ {
				d := unit * int64(1+r.Intn(12))
				if r.Chance(1, 20) {
					d = 0
				}
				if quant {
					d = qv[1]
					if r.Intn(4) < qw {
						d = qv[0]
					}
				}
				x := r.Intn(100)
				switch {
				case x < pS:
					os = append(os, fmt.Sprintf("S%d", d))
				case x < pS+pF:
					os = append(os, "F")
				case x < 98:
					os = append(os, fmt.Sprintf("T%d", d))
				default:
					os = append(os, "U")
				}
			}
			prob := "0"
			// any double can come back from storage: in range, exactly 0 / 1, out of range, denormal, non-finite
			switch r.Pick(36, 36, 6, 5, 5, 4, 3, 3, 2) {
			case 1:
				prob = fmt.Sprintf("%d/1024", 1+r.Intn(1023))
			case 2:
				prob = "1"
			case 3:
				prob = "3/2"
			case 4:
				prob = "-1/4"
			case 5:
				prob = "NaN"
			case 6:
				prob = "+Inf"
			case 7:
				prob = "-Inf"
			case 8:
				prob = denormal
			}
			line += fmt.Sprintf(" %d:%s:%s", sc, prob, strings.Join(os, ","))
		}
		lines = append(lines, line)
	}

	// requests
	now := now0
	nReq := 1 + r.Intn(6)
	type reqGen struct {
		id, stage int
	}
	var open []*reqGen
	nextID := 0
	unit := pickI64(r, 1000000, second, 30*second, 600*second) / 4
	for nextID < nReq || len(open) > 0 {
		now += int64(r.Intn(2000)) * second / 4
		if nextID < nReq && (len(open) == 0 || (!sequential && r.Chance(1, 3))) {
			id := nextID
			nextID++
			key := r.Intn(nKeys)
			to := "unset"
			switch x := r.Intn(100); {
			case x < 35:
			case x < 45:
				to = "0 0"
			case x < 55:
				to = fmt.Sprintf("%d 0", maxTO/second)
			case x < 60:
				to = fmt.Sprintf("%d 1", maxTO/second)
			case x < 63:
				to = "-1 0"
			case x < 66:
				to = "0 -1"
			case x < 69:
				to = "5 -1"
			case x < 71:
				to = "315576000000 0"
			case x < 73:
				to = "315576000001 0"
			case x < 75:
				to = "0 1000000000"
			default:
				to = fmt.Sprintf("%d %d", r.Intn(int(maxTO/second)), r.Intn(2)*r.Intn(1000000000))
			}
			g := "ok"
			if r.Chance(1, 20) {
				g = "err"
			}
			lines = append(lines, fmt.Sprintf("analyze %d %d %s %s", id, key, to, g))
			open = append(open, &reqGen{id: id})
			continue
		}
		i := r.Intn(len(open))
		q := open[i]
		switch {
		case q.stage == 0:
			if r.Chance(12, 100) {
				lines = append(lines, fmt.Sprintf("sabandon %d", q.id))
				q.stage = 9
			} else {
				rs := "0"
				switch x := r.Intn(100); {
				case x < 22:
				case x < 32:
					rs = "9007199254740991/9007199254740992"
				case x < 45:
					rs = "1/2"
				default:
					rs = fmt.Sprintf("%d/1073741824", r.Intn(1073741824))
				}
				lines = append(lines, fmt.Sprintf("select %d %d %s %s", q.id, now, rs, classesString(classes)))
				q.stage = 1
			}
		case q.stage >= 1 && q.stage <= 3:
			wS, wF, wA := 50, 35, 15
			if single {
				wS, wF, wA = 42, 48, 10
			}
			switch r.Pick(wS, wF, wA) {
			case 0:
				cs := classes
				switch x := r.Intn(100); {
				case x < 72:
				case x < 84: // a smaller class disappeared
					if len(cs) > 1 {
						j := r.Intn(len(cs) - 1)
						cs = append(append([]uint32{}, cs[:j]...), cs[j+1:]...)
					}
				case x < 94: // another list with the same largest class
					largest := cs[len(cs)-1]
					var lower []uint32
					for _, u := range universe {
						if u < largest {
							lower = append(lower, u)
						}
					}
					cs = append(subset(r, lower, r.Intn(4)), largest)
				default: // the largest class changed: outside what the scheduler does
					cs = subset(r, universe, 1+r.Intn(4))
				}
				d := unit * int64(1+r.Intn(12))
				if r.Chance(1, 20) {
					d = 0
				}
				lines = append(lines, fmt.Sprintf("succ %d %d %s", q.id, d, classesString(cs)))
			case 1:
				lines = append(lines, fmt.Sprintf("fail %d %d %d", q.id, r.Intn(2), now))
			case 2:
				lines = append(lines, fmt.Sprintf("aband %d", q.id))
			}
			q.stage++
		default:
			// close the path whatever state the request is in
			lines = append(lines, fmt.Sprintf("aband %d", q.id), fmt.Sprintf("aband %d", q.id), fmt.Sprintf("sabandon %d", q.id))
			open = append(open[:i], open[i+1:]...)
		}
	}
	for k := 0; k < nKeys; k++ {
		lines = append(lines, fmt.Sprintf("dump %d", k))
	}
	// Outcomes.IsFaster directly: few distinct values, so that runs of equal samples of
	// different lengths meet
	nIsFaster := r.Intn(3)
	if os.Getenv("ISC_NO_ISFASTER") != "" {
		nIsFaster = 0 // debugging aid: judge IsFaster only through GetStrategies
	}
	for k := nIsFaster; k > 0; k-- {
		mk := func() string {
			n := []int{0, 1, 2, 3, 5, 9, 32}[r.Intn(7)]
			if n == 0 {
				return "-"
			}
			vals := 1 + r.Intn(3)
			p := make([]string, n)
			for i := range p {
				p[i] = strconv.FormatInt(unit*int64(1+r.Intn(vals)), 10)
			}
			return strings.Join(p, ",")
		}
		lines = append(lines, fmt.Sprintf("isfaster %d %d %s %s", r.Intn(4)*r.Intn(9), r.Intn(4)*r.Intn(9), mk(), mk()))
	}
	return lines
}
