// Command isc ties Model/ISC.lean to pkg/scheduler/initialsizeclass (C07 part
// (b)): the real FeedbackDrivenAnalyzer (real PageRank / smallest-size-class
// strategy calculators) and the real FallbackAnalyzer are driven with random
// statistics tables and outcome sequences; every observable (indices,
// timeouts, expected durations, learner-or-nil, store Get/Release calls, the
// recorded statistics message) is compared with the Lean model after every
// call, and a monitor judges the implementation's own trace.
package main

import (
	"context"
	"fmt"
	"math"
	"math/big"
	"os"
	"sort"
	"strconv"
	"strings"
	"time"

	remoteexecution "github.com/bazelbuild/remote-apis/build/bazel/remote/execution/v2"
	re_blobstore "github.com/buildbarn/bb-remote-execution/pkg/blobstore"
	"github.com/buildbarn/bb-remote-execution/pkg/scheduler/initialsizeclass"
	"github.com/buildbarn/bb-storage/pkg/clock"
	"github.com/buildbarn/bb-storage/pkg/digest"
	"github.com/buildbarn/bb-storage/pkg/proto/iscc"
	"google.golang.org/grpc/codes"
	"google.golang.org/grpc/status"
	"google.golang.org/protobuf/proto"
	"google.golang.org/protobuf/types/known/durationpb"
	"google.golang.org/protobuf/types/known/emptypb"
	"google.golang.org/protobuf/types/known/timestamppb"

	"verifharness/internal/hx"
)

// ---------------------------------------------------------------- fakes

// entry is one message of the fake Initial Size Class Cache.  Like the real
// BlobAccessMutableProtoStore the fake keeps one shared in-memory message
// while handles are out, serialises it when the last handle is released and a
// release since loading was dirty, drops the in-memory copy, and deserialises
// on the next Get (so that e.g. an empty map comes back as nil).
type entry struct {
	stored  []byte
	live    *iscc.PreviousExecutionStats
	dropped *iscc.PreviousExecutionStats // the last in-memory copy, as the final Release left it
	users   int
	dirty   bool
}

func (e *entry) load() *iscc.PreviousExecutionStats {
	m := &iscc.PreviousExecutionStats{}
	if err := proto.Unmarshal(e.stored, m); err != nil {
		panic(err)
	}
	return m
}

// view is the message a new Get would see.
func (e *entry) view() *iscc.PreviousExecutionStats {
	if e.live != nil {
		return e.live
	}
	return e.load()
}

// memory is the in-memory message as the last call left it (before a drop).
func (e *entry) memory() *iscc.PreviousExecutionStats {
	if e.live != nil {
		return e.live
	}
	if e.dropped != nil {
		return e.dropped
	}
	return e.load()
}

type fakeHandle struct {
	id           int
	e            *entry
	msg          *iscc.PreviousExecutionStats
	releases     []bool
	useAfterFree int
}

func (h *fakeHandle) GetMutableProto() *iscc.PreviousExecutionStats {
	if len(h.releases) > 0 {
		h.useAfterFree++
	}
	return h.msg
}

func (h *fakeHandle) Release(isDirty bool) {
	h.releases = append(h.releases, isDirty)
	if len(h.releases) > 1 {
		return
	}
	e := h.e
	e.users--
	e.dirty = e.dirty || isDirty
	if e.users == 0 {
		if e.dirty {
			b, err := proto.Marshal(e.live)
			if err != nil {
				panic(err)
			}
			e.stored = b
		}
		e.dropped, e.live, e.dirty = e.live, nil, false
	}
}

type fakeStore struct {
	entries  map[string]*entry
	byKey    map[int]*entry
	handles  []*fakeHandle
	gets     int
	failNext bool
}

func (s *fakeStore) entry(k string) *entry {
	e, ok := s.entries[k]
	if !ok {
		e = &entry{}
		s.entries[k] = e
	}
	return e
}

func (s *fakeStore) Get(ctx context.Context, d digest.Digest) (re_blobstore.MutableProtoHandle[*iscc.PreviousExecutionStats], error) {
	s.gets++
	if s.failNext {
		s.failNext = false
		return nil, status.Error(codes.Unavailable, "injected ISCC read failure")
	}
	e := s.entry(d.GetKey(digest.KeyWithInstance))
	if e.live == nil {
		e.live = e.load()
		e.dropped = nil
	}
	e.users++
	h := &fakeHandle{id: len(s.handles), e: e, msg: e.live}
	s.handles = append(s.handles, h)
	return h, nil
}

type scriptRNG struct {
	next  float64
	calls int
}

func (r *scriptRNG) Float64() float64                   { r.calls++; return r.next }
func (r *scriptRNG) Int64N(n int64) int64               { panic("unexpected Int64N") }
func (r *scriptRNG) IntN(n int) int                     { panic("unexpected IntN") }
func (r *scriptRNG) Read(p []byte) (int, error)         { panic("unexpected Read") }
func (r *scriptRNG) Shuffle(n int, swap func(i, j int)) { panic("unexpected Shuffle") }
func (r *scriptRNG) Uint32() uint32                     { panic("unexpected Uint32") }
func (r *scriptRNG) Uint64() uint64                     { panic("unexpected Uint64") }

type fakeClock struct{ now int64 }

func (c *fakeClock) Now() time.Time { return time.Unix(0, c.now) }
func (c *fakeClock) NewContextWithTimeout(parent context.Context, timeout time.Duration) (context.Context, context.CancelFunc) {
	panic("unexpected NewContextWithTimeout")
}
func (c *fakeClock) NewTimer(d time.Duration) (clock.Timer, <-chan time.Time) {
	panic("unexpected NewTimer")
}
func (c *fakeClock) NewTicker(d time.Duration) (clock.Ticker, <-chan time.Time) {
	panic("unexpected NewTicker")
}

// recCalc records what the real strategy calculator returned.
type recCalc struct {
	base initialsizeclass.StrategyCalculator
	last []initialsizeclass.Strategy
	seen bool
}

func (c *recCalc) GetStrategies(m map[uint32]*iscc.PerSizeClassStats, sizeClasses []uint32, originalTimeout time.Duration) []initialsizeclass.Strategy {
	s := c.base.GetStrategies(m, sizeClasses, originalTimeout)
	c.last = append([]initialsizeclass.Strategy(nil), s...)
	c.seen = true
	return s
}

func (c *recCalc) GetBackgroundExecutionTimeout(m map[uint32]*iscc.PerSizeClassStats, sizeClasses []uint32, sizeClassIndex int, originalTimeout time.Duration) time.Duration {
	return c.base.GetBackgroundExecutionTimeout(m, sizeClasses, sizeClassIndex, originalTimeout)
}

// ---------------------------------------------------------------- world

type reqState struct {
	key        int
	orig       time.Duration
	sel        initialsizeclass.Selector
	learner    initialsizeclass.Learner
	handle     *fakeHandle // nil for the fallback analyzer
	calls      int         // terminal calls delivered to learners
	reported   bool        // a Succeeded/Failed call was delivered
	changed    bool        // a call of this request changed the learned statistics
	selLargest uint32
	leaked     bool // a call panicked outside the scheduler's envelope
	done       bool
}

type world struct {
	fallback bool
	floatCfg bool
	hist     int
	eps      float64
	minTO    time.Duration
	defTO    time.Duration
	maxTO    time.Duration
	analyzer initialsizeclass.Analyzer
	store    *fakeStore
	rng      *scriptRNG
	clk      *fakeClock
	calc     *recCalc
	reqs     map[int]*reqState
	df       digest.Function
}

func keyHash(k int) string { return fmt.Sprintf("%064x", k+1) }

func (w *world) keyDigest(k int) digest.Digest {
	a := &remoteexecution.Action{CommandDigest: &remoteexecution.Digest{Hash: keyHash(k), SizeBytes: 1}}
	d, err := reducedDigest(w.df, a)
	if err != nil {
		panic(err)
	}
	return d
}

func (w *world) entry(k int) *entry {
	if e, ok := w.store.byKey[k]; ok {
		return e
	}
	e := w.store.entry(w.keyDigest(k).GetKey(digest.KeyWithInstance))
	w.store.byKey[k] = e
	return e
}

// msg is the message of key k as a new Get would see it (compared with the model).
func (w *world) msg(k int) *iscc.PreviousExecutionStats { return w.entry(k).view() }

// mem is the in-memory message of key k as the last call left it (judged by the monitor).
func (w *world) mem(k int) *iscc.PreviousExecutionStats { return w.entry(k).memory() }

func showOutcome(e *iscc.PreviousExecution) string {
	switch o := e.Outcome.(type) {
	case *iscc.PreviousExecution_Failed:
		return "F"
	case *iscc.PreviousExecution_TimedOut:
		return fmt.Sprintf("T%d", o.TimedOut.AsDuration().Nanoseconds())
	case *iscc.PreviousExecution_Succeeded:
		return fmt.Sprintf("S%d", o.Succeeded.AsDuration().Nanoseconds())
	}
	return "U"
}

// dump renders the learned part of a message canonically (classes sorted) and
// the stored PageRank hints separately.
func dump(m *iscc.PreviousExecutionStats) (learned string, sp map[uint32]float64) {
	lsf := "-"
	if m.LastSeenFailure.CheckValid() == nil {
		lsf = strconv.FormatInt(m.LastSeenFailure.AsTime().UnixNano(), 10)
	}
	keys := make([]uint32, 0, len(m.SizeClasses))
	for k := range m.SizeClasses {
		keys = append(keys, k)
	}
	sort.Slice(keys, func(i, j int) bool { return keys[i] < keys[j] })
	parts := []string{"lsf=" + lsf}
	sp = map[uint32]float64{}
	for _, k := range keys {
		pc := m.SizeClasses[k]
		if len(pc.PreviousExecutions) == 0 && pc.InitialPageRankProbability == 0 {
			// an empty entry (created on the fly for an unseen size class) means the same as no entry
			continue
		}
		os := make([]string, len(pc.PreviousExecutions))
		for i, e := range pc.PreviousExecutions {
			os[i] = showOutcome(e)
		}
		parts = append(parts, fmt.Sprintf("%d:%s", k, strings.Join(os, ",")))
		sp[k] = pc.InitialPageRankProbability
	}
	return strings.Join(parts, "|"), sp
}

// learnedNonEmpty is dump() without size classes that have no executions: an
// entry created on the fly for an unseen size class is not a learned fact.
func learnedNonEmpty(m *iscc.PreviousExecutionStats) string {
	s, _ := dump(m)
	var out []string
	for _, p := range strings.Split(s, "|") {
		if strings.HasSuffix(p, ":") {
			continue
		}
		out = append(out, p)
	}
	return strings.Join(out, "|")
}

func spString(sp map[uint32]float64) string {
	keys := make([]uint32, 0, len(sp))
	for k := range sp {
		keys = append(keys, k)
	}
	sort.Slice(keys, func(i, j int) bool { return keys[i] < keys[j] })
	if len(keys) == 0 {
		return "-"
	}
	parts := make([]string, len(keys))
	for i, k := range keys {
		parts[i] = fmt.Sprintf("%d:%s", k, strconv.FormatFloat(sp[k], 'g', -1, 64))
	}
	return strings.Join(parts, ",")
}

func parseClasses(s string) ([]uint32, bool) {
	if s == "-" {
		return []uint32{}, true
	}
	var out []uint32
	for _, p := range strings.Split(s, ",") {
		v, err := strconv.ParseUint(p, 10, 32)
		if err != nil {
			return nil, false
		}
		out = append(out, uint32(v))
	}
	return out, true
}

func parseRatFloat(s string) (float64, bool) {
	r, ok := new(big.Rat).SetString(s)
	if !ok {
		return 0, false
	}
	f, _ := r.Float64()
	return f, true
}

type stepResult struct {
	skip     bool   // line not applicable in the current state (shrunk history): not sent to the model
	actual   string // canonical output of the implementation
	monitor  string // property violated on the implementation's own trace
	latent   bool   // panic outside the scheduler's envelope (reported as information)
	counters []string
}

func (w *world) configure(f []string) bool {
	// cfg  <fb|fd> <pr|small> hist fcd min e mnum mden epsn epsd fuel def max
	// cfgf <fb|fd> <pr|small> hist fcd min exponent multiplier eps def max      (floats; implementation only)
	float := f[0] == "cfgf"
	if (!float && len(f) != 14) || (float && len(f) != 11) {
		return false
	}
	ints := func(idx ...int) ([]int64, bool) {
		out := make([]int64, len(idx))
		for i, k := range idx {
			v, err := strconv.ParseInt(f[k], 10, 64)
			if err != nil {
				return nil, false
			}
			out[i] = v
		}
		return out, true
	}
	var hist, fcd, minTO, defTO, maxTO int64
	var exponent, multiplier, eps float64
	if float {
		v, ok := ints(3, 4, 5, 9, 10)
		if !ok {
			return false
		}
		hist, fcd, minTO, defTO, maxTO = v[0], v[1], v[2], v[3], v[4]
		var err1, err2, err3 error
		exponent, err1 = strconv.ParseFloat(f[6], 64)
		multiplier, err2 = strconv.ParseFloat(f[7], 64)
		eps, err3 = strconv.ParseFloat(f[8], 64)
		if err1 != nil || err2 != nil || err3 != nil {
			return false
		}
	} else {
		v, ok := ints(3, 4, 5, 6, 7, 8, 9, 10, 12, 13)
		if !ok || v[4] <= 0 || v[5] <= 0 || v[7] <= 0 {
			return false
		}
		hist, fcd, minTO, defTO, maxTO = v[0], v[1], v[2], v[8], v[9]
		exponent = float64(v[3])
		multiplier = float64(v[4]) / float64(v[5])
		eps = float64(v[6]) / float64(v[7])
	}
	if hist < 0 || (f[1] != "fb" && f[1] != "fd") || (f[2] != "pr" && f[2] != "small") {
		return false
	}
	w.fallback, w.floatCfg, w.hist, w.eps = f[1] == "fb", float, int(hist), eps
	w.minTO, w.defTO, w.maxTO = time.Duration(minTO), time.Duration(defTO), time.Duration(maxTO)
	w.store = &fakeStore{entries: map[string]*entry{}, byKey: map[int]*entry{}}
	w.rng, w.clk = &scriptRNG{}, &fakeClock{}
	w.reqs = map[int]*reqState{}
	w.df = digest.MustNewFunction("verif", remoteexecution.DigestFunction_SHA256)
	extractor := initialsizeclass.NewActionTimeoutExtractor(w.defTO, w.maxTO)
	if w.fallback {
		w.analyzer = initialsizeclass.NewFallbackAnalyzer(extractor)
		w.calc = &recCalc{}
		return true
	}
	base := initialsizeclass.SmallestSizeClassStrategyCalculator
	if f[2] == "pr" {
		base = initialsizeclass.NewPageRankStrategyCalculator(w.minTO, exponent, multiplier, eps)
	}
	w.calc = &recCalc{base: base}
	w.analyzer = initialsizeclass.NewFeedbackDrivenAnalyzer(w.store, w.rng, w.clk, extractor, time.Duration(fcd), w.calc, int(hist))
	return true
}

func parseOutcome(s string) (*iscc.PreviousExecution, bool) {
	switch {
	case s == "F":
		return &iscc.PreviousExecution{Outcome: &iscc.PreviousExecution_Failed{Failed: &emptypb.Empty{}}}, true
	case s == "U":
		return &iscc.PreviousExecution{}, true
	case strings.HasPrefix(s, "T"), strings.HasPrefix(s, "S"):
		v, err := strconv.ParseInt(s[1:], 10, 64)
		if err != nil {
			return nil, false
		}
		if s[0] == 'T' {
			return &iscc.PreviousExecution{Outcome: &iscc.PreviousExecution_TimedOut{TimedOut: durationpb.New(time.Duration(v))}}, true
		}
		return &iscc.PreviousExecution{Outcome: &iscc.PreviousExecution_Succeeded{Succeeded: durationpb.New(time.Duration(v))}}, true
	}
	return nil, false
}

func (w *world) setStats(f []string) bool {
	// stats <key> <lsf|-> <sc>:<pnum>/<pden>:<o,o,...> ...
	if len(f) < 3 {
		return false
	}
	key, err := strconv.Atoi(f[1])
	if err != nil {
		return false
	}
	e := w.entry(key)
	if e.users > 0 {
		return false
	}
	m := &iscc.PreviousExecutionStats{}
	if f[2] != "-" {
		v, err := strconv.ParseInt(f[2], 10, 64)
		if err != nil {
			return false
		}
		m.LastSeenFailure = timestamppb.New(time.Unix(0, v))
	}
	if len(f) > 3 {
		m.SizeClasses = map[uint32]*iscc.PerSizeClassStats{}
	}
	for _, e := range f[3:] {
		p := strings.Split(e, ":")
		if len(p) != 3 {
			return false
		}
		sc, err := strconv.ParseUint(p[0], 10, 32)
		if err != nil {
			return false
		}
		prob, ok := parseStored(p[1])
		if !ok {
			return false
		}
		pc := &iscc.PerSizeClassStats{InitialPageRankProbability: prob}
		if p[2] != "" {
			for _, o := range strings.Split(p[2], ",") {
				pe, ok := parseOutcome(o)
				if !ok {
					return false
				}
				pc.PreviousExecutions = append(pc.PreviousExecutions, pe)
			}
		}
		m.SizeClasses[uint32(sc)] = pc
	}
	b, err := proto.Marshal(m)
	if err != nil {
		return false
	}
	e.stored, e.live, e.dropped = b, nil, nil
	return true
}

// choiceLine renders what a call returned plus the state of the request's handle.
func (w *world) choiceLine(rq *reqState, idx int, exp, to time.Duration, learner bool, before int) string {
	rel := "-"
	nrel := 0
	if rq.handle != nil {
		nrel = len(rq.handle.releases)
		if nrel > before {
			rel = "0"
			if rq.handle.releases[nrel-1] {
				rel = "1"
			}
		}
	}
	l := 0
	if learner {
		l = 1
	}
	learned, sp := dump(w.msg(rq.key))
	return fmt.Sprintf("idx=%d exp=%d to=%d learner=%d rel=%s nrel=%d stats=%s sp=%s", idx, exp.Nanoseconds(), to.Nanoseconds(), l, rel, nrel, learned, spString(sp))
}

func boolTok(b bool) string {
	if b {
		return "1"
	}
	return "0"
}

// exec runs one op line on the real analyzers.
func (w *world) exec(line string) (res stepResult) {
	f := strings.Fields(line)
	if len(f) == 0 {
		res.skip = true
		return
	}
	if f[0] == "cfg" || f[0] == "cfgf" {
		if !w.configure(f) {
			res.skip = true
			return
		}
		res.actual = "ok"
		return
	}
	if w.analyzer == nil && f[0] != "isfaster" {
		res.skip = true
		return
	}
	inEnvelope := true
	defer func() {
		if r := recover(); r != nil {
			res.actual = "panic"
			if inEnvelope {
				res.monitor = fmt.Sprintf("panic in %s: %v", f[0], r)
			} else {
				res.latent = true
			}
		}
	}()
	getReq := func(s string) *reqState {
		id, err := strconv.Atoi(s)
		if err != nil {
			return nil
		}
		return w.reqs[id]
	}
	switch f[0] {
	case "stats":
		if !w.setStats(f) {
			res.skip = true
			return
		}
		res.actual = "ok"
	case "isfaster":
		// isfaster <failuresA> <failuresB> <a1,a2,...|-> <b1,...|->   (Outcomes.IsFaster in both directions)
		if len(f) != 5 {
			res.skip = true
			return
		}
		fa, err1 := strconv.Atoi(f[1])
		fb, err2 := strconv.Atoi(f[2])
		parse := func(x string) ([]time.Duration, bool) {
			if x == "-" {
				return nil, true
			}
			var out []time.Duration
			for _, p := range strings.Split(x, ",") {
				v, err := strconv.ParseInt(p, 10, 64)
				if err != nil {
					return nil, false
				}
				out = append(out, time.Duration(v))
			}
			return out, true
		}
		a, ok1 := parse(f[3])
		b, ok2 := parse(f[4])
		if err1 != nil || err2 != nil || !ok1 || !ok2 || fa < 0 || fb < 0 {
			res.skip = true
			return
		}
		oa, ob := initialsizeclass.NewOutcomes(a, fa), initialsizeclass.NewOutcomes(b, fb)
		p, q := oa.IsFaster(ob), ob.IsFaster(oa)
		if !(p > 0 && p < 1) {
			res.monitor = fmt.Sprintf("IsFaster returned %v, not strictly between 0 and 1 (the PageRank matrix is then not stochastic)", p)
		} else if !(q > 0 && q < 1) {
			res.monitor = fmt.Sprintf("IsFaster returned %v, not strictly between 0 and 1 (the PageRank matrix is then not stochastic)", q)
		} else if math.Abs(p+q-1) > 1e-12 {
			res.monitor = fmt.Sprintf("x.IsFaster(y) + y.IsFaster(x) = %v, not 1", p+q)
		}
		res.actual = fmt.Sprintf("isf=%s isr=%s", strconv.FormatFloat(p, 'g', -1, 64), strconv.FormatFloat(q, 'g', -1, 64))
	case "dump":
		if len(f) != 2 {
			res.skip = true
			return
		}
		key, err := strconv.Atoi(f[1])
		if err != nil {
			res.skip = true
			return
		}
		learned, sp := dump(w.msg(key))
		res.actual = "stats=" + learned + " sp=" + spString(sp)
	case "analyze":
		// analyze <req> <key> <unset | secs nanos> <ok|err>
		if len(f) != 5 && len(f) != 6 {
			res.skip = true
			return
		}
		id, err1 := strconv.Atoi(f[1])
		key, err2 := strconv.Atoi(f[2])
		if err1 != nil || err2 != nil || w.reqs[id] != nil {
			res.skip = true
			return
		}
		action := &remoteexecution.Action{CommandDigest: &remoteexecution.Digest{Hash: keyHash(key), SizeBytes: 1}}
		own := w.defTO
		isSet := false
		if len(f) == 6 {
			s, err1 := strconv.ParseInt(f[3], 10, 64)
			n, err2 := strconv.ParseInt(f[4], 10, 32)
			if err1 != nil || err2 != nil {
				res.skip = true
				return
			}
			action.Timeout = &durationpb.Duration{Seconds: s, Nanos: int32(n)}
			own = action.Timeout.AsDuration()
			isSet = true
		} else if f[3] != "unset" {
			res.skip = true
			return
		}
		g := f[len(f)-1]
		if g != "ok" && g != "err" {
			res.skip = true
			return
		}
		w.entry(key) // make sure the message exists under its digest
		w.store.failNext = g == "err" && !w.fallback
		handlesBefore := len(w.store.handles)
		sel, err := w.analyzer.Analyze(context.Background(), w.df, action)
		w.store.failNext = false
		if err != nil {
			what := "other"
			switch status.Code(err) {
			case codes.InvalidArgument:
				what = "timeout"
			case codes.Unavailable:
				what = "get"
			}
			res.actual = fmt.Sprintf("err what=%s gets=%d", what, w.store.gets)
			res.counters = append(res.counters, "analyze-err-"+what)
			return
		}
		// ExtractTimeout accepted the action: a supplied timeout must be within [0, maximum].
		if isSet && (own < 0 || own > w.maxTO) {
			res.monitor = fmt.Sprintf("ExtractTimeout accepted an execution timeout of %d ns outside [0, %d]", own.Nanoseconds(), w.maxTO.Nanoseconds())
		}
		rq := &reqState{key: key, orig: own, sel: sel}
		if len(w.store.handles) > handlesBefore {
			rq.handle = w.store.handles[len(w.store.handles)-1]
		}
		if !w.fallback && rq.handle == nil {
			res.monitor = "Analyze returned a selector without obtaining a handle from the store"
		}
		w.reqs[id] = rq
		res.actual = fmt.Sprintf("sel gets=%d", w.store.gets)
	case "select":
		// select <req> <now> <rnum>/<rden> <classes>
		if len(f) != 5 {
			res.skip = true
			return
		}
		rq := getReq(f[1])
		now, err := strconv.ParseInt(f[2], 10, 64)
		r, ok1 := parseRatFloat(f[3])
		classes, ok2 := parseClasses(f[4])
		if rq == nil || rq.sel == nil || err != nil || !ok1 || !ok2 || len(classes) == 0 || r < 0 || r >= 1 {
			res.skip = true
			return
		}
		w.clk.now, w.rng.next = now, r
		callsBefore := w.rng.calls
		w.calc.last, w.calc.seen = nil, false
		before := 0
		if rq.handle != nil {
			before = len(rq.handle.releases)
		}
		l0 := learnedNonEmpty(w.mem(rq.key))
		sel := rq.sel
		rq.sel = nil
		idx, exp, to, learner := sel.Select(classes)
		rq.learner = learner
		rq.selLargest = classes[len(classes)-1]
		if learnedNonEmpty(w.mem(rq.key)) != l0 {
			res.monitor = "Select changed the recorded outcomes of the statistics message"
		}
		if learner == nil {
			res.monitor = "Select returned no learner"
		}
		if idx < 0 || idx >= len(classes) {
			res.monitor = fmt.Sprintf("Select returned size class index %d for %d size classes", idx, len(classes))
		}
		if w.minTO >= 0 && rq.orig >= 0 && (to < 0 || to > rq.orig) {
			res.monitor = fmt.Sprintf("Select returned timeout %d ns outside [0, %d]", to.Nanoseconds(), rq.orig.Nanoseconds())
		}
		probs, bgs, tos := []string{}, []string{}, []string{}
		sum := 0.0
		for i, s := range w.calc.last {
			probs = append(probs, strconv.FormatFloat(s.Probability, 'g', -1, 64))
			bgs = append(bgs, boolTok(s.RunInBackground))
			tos = append(tos, strconv.FormatInt(s.ForegroundExecutionTimeout.Nanoseconds(), 10))
			sum += s.Probability
			if !(s.Probability >= 0 && s.Probability <= 1+1e-12) {
				if w.eps > 0.0100001 && s.Probability < 0 && s.Probability > -1 {
					// far above the recommended maximum_convergence_error (0.002) the power iteration
					// stops before negative starting entries have died out: known, reported as information
					res.counters = append(res.counters, "info-negative-probability-with-large-convergence-error")
				} else {
					res.monitor = fmt.Sprintf("strategy %d has probability %v outside [0,1]", i, s.Probability)
				}
			}
			if w.minTO >= 0 && rq.orig >= 0 && !s.RunInBackground && (s.ForegroundExecutionTimeout < 0 || s.ForegroundExecutionTimeout > rq.orig) {
				res.monitor = fmt.Sprintf("strategy %d has foreground timeout %d ns outside [0, %d]", i, s.ForegroundExecutionTimeout.Nanoseconds(), rq.orig.Nanoseconds())
			}
		}
		if !(sum <= 1+1e-12) {
			// In exact arithmetic all n entries of the iterated vector sum to one
			// (C07ISC.power_iteration_sum_one), so the n-1 returned probabilities sum to
			// 1 - p(largest) (C07ISC.returned_sum_is_one_minus_largest): "sum > 1" is the same
			// event as "the largest size class's entry is negative" and is judged like a negative
			// entry: a violation up to maximum_convergence_error 0.01, information far above it.
			if w.eps > 0.0100001 && sum < 2 {
				res.counters = append(res.counters, "info-negative-probability-with-large-convergence-error")
			} else {
				res.monitor = fmt.Sprintf("strategy probabilities sum to %v > 1", sum)
			}
		}
		if len(w.calc.last) > len(classes) {
			res.monitor = fmt.Sprintf("%d strategies for %d size classes", len(w.calc.last), len(classes))
		}
		dash := func(x []string) string {
			if len(x) == 0 {
				return "-"
			}
			return strings.Join(x, ",")
		}
		res.actual = w.choiceLine(rq, idx, exp, to, learner != nil, before) +
			fmt.Sprintf(" drew=%d probs=%s bgs=%s tos=%s", w.rng.calls-callsBefore, dash(probs), dash(bgs), dash(tos))
		if len(w.calc.last) > 0 {
			res.counters = append(res.counters, "select-with-strategies")
		}
	case "sabandon":
		if len(f) != 2 {
			res.skip = true
			return
		}
		rq := getReq(f[1])
		if rq == nil || rq.sel == nil {
			res.skip = true
			return
		}
		before := 0
		if rq.handle != nil {
			before = len(rq.handle.releases)
		}
		l0 := learnedNonEmpty(w.mem(rq.key))
		sel := rq.sel
		rq.sel = nil
		sel.Abandoned()
		rq.done = true
		if learnedNonEmpty(w.mem(rq.key)) != l0 {
			rq.changed = true
		}
		res.actual = w.choiceLine(rq, 0, 0, 0, false, before)
	case "succ", "fail", "aband":
		rq := getReq(f[1])
		if rq == nil || rq.learner == nil {
			res.skip = true
			return
		}
		before := 0
		if rq.handle != nil {
			before = len(rq.handle.releases)
		}
		l0 := learnedNonEmpty(w.mem(rq.key))
		l := rq.learner
		var idx int
		var exp, to time.Duration
		var next initialsizeclass.Learner
		switch f[0] {
		case "succ":
			if len(f) != 4 {
				res.skip = true
				return
			}
			d, err := strconv.ParseInt(f[2], 10, 64)
			classes, ok := parseClasses(f[3])
			if err != nil || !ok {
				res.skip = true
				return
			}
			// The scheduler never changes the largest size class of a platform queue with
			// several size classes, and history_size is at least 1.
			inEnvelope = w.hist >= 1 && len(classes) > 0 && classes[len(classes)-1] == rq.selLargest
			rq.learner = nil
			rq.calls++
			rq.reported = true
			if !inEnvelope {
				rq.leaked = true // cleared below when the call returns
			}
			idx, exp, to, next = l.Succeeded(time.Duration(d), classes)
			rq.leaked = false
			if next != nil && (idx < 0 || idx >= len(classes)) {
				res.monitor = fmt.Sprintf("Succeeded returned size class index %d for %d size classes", idx, len(classes))
			}
		case "fail":
			if len(f) != 4 {
				res.skip = true
				return
			}
			now, err := strconv.ParseInt(f[3], 10, 64)
			if err != nil || (f[2] != "0" && f[2] != "1") {
				res.skip = true
				return
			}
			w.clk.now = now
			rq.learner = nil
			rq.calls++
			rq.reported = true
			exp, to, next = l.Failed(f[2] == "1")
		case "aband":
			if len(f) != 2 {
				res.skip = true
				return
			}
			rq.learner = nil
			rq.calls++
			l.Abandoned()
		}
		rq.learner = next
		if next == nil {
			rq.done = true
		}
		if learnedNonEmpty(w.mem(rq.key)) != l0 {
			rq.changed = true
		}
		if next != nil && w.minTO >= 0 && rq.orig >= 0 && (to < 0 || to > rq.orig) {
			res.monitor = fmt.Sprintf("%s returned timeout %d ns outside [0, %d]", f[0], to.Nanoseconds(), rq.orig.Nanoseconds())
		}
		if next != nil && rq.calls >= 2 {
			res.monitor = fmt.Sprintf("a third learner was yielded after %d terminal calls (retry / background run must happen at most once)", rq.calls)
		}
		res.actual = w.choiceLine(rq, idx, exp, to, next != nil, before)
	default:
		res.skip = true
	}
	return
}

// handleMonitor judges the Release protocol of one request's handle.
func (w *world) handleMonitor(id int, rq *reqState, final bool) string {
	h := rq.handle
	if h == nil {
		return ""
	}
	if len(h.releases) > 1 {
		return fmt.Sprintf("request %d: handle released %d times", id, len(h.releases))
	}
	if h.useAfterFree > 0 {
		return fmt.Sprintf("request %d: handle used after Release", id)
	}
	if rq.leaked {
		return ""
	}
	if !rq.done && len(h.releases) == 1 {
		return fmt.Sprintf("request %d: handle released while a selector/learner is still outstanding", id)
	}
	if rq.done && len(h.releases) == 0 {
		return fmt.Sprintf("request %d: path ended (nil learner) but the handle was never released", id)
	}
	if rq.done {
		dirty := h.releases[0]
		if rq.changed && !dirty {
			return fmt.Sprintf("request %d: statistics were changed but the handle was released clean (update lost)", id)
		}
		if dirty && !rq.reported {
			return fmt.Sprintf("request %d: nothing was reported (abandoned) but the handle was released dirty", id)
		}
	}
	return ""
}

// ---------------------------------------------------------------- comparison

func tokens(s string) ([]string, map[string]string) {
	m := map[string]string{}
	var keys []string
	for _, t := range strings.Fields(s) {
		if i := strings.IndexByte(t, '='); i >= 0 {
			m[t[:i]] = t[i+1:]
			keys = append(keys, t[:i])
		} else {
			m[t] = ""
			keys = append(keys, t)
		}
	}
	return keys, m
}

// parseStored reads a stored double: NaN, +Inf, -Inf or a rational (which may denote a denormal).
func parseStored(s string) (float64, bool) {
	switch s {
	case "NaN":
		return math.NaN(), true
	case "+Inf":
		return math.Inf(1), true
	case "-Inf":
		return math.Inf(-1), true
	}
	return parseRatFloat(s)
}

func closeEnough(model string, impl float64) bool {
	switch model {
	case "NaN":
		return math.IsNaN(impl)
	case "+Inf":
		return math.IsInf(impl, 1)
	case "-Inf":
		return math.IsInf(impl, -1)
	}
	if math.IsNaN(impl) || math.IsInf(impl, 0) {
		return false
	}
	mf, ok := parseRatFloat(model)
	if !ok {
		return false
	}
	return math.Abs(mf-impl) <= 1e-9
}

// compareLines checks every token the implementation produced against the model's line;
// probabilities numerically (1e-9), everything else exactly.
func compareLines(expected, actual string) string {
	_, em := tokens(expected)
	ak, am := tokens(actual)
	for _, k := range ak {
		ev, ok := em[k]
		if !ok {
			return "token " + k + " missing in model output"
		}
		av := am[k]
		switch k {
		case "probs":
			if (ev == "-") != (av == "-") {
				return "strategies present/absent differs"
			}
			if ev == "-" {
				continue
			}
			es, as := strings.Split(ev, ","), strings.Split(av, ",")
			if len(es) != len(as) {
				return fmt.Sprintf("number of strategies: model %d, implementation %d", len(es), len(as))
			}
			for i := range es {
				af, err := strconv.ParseFloat(as[i], 64)
				if err != nil || !closeEnough(es[i], af) {
					return fmt.Sprintf("probability of strategy %d: model %s, implementation %s", i, ratApprox(es[i]), as[i])
				}
			}
		case "isf", "isr":
			af, err := strconv.ParseFloat(av, 64)
			if err != nil || !closeEnough(ev, af) {
				return fmt.Sprintf("IsFaster: model %s, implementation %s", ratApprox(ev), av)
			}
		case "sp":
			if (ev == "-") != (av == "-") {
				return "stored probabilities present/absent differs"
			}
			if ev == "-" {
				continue
			}
			es, as := strings.Split(ev, ","), strings.Split(av, ",")
			if len(es) != len(as) {
				return "size classes in the stored message differ"
			}
			for i := range es {
				ep, ap := strings.SplitN(es[i], ":", 2), strings.SplitN(as[i], ":", 2)
				if len(ep) != 2 || len(ap) != 2 || ep[0] != ap[0] {
					return "size classes in the stored message differ"
				}
				af, err := strconv.ParseFloat(ap[1], 64)
				if err != nil || !closeEnough(ep[1], af) {
					return fmt.Sprintf("stored probability of size class %s: model %s, implementation %s", ep[0], ratApprox(ep[1]), ap[1])
				}
			}
		default:
			if ev != av {
				return fmt.Sprintf("%s: model %s, implementation %s", k, ev, av)
			}
		}
	}
	return ""
}

func ratApprox(s string) string {
	f, ok := parseRatFloat(s)
	if !ok {
		return s
	}
	return strconv.FormatFloat(f, 'g', -1, 64)
}

// abbreviate shortens a model line for the finding (rationals can be thousands of digits long).
func abbreviate(s string) string {
	var out []string
	for _, t := range strings.Fields(s) {
		if len(t) > 300 {
			t = t[:300] + "…"
		}
		out = append(out, t)
	}
	return strings.Join(out, " ")
}

type outcome struct {
	monitor   string
	mismatch  string
	expected  string
	actual    string
	steps     int
	flags     map[string]bool
	counters  []string
	ambiguous bool
	hung      bool
	executed  []string
}

var callTimeout = hx.ScaledTimeout(30 * time.Second)

// execWatched runs one op with a watchdog: e.g. a power iteration on a matrix that is not
// stochastic never converges.
func execWatched(w *world, line string) (stepResult, bool) {
	ch := make(chan stepResult, 1)
	go func() { ch <- w.exec(line) }()
	select {
	case r := <-ch:
		return r, true
	case <-time.After(callTimeout):
		return stepResult{}, false
	}
}

// run executes one history on the real code, and on the model unless the
// history uses float parameters the model does not interpret.
func run(lines []string, drv *hx.Driver) (out outcome) {
	out.flags = map[string]bool{}
	w := &world{}
	useModel := drv != nil
	for _, line := range lines {
		if strings.HasPrefix(line, "cfgf ") {
			useModel = false
		} else if strings.HasPrefix(line, "cfg ") {
			useModel = drv != nil
		}
		res, returned := execWatched(w, line)
		if !returned {
			// the goroutine cannot be stopped: the caller reports this history as it is and exits
			out.hung = true
			out.steps++
			out.executed = append(out.executed, line)
			out.monitor = fmt.Sprintf("call into the analyzer did not return within %v (the scheduler would hang holding its lock) (at: %s)", callTimeout, line)
			return
		}
		if res.skip {
			continue
		}
		out.steps++
		out.executed = append(out.executed, line)
		out.counters = append(out.counters, res.counters...)
		op := strings.Fields(line)[0]
		out.counters = append(out.counters, "op-"+op)
		if res.latent {
			out.counters = append(out.counters, "info-latent-panic-outside-scheduler-envelope")
		}
		if res.monitor != "" {
			out.monitor = res.monitor + " (at: " + line + ")"
			return
		}
		for id, rq := range w.reqs {
			if m := w.handleMonitor(id, rq, false); m != "" {
				out.monitor = m + " (at: " + line + ")"
				return
			}
		}
		if !useModel {
			continue
		}
		exp, err := drv.Ask(line)
		if err != nil {
			exp = "driver-error " + err.Error()
		}
		_, em := tokens(exp)
		if k, ok := em["kind"]; ok {
			out.flags["kind-"+k] = true
			out.counters = append(out.counters, "learner-"+k)
		}
		if op == "select" {
			if it, ok := em["iters"]; ok && it != "0" {
				out.flags["pagerank"] = true
				out.counters = append(out.counters, "pagerank-iterated")
			}
			if cm, ok := em["cmargin"]; ok {
				if f, ok := parseRatFloat(cm); ok && f < 1e-9 {
					// the convergence test of the power iteration is within float rounding of a tie
					out.ambiguous = true
					return
				}
			}
			if mg, ok := em["margin"]; ok {
				if f, ok := parseRatFloat(mg); ok && f < 1e-9 && em["probs"] != "-" && strings.Contains(em["probs"], "/") {
					// the draw is within float rounding of a threshold computed by power iteration
					if os.Getenv("ISC_DEBUG") != "" {
						fmt.Fprintln(os.Stderr, "AMBIGUOUS", line, abbreviate(exp))
					}
					out.ambiguous = true
					return
				}
			}
		}
		if exp == "bad-op" {
			out.mismatch = "model rejects an op the implementation executed: " + line
			out.expected, out.actual = exp, res.actual
			return
		}
		if (exp == "panic") != (res.actual == "panic") {
			out.mismatch = "panic behaviour differs at: " + line
			out.expected, out.actual = abbreviate(exp), res.actual
			return
		}
		if exp == "panic" {
			// outside the scheduler's envelope both panic; the message is left half-updated,
			// nothing further is compared on this history
			return
		}
		efirst, afirst := strings.Fields(exp)[0], strings.Fields(res.actual)[0]
		if !strings.Contains(afirst, "=") && efirst != afirst {
			out.mismatch = "result differs at: " + line
			out.expected, out.actual = abbreviate(exp), res.actual
			return
		}
		if d := compareLines(exp, res.actual); d != "" {
			out.mismatch = d + " (at: " + line + ")"
			out.expected, out.actual = abbreviate(exp), res.actual
			return
		}
	}
	return
}

func main() {
	o := hx.ParseFlags()
	res := hx.NewResult("isc", o, rule)
	drv, err := hx.StartDriver("isc")
	if err != nil {
		fmt.Fprintln(os.Stderr, "cannot start model driver:", err)
		os.Exit(3)
	}
	defer drv.Close()

	report := func(lines []string, out outcome) {
		if out.hung {
			// cannot be re-run in this process: report the executed prefix unshrunk and stop
			res.Report(hx.Finding{Kind: "violation", Property: "C07", What: out.monitor,
				Name: "C07 (b) monitor on the analyzers' own trace", History: out.executed,
				Sig: hx.Sig("C07", "isc", "violation", monitorClass(out.monitor))})
			res.ModelLines = drv.Lines
			res.Write(o)
			os.Exit(0)
		}
		d := drv
		if out.monitor != "" {
			d = nil // the monitor judges the implementation alone
		}
		stopShrink := false
		fails := func(cand []string) bool {
			if stopShrink {
				return false
			}
			r := run(cand, d)
			if r.hung {
				stopShrink = true // every further hang would cost the watchdog timeout
				return false
			}
			if out.monitor != "" {
				return r.monitor != ""
			}
			return r.mismatch != "" && r.monitor == ""
		}
		min := hx.Shrink(lines, fails)
		r := run(min, d)
		if r.hung {
			res.Report(hx.Finding{Kind: "violation", Property: "C07", What: r.monitor,
				Name: "C07 (b) monitor on the analyzers' own trace", History: r.executed,
				Sig: hx.Sig("C07", "isc", "violation", monitorClass(r.monitor))})
			res.ModelLines = drv.Lines
			res.Write(o)
			os.Exit(0)
		}
		f := hx.Finding{Property: "C07", History: min}
		if r.monitor != "" {
			f.Kind, f.What, f.Name = "violation", r.monitor, "C07 (b) monitor on the analyzers' own trace"
			f.Sig = hx.Sig("C07", "isc", "violation", monitorClass(r.monitor))
		} else {
			f.Kind, f.What = "mismatch", r.mismatch
			f.Name = "correspondence Model/ISC.lean <-> pkg/scheduler/initialsizeclass (theorems C07ISC.handle_released_once, index_valid, timeout_range, select_total)"
			f.Expected, f.Actual = r.expected, r.actual
			f.Sig = hx.Sig("C07", "isc", "mismatch", strings.Join(min, ";"))
		}
		res.Report(f)
	}

	if o.Replay != "" {
		f, err := hx.LoadReplay(o.Replay)
		if err != nil {
			fmt.Fprintln(os.Stderr, err)
			os.Exit(3)
		}
		out := run(f.History, drv)
		res.Evaluations = out.steps
		if out.monitor != "" || out.mismatch != "" {
			report(f.History, out)
		}
		res.ModelLines = drv.Lines
		res.Write(o)
		return
	}

	histories := 1500 * o.Scale
	if o.Tier == "thorough" {
		histories = 12000 * o.Scale
	}
	rng := hx.NewRand(o.Seed)
	// After a model/implementation disagreement the search goes on (implementation and monitor
	// only) for a history on which the property itself fails, so that a failing input is reported
	// whenever the generator can reach one.
	mismatchAt := -1
	for h := 0; h < histories; h++ {
		if mismatchAt >= 0 && (h > mismatchAt+3000 || len(res.Findings) > 1) {
			break
		}
		lines := gen(rng)
		if mismatchAt >= 0 {
			out := run(lines, nil)
			res.Evaluations += out.steps
			if out.monitor != "" {
				report(lines, out)
			}
			continue
		}
		out := run(lines, drv)
		res.Evaluations += out.steps
		res.TracesVsImpl++
		for _, c := range out.counters {
			res.Count(c)
		}
		if out.ambiguous {
			res.Count("history-cut-at-ambiguous-draw")
		}
		nontrivial := (out.flags["kind-largestFg"] || out.flags["kind-smallerBg"] || out.flags["kind-fbLargest"]) && out.steps >= 5
		res.History(out.executed, nontrivial)
		if out.monitor != "" {
			report(lines, out)
			break
		}
		if out.mismatch != "" {
			report(lines, out)
			mismatchAt = h
		}
	}
	res.ModelLines = drv.Lines
	res.Write(o)
}

// monitorClass strips numbers so that one defect keeps one signature.
func monitorClass(s string) string {
	if i := strings.Index(s, " (at: "); i >= 0 {
		s = s[:i]
	}
	var b strings.Builder
	for _, c := range s {
		if c >= '0' && c <= '9' {
			continue
		}
		b.WriteRune(c)
	}
	return b.String()
}

const rule = "random configurations (fallback / feedback-driven with PageRank or smallest-size-class calculator; history size, failure cache duration, minimum timeout, exponent, multiplier, convergence error), 1-3 statistics tables (<=5 size classes of the form base*2^k, <=32 outcomes each, stored probabilities in and out of (0,1), last-seen-failure fresh/stale/unset), then 1-6 interleaved requests: Analyze (timeout unset / 0 / maximum / out of range / invalid, injected store failure), Select or Abandoned, then Succeeded/Failed/Abandoned chains including background learners and changed size-class lists; a tenth of the histories use arbitrary float parameters and are judged by the monitor only; non-trivial = at least 5 executed calls and a second-stage learner (largest-foreground retry, smaller-background run or fallback retry) was reached; distinct = hash of the executed op list"
