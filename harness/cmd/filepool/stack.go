// Tie of the combined mode "Q" (real quota-enforcing pool over the real block-device pool over the
// real bitmap allocator) to the composed Lean model Model/PoolStack.lean (driver drv_poolstack).
//
// Every operation of a Q history - including the ones the quota layer refuses - is sent to the
// model with the same fault tokens (plus AX<k> for an injected allocation failure). Compared after
// every operation: the result and error class; for WriteAt also every answer of the real bitmap
// allocator, in call order, with the answers the bitmap model produced (they are outputs of the
// composed model, not inputs); and after every mutating operation the conserved quantities: the set
// of allocated sectors and the number of free sectors (recording allocator around the real bitmap),
// the file sizes (Len of the real files), and the file / byte quota remaining (maximum minus what
// the real open files hold; the acceptance or refusal of every call by the real quota pool is
// compared through the results).
package main

import (
	"fmt"
	"os"
	"strings"

	"verifharness/internal/hx"
)

const stackName = "correspondence Model/PoolStack.lean <-> NewQuotaEnforcingFilePool(NewBlockDeviceBackedFilePool(dev, NewBitmapSectorAllocator)) (theorems C15Stack.stack_oracle_valid, C15Stack.stack_conservation, C15Stack.stack_no_sector_owned_twice)"

var stackDrv *hx.Driver

// stackDriver starts drv_poolstack on first use.
func stackDriver() *hx.Driver {
	if stackDrv == nil {
		d, err := hx.StartDriver("poolstack")
		if err != nil {
			fmt.Fprintln(os.Stderr, "cannot start the composed-pool model driver:", err)
			os.Exit(3)
		}
		stackDrv = d
	}
	return stackDrv
}

func stackLines() int {
	if stackDrv == nil {
		return 0
	}
	return stackDrv.Lines
}

func stackClose() {
	if stackDrv != nil {
		stackDrv.Close()
	}
}

// stackInput turns a model line of the file-pool protocol into one of the composed model: the
// recorded allocator answers are not inputs, an injected allocation failure is.
func stackInput(line string, pl *plan) string {
	ws := strings.Fields(line)
	head, toks := ws, []string(nil)
	for i, w := range ws {
		if w == "|" {
			head, toks = ws[:i], ws[i+1:]
			break
		}
	}
	var keep []string
	for _, t := range toks {
		if t == "AF" || (strings.HasPrefix(t, "A") && !strings.HasPrefix(t, "AX")) {
			continue
		}
		keep = append(keep, t)
	}
	if pl != nil && pl.axK >= 0 && len(head) > 0 && head[0] == "w" {
		keep = append(keep, fmt.Sprintf("AX%d", pl.axK))
	}
	if len(keep) == 0 {
		return strings.Join(head, " ")
	}
	return strings.Join(head, " ") + " | " + strings.Join(keep, " ")
}

// stackActual: what the real stack did, in the composed model's output format.
func stackActual(line, actual string, pl *plan) string {
	if strings.HasPrefix(line, "w ") && pl != nil && len(pl.answers) > 0 {
		return actual + " " + strings.Join(pl.answers, " ")
	}
	return actual
}

// stackDump: the conserved quantities of the real stack.
func (r *runner) stackDump() string {
	d := r.dump()
	remF, remB := r.maxFiles, r.maxBytes
	for _, f := range r.files {
		if f.open {
			n, _ := f.real.Len()
			remF--
			remB -= n
		}
	}
	return fmt.Sprintf("%s free=%d qf=%d qb=%d broken=0", d, r.e.nsec-r.acct.nUsed, remF, remB)
}
