package main

import (
	"errors"
	"fmt"
	"io"

	"github.com/buildbarn/bb-remote-execution/pkg/filesystem/pool"
	"github.com/buildbarn/bb-storage/pkg/filesystem"

	"google.golang.org/grpc/codes"
	"google.golang.org/grpc/status"

	"verifharness/internal/hx"
)

var (
	errDevice = errors.New("injected block device failure")
	errHole   = errors.New("injected hole source failure")
	errAlloc  = status.Error(codes.ResourceExhausted, "scripted allocator: no sectors")
	errOOB    = errors.New("access beyond the end of the block device")
)

// plan is the fault plan of the operation that is currently executing, plus
// the per-kind call counters that position the faults.
type plan struct {
	dwK, dwN        int // k-th device write stores dwN bytes and fails (dwK<0: none)
	drK, drN        int
	drShort         bool
	hrK, hrN        int
	hrShort         bool
	hsK             int
	ht, hc          bool
	axK             int // k-th AllocateContiguous call fails
	allocSeed       uint64
	nDW, nDR, nHR   int
	nHS, nAlloc     int
	answers         []string // recorded allocator answers, in call order
	allocCalls      int
	allocatedInOp   int
	delivered       bool // an injected failure (or an allocation failure) reached the pool
	// interleaving: a complete operation on ANOTHER file runs in the middle of this one,
	// when the interK-th call of kind interKind (HR / DR / DW) is entered
	interKind string
	interK    int
	interLine string
	nested    bool // the nested operation ran
}

func noFaults() *plan { return &plan{dwK: -1, drK: -1, hrK: -1, hsK: -1, axK: -1} }

// env is shared by all fakes of one history.
type env struct {
	ss, nsec int
	plan     *plan
	viol     string // first thing a fake saw that breaks allocator accounting / device bounds
	nest     func(line string) // runs a nested operation (set by the runner)
	nesting  bool
}

// maybeNest runs the nested operation of the current plan when call number k of
// the given kind is entered (at most one level deep).
func (e *env) maybeNest(kind string, k int) {
	pl := e.plan
	if e.nesting || e.nest == nil || pl.interKind != kind || pl.interK != k || pl.nested {
		return
	}
	pl.nested = true
	e.nesting = true
	e.nest(pl.interLine)
	e.nesting = false
	e.plan = pl
}

func (e *env) violate(format string, a ...any) {
	if e.viol == "" {
		e.viol = fmt.Sprintf(format, a...)
	}
}

// ---- block device -------------------------------------------------------------

// fakeDevice is dense (data) for ordinary devices and sparse (a map of written sectors) for the
// simulated 8-64 GiB devices; bytes never written read as foreign-looking garbage.
type fakeDevice struct {
	e      *env
	data   []byte
	sparse map[int64][]byte // sector index -> contents (only when size > len(data))
	size   int64
}

func garbage(off int64) byte { return 0xE0 | byte(off%31+1) }

func (d *fakeDevice) get(p []byte, off int64) {
	if d.sparse == nil {
		copy(p, d.data[off:])
		return
	}
	ss := int64(d.e.ss)
	for i := range p {
		o := off + int64(i)
		if sec, ok := d.sparse[o/ss]; ok {
			p[i] = sec[o%ss]
		} else {
			p[i] = garbage(o)
		}
	}
}

func (d *fakeDevice) put(p []byte, off int64) {
	if d.sparse == nil {
		copy(d.data[off:], p)
		return
	}
	ss := int64(d.e.ss)
	for i, b := range p {
		o := off + int64(i)
		sec, ok := d.sparse[o/ss]
		if !ok {
			sec = make([]byte, ss)
			for k := range sec {
				sec[k] = garbage(o/ss*ss + int64(k))
			}
			d.sparse[o/ss] = sec
		}
		sec[o%ss] = b
	}
}

func (d *fakeDevice) ReadAt(p []byte, off int64) (int, error) {
	pl := d.e.plan
	k := pl.nDR
	pl.nDR++
	d.e.maybeNest("DR", k)
	if off < 0 || off+int64(len(p)) > d.size {
		d.e.violate("block device read [%d,%d) outside the device of %d bytes", off, off+int64(len(p)), d.size)
		return 0, errOOB
	}
	if pl.drK == k {
		n := min(pl.drN, len(p))
		pl.delivered = true
		d.get(p[:n], off)
		if pl.drShort {
			return n, nil
		}
		return n, errDevice
	}
	d.get(p, off)
	return len(p), nil
}

func (d *fakeDevice) WriteAt(p []byte, off int64) (int, error) {
	pl := d.e.plan
	k := pl.nDW
	pl.nDW++
	d.e.maybeNest("DW", k)
	if off < 0 || off+int64(len(p)) > d.size {
		d.e.violate("block device write [%d,%d) outside the device of %d bytes", off, off+int64(len(p)), d.size)
		return 0, errOOB
	}
	if pl.dwK == k {
		n := min(pl.dwN, len(p))
		pl.delivered = true
		d.put(p[:n], off)
		return n, errDevice
	}
	d.put(p, off)
	return len(p), nil
}

func (d *fakeDevice) Sync() error  { return nil }
func (d *fakeDevice) Close() error { return nil }

// ---- hole source ----------------------------------------------------------------

// patternHole is a non-zero hole source: data granules of g bytes, d out of
// every m granules hold data (bytes tagged with the owning file), the others
// are holes (zero); everything at or beyond limit is zero. Model: Hole in
// Model/FilePool.lean.
type patternHole struct {
	e                       *env
	tag, g, m, d, salt, lim int64
	eofStyle                bool
	closes                  int
	zero                    bool // contents, seeks and Truncate are delegated to the real pool.ZeroHoleSource
}

func (h *patternHole) isData(i int64) bool { return i < h.lim && (i/h.g)%h.m < h.d }

func (h *patternHole) byteAt(i int64) byte {
	if !h.isData(i) {
		return 0
	}
	return byte(h.tag*32 + 1 + (h.salt+i*7+i/5)%31)
}

func (h *patternHole) ReadAt(p []byte, off int64) (int, error) {
	pl := h.e.plan
	k := pl.nHR
	pl.nHR++
	h.e.maybeNest("HR", k)
	n := len(p)
	faulty := pl.hrK == k
	if faulty {
		n = min(pl.hrN, len(p))
		pl.delivered = true
	}
	if h.zero {
		for i := range p[:n] {
			p[i] = 0xEE
		}
		pool.ZeroHoleSource.ReadAt(p[:n], off)
	} else {
		for i := 0; i < n; i++ {
			p[i] = h.byteAt(off + int64(i))
		}
	}
	if faulty {
		if pl.hrShort {
			return n, nil
		}
		return n, errHole
	}
	return n, nil
}

func (h *patternHole) GetNextRegionOffset(off int64, regionType filesystem.RegionType) (int64, error) {
	pl := h.e.plan
	k := pl.nHS
	pl.nHS++
	if pl.hsK == k {
		pl.delivered = true
		return 0, errHole
	}
	if h.zero {
		return pool.ZeroHoleSource.GetNextRegionOffset(off, regionType)
	}
	switch regionType {
	case filesystem.Data:
		for j := off; j < h.lim; j++ {
			if h.isData(j) {
				return j, nil
			}
		}
		return 0, io.EOF
	case filesystem.Hole:
		if off >= h.lim {
			if h.eofStyle {
				return 0, io.EOF
			}
			return off, nil
		}
		for j := off; j < h.lim; j++ {
			if !h.isData(j) {
				return j, nil
			}
		}
		return h.lim, nil
	}
	panic("unknown region type")
}

func (h *patternHole) Truncate(size int64) error {
	if h.e.plan.ht {
		h.e.plan.delivered = true
		return errHole
	}
	if h.zero {
		return pool.ZeroHoleSource.Truncate(size)
	}
	if size < h.lim {
		h.lim = size
	}
	return nil
}

func (h *patternHole) Close() error {
	h.closes++
	if h.e.plan.hc {
		h.e.plan.delivered = true
		return errHole
	}
	return nil
}

// ---- sector allocators ----------------------------------------------------------

// accounting is the allocator-side monitor: which sectors are handed out, how
// often each was allocated and freed.
type accounting struct {
	e         *env
	used      []bool // 1..nsec
	everFreed []bool
	nUsed     int
	allocs    int
	frees     int
	reuse     bool
}

func newAccounting(e *env) accounting {
	return accounting{e: e, used: make([]bool, e.nsec+2), everFreed: make([]bool, e.nsec+2)}
}

func (a *accounting) take(first uint32, count, maximum int) {
	if count < 1 || count > maximum {
		a.e.violate("allocator returned %d sectors for maximum %d", count, maximum)
	}
	for i := 0; i < count; i++ {
		s := int(first) + i
		if s < 1 || s > a.e.nsec {
			a.e.violate("allocator returned sector %d outside 1..%d", s, a.e.nsec)
			continue
		}
		if a.used[s] {
			a.e.violate("allocator handed out sector %d twice", s)
			continue
		}
		if a.everFreed[s] {
			a.reuse = true
		}
		a.used[s] = true
		a.nUsed++
		a.allocs++
	}
}

// release returns false when the sector must not be passed on to a real allocator.
func (a *accounting) release(s int) bool {
	if s < 1 || s > a.e.nsec || !a.used[s] {
		a.e.violate("sector %d freed while it is not allocated (double free)", s)
		return false
	}
	a.used[s] = false
	a.everFreed[s] = true
	a.nUsed--
	a.frees++
	return true
}

func (a *accounting) usedList() []int {
	var l []int
	for s := 1; s <= a.e.nsec; s++ {
		if a.used[s] {
			l = append(l, s)
		}
	}
	return l
}

// scriptedAllocator chooses where and how much to allocate from a PRNG seeded
// per operation (token S<seed> of the op line), so that a history replays and
// shrinks deterministically. Every answer is recorded as an oracle token.
type scriptedAllocator struct {
	accounting
}

func (a *scriptedAllocator) AllocateContiguous(maximum int) (uint32, int, error) {
	pl := a.e.plan
	k := pl.nAlloc
	pl.nAlloc++
	pl.allocCalls++
	if pl.axK == k || a.nUsed == a.e.nsec {
		pl.answers = append(pl.answers, "AF")
		pl.delivered = true
		return 0, 0, errAlloc
	}
	r := hx.NewRand(pl.allocSeed + uint64(k)*7919)
	// candidate starts: every free sector
	var free []int
	for s := 1; s <= a.e.nsec; s++ {
		if !a.used[s] {
			free = append(free, s)
		}
	}
	var first int
	switch r.Pick(4, 3, 2, 1) {
	case 0: // lowest free sector: immediate reuse of what was just freed
		first = free[0]
	case 1: // random free sector
		first = free[r.Intn(len(free))]
	case 2: // highest free run
		first = free[len(free)-1]
		for first > 1 && !a.used[first-1] && r.Chance(3, 4) {
			first--
		}
	default: // start of a random free run
		first = free[r.Intn(len(free))]
		for first > 1 && !a.used[first-1] {
			first--
		}
	}
	run := 0
	for s := first; s <= a.e.nsec && !a.used[s] && run < maximum; s++ {
		run++
	}
	count := run
	if r.Chance(1, 4) {
		count = 1 + r.Intn(run)
	}
	a.take(uint32(first), count, maximum)
	pl.allocatedInOp += count
	pl.answers = append(pl.answers, fmt.Sprintf("A%d:%d", first, count))
	return uint32(first), count, nil
}

func (a *scriptedAllocator) FreeContiguous(first uint32, count int) {
	for i := 0; i < count; i++ {
		a.release(int(first) + i)
	}
}

func (a *scriptedAllocator) FreeList(sectors []uint32) {
	for _, s := range sectors {
		if s != 0 {
			a.release(int(s))
		}
	}
}

// recordingAllocator wraps the real bitmap allocator: answers are recorded as
// oracle tokens, the accounting is kept on the side.
type recordingAllocator struct {
	accounting
	base pool.SectorAllocator
}

func (a *recordingAllocator) AllocateContiguous(maximum int) (uint32, int, error) {
	pl := a.e.plan
	k := pl.nAlloc
	pl.nAlloc++
	pl.allocCalls++
	if pl.axK == k {
		pl.answers = append(pl.answers, "AF")
		pl.delivered = true
		return 0, 0, errAlloc
	}
	first, count, err := a.base.AllocateContiguous(maximum)
	if err != nil {
		pl.answers = append(pl.answers, "AF")
		pl.delivered = true
		return 0, 0, err
	}
	a.take(first, count, maximum)
	pl.allocatedInOp += count
	pl.answers = append(pl.answers, fmt.Sprintf("A%d:%d", first, count))
	return first, count, nil
}

func (a *recordingAllocator) FreeContiguous(first uint32, count int) {
	for i := 0; i < count; i++ {
		if a.release(int(first) + i) {
			a.base.FreeContiguous(first+uint32(i), 1)
		}
	}
}

func (a *recordingAllocator) FreeList(sectors []uint32) {
	for _, s := range sectors {
		if s != 0 && a.release(int(s)) {
			a.base.FreeList([]uint32{s})
		}
	}
}

func errKind(err error) string {
	switch {
	case err == nil:
		return "ok"
	case err == io.EOF:
		return "eof"
	case errors.Is(err, errDevice):
		return "io"
	case errors.Is(err, errHole):
		return "hole"
	case errors.Is(err, errAlloc):
		return "alloc"
	case errors.Is(err, errOOB):
		return "oob"
	}
	switch status.Code(err) {
	case codes.InvalidArgument:
		return "invalid"
	case codes.Internal:
		return "internal"
	case codes.ResourceExhausted:
		return "alloc"
	}
	return "other"
}
