// Command filepool ties Model/FilePool.lean to
// pkg/filesystem/pool/block_device_backed_file_pool.go (C15, file half).
//
// Per generated history the REAL pool (NewBlockDeviceBackedFilePool) runs over
// an in-memory block device with fault injection, a scripted (or the real
// bitmap) SectorAllocator and tagged non-zero hole sources. Every operation is
//   - judged by a monitor that only looks at the implementation: a per-file
//     byte-array oracle (POSIX sparse file whose initial contents are the hole
//     source's), allocator accounting (no sector handed out twice, none freed
//     twice, nothing left after closing everything) and, through the verif
//     hook, "allocated set = union of the files' sector lists, pairwise
//     distinct" after every step;
//   - sent, with the allocator's answers and the fault plan as oracle tokens,
//     to the compiled Lean model, whose output line must be identical.
package main

import (
	"encoding/hex"
	"fmt"
	"os"
	"sort"
	"strconv"
	"strings"

	"github.com/buildbarn/bb-remote-execution/pkg/filesystem/pool"
	"github.com/buildbarn/bb-storage/pkg/filesystem"

	"verifharness/internal/hx"
)

const prop = "C15"

// ---- per-file oracle ----------------------------------------------------------------

type ofile struct {
	real  filesystem.FileReadWriter
	hs    *patternHole
	tag   byte
	open  bool
	exp   []byte // expected contents, len = expected size
	wild  []bool // after a failed Truncate: byte unknown (but never foreign)
	wrote bool
}

func (f *ofile) resize(n int) {
	for len(f.exp) < n {
		f.exp = append(f.exp, 0)
		f.wild = append(f.wild, false)
	}
	f.exp = f.exp[:n]
	f.wild = f.wild[:n]
}

type outcome struct {
	monitor  string
	mismatch string
	expected string
	actual   string
	flags    map[string]bool
	steps    int
	hist     map[string]int
}

type runner struct {
	e      *env
	dev    *fakeDevice
	acct   *accounting
	fp     pool.FilePool
	bitmap bool
	base   pool.SectorAllocator // the real bitmap allocator, when used
	sa     pool.SectorAllocator // the allocator handed to the pool
	files  []*ofile
	drv    *hx.Driver
	out    *outcome
	lines  []string // op lines executed so far (input form)
	nested bool     // executing a nested (interleaved) operation
	// combined mode "Q": real quota-enforcing pool over the real block-device pool over the real
	// bitmap allocator; judged by the monitors and compared with the composed model
	// Model/PoolStack.lean (driver drv_poolstack, see stack.go); r.drv is that driver then
	quota              bool
	maxFiles, maxBytes int64
	// mode "G": device of several GiB (sparse), sectors reserved directly from the real allocator
	giant    bool
	reserved [][2]int // (first, count) runs taken directly from the allocator
}

// remaining quota as the byte-array oracle sees it: maxFiles - #open files, maxBytes - sum of sizes.
func (r *runner) quotaRemaining() (files, bytes int64) {
	files, bytes = r.maxFiles, r.maxBytes
	for _, f := range r.files {
		if f.open {
			files--
			bytes -= int64(len(f.exp))
		}
	}
	return
}

func isQuotaErr(err error) bool { return err != nil && errKind(err) == "invalid" }

func hexOf(b []byte) string {
	if len(b) == 0 {
		return "-"
	}
	return hex.EncodeToString(b)
}

func parseHex(s string) ([]byte, error) {
	if s == "-" {
		return nil, nil
	}
	return hex.DecodeString(s)
}

func newRunner(cfg string, drv *hx.Driver, out *outcome) (*runner, error) {
	w := strings.Fields(cfg)
	if (len(w) != 4 && len(w) != 6) || w[0] != "cfg" || (len(w) == 6) != (w[3] == "Q") {
		return nil, fmt.Errorf("bad cfg line %q", cfg)
	}
	ss, err1 := strconv.Atoi(w[1])
	nsec, err2 := strconv.Atoi(w[2])
	giant := w[3] == "G" // simulated multi-GiB device: sparse device, real bitmap allocator, monitor-only
	if err1 != nil || err2 != nil || ss < 1 || nsec < 0 || (nsec > 100000 && !giant) || nsec > 1<<25 {
		return nil, fmt.Errorf("bad cfg line %q", cfg)
	}
	r := &runner{drv: drv, out: out, bitmap: w[3] == "B" || w[3] == "Q" || giant, quota: w[3] == "Q", giant: giant}
	if giant {
		r.drv = nil
		drv = nil
	}
	if r.quota {
		mf, e1 := strconv.ParseInt(w[4], 10, 64)
		mb, e2 := strconv.ParseInt(w[5], 10, 64)
		if e1 != nil || e2 != nil || mf < 0 || mb < 0 {
			return nil, fmt.Errorf("bad cfg line %q", cfg)
		}
		r.maxFiles, r.maxBytes = mf, mb
		// the whole stack is compared with the composed model (Model/PoolStack.lean, stack.go)
		r.drv = nil
		if drv != nil {
			r.drv = stackDriver()
			if ans, err := r.drv.Ask(fmt.Sprintf("cfg %d %d %d %d", ss, nsec, mf, mb)); err != nil || ans != "ok" {
				return nil, fmt.Errorf("composed-pool model driver rejected cfg: %q %v", ans, err)
			}
		}
		drv = nil
	}
	r.e = &env{ss: ss, nsec: nsec, plan: noFaults()}
	r.e.nest = func(line string) {
		r.nested = true
		r.exec(strings.ReplaceAll(line, ",", " "))
		r.nested = false
	}
	// the device starts out full of foreign-looking garbage: nothing of it may ever be readable
	if giant {
		r.dev = &fakeDevice{e: r.e, sparse: map[int64][]byte{}, size: int64(ss) * int64(nsec)}
	} else {
		r.dev = &fakeDevice{e: r.e, data: make([]byte, ss*nsec), size: int64(ss * nsec)}
		for i := range r.dev.data {
			r.dev.data[i] = garbage(int64(i))
		}
	}
	var sa pool.SectorAllocator
	if r.bitmap {
		a := &recordingAllocator{accounting: newAccounting(r.e), base: pool.NewBitmapSectorAllocator(uint32(nsec))}
		r.acct, sa, r.base = &a.accounting, a, a.base
	} else {
		a := &scriptedAllocator{accounting: newAccounting(r.e)}
		r.acct, sa = &a.accounting, a
	}
	r.sa = sa
	r.fp = pool.NewBlockDeviceBackedFilePool(r.dev, sa, ss)
	if r.quota {
		r.fp = pool.NewQuotaEnforcingFilePool(r.fp, uint64(r.maxFiles), uint64(r.maxBytes))
	}
	if drv != nil {
		if ans, err := drv.Ask(fmt.Sprintf("cfg %d %d", ss, nsec)); err != nil || ans != "ok" {
			return nil, fmt.Errorf("model driver rejected cfg: %q %v", ans, err)
		}
		// the model's device starts zeroed; make the garbage known to it is not needed:
		// no byte of a sector is readable before the sector has been written completely.
	}
	return r, nil
}

func (r *runner) ask(line, actual string) bool {
	if r.drv == nil {
		return true
	}
	what := "FilePool correspondence: "
	if r.quota {
		line, actual, what = stackInput(line, r.e.plan), stackActual(line, actual, r.e.plan), "PoolStack correspondence: "
	}
	exp, err := r.drv.Ask(line)
	if err != nil {
		exp = "driver-error " + err.Error()
	}
	if exp != actual {
		// Record the disagreement, then go on without the model: if the change behind it breaks the
		// property, the monitor gets the chance to show it on the rest of the history.
		r.out.mismatch = what + line
		r.out.expected, r.out.actual = exp, actual
		r.drv = nil
	}
	return true
}

func (r *runner) fail(format string, a ...any) bool {
	if r.out.monitor == "" {
		r.out.monitor = fmt.Sprintf(format, a...)
	}
	return false
}

// parsePlan reads the input tokens behind "|".
func parsePlan(toks []string) (*plan, []string, bool) {
	pl := noFaults()
	var modelToks []string
	for _, t := range toks {
		var a, b, c int
		switch {
		case t == "HT":
			pl.ht = true
			modelToks = append(modelToks, t)
		case t == "HC":
			pl.hc = true
			modelToks = append(modelToks, t)
		case strings.HasPrefix(t, "I:"):
			// I:<HR|DR|DW>:<k>=<nested op line with ',' for ' '>
			eq := strings.IndexByte(t, '=')
			parts := strings.Split(t[:max(eq, 0)], ":")
			if eq < 0 || len(parts) != 3 || (parts[1] != "HR" && parts[1] != "DR" && parts[1] != "DW") {
				return nil, nil, false
			}
			k, err := strconv.Atoi(parts[2])
			if err != nil || k < 0 {
				return nil, nil, false
			}
			pl.interKind, pl.interK, pl.interLine = parts[1], k, t[eq+1:]
		case strings.HasPrefix(t, "S"):
			v, err := strconv.ParseUint(t[1:], 10, 64)
			if err != nil {
				return nil, nil, false
			}
			pl.allocSeed = v
		case strings.HasPrefix(t, "AX"):
			if _, err := fmt.Sscanf(t, "AX%d", &a); err != nil {
				return nil, nil, false
			}
			pl.axK = a
		case strings.HasPrefix(t, "DW"):
			if _, err := fmt.Sscanf(t, "DW%d:%d", &a, &b); err != nil || a < 0 || b < 0 {
				return nil, nil, false
			}
			pl.dwK, pl.dwN = a, b
			modelToks = append(modelToks, t)
		case strings.HasPrefix(t, "DR"):
			if _, err := fmt.Sscanf(t, "DR%d:%d:%d", &a, &b, &c); err != nil || a < 0 || b < 0 {
				return nil, nil, false
			}
			pl.drK, pl.drN, pl.drShort = a, b, c != 0
			modelToks = append(modelToks, t)
		case strings.HasPrefix(t, "HR"):
			if _, err := fmt.Sscanf(t, "HR%d:%d:%d", &a, &b, &c); err != nil || a < 0 || b < 0 {
				return nil, nil, false
			}
			pl.hrK, pl.hrN, pl.hrShort = a, b, c != 0
			modelToks = append(modelToks, t)
		case strings.HasPrefix(t, "HS"):
			if _, err := fmt.Sscanf(t, "HS%d", &a); err != nil || a < 0 {
				return nil, nil, false
			}
			pl.hsK = a
			modelToks = append(modelToks, t)
		default:
			return nil, nil, false
		}
	}
	return pl, modelToks, true
}

// triggered says whether any injected failure was actually delivered to the pool.
func (pl *plan) triggered() bool { return pl.delivered }

func (r *runner) file(id int) *ofile {
	if id < 0 || id >= len(r.files) || !r.files[id].open {
		return nil
	}
	return r.files[id]
}

func modelLine(opPart string, modelToks, answers []string) string {
	t := append(append([]string(nil), modelToks...), answers...)
	if len(t) == 0 {
		return opPart
	}
	return opPart + " | " + strings.Join(t, " ")
}

func (r *runner) count(k string) { r.out.hist[k]++ }

// exec runs one input line on the real pool, the monitor and the model.
// Malformed lines and lines addressing files that are not open are skipped
// (they arise when a failing history is shrunk). Returns false once a finding
// has been recorded.
func (r *runner) exec(line string) (ok bool) {
	ws := strings.Fields(line)
	if len(ws) == 0 {
		return true
	}
	opw, toks := ws, []string(nil)
	for i, w := range ws {
		if w == "|" {
			opw, toks = ws[:i], ws[i+1:]
			break
		}
	}
	pl, modelToks, good := parsePlan(toks)
	if !good {
		return true
	}
	if pl.interKind != "" {
		// the nested operation must be a write/read/truncate on a DIFFERENT open file, one level deep
		nw := strings.Split(pl.interLine, ",")
		valid := !r.nested && len(opw) >= 2 && len(nw) >= 3 && (nw[0] == "w" || nw[0] == "r" || nw[0] == "t") &&
			nw[1] != opw[1] && !strings.Contains(pl.interLine, "I:")
		if valid {
			id, err := strconv.Atoi(nw[1])
			valid = err == nil && r.file(id) != nil
		}
		if !valid {
			pl.interKind = ""
		}
	}
	if r.nested && opw[0] != "w" && opw[0] != "r" && opw[0] != "t" {
		return true
	}
	r.e.plan = pl
	defer func() {
		if p := recover(); p != nil {
			ok = r.fail("panic in the file pool during %q: %v", line, p)
		}
		r.e.plan = noFaults()
		if pl.nested {
			r.out.flags["interleaved"] = true
			r.count("op-with-nested-operation")
		}
		if !r.nested && r.out.monitor != "" {
			ok = false
		}
	}()
	opPart := strings.Join(opw, " ")
	atoi := func(s string) (int64, bool) {
		v, err := strconv.ParseInt(s, 10, 64)
		return v, err == nil
	}
	r.out.steps++
	switch {
	case opw[0] == "new" && len(opw) == 9:
		var v [8]int64
		for i := range v {
			x, ok := atoi(opw[i+1])
			if !ok || x < 0 {
				return true
			}
			v[i] = x
		}
		size, tag, g, m, d, salt, lim, eof := v[0], v[1], v[2], v[3], v[4], v[5], v[6], v[7]
		if tag < 1 || tag > 6 || g < 1 || m < 1 || lim > size || size > 1<<24 {
			return true
		}
		hs := &patternHole{e: r.e, tag: tag, g: g, m: m, d: d, salt: salt, lim: lim, eofStyle: eof != 0,
			zero: d == 0 && lim == 0 && eof == 0}
		remF, remB := r.quotaRemaining()
		real, err := r.fp.NewFile(hs, uint64(size))
		if r.quota && (remF < 1 || (size > 0 && size > remB)) {
			r.count("new-quota-rejected")
			if !isQuotaErr(err) {
				return r.fail("NewFile(size %d) succeeded (or failed with %v) although only %d files / %d bytes of quota remain", size, err, remF, remB)
			}
			return r.ask(opPart, "new invalid")
		}
		if err != nil {
			return r.fail("NewFile failed: %v", err)
		}
		f := &ofile{real: real, hs: hs, tag: byte(tag), open: true}
		f.resize(int(size))
		for i := range f.exp {
			f.exp[i] = hs.byteAt(int64(i))
		}
		r.files = append(r.files, f)
		r.count("op-new")
		if hs.zero {
			r.count("new-with-real-ZeroHoleSource")
		}
		if lim > 0 && d > 0 {
			r.count("new-with-nonzero-hole-source")
		}
		return r.monitorAfter() && r.ask(opPart, fmt.Sprintf("ok %d", len(r.files)-1)) && r.dumpCheck(false)
	case opw[0] == "reserve" && len(opw) == 2:
		// take sectors directly from the real allocator: space in use by files that are not modelled
		n, ok1 := atoi(opw[1])
		if !ok1 || n < 0 || !r.giant || r.sa == nil {
			return true
		}
		for n > 0 {
			first, count, err := r.sa.AllocateContiguous(int(n))
			if err != nil || count < 1 {
				break
			}
			r.reserved = append(r.reserved, [2]int{int(first), count})
			n -= int64(count)
		}
		r.count("op-reserve")
		if r.acct.nUsed > r.e.nsec/2 {
			r.out.flags["beyond-half-of-giant-device"] = true
		}
		return r.monitorAfter()
	case opw[0] == "v" && len(opw) == 1:
		r.out.steps--
		for id, f := range r.files {
			if f.open {
				if !r.exec(fmt.Sprintf("r %d 0 %d", id, len(f.exp)+1)) {
					return false
				}
			}
		}
		return true
	case opw[0] == "l" && len(opw) == 2:
		id, _ := atoi(opw[1])
		f := r.file(int(id))
		if f == nil {
			return true
		}
		n, err := f.real.Len()
		if err != nil || n != int64(len(f.exp)) {
			return r.fail("Len() of file %d = %d, %v; the byte-array oracle has size %d", id, n, err, len(f.exp))
		}
		r.count("op-len")
		return r.ask(opPart, fmt.Sprintf("l %d", n))
	case opw[0] == "r" && len(opw) == 4:
		id, _ := atoi(opw[1])
		off, ok1 := atoi(opw[2])
		n, ok2 := atoi(opw[3])
		f := r.file(int(id))
		if f == nil || !ok1 || !ok2 || n < 0 || n > 1<<22 {
			return true
		}
		buf := make([]byte, n)
		for i := range buf {
			buf[i] = 0xEE
		}
		got, err := f.real.ReadAt(buf, off)
		r.count("op-read")
		r.count("read-" + errKind(err))
		if got < 0 || got > int(n) {
			return r.fail("ReadAt(%d bytes at %d) of file %d returned n=%d", n, off, id, got)
		}
		if bad := r.checkRead(int(id), f, off, int(n), buf[:got], err, pl.triggered()); bad != "" {
			return r.fail("%s", bad)
		}
		return r.monitorAfter() && r.ask(modelLine(opPart, modelToks, pl.answers), fmt.Sprintf("r %d %s %s", got, errKind(err), hexOf(buf[:got]))) && r.dumpCheck(false)
	case opw[0] == "w" && len(opw) == 4:
		id, _ := atoi(opw[1])
		off, ok1 := atoi(opw[2])
		data, err0 := parseHex(opw[3])
		f := r.file(int(id))
		if f == nil || !ok1 || err0 != nil || off > 1<<24 {
			return true
		}
		before := r.acct.nUsed
		_, remB := r.quotaRemaining()
		got, err := f.real.WriteAt(data, off)
		r.count("op-write")
		if r.quota && off >= 0 {
			if growth := off + int64(len(data)) - int64(len(f.exp)); growth > remB {
				r.count("write-quota-rejected")
				if got != 0 || !isQuotaErr(err) || r.acct.nUsed != before {
					return r.fail("WriteAt growing file %d by %d bytes returned %d, %v although only %d bytes of quota remain", id, growth, got, err, remB)
				}
				return r.monitorAfter() && r.ask(modelLine(opPart, modelToks, pl.answers), "w 0 invalid") && r.dumpCheck(true)
			} else if isQuotaErr(err) {
				return r.fail("WriteAt growing file %d by %d bytes was refused (%v) although %d bytes of quota remain", id, growth, err, remB)
			}
		}
		r.count("write-" + errKind(err))
		if pl.allocCalls >= 2 {
			r.out.flags["fragmented-write"] = true
		}
		if got < 0 || got > len(data) || (err == nil && got != len(data)) {
			return r.fail("WriteAt(%d bytes at %d) of file %d returned n=%d, %v", len(data), off, id, got, err)
		}
		if err != nil && !pl.triggered() && off >= 0 {
			return r.fail("WriteAt(%d bytes at %d) of file %d failed although nothing underneath failed: %v", len(data), off, id, err)
		}
		if err != nil && got == 0 && r.acct.nUsed != before && !pl.nested {
			return r.fail("WriteAt of file %d failed without writing anything but the number of allocated sectors changed from %d to %d", id, before, r.acct.nUsed)
		}
		if got > 0 {
			if int(off)+got > len(f.exp) {
				f.resize(int(off) + got)
			}
			copy(f.exp[off:], data[:got])
			for i := 0; i < got; i++ {
				f.wild[int(off)+i] = false
			}
			f.wrote = true
		}
		if r.acct.reuse {
			r.out.flags["sector-reuse"] = true
		}
		return r.monitorAfter() && r.ask(modelLine(opPart, modelToks, pl.answers), fmt.Sprintf("w %d %s", got, errKind(err))) && r.dumpCheck(true)
	case opw[0] == "t" && len(opw) == 3:
		id, _ := atoi(opw[1])
		size, ok1 := atoi(opw[2])
		f := r.file(int(id))
		if f == nil || !ok1 || size > 1<<24 {
			return true
		}
		_, remB := r.quotaRemaining()
		err := f.real.Truncate(size)
		r.count("op-truncate")
		if r.quota && size >= 0 {
			if growth := size - int64(len(f.exp)); growth > remB {
				r.count("truncate-quota-rejected")
				if !isQuotaErr(err) {
					return r.fail("Truncate growing file %d by %d bytes returned %v although only %d bytes of quota remain", id, growth, err, remB)
				}
				if n, _ := f.real.Len(); n != int64(len(f.exp)) {
					return r.fail("a Truncate refused for quota changed the size of file %d from %d to %d", id, len(f.exp), n)
				}
				return r.monitorAfter() && r.ask(modelLine(opPart, modelToks, pl.answers), "d invalid") && r.dumpCheck(true)
			} else if isQuotaErr(err) {
				return r.fail("Truncate growing file %d by %d bytes was refused (%v) although %d bytes of quota remain", id, growth, err, remB)
			}
		}
		r.count("truncate-" + errKind(err))
		old := len(f.exp)
		if size >= 0 {
			switch {
			case err == nil:
				if int(size) < old && int(size)%r.e.ss != 0 {
					r.out.flags["shrink-mid-sector"] = true
				}
				f.resize(int(size))
			case !pl.triggered():
				return r.fail("Truncate(%d) of file %d failed although nothing underneath failed: %v", size, id, err)
			default:
				// A failed truncation may have removed part of the tail; the size must still be the old or the new one.
				n, lerr := f.real.Len()
				if lerr != nil || (n != int64(old) && n != size) {
					return r.fail("after a failed Truncate(%d) of file %d of size %d, Len() = %d, %v", size, id, old, n, lerr)
				}
				lo := min(int(size), old)
				f.resize(int(n))
				for i := lo; i < len(f.exp); i++ {
					f.wild[i] = true
				}
			}
		}
		return r.monitorAfter() && r.ask(modelLine(opPart, modelToks, pl.answers), "d "+errKind(err)) && r.dumpCheck(true)
	case opw[0] == "s" && len(opw) == 4 && (opw[3] == "D" || opw[3] == "H"):
		id, _ := atoi(opw[1])
		off, ok1 := atoi(opw[2])
		f := r.file(int(id))
		if f == nil || !ok1 {
			return true
		}
		rt := filesystem.Data
		if opw[3] == "H" {
			rt = filesystem.Hole
		}
		res, err := f.real.GetNextRegionOffset(off, rt)
		r.count("op-seek" + opw[3])
		r.count("seek-" + errKind(err))
		if bad := r.checkSeek(int(id), f, off, opw[3] == "D", res, err, pl.triggered()); bad != "" {
			return r.fail("%s", bad)
		}
		actual := fmt.Sprintf("s %d ok", res)
		if err != nil {
			actual = "s 0 " + errKind(err)
		}
		return r.monitorAfter() && r.ask(modelLine(opPart, modelToks, pl.answers), actual) && r.dumpCheck(false)
	case opw[0] == "c" && len(opw) == 2:
		id, _ := atoi(opw[1])
		f := r.file(int(id))
		if f == nil {
			return true
		}
		err := f.real.Close()
		f.open = false
		r.count("op-close")
		if err != nil && !pl.triggered() {
			return r.fail("Close() of file %d failed although nothing underneath failed: %v", id, err)
		}
		if f.hs.closes != 1 {
			return r.fail("Close() of file %d closed its hole source %d times", id, f.hs.closes)
		}
		return r.monitorAfter() && r.ask(modelLine(opPart, modelToks, pl.answers), "d "+errKind(err)) && r.dumpCheck(true)
	}
	r.out.steps--
	return true
}

// checkRead is the byte-array oracle for ReadAt.
func (r *runner) checkRead(id int, f *ofile, off int64, want int, got []byte, err error, faulted bool) string {
	if off < 0 {
		if len(got) != 0 || err == nil {
			return fmt.Sprintf("ReadAt at negative offset %d of file %d returned %d bytes, %v", off, id, len(got), err)
		}
		return ""
	}
	size := int64(len(f.exp))
	avail := int64(0)
	if off < size {
		avail = min(size-off, int64(want))
	}
	if int64(len(got)) > avail {
		return fmt.Sprintf("ReadAt(%d bytes at %d) of file %d of size %d returned %d bytes, beyond the end of the file", want, off, id, size, len(got))
	}
	for i, b := range got {
		p := off + int64(i)
		if f.wild[p] {
			if b != 0 && b>>5 != f.tag {
				return fmt.Sprintf("file %d byte %d reads 0x%02x: foreign data (tag %d) after a failed truncation", id, p, b, b>>5)
			}
			continue
		}
		if b != f.exp[p] {
			what := "stale or corrupted data"
			if b != 0 && b>>5 != f.tag {
				what = fmt.Sprintf("data of another file or uninitialised sector contents (tag %d)", b>>5)
			}
			return fmt.Sprintf("file %d (tag %d, size %d) byte %d reads 0x%02x, the byte-array oracle has 0x%02x: %s", id, f.tag, size, p, b, f.exp[p], what)
		}
	}
	if faulted {
		if err == nil && len(got) != want {
			return fmt.Sprintf("ReadAt(%d bytes at %d) of file %d returned %d bytes without an error", want, off, id, len(got))
		}
		return ""
	}
	k := errKind(err)
	switch {
	case want == 0:
		if err != nil {
			return fmt.Sprintf("empty ReadAt of file %d failed: %v", id, err)
		}
	case k == "ok":
		if len(got) != want || off+int64(want) > size {
			return fmt.Sprintf("ReadAt(%d bytes at %d) of file %d of size %d returned %d bytes and no error", want, off, id, size, len(got))
		}
	case k == "eof":
		if int64(len(got)) != avail || off+int64(want) < size {
			return fmt.Sprintf("ReadAt(%d bytes at %d) of file %d of size %d returned %d bytes and io.EOF", want, off, id, size, len(got))
		}
	default:
		return fmt.Sprintf("ReadAt(%d bytes at %d) of file %d failed although nothing underneath failed: %v", want, off, id, err)
	}
	return ""
}

// checkSeek: sparse-file soundness of GetNextRegionOffset (exact agreement at
// sector granularity is compared with the model).
func (r *runner) checkSeek(id int, f *ofile, off int64, data bool, res int64, err error, faulted bool) string {
	size := int64(len(f.exp))
	k := errKind(err)
	if off < 0 {
		if err == nil {
			return fmt.Sprintf("GetNextRegionOffset(%d) of file %d succeeded", off, id)
		}
		return ""
	}
	if off >= size {
		if k != "eof" {
			return fmt.Sprintf("GetNextRegionOffset(%d) of file %d of size %d: %d, %v; want io.EOF", off, id, size, res, err)
		}
		return ""
	}
	if faulted && err != nil && k != "eof" {
		return ""
	}
	nonzero := func(lo, hi int64) int64 {
		for p := lo; p < hi; p++ {
			if !f.wild[p] && f.exp[p] != 0 {
				return p
			}
		}
		return -1
	}
	if data {
		switch k {
		case "eof":
			if p := nonzero(off, size); p >= 0 {
				return fmt.Sprintf("GetNextRegionOffset(%d, Data) of file %d returned io.EOF but byte %d is 0x%02x", off, id, p, f.exp[p])
			}
		case "ok":
			if res < off || res >= size {
				return fmt.Sprintf("GetNextRegionOffset(%d, Data) of file %d of size %d returned %d", off, id, size, res)
			}
			if p := nonzero(off, res); p >= 0 {
				return fmt.Sprintf("GetNextRegionOffset(%d, Data) of file %d returned %d, skipping non-zero byte %d", off, id, res, p)
			}
		default:
			return fmt.Sprintf("GetNextRegionOffset(%d, Data) of file %d failed although nothing underneath failed: %v", off, id, err)
		}
		return ""
	}
	if k != "ok" {
		return fmt.Sprintf("GetNextRegionOffset(%d, Hole) of file %d of size %d failed: %v", off, id, size, err)
	}
	if res < off || res > size {
		return fmt.Sprintf("GetNextRegionOffset(%d, Hole) of file %d of size %d returned %d", off, id, size, res)
	}
	if res < size && !f.wild[res] && f.exp[res] != 0 {
		return fmt.Sprintf("GetNextRegionOffset(%d, Hole) of file %d returned %d, where byte 0x%02x is stored", off, id, res, f.exp[res])
	}
	return ""
}

// after runs the checks that follow every step: what the fakes saw, sector
// conservation on the implementation (hook), and the abstract state against
// the model.
func (r *runner) monitorAfter() bool {
	if r.e.viol != "" {
		return r.fail("%s", r.e.viol)
	}
	if r.nested {
		// in the middle of another file's operation: that file may hold sectors it has not linked in yet
		return true
	}
	owner := map[uint32]int{}
	refs := 0
	for id, f := range r.files {
		if !f.open {
			continue
		}
		secs, size, ok := pool.VerifBlockDeviceBackedFileState(f.real)
		if !ok {
			// wrapped by the quota pool: the sector lists are not visible; accounting is judged at the end
			return true
		}
		if size != uint64(len(f.exp)) {
			return r.fail("file %d: sizeBytes = %d, byte-array oracle has size %d", id, size, len(f.exp))
		}
		for _, s := range secs {
			if s == 0 {
				continue
			}
			if o, dup := owner[s]; dup {
				return r.fail("sector %d is referenced twice (files %d and %d)", s, o, id)
			}
			owner[s] = id
			refs++
			if int(s) > r.e.nsec || !r.acct.used[s] {
				return r.fail("file %d references sector %d, which is not allocated", id, s)
			}
		}
	}
	for _, rr := range r.reserved {
		refs += rr[1]
	}
	if refs != r.acct.nUsed {
		return r.fail("%d sectors are allocated but the open files reference %d: sectors leaked", r.acct.nUsed, refs)
	}
	return true
}

// dumpCheck compares the abstract state (allocated set, file sizes) with the model's.
func (r *runner) dumpCheck(mutating bool) bool {
	if mutating && r.drv != nil && !r.nested {
		if r.quota {
			return r.ask("dump", r.stackDump())
		}
		return r.ask("dump", r.dump())
	}
	return true
}

func (r *runner) dump() string {
	used := r.acct.usedList()
	us := make([]string, len(used))
	for i, s := range used {
		us[i] = strconv.Itoa(s)
	}
	fs := make([]string, len(r.files))
	for i, f := range r.files {
		if !f.open {
			fs[i] = "x"
			continue
		}
		n, _ := f.real.Len()
		fs[i] = strconv.FormatInt(n, 10)
	}
	return fmt.Sprintf("alloc=[%s] dfree=0 files=[%s]", strings.Join(us, ","), strings.Join(fs, ","))
}

// epilogue: read everything back, close everything, and demand the full capacity back.
func (r *runner) epilogue() bool {
	if !r.exec("v") {
		return false
	}
	for id, f := range r.files {
		if f.open && !r.exec(fmt.Sprintf("c %d", id)) {
			return false
		}
	}
	for _, rr := range r.reserved {
		r.sa.FreeContiguous(uint32(rr[0]), rr[1])
	}
	r.reserved = nil
	if r.e.viol != "" {
		return r.fail("%s", r.e.viol)
	}
	if r.acct.nUsed != 0 {
		return r.fail("after closing all files %d sectors are still allocated", r.acct.nUsed)
	}
	if r.acct.allocs != r.acct.frees {
		return r.fail("%d sectors were allocated but %d were freed", r.acct.allocs, r.acct.frees)
	}
	if r.quota && !r.fullQuota() {
		return false
	}
	if r.base != nil {
		// the real allocator must be able to hand out the full capacity again
		total := 0
		for total <= r.e.nsec {
			_, n, err := r.base.AllocateContiguous(r.e.nsec + 1)
			if err != nil {
				break
			}
			total += n
		}
		if total != r.e.nsec {
			return r.fail("after closing all files the bitmap allocator hands out %d of %d sectors", total, r.e.nsec)
		}
	}
	return true
}

// fullQuota: with everything closed, maxFiles files holding maxBytes in total can be created again,
// and not one file or byte more.
func (r *runner) fullQuota() (ok bool) {
	defer func() {
		if p := recover(); p != nil {
			ok = r.fail("panic while re-allocating the full quota: %v", p)
		}
	}()
	if r.maxFiles == 0 {
		return true
	}
	var fs []filesystem.FileReadWriter
	defer func() {
		for _, f := range fs {
			f.Close()
		}
		if ok && r.acct.nUsed != 0 {
			ok = r.fail("after the full-quota probe %d sectors are still allocated", r.acct.nUsed)
		}
	}()
	for i := int64(0); i < r.maxFiles; i++ {
		size := uint64(0)
		if i == 0 {
			size = uint64(r.maxBytes)
		}
		f, err := r.fp.NewFile(pool.ZeroHoleSource, size)
		if err != nil {
			return r.fail("after closing all files, NewFile #%d of %d (size %d of byte quota %d) failed with %v: the full quota is not available again", i+1, r.maxFiles, size, r.maxBytes, err)
		}
		fs = append(fs, f)
	}
	if f, err := r.fp.NewFile(pool.ZeroHoleSource, 0); err == nil {
		fs = append(fs, f)
		return r.fail("after closing all files, NewFile #%d succeeded: more than the file quota %d is available", r.maxFiles+1, r.maxFiles)
	}
	if err := fs[len(fs)-1].Truncate(1); r.maxFiles > 1 && err == nil {
		return r.fail("with the whole byte quota %d in use, growing another file succeeded", r.maxBytes)
	} else if r.maxFiles == 1 && fs[0].Truncate(int64(r.maxBytes)+1) == nil {
		return r.fail("growing a file beyond the byte quota %d succeeded", r.maxBytes)
	}
	return true
}

// run executes a whole history (first line: cfg).
func run(lines []string, drv *hx.Driver) (out outcome) {
	out.flags = map[string]bool{}
	out.hist = map[string]int{}
	if len(lines) == 0 {
		return
	}
	r, err := newRunner(lines[0], drv, &out)
	if err != nil {
		return
	}
	for _, l := range lines[1:] {
		if !r.exec(l) {
			return
		}
	}
	r.epilogue()
	nw := 0
	for _, f := range r.files {
		if f.wrote {
			nw++
		}
	}
	if nw >= 2 {
		out.flags["two-files-written"] = true
	}
	return
}

// ---- generator ------------------------------------------------------------------------

type gen struct {
	r       *hx.Rand
	run     *runner
	ss      int
	nsec    int
	maxIdx  int
	faulty  bool
	fill    bool
	inter   bool
	created int
	lines   []string
}

// pickIn prefers offsets inside the file (reads and seeks).
func (g *gen) pickIn(size int) int64 {
	if size > 0 && g.r.Chance(3, 5) {
		if g.r.Chance(1, 2) {
			k := g.r.Intn((size-1)/g.ss + 1)
			return int64(min(max(k*g.ss+g.r.Intn(3)-1, 0), size-1))
		}
		return int64(g.r.Intn(size))
	}
	return g.pickOff(size)
}

func (g *gen) pickOff(size int) int64 {
	ss := g.ss
	switch g.r.Pick(2, 3, 2, 2, 6, 3) {
	case 0:
		return 0
	case 1:
		return int64(size)
	case 2:
		return int64(max(size-1, 0))
	case 3:
		return int64(size + 1)
	case 4:
		k := g.r.Intn(g.maxIdx + 1)
		return int64(max(k*ss+g.r.Intn(3)-1, 0))
	default:
		return int64(g.r.Intn(size + 2*ss + 1))
	}
}

func (g *gen) pickLen() int {
	ss := g.ss
	if g.fill && g.r.Chance(1, 2) {
		return 1 + g.r.Intn(max(g.nsec*ss/2, 1)+ss)
	}
	switch g.r.Pick(2, 2, 3, 2, 2, 2, 4, 2) {
	case 0:
		return 1
	case 1:
		return max(ss-1, 1)
	case 2:
		return ss
	case 3:
		return ss + 1
	case 4:
		return 2 * ss
	case 5:
		return 3*ss - 1 + g.r.Intn(3)
	case 6:
		return 1 + g.r.Intn(4*ss)
	default:
		if ss <= 8 {
			return 1 + g.r.Intn(12*ss)
		}
		return 1 + g.r.Intn(8*ss)
	}
}

func (g *gen) faults(kind string) string {
	if !g.faulty || !g.r.Chance(1, 6) {
		return ""
	}
	ss := g.ss
	nb := []int{0, 1, max(ss-1, 0), ss, ss + 1, g.r.Intn(3*ss + 1)}[g.r.Intn(6)]
	sh := g.r.Intn(2)
	switch kind {
	case "w":
		switch g.r.Pick(4, 3, 3) {
		case 0:
			return fmt.Sprintf(" DW%d:%d", g.r.Intn(4), nb)
		case 1:
			return fmt.Sprintf(" HR%d:%d:%d", g.r.Intn(3), nb, sh)
		default:
			return fmt.Sprintf(" AX%d", g.r.Intn(3))
		}
	case "r":
		if g.r.Chance(1, 2) {
			return fmt.Sprintf(" DR%d:%d:%d", g.r.Intn(4), nb, sh)
		}
		return fmt.Sprintf(" HR%d:%d:%d", g.r.Intn(3), nb, sh)
	case "t":
		if g.r.Chance(1, 2) {
			return fmt.Sprintf(" DW0:%d", nb)
		}
		return " HT"
	case "s":
		return fmt.Sprintf(" HS%d", g.r.Intn(3))
	case "c":
		return " HC"
	}
	return ""
}

// interleave returns a token that runs a complete write/read/truncate on another open file in
// the middle of the operation on file id (when the k-th call of one of the given kinds is entered).
func (g *gen) interleave(id int, kinds ...string) string {
	if !g.inter || !g.r.Chance(1, 3) {
		return ""
	}
	var others []int
	for j, f := range g.run.files {
		if f.open && j != id {
			others = append(others, j)
		}
	}
	if len(others) == 0 {
		return ""
	}
	j := others[g.r.Intn(len(others))]
	f := g.run.files[j]
	size := len(f.exp)
	limit := int64(g.maxIdx * g.ss)
	var nested string
	switch g.r.Pick(6, 2, 2) {
	case 0:
		off, n := g.pickOff(size), g.pickLen()
		if off+int64(n) > limit {
			off = max(limit-int64(n), 0)
			n = int(min(int64(n), limit-off))
		}
		nested = fmt.Sprintf("w,%d,%d,%s,|,S%d", j, off, g.data(f.tag, n), g.r.Intn(1<<30))
	case 1:
		nested = fmt.Sprintf("r,%d,%d,%d", j, g.pickIn(size), g.pickLen())
	default:
		nested = fmt.Sprintf("t,%d,%d", j, min(int64(g.r.Intn(size+g.ss+1)), limit))
	}
	kind := kinds[g.r.Intn(len(kinds))]
	k := g.r.Intn(3)
	if kind == "DW0" { // Truncate issues at most one device write
		kind, k = "DW", 0
	}
	return fmt.Sprintf(" I:%s:%d=%s", kind, k, nested)
}

func (g *gen) emit(line string) bool {
	g.lines = append(g.lines, line)
	return g.run.exec(line)
}

func (g *gen) newFile() bool {
	ss := g.ss
	size := 0
	if g.r.Chance(1, 2) {
		size = g.r.Intn(6*ss + 2)
	}
	gr := []int{1, 2, 3, ss, ss + 1, 5}[g.r.Intn(6)]
	m := 1 + g.r.Intn(3)
	d := g.r.Intn(m + 1)
	lim := size
	switch g.r.Pick(6, 2, 2, 1) {
	case 1:
		lim = max(size-1, 0)
	case 2:
		lim = g.r.Intn(size + 1)
	case 3:
		lim = 0
	}
	g.created++
	tag := (g.created-1)%6 + 1
	if g.r.Chance(1, 5) { // the real pool.ZeroHoleSource
		return g.emit(fmt.Sprintf("new %d %d 1 1 0 %d 0 0", size, tag, g.r.Intn(1000)))
	}
	return g.emit(fmt.Sprintf("new %d %d %d %d %d %d %d %d", size, tag, gr, m, d, g.r.Intn(1000), lim, g.r.Intn(2)))
}

func (g *gen) data(tag byte, n int) string {
	b := make([]byte, n)
	for i := range b {
		b[i] = tag<<5 | byte(1+g.r.Intn(31))
	}
	if n > 0 && g.r.Chance(1, 6) { // a run of explicit zero bytes
		a := g.r.Intn(n)
		for i := a; i < n && i < a+1+g.r.Intn(n); i++ {
			b[i] = 0
		}
	}
	return hexOf(b)
}

// next emits one more operation drawn from the current abstract state.
func (g *gen) next() bool {
	var open []int
	for id, f := range g.run.files {
		if f.open {
			open = append(open, id)
		}
	}
	if len(open) == 0 || (len(open) < 6 && g.created < 10 && g.r.Chance(1, 12)) {
		if g.created >= 10 {
			return false
		}
		return g.newFile()
	}
	id := open[g.r.Intn(len(open))]
	f := g.run.files[id]
	size := len(f.exp)
	limit := int64(g.maxIdx * g.ss)
	switch g.r.Pick(40, 20, 12, 8, 2, 3, 4, 1) {
	case 0:
		off, n := g.pickOff(size), g.pickLen()
		if g.r.Chance(1, 40) {
			n = 0
		}
		if off+int64(n) > limit {
			off = max(limit-int64(n), 0)
			n = int(min(int64(n), limit-off))
		}
		return g.emit(fmt.Sprintf("w %d %d %s | S%d%s%s", id, off, g.data(f.tag, n), g.r.Intn(1<<30), g.faults("w"),
			g.interleave(id, "HR", "DW", "HR")))
	case 1:
		off, n := g.pickIn(size), g.pickLen()
		if g.r.Chance(1, 8) {
			off, n = 0, size+1
		}
		if g.r.Chance(1, 40) {
			n = 0
		}
		fl := g.faults("r") + g.interleave(id, "HR", "DR")
		if fl != "" {
			fl = " |" + fl
		}
		return g.emit(fmt.Sprintf("r %d %d %d%s", id, off, n, fl))
	case 2:
		var sz int64
		switch g.r.Pick(3, 3, 2, 1) {
		case 0: // shrink into the file
			sz = int64(g.r.Intn(size + 1))
		case 1:
			sz = g.pickOff(size)
		case 2: // sector boundary
			sz = int64(g.r.Intn(g.maxIdx+1) * g.ss)
		default:
			sz = 0
		}
		sz = min(sz, limit)
		fl := g.faults("t")
		fl += g.interleave(id, "DW0")
		if fl != "" {
			fl = " |" + fl
		}
		return g.emit(fmt.Sprintf("t %d %d%s", id, sz, fl))
	case 3:
		fl := g.faults("s")
		if fl != "" {
			fl = " |" + fl
		}
		return g.emit(fmt.Sprintf("s %d %d %s%s", id, g.pickIn(size), []string{"D", "H"}[g.r.Intn(2)], fl))
	case 4:
		return g.emit(fmt.Sprintf("l %d", id))
	case 5:
		fl := g.faults("c")
		if fl != "" {
			fl = " |" + fl
		}
		return g.emit(fmt.Sprintf("c %d%s", id, fl))
	case 6:
		return g.emit("v")
	default: // malformed stream: negative offsets
		switch g.r.Intn(4) {
		case 0:
			return g.emit(fmt.Sprintf("r %d -1 4", id))
		case 1:
			return g.emit(fmt.Sprintf("w %d -1 %s | S1", id, g.data(f.tag, 2)))
		case 2:
			return g.emit(fmt.Sprintf("t %d -1", id))
		default:
			return g.emit(fmt.Sprintf("s %d -1 D", id))
		}
	}
}

// generate builds and runs one history; the returned lines replay it.
func generate(rng *hx.Rand, drv *hx.Driver) ([]string, outcome) {
	ss := []int{1, 2, 3, 8, 512}[rng.Pick(3, 3, 3, 4, 2)]
	var nsec int
	switch rng.Pick(2, 2, 1, 4) {
	case 0:
		nsec = 1 + rng.Intn(8)
	case 1:
		nsec = 60 + rng.Intn(11)
	case 2:
		nsec = 126 + rng.Intn(5)
	default:
		nsec = 1 + rng.Intn(130)
	}
	kind := "S"
	if rng.Chance(1, 4) {
		kind = "B"
	}
	cfg := fmt.Sprintf("cfg %d %d %s", ss, nsec, kind)
	quota := rng.Chance(1, 6)
	if quota { // the real stack: quota pool over block-device pool over bitmap allocator
		kind = "Q"
		mb := []int{ss * nsec / 2, ss * nsec, 2 * ss * nsec, 3*ss + 1, 0}[rng.Intn(5)]
		cfg = fmt.Sprintf("cfg %d %d Q %d %d", ss, nsec, 1+rng.Intn(6), mb)
	}
	out := outcome{flags: map[string]bool{}, hist: map[string]int{}}
	g := &gen{r: rng, ss: ss, nsec: nsec, maxIdx: min(nsec+6, 40), faulty: rng.Chance(1, 2), fill: rng.Chance(1, 4),
		inter: !quota && rng.Chance(1, 3), lines: []string{cfg}}
	r, err := newRunner(cfg, drv, &out)
	if err != nil {
		out.mismatch = err.Error()
		return g.lines, out
	}
	g.run = r
	n := 10 + rng.Intn(120)
	if rng.Chance(1, 10) {
		n = 300
	}
	for i := 0; i < 1+rng.Intn(3); i++ {
		if !g.newFile() {
			return g.lines, out
		}
	}
	for len(g.lines) < n {
		if !g.next() {
			break
		}
	}
	if out.monitor == "" && out.mismatch == "" {
		r.epilogue()
	}
	nw := 0
	for _, f := range r.files {
		if f.wrote {
			nw++
		}
	}
	if nw >= 2 {
		out.flags["two-files-written"] = true
	}
	if r.acct.nUsed == 0 && r.acct.allocs > 0 {
		out.flags["all-returned"] = true
	}
	out.hist["cfg-ss-"+strconv.Itoa(ss)]++
	out.hist["cfg-alloc-"+kind]++
	return g.lines, out
}

// generateGiant builds and runs a history on a simulated device of 8-64 GiB: a few sectors are
// written through two files first, then sectors are reserved directly from the real allocator so
// that what is allocated next lies just below / across a multiple of 4 GiB, then ordinary operations
// follow; every file is checked against its byte-array oracle as usual (monitor-only).
func generateGiant(rng *hx.Rand) ([]string, outcome) {
	ss := []int{4096, 4096, 4096, 512}[rng.Intn(4)]
	mark := (1 << 32) / ss // sectors per 4 GiB
	nsec := 2 * mark
	if ss == 4096 {
		nsec = []int{2 * mark, 2*mark + 5, 4 * mark, 16 * mark}[rng.Intn(4)]
	}
	cfg := fmt.Sprintf("cfg %d %d G", ss, nsec)
	out := outcome{flags: map[string]bool{}, hist: map[string]int{}}
	g := &gen{r: rng, ss: ss, nsec: nsec, maxIdx: 24, faulty: rng.Chance(1, 3), inter: rng.Chance(1, 4), lines: []string{cfg}}
	r, err := newRunner(cfg, nil, &out)
	if err != nil {
		out.mismatch = err.Error()
		return g.lines, out
	}
	g.run = r
	ok := true
	for i := 0; ok && i < 2+rng.Intn(2); i++ {
		ok = g.newFile()
	}
	// low sectors owned by the first files
	for i := 0; ok && i < 2+rng.Intn(4); i++ {
		f := r.files[i%2]
		ok = g.emit(fmt.Sprintf("w %d %d %s | S1", i%2, rng.Intn(3*ss), g.data(f.tag, 1+rng.Intn(3*ss))))
	}
	if ok {
		target := mark * (1 + rng.Intn(min(nsec/mark-1, 2))) // 4 GiB or 8 GiB
		next := target - rng.Intn(13) + rng.Intn(3)
		if rng.Chance(1, 8) {
			next = rng.Intn(nsec - 64)
		}
		ok = g.emit(fmt.Sprintf("reserve %d", max(next-r.acct.nUsed, 0)))
	}
	n := len(g.lines) + 25 + rng.Intn(50)
	for ok && len(g.lines) < n {
		ok = g.next()
	}
	if out.monitor == "" && out.mismatch == "" {
		r.epilogue()
	}
	out.flags["giant-device"] = true
	out.hist["cfg-alloc-G"]++
	out.hist["cfg-ss-"+strconv.Itoa(ss)]++
	return g.lines, out
}

// offsetTie compares blockDeviceBackedFile.toDeviceOffset (through the verif hook) with its
// fixed-width Lean model on one (sector, sectorSizeBytes, offsetWithinSector) triple.
func offsetTie(line string, drv *hx.Driver) (exp, act string, ok bool) {
	var sector uint32
	var ss, ow int
	if _, err := fmt.Sscanf(line, "off %d %d %d", &sector, &ss, &ow); err != nil {
		return "", "", true
	}
	act = strconv.FormatInt(pool.VerifToDeviceOffset(ss, sector, ow), 10)
	exp, err := drv.Ask(line)
	if err != nil {
		exp = "driver-error " + err.Error()
	}
	return exp, act, exp == act
}

func offsetLines(rng *hx.Rand) []string {
	var lines []string
	for _, ss := range []int{1, 2, 3, 8, 512, 4096, 65536, 1 << 31} {
		wrap := uint64(1<<32) / uint64(ss)
		for _, s1 := range []uint64{0, 1, 1<<20 - 1, 1 << 20, wrap - 1, wrap, wrap + 1, 2*wrap + 1, 1<<32 - 2, rng.Uint64() % (1<<32 - 1)} {
			if s1 > 1<<32-2 {
				continue
			}
			for _, ow := range []int{0, ss - 1, rng.Intn(ss)} {
				lines = append(lines, fmt.Sprintf("off %d %d %d", s1+1, ss, ow))
			}
		}
	}
	return lines
}

func main() {
	o := hx.ParseFlags()
	res := hx.NewResult("filepool", o, "random write/read/truncate/seek/len/close histories over 1-6 simultaneously open files (<= 10 per history) of the real block-device-backed pool; sector sizes {1,2,3,8,512}, devices of 1-130 sectors, scripted or real bitmap allocator, tagged non-zero hole sources, offsets at sector boundaries +-1 and around the file size, faults injected into device reads/writes, hole-source reads/seeks/Truncate/Close and allocations; in a third of the histories operations are interleaved: a complete write/read/truncate on ANOTHER file runs (re-entrantly, deterministically) in the middle of an operation, when one of its hole-source reads or device reads/writes is entered - judged by the same per-file oracle and accounting, and compared with the model as 'nested operation first, then the outer one'; one history in forty runs on a simulated device of 8-64 GiB (sparse block device, 4 KiB or 512 B sectors, real bitmap allocator, monitor-only) where sectors are reserved directly from the allocator so that files receive sectors just below / across a multiple of 4 GiB; toDeviceOffset is compared with its fixed-width Lean model on boundary sector numbers through a verif hook; a sixth of the histories run the whole real stack (quota-enforcing pool over the block-device pool over the bitmap allocator) against the composed model Model/PoolStack.lean (results, error classes, every answer of the real bitmap allocator against the bitmap model's, allocated set / free sectors / quota remaining after every mutating operation) and the monitors: byte-array oracle, exact acceptance/refusal of every NewFile/WriteAt/Truncate against files+bytes quota computed from the oracle's sizes, and after closing everything the full file and byte quota and the full sector capacity must be allocatable again; non-trivial = the history re-used a freed sector, shrank a file into the middle of a sector, and wrote to at least two files; distinct = hash of the op list")
	drv, err := hx.StartDriver("filepool")
	if err != nil {
		fmt.Fprintln(os.Stderr, "cannot start model driver:", err)
		os.Exit(3)
	}
	defer drv.Close()
	defer stackClose()

	report := func(lines []string, out outcome) {
		wantMonitor := out.monitor != ""
		fails := func(cand []string) bool {
			if len(cand) == 0 || !strings.HasPrefix(cand[0], "cfg ") {
				return false
			}
			r := run(cand, drv)
			if wantMonitor {
				return r.monitor != ""
			}
			return r.monitor == "" && r.mismatch != ""
		}
		min := lines
		if fails(lines) {
			min = hx.Shrink(lines, fails)
		} else if !wantMonitor {
			// a mismatch followed by a later monitor hit is reported as the monitor hit
			wantMonitor = true
			if fails(lines) {
				min = hx.Shrink(lines, fails)
			}
		}
		r := run(min, drv)
		if r.monitor == "" && r.mismatch == "" {
			r = out // not reproducible from the lines alone: report what was seen
		}
		f := hx.Finding{Property: prop, History: min}
		if r.monitor != "" {
			f.Kind, f.What, f.Name = "violation", r.monitor, "C15 byte-array oracle / sector accounting on the block-device-backed file pool"
		} else {
			f.Kind, f.What = "mismatch", r.mismatch
			f.Name = "correspondence Model/FilePool.lean <-> block_device_backed_file_pool.go (theorems C15.file_refines_bytes, C15.isolation, C15.sector_conservation)"
			if strings.HasPrefix(r.mismatch, "PoolStack ") {
				f.Name = stackName
			}
			f.Expected, f.Actual = r.expected, r.actual
		}
		f.Sig = hx.Sig(prop, "filepool", strings.Join(min, ";"))
		res.Report(f)
	}

	if o.Replay != "" {
		f, err := hx.LoadReplay(o.Replay)
		if err != nil {
			fmt.Fprintln(os.Stderr, err)
			os.Exit(3)
		}
		if len(f.History) > 0 && strings.HasPrefix(f.History[0], "off ") {
			if exp, act, ok := offsetTie(f.History[0], drv); !ok {
				res.Report(hx.Finding{Kind: "mismatch", Property: prop, History: f.History[:1], Expected: exp, Actual: act,
					What: "toDeviceOffset differs from its fixed-width model: " + f.History[0],
					Name: "tie of blockDeviceBackedFile.toDeviceOffset to Model/FilePool.lean toDeviceOffset (theorems C15.device_offset_exact, C15.device_ranges_disjoint)",
					Sig:  hx.Sig(prop, "filepool", f.History[0])})
			}
			res.Evaluations = 1
			res.ModelLines = drv.Lines + stackLines()
			res.Write(o)
			return
		}
		out := run(f.History, drv)
		res.Evaluations = out.steps
		if out.monitor != "" || out.mismatch != "" {
			report(f.History, out)
		}
		res.ModelLines = drv.Lines + stackLines()
		res.Write(o)
		return
	}

	histories := 1000 * o.Scale
	if o.Tier == "thorough" {
		histories = 4000 * o.Scale
	}
	rng := hx.NewRand(o.Seed)
	// tie of toDeviceOffset (machine arithmetic) on boundary values; a disagreement is reported at the
	// end unless a history shows the property itself broken
	var offsetFinding *hx.Finding
	for _, l := range offsetLines(rng) {
		res.Evaluations++
		res.Count("offset-tie")
		if exp, act, ok := offsetTie(l, drv); !ok && offsetFinding == nil {
			offsetFinding = &hx.Finding{Kind: "mismatch", Property: prop, History: []string{l}, Expected: exp, Actual: act,
				What: "toDeviceOffset differs from its fixed-width model: " + l,
				Name: "tie of blockDeviceBackedFile.toDeviceOffset to Model/FilePool.lean toDeviceOffset (theorems C15.device_offset_exact, C15.device_ranges_disjoint)",
				Sig:  hx.Sig(prop, "filepool", l)}
		}
	}
	var firstMismatch []string
	var firstMismatchOut outcome
	extra := -1 // histories still to run after the first model mismatch, looking for a monitor hit
	for h := 0; h < histories && len(res.Findings) == 0 && extra != 0; h++ {
		if extra > 0 {
			extra--
		}
		var lines []string
		var out outcome
		if h%40 == 7 {
			lines, out = generateGiant(rng)
		} else {
			lines, out = generate(rng, drv)
		}
		res.Evaluations += out.steps
		res.TracesVsImpl++
		keys := make([]string, 0, len(out.flags))
		for k := range out.flags {
			keys = append(keys, k)
		}
		sort.Strings(keys)
		for _, k := range keys {
			res.Count("history-with-" + k)
		}
		for k, v := range out.hist {
			res.Histogram[k] += v
		}
		res.History(lines, out.flags["sector-reuse"] && out.flags["shrink-mid-sector"] && out.flags["two-files-written"])
		if out.monitor != "" {
			report(lines, out)
		} else if out.mismatch != "" && firstMismatch == nil {
			firstMismatch, firstMismatchOut = lines, out
			extra = 400
		}
	}
	if len(res.Findings) == 0 && firstMismatch != nil {
		report(firstMismatch, firstMismatchOut)
	}
	if len(res.Findings) == 0 && offsetFinding != nil {
		res.Report(*offsetFinding)
	}
	res.ModelLines = drv.Lines + stackLines()
	res.Write(o)
}
