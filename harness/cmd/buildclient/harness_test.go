package buildclient

// Correspondence harness and monitor for C08 (worker: one action at a time,
// honest state, safe shutdown).  See doc.go.
//
// Every history runs inside its own synctest bubble: the worker thread (either
// a loop around the real BuildClient.Run that applies LaunchWorkerThread's
// termination rule, mode 0, or the real builder.LaunchWorkerThread, mode 1)
// and the goroutines spawned by startExecution block only in the fakes below;
// one harness op releases one of them, synctest.Wait() lets everything run
// until it blocks again, then the observable effects of the op are recorded.
// After the bubble the same op lines are sent to the Lean model.

import (
	"context"
	"fmt"
	"io"
	"log"
	"os"
	"sort"
	"strconv"
	"strings"
	"sync"
	"testing"
	"testing/synctest"
	"time"
	"unsafe"

	remoteexecution "github.com/bazelbuild/remote-apis/build/bazel/remote/execution/v2"
	"github.com/buildbarn/bb-remote-execution/pkg/builder"
	"github.com/buildbarn/bb-remote-execution/pkg/filesystem/access"
	"github.com/buildbarn/bb-remote-execution/pkg/filesystem/pool"
	"github.com/buildbarn/bb-remote-execution/pkg/proto/remoteworker"
	"github.com/buildbarn/bb-storage/pkg/clock"
	"github.com/buildbarn/bb-storage/pkg/digest"
	"github.com/buildbarn/bb-storage/pkg/program"
	"google.golang.org/grpc"
	"google.golang.org/grpc/codes"
	"google.golang.org/grpc/status"
	"google.golang.org/protobuf/proto"
	"google.golang.org/protobuf/types/known/emptypb"
	"google.golang.org/protobuf/types/known/timestamppb"

	"verifharness/internal/hx"
)

const baseTime = 100000 // fake clock start (Unix seconds)

// ---- trace events (input of the monitor) -------------------------------------

type tev struct {
	kind string // rdycall rdyret timer wake sent reply ret enter return emit xcancel cancel tick term
	now  int64
	// sent
	state  string // idle | exec
	d      int
	phase  string // started upd1 upd2 upd3 done nil
	rid    int
	prefer bool
	ctxErr bool
	// reply
	rkind string // err none idle unknown exec
	tsOK  bool
	ts    int64
	xkind string // ok sfx fn
	// ret / rdyret / return
	mt, err, ok   bool
	id, u         int
	prevCancelled bool
}

// ---- world: the fakes -----------------------------------------------------------

type execCmd struct {
	emit int // update kind, 0 = finish
	rid  int
	ok   bool
}

type execRec struct {
	id       int
	d        int
	ctx      context.Context
	cmd      chan execCmd
	updates  chan<- *remoteworker.CurrentState_Executing
	returned bool
	sending  bool
	xcSeen   bool
	resp     *remoteexecution.ExecuteResponse
}

type syncReply struct {
	resp *remoteworker.SynchronizeResponse
	err  error
}

type fakeTimer struct {
	w  *world
	ch chan time.Time
}

type world struct {
	mu   sync.Mutex
	mode int
	now  int64
	quit chan struct{}

	ctx       context.Context
	cancel    context.CancelFunc
	cancelled bool

	readyCh  chan error
	timer    *fakeTimer
	sync     chan syncReply
	execs    []*execRec
	inRun    bool
	term     bool
	runReq   chan struct{}
	panicked string

	// observations of the current op
	opRdy  int
	opTmr  []string
	opSent []string
	opRet  []string
	opXs   []string
	opXc   []string

	trace []tev
}

func (w *world) add(e tev) {
	e.now = w.now
	w.trace = append(w.trace, e)
}

// clock.Clock
func (w *world) Now() time.Time {
	w.mu.Lock()
	defer w.mu.Unlock()
	return time.Unix(w.now, 0)
}

func (w *world) NewContextWithTimeout(p context.Context, d time.Duration) (context.Context, context.CancelFunc) {
	return context.WithCancel(p)
}

func (w *world) NewTicker(d time.Duration) (clock.Ticker, <-chan time.Time) {
	panic("BuildClient is not expected to create tickers")
}

func (w *world) NewTimer(d time.Duration) (clock.Timer, <-chan time.Time) {
	w.mu.Lock()
	defer w.mu.Unlock()
	t := &fakeTimer{w: w, ch: make(chan time.Time, 1)}
	secs := int64(d / time.Second)
	w.opTmr = append(w.opTmr, strconv.FormatInt(secs, 10))
	w.add(tev{kind: "timer"})
	select {
	case <-w.quit:
		t.ch <- time.Unix(w.now, 0)
	default:
		w.timer = t
	}
	return t, t.ch
}

func (t *fakeTimer) Stop() bool {
	t.w.mu.Lock()
	defer t.w.mu.Unlock()
	if t.w.timer == t {
		t.w.timer = nil
		t.w.add(tev{kind: "wake"}) // select left through the update branch
		return true
	}
	return false
}

// builder.BuildExecutor
func (w *world) CheckReadiness(ctx context.Context) error {
	w.mu.Lock()
	ch := make(chan error, 1)
	w.readyCh = ch
	w.opRdy++
	w.add(tev{kind: "rdycall"})
	w.mu.Unlock()
	var err error
	select {
	case err = <-ch:
	case <-w.quit:
	}
	w.mu.Lock()
	w.readyCh = nil
	w.add(tev{kind: "rdyret", ok: err == nil})
	w.mu.Unlock()
	return err
}

func digestOf(d *remoteexecution.Digest) int {
	if d == nil {
		return -1
	}
	return int(d.SizeBytes)
}

func mkDigest(d int) *remoteexecution.Digest {
	return &remoteexecution.Digest{Hash: fmt.Sprintf("%064x", d), SizeBytes: int64(d)}
}

func (w *world) Execute(ctx context.Context, filePool pool.FilePool, monitor access.UnreadDirectoryMonitor, digestFunction digest.Function, request *remoteworker.DesiredState_Executing, updates chan<- *remoteworker.CurrentState_Executing) *remoteexecution.ExecuteResponse {
	w.mu.Lock()
	rec := &execRec{id: len(w.execs), d: digestOf(request.ActionDigest), ctx: ctx, cmd: make(chan execCmd), updates: updates}
	prevCancelled := true
	if len(w.execs) > 0 {
		prevCancelled = w.execs[len(w.execs)-1].ctx.Err() != nil
	}
	w.execs = append(w.execs, rec)
	w.opXs = append(w.opXs, fmt.Sprintf("%d:%d", rec.id, rec.d))
	w.add(tev{kind: "enter", id: rec.id, d: rec.d, prevCancelled: prevCancelled})
	w.mu.Unlock()
	for {
		var c execCmd
		select {
		case c = <-rec.cmd:
		case <-w.quit:
			c = execCmd{rid: 9999, ok: true}
		}
		if c.emit != 0 {
			msg := &remoteworker.CurrentState_Executing{ActionDigest: request.ActionDigest}
			switch c.emit {
			case 1:
				msg.ExecutionState = &remoteworker.CurrentState_Executing_FetchingInputs{FetchingInputs: &emptypb.Empty{}}
			case 2:
				msg.ExecutionState = &remoteworker.CurrentState_Executing_Running{Running: &emptypb.Empty{}}
			default:
				msg.ExecutionState = &remoteworker.CurrentState_Executing_UploadingOutputs{UploadingOutputs: &emptypb.Empty{}}
			}
			w.mu.Lock()
			rec.sending = true
			w.mu.Unlock()
			select {
			case updates <- msg:
			case <-w.quit:
			}
			w.mu.Lock()
			rec.sending = false
			w.mu.Unlock()
			continue
		}
		resp := builder.NewDefaultExecuteResponse(request)
		resp.Message = fmt.Sprintf("r%d", c.rid)
		if !c.ok {
			resp.Status = status.New(codes.Internal, "injected failure").Proto()
		}
		w.mu.Lock()
		rec.returned = true
		rec.resp = resp
		w.add(tev{kind: "return", id: rec.id, rid: c.rid, ok: c.ok})
		w.mu.Unlock()
		return resp
	}
}

func canonState(cs *remoteworker.CurrentState) (e tev) {
	switch s := cs.GetWorkerState().(type) {
	case *remoteworker.CurrentState_Idle:
		e.state = "idle"
	case *remoteworker.CurrentState_Executing_:
		e.state = "exec"
		e.d = digestOf(s.Executing.GetActionDigest())
		switch p := s.Executing.GetExecutionState().(type) {
		case *remoteworker.CurrentState_Executing_Started:
			e.phase = "started"
		case *remoteworker.CurrentState_Executing_FetchingInputs:
			e.phase = "upd1"
		case *remoteworker.CurrentState_Executing_Running:
			e.phase = "upd2"
		case *remoteworker.CurrentState_Executing_UploadingOutputs:
			e.phase = "upd3"
		case *remoteworker.CurrentState_Executing_Completed:
			e.phase = "done"
			e.rid = -1
			if m := p.Completed.GetMessage(); strings.HasPrefix(m, "r") {
				if n, err := strconv.Atoi(m[1:]); err == nil {
					e.rid = n
				}
			}
			e.ok = status.ErrorProto(p.Completed.GetStatus()) == nil
		default:
			e.phase = "nil"
		}
	default:
		e.state = "unknown"
	}
	return
}

func (e tev) reqString() string {
	s := e.state
	if e.state == "exec" {
		s = fmt.Sprintf("exec:%d:%s", e.d, e.phase)
		if e.phase == "done" {
			s += strconv.Itoa(e.rid)
		}
	}
	if e.prefer {
		return s + "/1"
	}
	return s + "/0"
}

// remoteworker.OperationQueueClient
func (w *world) Synchronize(ctx context.Context, in *remoteworker.SynchronizeRequest, opts ...grpc.CallOption) (*remoteworker.SynchronizeResponse, error) {
	req := proto.Clone(in).(*remoteworker.SynchronizeRequest)
	w.mu.Lock()
	e := canonState(req.CurrentState)
	e.kind = "sent"
	e.prefer = req.PreferBeingIdle
	e.ctxErr = ctx.Err() != nil
	w.opSent = append(w.opSent, e.reqString())
	w.add(e)
	ch := make(chan syncReply, 1)
	w.sync = ch
	w.mu.Unlock()
	var r syncReply
	select {
	case r = <-ch:
	case <-w.quit:
		r = syncReply{resp: &remoteworker.SynchronizeResponse{
			NextSynchronizationAt: timestamppb.New(time.Unix(baseTime, 0)),
			DesiredState:          &remoteworker.DesiredState{WorkerState: &remoteworker.DesiredState_Idle{Idle: &emptypb.Empty{}}},
		}}
	}
	w.mu.Lock()
	w.sync = nil
	w.mu.Unlock()
	return r.resp, r.err
}

type group struct{ w *world }

func (g group) Go(r program.Routine) {
	go func() {
		defer g.w.recoverPanic()
		r(g.w.ctx, g, g)
		g.w.mu.Lock()
		g.w.term = true
		g.w.add(tev{kind: "term"})
		g.w.mu.Unlock()
	}()
}

func (w *world) recoverPanic() {
	if r := recover(); r != nil {
		w.mu.Lock()
		w.panicked = fmt.Sprint(r)
		w.term = true
		w.mu.Unlock()
	}
}

func newWorld(mode int) *world {
	w := &world{mode: mode, now: baseTime, quit: make(chan struct{}), runReq: make(chan struct{})}
	w.ctx, w.cancel = context.WithCancel(context.Background())
	prefix, err := digest.NewInstanceName("prefix")
	if err != nil {
		panic(err)
	}
	bc := builder.NewBuildClient(w, w, nil, w, map[string]string{"host": "h", "thread": "0"},
		prefix, &remoteexecution.Platform{}, 3)
	if mode == 1 {
		builder.LaunchWorkerThread(group{w}, bc, "verif")
	} else {
		go func() {
			defer w.recoverPanic()
			for range w.runReq {
				mt, err := bc.Run(w.ctx)
				w.mu.Lock()
				w.inRun = false
				w.opRet = append(w.opRet, b01(mt)+b01(err != nil))
				w.add(tev{kind: "ret", mt: mt, err: err != nil})
				// LaunchWorkerThread: `mayTerminate && ctx.Err() != nil`
				stop := mt && w.ctx.Err() != nil
				if stop {
					w.term = true
					w.add(tev{kind: "term"})
				}
				w.mu.Unlock()
				if stop {
					return
				}
			}
		}()
	}
	return w
}

func b01(b bool) string {
	if b {
		return "1"
	}
	return "0"
}

func (w *world) runningExec() *execRec {
	if n := len(w.execs); n > 0 && !w.execs[n-1].returned {
		return w.execs[n-1]
	}
	return nil
}

func (w *world) at() string {
	switch {
	case w.term:
		return "term"
	case w.readyCh != nil:
		return "ready"
	case w.timer != nil:
		return "select"
	case w.sync != nil:
		return "sync"
	case w.mode == 0 && !w.inRun:
		return "top"
	}
	return "busy"
}

// sleeping: mode 1, the thread is in LaunchWorkerThread's error back-off (it is
// not in any fake and no cancelled executor is still running, so it is not in
// stopExecution's drain loop either).
func (w *world) sleeping() bool {
	if w.mode != 1 || w.at() != "busy" {
		return false
	}
	x := w.runningExec()
	return x == nil || x.ctx.Err() == nil
}

// valid says whether the op can be applied in the current (harness-visible) state.
func (w *world) valid(f []string) bool {
	w.mu.Lock()
	defer w.mu.Unlock()
	switch f[0] {
	case "run":
		if w.mode == 1 {
			return w.sleeping()
		}
		return w.at() == "top"
	case "ready":
		return w.readyCh != nil && len(f) == 2
	case "timer":
		return w.timer != nil
	case "emit", "finish":
		x := w.runningExec()
		return x != nil && !x.sending
	case "reply":
		return w.sync != nil && mkReply(f[1:], w.now) != nil
	case "cancel":
		return !w.cancelled
	case "tick":
		return len(f) == 2
	}
	return false
}

type replySpec struct {
	r     syncReply
	kind  string
	xkind string
	d     int
	tsOK  bool
	ts    int64
}

func mkReply(f []string, now int64) *replySpec {
	if len(f) == 1 && f[0] == "err" {
		return &replySpec{r: syncReply{err: status.Error(codes.Unavailable, "injected RPC failure")}, kind: "err"}
	}
	if len(f) < 2 {
		return nil
	}
	rs := &replySpec{}
	resp := &remoteworker.SynchronizeResponse{}
	if f[0] == "bad" {
		// alternately nil and out-of-range timestamps
		if now%2 == 0 {
			resp.NextSynchronizationAt = &timestamppb.Timestamp{Seconds: baseTime, Nanos: -5}
		}
	} else {
		ts, err := strconv.ParseInt(f[0], 10, 64)
		if err != nil {
			return nil
		}
		rs.tsOK, rs.ts = true, ts
		resp.NextSynchronizationAt = timestamppb.New(time.Unix(ts, 0))
	}
	rs.kind = f[1]
	switch f[1] {
	case "none":
	case "idle":
		resp.DesiredState = &remoteworker.DesiredState{WorkerState: &remoteworker.DesiredState_Idle{Idle: &emptypb.Empty{}}}
	case "unknown":
		resp.DesiredState = &remoteworker.DesiredState{}
	case "exec":
		if len(f) != 4 {
			return nil
		}
		d, err := strconv.Atoi(f[2])
		if err != nil {
			return nil
		}
		rs.d, rs.xkind = d, f[3]
		x := &remoteworker.DesiredState_Executing{
			ActionDigest:       mkDigest(d),
			Action:             &remoteexecution.Action{},
			InstanceNameSuffix: "suffix",
			DigestFunction:     remoteexecution.DigestFunction_SHA256,
		}
		switch f[3] {
		case "ok":
		case "sfx":
			x.InstanceNameSuffix = "a//b"
		case "fn":
			x.DigestFunction = remoteexecution.DigestFunction_UNKNOWN
		default:
			return nil
		}
		resp.DesiredState = &remoteworker.DesiredState{WorkerState: &remoteworker.DesiredState_Executing_{Executing: x}}
	default:
		return nil
	}
	rs.r = syncReply{resp: resp}
	return rs
}

// apply performs one (valid) op on the real code, waits for quiescence and
// returns the op line (with the observed race token) and the observation line.
func (w *world) apply(f []string) (string, string) {
	w.mu.Lock()
	if f[0] != "init" {
		w.opRdy, w.opTmr, w.opSent, w.opRet, w.opXs, w.opXc = 0, nil, nil, nil, nil, nil
	}
	sleep := false
	switch f[0] {
	case "init":
	case "run":
		if w.mode == 1 {
			sleep = true
		} else {
			w.inRun = true
			w.mu.Unlock()
			w.runReq <- struct{}{}
			w.mu.Lock()
		}
	case "ready":
		var err error
		if f[1] != "1" {
			err = status.Error(codes.Internal, "injected readiness failure")
		}
		w.readyCh <- err
	case "timer":
		t := w.timer
		w.timer = nil
		t.ch <- time.Unix(w.now, 0)
	case "emit":
		u, _ := strconv.Atoi(f[1])
		x := w.runningExec()
		w.add(tev{kind: "emit", id: x.id, u: u})
		w.mu.Unlock()
		x.cmd <- execCmd{emit: u}
		w.mu.Lock()
	case "finish":
		rid, _ := strconv.Atoi(f[1])
		x := w.runningExec()
		w.mu.Unlock()
		x.cmd <- execCmd{rid: rid, ok: f[2] == "1"}
		w.mu.Lock()
	case "reply":
		rs := mkReply(f[1:], w.now)
		w.add(tev{kind: "reply", rkind: rs.kind, xkind: rs.xkind, d: rs.d, tsOK: rs.tsOK, ts: rs.ts})
		w.sync <- rs.r
	case "cancel":
		w.cancelled = true
		w.add(tev{kind: "cancel"})
		w.cancel()
	case "tick":
		n, _ := strconv.ParseInt(f[1], 10, 64)
		w.now += n
		w.add(tev{kind: "tick"})
	}
	w.mu.Unlock()
	if sleep {
		time.Sleep(6 * time.Second) // longer than any back-off of LaunchWorkerThread
	}
	synctest.Wait()
	w.mu.Lock()
	defer w.mu.Unlock()
	for _, x := range w.execs {
		if !x.xcSeen && x.ctx.Err() != nil {
			x.xcSeen = true
			w.opXc = append(w.opXc, strconv.Itoa(x.id))
			w.add(tev{kind: "xcancel", id: x.id})
		}
	}
	running := 0
	for _, x := range w.execs {
		if !x.returned {
			running++
		}
	}
	j := func(l []string) string {
		if len(l) == 0 {
			return "-"
		}
		return strings.Join(l, ",")
	}
	ret := j(w.opRet)
	if w.mode == 1 {
		ret = "-"
	}
	obs := fmt.Sprintf("at=%s rdy=%s tmr=%s sent=%s ret=%s xs=%s xc=%s run=%d", w.at(), b01(w.opRdy > 0), j(w.opTmr), j(w.opSent), ret, j(w.opXs), j(w.opXc), running)
	line := strings.Join(f, " ")
	if f[0] != "init" {
		line += " seen=" + b01(len(w.opXc) > 0)
	}
	return line, obs
}

// finishBubble lets every goroutine of the bubble end.
func (w *world) finishBubble() {
	close(w.quit)
	w.cancel()
	synctest.Wait()
	for i := 0; i < 8; i++ {
		w.mu.Lock()
		done := w.term || (w.mode == 0 && !w.inRun)
		w.mu.Unlock()
		if done {
			break
		}
		time.Sleep(6 * time.Second)
		synctest.Wait()
	}
	if w.mode == 0 {
		close(w.runReq)
	}
	// Executor goroutines the client no longer drains (the thread is gone):
	// take what they still want to send, so that they can close and exit.
	for _, x := range w.execs {
		recv := *(*chan *remoteworker.CurrentState_Executing)(unsafe.Pointer(&x.updates))
		go func() {
			for range recv {
			}
		}()
	}
	synctest.Wait()
}

// ---- monitor: C08 on the implementation's trace alone ---------------------------

func monitor(trace []tev, mode int) string {
	type ex struct {
		d         int
		returned  bool
		rid       int
		ok        bool
		emitted   []int
		pos       int // index into emitted of the last reported update, -1 = none yet
		doneSeen  bool
		cancelled bool
	}
	var execs []*ex
	running := func() int {
		n := 0
		for _, x := range execs {
			if !x.returned {
				n++
			}
		}
		return n
	}
	cancelled := false
	rdyOK := false     // a successful readiness check since the last request
	var lastReply *tev // reply to the most recent request, nil once the next request is sent
	pendingStart := -1 // digest the scheduler asked to start and that has not been entered yet
	toldIdle := false  // the last reply (valid) said idle
	mustStart := false // the last reply (valid) said execute ok
	startsSinceReply := 0
	// "the scheduler cannot believe it is still executing"
	settled := true
	ns := int64(baseTime)
	minNs := ns
	setNs := func(v int64) {
		ns = v
		if v < minNs {
			minNs = v
		}
	}
	// The scheduler's own belief, from what it definitely told the worker: after a
	// valid reply that left the worker executing (an execute instruction, or "no
	// change" answering a request that reported an action in progress) it believes
	// the worker is executing until that reply's NextSynchronizationAt + 1 min,
	// unless a later valid reply instructed/acknowledged idle.
	believes := false
	believeUntil := int64(0)
	beliefBroken := func(now int64) bool { return believes && now <= believeUntil }
	var lastSent *tev
	for i := range trace {
		e := &trace[i]
		switch e.kind {
		case "rdyret":
			if e.ok {
				rdyOK = true
			}
		case "wake":
			if ns > e.now {
				setNs(e.now)
			}
		case "cancel":
			cancelled = true
		case "emit":
			if e.id < len(execs) {
				execs[e.id].emitted = append(execs[e.id].emitted, e.u)
			}
		case "xcancel":
			if e.id < len(execs) {
				x := execs[e.id]
				x.cancelled = true
				// The client released this execution. Unless the scheduler told it to
				// stop (idle / execute instruction being processed: stopExecution discards
				// the result), an action whose Execute() has returned must have had its
				// completion reported by now: the channel is drained and closed, nothing
				// more can arrive.
				byInstruction := lastReply != nil && lastReply.tsOK && (lastReply.rkind == "idle" || (lastReply.rkind == "exec" && lastReply.xkind == "ok"))
				if x.returned && !byInstruction && !x.doneSeen {
					return fmt.Sprintf("completion reported: the client released action %d after its Execute() had returned (response r%d) without ever reporting its completion", x.d, x.rid)
				}
			}
		case "enter":
			if running() > 0 {
				return fmt.Sprintf("one action at a time: Execute #%d (digest %d) entered while an earlier Execute has not returned", e.id, e.d)
			}
			if !e.prevCancelled {
				return fmt.Sprintf("cancel before start: Execute #%d entered although the context of the previous action was never cancelled", e.id)
			}
			if lastReply == nil || lastReply.rkind != "exec" || lastReply.xkind != "ok" || !lastReply.tsOK || lastReply.d != e.d || startsSinceReply > 0 {
				return fmt.Sprintf("start only when told: Execute #%d (digest %d) entered without a matching execute instruction in the preceding scheduler reply", e.id, e.d)
			}
			startsSinceReply++
			pendingStart = -1
			execs = append(execs, &ex{d: e.d, pos: -1})
		case "return":
			if e.id < len(execs) {
				x := execs[e.id]
				x.returned, x.rid, x.ok = true, e.rid, e.ok
			}
		case "sent":
			if e.ctxErr {
				return "shutdown: Synchronize called with an already cancelled context (it could never succeed)"
			}
			if cancelled && !e.prefer {
				return "shutdown: request sent after shutdown began without PreferBeingIdle: " + e.reqString()
			}
			switch e.state {
			case "idle":
				if running() > 0 {
					return "honest state: request reports Idle while an Execute call is still running"
				}
				if !e.prefer && !rdyOK {
					return "prefer idle: Idle request without PreferBeingIdle although readiness was not (re-)checked in this iteration"
				}
			case "exec":
				if len(execs) == 0 {
					return "honest state: request reports Executing but no action was ever started"
				}
				x := execs[len(execs)-1]
				if x.d != e.d {
					return fmt.Sprintf("honest state: request reports action %d but the most recently started action is %d", e.d, x.d)
				}
				if e.phase != "done" && x.returned && x.cancelled {
					return fmt.Sprintf("honest state: request reports action %d in progress (%s) although its Execute() has returned and the client has released the execution; its completion (r%d) was never reported", e.d, e.phase, x.rid)
				}
				switch e.phase {
				case "done":
					if !x.returned || x.rid != e.rid || x.ok != e.ok {
						return fmt.Sprintf("honest state: request reports Completed(r%d) which is not the response the action returned", e.rid)
					}
					x.doneSeen = true
					if !e.ok && !e.prefer {
						return "prefer idle: Completed with non-OK status reported without PreferBeingIdle"
					}
				case "started":
					if x.pos >= 0 || x.doneSeen {
						return "honest state: request goes back to Started after a later state was reported"
					}
				case "upd1", "upd2", "upd3":
					u := int(e.phase[3] - '0')
					if x.doneSeen {
						return "honest state: request goes back to an update after Completed was reported"
					}
					if !(x.pos >= 0 && x.emitted[x.pos] == u && lastSent != nil && lastSent.state == "exec" && lastSent.d == e.d && lastSent.phase == e.phase) {
						j := x.pos + 1
						for j < len(x.emitted) && x.emitted[j] != u {
							j++
						}
						if j >= len(x.emitted) {
							return fmt.Sprintf("honest state: reported update kind %d was not emitted by the action after the previously reported one (order)", u)
						}
						x.pos = j
					}
				default:
					return "honest state: Executing without execution state"
				}
			default:
				return "honest state: request without worker state"
			}
			if toldIdle && e.state != "idle" {
				return "idle when told: the request after an idle instruction does not report Idle: " + e.reqString()
			}
			if mustStart && (e.state != "exec" || pendingStart >= 0) {
				return fmt.Sprintf("start when told: the request after an execute instruction for action %d reports %s", pendingStart, e.reqString())
			}
			toldIdle, mustStart, lastReply, rdyOK = false, false, nil, false
			if settled {
				settled = false
				minNs = ns
			}
			lastSent = e
		case "reply":
			lastReply = e
			startsSinceReply = 0
			if e.rkind != "err" && e.tsOK {
				setNs(e.ts)
				switch e.rkind {
				case "idle":
					toldIdle = true
					settled = true
					believes = false
				case "exec":
					if e.xkind == "ok" {
						mustStart = true
						pendingStart = e.d
						believes, believeUntil = true, e.ts+60
					}
				case "none":
					if lastSent != nil && !(lastSent.state == "exec" && lastSent.phase != "done") {
						settled = true
						believes = false
					} else if lastSent != nil {
						believes, believeUntil = true, e.ts+60
					}
				}
			}
		case "ret":
			if e.mt && cancelled && beliefBroken(e.now) {
				return fmt.Sprintf("shutdown: Run allowed termination at t=%d although the scheduler was last told the worker is executing and believes so until %d (NextSynchronizationAt of that reply + 1 min)", e.now, believeUntil)
			}
			if e.mt && cancelled && !(settled || e.now > minNs+60) {
				return fmt.Sprintf("shutdown: Run allowed termination at t=%d although the scheduler may still think the worker is executing (no settled idle exchange, earliest bound %d)", e.now, minNs+60)
			}
		case "term":
			if !cancelled {
				return "worker thread terminated although shutdown was never requested"
			}
			if beliefBroken(e.now) {
				return fmt.Sprintf("shutdown: worker thread terminated at t=%d although the scheduler was last told the worker is executing and believes so until %d (NextSynchronizationAt of that reply + 1 min)", e.now, believeUntil)
			}
			if !(settled || e.now > minNs+60) {
				return fmt.Sprintf("shutdown: worker thread terminated at t=%d although the scheduler may still think it is executing (earliest bound %d)", e.now, minNs+60)
			}
		}
	}
	return ""
}

// ---- running histories ------------------------------------------------------------

type outcome struct {
	ops      []string // applied op lines (with race token), first is `init`
	obs      []string
	monitor  string
	mismatch string
	expected string
	actual   string
	flags    map[string]bool
	counts   map[string]int
}

func fields(s string) []string {
	f := strings.Fields(s)
	if n := len(f); n > 0 && strings.HasPrefix(f[n-1], "seen=") {
		f = f[:n-1]
	}
	return f
}

// runReal runs one history on the real code.  next() yields candidate ops
// (nil = end); ops that are not applicable in the current state are skipped.
func runReal(t *testing.T, mode int, next func(w *world) []string) (out outcome) {
	out.flags = map[string]bool{}
	out.counts = map[string]int{}
	synctest.Test(t, func(t *testing.T) {
		w := newWorld(mode)
		line, obs := w.apply([]string{"init", strconv.Itoa(baseTime), strconv.Itoa(mode)})
		out.ops, out.obs = append(out.ops, line), append(out.obs, obs)
		for {
			w.mu.Lock()
			stop := w.term || w.panicked != ""
			w.mu.Unlock()
			if stop {
				break
			}
			f := next(w)
			if f == nil {
				break
			}
			if len(f) == 0 || !w.valid(f) {
				out.counts["skipped-inapplicable"]++
				continue
			}
			// flags for the non-triviality rule
			w.mu.Lock()
			x := w.runningExec()
			if f[0] == "reply" && len(f) >= 3 && x != nil && (f[2] == "idle" || (f[2] == "exec" && f[len(f)-1] == "ok")) && f[1] != "bad" {
				out.flags["preempt"] = true
			}
			if f[0] == "emit" && x != nil {
				out.counts["emit"]++
			}
			w.mu.Unlock()
			w.mu.Lock()
			atBefore := w.at()
			blockedDone := x != nil && x.sending
			w.mu.Unlock()
			line, obs := w.apply(f)
			out.ops, out.obs = append(out.ops, line), append(out.obs, obs)
			out.counts["op-"+f[0]]++
			if f[0] == "finish" && atBefore == "select" {
				out.counts["race-finish-during-select-"+line[len(line)-6:]]++
			}
			if blockedDone && strings.Contains(obs, "at=sync") && !strings.Contains(obs, "sent=-") {
				out.counts["consume-with-blocked-sender-"+line[len(line)-6:]]++
			}
			if f[0] == "reply" {
				k := f[len(f)-1]
				if len(f) >= 3 {
					k = f[2]
					if f[2] == "exec" {
						k = "exec-" + f[4]
					}
					if f[1] == "bad" {
						k = "badts-" + k
					}
				}
				out.counts["reply-"+k]++
			}
			w.mu.Lock()
			if strings.Contains(obs, "xs=") && !strings.Contains(obs, "xs=-") {
				out.flags["start"] = true
			}
			if w.cancelled && !strings.Contains(obs, "sent=-") {
				out.flags["shutdown-sync"] = true
			}
			for _, x := range w.execs {
				if x.sending {
					out.flags["channel-full"] = true
				}
			}
			w.mu.Unlock()
		}
		w.mu.Lock()
		if w.term {
			out.flags["terminated"] = true
		}
		trace := append([]tev(nil), w.trace...)
		p := w.panicked
		w.mu.Unlock()
		out.monitor = monitor(trace, mode)
		if p != "" && out.monitor == "" {
			out.monitor = "panic in BuildClient: " + p
		}
		w.finishBubble()
	})
	return
}

// compare sends the applied ops to the Lean model and compares the outputs.
func compare(out *outcome, drv *hx.Driver) {
	for i, op := range out.ops {
		exp, err := drv.Ask(op)
		if err != nil {
			exp = "driver-error " + err.Error()
		}
		act := out.obs[i]
		if exp != act {
			out.mismatch = fmt.Sprintf("BuildClient correspondence: step %d `%s`", i, op)
			out.expected, out.actual = exp, act
			return
		}
	}
}

// ---- generator ----------------------------------------------------------------------

type gen struct {
	longPolls  int
	fullBursts int
	plan       [][]string // scripted ops to emit first ("@exec" = execute reply built when it is due)
	r          *hx.Rand
	left       int
	burst      int
	digest     int
	rid        int
}

func (g *gen) ts(now int64) string {
	switch g.r.Pick(20, 15, 15, 15, 10, 10, 8, 7) {
	case 0:
		return strconv.FormatInt(now, 10)
	case 1:
		return strconv.FormatInt(now+1, 10)
	case 2:
		return strconv.FormatInt(now+2, 10)
	case 3:
		return strconv.FormatInt(now+10, 10)
	case 4:
		return strconv.FormatInt(now+30, 10)
	case 5:
		return strconv.FormatInt(now+100, 10)
	case 6:
		return strconv.FormatInt(now-3, 10)
	}
	return "bad"
}

func (g *gen) tick() []string {
	return []string{"tick", []string{"1", "2", "5", "10", "30", "59", "60", "61", "62", "120"}[g.r.Intn(10)]}
}

func (g *gen) execEvent(w *world) []string {
	if g.r.Chance(2, 3) {
		return []string{"emit", strconv.Itoa(1 + g.r.Intn(3))}
	}
	g.rid++
	return []string{"finish", strconv.Itoa(g.rid), b01(g.r.Chance(3, 5))}
}

func (g *gen) reply(w *world) []string {
	ts := g.ts(w.now)
	switch g.r.Pick(28, 26, 14, 10, 4, 4, 3) {
	case 0:
		return []string{"reply", ts, "none"}
	case 1:
		g.digest++
		d := g.digest
		if g.r.Chance(1, 6) && d > 1 {
			d-- // the same action again
			g.digest--
		}
		return []string{"reply", ts, "exec", strconv.Itoa(d), "ok"}
	case 2:
		return []string{"reply", ts, "idle"}
	case 3:
		return []string{"reply", "err"}
	case 4:
		g.digest++
		return []string{"reply", ts, "exec", strconv.Itoa(g.digest), "sfx"}
	case 5:
		g.digest++
		return []string{"reply", ts, "exec", strconv.Itoa(g.digest), "fn"}
	}
	return []string{"reply", ts, "unknown"}
}

func (g *gen) next(w *world) []string {
	if g.left <= 0 {
		return nil
	}
	g.left--
	w.mu.Lock()
	defer w.mu.Unlock()
	at := w.at()
	x := w.runningExec()
	canExec := x != nil && !x.sending
	if len(g.plan) > 0 {
		f := g.plan[0]
		g.plan = g.plan[1:]
		if f[0] == "@exec" {
			if at != "sync" {
				g.plan = nil
				return []string{}
			}
			g.digest++
			return []string{"reply", strconv.FormatInt(w.now+int64(g.r.Intn(3)), 10), "exec", strconv.Itoa(g.digest), "ok"}
		}
		return f
	}
	// Chatty executor while the worker thread does not look at the channel (it is
	// inside Synchronize, or in the error back-off that follows): 9, 10 or 11
	// updates pending (channel capacity 10) at the moment Execute() returns.
	if at == "sync" && canExec && len(w.opSent) > 0 && g.r.Chance(1, 6) {
		n := []int{9, 10, 10, 11}[g.r.Intn(4)]
		g.fullBursts++
		var plan [][]string
		if g.r.Chance(1, 3) {
			plan = append(plan, []string{"reply", "err"}) // updates arrive during the back-off
		}
		for i := 0; i < n; i++ {
			plan = append(plan, []string{"emit", strconv.Itoa(1 + g.r.Intn(3))})
		}
		g.rid++
		plan = append(plan, []string{"finish", strconv.Itoa(g.rid), b01(g.r.Chance(2, 3))})
		g.plan = plan
		return []string{}
	}
	// Long poll: the blocking Synchronize of an idle worker returns an action
	// more than a minute after the previous deadline, and shutdown begins
	// during the poll or right after it (before the next successful sync).
	if at == "sync" && x == nil && !w.cancelled && g.r.Chance(1, 12) {
		g.longPolls++
		wait := []string{"tick", strconv.Itoa(61 + g.r.Intn(90))}
		switch g.r.Intn(3) {
		case 0:
			g.plan = [][]string{wait, {"cancel"}, {"@exec"}}
		case 1:
			g.plan = [][]string{wait, {"@exec"}, {"cancel"}}
		default:
			g.plan = [][]string{wait, {"@exec"}, {"run"}, {"timer"}, {"reply", "err"}, {"cancel"}}
		}
		return []string{}
	}
	if g.burst > 0 {
		if canExec && at != "select" {
			g.burst--
			if g.burst == 0 && g.r.Chance(1, 2) {
				g.rid++
				return []string{"finish", strconv.Itoa(g.rid), b01(g.r.Chance(1, 2))}
			}
			return []string{"emit", strconv.Itoa(1 + g.r.Intn(3))}
		}
		g.burst = 0
	}
	if canExec && at != "select" && g.r.Chance(1, 40) {
		g.burst = 9 + g.r.Intn(5)
	}
	if !w.cancelled && g.r.Chance(1, 25) {
		return []string{"cancel"}
	}
	if g.r.Chance(1, 60) { // an op that is most likely not applicable here
		return [][]string{{"timer"}, {"ready", "1"}, {"reply", "err"}, {"run"}, {"emit", "1"}}[g.r.Intn(5)]
	}
	switch at {
	case "top":
		switch {
		case canExec && g.r.Chance(1, 5):
			return g.execEvent(w)
		case g.r.Chance(1, 6):
			return g.tick()
		}
		return []string{"run"}
	case "ready":
		if g.r.Chance(1, 12) {
			return g.tick()
		}
		return []string{"ready", b01(!g.r.Chance(1, 7))}
	case "select":
		switch g.r.Pick(35, 40, 25) {
		case 0:
			return []string{"timer"}
		case 1:
			if canExec {
				return g.execEvent(w)
			}
			return []string{"timer"}
		}
		return g.tick()
	case "sync":
		switch g.r.Pick(70, 18, 12) {
		case 0:
			return g.reply(w)
		case 1:
			if canExec {
				return g.execEvent(w)
			}
			return g.reply(w)
		}
		return g.tick()
	case "busy":
		if w.sleeping() || w.mode == 0 && x == nil {
			if g.r.Chance(1, 5) {
				return g.tick()
			}
			return []string{"run"}
		}
		if canExec {
			if g.r.Chance(1, 8) {
				return g.tick()
			}
			if g.r.Chance(1, 3) {
				return []string{"emit", strconv.Itoa(1 + g.r.Intn(3))}
			}
			g.rid++
			return []string{"finish", strconv.Itoa(g.rid), b01(g.r.Chance(1, 2))}
		}
		return g.tick()
	}
	return nil
}

// ---- test entry ------------------------------------------------------------------------

const rule = "histories of harness ops (run/ready/timer/emit/finish/reply/cancel/tick) against the real BuildClient in a synctest bubble, mode 0 = Run in a loop with LaunchWorkerThread's rule, mode 1 = real LaunchWorkerThread; replies: none/idle/execute(ok|bad suffix|bad digest function)/unknown/RPC error/invalid timestamp, update bursts up to 14 (channel capacity 10), readiness failures, shutdown at a random step, bursts of 9/10/11 updates pending when Execute returns while the thread is in Synchronize or backing off, long polls (> 60 s) that hand out an action followed by shutdown before the next successful sync; non-trivial = an action was started, a running action was pre-empted by an idle/execute instruction, and at least one request was sent after shutdown began; distinct = hash of the applied op list"

func replayOps(t *testing.T, lines []string) outcome {
	mode := 0
	if len(lines) > 0 {
		if f := strings.Fields(lines[0]); len(f) == 3 && f[0] == "init" && f[2] == "1" {
			mode = 1
		}
	}
	i := 0
	return runReal(t, mode, func(w *world) []string {
		for i < len(lines) {
			f := fields(lines[i])
			i++
			if len(f) > 0 && f[0] != "init" {
				return f
			}
		}
		return nil
	})
}

func TestHarness(t *testing.T) {
	o := hx.ParseFlags()
	log.SetOutput(io.Discard) // LaunchWorkerThread logs every error
	res := hx.NewResult("buildclient", o, rule)
	drv, err := hx.StartDriver("buildclient")
	if err != nil {
		fmt.Fprintln(os.Stderr, "cannot start model driver:", err)
		os.Exit(3)
	}
	defer drv.Close()

	report := func(out outcome) {
		wantMonitor := out.monitor != ""
		fails := func(cand []string) bool {
			if len(cand) == 0 || !strings.HasPrefix(cand[0], "init") {
				cand = append([]string{out.ops[0]}, cand...)
			}
			r := replayOps(t, cand)
			if wantMonitor {
				return r.monitor != ""
			}
			compare(&r, drv)
			return r.monitor == "" && r.mismatch != ""
		}
		min := hx.Shrink(out.ops, fails)
		if len(min) == 0 || !strings.HasPrefix(min[0], "init") {
			min = append([]string{out.ops[0]}, min...)
		}
		r := replayOps(t, min)
		if r.monitor == "" {
			compare(&r, drv)
		}
		if r.monitor == "" && r.mismatch == "" { // shrinking lost it: report the original
			r, min = out, out.ops
		}
		f := hx.Finding{Property: "C08", History: min}
		if r.monitor != "" {
			f.Kind, f.What, f.Name = "violation", r.monitor, "C08 monitor on the request / Execute timeline of BuildClient"
			f.Sig = hx.Sig("C08", "buildclient", "violation", strings.SplitN(r.monitor, ":", 2)[0])
		} else {
			f.Kind, f.What, f.Name = "mismatch", r.mismatch, "correspondence Model/BuildClient.lean <-> pkg/builder/build_client.go (theorems of Properties/C08.lean)"
			f.Expected, f.Actual = r.expected, r.actual
			f.Sig = hx.Sig("C08", "buildclient", "mismatch", strings.Join(min, ";"))
		}
		res.Report(f)
	}

	if o.Replay != "" {
		f, err := hx.LoadReplay(o.Replay)
		if err != nil {
			fmt.Fprintln(os.Stderr, err)
			os.Exit(3)
		}
		out := replayOps(t, f.History)
		if out.monitor == "" {
			compare(&out, drv)
		}
		res.Evaluations = len(out.ops)
		if out.monitor != "" || out.mismatch != "" {
			report(out)
		}
		res.ModelLines = drv.Lines
		res.Write(o)
		return
	}

	histories := 1500 * o.Scale
	if o.Tier == "thorough" {
		histories = 12000 * o.Scale
	}
	// hx.NewRand(k) is the stream of NewRand(1) shifted by k-1 draws: spread the seeds
	mix := o.Seed + 0x9E3779B97F4A7C15
	mix = (mix ^ (mix >> 30)) * 0xBF58476D1CE4E5B9
	mix = (mix ^ (mix >> 27)) * 0x94D049BB133111EB
	rng := hx.NewRand(mix ^ (mix >> 31))
	// A model/implementation disagreement does not end the search: the remaining
	// histories are still run for a failing input of the property itself.
	haveViolation, haveMismatch := false, false
	for h := 0; h < histories && !haveViolation; h++ {
		mode := 0
		if rng.Chance(1, 3) {
			mode = 1
		}
		g := &gen{r: rng, left: 15 + rng.Intn(90)}
		if rng.Chance(1, 10) {
			g.left = 250
		}
		out := runReal(t, mode, g.next)
		if out.monitor == "" && !haveMismatch {
			compare(&out, drv)
		}
		res.Histogram["long-poll-then-shutdown-plans"] += g.longPolls
		res.Histogram["bursts-of-9-10-11-pending-at-return"] += g.fullBursts
		res.Evaluations += len(out.ops)
		res.TracesVsImpl++
		res.Count(fmt.Sprintf("mode-%d", mode))
		for k := range out.flags {
			res.Count("history-with-" + k)
		}
		keys := make([]string, 0, len(out.counts))
		for k := range out.counts {
			keys = append(keys, k)
		}
		sort.Strings(keys)
		for _, k := range keys {
			res.Histogram[k] += out.counts[k]
		}
		res.History(out.ops, out.flags["start"] && out.flags["preempt"] && out.flags["shutdown-sync"])
		if out.monitor != "" {
			haveViolation = true
			report(out)
		} else if out.mismatch != "" && !haveMismatch {
			haveMismatch = true
			report(out)
		}
	}
	res.ModelLines = drv.Lines
	res.Write(o)
}
