// Package buildclient is the correspondence harness of property C08: it drives
// the real builder.BuildClient (pkg/builder/build_client.go) with a scripted
// scheduler, an instrumented BuildExecutor and a fake clock inside
// testing/synctest bubbles, judges the recorded request / Execute timeline with
// a monitor and compares every step with the Lean model (drv_buildclient).
// The harness itself is harness_test.go (it needs testing/synctest).
package buildclient
