// Package fileref ties lean/BbRe/Model/FileRef.lean to
// pkg/filesystem/virtual/pool_backed_file_allocator.go behind the FUSE and NFS
// handle allocators (C16: writable files live exactly as long as referenced;
// uploads match) and decides the property on the implementation's own trace.
//
// The real virtual.NewPoolBackedFileAllocator runs over an instrumented file
// pool, bare (cfg 0) or wrapped by NewHandleAllocatingFileAllocator with the
// FUSE (cfg 1) or NFS (cfg 2) handle allocator, exactly like
// virtualBuildDirectory.InstallHooks composes them; uploads go through
// VirtualApply(&ApplyUploadFile{...}) like virtualBuildDirectory.UploadFile, into
// a fake CAS whose Put blocks until the harness completes it. Every history runs
// in a testing/synctest bubble, one lock-held segment at a time; calls that can
// block (write/allocate/size change/O_TRUNC behind frozen readers, uploads and
// frozen opens behind writers) run in their own goroutine ("thread" t).
//
// History ops (f = file 0..2, t = fresh thread id, bytes = `.`-separated decimals or `-`):
//
//	new f cfg r w x size | fire k
//	f link | f unlink | f open r w | f close r w | f read off len | f seek off
//	f getattr | f setperm x | f chown | f persist | f resolve | f fault kind v
//	f write t off bytes | f alloc t off len | f setattr t size x|- | f opentrunc t r w
//	f ubegin t upload k|- fn [c] | f ucancel t | f putdone t ok | f fread t off len | f fclose t | f stat t fn
//	f putchain t1 t2 upload k|- fn   (complete the Put of upload t1 and start upload / frozen open t2
//	                                  from the goroutine that has just closed t1's frozen file)
//	f openattr   (cfg 1/2: OPENATTR createdir + one attribute file; not part of the model)
//
// `c` / `ucancel`: the context passed to ApplyUploadFile is cancelled before the upload
// starts / while it waits for writers / while it is inside Put (the fake CAS then fails the
// Put like a real BlobAccess; for the model that is `putdone t 0`).
//
// The wake-ups of parked calls are not ops: after every op the implementation
// runs until all goroutines are durably blocked, and the model takes its enabled
// `mwake`/`uwake` steps (any order of the wake-ups of one segment is a legal
// model run; the harness looks for an order that explains what it observed).
// Ops that are disabled or violate the caller contract in the model's current
// state (for instance after shrinking) are skipped on both sides. Every history
// ends with an implicit finalisation: pending Puts complete, frozen readers are
// closed, all descriptors are closed and all links removed.
package fileref

import (
	"bytes"
	"context"
	"fmt"
	"os"
	"runtime"
	"sort"
	"strconv"
	"strings"
	"sync"
	"sync/atomic"
	"testing"
	"testing/synctest"
	"time"

	remoteexecution "github.com/bazelbuild/remote-apis/build/bazel/remote/execution/v2"
	"github.com/buildbarn/bb-remote-execution/pkg/filesystem/pool"
	"github.com/buildbarn/bb-remote-execution/pkg/filesystem/virtual"
	bazeloutputservicerev2 "github.com/buildbarn/bb-remote-execution/pkg/proto/bazeloutputservice/rev2"
	"github.com/buildbarn/bb-remote-execution/pkg/proto/outputpathpersistency"
	"github.com/buildbarn/bb-storage/pkg/clock"
	"github.com/buildbarn/bb-storage/pkg/digest"
	"github.com/buildbarn/bb-storage/pkg/filesystem"
	"github.com/buildbarn/bb-storage/pkg/filesystem/path"
	"github.com/buildbarn/bb-storage/pkg/random"
	"google.golang.org/grpc/codes"
	"google.golang.org/grpc/status"

	"verifharness/internal/hx"
)

const (
	maxFiles   = 3
	maxOps     = 200
	maxParked  = 3 // parked calls per file
	maxThreads = 6 // live threads per file
)

var digestFns = [2]digest.Function{
	digest.MustNewFunction("verif", remoteexecution.DigestFunction_SHA256),
	digest.MustNewFunction("verif", remoteexecution.DigestFunction_MD5),
}

func digestOfBytes(fn int, b []byte) digest.Digest {
	g := digestFns[fn].NewGenerator(int64(len(b)))
	g.Write(b)
	return g.Sum()
}

// digTok is the canonical form of a digest: function (by hash length), hash, size.
func digTok(d digest.Digest) string {
	if d == digest.BadDigest {
		return "-"
	}
	fn := 0
	if len(d.GetHashString()) == 32 {
		fn = 1
	}
	return fmt.Sprintf("%d:%s:%d", fn, d.GetHashString(), d.GetSizeBytes())
}

func parseBytes(w string) ([]byte, bool) {
	if w == "-" {
		return nil, true
	}
	var out []byte
	for _, p := range strings.Split(w, ".") {
		n, err := strconv.Atoi(p)
		if err != nil || n < 0 || n > 255 {
			return nil, false
		}
		out = append(out, byte(n))
	}
	return out, true
}

func showBytes(b []byte) string {
	if len(b) == 0 {
		return "-"
	}
	ps := make([]string, len(b))
	for i, x := range b {
		ps[i] = strconv.Itoa(int(x))
	}
	return strings.Join(ps, ".")
}

// modelDigestTok turns the model's `fn:bytes` into the canonical digest token.
func modelDigestTok(w string) string {
	if w == "none" || w == "-" {
		return w
	}
	fnS, bS, ok := strings.Cut(w, ":")
	fn, err := strconv.Atoi(fnS)
	b, ok2 := parseBytes(bS)
	if !ok || err != nil || !ok2 || fn < 0 || fn > 1 {
		return "unparsable(" + w + ")"
	}
	return digTok(digestOfBytes(fn, b))
}

func statusTok(s virtual.Status) string {
	switch s {
	case virtual.StatusOK:
		return "ok"
	case virtual.StatusErrStale:
		return "stale"
	case virtual.StatusErrIO:
		return "io"
	case virtual.StatusErrPerm:
		return "perm"
	case virtual.StatusErrNXIO:
		return "nxio"
	}
	return fmt.Sprintf("status%d", int(s))
}

func errTok(err error) string {
	switch status.Code(err) {
	case codes.NotFound:
		return "notfound"
	case codes.Internal:
		return "internal"
	}
	return "puterr"
}

func b2i(b bool) int {
	if b {
		return 1
	}
	return 0
}

// ---- world ----

type fileW struct {
	idx, cfg int
	leaf     virtual.LinkableLeaf
	ff       *fakeFile
	na       *fakeNamedAttributes
	fh       []byte
	nfs      *virtual.NFSStatefulHandleAllocator
	threads  []*thread

	// what the harness itself holds on the file (for the monitor)
	links, rbits, wbits int
	atRelease           map[int][]byte // upload -> pool file contents when its Put was released
	holders             map[int]int    // thread holding a frozen reader -> mutation counter when it got it
	prevClosed          bool
	attrFiles           []*fakeFile // pool files of the named attributes of this file
}

// content is what the (harness-owned) pool file holds right now.
func (f *fileW) content() []byte {
	d, _, _, _ := f.ff.snapshot()
	return d
}

func (f *fileW) dead() bool {
	return f.links == 0 && f.rbits == 0 && f.wbits == 0 && len(f.holders) == 0
}

type thread struct {
	id, f int
	kind  string // write alloc setattr opentrunc upload frozen stat
	fn, k int
	off   int
	n     int
	data  []byte
	r, w  bool

	mu     sync.Mutex
	done   bool
	tok    string
	pan    string
	reader filesystem.FileReader
	dig    digest.Digest

	cancel    context.CancelFunc
	chain     func() // run in this thread's goroutine right after its call returned
	mutSnap   int    // frozen open: mutation counter of the pool file when the reader was returned (-1: unset)
	cancelled bool
	accounted bool
	advanced  bool // upload/frozen: got past the wait for writers
	retired   bool
}

func (th *thread) state() (done bool, tok string) {
	th.mu.Lock()
	defer th.mu.Unlock()
	return th.done, th.tok
}

type outcome struct {
	panicMsg string // first Go panic of the implementation (witness mode)
	hang     bool   // the monitor failure is a call that never terminates
	monitor  string
	mismatch string
	expected string
	actual   string
	flags    map[string]bool
	steps    int
	executed []string
	aborted  bool // the history left the caller contract; nothing is judged after that
}

type runner struct {
	drv      *hx.Driver
	alloc    [3]virtual.FileAllocator
	nfs      *virtual.NFSStatefulHandleAllocator
	pool     *fakePool
	nafs     [3]*fakeNamedAttributesFactory
	cas      *fakeCAS
	delays   *delays
	files    map[int]*fileW
	threads  map[int]*thread
	mtok     map[int]string // last model token of a live thread
	out      *outcome
	stopCmp  bool
	illegal  bool // witness mode: ops outside the caller contract are executed too
	panicked bool
}

var progress atomic.Int64
var currentHistory atomic.Value

func (r *runner) fail(format string, a ...any) {
	if r.out.monitor == "" {
		r.out.monitor = fmt.Sprintf(format, a...)
	}
}

// failHang: the violation is "a call never terminates" (also judged by C14).
func (r *runner) failHang(format string, a ...any) {
	if r.out.monitor == "" {
		r.out.hang = true
	}
	r.fail(format, a...)
}

func (r *runner) mismatch(what, expected, actual string) {
	if r.out.mismatch == "" {
		r.out.mismatch, r.out.expected, r.out.actual = what, expected, actual
	}
	r.stopCmp = true
}

func (r *runner) ask(line string) string {
	a, err := r.drv.Ask(line)
	if err != nil {
		return "driver-error " + err.Error()
	}
	return a
}

// call runs body in its own goroutine up to the end of the segment.
func (r *runner) call(body func() string) (tok string, done bool) {
	th := &thread{}
	r.spawn(th, body)
	synctest.Wait()
	progress.Add(1)
	d, t := th.state()
	return t, d
}

func (r *runner) spawn(th *thread, body func() string) {
	go r.runInline(th, body)
}

// runInline runs a call in the current goroutine; a chained call (`putchain`) follows
// in the same goroutine as soon as the result has been recorded.
func (r *runner) runInline(th *thread, body func() string) {
	func() {
		defer func() {
			if p := recover(); p != nil {
				th.mu.Lock()
				th.pan, th.tok, th.done = fmt.Sprint(p), "panic", true
				th.mu.Unlock()
			}
		}()
		tok := body()
		th.mu.Lock()
		th.tok, th.done = tok, true
		th.mu.Unlock()
	}()
	th.mu.Lock()
	c := th.chain
	th.chain = nil
	th.mu.Unlock()
	if c != nil {
		c()
	}
}

// uploadBody is virtualBuildDirectory.UploadFile's VirtualApply(&ApplyUploadFile{...}).
func (r *runner) uploadBody(f *fileW, th *thread, uctx context.Context) func() string {
	return func() string {
		p := virtual.ApplyUploadFile{
			Context:                   uctx,
			ContentAddressableStorage: r.cas,
			DigestFunction:            digestFns[th.fn],
			WritableFileUploadDelay:   r.delays.channel(th.k),
		}
		if !f.leaf.VirtualApply(&p) {
			return "unhandled"
		}
		if p.Err != nil {
			return errTok(p.Err)
		}
		th.mu.Lock()
		th.dig = p.Digest
		th.mu.Unlock()
		return "digest " + digTok(p.Digest)
	}
}

func (r *runner) frozenBody(f *fileW, th *thread) func() string {
	return func() string {
		p := virtual.ApplyOpenReadFrozen{WritableFileDelay: r.delays.channel(th.k)}
		if !f.leaf.VirtualApply(&p) {
			return "unhandled"
		}
		if p.Err != nil {
			return errTok(p.Err)
		}
		_, _, _, mut := f.ff.snapshot()
		th.mu.Lock()
		th.reader = p.Reader
		th.mutSnap = mut
		th.mu.Unlock()
		return "opened"
	}
}

const attrMaskBase = virtual.AttributesMaskSizeBytes | virtual.AttributesMaskPermissions | virtual.AttributesMaskChangeID

func (f *fileW) attrMask() virtual.AttributesMask {
	if f.cfg == 0 {
		return attrMaskBase
	}
	return attrMaskBase | virtual.AttributesMaskLinkCount
}

func (f *fileW) attrsTok(a *virtual.Attributes) string {
	size, _ := a.GetSizeBytes()
	perm, _ := a.GetPermissions()
	links, chg := "_", "_"
	if f.cfg != 0 {
		links = strconv.Itoa(int(a.GetLinkCount()))
	}
	if f.cfg != 2 {
		chg = strconv.FormatUint(a.GetChangeID(), 10)
	}
	return fmt.Sprintf("attrs %d %d %s %s", size, b2i(perm&virtual.PermissionsExecute != 0), links, chg)
}

// canonModelTok rewrites a model output token into the form the implementation side produces.
func (f *fileW) canonModelTok(tok string) string {
	ws := strings.Fields(tok)
	if len(ws) == 0 {
		return tok
	}
	switch ws[0] {
	case "attrs":
		if len(ws) == 5 {
			if f.cfg == 0 {
				ws[3] = "_"
			}
			if f.cfg == 2 {
				ws[4] = "_"
			}
		}
	case "putting", "digest":
		if len(ws) == 2 {
			ws[1] = modelDigestTok(ws[1])
		}
	}
	return strings.Join(ws, " ")
}

func mask(rb, wb bool) virtual.ShareMask {
	var m virtual.ShareMask
	if rb {
		m |= virtual.ShareMaskRead
	}
	if wb {
		m |= virtual.ShareMaskWrite
	}
	return m
}

// implTok is what the harness can see of a thread at the end of a segment.
func (r *runner) implTok(th *thread) string {
	if done, tok := th.state(); done {
		return tok
	}
	if c := r.cas.pendingOf(th.id); c != nil {
		return "putting " + digTok(c.d)
	}
	return "parked"
}

func (r *runner) implDump(f *fileW) string {
	st, ok := virtual.VerifDumpFileBackedFile(f.leaf)
	if !ok {
		return "no-hook"
	}
	data, closes, _, _ := f.ff.snapshot()
	links := "_"
	if f.cfg != 0 {
		links = strconv.FormatInt(st.LinkCount, 10)
	}
	var pcs []string
	byID := append([]*thread(nil), f.threads...)
	sort.Slice(byID, func(i, j int) bool { return byID[i].id < byID[j].id })
	for _, th := range byID {
		if th.retired {
			continue
		}
		if done, _ := th.state(); done {
			if th.kind == "frozen" && th.reader != nil {
				pcs = append(pcs, fmt.Sprintf("%d:held", th.id))
			}
			continue
		}
		if r.cas.pendingOf(th.id) != nil {
			pcs = append(pcs, fmt.Sprintf("%d:uput", th.id))
		} else if th.kind == "upload" || th.kind == "frozen" {
			pcs = append(pcs, fmt.Sprintf("%d:uwait", th.id))
		} else {
			pcs = append(pcs, fmt.Sprintf("%d:mwait", th.id))
		}
	}
	nStored := 0
	r.cas.mu.Lock()
	for _, b := range r.cas.stored {
		if t, ok := r.threads[b.t]; ok && t.f == f.idx {
			nStored++
		}
	}
	r.cas.mu.Unlock()
	return fmt.Sprintf("refs=%d writers=%d frozen=%d closed=%d closes=%d links=%s x=%d chg=%d cached=%s bytes=%s pcs=%s cas=%d panic=%d",
		st.ReferenceCount, st.WritableDescriptorsCount, st.FrozenDescriptorsCount, b2i(st.Closed), closes, links,
		b2i(st.IsExecutable), st.ChangeID, digTok(st.CachedDigest), showBytes(data), strings.Join(pcs, ","), nStored, b2i(r.anyPanic()))
}

func (r *runner) anyPanic() bool {
	for _, th := range r.threads {
		if _, tok := th.state(); tok == "panic" {
			return true
		}
	}
	return r.panicked
}

// canonModelDump drops the ghost counters and rewrites digests / wait flags.
func (f *fileW) canonModelDump(d string) string {
	var out []string
	for _, kv := range strings.Fields(d) {
		k, v, _ := strings.Cut(kv, "=")
		switch k {
		case "rd", "wr":
			continue
		case "links":
			if f.cfg == 0 {
				v = "_"
			}
		case "cached":
			v = modelDigestTok(v)
		case "pcs":
			v = strings.NewReplacer("mwait0", "mwait", "mwait1", "mwait", "uwait0", "uwait", "uwait1", "uwait").Replace(v)
		}
		out = append(out, k+"="+v)
	}
	return strings.Join(out, " ")
}

// ---- model side ----

// modelOp sends one op of file f to the model, records the token of its thread and
// performs the steps that follow without a blocking point (digest computation).
func (r *runner) modelOp(f *fileW, op string, t int) (tok, dump string) {
	a := r.ask(fmt.Sprintf("op %d %s", f.idx, op))
	tok, dump, _ = strings.Cut(a, " | ")
	if t >= 0 {
		if th := r.threads[t]; th != nil {
			switch {
			case tok == "opened" && th.kind == "upload":
				return r.modelOp(f, fmt.Sprintf("udigest %d", t), t)
			case tok == "opened" && th.kind == "stat":
				return r.modelOp(f, fmt.Sprintf("statfinish %d", t), t)
			case strings.HasPrefix(tok, "putting") && th.cancelled:
				// the Put of an upload whose context is done fails right away
				return r.modelOp(f, fmt.Sprintf("putdone %d 0", t), t)
			}
		}
		r.mtok[t] = f.canonModelTok(tok)
	}
	return tok, dump
}

func (r *runner) wakeThread(w string) int {
	ws := strings.Fields(w)
	if len(ws) < 2 {
		return -1
	}
	t, _ := strconv.Atoi(ws[1])
	return t
}

// agrees says whether the model state of file f equals what the implementation shows.
func (r *runner) agrees(f *fileW) (bool, string, string) {
	for _, th := range f.threads {
		if th.retired {
			continue
		}
		m, ok := r.mtok[th.id]
		if !ok {
			continue
		}
		if i := r.implTok(th); i != m {
			return false, fmt.Sprintf("thread %d: %s", th.id, m), fmt.Sprintf("thread %d: %s", th.id, i)
		}
	}
	md := f.canonModelDump(r.ask(fmt.Sprintf("dump %d", f.idx)))
	id := r.implDump(f)
	if md != id {
		return false, md, id
	}
	return true, "", ""
}

func permutations(xs []string) [][]string {
	if len(xs) <= 1 {
		return [][]string{append([]string(nil), xs...)}
	}
	var out [][]string
	for i := range xs {
		rest := append(append([]string(nil), xs[:i]...), xs[i+1:]...)
		for _, p := range permutations(rest) {
			out = append(out, append([]string{xs[i]}, p...))
		}
	}
	return out
}

// settle lets the model take its enabled wake steps of file f. The order in which
// goroutines woken by one close(channel) re-take the mutex is the Go scheduler's
// choice: with several enabled wake-ups every order is tried until one explains
// the implementation's state.
func (r *runner) settle(f *fileW) {
	for iter := 0; iter < 16; iter++ {
		w := r.ask(fmt.Sprintf("wakes %d", f.idx))
		if w == "-" || strings.HasPrefix(w, "bad-op") || strings.HasPrefix(w, "driver-error") {
			return
		}
		list := strings.Split(w, ";")
		for _, x := range list {
			if l := r.ask(fmt.Sprintf("legal %d %s", f.idx, x)); l == "no" && !r.illegal {
				// a parked call resumes outside the caller contract (its descriptor
				// or directory entry is gone): the history is not judged any further
				r.out.aborted = true
				r.stopCmp = true
				return
			}
		}
		if len(list) == 1 {
			for _, x := range list {
				r.modelOp(f, x, r.wakeThread(x))
			}
			continue
		}
		if len(list) > 6 {
			// More simultaneous wake-ups than orders worth trying (7! and up): which order the Go
			// scheduler picks is not determined, and asserting the list order would be a false
			// alarm (a thorough shard with five parked mutators was reported that way while the
			// limit was four).  The history is not compared any further; the monitors still judge it.
			r.out.flags["multi-wake-too-many"] = true
			r.out.aborted = true
			r.stopCmp = true
			return
		}
		r.out.flags["multi-wake"] = true
		r.ask("save")
		saved := map[int]string{}
		for k, v := range r.mtok {
			saved[k] = v
		}
		found := false
		perms := permutations(list)
		for pi, p := range perms {
			if pi > 0 {
				r.ask("restore")
				r.mtok = map[int]string{}
				for k, v := range saved {
					r.mtok[k] = v
				}
			}
			for _, x := range p {
				r.modelOp(f, x, r.wakeThread(x))
			}
			r.settle(f)
			if ok, _, _ := r.agrees(f); ok {
				found = true
				break
			}
		}
		if !found {
			r.ask("restore")
			r.mtok = saved
			for _, x := range list {
				r.modelOp(f, x, r.wakeThread(x))
			}
			continue
		}
		return
	}
}

// ---- monitor (implementation trace and what the harness itself holds only) ----

func (r *runner) accountThreads(f *fileW) {
	// pass 1: which uploads / frozen opens got past the wait for writers in this segment
	for _, th := range f.threads {
		if th.retired {
			continue
		}
		done, tok := th.state()
		isUp := th.kind == "upload" || th.kind == "frozen"
		if isUp && !th.advanced {
			pending := r.cas.pendingOf(th.id) != nil
			if done || pending {
				th.advanced = true
				// it got past the wait for writers in this segment
				if f.wbits > 0 && !(th.k >= 0 && r.delays.fired[th.k]) && !(done && tok == "panic") {
					r.fail("file %d: upload/frozen open %d proceeded while %d writable descriptor(s) are open and its delay channel did not fire", f.idx, th.id, f.wbits)
				}
				if f.wbits > 0 {
					r.out.flags["upload-timeout-branch"] = true
				}
			} else {
				if f.wbits == 0 {
					r.failHang("file %d: upload/frozen open %d is blocked although no writable descriptor is open", f.idx, th.id)
				} else if th.k >= 0 && r.delays.fired[th.k] {
					r.failHang("file %d: upload/frozen open %d is still blocked after its delay channel fired", f.idx, th.id)
				}
				r.out.flags["upload-parked"] = true
			}
			// the contents must not change from the moment the call froze the file
			if c := r.cas.pendingOf(th.id); c != nil {
				_, _, _, mut := f.ff.snapshot()
				if c.mut >= 0 {
					mut = c.mut
				}
				f.holders[th.id] = mut
			}
			if done && th.kind == "frozen" && tok == "opened" {
				_, _, _, mut := f.ff.snapshot()
				if th.mutSnap >= 0 {
					mut = th.mutSnap
				}
				f.holders[th.id] = mut
			}
		}
	}
	// pass 2: results of the calls that returned
	for _, th := range f.threads {
		if th.retired {
			continue
		}
		done, tok := th.state()
		ws := strings.Fields(tok)
		isUp := th.kind == "upload" || th.kind == "frozen"
		if !done {
			if !isUp {
				if len(f.holders) == 0 {
					r.failHang("file %d: %s call %d is blocked although the file has no frozen reader", f.idx, th.kind, th.id)
				}
				r.out.flags["mutator-parked"] = true
			}
			continue
		}
		if th.accounted {
			continue
		}
		th.accounted = true
		if tok == "panic" {
			r.panicked = true
			if r.out.panicMsg == "" {
				r.out.panicMsg = fmt.Sprintf("%s call %d of file %d: %s", th.kind, th.id, f.idx, th.pan)
			}
			if !r.illegal {
				r.fail("file %d: %s call %d panicked: %s", f.idx, th.kind, th.id, th.pan)
			}
			continue
		}
		if !isUp && th.kind != "stat" && (tok == "stale" || tok == "wrote 0 stale") {
			r.out.flags["mutator-stale-after-last-reference"] = true
		}
		endHold := func() { delete(f.holders, th.id) }
		switch th.kind {
		case "opentrunc":
			if ws[0] == "attrs" {
				f.rbits += b2i(th.r)
				f.wbits += b2i(th.w)
			}
		case "upload":
			endHold()
			if ws[0] == "digest" {
				r.out.flags["upload-ok"] = true
				blob := r.cas.storedOf(th.id)
				switch {
				case blob == nil:
					r.fail("file %d: upload %d returned digest %s but the CAS did not receive a blob", f.idx, th.id, digTok(th.dig))
				case blob.d != th.dig:
					r.fail("file %d: upload %d returned digest %s but stored the blob under %s", f.idx, th.id, digTok(th.dig), digTok(blob.d))
				case digestOfBytes(th.fn, blob.data) != th.dig:
					r.fail("file %d: upload %d reported digest %s but the bytes handed to the CAS (%s) have digest %s", f.idx, th.id, digTok(th.dig), showBytes(blob.data), digTok(digestOfBytes(th.fn, blob.data)))
				case !bytes.Equal(blob.data, f.atRelease[th.id]):
					r.fail("file %d: upload %d stored %s but the file contained %s", f.idx, th.id, showBytes(blob.data), showBytes(f.atRelease[th.id]))
				}
			}
		case "frozen":
			if tok == "opened" {
				continue // stays live until fclose
			}
		case "stat":
			if ws[0] == "digest" && ws[1] != "none" {
				r.out.flags["stat-digest"] = true
				if want := digTok(digestOfBytes(th.fn, f.content())); ws[1] != want {
					r.fail("file %d: the output service stat reported digest %s but the file contains %s (digest %s)", f.idx, ws[1], showBytes(f.content()), want)
				}
			}
		}
		if th.kind != "frozen" {
			th.retired = true
			delete(r.mtok, th.id)
		}
	}
}

func (r *runner) monitorFile(f *fileW) {
	_, closes, after, _ := f.ff.snapshot()
	rel := f.na.count()
	if len(after) > 0 {
		r.fail("file %d: the pool file was accessed after Close(): %s", f.idx, strings.Join(after, ","))
	}
	want := 0
	if f.dead() {
		want = 1
	}
	if closes != want {
		if want == 1 {
			r.fail("file %d: the last reference (directory entry, descriptor, frozen reader) is gone but the pool file was closed %d times", f.idx, closes)
		} else {
			r.fail("file %d: the pool file was closed %d time(s) while the file is still referenced (links=%d read bits=%d write bits=%d frozen readers=%d)", f.idx, closes, f.links, f.rbits, f.wbits, len(f.holders))
		}
	}
	if rel != closes {
		r.fail("file %d: named attributes released %d times, pool file closed %d times", f.idx, rel, closes)
	}
	for _, af := range f.attrFiles {
		_, ac, aafter, _ := af.snapshot()
		if ac != want || len(aafter) > 0 {
			r.fail("file %d: the pool file of its named attribute was closed %d times (expected %d), accesses after Close: %d", f.idx, ac, want, len(aafter))
		}
	}
	if closes == 1 && want == 1 && !f.prevClosed {
		f.prevClosed = true
		r.out.flags["closed-by-last-reference"] = true
	}
	if r.cas.bad != "" {
		r.fail("fake CAS: %s", r.cas.bad)
	}
}

func resize(b []byte, n int) []byte {
	if n <= len(b) {
		return append([]byte(nil), b[:n]...)
	}
	return append(append([]byte(nil), b...), make([]byte, n-len(b))...)
}

func writeAt(b []byte, off int, d []byte) []byte {
	out := append([]byte(nil), b...)
	if off+len(d) > len(out) {
		out = resize(out, off+len(d))
	}
	copy(out[off:], d)
	return out
}

// ---- executing one op ----

func atoi(s string) (int, bool) {
	n, err := strconv.Atoi(s)
	return n, err == nil && n >= 0
}

func flag(s string) (bool, bool) {
	switch s {
	case "0":
		return false, true
	case "1":
		return true, true
	}
	return false, false
}

func (r *runner) newFile(ws []string) bool {
	if len(ws) != 7 {
		return false
	}
	idx, ok1 := atoi(ws[1])
	cfg, ok2 := atoi(ws[2])
	rb, ok3 := flag(ws[3])
	wb, ok4 := flag(ws[4])
	x, ok5 := flag(ws[5])
	size, ok6 := atoi(ws[6])
	if !(ok1 && ok2 && ok3 && ok4 && ok5 && ok6) || idx >= maxFiles || cfg > 2 || size > 64 || r.files[idx] != nil {
		return false
	}
	var leaf virtual.LinkableLeaf
	var err error
	tok, done := r.call(func() string {
		leaf, err = r.alloc[cfg].NewFile(pool.ZeroHoleSource, x, uint64(size), mask(rb, wb))
		if err != nil {
			return "err"
		}
		return "ok"
	})
	if !done || tok != "ok" {
		r.fail("NewFile failed: %s %v", tok, err)
		return true
	}
	f := &fileW{idx: idx, cfg: cfg, leaf: leaf, ff: r.pool.last, na: r.nafs[cfg].last, links: 1,
		rbits: b2i(rb), wbits: b2i(wb), atRelease: map[int][]byte{}, holders: map[int]int{}}
	if cfg == 2 {
		f.nfs = r.nfs
		var a virtual.Attributes
		leaf.VirtualGetAttributes(context.Background(), virtual.AttributesMaskFileHandle, &a)
		f.fh = append([]byte(nil), a.GetFileHandle()...)
	}
	r.files[idx] = f
	if r.drv != nil && !r.stopCmp {
		a := r.ask(fmt.Sprintf("new %d %d %d %d %d %d", idx, b2i(cfg != 0), b2i(rb), b2i(wb), b2i(x), size))
		_, dump, _ := strings.Cut(a, " | ")
		if md, id := f.canonModelDump(dump), r.implDump(f); md != id {
			r.mismatch("FileRef correspondence (abstract state) after `"+strings.Join(ws, " ")+"`", md, id)
		}
	}
	r.monitorFile(f)
	r.out.flags[fmt.Sprintf("cfg%d", cfg)] = true
	return true
}

// ghostLegal is the caller contract judged on what the harness itself holds (used
// even when the model has lost track of a history): no close of share access that
// is not held, no unlink without a directory entry, no read/seek without a
// descriptor. The mutating calls need nothing from the caller (fix 17054c0): they
// may be issued on, and may resume on, a file whose last reference is gone.
func (r *runner) ghostLegal(f *fileW, name string, args []string) bool {
	bits := f.rbits + f.wbits
	switch name {
	case "unlink":
		return f.links > 0
	case "close":
		if len(args) != 2 {
			return false
		}
		rb, wb := b2i(args[0] == "1"), b2i(args[1] == "1")
		return rb+wb > 0 && rb <= f.rbits && wb <= f.wbits
	case "read", "seek":
		return bits > 0
	}
	return true
}

// apply executes one history op; false = skipped (malformed, disabled, or outside the contract).
func (r *runner) apply(op string) bool {
	ws := strings.Fields(op)
	if len(ws) == 0 {
		return false
	}
	r.out.steps++
	if ws[0] == "new" {
		return r.newFile(ws)
	}
	if ws[0] == "fire" {
		if len(ws) != 2 {
			return false
		}
		k, ok := atoi(ws[1])
		if !ok || k > 1 || r.delays.fired[k] {
			return false
		}
		r.delays.fire(k)
		synctest.Wait()
		progress.Add(1)
		if r.drv != nil && !r.stopCmp {
			r.ask(fmt.Sprintf("fire %d", k))
		}
		r.afterSegment(nil, "fire", "", "", op)
		r.out.flags["fire"] = true
		return true
	}
	idx, ok := atoi(ws[0])
	if !ok || len(ws) < 2 {
		return false
	}
	f := r.files[idx]
	if f == nil {
		return false
	}
	name, args := ws[1], ws[2:]
	ctx := context.Background()
	if name == "putchain" {
		return r.applyChain(f, args, op)
	}

	// the op as the model driver spells it, and its thread
	mop, t := strings.Join(ws[1:], " "), -1
	switch name {
	case "stat":
		mop = "statopen " + strings.Join(args, " ")
	case "resolve":
		mop = "getattr"
	case "openattr":
		mop = "getattr" // named attributes are not part of the model
	case "ubegin":
		if len(args) == 5 && args[4] == "c" {
			mop = "ubegin " + strings.Join(args[:4], " ")
		}
	}
	switch name {
	case "write", "alloc", "setattr", "opentrunc", "ubegin", "putdone", "fread", "fclose", "stat", "ucancel":
		if len(args) < 1 {
			return false
		}
		if t, ok = atoi(args[0]); !ok {
			return false
		}
	}
	isNewThread := false
	switch name {
	case "write", "alloc", "setattr", "opentrunc", "ubegin", "stat":
		isNewThread = true
		if r.threads[t] != nil {
			return false
		}
	case "putdone", "fread", "fclose", "ucancel":
		if th := r.threads[t]; th == nil || th.f != idx || th.retired {
			return false
		}
	}
	if name == "ucancel" {
		// cancelling the context of an upload: for the model nothing happens while the upload
		// waits for writers; an upload inside Put sees its Put fail (= `putdone t 0`)
		th := r.threads[t]
		if done, _ := th.state(); th.kind != "upload" || th.cancelled || done || th.cancel == nil {
			return false
		}
		mop = ""
		if r.cas.pendingOf(t) != nil {
			mop = fmt.Sprintf("putdone %d 0", t)
		}
	}
	if mop != "" && r.drv != nil && !r.stopCmp {
		switch l := r.ask(fmt.Sprintf("legal %d %s", idx, mop)); l {
		case "yes":
		case "no":
			if !r.illegal {
				return false
			}
		default:
			return false // disabled or malformed
		}
	}
	if !r.illegal && !r.ghostLegal(f, name, args) {
		return false
	}
	wasDead := f.dead()

	// ---- implementation ----
	var itok string
	var th *thread
	if isNewThread {
		th = &thread{id: t, f: idx, kind: name, k: -1, mutSnap: -1}
	}
	switch name {
	case "link":
		itok, _ = r.call(func() string { return statusTok(f.leaf.Link()) })
		if itok == "ok" {
			f.links++
		}
		if wasDead && itok != "stale" {
			r.fail("file %d: Link on a file whose last reference is gone returned %s", idx, itok)
		}
	case "unlink":
		f.links--
		itok, _ = r.call(func() string { f.leaf.Unlink(); return "ok" })
	case "open":
		if len(args) != 2 {
			return false
		}
		rb, ok1 := flag(args[0])
		wb, ok2 := flag(args[1])
		if !ok1 || !ok2 {
			return false
		}
		itok, _ = r.call(func() string {
			var a virtual.Attributes
			if s := f.leaf.VirtualOpenSelf(ctx, mask(rb, wb), &virtual.OpenExistingOptions{}, f.attrMask(), &a); s != virtual.StatusOK {
				return statusTok(s)
			}
			return f.attrsTok(&a)
		})
		if strings.HasPrefix(itok, "attrs") {
			f.rbits += b2i(rb)
			f.wbits += b2i(wb)
		}
		if wasDead && itok != "stale" {
			r.fail("file %d: VirtualOpenSelf on a file whose last reference is gone returned %s", idx, itok)
		}
	case "close":
		if len(args) != 2 {
			return false
		}
		rb, ok1 := flag(args[0])
		wb, ok2 := flag(args[1])
		if !ok1 || !ok2 {
			return false
		}
		f.rbits -= b2i(rb)
		f.wbits -= b2i(wb)
		itok, _ = r.call(func() string { f.leaf.VirtualClose(mask(rb, wb)); return "ok" })
	case "read":
		if len(args) != 2 {
			return false
		}
		off, ok1 := atoi(args[0])
		n, ok2 := atoi(args[1])
		if !ok1 || !ok2 || n > 64 {
			return false
		}
		itok, _ = r.call(func() string {
			buf := make([]byte, n)
			got, eof, s := f.leaf.VirtualRead(ctx, buf, uint64(off))
			if s != virtual.StatusOK {
				return statusTok(s)
			}
			return fmt.Sprintf("data %s %d", showBytes(buf[:got]), b2i(eof))
		})
		if iw := strings.Fields(itok); len(iw) == 3 && iw[0] == "data" {
			want, cont := []byte{}, f.content()
			if off < len(cont) {
				want = cont[off:min(len(cont), off+n)]
			}
			if iw[1] != showBytes(want) {
				r.fail("file %d: VirtualRead(%d,%d) returned %s but the pool file holds %s there", idx, off, n, iw[1], showBytes(want))
			}
		}
	case "seek":
		if len(args) != 1 {
			return false
		}
		off, ok1 := atoi(args[0])
		if !ok1 {
			return false
		}
		itok, _ = r.call(func() string {
			_, s := f.leaf.VirtualSeek(ctx, uint64(off), filesystem.Data)
			return statusTok(s)
		})
	case "getattr":
		itok, _ = r.call(func() string {
			var a virtual.Attributes
			f.leaf.VirtualGetAttributes(ctx, f.attrMask(), &a)
			return f.attrsTok(&a)
		})
	case "resolve":
		if f.cfg != 2 {
			return false
		}
		itok, _ = r.call(func() string {
			child, s := f.nfs.ResolveHandle(bytes.NewReader(f.fh))
			if s != virtual.StatusOK {
				return statusTok(s)
			}
			if _, leaf := child.GetPair(); leaf != f.leaf {
				return "other-node"
			}
			return "ok"
		})
	case "setperm":
		if len(args) != 1 {
			return false
		}
		x, ok1 := flag(args[0])
		if !ok1 {
			return false
		}
		itok, _ = r.call(func() string {
			var in, out virtual.Attributes
			p := virtual.PermissionsRead | virtual.PermissionsWrite
			if x {
				p |= virtual.PermissionsExecute
			}
			in.SetPermissions(p)
			if s := f.leaf.VirtualSetAttributes(ctx, &in, f.attrMask(), &out); s != virtual.StatusOK {
				return statusTok(s)
			}
			return f.attrsTok(&out)
		})
	case "chown":
		itok, _ = r.call(func() string {
			var in, out virtual.Attributes
			in.SetOwnerUserID(1)
			return statusTok(f.leaf.VirtualSetAttributes(ctx, &in, f.attrMask(), &out))
		})
	case "persist":
		itok, _ = r.call(func() string {
			p := virtual.ApplyAppendOutputPathPersistencyDirectoryNode{
				Directory: &outputpathpersistency.Directory{}, Name: path.MustNewComponent("f")}
			if !f.leaf.VirtualApply(&p) {
				return "unhandled"
			}
			if len(p.Directory.Files) == 0 {
				return "digest none"
			}
			d := p.Directory.Files[0].Digest
			fn := 0
			if len(d.GetHash()) == 32 {
				fn = 1
			}
			return fmt.Sprintf("digest %d:%s:%d", fn, d.GetHash(), d.GetSizeBytes())
		})
		if iw := strings.Fields(itok); len(iw) == 2 && iw[0] == "digest" && iw[1] != "none" {
			r.out.flags["persist-digest"] = true
			fn, _ := strconv.Atoi(iw[1][:1])
			if want := digTok(digestOfBytes(fn, f.content())); iw[1] != want {
				r.fail("file %d: the cached digest %s was reported but the file contains %s (digest %s)", idx, iw[1], showBytes(f.content()), want)
			}
		}
	case "openattr":
		// OPENATTR with createdir + one attribute file (as macOS does for com.apple.* attributes)
		if f.cfg == 0 || wasDead {
			return false
		}
		r.call(func() string {
			var a, a2 virtual.Attributes
			dir, s := f.leaf.VirtualOpenNamedAttributes(ctx, true, 0, &a)
			if s != virtual.StatusOK {
				return statusTok(s)
			}
			if len(f.attrFiles) == 0 {
				leaf, _, _, s := dir.VirtualOpenChild(ctx, path.MustNewComponent("com.example.origin"), virtual.ShareMaskWrite,
					(&virtual.Attributes{}).SetPermissions(virtual.PermissionsRead|virtual.PermissionsWrite), nil, 0, &a2)
				if s != virtual.StatusOK {
					return statusTok(s)
				}
				f.attrFiles = append(f.attrFiles, r.pool.last)
				leaf.VirtualWrite(ctx, []byte("x"), 0)
				leaf.VirtualClose(virtual.ShareMaskWrite)
			}
			return "ok"
		})
		// the model is only asked for the attributes of the file, which must not have changed
		itok, _ = r.call(func() string {
			var a virtual.Attributes
			f.leaf.VirtualGetAttributes(ctx, f.attrMask(), &a)
			return f.attrsTok(&a)
		})
		r.out.flags["named-attributes"] = true
	case "ucancel":
		th := r.threads[t]
		if r.cas.pendingOf(t) != nil {
			if _, _, _, mut := f.ff.snapshot(); f.holders[t] != mut {
				r.fail("file %d: the contents changed (%d mutating pool calls) while upload %d had the file frozen", idx, mut-f.holders[t], t)
			}
			r.out.flags["cancel-during-put"] = true
		} else {
			r.out.flags["cancel-during-wait"] = true
		}
		th.cancelled = true
		th.cancel()
		synctest.Wait()
		progress.Add(1)
		itok = "ok"
	case "fault":
		if len(args) != 2 {
			return false
		}
		kind, ok1 := atoi(args[0])
		v, ok2 := atoi(args[1])
		if !ok1 || !ok2 || kind > 2 {
			return false
		}
		f.ff.mu.Lock()
		switch kind {
		case 0:
			f.ff.wf = v
		case 1:
			f.ff.tf = v != 0
		default:
			f.ff.rf = v != 0
		}
		f.ff.mu.Unlock()
		itok = "ok"
		r.out.flags["fault"] = true
	case "write":
		if len(args) != 3 {
			return false
		}
		off, ok1 := atoi(args[1])
		data, ok2 := parseBytes(args[2])
		if !ok1 || !ok2 || off > 64 || len(data) > 32 {
			return false
		}
		th.off, th.data = off, data
		r.spawn(th, func() string {
			n, s := f.leaf.VirtualWrite(ctx, append([]byte(nil), data...), uint64(off))
			return fmt.Sprintf("wrote %d %s", n, statusTok(s))
		})
	case "alloc":
		if len(args) != 3 {
			return false
		}
		off, ok1 := atoi(args[1])
		n, ok2 := atoi(args[2])
		if !ok1 || !ok2 || off+n > 96 {
			return false
		}
		th.off, th.n = off, n
		r.spawn(th, func() string { return statusTok(f.leaf.VirtualAllocate(ctx, uint64(off), uint64(n))) })
	case "setattr":
		if len(args) != 3 {
			return false
		}
		n, ok1 := atoi(args[1])
		hasX := args[2] != "-"
		x, ok2 := flag(args[2])
		if !ok1 || (hasX && !ok2) || n > 96 {
			return false
		}
		th.n = n
		r.spawn(th, func() string {
			var in, out virtual.Attributes
			in.SetSizeBytes(uint64(n))
			if hasX {
				p := virtual.PermissionsRead | virtual.PermissionsWrite
				if x {
					p |= virtual.PermissionsExecute
				}
				in.SetPermissions(p)
			}
			if s := f.leaf.VirtualSetAttributes(ctx, &in, f.attrMask(), &out); s != virtual.StatusOK {
				return statusTok(s)
			}
			return f.attrsTok(&out)
		})
	case "opentrunc":
		if len(args) != 3 {
			return false
		}
		rb, ok1 := flag(args[1])
		wb, ok2 := flag(args[2])
		if !ok1 || !ok2 {
			return false
		}
		th.r, th.w = rb, wb
		r.spawn(th, func() string {
			var a virtual.Attributes
			if s := f.leaf.VirtualOpenSelf(ctx, mask(rb, wb), &virtual.OpenExistingOptions{Truncate: true}, f.attrMask(), &a); s != virtual.StatusOK {
				return statusTok(s)
			}
			return f.attrsTok(&a)
		})
	case "ubegin":
		if len(args) != 4 && !(len(args) == 5 && args[4] == "c" && args[1] == "1") {
			return false
		}
		upload, ok1 := flag(args[1])
		k := -1
		ok2 := true
		if args[2] != "-" {
			k, ok2 = atoi(args[2])
		}
		fn, ok3 := atoi(args[3])
		if !ok1 || !ok2 || !ok3 || k > 1 || fn > 1 {
			return false
		}
		th.k, th.fn = k, fn
		if upload {
			th.kind = "upload"
			uctx, cancel := context.WithCancel(context.WithValue(context.WithValue(ctx, tidKey{}, t), ffKey{}, f.ff))
			th.cancel = cancel
			if len(args) == 5 {
				// the caller has already given up when the upload starts
				th.cancelled = true
				cancel()
				r.out.flags["cancel-before-upload"] = true
			}
			r.spawn(th, r.uploadBody(f, th, uctx))
		} else {
			th.kind = "frozen"
			r.spawn(th, r.frozenBody(f, th))
		}
	case "stat":
		if len(args) != 2 {
			return false
		}
		fn, ok1 := atoi(args[1])
		if !ok1 || fn > 1 {
			return false
		}
		th.fn = fn
		r.spawn(th, func() string {
			dfn := digestFns[fn]
			p := virtual.ApplyGetBazelOutputServiceStat{DigestFunction: &dfn}
			if !f.leaf.VirtualApply(&p) {
				return "unhandled"
			}
			if p.Err != nil {
				return errTok(p.Err)
			}
			loc := p.Stat.GetFile().GetLocator()
			if loc == nil {
				return "digest none"
			}
			var l bazeloutputservicerev2.FileArtifactLocator
			if err := loc.UnmarshalTo(&l); err != nil {
				return "bad-locator"
			}
			d, err := dfn.NewDigestFromProto(l.Digest)
			if err != nil {
				return "bad-locator-digest"
			}
			return "digest " + digTok(d)
		})
	case "putdone":
		if len(args) != 2 {
			return false
		}
		okF, ok1 := flag(args[1])
		c := r.cas.pendingOf(t)
		if !ok1 || c == nil {
			return false
		}
		// nothing runs between this check and the release of the Put: the contents
		// must not have changed since the upload froze the file
		if _, _, _, mut := f.ff.snapshot(); f.holders[t] != mut {
			r.fail("file %d: the contents changed (%d mutating pool calls) while upload %d had the file frozen", idx, mut-f.holders[t], t)
		}
		f.atRelease[t] = f.content()
		c.done <- okF
		r.out.flags["putdone-"+args[1]] = true
	case "fread":
		if len(args) != 3 {
			return false
		}
		off, ok1 := atoi(args[1])
		n, ok2 := atoi(args[2])
		ft := r.threads[t]
		if !ok1 || !ok2 || n > 64 || ft.reader == nil {
			return false
		}
		itok, _ = r.call(func() string {
			buf := make([]byte, n)
			got, err := ft.reader.ReadAt(buf, int64(off))
			if err != nil && got == 0 && err == errReadFault {
				return "io"
			}
			return fmt.Sprintf("data %s %d", showBytes(buf[:got]), b2i(err != nil))
		})
		if iw := strings.Fields(itok); len(iw) == 3 && iw[0] == "data" {
			want, cont := []byte{}, f.content()
			if off < len(cont) {
				want = cont[off:min(len(cont), off+n)]
			}
			if iw[1] != showBytes(want) {
				r.fail("file %d: frozen ReadAt(%d,%d) returned %s but the file contains %s", idx, off, n, iw[1], showBytes(want))
			}
		}
	case "fclose":
		ft := r.threads[t]
		if ft.reader == nil {
			return false
		}
		rd := ft.reader
		ft.reader = nil
		_, _, _, mut := f.ff.snapshot()
		if m0, ok := f.holders[t]; ok && m0 != mut {
			r.fail("file %d: the contents changed (%d mutating pool calls) while frozen reader %d was open", idx, mut-m0, t)
		}
		itok, _ = r.call(func() string { rd.Close(); return "ok" })
		delete(f.holders, t)
		ft.retired = true
		delete(r.mtok, t)
	default:
		return false
	}
	if isNewThread {
		r.threads[t] = th
		f.threads = append(f.threads, th)
		synctest.Wait()
		progress.Add(1)
		if wasDead {
			_, tok := th.state()
			switch {
			case (name == "ubegin" || name == "stat") && tok != "notfound":
				r.fail("file %d: %s on a file whose last reference is gone returned %q", idx, name, tok)
			case name == "opentrunc" && tok != "stale":
				r.fail("file %d: VirtualOpenSelf(O_TRUNC) on a file whose last reference is gone returned %q", idx, tok)
			case name == "write" && tok != "wrote 0 stale":
				r.fail("file %d: VirtualWrite on a file whose last reference is gone returned %q", idx, tok)
			case (name == "alloc" || name == "setattr") && tok != "stale":
				r.fail("file %d: %s on a file whose last reference is gone returned %q", idx, name, tok)
			}
			r.out.flags["use-after-last-reference"] = true
		}
	} else if name == "putdone" {
		synctest.Wait()
		progress.Add(1)
	}
	if itok == "panic" {
		r.panicked = true
		if !r.illegal {
			r.fail("file %d: `%s` panicked", idx, op)
		}
	}
	if itok == "" && !isNewThread && name != "putdone" {
		r.failHang("file %d: `%s` did not return (blocked)", idx, op)
	}
	r.out.flags["op-"+name] = true
	if wasDead && (name == "link" || name == "open") {
		r.out.flags["use-after-last-reference"] = true
	}
	r.afterSegment(f, name, mop, itok, op)
	return true
}

// applyChain is `f putchain t1 t2 upload k|- fn`: the Put of upload t1 completes, and the
// goroutine that has just consumed (closed) t1's frozen file immediately starts upload /
// frozen open t2 of the same file — before a mutating call that was parked behind t1 and
// has just been woken can re-take the file's lock (GOMAXPROCS(1) for this one segment: the
// woken goroutine cannot run before the current one blocks again). Both orders of
// [t2 freezes the file, the woken calls resume] are legal model runs; the harness takes the
// one that explains what it observed.
func (r *runner) applyChain(f *fileW, args []string, op string) bool {
	if len(args) != 5 {
		return false
	}
	t1, ok1 := atoi(args[0])
	t2, ok2 := atoi(args[1])
	upload, ok3 := flag(args[2])
	k, ok4 := -1, true
	if args[3] != "-" {
		k, ok4 = atoi(args[3])
	}
	fn, ok5 := atoi(args[4])
	if !(ok1 && ok2 && ok3 && ok4 && ok5) || k > 1 || fn > 1 {
		return false
	}
	th1 := r.threads[t1]
	if th1 == nil || th1.f != f.idx || th1.retired || r.threads[t2] != nil {
		return false
	}
	c := r.cas.pendingOf(t1)
	if c == nil {
		return false
	}
	if r.drv != nil && !r.stopCmp {
		if l := r.ask(fmt.Sprintf("legal %d putdone %d 1", f.idx, t1)); l != "yes" {
			return false
		}
	}
	if _, _, _, mut := f.ff.snapshot(); f.holders[t1] != mut {
		r.fail("file %d: the contents changed (%d mutating pool calls) while upload %d had the file frozen", f.idx, mut-f.holders[t1], t1)
	}
	f.atRelease[t1] = f.content()
	th2 := &thread{id: t2, f: f.idx, kind: "frozen", k: k, fn: fn, mutSnap: -1}
	body := r.frozenBody(f, th2)
	if upload {
		th2.kind = "upload"
		uctx, cancel := context.WithCancel(context.WithValue(context.WithValue(context.Background(), tidKey{}, t2), ffKey{}, f.ff))
		th2.cancel = cancel
		body = r.uploadBody(f, th2, uctx)
	}
	r.threads[t2] = th2
	f.threads = append(f.threads, th2)
	th1.mu.Lock()
	th1.chain = func() { r.runInline(th2, body) }
	th1.mu.Unlock()
	prev := runtime.GOMAXPROCS(1)
	c.done <- true
	synctest.Wait()
	runtime.GOMAXPROCS(prev)
	progress.Add(1)
	r.out.flags["op-putchain"] = true
	r.out.flags["putdone-1"] = true

	if r.drv != nil && !r.stopCmp {
		r.modelOp(f, fmt.Sprintf("putdone %d 1", t1), t1)
		begin := func() {
			r.modelOp(f, fmt.Sprintf("ubegin %d %d %s %d", t2, b2i(upload), args[3], fn), t2)
		}
		orders := []func(){
			func() { begin(); r.settle(f) },              // t2 freezes the file before the woken calls resume
			func() { r.settle(f); begin(); r.settle(f) }, // the woken calls win the lock
		}
		r.ask("save")
		saved := map[int]string{}
		for k, v := range r.mtok {
			saved[k] = v
		}
		found := false
		for i, ord := range orders {
			if i > 0 {
				r.ask("restore")
				r.mtok = map[int]string{}
				for k, v := range saved {
					r.mtok[k] = v
				}
			}
			ord()
			if r.stopCmp {
				break
			}
			if ok, _, _ := r.agrees(f); ok {
				found = true
				r.out.flags[fmt.Sprintf("chain-order-%d", i)] = true
				break
			}
		}
		if !found && !r.stopCmp {
			_, exp, act := r.agrees(f)
			r.mismatch("FileRef correspondence (abstract state / call results) after `"+op+"`: no order of [second freeze, resumed calls] explains the implementation", exp, act)
		}
	}
	r.accountThreads(f)
	if !r.out.aborted {
		r.monitorFile(f)
	}
	return true
}

// afterSegment steps the model, compares and runs the monitor. f == nil: `fire` (all files).
func (r *runner) afterSegment(f *fileW, name, mop, itok, op string) {
	files := []*fileW{f}
	if f == nil {
		files = nil
		for i := 0; i < maxFiles; i++ {
			if r.files[i] != nil {
				files = append(files, r.files[i])
			}
		}
	}
	if r.drv != nil && !r.stopCmp {
		if f != nil && mop != "" {
			t := -1
			switch name {
			case "write", "alloc", "setattr", "opentrunc", "ubegin", "putdone", "stat", "ucancel":
				t, _ = strconv.Atoi(strings.Fields(mop)[1])
			}
			mtok, _ := r.modelOp(f, mop, t)
			if t < 0 || name == "fread" || name == "fclose" {
				want := f.canonModelTok(mtok)
				if name == "resolve" {
					// NFS handle resolution succeeds exactly while the handle layer's link count is positive
					want = "stale"
					if ws := strings.Fields(mtok); len(ws) == 5 && ws[3] != "0" {
						want = "ok"
					}
				}
				if want != itok {
					r.mismatch("FileRef correspondence (result) at `"+op+"`", want, itok)
				}
			}
		}
		for _, g := range files {
			if r.stopCmp {
				break
			}
			r.settle(g)
			if r.stopCmp {
				break
			}
			if ok, exp, act := r.agrees(g); !ok {
				r.mismatch("FileRef correspondence (abstract state / call results) after `"+op+"`", exp, act)
			}
		}
	}
	for _, g := range files {
		r.accountThreads(g)
		if !r.out.aborted {
			r.monitorFile(g)
		}
	}
}

// finalize completes everything that is pending and drops every reference the
// harness holds; afterwards every pool file must have been closed exactly once.
func (r *runner) finalize() {
	for i := 0; i < maxFiles; i++ {
		f := r.files[i]
		if f == nil {
			continue
		}
		for _, th := range f.threads {
			if th.retired {
				continue
			}
			if r.cas.pendingOf(th.id) != nil {
				r.apply(fmt.Sprintf("%d putdone %d 1", i, th.id))
			}
		}
		for _, th := range f.threads {
			if !th.retired && th.reader != nil {
				r.apply(fmt.Sprintf("%d fclose %d", i, th.id))
			}
		}
		for f.wbits > 0 && r.out.monitor == "" && !r.out.aborted {
			r.apply(fmt.Sprintf("%d close 0 1", i))
		}
		// uploads that waited for the writers are now in Put
		for _, th := range f.threads {
			if !th.retired && r.cas.pendingOf(th.id) != nil {
				r.apply(fmt.Sprintf("%d putdone %d 1", i, th.id))
			}
		}
		for _, th := range f.threads {
			if !th.retired && th.reader != nil {
				r.apply(fmt.Sprintf("%d fclose %d", i, th.id))
			}
		}
		if r.out.monitor != "" || r.out.aborted {
			return
		}
		for _, th := range f.threads {
			if done, _ := th.state(); !done {
				r.failHang("file %d: %s call %d never returned although all frozen readers were closed and all writable descriptors were closed", i, th.kind, th.id)
				return
			}
		}
		for f.rbits > 0 && r.out.monitor == "" {
			r.apply(fmt.Sprintf("%d close 1 0", i))
		}
		for f.links > 0 && r.out.monitor == "" {
			r.apply(fmt.Sprintf("%d unlink", i))
		}
	}
}

func (r *runner) cleanup() {
	r.delays.cancelAll()
	for _, th := range r.threads {
		if th.cancel != nil {
			th.cancel()
		}
	}
	r.cas.mu.Lock()
	for _, c := range r.cas.pending {
		select {
		case c.done <- false:
		default:
		}
	}
	r.cas.mu.Unlock()
	synctest.Wait()
	for _, th := range r.threads {
		if th.reader != nil {
			rd := th.reader
			th.reader = nil
			func() {
				defer func() { recover() }()
				rd.Close()
			}()
		}
	}
	synctest.Wait()
}

func noDefaults(requested virtual.AttributesMask, attributes *virtual.Attributes) {}

// runHistory executes ops on the real code (and on the model when drv != nil).
// gen, when not nil, is asked for the next op instead of ops.
func runHistory(t *testing.T, ops []string, drv *hx.Driver, illegal bool, gen func(r *runner, n int) string) (out outcome) {
	out.flags = map[string]bool{}
	currentHistory.Store(ops)
	defer func() {
		// a call of the implementation that is blocked for ever on one of its own
		// channels makes synctest panic when the bubble ends
		if p := recover(); p != nil {
			if out.monitor == "" {
				out.hang = true
				out.monitor = fmt.Sprintf("goroutines of the implementation are still blocked at the end of the history: %v", p)
			}
		}
	}()
	synctest.Test(t, func(t *testing.T) {
		r := &runner{drv: drv, pool: &fakePool{},
			cas: &fakeCAS{pending: map[int]*putCall{}}, delays: newDelays(),
			files: map[int]*fileW{}, threads: map[int]*thread{}, mtok: map[int]string{}, out: &out, illegal: illegal}
		logger := &fakeErrorLogger{}
		r.nfs = virtual.NewNFSHandleAllocator(random.NewFastSingleThreadedGenerator())
		r.nafs[0] = &fakeNamedAttributesFactory{}
		r.alloc[0] = virtual.NewPoolBackedFileAllocator(r.pool, logger, noDefaults, r.nafs[0])
		// behind a handle allocator the files get the named attributes that
		// virtualBuildDirectory.InstallHooks installs (attribute files live in the same pool)
		symlinks := virtual.NewErrorSymlinkFactory(status.Error(codes.PermissionDenied, "no symlinks"))
		for cfg, ha := range map[int]virtual.StatefulHandleAllocator{
			1: virtual.NewFUSEHandleAllocator(random.FastThreadSafeGenerator), 2: r.nfs} {
			attrFiles := virtual.NewHandleAllocatingFileAllocator(
				virtual.NewPoolBackedFileAllocator(r.pool, logger, noDefaults, virtual.InNamedAttributeDirectoryNamedAttributesFactory), ha)
			r.nafs[cfg] = &fakeNamedAttributesFactory{
				inner: virtual.NewInMemoryNamedAttributesFactory(attrFiles, symlinks, logger, ha, clock.SystemClock)}
			r.alloc[cfg] = virtual.NewHandleAllocatingFileAllocator(
				virtual.NewPoolBackedFileAllocator(r.pool, logger, noDefaults, r.nafs[cfg]), ha)
		}
		if drv != nil {
			if a := r.ask("reset"); a != "ok" {
				out.mismatch = fmt.Sprintf("driver reset: %q", a)
				return
			}
		}
		defer r.cleanup()
		stop := func() bool { return out.monitor != "" || out.aborted || r.panicked }
		if gen != nil {
			for n := 0; n < maxOps && !stop(); n++ {
				op := gen(r, n)
				if op == "" {
					break
				}
				currentHistory.Store(append(append([]string(nil), out.executed...), op))
				if r.apply(op) {
					out.executed = append(out.executed, op)
					currentHistory.Store(out.executed)
				}
			}
		} else {
			for _, op := range ops {
				if stop() {
					break
				}
				currentHistory.Store(append(append([]string(nil), out.executed...), op))
				if r.apply(op) {
					out.executed = append(out.executed, op)
				}
			}
		}
		if !stop() {
			r.finalize()
		}
	})
	return
}

// ---- generator ----

type genParams struct {
	uploadBias, writerBias, faultPct int
	oneFile                          bool
}

func makeGen(rnd *hx.Rand) func(r *runner, n int) string {
	p := genParams{uploadBias: 1 + rnd.Intn(4), writerBias: 1 + rnd.Intn(3),
		faultPct: []int{0, 0, 3, 10}[rnd.Intn(4)], oneFile: rnd.Chance(1, 2)}
	nextT := 0
	length := 12 + rnd.Intn(maxOps-11)
	if rnd.Chance(1, 2) {
		length = 12 + rnd.Intn(50)
	}
	nfiles := 1 + rnd.Intn(maxFiles)
	if p.oneFile {
		nfiles = 1
	}
	cfg0 := rnd.Intn(3)
	randBytes := func() string {
		n := 1 + rnd.Intn(5)
		b := make([]byte, n)
		for i := range b {
			b[i] = byte(1 + rnd.Intn(255))
		}
		return showBytes(b)
	}
	return func(r *runner, n int) string {
		if n >= length {
			return ""
		}
		// create files first / occasionally later
		if len(r.files) < nfiles && (len(r.files) == 0 || rnd.Chance(1, 6)) {
			cfg := cfg0
			if rnd.Chance(1, 3) {
				cfg = rnd.Intn(3)
			}
			m := rnd.Intn(4)
			return fmt.Sprintf("new %d %d %d %d %d %d", len(r.files), cfg, m&1, m>>1, rnd.Intn(2), []int{0, 0, 0, 3, 8}[rnd.Intn(5)])
		}
		type cand struct {
			w  int
			op func() string
		}
		var cs []cand
		add := func(w int, op func() string) { cs = append(cs, cand{w, op}) }
		idx := rnd.Intn(len(r.files))
		f := r.files[idx]
		size := len(f.content())
		parkedM, parkedU, live := 0, 0, 0
		var inPut, held, cancellable []int
		for _, th := range f.threads {
			if th.retired {
				continue
			}
			live++
			done, _ := th.state()
			switch {
			case done && th.reader != nil:
				held = append(held, th.id)
			case done:
			case r.cas.pendingOf(th.id) != nil:
				inPut = append(inPut, th.id)
				if !th.cancelled {
					cancellable = append(cancellable, th.id)
				}
			case th.kind == "upload" || th.kind == "frozen":
				parkedU++
				if th.kind == "upload" && !th.cancelled {
					cancellable = append(cancellable, th.id)
				}
			default:
				parkedM++
			}
		}
		bits := f.rbits + f.wbits
		newT := func() int { nextT++; return nextT }
		add(2, func() string { return fmt.Sprintf("%d link", idx) })
		if f.links > 0 {
			add(2, func() string { return fmt.Sprintf("%d unlink", idx) })
		}
		add(3+p.writerBias, func() string {
			m := []int{1, 2, 3, 2, 3, 1, 0}[rnd.Intn(7)]
			return fmt.Sprintf("%d open %d %d", idx, m&1, m>>1)
		})
		if bits > 0 {
			add(3, func() string {
				for {
					rb, wb := rnd.Intn(2) == 1 && f.rbits > 0, rnd.Intn(2) == 1 && f.wbits > 0
					if !rb && !wb {
						continue
					}
					return fmt.Sprintf("%d close %d %d", idx, b2i(rb), b2i(wb))
				}
			})
			add(2, func() string { return fmt.Sprintf("%d read %d %d", idx, rnd.Intn(size+2), rnd.Intn(8)) })
			add(1, func() string { return fmt.Sprintf("%d seek %d", idx, rnd.Intn(size+2)) })
		}
		add(1, func() string { return fmt.Sprintf("%d getattr", idx) })
		add(1, func() string { return fmt.Sprintf("%d setperm %d", idx, rnd.Intn(2)) })
		add(1, func() string { return fmt.Sprintf("%d persist", idx) })
		if f.cfg == 2 {
			add(1, func() string { return fmt.Sprintf("%d resolve", idx) })
		}
		if rnd.Chance(1, 20) {
			add(1, func() string { return fmt.Sprintf("%d chown", idx) })
		}
		if live < maxThreads {
			if parkedM < maxParked {
				// without a descriptor only now and then (the code does not demand one)
				if bits > 0 || rnd.Chance(1, 8) {
					add(4, func() string {
						return fmt.Sprintf("%d write %d %d %s", idx, newT(), rnd.Intn(size+3), randBytes())
					})
					add(1, func() string {
						return fmt.Sprintf("%d alloc %d %d %d", idx, newT(), rnd.Intn(size+2), rnd.Intn(5))
					})
				}
				if bits > 0 || f.links > 0 || rnd.Chance(1, 8) {
					add(2, func() string {
						x := []string{"-", "-", "0", "1"}[rnd.Intn(4)]
						return fmt.Sprintf("%d setattr %d %d %s", idx, newT(), rnd.Intn(size+4), x)
					})
				}
				add(1, func() string {
					m := 1 + rnd.Intn(3)
					return fmt.Sprintf("%d opentrunc %d %d %d", idx, newT(), m&1, m>>1)
				})
			}
			if parkedU < maxParked {
				k := func() string { return []string{"-", "0", "1", "0"}[rnd.Intn(4)] }
				add(2+p.uploadBias, func() string {
					c := ""
					if rnd.Chance(1, 8) {
						c = " c" // the caller's context is already done
					}
					return fmt.Sprintf("%d ubegin %d 1 %s %d%s", idx, newT(), k(), rnd.Intn(2), c)
				})
				add(1, func() string {
					return fmt.Sprintf("%d ubegin %d 0 %s %d", idx, newT(), k(), rnd.Intn(2))
				})
			}
			add(2, func() string { return fmt.Sprintf("%d stat %d %d", idx, newT(), rnd.Intn(2)) })
		}
		for _, t := range inPut {
			t := t
			add(3, func() string {
				ok := 1
				if rnd.Intn(100) < 2*p.faultPct {
					ok = 0
				}
				return fmt.Sprintf("%d putdone %d %d", idx, t, ok)
			})
		}
		for _, t := range cancellable {
			t := t
			add(1, func() string { return fmt.Sprintf("%d ucancel %d", idx, t) })
		}
		if live < maxThreads && parkedU < maxParked {
			// directed: a second upload / frozen open freezes the file again right when the
			// first one unfreezes it, before the calls parked behind the first one resume
			for _, t := range inPut {
				t := t
				w := 1
				if parkedM > 0 {
					w = 5
				}
				add(w, func() string {
					k := []string{"-", "0", "1"}[rnd.Intn(3)]
					for i := 0; i < 2; i++ { // with writers open prefer a delay channel that has fired
						if f.wbits > 0 && r.delays.fired[i] && rnd.Chance(3, 4) {
							k = strconv.Itoa(i)
						}
					}
					return fmt.Sprintf("%d putchain %d %d %d %s %d", idx, t, newT(), b2i(rnd.Chance(3, 4)), k, rnd.Intn(2))
				})
			}
		}
		if f.cfg != 0 && !f.dead() && (len(f.attrFiles) == 0 || rnd.Chance(1, 10)) {
			add(1, func() string { return fmt.Sprintf("%d openattr", idx) })
		}
		for _, t := range held {
			t := t
			add(1, func() string { return fmt.Sprintf("%d fread %d %d %d", idx, t, rnd.Intn(size+2), rnd.Intn(8)) })
			add(2, func() string { return fmt.Sprintf("%d fclose %d", idx, t) })
		}
		if p.faultPct > 0 && rnd.Intn(100) < p.faultPct {
			add(3, func() string {
				kind := rnd.Intn(3)
				v := rnd.Intn(2)
				if kind == 0 {
					v = rnd.Intn(3)
				}
				return fmt.Sprintf("%d fault %d %d", idx, kind, v)
			})
		}
		if parkedU > 0 || rnd.Chance(1, 30) {
			add(2, func() string { return fmt.Sprintf("fire %d", rnd.Intn(2)) })
		}
		ws := make([]int, len(cs))
		for i, c := range cs {
			ws[i] = c.w
		}
		return cs[rnd.Pick(ws...)].op()
	}
}

// Histories that are always run first.
var fixedHistories = [][]string{
	// upload waits for the writer, the writer closes during the wait
	{"new 0 1 0 1 0 0", "0 write 1 0 1.2.3", "0 ubegin 2 1 0 0", "0 write 3 3 4", "0 close 0 1", "0 write 4 0 9", "0 putdone 2 1", "0 unlink"},
	// the delay fires while the writer is still open; the writer's next write waits for the upload
	{"new 0 2 0 1 0 0", "0 write 1 0 1.2.3", "0 ubegin 2 1 1 0", "fire 1", "0 write 3 0 7.7", "0 unlink", "0 putdone 2 1", "0 close 0 1"},
	// the cached digest must not survive a write, a truncation, an allocation or O_TRUNC
	{"new 0 0 1 1 0 0", "0 write 1 0 5.6", "0 close 0 1", "0 ubegin 2 1 - 0", "0 putdone 2 1", "0 persist", "0 alloc 3 0 4", "0 persist", "0 stat 4 0", "0 setattr 5 1 -", "0 stat 6 0", "0 opentrunc 7 0 1", "0 persist", "0 close 0 1", "0 stat 8 1", "0 stat 9 0"},
	// last reference is a frozen reader; everything afterwards fails cleanly
	{"new 0 1 0 0 0 3", "0 ubegin 1 0 - 0", "0 opentrunc 2 0 1", "0 unlink", "0 fread 1 0 3", "0 fclose 1", "0 link", "0 open 1 0", "0 ubegin 3 1 - 0", "0 stat 4 0"},
	// witness of the defect fixed by 17054c0 (notes/findings/C16-resumed-size-change-after-last-reference.md,
	// theorems resumed_size_change_hits_released_file / resumed_size_change_fails_cleanly): a size change
	// by path parks behind a frozen reader, the directory entry goes, the reader is closed (last reference),
	// the parked call resumes on the released file and must fail cleanly
	{"new 0 1 0 0 0 3", "0 ubegin 1 0 - 0", "0 setattr 2 1 -", "0 unlink", "0 fclose 1"},
	// a file with a named attribute directory behind the NFS / FUSE handle allocator whose last
	// reference goes away through Unlink (releases the attribute directory and its handles)
	{"new 0 2 0 0 0 0", "0 openattr", "0 resolve", "0 unlink", "0 resolve", "0 open 1 0"},
	{"new 0 1 0 1 0 0", "0 openattr", "0 unlink", "0 close 0 1"},
	// a writer outlives the bounded wait and parks behind upload 2; when upload 2 unfreezes the file,
	// upload 4 (frozen open 3 in the second history) freezes it again before the woken call resumes
	{"new 0 1 0 1 0 0", "fire 0", "0 write 1 0 1.2.3", "0 ubegin 2 1 0 0", "0 write 3 0 9.9", "0 putchain 2 4 1 0 0", "0 putdone 4 1"},
	{"new 0 0 0 0 0 3", "0 ubegin 1 1 - 1", "0 setattr 2 1 -", "0 opentrunc 5 0 1", "0 putchain 1 3 0 - 0", "0 fread 3 0 3", "0 fclose 3"},
	// the same for a write and an allocation whose descriptor is closed while they are parked
	{"new 0 2 0 0 0 0", "0 ubegin 1 0 - 0", "0 open 0 1", "0 write 2 0 1.2", "0 alloc 3 0 4", "0 unlink", "0 close 0 1", "0 fclose 1", "0 write 4 0 9", "0 setattr 5 2 -"},
}

const rule = "histories of <=200 ops on <=3 files (bare / FUSE-wrapped / NFS-wrapped pool-backed files): link/unlink, open/close with every share mask incl. partial closes, read/seek/getattr/setperm/chown, write/allocate/size change/O_TRUNC (parking behind frozen readers; also issued or resumed after the last reference is gone), uploads and frozen opens with 2 digest functions and 2 delay channels or none (parking behind writers; writer closes during the wait; delay fires), upload contexts cancelled before the upload / during the wait for writers / inside Put, named attribute directories (OPENATTR + attribute file) on FUSE/NFS-wrapped files, directed re-freeze (`putchain`: a second upload / frozen open freezes the file in the segment in which the first one unfreezes it, before the parked mutators resume), completion of the CAS Put ok|err, frozen reads, output-service stat, persisted cached digest, NFS handle resolution, sticky pool faults (WriteAt none/partial, Truncate, ReadAt), generated from the running implementation's state in a synctest bubble, plus 10 fixed histories; every history ends with complete-all + close-all + unlink-all; non-trivial = the pool file was closed by the disappearance of the last reference, an upload returned a digest, and some call parked (a mutator behind a frozen reader or an upload behind a writer); distinct = hash of the executed op list"

func nontrivial(o *outcome) bool {
	return o.flags["closed-by-last-reference"] && o.flags["upload-ok"] && (o.flags["mutator-parked"] || o.flags["upload-parked"])
}

func TestHarness(t *testing.T) {
	o := hx.ParseFlags()
	res := hx.NewResult("fileref", o, rule)
	drv, err := hx.StartDriver("fileref")
	if err != nil {
		fmt.Fprintln(os.Stderr, "cannot start model driver:", err)
		os.Exit(3)
	}
	defer drv.Close()

	// Started for another property than C16 (`-prop C14`: every path releases its locks
	// and wake-ups, so every later call terminates) only the findings of the kind "a call
	// never terminates" are reported, under that property.
	prop := o.Prop
	if prop == "" {
		prop = "C16"
	}
	hangsOnly := prop != "C16"
	const hangName = "monitor on the real allocator: every call on a pool-backed file returns (a mutating call returns once the frozen readers are closed, an upload once the writers are gone or its delay fired, everything at the end of the history)"

	// watchdog: a mutation can make the real code block on its mutex for ever,
	// which synctest cannot see; report the history instead of hanging.
	stop := make(chan struct{})
	defer close(stop)
	go func() {
		last, lastChange := progress.Load(), time.Now()
		for {
			select {
			case <-stop:
				return
			case <-time.After(2 * time.Second):
			}
			if p := progress.Load(); p != last {
				last, lastChange = p, time.Now()
			} else if time.Since(lastChange) > hx.StallLimit(60*time.Second) {
				ops, _ := currentHistory.Load().([]string)
				res.Report(hx.Finding{Kind: "violation", Property: prop, History: ops,
					Name: prop + " monitor: every segment of a file operation terminates",
					What: "the implementation did not reach the end of a segment within the load-scaled stall limit (at least 240 s of real time) (blocked outside any channel wait, e.g. on its mutex)",
					Sig:  hx.Sig(prop, "fileref", "hang")})
				res.ModelLines = drv.Lines
				res.Write(o)
				os.Exit(0)
			}
		}
	}()

	account := func(out *outcome) {
		res.Evaluations += out.steps
		res.TracesVsImpl++
		for k := range out.flags {
			res.Count(k)
		}
		if out.aborted {
			res.Count("left-caller-contract")
		}
		res.History(out.executed, nontrivial(out))
	}

	report := func(ops []string, out outcome) {
		wantMonitor := out.monitor != ""
		fails := func(cand []string) bool {
			r := runHistory(t, cand, drv, false, nil)
			if wantMonitor {
				return r.monitor != "" && (r.hang || !hangsOnly)
			}
			return r.monitor == "" && r.mismatch != ""
		}
		min := hx.Shrink(ops, fails)
		r := runHistory(t, min, drv, false, nil)
		if r.monitor == "" && r.mismatch == "" {
			// the minimised history does not fail when run again: nothing that could serve as a
			// replay (seen with scheduler-order dependent wake-ups); counted, not reported
			res.Count("unreproducible-after-shrinking")
			return
		}
		f := hx.Finding{Property: prop, History: min}
		if r.monitor != "" && hangsOnly {
			f.Kind, f.What, f.Name = "violation", r.monitor, prop+" "+hangName
		} else if r.monitor != "" {
			f.Kind, f.What = "violation", r.monitor
			f.Name = "C16 monitor on the real allocator: pool file closed exactly once and exactly when the last link/descriptor/frozen reader disappears, no access after Close, clean failure afterwards, frozen contents do not change, digest reported = digest of the bytes handed to the CAS = digest of the current contents, bounded wait for writers (ref_inv, no_use_after_close, frozen_excludes_writes, cached_digest_valid, upload_matches, writers_wait_bounded)"
			if r.mismatch != "" {
				f.Expected, f.Actual = r.expected, r.actual
			}
		} else {
			f.Kind, f.What = "mismatch", r.mismatch
			f.Name = "correspondence Model/FileRef.lean <-> pool_backed_file_allocator.go + fuse/nfs handle allocators (theorems ref_inv, no_use_after_close, frozen_excludes_writes, cached_digest_valid, upload_matches, writers_wait_bounded)"
			f.Expected, f.Actual = r.expected, r.actual
		}
		f.Sig = hx.Sig(prop, "fileref", strings.Join(min, ";"))
		res.Report(f)
	}

	if o.Replay != "" {
		f, err := hx.LoadReplay(o.Replay)
		if err != nil {
			fmt.Fprintln(os.Stderr, err)
			os.Exit(3)
		}
		if isHandlesHistory(f.History) { // finding of the handle allocator part (handles_test.go)
			if !hangsOnly {
				runHandles(o, res, f.History)
			}
			res.Write(o)
			return
		}
		out := runHistory(t, f.History, drv, false, nil)
		account(&out)
		if hangsOnly {
			if out.monitor != "" && out.hang {
				report(f.History, out)
			}
		} else if out.monitor != "" || out.mismatch != "" {
			report(f.History, out)
		}
		res.ModelLines = drv.Lines
		res.Write(o)
		return
	}

	mismatches, violations := 0, 0
	handle := func(ops []string, out outcome) {
		if hangsOnly {
			if out.monitor != "" && out.hang && violations < 3 {
				violations++
				report(ops, out)
			}
			return
		}
		switch {
		case out.monitor != "" && violations < 3:
			violations++
			report(ops, out)
		case out.monitor == "" && out.mismatch != "":
			res.Count("mismatching-history")
			if mismatches < 2 {
				mismatches++
				report(ops, out)
			}
		}
	}
	for _, h := range fixedHistories {
		out := runHistory(t, h, drv, false, nil)
		account(&out)
		res.Count("fixed-history")
		handle(out.executed, out)
	}

	n := 1000
	if o.Tier == "thorough" {
		n = 6000
	}
	n *= o.Scale
	rnd := hx.NewRand(o.Seed)
	for i := 0; i < n && violations < 3; i++ {
		out := runHistory(t, nil, drv, false, makeGen(rnd))
		account(&out)
		handle(out.executed, out)
	}
	var keys []string
	for k := range res.Histogram {
		keys = append(keys, k)
	}
	sort.Strings(keys)
	res.ModelLines = drv.Lines
	if !hangsOnly { // handle allocator part (handles_test.go, model drv_handles)
		res.Rule += "; " + handlesRule
		runHandles(o, res, nil)
	}
	res.Write(o)
}
