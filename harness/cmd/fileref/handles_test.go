package fileref

// Second part of the C16 harness: lean/BbRe/Model/Handles.lean <-> the STATEFUL paths of
// pkg/filesystem/virtual/{nfs,fuse}_handle_allocator.go.
//
// The real NewNFSHandleAllocator / NewFUSEHandleAllocator (fed by a scripted random number
// generator, so that inode numbers are chosen by the history, including colliding ones) wrap
//   - recording fake leaves (every call that reaches the wrapped leaf is logged), and
//   - real pool-backed files created through NewHandleAllocatingFileAllocator over
//     NewPoolBackedFileAllocator (the production wiring of cmd/bb_worker / virtualBuildDirectory),
//     with a pass-through tap between wrapper and file that logs the forwarded calls.
// After every op the returned status, the attributes (file handle, inode number, link count,
// change ID), the result of ResolveHandle / the removal notifications and the calls forwarded to
// the wrapped leaf are compared with the compiled model (drv_handles).  A monitor judges the
// property text on the implementation's own trace: the wrapped leaf / the pool file is released
// exactly once, exactly when the last directory entry (and descriptor) disappears, and nothing
// succeeds on a released file.
//
// History ops (every line starts with `H`; i = leaf, d = directory handle, k = nfs|fuse):
//
//	H new i k real n        AsLinkableLeaf around a fake (real=0) or a real pool-backed file (real=1); RNG gives n
//	H link i | H unlink i | H getattr i mask | H setattr i mask fail | H open i mask fail | H close i
//	H resolve n | H resolveshort
//	H newdir d k n | H dirattr d | H notify d name | H release d | H register
//
// mask bits: 1 file handle, 2 inode number, 4 link count, 8 change ID, 16 size.  `fail` makes a
// fake wrapped leaf refuse the call (real files decide themselves).

import (
	"bytes"
	"context"
	"encoding/binary"
	"fmt"
	"strconv"
	"strings"

	"github.com/buildbarn/bb-remote-execution/pkg/filesystem/pool"
	"github.com/buildbarn/bb-remote-execution/pkg/filesystem/virtual"
	"github.com/buildbarn/bb-storage/pkg/filesystem/path"

	"verifharness/internal/hx"
)

const (
	hMaxLeaves = 5
	hMaxDirs   = 3
	hMaxOps    = 60
)

// scriptedRNG hands out the numbers the history dictates.
type scriptedRNG struct {
	next  uint64
	calls int
}

func (g *scriptedRNG) Float64() float64                   { return 0 }
func (g *scriptedRNG) Int64N(n int64) int64               { return 0 }
func (g *scriptedRNG) IntN(n int) int                     { return 0 }
func (g *scriptedRNG) Read(p []byte) (int, error)         { return len(p), nil }
func (g *scriptedRNG) Shuffle(n int, swap func(i, j int)) {}
func (g *scriptedRNG) Uint32() uint32                     { return 0 }
func (g *scriptedRNG) Uint64() uint64                     { g.calls++; return g.next }
func (g *scriptedRNG) IsThreadSafe()                      {}

func hMask(m int) virtual.AttributesMask {
	var out virtual.AttributesMask
	if m&1 != 0 {
		out |= virtual.AttributesMaskFileHandle
	}
	if m&2 != 0 {
		out |= virtual.AttributesMaskInodeNumber
	}
	if m&4 != 0 {
		out |= virtual.AttributesMaskLinkCount
	}
	if m&8 != 0 {
		out |= virtual.AttributesMaskChangeID
	}
	if m&16 != 0 {
		out |= virtual.AttributesMaskSizeBytes
	}
	return out
}

func hUnmask(m virtual.AttributesMask) int {
	out := 0
	if m&virtual.AttributesMaskFileHandle != 0 {
		out |= 1
	}
	if m&virtual.AttributesMaskInodeNumber != 0 {
		out |= 2
	}
	if m&virtual.AttributesMaskLinkCount != 0 {
		out |= 4
	}
	if m&virtual.AttributesMaskChangeID != 0 {
		out |= 8
	}
	if m&virtual.AttributesMaskSizeBytes != 0 {
		out |= 16
	}
	if m&^(virtual.AttributesMaskFileHandle|virtual.AttributesMaskInodeNumber|virtual.AttributesMaskLinkCount|
		virtual.AttributesMaskChangeID|virtual.AttributesMaskSizeBytes) != 0 {
		out |= 1 << 20
	}
	return out
}

// tap sits between the wrapper and the wrapped leaf and logs what reaches the latter.
type tap struct {
	virtual.LinkableLeaf // nil for a fake leaf
	under                int
	w                    *hWorld
	chg                  uint64 // fake: change ID reported
	failNext             bool   // fake: refuse the next setattr/open
	lastSt               virtual.Status
	lastChg              uint64
	unlinks, links       int
}

func (t *tap) Link() virtual.Status {
	t.links++
	t.w.fwd = append(t.w.fwd, fmt.Sprintf("link %d", t.under))
	if t.LinkableLeaf != nil {
		return t.LinkableLeaf.Link()
	}
	return virtual.StatusOK
}

func (t *tap) Unlink() {
	t.unlinks++
	t.w.fwd = append(t.w.fwd, fmt.Sprintf("unlink %d", t.under))
	if t.LinkableLeaf != nil {
		t.LinkableLeaf.Unlink()
	}
}

func (t *tap) noteChg(requested virtual.AttributesMask, a *virtual.Attributes) {
	t.lastChg = 0
	if requested&virtual.AttributesMaskChangeID != 0 {
		func() {
			defer func() { recover() }()
			t.lastChg = a.GetChangeID()
		}()
	}
}

func (t *tap) fakeAttrs(requested virtual.AttributesMask, a *virtual.Attributes) {
	if requested&virtual.AttributesMaskChangeID != 0 {
		a.SetChangeID(t.chg)
	}
	if requested&virtual.AttributesMaskSizeBytes != 0 {
		a.SetSizeBytes(0)
	}
}

func (t *tap) VirtualGetAttributes(ctx context.Context, requested virtual.AttributesMask, a *virtual.Attributes) {
	t.w.fwd = append(t.w.fwd, fmt.Sprintf("getattr %d %d", t.under, hUnmask(requested)))
	if t.LinkableLeaf != nil {
		t.LinkableLeaf.VirtualGetAttributes(ctx, requested, a)
	} else {
		t.fakeAttrs(requested, a)
	}
	t.noteChg(requested, a)
}

func (t *tap) VirtualSetAttributes(ctx context.Context, in *virtual.Attributes, requested virtual.AttributesMask, a *virtual.Attributes) virtual.Status {
	t.w.fwd = append(t.w.fwd, fmt.Sprintf("setattr %d %d", t.under, hUnmask(requested)))
	if t.LinkableLeaf != nil {
		t.lastSt = t.LinkableLeaf.VirtualSetAttributes(ctx, in, requested, a)
	} else if t.failNext {
		t.lastSt = virtual.StatusErrPerm
	} else {
		t.lastSt = virtual.StatusOK
		t.fakeAttrs(requested, a)
	}
	t.failNext = false
	if t.lastSt == virtual.StatusOK {
		t.noteChg(requested, a)
	}
	return t.lastSt
}

func (t *tap) VirtualOpenSelf(ctx context.Context, shareAccess virtual.ShareMask, options *virtual.OpenExistingOptions, requested virtual.AttributesMask, a *virtual.Attributes) virtual.Status {
	t.w.fwd = append(t.w.fwd, fmt.Sprintf("open %d %d", t.under, hUnmask(requested)))
	if t.LinkableLeaf != nil {
		t.lastSt = t.LinkableLeaf.VirtualOpenSelf(ctx, shareAccess, options, requested, a)
	} else if t.failNext {
		t.lastSt = virtual.StatusErrPerm
	} else {
		t.lastSt = virtual.StatusOK
		t.fakeAttrs(requested, a)
	}
	t.failNext = false
	if t.lastSt == virtual.StatusOK {
		t.noteChg(requested, a)
	}
	return t.lastSt
}

func (t *tap) VirtualClose(shareAccess virtual.ShareMask) {
	if t.LinkableLeaf != nil {
		t.LinkableLeaf.VirtualClose(shareAccess)
	}
}

func (t *tap) VirtualApply(data any) bool {
	if t.LinkableLeaf != nil {
		return t.LinkableLeaf.VirtualApply(data)
	}
	return false
}

// tapAllocator is the `base` of NewHandleAllocatingFileAllocator: a pool-backed file behind a tap.
type tapAllocator struct {
	base virtual.FileAllocator
	w    *hWorld
	next *tap
}

func (ta *tapAllocator) NewFile(holeSource pool.HoleSource, isExecutable bool, size uint64, shareAccess virtual.ShareMask) (virtual.LinkableLeaf, error) {
	leaf, err := ta.base.NewFile(holeSource, isExecutable, size, shareAccess)
	if err != nil {
		return nil, err
	}
	ta.next.LinkableLeaf = leaf
	return ta.next, nil
}

type hDirObj struct {
	virtual.Directory
	id int
}

type hLeaf struct {
	id      int
	kind    string
	real    bool
	n       uint64
	wrapper virtual.LinkableLeaf
	tap     *tap
	ff      *fakeFile
	// the harness's own ledger (monitor)
	entries, descr int
	offContract    bool // an Unlink without a directory entry was issued: nothing is judged for this leaf any more
	shadowed       bool // another object got the same number: resolution is not judged
}

type hDir struct {
	id     int
	kind   string
	n      uint64
	handle virtual.StatefulDirectoryHandle
	obj    *hDirObj
}

type hWorld struct {
	drv      *hx.Driver
	nfs      *virtual.NFSStatefulHandleAllocator
	fuse     *virtual.FUSEStatefulHandleAllocator
	rng      [2]*scriptedRNG
	pool     *fakePool
	talloc   [2]*tapAllocator
	falloc   [2]virtual.FileAllocator
	leaves   map[int]*hLeaf
	dirs     map[int]*hDir
	used     map[uint64]int
	fwd      []string // calls that reached wrapped leaves since the last op
	notes    []string
	nNotif   int
	mlog     int // length of the model log already compared
	out      *outcome
	stopCmp  bool
	executed []string
}

func kindIdx(k string) int {
	if k == "fuse" {
		return 1
	}
	return 0
}

func newHWorld(drv *hx.Driver, out *outcome) *hWorld {
	w := &hWorld{drv: drv, pool: &fakePool{}, leaves: map[int]*hLeaf{}, dirs: map[int]*hDir{}, used: map[uint64]int{}, out: out}
	w.rng[0], w.rng[1] = &scriptedRNG{}, &scriptedRNG{}
	w.nfs = virtual.NewNFSHandleAllocator(w.rng[0])
	w.fuse = virtual.NewFUSEHandleAllocator(w.rng[1])
	logger := &fakeErrorLogger{}
	for k, ha := range []virtual.StatefulHandleAllocator{w.nfs, w.fuse} {
		w.talloc[k] = &tapAllocator{base: virtual.NewPoolBackedFileAllocator(w.pool, logger, noDefaults, &fakeNamedAttributesFactory{}), w: w}
		w.falloc[k] = virtual.NewHandleAllocatingFileAllocator(w.talloc[k], ha)
	}
	return w
}

func (w *hWorld) fail(format string, a ...any) {
	if w.out.monitor == "" {
		w.out.monitor = fmt.Sprintf(format, a...)
	}
}

func (w *hWorld) mismatch(what, expected, actual string) {
	if w.out.mismatch == "" {
		w.out.mismatch, w.out.expected, w.out.actual = what, expected, actual
	}
	w.stopCmp = true
}

func (w *hWorld) ask(line string) string {
	a, err := w.drv.Ask(line)
	if err != nil {
		return "driver-error " + err.Error()
	}
	return a
}

func optU(f func() uint64) (s string) {
	defer func() {
		if recover() != nil {
			s = "-"
		}
	}()
	return strconv.FormatUint(f(), 10)
}

func fhTok(a *virtual.Attributes) (s string) {
	defer func() {
		if recover() != nil {
			s = "-"
		}
	}()
	fh := a.GetFileHandle()
	if len(fh) != 8 {
		return fmt.Sprintf("len%d", len(fh))
	}
	return strconv.FormatUint(binary.LittleEndian.Uint64(fh), 10)
}

func hStatusCode(s virtual.Status) int {
	switch s {
	case virtual.StatusOK:
		return 0
	case virtual.StatusErrPerm:
		return 1
	case virtual.StatusErrStale:
		return 2
	}
	return 3
}

// guard runs a call into /repo and turns a panic into a token.
func guard(body func() string) (tok string) {
	defer func() {
		if p := recover(); p != nil {
			tok = "panic"
		}
	}()
	return body()
}

func (w *hWorld) attrsTok(l *hLeaf, m int, fwd string, a *virtual.Attributes) string {
	chg := "-" // a change ID that was not requested is not an observable (pool-backed files always set it)
	if m&8 != 0 {
		chg = optU(func() uint64 { return a.GetChangeID() })
	}
	return fmt.Sprintf("attrs fwd=%s fh=%s ino=%s lc=%s chg=%s", fwd, fhTok(a),
		optU(func() uint64 { return a.GetInodeNumber() }),
		optU(func() uint64 { return uint64(a.GetLinkCount()) }), chg)
}

// compare sends the op to the model and compares output and forwarded calls.
func (w *hWorld) compare(op, modelLine, implTok string) {
	w.out.steps++
	if w.drv == nil || w.stopCmp {
		w.fwd, w.notes = nil, nil
		return
	}
	m := w.ask(modelLine)
	if m != implTok {
		w.mismatch("Handles correspondence (result) after `"+op+"`", m, implTok)
	}
	// forwarded calls: the new suffix of the model's ghost log, restricted to calls on wrapped leaves / notifiers
	logLine := w.ask("log")
	var evs []string
	if logLine != "-" {
		evs = strings.Split(logLine, ";")
	}
	var want []string
	for _, e := range evs[min(w.mlog, len(evs)):] {
		if strings.HasPrefix(e, "map") || strings.HasPrefix(e, "dir") {
			continue
		}
		want = append(want, e)
	}
	w.mlog = len(evs)
	got := append(append([]string(nil), w.fwd...), w.notes...)
	if strings.Join(want, ";") != strings.Join(got, ";") && !w.stopCmp {
		w.mismatch("Handles correspondence (calls forwarded to the wrapped leaf / notifiers) after `"+op+"`",
			strings.Join(want, ";"), strings.Join(got, ";"))
	}
	w.fwd, w.notes = nil, nil
}

// monitorLeaf judges the property on the implementation's trace alone.
func (w *hWorld) monitorLeaf(l *hLeaf, op string) {
	if l.offContract {
		return
	}
	if l.real {
		_, closes, afterClose, _ := l.ff.snapshot()
		live := l.entries+l.descr > 0
		switch {
		case live && closes != 0:
			w.fail("after `%s`: the pool file of leaf %d was closed %d time(s) although the file still has %d directory entries and %d descriptors", op, l.id, closes, l.entries, l.descr)
		case !live && closes != 1:
			w.fail("after `%s`: leaf %d has no directory entry and no descriptor left, but its pool file was closed %d time(s) (must be exactly once)", op, l.id, closes)
		}
		if len(afterClose) != 0 {
			w.fail("after `%s`: released pool file of leaf %d was accessed: %v", op, l.id, afterClose)
		}
	} else {
		want := 0
		if l.entries == 0 {
			want = 1
		}
		if l.tap.unlinks != want {
			w.fail("after `%s`: wrapped leaf of %d saw %d Unlink call(s) with %d directory entries left (must be released exactly once, when the last entry goes)", op, l.id, l.tap.unlinks, l.entries)
		}
	}
}

func (w *hWorld) apply(op string) bool {
	ws := strings.Fields(op)
	if len(ws) < 2 || ws[0] != "H" {
		return false
	}
	ws = ws[1:]
	nums := make([]int, len(ws))
	for i := 1; i < len(ws); i++ {
		v, err := strconv.ParseUint(ws[i], 10, 63)
		if err == nil {
			nums[i] = int(v)
		} else if ws[i] != "nfs" && ws[i] != "fuse" {
			return false
		}
	}
	ctx := context.Background()
	leafArg := func() *hLeaf {
		if len(ws) < 2 {
			return nil
		}
		return w.leaves[nums[1]]
	}
	switch ws[0] {
	case "new":
		if len(ws) != 5 || (ws[2] != "nfs" && ws[2] != "fuse") || nums[1] >= hMaxLeaves || w.leaves[nums[1]] != nil || nums[3] > 1 {
			return false
		}
		k := kindIdx(ws[2])
		l := &hLeaf{id: nums[1], kind: ws[2], real: nums[3] == 1, n: uint64(nums[4]), entries: 1}
		l.tap = &tap{under: l.id, w: w, chg: uint64(1000 + 7*l.id)}
		before := w.rng[k].calls
		w.rng[k].next = l.n
		tok := guard(func() string {
			if l.real {
				w.talloc[k].next = l.tap
				leaf, err := w.falloc[k].NewFile(pool.ZeroHoleSource, false, 4, 0)
				if err != nil {
					return "err"
				}
				l.wrapper, l.ff = leaf, w.pool.last
			} else if k == 0 {
				l.wrapper = w.nfs.New().AsLinkableLeaf(l.tap)
			} else {
				l.wrapper = w.fuse.New().AsLinkableLeaf(l.tap)
			}
			return "done"
		})
		if w.rng[k].calls != before+1 && tok == "done" {
			tok = fmt.Sprintf("rng-calls-%d", w.rng[k].calls-before)
		}
		if tok != "done" {
			w.fail("`%s`: creating the leaf failed: %s", op, tok)
			return true
		}
		if _, dup := w.used[l.n]; dup {
			w.out.flags["h-collision"] = true
			for _, o := range w.leaves {
				if o.n == l.n {
					o.shadowed = true
				}
			}
			l.shadowed = true
		}
		w.used[l.n]++
		w.leaves[l.id] = l
		w.out.flags["h-"+l.kind] = true
		if l.real {
			w.out.flags["h-real"] = true
		}
		w.compare(op, fmt.Sprintf("new %d %s %d %d", l.id, l.kind, l.id, l.n), tok)
		w.monitorLeaf(l, op)
	case "link":
		l := leafArg()
		if l == nil || len(ws) != 2 {
			return false
		}
		tok := guard(func() string { return statusTok(l.wrapper.Link()) })
		if tok == "ok" {
			if l.entries == 0 && !l.offContract {
				w.fail("`%s`: Link succeeded on leaf %d whose last directory entry is gone (it has been released)", op, l.id)
			}
			l.entries++
		} else if tok != "stale" {
			w.fail("`%s`: Link on leaf %d returned %s (must be OK or a clean ESTALE)", op, l.id, tok)
		} else if l.entries > 0 && !l.offContract {
			w.fail("`%s`: Link refused on leaf %d which still has %d directory entries", op, l.id, l.entries)
		} else {
			w.out.flags["h-link-stale"] = true
		}
		w.compare(op, "link "+ws[1], tok)
		w.monitorLeaf(l, op)
	case "unlink":
		l := leafArg()
		if l == nil || len(ws) != 2 {
			return false
		}
		if l.entries == 0 {
			// outside the caller contract: the NFS wrapper panics with the pool lock held (every later
			// call would block), so that is never executed; the FUSE wrapper wraps around
			if l.kind == "nfs" {
				return false
			}
			l.offContract = true
			w.out.flags["h-fuse-unlink-at-zero"] = true
		} else {
			l.entries--
		}
		before := l.tap.unlinks
		tok := guard(func() string { l.wrapper.Unlink(); return "unlinked" })
		if tok == "unlinked" {
			tok = fmt.Sprintf("unlinked %d", l.tap.unlinks-before)
		}
		if l.entries == 0 && !l.offContract {
			w.out.flags["h-last-unlink"] = true
		}
		w.compare(op, "unlink "+ws[1], tok)
		w.monitorLeaf(l, op)
	case "getattr", "setattr", "open":
		l := leafArg()
		if l == nil || (ws[0] == "getattr" && len(ws) != 3) || (ws[0] != "getattr" && len(ws) != 4) || nums[2] > 31 {
			return false
		}
		m := nums[2]
		if l.kind == "fuse" {
			m &^= 1 // FUSE passes a file handle request on to the wrapped leaf: not the wrapper's business
		}
		var a virtual.Attributes
		nf := len(w.fwd)
		var st virtual.Status
		tok := guard(func() string {
			switch ws[0] {
			case "getattr":
				l.wrapper.VirtualGetAttributes(ctx, hMask(m), &a)
			case "setattr":
				l.tap.failNext = nums[3] == 1
				st = l.wrapper.VirtualSetAttributes(ctx, (&virtual.Attributes{}).SetPermissions(virtual.PermissionsRead), hMask(m), &a)
			case "open":
				l.tap.failNext = nums[3] == 1
				st = l.wrapper.VirtualOpenSelf(ctx, virtual.ShareMaskRead, &virtual.OpenExistingOptions{}, hMask(m), &a)
			}
			return ""
		})
		fwdMask := "-"
		if len(w.fwd) > nf {
			parts := strings.Fields(w.fwd[len(w.fwd)-1])
			fwdMask = parts[len(parts)-1]
		}
		var line string
		switch {
		case tok == "panic":
			w.fail("`%s` panicked", op)
			line = fmt.Sprintf("%s %d %d 0 0", ws[0], l.id, m)
		case ws[0] == "getattr":
			tok = w.attrsTok(l, m, fwdMask, &a)
			line = fmt.Sprintf("getattr %d %d %d", l.id, m, l.tap.lastChg)
		default:
			if st != l.tap.lastSt {
				w.fail("`%s`: the wrapper returned %s, the wrapped leaf %s", op, statusTok(st), statusTok(l.tap.lastSt))
			}
			code := hStatusCode(l.tap.lastSt)
			if st == virtual.StatusOK {
				tok = w.attrsTok(l, m, fwdMask, &a)
				if ws[0] == "open" {
					if l.real && l.entries+l.descr == 0 && !l.offContract {
						w.fail("`%s`: open succeeded on leaf %d whose last reference is gone", op, l.id)
					}
					l.descr++
					w.out.flags["h-open"] = true
				}
			} else {
				tok = fmt.Sprintf("ust %d", code)
				if st == virtual.StatusErrStale {
					w.out.flags["h-open-stale"] = true
				}
			}
			line = fmt.Sprintf("%s %d %d %d %d", ws[0], l.id, m, code, l.tap.lastChg)
		}
		w.compare(op, line, tok)
		w.monitorLeaf(l, op)
	case "close":
		l := leafArg()
		if l == nil || len(ws) != 2 || l.descr == 0 {
			return false
		}
		l.descr--
		if tok := guard(func() string { l.wrapper.VirtualClose(virtual.ShareMaskRead); return "" }); tok != "" {
			w.fail("`%s` panicked", op)
		}
		w.out.steps++
		w.monitorLeaf(l, op)
	case "resolve":
		if len(ws) != 2 {
			return false
		}
		var fh [8]byte
		binary.LittleEndian.PutUint64(fh[:], uint64(nums[1]))
		tok := guard(func() string {
			child, st := w.nfs.ResolveHandle(bytes.NewReader(fh[:]))
			if st != virtual.StatusOK {
				return statusTok(st)
			}
			d, lf := child.GetPair()
			for _, x := range w.dirs {
				if d != nil && d == virtual.Directory(x.obj) {
					return fmt.Sprintf("dir %d", x.id)
				}
			}
			for _, x := range w.leaves {
				if lf != nil && lf == virtual.Leaf(x.wrapper) {
					return fmt.Sprintf("leaf %d", x.id)
				}
			}
			return "unknown-object"
		})
		// monitor: a live NFS leaf is found under its handle, a released one is not, never another leaf
		for _, l := range w.leaves {
			if l.kind != "nfs" || l.n != uint64(nums[1]) || l.shadowed || l.offContract {
				continue
			}
			want := "stale"
			if l.entries > 0 {
				want = fmt.Sprintf("leaf %d", l.id)
				w.out.flags["h-resolve-live"] = true
			} else {
				w.out.flags["h-resolve-dead"] = true
			}
			if tok != want {
				w.fail("`%s`: the handle of leaf %d (%d directory entries) resolves to %q, expected %q", op, l.id, l.entries, tok, want)
			}
		}
		w.compare(op, "resolve "+ws[1], tok)
	case "resolveshort":
		tok := guard(func() string {
			_, st := w.nfs.ResolveHandle(bytes.NewReader([]byte{1, 2, 3}))
			if st == virtual.StatusErrBadHandle {
				return "badhandle"
			}
			return statusTok(st)
		})
		w.compare(op, "resolveshort", tok)
	case "newdir":
		if len(ws) != 4 || (ws[2] != "nfs" && ws[2] != "fuse") || nums[1] >= hMaxDirs || w.dirs[nums[1]] != nil {
			return false
		}
		k := kindIdx(ws[2])
		d := &hDir{id: nums[1], kind: ws[2], n: uint64(nums[3])}
		d.obj = &hDirObj{id: d.id}
		w.rng[k].next = d.n
		tok := guard(func() string {
			if k == 0 {
				d.handle = w.nfs.New().AsStatefulDirectory(d.obj)
			} else {
				d.handle = w.fuse.New().AsStatefulDirectory(d.obj)
			}
			return "done"
		})
		if tok != "done" {
			w.fail("`%s` panicked", op)
			return true
		}
		if _, dup := w.used[d.n]; dup {
			w.out.flags["h-collision"] = true
			for _, o := range w.leaves {
				if o.n == d.n {
					o.shadowed = true
				}
			}
		}
		w.used[d.n]++
		w.dirs[d.id] = d
		w.compare(op, fmt.Sprintf("newdir %d %s %d %d", d.id, d.kind, d.id, d.n), tok)
	case "dirattr", "release":
		if len(ws) != 2 || w.dirs[nums[1]] == nil {
			return false
		}
		d := w.dirs[nums[1]]
		var a virtual.Attributes
		tok := guard(func() string {
			if ws[0] == "release" {
				d.handle.Release()
				return "done"
			}
			d.handle.GetAttributes(virtual.AttributesMaskFileHandle|virtual.AttributesMaskInodeNumber, &a)
			return fmt.Sprintf("dirattrs fh=%s ino=%s", fhTok(&a), optU(func() uint64 { return a.GetInodeNumber() }))
		})
		w.compare(op, ws[0]+" "+ws[1], tok)
	case "notify":
		if len(ws) != 3 || w.dirs[nums[1]] == nil {
			return false
		}
		d := w.dirs[nums[1]]
		tok := guard(func() string {
			d.handle.NotifyRemoval(path.MustNewComponent(fmt.Sprintf("n%d", nums[2])))
			return "ok"
		})
		if tok == "ok" {
			var ps []string
			for _, n := range w.notes {
				f := strings.Fields(n)
				ps = append(ps, f[1]+":"+f[2]+":"+f[3])
			}
			tok = "notes -"
			if len(ps) > 0 {
				tok = "notes " + strings.Join(ps, ",")
				w.out.flags["h-notified"] = true
			}
		}
		w.compare(op, fmt.Sprintf("notify %d %d", d.id, nums[2]), tok)
	case "register":
		if len(ws) != 1 || w.nNotif >= 3 {
			return false
		}
		j := w.nNotif
		w.nNotif++
		w.fuse.RegisterRemovalNotifier(func(parent uint64, name path.Component) {
			w.notes = append(w.notes, fmt.Sprintf("notified %d %d %s", j, parent, strings.TrimPrefix(name.String(), "n")))
		})
		w.compare(op, "register", "done")
	default:
		return false
	}
	return true
}

// finalizeH removes every remaining descriptor and directory entry: everything must be released
// exactly once, every NFS handle must have become stale.
func (w *hWorld) finalizeH() {
	for id := 0; id < hMaxLeaves; id++ {
		l := w.leaves[id]
		if l == nil || l.offContract {
			continue
		}
		for l.descr > 0 && w.out.monitor == "" {
			w.apply(fmt.Sprintf("H close %d", id))
		}
		for l.entries > 0 && w.out.monitor == "" {
			w.apply(fmt.Sprintf("H unlink %d", id))
		}
		if w.out.monitor == "" {
			w.apply(fmt.Sprintf("H link %d", id))
			w.apply(fmt.Sprintf("H getattr %d 14", id))
			if l.kind == "nfs" {
				w.apply(fmt.Sprintf("H resolve %d", l.n))
			}
		}
	}
}

func runHandlesHistory(ops []string, drv *hx.Driver, gen func(w *hWorld, n int) string) (out outcome) {
	out.flags = map[string]bool{}
	w := newHWorld(drv, &out)
	if drv != nil {
		if a := w.ask("reset"); a != "ok" {
			out.mismatch = fmt.Sprintf("driver reset: %q", a)
			return
		}
	}
	do := func(op string) {
		if w.apply(op) {
			out.executed = append(out.executed, op)
		}
	}
	if gen != nil {
		for n := 0; n < hMaxOps && out.monitor == ""; n++ {
			op := gen(w, n)
			if op == "" {
				break
			}
			do(op)
		}
	} else {
		for _, op := range ops {
			if out.monitor != "" {
				break
			}
			do(op)
		}
	}
	if out.monitor == "" {
		w.finalizeH()
	}
	return
}

func makeHandlesGen(rnd *hx.Rand) func(w *hWorld, n int) string {
	collide := rnd.Chance(1, 8) // histories in which the random numbers may repeat
	offContract := rnd.Chance(1, 6)
	return func(w *hWorld, n int) string {
		kinds := []string{"nfs", "fuse"}
		number := func() uint64 {
			if collide {
				return uint64(1 + rnd.Intn(6))
			}
			for {
				v := uint64(1 + rnd.Intn(1000))
				if _, ok := w.used[v]; !ok {
					return v
				}
			}
		}
		var ids []int
		for id := 0; id < hMaxLeaves; id++ {
			if w.leaves[id] != nil {
				ids = append(ids, id)
			}
		}
		if len(ids) == 0 || (len(ids) < hMaxLeaves && rnd.Chance(1, 8)) {
			return fmt.Sprintf("H new %d %s %d %d", len(ids), kinds[rnd.Intn(2)], rnd.Intn(2), number())
		}
		l := w.leaves[ids[rnd.Intn(len(ids))]]
		switch rnd.Pick(20, 22, 14, 6, 8, 5, 12, 1, 3, 2, 3, 2, 2) {
		case 0:
			return fmt.Sprintf("H link %d", l.id)
		case 1:
			if l.entries == 0 && !(offContract && l.kind == "fuse" && rnd.Chance(1, 3)) {
				return fmt.Sprintf("H getattr %d %d", l.id, rnd.Intn(32))
			}
			return fmt.Sprintf("H unlink %d", l.id)
		case 2:
			return fmt.Sprintf("H getattr %d %d", l.id, rnd.Intn(32))
		case 3:
			return fmt.Sprintf("H setattr %d %d %d", l.id, rnd.Intn(32), b2i(rnd.Chance(1, 4)))
		case 4:
			return fmt.Sprintf("H open %d %d %d", l.id, rnd.Intn(32), b2i(rnd.Chance(1, 5)))
		case 5:
			return fmt.Sprintf("H close %d", l.id)
		case 6:
			if rnd.Chance(1, 6) {
				return fmt.Sprintf("H resolve %d", 1+rnd.Intn(1000))
			}
			return fmt.Sprintf("H resolve %d", l.n)
		case 7:
			return "H resolveshort"
		case 8:
			return fmt.Sprintf("H newdir %d %s %d", len(w.dirs), kinds[rnd.Intn(2)], number())
		case 9:
			return fmt.Sprintf("H dirattr %d", rnd.Intn(hMaxDirs))
		case 10:
			return fmt.Sprintf("H notify %d %d", rnd.Intn(hMaxDirs), rnd.Intn(5))
		case 11:
			return fmt.Sprintf("H release %d", rnd.Intn(hMaxDirs))
		default:
			return "H register"
		}
	}
}

const handlesRule = "handles: histories of <=60 ops on <=5 leaves and <=3 directory handles behind the real NFS and FUSE stateful handle allocators (scripted random numbers, 1/8 of the histories with colliding numbers), wrapped around recording fake leaves and around real pool-backed files (NewHandleAllocatingFileAllocator over NewPoolBackedFileAllocator): link/unlink (FUSE also below zero), getattr/setattr/open with every mask, close, ResolveHandle of live, dead, unknown and short handles, directory handles with removal notifiers and Release; every history ends with close-all + unlink-all + link/getattr/resolve on the dead leaves; non-trivial = a leaf lost its last entry after at least one accepted Link and a dead leaf refused a Link"

var fixedHandlesHistories = [][]string{
	{"H new 0 nfs 1 100", "H link 0", "H getattr 0 31", "H resolve 100", "H open 0 12 0", "H unlink 0", "H unlink 0", "H resolve 100", "H link 0", "H close 0", "H open 0 4 0"},
	{"H new 0 fuse 1 7", "H link 0", "H unlink 0", "H unlink 0", "H unlink 0", "H getattr 0 6", "H link 0", "H getattr 0 6"},
	{"H new 0 nfs 0 5", "H new 1 nfs 0 5", "H resolve 5", "H unlink 0", "H resolve 5", "H getattr 1 7"},
	{"H register", "H newdir 0 fuse 9", "H newdir 1 nfs 10", "H register", "H notify 0 3", "H notify 1 3", "H resolve 10", "H dirattr 0", "H dirattr 1", "H release 1", "H resolve 10", "H release 0"},
}

func isHandlesHistory(ops []string) bool {
	for _, op := range ops {
		if strings.HasPrefix(op, "H ") {
			return true
		}
	}
	return false
}

func handlesNontrivial(o *outcome) bool {
	return o.flags["h-last-unlink"] && o.flags["h-link-stale"]
}

const handlesMonitorName = "C16 monitor on the real handle allocators: the wrapped leaf / pool file is released exactly once and exactly when the last directory entry (and descriptor) disappears, Link/open on a released file fail with ESTALE, an NFS handle resolves to its leaf exactly while it has a directory entry (link_count_exact, unlink_forwarded_iff_last, resolve_exact, dead_link_fails_cleanly)"
const handlesCorrName = "correspondence Model/Handles.lean <-> nfs_handle_allocator.go / fuse_handle_allocator.go stateful paths (theorems of BbRe.Properties.C16Handles)"

// runHandles is called by TestHarness (C16 only).
func runHandles(o hx.Opts, res *hx.Result, replay []string) {
	drv, err := hx.StartDriver("handles")
	if err != nil {
		res.Report(hx.Finding{Kind: "mismatch", Property: "C16", Name: handlesCorrName,
			What: "cannot start model driver drv_handles: " + err.Error(), Sig: hx.Sig("C16", "handles", "driver")})
		return
	}
	defer func() { res.ModelLines += drv.Lines; drv.Close() }()
	account := func(out *outcome) {
		res.Evaluations += out.steps
		res.TracesVsImpl++
		for k := range out.flags {
			res.Count(k)
		}
		res.Count("handles-history")
		res.History(out.executed, handlesNontrivial(out))
	}
	report := func(ops []string, out outcome) {
		wantMonitor := out.monitor != ""
		fails := func(cand []string) bool {
			r := runHandlesHistory(cand, drv, nil)
			if wantMonitor {
				return r.monitor != ""
			}
			return r.monitor == "" && r.mismatch != ""
		}
		min := hx.Shrink(ops, fails)
		r := runHandlesHistory(min, drv, nil)
		f := hx.Finding{Property: "C16", History: min}
		if r.monitor != "" {
			f.Kind, f.What, f.Name = "violation", r.monitor, handlesMonitorName
		} else {
			f.Kind, f.What, f.Name = "mismatch", r.mismatch, handlesCorrName
			f.Expected, f.Actual = r.expected, r.actual
		}
		f.Sig = hx.Sig("C16", "handles", strings.Join(min, ";"))
		res.Report(f)
	}
	if replay != nil {
		out := runHandlesHistory(replay, drv, nil)
		account(&out)
		if out.monitor != "" || out.mismatch != "" {
			report(replay, out)
		}
		return
	}
	reported := 0
	handle := func(out outcome) {
		if (out.monitor != "" || out.mismatch != "") && reported < 3 {
			reported++
			report(out.executed, out)
		}
	}
	for _, h := range fixedHandlesHistories {
		out := runHandlesHistory(h, drv, nil)
		account(&out)
		handle(out)
	}
	n := 1500
	if o.Tier == "thorough" {
		n = 8000
	}
	n *= o.Scale
	rnd := hx.NewRand(o.Seed ^ 0x68616e646c6573)
	for i := 0; i < n && reported < 3; i++ {
		out := runHandlesHistory(nil, drv, makeHandlesGen(rnd))
		account(&out)
		handle(out)
	}
}
