package fileref

// Fakes for the C16 harness: an instrumented file pool (in-memory bytes, Close
// counter, use-after-Close detector, sticky fault switches), instrumented named
// attributes (Release counter), a Content Addressable Storage whose Put blocks
// until the harness completes it and that records the bytes it read, and the
// delay contexts of the bounded wait for writers.

import (
	"context"
	"errors"
	"fmt"
	"io"
	"sync"

	"github.com/buildbarn/bb-remote-execution/pkg/filesystem/pool"
	"github.com/buildbarn/bb-remote-execution/pkg/filesystem/virtual"
	"github.com/buildbarn/bb-storage/pkg/blobstore"
	"github.com/buildbarn/bb-storage/pkg/blobstore/buffer"
	"github.com/buildbarn/bb-storage/pkg/digest"
	"github.com/buildbarn/bb-storage/pkg/filesystem"

	"google.golang.org/grpc/codes"
	"google.golang.org/grpc/status"
)

var errReadFault = errors.New("injected read fault")
var errWriteFault = errors.New("injected write fault")
var errTruncateFault = errors.New("injected truncate fault")

// fakeFile is the pool file behind one writable file.
type fakeFile struct {
	mu         sync.Mutex
	data       []byte
	closes     int
	afterClose []string // accesses after Close()
	wf         int      // 0 none, 1 WriteAt writes nothing and fails, 2 writes half and fails
	tf, rf     bool
	mutations  int // calls that changed the contents
	reads      int
}

func (f *fakeFile) touch(what string) {
	if f.closes > 0 {
		f.afterClose = append(f.afterClose, what)
	}
}

func (f *fakeFile) ReadAt(p []byte, off int64) (int, error) {
	f.mu.Lock()
	defer f.mu.Unlock()
	f.touch("ReadAt")
	f.reads++
	if f.rf {
		return 0, errReadFault
	}
	if off < 0 {
		return 0, errors.New("negative offset")
	}
	if off >= int64(len(f.data)) {
		if len(p) == 0 {
			return 0, nil
		}
		return 0, io.EOF
	}
	n := copy(p, f.data[off:])
	if n < len(p) {
		return n, io.EOF
	}
	return n, nil
}

func (f *fakeFile) WriteAt(p []byte, off int64) (int, error) {
	f.mu.Lock()
	defer f.mu.Unlock()
	f.touch("WriteAt")
	n := len(p)
	var err error
	switch f.wf {
	case 0:
	case 1:
		n, err = 0, errWriteFault
	default:
		n, err = len(p)/2, errWriteFault
	}
	if n > 0 {
		end := int(off) + n
		if end > len(f.data) {
			f.data = append(f.data, make([]byte, end-len(f.data))...)
		}
		copy(f.data[off:], p[:n])
		f.mutations++
	}
	return n, err
}

func (f *fakeFile) Truncate(size int64) error {
	f.mu.Lock()
	defer f.mu.Unlock()
	f.touch("Truncate")
	if f.tf {
		return errTruncateFault
	}
	if int(size) <= len(f.data) {
		f.data = f.data[:size:size]
	} else {
		f.data = append(f.data, make([]byte, int(size)-len(f.data))...)
	}
	f.mutations++
	return nil
}

func (f *fakeFile) GetNextRegionOffset(off int64, regionType filesystem.RegionType) (int64, error) {
	f.mu.Lock()
	defer f.mu.Unlock()
	f.touch("GetNextRegionOffset")
	if off >= int64(len(f.data)) {
		return 0, io.EOF
	}
	if regionType == filesystem.Hole {
		return int64(len(f.data)), nil
	}
	return off, nil
}

func (f *fakeFile) Len() (int64, error) {
	f.mu.Lock()
	defer f.mu.Unlock()
	f.touch("Len")
	return int64(len(f.data)), nil
}

func (f *fakeFile) Sync() error {
	f.mu.Lock()
	defer f.mu.Unlock()
	f.touch("Sync")
	return nil
}

func (f *fakeFile) Close() error {
	f.mu.Lock()
	defer f.mu.Unlock()
	f.closes++
	return nil
}

func (f *fakeFile) snapshot() (data []byte, closes int, afterClose []string, mutations int) {
	f.mu.Lock()
	defer f.mu.Unlock()
	return append([]byte(nil), f.data...), f.closes, append([]string(nil), f.afterClose...), f.mutations
}

// fakePool hands out fakeFiles; the harness picks up the last one created.
type fakePool struct {
	mu   sync.Mutex
	last *fakeFile
	fail bool
}

func (p *fakePool) NewFile(holeSource pool.HoleSource, size uint64) (filesystem.FileReadWriter, error) {
	p.mu.Lock()
	defer p.mu.Unlock()
	if p.fail {
		return nil, status.Error(codes.ResourceExhausted, "injected pool fault")
	}
	f := &fakeFile{data: make([]byte, size)}
	p.last = f
	return f, nil
}

// fakeNamedAttributes counts Release() calls (released together with the pool file).
// With inner set it wraps the real in-memory named attributes (the ones the build
// directory installs), so that files can own a named attribute directory.
type fakeNamedAttributes struct {
	mu       sync.Mutex
	released int
	inner    virtual.NamedAttributes
}

func (na *fakeNamedAttributes) VirtualGetAttributes(requested virtual.AttributesMask, attributes *virtual.Attributes) {
	if na.inner != nil {
		na.inner.VirtualGetAttributes(requested, attributes)
	}
}

func (na *fakeNamedAttributes) VirtualOpenNamedAttributes(ctx context.Context, createDirectory bool, requested virtual.AttributesMask, attributes *virtual.Attributes) (virtual.Directory, virtual.Status) {
	if na.inner != nil {
		return na.inner.VirtualOpenNamedAttributes(ctx, createDirectory, requested, attributes)
	}
	return nil, virtual.StatusErrWrongType
}

func (na *fakeNamedAttributes) Release() {
	na.mu.Lock()
	na.released++
	na.mu.Unlock()
	if na.inner != nil {
		na.inner.Release()
	}
}

func (na *fakeNamedAttributes) count() int {
	na.mu.Lock()
	defer na.mu.Unlock()
	return na.released
}

type fakeNamedAttributesFactory struct {
	mu    sync.Mutex
	last  *fakeNamedAttributes
	inner virtual.NamedAttributesFactory
}

func (f *fakeNamedAttributesFactory) NewNamedAttributes() virtual.NamedAttributes {
	f.mu.Lock()
	defer f.mu.Unlock()
	f.last = &fakeNamedAttributes{}
	if f.inner != nil {
		f.last.inner = f.inner.NewNamedAttributes()
	}
	return f.last
}

type fakeErrorLogger struct {
	mu sync.Mutex
	n  int
}

func (l *fakeErrorLogger) Log(err error) {
	l.mu.Lock()
	l.n++
	l.mu.Unlock()
}

// ---- fake CAS ----

type tidKey struct{}

// ffKey: the pool file the upload reads (for the mutation counter at Put entry).
type ffKey struct{}

type putCall struct {
	t    int
	d    digest.Digest
	mut  int // mutation counter of the pool file when Put was entered (-1: unknown)
	done chan bool
}

type storedBlob struct {
	t    int
	d    digest.Digest
	data []byte
}

type fakeCAS struct {
	blobstore.BlobAccess
	mu      sync.Mutex
	pending map[int]*putCall
	stored  []storedBlob
	bad     string
}

func (c *fakeCAS) Put(ctx context.Context, d digest.Digest, b buffer.Buffer) error {
	t, ok := ctx.Value(tidKey{}).(int)
	if !ok {
		c.mu.Lock()
		c.bad = "Put called with a context that is not the one passed to ApplyUploadFile"
		c.mu.Unlock()
		b.Discard()
		return status.Error(codes.Internal, "bad context")
	}
	// like every real BlobAccess: a cancelled context makes Put fail (after
	// discarding the buffer it owns)
	if ctx.Err() != nil {
		b.Discard()
		return status.FromContextError(ctx.Err()).Err()
	}
	call := &putCall{t: t, d: d, mut: -1, done: make(chan bool, 1)}
	if ff, ok := ctx.Value(ffKey{}).(*fakeFile); ok {
		_, _, _, call.mut = ff.snapshot()
	}
	c.mu.Lock()
	if _, dup := c.pending[t]; dup {
		c.bad = fmt.Sprintf("two concurrent Put calls of upload %d", t)
	}
	c.pending[t] = call
	c.mu.Unlock()
	okDone := false
	select {
	case okDone = <-call.done:
	case <-ctx.Done():
		c.mu.Lock()
		delete(c.pending, t)
		c.mu.Unlock()
		b.Discard()
		return status.FromContextError(ctx.Err()).Err()
	}
	c.mu.Lock()
	delete(c.pending, t)
	c.mu.Unlock()
	if !okDone {
		b.Discard()
		return status.Error(codes.Unavailable, "injected CAS fault")
	}
	data, err := b.ToByteSlice(1 << 20)
	if err != nil {
		return err
	}
	c.mu.Lock()
	c.stored = append(c.stored, storedBlob{t: t, d: d, data: append([]byte(nil), data...)})
	c.mu.Unlock()
	return nil
}

func (c *fakeCAS) pendingOf(t int) *putCall {
	c.mu.Lock()
	defer c.mu.Unlock()
	return c.pending[t]
}

func (c *fakeCAS) storedOf(t int) *storedBlob {
	c.mu.Lock()
	defer c.mu.Unlock()
	for i := range c.stored {
		if c.stored[i].t == t {
			return &c.stored[i]
		}
	}
	return nil
}

// ---- delay contexts (local_build_executor.go: clock.NewContextWithTimeout(...).Done()) ----

type delays struct {
	ctx    [2]context.Context
	cancel [2]context.CancelFunc
	fired  [2]bool
}

func newDelays() *delays {
	d := &delays{}
	for i := range d.ctx {
		d.ctx[i], d.cancel[i] = context.WithCancel(context.Background())
	}
	return d
}

// channel returns the delay channel k, or nil (no bound) for k < 0.
func (d *delays) channel(k int) <-chan struct{} {
	if k < 0 || k >= len(d.ctx) {
		return nil
	}
	return d.ctx[k].Done()
}

func (d *delays) fire(k int) {
	if k >= 0 && k < len(d.ctx) {
		d.fired[k] = true
		d.cancel[k]()
	}
}

func (d *delays) cancelAll() {
	for i := range d.cancel {
		d.cancel[i]()
	}
}
