// Package fileref is the C16 correspondence harness (see harness_test.go); it is built with `go test -c`.
package fileref
