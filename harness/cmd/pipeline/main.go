// Command pipeline ties Model/Pipeline.lean to the real result pipeline of the
// worker (property C09):
//
//	NewCachingBuildExecutor(spy(NewStorageFlushingBuildExecutor(inner, flusher)), CAS, AC, url)
//
// with the real NewBatchedStoreBlobAccess over fake CAS / AC BlobAccess
// implementations with per-call fault injection (errors and cancellation of the
// execution's context).  `inner` is a scripted executor that Puts blobs through
// the batched store and returns a scripted response; `spy` only records the
// response that reaches the caching layer.
//
// Per run the harness (1) sends every batched-store call, the flusher call and
// the caching step to the compiled Lean model and compares return codes, CAS
// contents, consumed buffers, the response between the layers, the final
// response and the Action Cache; (2) judges C09 on the implementation's own
// observations (monitor), independent of the model.
package main

import (
	"context"
	"fmt"
	"net/url"
	"os"
	"sort"
	"strconv"
	"strings"
	"sync"
	"sync/atomic"
	"time"

	remoteexecution "github.com/bazelbuild/remote-apis/build/bazel/remote/execution/v2"
	re_blobstore "github.com/buildbarn/bb-remote-execution/pkg/blobstore"
	"github.com/buildbarn/bb-remote-execution/pkg/builder"
	"github.com/buildbarn/bb-remote-execution/pkg/filesystem/access"
	"github.com/buildbarn/bb-remote-execution/pkg/filesystem/pool"
	"github.com/buildbarn/bb-remote-execution/pkg/proto/remoteworker"
	"github.com/buildbarn/bb-storage/pkg/blobstore"
	"github.com/buildbarn/bb-storage/pkg/blobstore/buffer"
	"github.com/buildbarn/bb-storage/pkg/blobstore/slicing"
	"github.com/buildbarn/bb-storage/pkg/digest"
	"golang.org/x/sync/semaphore"
	rpcstatus "google.golang.org/genproto/googleapis/rpc/status"
	"google.golang.org/grpc/codes"
	"google.golang.org/grpc/status"
	"google.golang.org/protobuf/types/known/anypb"

	"verifharness/internal/hx"
)

const instance = "inst"

var digestFunction = digest.MustNewFunction(instance, remoteexecution.DigestFunction_SHA256)

// ---------------------------------------------------------------- digests

func sizeOf(n int) int64 { return int64(1 + n%5) }

func digestProto(n int) *remoteexecution.Digest {
	return &remoteexecution.Digest{Hash: fmt.Sprintf("%064x", n), SizeBytes: sizeOf(n)}
}

func digestOf(n int) digest.Digest {
	return digest.MustNewDigest(instance, remoteexecution.DigestFunction_SHA256, fmt.Sprintf("%064x", n), sizeOf(n))
}

// idOfHash maps a digest back to the script's small integer; 0 = not a script digest.
func idOfHash(hash string, size int64) int {
	n, err := strconv.ParseUint(hash, 16, 32)
	if err != nil || n == 0 || n > 100000 {
		return 0
	}
	if strings.TrimLeft(hash, "0") != strconv.FormatUint(n, 16) || sizeOf(int(n)) != size {
		return 0
	}
	return int(n)
}

func idOf(d digest.Digest) int { return idOfHash(d.GetHashString(), d.GetSizeBytes()) }

func idOfProto(d *remoteexecution.Digest) int {
	if d == nil {
		return 0
	}
	return idOfHash(d.Hash, d.SizeBytes)
}

const actionBase = 50000

// ---------------------------------------------------------------- specs

// fault kinds: an error code; cancel = cancel the execution's context and fail
// the call with Canceled; late = let the call succeed and cancel the context
// afterwards (the cancellation then hits the batched store between two storage
// calls, typically while it waits for an upload slot).
type fault struct {
	cancel bool
	late   bool
	code   int
}

// aware: the fake stores fail every call made with a cancelled context (as gRPC
// clients do); otherwise they ignore the context (as many BlobAccess
// implementations do).
type storeSpec struct {
	bs, sem int
	cas     []int
	aware   bool
}

type execSpec struct {
	dv, ap, dnc    bool
	act            int
	puts           []int
	st, ex         int
	okRepr         int // how success is represented: 0 Status unset, 1 explicit Status{code: OK}, 2 explicit OK with a message
	files, dirs    []int
	stdout, stderr int
	logs           []int
	honest         bool
	hold           int // upload slots of the shared put semaphore held by another worker thread
	faults         map[int]fault
}

func csv(l []int) string {
	if len(l) == 0 {
		return "-"
	}
	s := make([]string, len(l))
	for i, x := range l {
		s[i] = strconv.Itoa(x)
	}
	return strings.Join(s, ",")
}

func parseCSV(s string) []int {
	if s == "-" || s == "" {
		return nil
	}
	var out []int
	for _, p := range strings.Split(s, ",") {
		if n, err := strconv.Atoi(p); err == nil {
			out = append(out, n)
		}
	}
	return out
}

func opt(n int) string {
	if n == 0 {
		return "-"
	}
	return strconv.Itoa(n)
}

func b01(b bool) string {
	if b {
		return "1"
	}
	return "0"
}

func (s storeSpec) String() string {
	return fmt.Sprintf("store bs=%d sem=%d aware=%s cas=%s", s.bs, s.sem, b01(s.aware), csv(s.cas))
}

func (e execSpec) String() string {
	keys := make([]int, 0, len(e.faults))
	for k := range e.faults {
		keys = append(keys, k)
	}
	sort.Ints(keys)
	fs := make([]string, 0, len(keys))
	for _, k := range keys {
		f := e.faults[k]
		if f.cancel {
			fs = append(fs, fmt.Sprintf("%d:c", k))
		} else if f.late {
			fs = append(fs, fmt.Sprintf("%d:w", k))
		} else {
			fs = append(fs, fmt.Sprintf("%d:%d", k, f.code))
		}
	}
	faults := "-"
	if len(fs) > 0 {
		faults = strings.Join(fs, ",")
	}
	st := strconv.Itoa(e.st)
	if e.st == 0 && e.okRepr == 1 {
		st = "ok"
	} else if e.st == 0 && e.okRepr == 2 {
		st = "okm"
	}
	return fmt.Sprintf("exec dv=%s ap=%s dnc=%s act=%d puts=%s st=%s ex=%d f=%s d=%s o=%s e=%s l=%s honest=%s hold=%d faults=%s",
		b01(e.dv), b01(e.ap), b01(e.dnc), e.act, csv(e.puts), st, e.ex, csv(e.files), csv(e.dirs),
		opt(e.stdout), opt(e.stderr), csv(e.logs), b01(e.honest), e.hold, faults)
}

func kv(fields []string) map[string]string {
	m := map[string]string{}
	for _, f := range fields {
		if i := strings.IndexByte(f, '='); i > 0 {
			m[f[:i]] = f[i+1:]
		}
	}
	return m
}

func atoi(s string) int { n, _ := strconv.Atoi(s); return n }

func parseStore(line string) (storeSpec, bool) {
	f := strings.Fields(line)
	if len(f) == 0 || f[0] != "store" {
		return storeSpec{}, false
	}
	m := kv(f[1:])
	s := storeSpec{bs: atoi(m["bs"]), sem: atoi(m["sem"]), cas: parseCSV(m["cas"]), aware: m["aware"] != "0"}
	if s.sem < 1 {
		s.sem = 1
	}
	return s, true
}

func parseExec(line string) (execSpec, bool) {
	f := strings.Fields(line)
	if len(f) == 0 || f[0] != "exec" {
		return execSpec{}, false
	}
	m := kv(f[1:])
	e := execSpec{dv: m["dv"] == "1", ap: m["ap"] == "1", dnc: m["dnc"] == "1", act: atoi(m["act"]),
		puts: parseCSV(m["puts"]), st: atoi(m["st"]), ex: atoi(m["ex"]), files: parseCSV(m["f"]), dirs: parseCSV(m["d"]),
		stdout: atoi(m["o"]), stderr: atoi(m["e"]), logs: parseCSV(m["l"]), honest: m["honest"] == "1",
		hold: atoi(m["hold"]), faults: map[int]fault{}}
	switch m["st"] {
	case "ok":
		e.okRepr = 1
	case "okm":
		e.okRepr = 2
	}
	if fs := m["faults"]; fs != "" && fs != "-" {
		for _, p := range strings.Split(fs, ",") {
			if i := strings.IndexByte(p, ':'); i > 0 {
				k := atoi(p[:i])
				if p[i+1:] == "c" {
					e.faults[k] = fault{cancel: true, code: int(codes.Canceled)}
				} else if p[i+1:] == "w" {
					e.faults[k] = fault{late: true}
				} else {
					e.faults[k] = fault{code: atoi(p[i+1:])}
				}
			}
		}
	}
	return e, true
}

// ---------------------------------------------------------------- fakes

type call struct {
	ac      bool
	op      string // "fm" | "put"
	digests []int
	missing int // FindMissing: number of digests reported missing
	code    int
	phase   string
}

type acWrite struct {
	action      int
	entry       string // canonical
	stored      bool
	code        int
	missingRefs []int // referenced digests not in the CAS at the time of the call
	refs        []int
	exitCode    int32
	priorFail   bool
}

type env struct {
	mu      sync.Mutex
	idx     int
	faults  map[int]fault
	hit     int
	cancel  context.CancelFunc
	calls   []call
	mark    int
	phase   string
	cas     map[string]bool
	casIDs  map[int]bool
	hist    int
	histTry int
	acTry   int
	acLog   []acWrite // all AC Put calls of the history
	acData  map[string][]byte
	aware   bool
	ctx     context.Context // the execution's context
	late    bool            // the current call is to be followed by a cancellation
	sem     *semaphore.Weighted
	semSize int
	held    int // slots held by the "other worker thread"
	yielded int
}

func newEnv() *env {
	return &env{cas: map[string]bool{}, casIDs: map[int]bool{}, acData: map[string][]byte{}}
}

func (e *env) anyFailure() bool {
	for _, c := range e.calls {
		if c.code != 0 {
			return true
		}
	}
	return false
}

// outcome decides the result of the next storage call (caller holds e.mu).
func (e *env) outcome(ctx context.Context) int {
	e.idx++
	e.late = false
	dead := e.aware && ctx.Err() != nil
	if f, ok := e.faults[e.idx]; ok && !dead {
		e.hit++
		switch {
		case f.cancel:
			e.cancel()
			return int(codes.Canceled)
		case f.late:
			e.late = true
			return 0
		}
		return f.code
	}
	if dead {
		return int(status.FromContextError(ctx.Err()).Code())
	}
	return 0
}

// afterSuccess runs at the end of a successful storage call (caller holds e.mu).
// willWait: the batched store is about to ask for an upload slot.
func (e *env) afterSuccess(willWait bool) {
	allHeld := e.held > 0 && e.held == e.semSize
	switch {
	case e.late && willWait && allHeld:
		// the flush blocks in semaphore.Acquire (every slot is held by the other
		// thread) until the context is cancelled
		time.AfterFunc(300*time.Microsecond, e.cancel)
	case e.late:
		e.cancel()
	case willWait && allHeld && e.ctx.Err() == nil:
		// nobody is going to cancel: the other thread finishes one of its uploads
		e.sem.Release(1)
		e.held--
		e.yielded++
	}
	e.late = false
}

type fakeStore struct {
	e    *env
	isAC bool
}

func (s *fakeStore) GetCapabilities(ctx context.Context, instanceName digest.InstanceName) (*remoteexecution.ServerCapabilities, error) {
	return nil, status.Error(codes.Unimplemented, "not used")
}

func (s *fakeStore) Get(ctx context.Context, d digest.Digest) buffer.Buffer {
	return buffer.NewBufferFromError(status.Error(codes.NotFound, "fake"))
}

func (s *fakeStore) GetFromComposite(ctx context.Context, parent, child digest.Digest, slicer slicing.BlobSlicer) buffer.Buffer {
	return buffer.NewBufferFromError(status.Error(codes.NotFound, "fake"))
}

func (s *fakeStore) FindMissing(ctx context.Context, digests digest.Set) (digest.Set, error) {
	e := s.e
	e.mu.Lock()
	defer e.mu.Unlock()
	code := e.outcome(ctx)
	ids := []int{}
	for _, d := range digests.Items() {
		ids = append(ids, idOf(d))
	}
	if code != 0 {
		e.calls = append(e.calls, call{ac: s.isAC, op: "fm", digests: ids, code: code, phase: e.phase})
		return digest.EmptySet, status.Error(codes.Code(code), "injected")
	}
	sb := digest.NewSetBuilder(0)
	for _, d := range digests.Items() {
		if !e.cas[d.String()] {
			sb.Add(d)
		}
	}
	e.calls = append(e.calls, call{ac: s.isAC, op: "fm", digests: ids, missing: sb.Length(), phase: e.phase})
	e.afterSuccess(sb.Length() > 0 && e.phase != "caching")
	return sb.Build(), nil
}

func (s *fakeStore) Put(ctx context.Context, d digest.Digest, b buffer.Buffer) error {
	e := s.e
	e.mu.Lock()
	defer e.mu.Unlock()
	code := e.outcome(ctx)
	id := idOf(d)
	if s.isAC {
		e.acTry++
		w := acWrite{action: id - actionBase, code: code, priorFail: e.anyFailure()}
		m, err := b.ToProto(&remoteexecution.ActionResult{}, 1<<20)
		if err != nil {
			w.entry = "undecodable"
		} else {
			ar := m.(*remoteexecution.ActionResult)
			files, dirs, so, se := resultDigests(ar)
			w.entry = fmt.Sprintf("%d/%d/%s/%s/%s/%s", w.action, ar.ExitCode, csv(files), csv(dirs), opt(so), opt(se))
			w.exitCode = ar.ExitCode
			w.refs = append(append(append([]int{}, files...), dirs...), so, se)
			for _, r := range w.refs {
				if r != 0 && !e.casIDs[r] {
					w.missingRefs = append(w.missingRefs, r)
				}
			}
		}
		w.stored = code == 0
		e.acLog = append(e.acLog, w)
		e.calls = append(e.calls, call{ac: true, op: "put", digests: []int{id}, code: code, phase: e.phase})
		if code != 0 {
			return status.Error(codes.Code(code), "injected")
		}
		e.afterSuccess(false)
		return nil
	}
	e.calls = append(e.calls, call{op: "put", digests: []int{id}, code: code, phase: e.phase})
	if id == 0 {
		e.histTry++
	}
	if code != 0 {
		b.Discard()
		return status.Error(codes.Code(code), "injected")
	}
	if _, err := b.ToByteSlice(1 << 20); err != nil {
		return err
	}
	e.cas[d.String()] = true
	if id == 0 {
		e.hist++
	} else {
		e.casIDs[id] = true
	}
	e.afterSuccess(false)
	return nil
}

var _ blobstore.BlobAccess = (*fakeStore)(nil)

func resultDigests(ar *remoteexecution.ActionResult) (files, dirs []int, so, se int) {
	for _, f := range ar.GetOutputFiles() {
		files = append(files, idOfProto(f.Digest))
	}
	for _, d := range ar.GetOutputDirectories() {
		if d.TreeDigest != nil {
			dirs = append(dirs, idOfProto(d.TreeDigest))
		}
		if d.RootDirectoryDigest != nil {
			dirs = append(dirs, idOfProto(d.RootDirectoryDigest))
		}
	}
	return files, dirs, idOfProto(ar.GetStdoutDigest()), idOfProto(ar.GetStderrDigest())
}

func messageKind(m string) int {
	switch {
	case m == "":
		return 0
	case strings.Contains(m, "historical_execute_response"):
		return 2
	case strings.Contains(m, "/action/"):
		return 1
	}
	return 3
}

func canonResp(r *remoteexecution.ExecuteResponse) string {
	if r == nil {
		return "nil-response"
	}
	if r.Result == nil {
		return fmt.Sprintf("st=%d nil-result", r.GetStatus().GetCode())
	}
	files, dirs, so, se := resultDigests(r.Result)
	names := make([]string, 0, len(r.ServerLogs))
	for k := range r.ServerLogs {
		names = append(names, k)
	}
	sort.Strings(names)
	logs := []int{}
	for _, k := range names {
		logs = append(logs, idOfProto(r.ServerLogs[k].GetDigest()))
	}
	return fmt.Sprintf("st=%d ex=%d f=%s d=%s o=%s e=%s l=%s m=%d", r.GetStatus().GetCode(), r.Result.ExitCode,
		csv(files), csv(dirs), opt(so), opt(se), csv(logs), messageKind(r.Message))
}

// tracked is the reader behind every buffer handed to the batched store.
type tracked struct {
	id     int
	data   []byte
	closes int32
}

func (t *tracked) ReadAt(p []byte, off int64) (int, error) {
	if off >= int64(len(t.data)) {
		return 0, fmt.Errorf("EOF")
	}
	return copy(p, t.data[off:]), nil
}

func (t *tracked) Close() error { atomic.AddInt32(&t.closes, 1); return nil }

// ---------------------------------------------------------------- the run

type outcome struct {
	monitor  string
	mismatch string
	expected string
	actual   string
	flags    map[string]bool
	steps    int
	calls    []int // number of storage calls per execution
}

type runner struct {
	drv     *hx.Driver
	out     *outcome
	e       *env
	batched blobstore.BlobAccess
	flush   func(context.Context) error
	bufs    []*tracked
	spec    *execSpec
	// per execution
	putCodes    []int
	acked       map[int]bool
	attempted   map[int]bool
	innerResp   string
	flushCode   int
	flushTrace  string
	flushCalled int
	flushCAS    map[int]bool
	flushedResp string
}

func (r *runner) violation(format string, a ...any) {
	if r.out.monitor == "" {
		r.out.monitor = fmt.Sprintf(format, a...)
	}
}

func (r *runner) ask(line, actual string) {
	r.out.steps++
	if r.drv == nil || r.out.mismatch != "" {
		return
	}
	exp, err := r.drv.Ask(line)
	if err != nil {
		exp = "driver-error " + err.Error()
	}
	if exp != actual {
		r.out.mismatch = "pipeline correspondence: " + line
		r.out.expected, r.out.actual = exp, actual
	}
}

// trace renders the storage calls made since the last mark as oracle tokens.
func (r *runner) trace() string {
	e := r.e
	e.mu.Lock()
	defer e.mu.Unlock()
	fm := "-"
	var ps []string
	missing, issued := 0, 0
	for _, c := range e.calls[e.mark:] {
		if c.ac {
			ps = append(ps, "ac-call-in-batched-store")
			continue
		}
		switch c.op {
		case "fm":
			if fm != "-" {
				ps = append(ps, "second-findmissing")
			}
			ids := append([]int(nil), c.digests...)
			sort.Ints(ids)
			fm = fmt.Sprintf("fm:%d:%s", c.code, csv(ids))
			missing = c.missing
		case "put":
			ps = append(ps, fmt.Sprintf("p:%d:%d", c.digests[0], c.code))
			issued++
		}
		if c.op == "put" {
			r.out.flags["underlying-put"] = true
		}
	}
	e.mark = len(e.calls)
	if issued < missing {
		// The only way a blob reported missing is not uploaded: the wait for an
		// upload slot failed.  Which context was cancelled is what the harness saw.
		why := "g"
		if e.ctx.Err() != nil {
			why = "c"
		}
		ps = append(ps, fmt.Sprintf("a:%d:%s", int(codes.Canceled), why))
		r.out.flags["upload-slot-wait-failed-"+why] = true
	}
	return strings.TrimSpace(fm + " " + strings.Join(ps, " "))
}

func (r *runner) storeState() string {
	e := r.e
	e.mu.Lock()
	ids := make([]int, 0, len(e.casIDs))
	for id := range e.casIDs {
		ids = append(ids, id)
	}
	e.mu.Unlock()
	sort.Ints(ids)
	var consumed []int
	for _, t := range r.bufs {
		for i := int32(0); i < atomic.LoadInt32(&t.closes); i++ {
			consumed = append(consumed, t.id)
		}
	}
	return fmt.Sprintf("cas=%s consumed=%s", csv(ids), csv(consumed))
}

func (r *runner) casSnapshot() map[int]bool {
	e := r.e
	e.mu.Lock()
	defer e.mu.Unlock()
	m := map[int]bool{}
	for id := range e.casIDs {
		m[id] = true
	}
	return m
}

// inner is the scripted executor.
type inner struct{ r *runner }

func (i *inner) CheckReadiness(ctx context.Context) error { return nil }

func (i *inner) Execute(ctx context.Context, filePool pool.FilePool, monitor access.UnreadDirectoryMonitor, df digest.Function, request *remoteworker.DesiredState_Executing, updates chan<- *remoteworker.CurrentState_Executing) *remoteexecution.ExecuteResponse {
	r, spec := i.r, i.r.spec
	firstErr := 0
	for _, d := range spec.puts {
		t := &tracked{id: len(r.bufs) + 1, data: make([]byte, sizeOf(d))}
		r.bufs = append(r.bufs, t)
		err := r.batched.Put(ctx, digestOf(d), buffer.NewValidatedBufferFromReaderAt(t, int64(len(t.data))))
		code := int(status.Code(err))
		r.putCodes = append(r.putCodes, code)
		r.attempted[d] = true
		if code == 0 {
			r.acked[d] = true
		} else if firstErr == 0 {
			firstErr = code
		}
		r.ask(fmt.Sprintf("put %d %d w=%d %s", d, t.id, code, r.trace()), fmt.Sprintf("r=%d adm=ok %s", code, r.storeState()))
	}
	resp := &remoteexecution.ExecuteResponse{
		Result: &remoteexecution.ActionResult{
			ExecutionMetadata: &remoteexecution.ExecutedActionMetadata{
				AuxiliaryMetadata: append([]*anypb.Any(nil), request.AuxiliaryMetadata...),
			},
			ExitCode: int32(spec.ex),
		},
		ServerLogs: map[string]*remoteexecution.LogFile{},
	}
	for k, f := range spec.files {
		resp.Result.OutputFiles = append(resp.Result.OutputFiles, &remoteexecution.OutputFile{Path: fmt.Sprintf("out%d", k), Digest: digestProto(f)})
	}
	for k := 0; k < len(spec.dirs); k += 2 {
		od := &remoteexecution.OutputDirectory{Path: fmt.Sprintf("dir%d", k), TreeDigest: digestProto(spec.dirs[k])}
		if k+1 < len(spec.dirs) {
			od.RootDirectoryDigest = digestProto(spec.dirs[k+1])
		}
		resp.Result.OutputDirectories = append(resp.Result.OutputDirectories, od)
	}
	if spec.stdout != 0 {
		resp.Result.StdoutDigest = digestProto(spec.stdout)
	}
	if spec.stderr != 0 {
		resp.Result.StderrDigest = digestProto(spec.stderr)
	}
	for k, l := range spec.logs {
		resp.ServerLogs[fmt.Sprintf("log%02d", k)] = &remoteexecution.LogFile{Digest: digestProto(l)}
	}
	if spec.st != 0 {
		resp.Status = status.New(codes.Code(spec.st), "scripted").Proto()
	} else if spec.okRepr == 1 {
		resp.Status = &rpcstatus.Status{Code: int32(codes.OK)}
	} else if spec.okRepr == 2 {
		resp.Status = &rpcstatus.Status{Code: int32(codes.OK), Message: "action completed"}
	}
	if spec.st == 0 && spec.honest && firstErr != 0 {
		// what localBuildExecutor does with a failing upload
		resp.Status = status.New(codes.Code(firstErr), "upload failed").Proto()
	}
	r.innerResp = canonResp(resp)
	files, dirs, so, se := resultDigests(resp.Result)
	stTok := "-"
	switch {
	case resp.Status == nil:
	case resp.Status.Code != 0:
		stTok = strconv.Itoa(int(resp.Status.Code))
	case resp.Status.Message != "":
		stTok = "okm"
	default:
		stTok = "ok"
	}
	r.ask(fmt.Sprintf("inner %s %d %s %s %s %s %s", stTok, spec.ex, csv(files), csv(dirs), opt(so), opt(se), csv(spec.logs)), "ok")
	return resp
}

// spy records what reaches the caching layer.
type spy struct {
	builder.BuildExecutor
	r *runner
}

func (s *spy) Execute(ctx context.Context, filePool pool.FilePool, monitor access.UnreadDirectoryMonitor, df digest.Function, request *remoteworker.DesiredState_Executing, updates chan<- *remoteworker.CurrentState_Executing) *remoteexecution.ExecuteResponse {
	resp := s.BuildExecutor.Execute(ctx, filePool, monitor, df, request, updates)
	r := s.r
	r.flushedResp = canonResp(resp)
	if r.flushCalled == 1 {
		r.ask(fmt.Sprintf("flush w=%d %s", r.flushCode, r.flushTrace), fmt.Sprintf("r=%d adm=ok %s resp: %s", r.flushCode, r.storeState(), r.flushedResp))
	} else {
		// the model flushes exactly once per execution; anything else is a disagreement, not a verdict
		r.ask(fmt.Sprintf("flusher-called %d times", r.flushCalled), "ok")
	}
	r.e.mu.Lock()
	r.e.phase = "caching"
	r.e.mu.Unlock()
	return resp
}

func (r *runner) wrappedFlusher(ctx context.Context) error {
	r.e.mu.Lock()
	r.e.phase = "flusher"
	r.e.mu.Unlock()
	err := r.flush(ctx)
	r.flushCalled++
	if c := int(status.Code(err)); c != 0 || r.flushCalled == 1 {
		r.flushCode = c // with several calls: the last error reported
	}
	r.flushTrace = r.trace()
	r.flushCAS = r.casSnapshot()
	return err
}

func requestOf(spec *execSpec) *remoteworker.DesiredState_Executing {
	req := &remoteworker.DesiredState_Executing{}
	if spec.dv {
		req.ActionDigest = digestProto(actionBase + spec.act)
	} else {
		req.ActionDigest = &remoteexecution.Digest{Hash: "not-a-hash", SizeBytes: 1}
	}
	if spec.ap {
		req.Action = &remoteexecution.Action{DoNotCache: spec.dnc}
	}
	return req
}

// run executes a history on the real pipeline (and on the model when drv != nil).
func run(lines []string, drv *hx.Driver) (out outcome) {
	out.flags = map[string]bool{}
	st := storeSpec{bs: 1, sem: 1}
	var execs []execSpec
	for _, l := range lines {
		if s, ok := parseStore(l); ok {
			st = s
		} else if e, ok := parseExec(l); ok {
			execs = append(execs, e)
		}
	}
	e := newEnv()
	e.aware = st.aware
	e.semSize = st.sem
	e.sem = semaphore.NewWeighted(int64(st.sem))
	for _, d := range st.cas {
		e.cas[digestOf(d).String()] = true
		e.casIDs[d] = true
	}
	r := &runner{drv: drv, out: &out, e: e}
	cas := &fakeStore{e: e}
	ac := &fakeStore{e: e, isAC: true}
	r.batched, r.flush = re_blobstore.NewBatchedStoreBlobAccess(cas, digest.KeyWithoutInstance, st.bs, e.sem)
	browserURL, _ := url.Parse("http://browser/")
	exec := builder.NewCachingBuildExecutor(
		&spy{BuildExecutor: builder.NewStorageFlushingBuildExecutor(&inner{r: r}, r.wrappedFlusher), r: r},
		cas, ac, browserURL)
	sortedCAS := append([]int(nil), st.cas...)
	sort.Ints(sortedCAS)
	r.ask(fmt.Sprintf("reset %d %s", st.bs, csv(sortedCAS)), "ok")

	for k := range execs {
		spec := &execs[k]
		r.spec = spec
		r.putCodes, r.acked, r.attempted = nil, map[int]bool{}, map[int]bool{}
		r.flushCalled, r.flushCode, r.flushTrace, r.flushedResp, r.innerResp = 0, 0, "", "", ""
		ctx, cancel := context.WithCancel(context.Background())
		e.mu.Lock()
		e.idx, e.faults, e.cancel, e.calls, e.mark, e.phase = 0, spec.faults, cancel, nil, 0, "inner"
		e.ctx, e.late, e.held = ctx, false, 0
		if spec.hold > 0 { // the other worker thread is in the middle of its own uploads
			h := spec.hold
			if h > st.sem {
				h = st.sem
			}
			if e.sem.TryAcquire(int64(h)) {
				e.held = h
			}
		}
		yieldedBefore := e.yielded
		hitBefore := e.hit
		acBefore := len(e.acLog)
		e.mu.Unlock()
		firstBuf := len(r.bufs)
		r.ask("begin", "ok")

		var final *remoteexecution.ExecuteResponse
		func() {
			defer func() {
				if p := recover(); p != nil {
					r.violation("panic in the pipeline: %v", p)
				}
			}()
			final = exec.Execute(ctx, nil, nil, digestFunction, requestOf(spec), nil)
		}()
		e.mu.Lock()
		if e.held > 0 { // ... and finishes them after this execution
			e.sem.Release(int64(e.held))
			if e.held == st.sem {
				out.flags["all-upload-slots-held-elsewhere"] = true
			}
			e.held = 0
		}
		if e.yielded > yieldedBefore {
			out.flags["other-thread-yielded-a-slot"] = true
		}
		e.mu.Unlock()
		cancel()
		if final == nil {
			return
		}

		// ---- what the caching layer did
		e.mu.Lock()
		callTok := "none"
		var cachingCalls int
		for _, c := range e.calls {
			if c.phase != "caching" {
				continue
			}
			cachingCalls++
			if c.ac {
				callTok = fmt.Sprintf("ac:%d", c.code)
			} else if c.op == "put" {
				callTok = fmt.Sprintf("hist:%d", c.code)
			} else {
				callTok = "findmissing-in-caching-layer"
			}
		}
		acs := []string{}
		for _, w := range e.acLog {
			if w.stored {
				acs = append(acs, w.entry)
			}
		}
		acStr := "-"
		if len(acs) > 0 {
			acStr = strings.Join(acs, ";")
		}
		acTry, hist, histTry := e.acTry, e.hist, e.histTry
		ncalls := len(e.calls)
		hits := e.hit - hitBefore
		newAC := append([]acWrite(nil), e.acLog[acBefore:]...)
		failed := []call{}
		for _, c := range e.calls {
			if c.code != 0 {
				failed = append(failed, c)
			}
		}
		e.mu.Unlock()
		out.calls = append(out.calls, ncalls)
		if cachingCalls > 1 {
			callTok = "several-calls-in-caching-layer"
		}
		finalStr := canonResp(final)
		r.ask(fmt.Sprintf("finish %s %s %s %d %s", b01(spec.dv), b01(spec.ap), b01(spec.dnc), spec.act, callTok),
			fmt.Sprintf("adm=ok final: %s ac=%s accalls=%d hist=%d histcalls=%d %s whole=ok", finalStr, acStr, acTry, hist, histTry, r.storeState()))

		// ---- flags for the non-triviality rule and the histogram
		if hits > 0 {
			out.flags["fault-hit"] = true
		}
		for _, w := range newAC {
			if w.stored {
				out.flags["ac-written"] = true
			}
		}
		if r.flushCode != 0 {
			out.flags["flush-error"] = true
		}
		for _, c := range r.putCodes {
			if c != 0 {
				out.flags["put-error"] = true
			}
		}
		if strings.Contains(callTok, "hist") {
			out.flags["uncached"] = true
		}

		// ---- monitor: C09 judged on the implementation's observations only
		finalCode := int(final.GetStatus().GetCode())
		putFailed := false
		for _, c := range r.putCodes {
			if c != 0 {
				putFailed = true
			}
		}
		batchedFailure := false // a storage call below the batched store failed
		for _, c := range failed {
			if c.phase != "caching" {
				batchedFailure = true
			}
		}
		if len(newAC) > 1 {
			r.violation("%d Action Cache writes during one execution", len(newAC))
		}
		for _, w := range newAC {
			switch {
			case !spec.dv || !spec.ap:
				r.violation("Action Cache write for a request without valid action digest/action")
			case spec.dnc:
				r.violation("Action Cache write for an action with do_not_cache")
			case spec.st != 0:
				r.violation("Action Cache write although the executor reported status %d", spec.st)
			case spec.ex != 0 || w.exitCode != 0:
				r.violation("Action Cache write for exit code %d", spec.ex)
			case putFailed:
				r.violation("Action Cache write although a Put of an output returned an error")
			case r.flushCode != 0:
				r.violation("Action Cache write although the flush returned error code %d", r.flushCode)
			case w.priorFail:
				r.violation("Action Cache write although a storage call of this execution had failed")
			}
			for _, d := range w.missingRefs {
				if r.attempted[d] {
					r.violation("Action Cache entry %s written while referenced blob %d (Put by the executor) is not in the CAS", w.entry, d)
				}
			}
		}
		if batchedFailure || putFailed {
			if r.flushCode == 0 {
				r.violation("a storage failure below the batched store (or a failed Put) was not reported by the flush")
			}
		}
		if batchedFailure || putFailed || r.flushCode != 0 || len(failed) > 0 {
			if finalCode == 0 {
				r.violation("storage failure during the execution but the final response has status OK")
			}
			for _, w := range newAC {
				if w.stored {
					r.violation("storage failure during the execution but an Action Cache entry was stored")
				}
			}
		}
		if r.flushCode != 0 {
			res := final.Result
			if res != nil && (len(res.OutputFiles) > 0 || len(res.OutputDirectories) > 0 || res.StdoutDigest != nil || res.StderrDigest != nil) || len(final.ServerLogs) > 0 {
				r.violation("flush failed (code %d) but the response still advertises outputs: %s", r.flushCode, finalStr)
			}
		}
		if r.flushCalled >= 1 && r.flushCode == 0 {
			for _, d := range spec.puts {
				if r.acked[d] && !r.flushCAS[d] {
					r.violation("Put(%d) was acknowledged and the flush returned nil, but the blob is not in the CAS", d)
				}
			}
		}
		for _, t := range r.bufs[firstBuf:] {
			if n := atomic.LoadInt32(&t.closes); n != 1 {
				r.violation("buffer %d handed to the batched store was consumed %d times", t.id, n)
			}
		}
		if out.monitor != "" {
			return
		}
	}
	return
}

// ---------------------------------------------------------------- generation

var errCodes = []int{int(codes.Unavailable), int(codes.Internal), int(codes.ResourceExhausted), int(codes.DeadlineExceeded), int(codes.Unknown)}

func genExec(rng *hx.Rand, st storeSpec, pool int) execSpec {
	e := execSpec{dv: true, ap: true, act: 1 + rng.Intn(3), faults: map[int]fault{}}
	switch rng.Pick(70, 12, 6, 6, 6) {
	case 1:
		e.dnc = true
	case 2:
		e.dv = false
	case 3:
		e.ap = false
	case 4:
		e.dnc, e.ex = true, 1
	}
	switch rng.Pick(70, 15, 15) {
	case 1:
		e.ex = 1 + rng.Intn(3)
	case 2:
		e.st = []int{int(codes.Internal), int(codes.DeadlineExceeded), int(codes.InvalidArgument), int(codes.Unavailable)}[rng.Intn(4)]
	}
	if e.st == 0 { // the same outcome in the three representations of "no error"
		e.okRepr = rng.Pick(5, 2, 1)
	}
	n := rng.Intn(9)
	if rng.Chance(1, 8) {
		n = 9 + rng.Intn(6)
	}
	for i := 0; i < n; i++ {
		if len(e.puts) > 0 && rng.Chance(1, 5) {
			e.puts = append(e.puts, e.puts[rng.Intn(len(e.puts))]) // duplicate
		} else {
			e.puts = append(e.puts, 1+rng.Intn(pool))
		}
	}
	ref := func() int {
		switch {
		case len(e.puts) > 0 && rng.Chance(8, 10):
			return e.puts[rng.Intn(len(e.puts))]
		case len(st.cas) > 0 && rng.Chance(1, 2):
			return st.cas[rng.Intn(len(st.cas))]
		}
		return 1 + rng.Intn(pool+2) // possibly a blob nobody stored (uploaded by the client)
	}
	for i := rng.Intn(4); i > 0; i-- {
		e.files = append(e.files, ref())
	}
	for i := rng.Intn(3); i > 0; i-- {
		e.dirs = append(e.dirs, ref(), ref())
	}
	if rng.Chance(1, 2) {
		e.stdout = ref()
	}
	if rng.Chance(1, 3) {
		e.stderr = ref()
	}
	if rng.Chance(1, 4) {
		e.logs = append(e.logs, ref())
	}
	e.honest = rng.Chance(1, 2)
	if rng.Chance(1, 3) {
		e.hold = 1 + rng.Intn(st.sem)
	}
	return e
}

func genStore(rng *hx.Rand, pool int) storeSpec {
	st := storeSpec{bs: 1 + rng.Intn(5), sem: 1, aware: rng.Chance(1, 2)}
	if rng.Chance(1, 5) {
		st.sem = 2 + rng.Intn(3)
	}
	for d := 1; d <= pool; d++ {
		if rng.Chance(1, 5) {
			st.cas = append(st.cas, d)
		}
	}
	return st
}

func randFault(rng *hx.Rand, uniform *fault) fault {
	if uniform != nil {
		return *uniform
	}
	switch rng.Pick(4, 1, 1) {
	case 1:
		return fault{cancel: true, code: int(codes.Canceled)}
	case 2:
		return fault{late: true}
	}
	return fault{code: errCodes[rng.Intn(len(errCodes))]}
}

func history(st storeSpec, execs []execSpec) []string {
	out := []string{st.String()}
	for _, e := range execs {
		out = append(out, e.String())
	}
	return out
}

func withFaults(e execSpec, f map[int]fault) execSpec {
	e.faults = f
	return e
}

// ---------------------------------------------------------------- shrinking

// shrinkFields removes puts, references and faults one at a time while the failure persists.
func shrinkFields(lines []string, fails func([]string) bool) []string {
	cur := append([]string(nil), lines...)
	for i := range cur {
		e, ok := parseExec(cur[i])
		if !ok {
			continue
		}
		try := func(mod execSpec) bool {
			cand := append([]string(nil), cur...)
			cand[i] = mod.String()
			if fails(cand) {
				cur = cand
				return true
			}
			return false
		}
		dropAt := func(l []int, k int) []int {
			return append(append([]int(nil), l[:k]...), l[k+1:]...)
		}
		for changed := true; changed; {
			changed = false
			for k := range e.faults {
				m := e
				m.faults = map[int]fault{}
				for k2, f := range e.faults {
					if k2 != k {
						m.faults[k2] = f
					}
				}
				if try(m) {
					e, changed = m, true
					break
				}
			}
			for _, fld := range []string{"puts", "files", "dirs", "logs"} {
				get := map[string]*[]int{"puts": &e.puts, "files": &e.files, "dirs": &e.dirs, "logs": &e.logs}[fld]
				for k := 0; k < len(*get); k++ {
					m := e
					nl := dropAt(*get, k)
					switch fld {
					case "puts":
						m.puts = nl
					case "files":
						m.files = nl
					case "dirs":
						m.dirs = nl
					case "logs":
						m.logs = nl
					}
					if try(m) {
						e, changed = m, true
						break
					}
				}
			}
		}
	}
	return cur
}

// ---------------------------------------------------------------- main

func main() {
	o := hx.ParseFlags()
	res := hx.NewResult("pipeline", o, "histories of 1-3 executions through the real caching(flushing(inner)) executors over the real batched store (batch size 1-5, put concurrency 1-4, pre-populated CAS, context-aware or context-ignoring fake stores, 0..all upload slots of the shared put semaphore held by another worker thread, duplicate digests, all outcomes OK (Status unset, explicit Status{code: OK}, explicit OK with a message)/exit!=0/status!=OK/do_not_cache/invalid request); for every scenario: fault-free, every single storage-call position failing, cancelling the context, or succeeding with the context cancelled right afterwards (so that the batched store's wait for an upload slot fails; really blocking when all slots are held elsewhere), all pairs, and every subset of positions when the run has <= 8 (thorough: 10) storage calls, sampled subsets otherwise; non-trivial = at least one underlying CAS Put was issued by the batched store and (an injected fault was hit or an Action Cache entry was written); distinct = hash of the history")
	drv, err := hx.StartDriver("pipeline")
	if err != nil {
		fmt.Fprintln(os.Stderr, "cannot start model driver:", err)
		os.Exit(3)
	}
	defer drv.Close()

	report := func(lines []string, out outcome) {
		fails := func(cand []string) bool {
			r := run(cand, drv)
			if out.monitor != "" {
				return r.monitor != ""
			}
			return r.mismatch != ""
		}
		min := hx.Shrink(lines, fails)
		min = shrinkFields(min, fails)
		r := run(min, drv)
		f := hx.Finding{Property: "C09", History: min}
		if r.monitor != "" {
			f.Kind, f.What, f.Name = "violation", r.monitor, "C09 monitor on the real pipeline (AC write condition/completeness, failure reporting, pruning, buffers)"
		} else if r.mismatch != "" {
			f.Kind, f.What, f.Name = "mismatch", r.mismatch, "correspondence Model/Pipeline.lean <-> batched_store_blob_access.go / storage_flushing_build_executor.go / caching_build_executor.go (theorems C09.batched_ack_sound, ac_write_condition, ac_complete, failure_prunes, first_error_wins)"
			f.Expected, f.Actual = r.expected, r.actual
		} else { // flaky under shrinking (concurrent puts): report the original
			f.History = lines
			if out.monitor != "" {
				f.Kind, f.What, f.Name = "violation", out.monitor, "C09 monitor on the real pipeline"
			} else {
				f.Kind, f.What, f.Name = "mismatch", out.mismatch, "correspondence Model/Pipeline.lean <-> pipeline"
				f.Expected, f.Actual = out.expected, out.actual
			}
		}
		f.Sig = hx.Sig("C09", "pipeline", f.Kind, strings.Join(f.History, ";"))
		res.Report(f)
	}

	do := func(lines []string) outcome {
		out := run(lines, drv)
		res.Evaluations += out.steps
		res.TracesVsImpl++
		for k := range out.flags {
			res.Count("run-with-" + k)
		}
		res.History(lines, out.flags["underlying-put"] && (out.flags["fault-hit"] || out.flags["ac-written"]))
		if out.monitor != "" || out.mismatch != "" {
			report(lines, out)
		}
		return out
	}

	if o.Replay != "" {
		f, err := hx.LoadReplay(o.Replay)
		if err != nil {
			fmt.Fprintln(os.Stderr, err)
			os.Exit(3)
		}
		do(f.History)
		res.ModelLines = drv.Lines
		res.Write(o)
		return
	}

	scenarios, maxSubset, budget := 120*o.Scale, 8, 60
	if o.Tier == "thorough" {
		scenarios, maxSubset, budget = 400*o.Scale, 10, 300
	}
	rng := hx.NewRand(o.Seed << 32) // nearby seeds of hx.NewRand are shifted copies of one stream
	for s := 0; s < scenarios && len(res.Findings) == 0; s++ {
		pool := 3 + rng.Intn(6)
		st := genStore(rng, pool)
		nexec := 1
		if rng.Chance(1, 4) {
			nexec = 2 + rng.Intn(2)
		}
		execs := make([]execSpec, nexec)
		for i := range execs {
			execs[i] = genExec(rng, st, pool)
		}
		res.Count(fmt.Sprintf("scenario-batch-%d", st.bs))
		if st.sem > 1 {
			res.Count("scenario-concurrent-puts")
		}
		base := do(history(st, execs))
		if len(res.Findings) > 0 || len(base.calls) != nexec {
			continue
		}
		var uniform *fault
		// faults are explored on one execution of the history at a time
		for target := 0; target < nexec && len(res.Findings) == 0; target++ {
			n := base.calls[target]
			variant := func(f map[int]fault) {
				es := append([]execSpec(nil), execs...)
				es[target] = withFaults(es[target], f)
				do(history(st, es))
			}
			// every single position, failing and cancelling
			for p := 1; p <= n && len(res.Findings) == 0; p++ {
				if uniform != nil {
					variant(map[int]fault{p: *uniform})
					continue
				}
				variant(map[int]fault{p: {code: errCodes[rng.Intn(len(errCodes))]}})
				variant(map[int]fault{p: {cancel: true, code: int(codes.Canceled)}})
				variant(map[int]fault{p: {late: true}})
			}
			// every subset of size >= 2 (small runs) or sampled subsets
			if n >= 2 && n <= maxSubset && nexec == 1 {
				for mask := 1; mask < 1<<n && len(res.Findings) == 0; mask++ {
					if mask&(mask-1) == 0 {
						continue
					}
					f := map[int]fault{}
					for p := 1; p <= n; p++ {
						if mask&(1<<(p-1)) != 0 {
							f[p] = randFault(rng, uniform)
						}
					}
					variant(f)
				}
			} else if n >= 2 {
				for p := 1; p <= n && n <= 24 && len(res.Findings) == 0; p++ { // all pairs
					for q := p + 1; q <= n && len(res.Findings) == 0; q++ {
						variant(map[int]fault{p: randFault(rng, uniform), q: randFault(rng, uniform)})
					}
				}
				for k := 0; k < budget && len(res.Findings) == 0; k++ {
					f := map[int]fault{}
					for p := 1; p <= n; p++ {
						if rng.Chance(1, 4) {
							f[p] = randFault(rng, uniform)
						}
					}
					variant(f)
				}
			}
		}
		// faults in several executions of one history at once
		if nexec > 1 {
			for k := 0; k < budget/2 && len(res.Findings) == 0; k++ {
				es := append([]execSpec(nil), execs...)
				for i := range es {
					f := map[int]fault{}
					for p := 1; p <= base.calls[i]; p++ {
						if rng.Chance(1, 5) {
							f[p] = randFault(rng, uniform)
						}
					}
					es[i] = withFaults(es[i], f)
				}
				do(history(st, es))
			}
		}
	}
	res.ModelLines = drv.Lines
	res.Write(o)
}

