package main

// Scenario runs for C14 on the real scheduler (pkg/scheduler.InMemoryBuildQueue).
//
// Every scenario is a small, deterministic sequence of calls that drives the
// early / error returns of the build queue's entry points, including the
// ones that are only reachable through an interleaving (a call drops the lock
// to run an authorizer, another call changes the state meanwhile, the first
// call finds that out after re-entering). The interleavings are forced with
// channels: authorizers are fakes that can be told to block, the clock is a
// fake that only moves when told to.
//
// The monitor is independent of any model and demands exactly what C14 says:
//   - every call returns within the watchdog (each call runs in its own
//     goroutine; on timeout the scenario is abandoned);
//   - after a call returned, the mutex of the build queue is free (hook
//     VerifLockIsFree; calls that are still in flight at that moment are all
//     parked on harness channels, i.e. outside their lock-held sections);
//   - after a call returned, an unrelated cheap call (ListPlatformQueues)
//     returns within the watchdog: "a failed call never blocks later calls".
//
// The first part of this file (scenMon) is shared with idle.go.

import (
	"context"
	"fmt"
	"os"
	"strings"
	"sync"
	"time"

	"cloud.google.com/go/longrunning/autogen/longrunningpb"
	remoteexecution "github.com/bazelbuild/remote-apis/build/bazel/remote/execution/v2"
	"github.com/buildbarn/bb-remote-execution/pkg/proto/buildqueuestate"
	"github.com/buildbarn/bb-remote-execution/pkg/proto/remoteworker"
	"github.com/buildbarn/bb-remote-execution/pkg/scheduler"
	"github.com/buildbarn/bb-remote-execution/pkg/scheduler/initialsizeclass"
	"github.com/buildbarn/bb-remote-execution/pkg/scheduler/invocation"
	"github.com/buildbarn/bb-remote-execution/pkg/scheduler/platform"
	"github.com/buildbarn/bb-storage/pkg/blobstore"
	"github.com/buildbarn/bb-storage/pkg/blobstore/buffer"
	"github.com/buildbarn/bb-storage/pkg/clock"
	"github.com/buildbarn/bb-storage/pkg/digest"
	"github.com/google/uuid"
	status_pb "google.golang.org/genproto/googleapis/rpc/status"
	"google.golang.org/grpc"
	"google.golang.org/grpc/codes"
	"google.golang.org/grpc/status"
	"google.golang.org/protobuf/types/known/anypb"
	"google.golang.org/protobuf/types/known/emptypb"

	"verifharness/internal/hx"
)

// ---- scenario monitor (shared with idle.go) --------------------------------------------

var (
	scenWatchdog = hx.ScaledTimeout(5 * time.Second)
	// A leaked lock stays held forever; a lock that is merely being used by a
	// call that is just finishing is released within microseconds. Polling for
	// a while keeps the monitor sound and robust on a loaded machine.
	scenLockGrace = hx.ScaledTimeout(2 * time.Second)
)

type scenMon struct {
	prefix   string // "sched" / "idle": first word of the history line, histogram prefix
	object   string // "build queue" / "IdleInvoker"
	scenario string
	lockFree func() bool
	res      *hx.Result // nil when re-running quietly
	trace    []string
	nonOK    bool     // at least one call returned an error
	what     string   // first violation of the monitor ("" = none)
	short    string   // short name of the function the violation is attributed to
	expect   []string // the scenario did not take the path it is meant to drive
	cleanup  []func()
}

type scenCall struct {
	label string
	short string // function a violation observed at this call is attributed to
	fn    string // function that is being called (histogram key)
	done  chan string
}

func scenOutcome(err error) string {
	if err == nil {
		return "OK"
	}
	if e, ok := err.(interface{ ScenOutcome() string }); ok {
		return e.ScenOutcome() // e.g. an NFSv4 status (nfs.go)
	}
	return status.Code(err).String()
}

func (m *scenMon) failed() bool { return m.what != "" }

func (m *scenMon) fail(short, what string) {
	if m.what == "" {
		m.what, m.short = what, short
		m.trace = append(m.trace, "# !! "+what)
	}
}

func (m *scenMon) note(s string) { m.trace = append(m.trace, "# "+s) }

func (m *scenMon) onCleanup(f func()) { m.cleanup = append(m.cleanup, f) }

// start runs one call of the code under test in its own goroutine.
func (m *scenMon) start(label, short string, f func() error) *scenCall {
	c := &scenCall{label: label, short: short, fn: short, done: make(chan string, 2)}
	if m.failed() {
		return c // the scenario has been abandoned
	}
	m.note("start " + label)
	go func() {
		defer func() {
			if r := recover(); r != nil {
				c.done <- fmt.Sprintf("panic(%v)", r)
			}
		}()
		c.done <- scenOutcome(f())
	}()
	return c
}

// await waits for a started call to return and then evaluates the monitor.
func (m *scenMon) await(c *scenCall) (string, bool) {
	if m.failed() {
		return "", false
	}
	select {
	case o := <-c.done:
		if m.res != nil {
			m.res.Evaluations++
			m.res.Count(m.prefix + "-outcome:" + c.fn + ":" + strings.SplitN(o, "(", 2)[0])
		}
		if o != "OK" {
			m.nonOK = true
		}
		m.note(c.label + " -> " + o)
		return o, m.checkFree("call "+c.label+" returned "+o, c.short)
	case <-time.After(scenWatchdog):
		held := ""
		if !m.lockFree() {
			held = fmt.Sprintf("; the mutex of the %s is held", m.object)
		}
		m.fail(c.short, fmt.Sprintf("call %s did not return within %v (blocked on a lock that an earlier call left behind or that the call itself already holds)%s",
			c.label, scenWatchdog, held))
		return "", false
	}
}

func (m *scenMon) call(label, short string, f func() error) (string, bool) {
	if m.failed() {
		return "", false
	}
	return m.await(m.start(label, short, f))
}

// checkFree: the mutex of the object must be free now.
func (m *scenMon) checkFree(after, short string) bool {
	if m.failed() {
		return false
	}
	deadline := time.Now().Add(scenLockGrace)
	for !m.lockFree() {
		if time.Now().After(deadline) {
			m.fail(short, fmt.Sprintf("after %s, the mutex of the %s is still held although no call is inside a lock-held section (observed for %v)",
				after, m.object, scenLockGrace))
			return false
		}
		time.Sleep(time.Millisecond)
	}
	return true
}

// reached waits until a started call arrives at a harness-controlled point
// (its authorizer, its cleaner, ...).
func (m *scenMon) reached(c *scenCall, point string, ch <-chan struct{}) bool {
	if m.failed() {
		return false
	}
	select {
	case <-ch:
		m.note(c.label + " is inside " + point)
		return true
	case o := <-c.done:
		c.done <- o
		m.expect = append(m.expect, fmt.Sprintf("%s returned %s before reaching %s", c.label, o, point))
		return false
	case <-time.After(scenWatchdog):
		m.fail(c.short, fmt.Sprintf("call %s neither returned nor reached %s within %v (blocked on a lock that an earlier call left behind)", c.label, point, scenWatchdog))
		return false
	}
}

func (m *scenMon) want(label, got string, wants ...string) {
	if m.failed() {
		return
	}
	for _, w := range wants {
		if got == w {
			return
		}
	}
	m.expect = append(m.expect, fmt.Sprintf("%s returned %s, expected %s", label, got, strings.Join(wants, " or ")))
}

func (m *scenMon) history() []string {
	return append([]string{m.prefix + " " + m.scenario}, m.trace...)
}

// runScenario runs body under a fresh monitor; body must set m.lockFree
// before its first call.
func runScenario(prefix, object, scenario string, res *hx.Result, body func(m *scenMon)) *scenMon {
	m := &scenMon{prefix: prefix, object: object, scenario: scenario, res: res, lockFree: func() bool { return true }}
	func() {
		defer func() {
			if r := recover(); r != nil {
				m.expect = append(m.expect, fmt.Sprintf("scenario body panicked: %v", r))
			}
		}()
		body(m)
	}()
	// Let every goroutine that is still parked on a harness channel go (in a
	// scenario that passed none is left; after a violation the blocked ones
	// are abandoned).
	for i := len(m.cleanup) - 1; i >= 0; i-- {
		m.cleanup[i]()
	}
	return m
}

// scenBlamed: function -> scenario whose violation has been reported for it in
// this run (one finding per function; further failing scenarios are noted).
var scenBlamed = map[string]string{}

// reportScenario turns the verdict of one scenario into evidence / findings.
// demonstrated is nil when a recorded history is being replayed.
func reportScenario(m *scenMon, title string, res *hx.Result, checkerBad map[string]string, demonstrated map[string]bool) {
	hist := m.history()
	if os.Getenv("LOCKLEAK_DEBUG") != "" {
		fmt.Fprintln(os.Stderr, strings.Join(hist, "\n"))
	}
	res.Count(m.prefix + ":" + m.scenario)
	res.TracesVsImpl++
	res.History(hist, m.nonOK || m.failed())
	switch {
	case m.failed():
		if first, dup := scenBlamed[m.prefix+"."+m.short]; dup && demonstrated != nil {
			res.Count(m.prefix + "-also-failing:" + m.scenario)
			res.Notes = append(res.Notes, fmt.Sprintf("%s scenario %s fails as well (%s); reported once, under scenario %s", title, m.scenario, m.what, first))
			return
		}
		scenBlamed[m.prefix+"."+m.short] = m.scenario
		what := m.what
		if e, ok := checkerBad[m.short]; ok {
			what += " — the lock-balance checker reports the same function: " + e
			if demonstrated != nil {
				demonstrated[m.short] = true
			}
		}
		res.Report(hx.Finding{Kind: "violation", Property: "C14", Name: "lock monitor (" + title + " scenario " + m.scenario + ")",
			What: what, History: hist, Sig: hx.Sig("C14", m.prefix, m.scenario, m.short)})
	case len(m.expect) > 0:
		res.Report(hx.Finding{Kind: "mismatch", Property: "C14", Name: title + " scenario " + m.scenario + " (path coverage)",
			What:    "the scenario no longer drives the return path it was written for (the lock monitor itself was satisfied): " + strings.Join(m.expect, "; "),
			History: hist, Sig: hx.Sig("C14", m.prefix, m.scenario, "coverage")})
	}
}

// replayScenarios re-runs the scenario lines ("sched <name>" / "idle <name>" / "nfs <name>")
// of a recorded history. It reports false if the history is not of that kind.
func replayScenarios(history []string, res *hx.Result) bool {
	first := strings.Fields(history[0])
	if len(first) < 2 || (first[0] != "sched" && first[0] != "idle" && first[0] != "nfs") {
		return false
	}
	for _, line := range history {
		f := strings.Fields(line)
		if len(f) < 2 || strings.HasPrefix(line, "#") {
			continue
		}
		var m *scenMon
		title := ""
		switch f[0] {
		case "sched":
			title = "scheduler"
			if body, ok := schedScenarioByName(f[1]); ok {
				m = runScenario("sched", "build queue", f[1], res, body)
			}
		case "idle":
			title = "IdleInvoker"
			if body, ok := idleScenarioByName(f[1]); ok {
				m = runScenario("idle", "IdleInvoker", f[1], res, body)
			}
		case "nfs":
			title = "NFSv4"
			if body, ok := nfsScenarioByName(f[1]); ok {
				m = runScenario("nfs", "NFSv4 server", f[1], res, body)
			}
		}
		if m == nil {
			res.Notes = append(res.Notes, "replay: unknown scenario line "+line)
			continue
		}
		reportScenario(m, title, res, nil, nil)
	}
	return true
}

// ---- fakes for the scheduler -------------------------------------------------------------

// scenGate blocks one call of a fake (authorizer, cleaner) until released.
type scenGate struct {
	entered  chan struct{}
	release  chan struct{}
	released sync.Once
}

func newScenGate() *scenGate {
	return &scenGate{entered: make(chan struct{}), release: make(chan struct{})}
}

func (g *scenGate) open() { g.released.Do(func() { close(g.release) }) }

// scenClock only moves when told to; timers never fire.
type scenClock struct {
	mu  sync.Mutex
	now time.Time
}

func (c *scenClock) Now() time.Time {
	c.mu.Lock()
	defer c.mu.Unlock()
	return c.now
}

func (c *scenClock) advance(d time.Duration) {
	c.mu.Lock()
	defer c.mu.Unlock()
	c.now = c.now.Add(d)
}

func (c *scenClock) NewContextWithTimeout(parent context.Context, timeout time.Duration) (context.Context, context.CancelFunc) {
	return context.WithCancel(parent)
}

type scenTimer struct{}

func (scenTimer) Stop() bool { return true }

type scenTicker struct{}

func (scenTicker) Stop() {}

func (c *scenClock) NewTimer(d time.Duration) (clock.Timer, <-chan time.Time) {
	return scenTimer{}, make(chan time.Time)
}

func (c *scenClock) NewTicker(d time.Duration) (clock.Ticker, <-chan time.Time) {
	return scenTicker{}, make(chan time.Time)
}

const (
	scenHashUncached = "da39a3ee5e6b4b0d3255bfef95601890afd80709" // DoNotCache
	scenHashCached   = "0beec7b5ea3f0fdbc95d0dd47f3c5bc275da8a33" // may be deduplicated
	scenHashMissing  = "62cdb7020ff920e5aa642c3d4066950dd1f01f4d" // not in the CAS
)

type scenCAS struct {
	blobstore.BlobAccess
}

func (scenCAS) Get(ctx context.Context, d digest.Digest) buffer.Buffer {
	a := &remoteexecution.Action{
		CommandDigest: &remoteexecution.Digest{Hash: "61c585c297d00409bd477b6b80759c94ec545ab4", SizeBytes: 456},
		Platform:      &remoteexecution.Platform{},
	}
	switch d.GetHashString() {
	case scenHashUncached:
		a.DoNotCache = true
	case scenHashCached:
	default:
		return buffer.NewBufferFromError(status.Error(codes.NotFound, "no such action"))
	}
	return buffer.NewProtoBufferFromProto(a, buffer.UserProvided)
}

type scenRouter struct{}

func (scenRouter) RouteAction(ctx context.Context, digestFunction digest.Function, action *remoteexecution.Action, requestMetadata *remoteexecution.RequestMetadata) (*remoteexecution.Action, platform.Key, []invocation.Key, initialsizeclass.Selector, error) {
	platformKey, err := platform.NewKey(digestFunction.GetInstanceName(), action.Platform)
	return action, platformKey, nil, scenSelector{}, err
}

type scenSelector struct{}

func (scenSelector) Select(sizeClasses []uint32) (int, time.Duration, time.Duration, initialsizeclass.Learner) {
	return 0, time.Minute, time.Minute, scenLearner{}
}
func (scenSelector) Abandoned() {}

type scenLearner struct{}

func (scenLearner) Succeeded(duration time.Duration, sizeClasses []uint32) (int, time.Duration, time.Duration, initialsizeclass.Learner) {
	return 0, 0, 0, nil
}

func (scenLearner) Failed(timedOut bool) (time.Duration, time.Duration, initialsizeclass.Learner) {
	return 0, 0, nil
}
func (scenLearner) Abandoned() {}

// scenAuthorizer permits everything unless told to deny; its next call can be
// made to block (a remote authorizer doing a network round trip).
type scenAuthorizer struct {
	mu   sync.Mutex
	deny bool
	gate *scenGate
}

func (a *scenAuthorizer) setDeny(b bool) { a.mu.Lock(); a.deny = b; a.mu.Unlock() }

func (a *scenAuthorizer) Authorize(ctx context.Context, instanceNames []digest.InstanceName) []error {
	a.mu.Lock()
	g, deny := a.gate, a.deny
	a.gate = nil
	a.mu.Unlock()
	if g != nil {
		close(g.entered)
		<-g.release
	}
	errs := make([]error, len(instanceNames))
	if deny {
		for i := range errs {
			errs[i] = status.Error(codes.PermissionDenied, "denied by the scenario")
		}
	}
	return errs
}

// scenStream captures what Execute / WaitExecution stream to the client.
type scenStream struct {
	grpc.ServerStream
	ctx     context.Context
	sendErr error
	ops     chan *longrunningpb.Operation
}

func (s *scenStream) Context() context.Context { return s.ctx }

func (s *scenStream) Send(o *longrunningpb.Operation) error {
	if s.sendErr != nil {
		return s.sendErr
	}
	select {
	case s.ops <- o:
	default:
	}
	return nil
}

type schedFixture struct {
	m                                       *scenMon
	clock                                   *scenClock
	execAuth, drainAuth, killAuth, syncAuth *scenAuthorizer
	bq                                      *scheduler.InMemoryBuildQueue
	alias                                   map[string]string
}

func newSchedFixture(m *scenMon) *schedFixture {
	f := &schedFixture{m: m, clock: &scenClock{now: time.Unix(1000, 0)},
		execAuth: &scenAuthorizer{}, drainAuth: &scenAuthorizer{}, killAuth: &scenAuthorizer{}, syncAuth: &scenAuthorizer{},
		alias: map[string]string{}}
	f.bq = scheduler.NewInMemoryBuildQueue(
		scenCAS{},
		f.clock,
		uuid.NewRandom,
		&scheduler.InMemoryBuildQueueConfiguration{
			ExecutionUpdateInterval:              time.Minute,
			OperationWithNoWaitersTimeout:        time.Minute,
			PlatformQueueWithNoWorkersTimeout:    15 * time.Minute,
			BusyWorkerSynchronizationInterval:    10 * time.Second,
			GetIdleWorkerSynchronizationInterval: func() time.Duration { return time.Minute },
			WorkerTaskRetryCount:                 9,
			WorkerWithNoSynchronizationsTimeout:  time.Minute,
		},
		10000,
		scenRouter{},
		f.execAuth, f.drainAuth, f.killAuth, f.syncAuth)
	instanceName, err := digest.NewInstanceName("main")
	if err != nil {
		panic(err)
	}
	if err := f.bq.RegisterPredeclaredPlatformQueue(instanceName, &remoteexecution.Platform{}, nil, 0, 0, []uint32{0}); err != nil {
		panic(err)
	}
	m.lockFree = f.bq.VerifLockIsFree
	return f
}

// gate makes the next call of the authorizer block.
func (f *schedFixture) gate(a *scenAuthorizer) *scenGate {
	g := newScenGate()
	a.mu.Lock()
	a.gate = g
	a.mu.Unlock()
	f.m.onCleanup(g.open)
	return g
}

func (f *schedFixture) ctx() (context.Context, context.CancelFunc) {
	ctx, cancel := context.WithCancel(context.Background())
	f.m.onCleanup(cancel)
	return ctx, cancel
}

func (f *schedFixture) name(real string) string {
	if a, ok := f.alias[real]; ok {
		return a
	}
	return fmt.Sprintf("%q", real)
}

// probe: an unrelated cheap call must get through. A failure is attributed
// to the function `short` (the call that returned last).
func (f *schedFixture) probe(short, when string) bool {
	if f.m.failed() {
		return false
	}
	c := f.m.start("ListPlatformQueues()", short, func() error {
		_, err := f.bq.ListPlatformQueues(context.Background(), &emptypb.Empty{})
		return err
	})
	c.label, c.fn = "ListPlatformQueues() (a later call, "+when+")", "ListPlatformQueues"
	f.m.trace = f.m.trace[:len(f.m.trace)-1] // the line "-> outcome" is enough
	_, ok := f.m.await(c)
	return ok
}

// do = one call + lock check + probe.
func (f *schedFixture) do(label, short string, fn func() error) (string, bool) {
	return f.finish(f.m.start(label, short, fn))
}

func (f *schedFixture) finish(c *scenCall) (string, bool) {
	o, ok := f.m.await(c)
	if ok {
		ok = f.probe(c.short, "after "+c.label+" returned")
	}
	return o, ok
}

func (f *schedFixture) executeRequest(instance, hash string) *remoteexecution.ExecuteRequest {
	return &remoteexecution.ExecuteRequest{InstanceName: instance, ActionDigest: &remoteexecution.Digest{Hash: hash, SizeBytes: 123}}
}

// startExecute starts Execute() and waits for the first streamed update, which
// carries the operation name. The call stays in flight (parked on its stream's
// context / the task's wakeup channel, lock released).
func (f *schedFixture) startExecute(ctx context.Context, hash string) (string, *scenCall, bool) {
	if f.m.failed() {
		return "", nil, false
	}
	st := &scenStream{ctx: ctx, ops: make(chan *longrunningpb.Operation, 64)}
	c := f.m.start(fmt.Sprintf("Execute(main, action %s)", hash[:6]), "Execute", func() error {
		return f.bq.Execute(f.executeRequest("main", hash), st)
	})
	select {
	case o := <-st.ops:
		if _, ok := f.alias[o.Name]; !ok {
			f.alias[o.Name] = fmt.Sprintf("op#%d", len(f.alias))
		}
		f.m.note(c.label + " streamed its first update: operation " + f.alias[o.Name])
		return o.Name, c, true
	case o := <-c.done:
		c.done <- o
		f.m.expect = append(f.m.expect, c.label+" returned "+o+" before streaming an update")
		return "", c, false
	case <-time.After(scenWatchdog):
		f.m.fail("Execute", fmt.Sprintf("call %s neither returned nor streamed an update within %v (blocked on a lock that an earlier call left behind)", c.label, scenWatchdog))
		return "", c, false
	}
}

func killByName(name string) *buildqueuestate.KillOperationsRequest {
	return &buildqueuestate.KillOperationsRequest{
		Filter: &buildqueuestate.KillOperationsRequest_Filter{
			Type: &buildqueuestate.KillOperationsRequest_Filter_OperationName{OperationName: name},
		},
		Status: &status_pb.Status{Code: int32(codes.Unavailable), Message: "killed by the scenario"},
	}
}

func killByQueue(q *buildqueuestate.SizeClassQueueName) *buildqueuestate.KillOperationsRequest {
	return &buildqueuestate.KillOperationsRequest{
		Filter: &buildqueuestate.KillOperationsRequest_Filter{
			Type: &buildqueuestate.KillOperationsRequest_Filter_SizeClassQueueWithoutWorkers{SizeClassQueueWithoutWorkers: q},
		},
		Status: &status_pb.Status{Code: int32(codes.Unavailable), Message: "killed by the scenario"},
	}
}

func scenQueue(instance string, sizeClass uint32) *buildqueuestate.SizeClassQueueName {
	return &buildqueuestate.SizeClassQueueName{
		PlatformQueueName: &buildqueuestate.PlatformQueueName{InstanceNamePrefix: instance, Platform: &remoteexecution.Platform{}},
		SizeClass:         sizeClass,
	}
}

func (f *schedFixture) kill(name string) (string, bool) {
	return f.do("KillOperations(operation_name="+f.name(name)+")", "KillOperations", func() error {
		_, err := f.bq.KillOperations(context.Background(), killByName(name))
		return err
	})
}

func (f *schedFixture) getOperation(name string) (string, bool) {
	return f.do("GetOperation("+f.name(name)+")", "GetOperation", func() error {
		_, err := f.bq.GetOperation(context.Background(), &buildqueuestate.GetOperationRequest{OperationName: name})
		return err
	})
}

func (f *schedFixture) startWait(ctx context.Context, name string) *scenCall {
	st := &scenStream{ctx: ctx, ops: make(chan *longrunningpb.Operation, 64)}
	return f.m.start("WaitExecution("+f.name(name)+")", "WaitExecution", func() error {
		return f.bq.WaitExecution(&remoteexecution.WaitExecutionRequest{Name: name}, st)
	})
}

// abandonedOperation: a client starts an operation and disconnects; the
// operation stays known until OperationWithNoWaitersTimeout has passed.
func (f *schedFixture) abandonedOperation() (string, bool) {
	ctx, cancel := f.ctx()
	name, c, ok := f.startExecute(ctx, scenHashUncached)
	if !ok {
		return "", false
	}
	cancel()
	f.m.note("client of " + f.name(name) + " disconnects")
	o, ok := f.finish(c)
	if !ok {
		return "", false
	}
	f.m.want(c.label, o, "Canceled")
	o, ok = f.getOperation(name)
	f.m.want("GetOperation", o, "OK")
	return name, ok
}

// expire lets the abandoned operation time out: the next call that enters the
// scheduler garbage collects it.
func (f *schedFixture) expire(name string, during *scenCall) bool {
	if !f.m.checkFree("call "+during.label+" left the lock to run its authorizer", during.short) {
		return false
	}
	f.clock.advance(2 * time.Minute)
	f.m.note("clock advances by 2m (> OperationWithNoWaitersTimeout)")
	if !f.probe(during.short, "while "+during.label+" is inside its authorizer") {
		return false
	}
	o, ok := f.getOperation(name)
	f.m.want("GetOperation (operation should be gone)", o, "NotFound")
	return ok
}

// ---- the scenarios ----------------------------------------------------------------------

type scenario struct {
	name string
	body func(m *scenMon)
}

var schedScenarios = []scenario{
	// KillOperations, filter OperationName: (i) unknown name
	{"kill-unknown", func(m *scenMon) {
		f := newSchedFixture(m)
		o, _ := f.kill("nonexistent")
		m.want("KillOperations", o, "NotFound")
		o, _ = f.kill("")
		m.want("KillOperations", o, "NotFound")
	}},
	// (ii) an existing operation that stays
	{"kill-stays", func(m *scenMon) {
		f := newSchedFixture(m)
		ctx, _ := f.ctx()
		name, ex, ok := f.startExecute(ctx, scenHashUncached)
		if !ok {
			return
		}
		o, ok := f.kill(name)
		m.want("KillOperations", o, "OK")
		if !ok {
			return
		}
		o, ok = f.finish(ex)
		m.want("Execute (killed)", o, "OK")
		if !ok {
			return
		}
		// the completed operation is still known: killing it again is a no-op
		o, _ = f.kill(name)
		m.want("KillOperations (again)", o, "OK")
	}},
	// (iii) an existing operation that vanishes while the authorizer runs: the retry path
	{"kill-vanish", func(m *scenMon) {
		f := newSchedFixture(m)
		name, ok := f.abandonedOperation()
		if !ok {
			return
		}
		g := f.gate(f.killAuth)
		k := m.start("KillOperations(operation_name="+f.name(name)+")", "KillOperations", func() error {
			_, err := f.bq.KillOperations(context.Background(), killByName(name))
			return err
		})
		if !m.reached(k, "the kill-operations authorizer (lock released)", g.entered) {
			return
		}
		if !f.expire(name, k) {
			return
		}
		g.open()
		m.note("authorizer of " + k.label + " answers: permitted")
		o, _ := f.finish(k)
		m.want("KillOperations (operation vanished during authorization)", o, "NotFound")
	}},
	// (iii') the operation stays while a slow authorizer runs, and another call completes it meanwhile
	{"kill-raced-by-kill", func(m *scenMon) {
		f := newSchedFixture(m)
		ctx, _ := f.ctx()
		name, ex, ok := f.startExecute(ctx, scenHashUncached)
		if !ok {
			return
		}
		g := f.gate(f.killAuth)
		k := m.start("KillOperations(operation_name="+f.name(name)+") [slow authorizer]", "KillOperations", func() error {
			_, err := f.bq.KillOperations(context.Background(), killByName(name))
			return err
		})
		if !m.reached(k, "the kill-operations authorizer (lock released)", g.entered) {
			return
		}
		o, ok := f.kill(name)
		m.want("KillOperations (second caller)", o, "OK")
		if !ok {
			return
		}
		if _, ok = f.finish(ex); !ok {
			return
		}
		g.open()
		o, _ = f.finish(k)
		m.want("KillOperations (first caller)", o, "OK")
	}},
	// (iv) authorization denied
	{"kill-denied", func(m *scenMon) {
		f := newSchedFixture(m)
		ctx, cancel := f.ctx()
		name, ex, ok := f.startExecute(ctx, scenHashUncached)
		if !ok {
			return
		}
		f.killAuth.setDeny(true)
		o, ok := f.kill(name)
		m.want("KillOperations", o, "PermissionDenied")
		if !ok {
			return
		}
		o, ok = f.do("KillOperations(size_class_queue_without_workers=main/0)", "KillOperations", func() error {
			_, err := f.bq.KillOperations(context.Background(), killByQueue(scenQueue("main", 0)))
			return err
		})
		m.want("KillOperations (queue filter)", o, "PermissionDenied")
		if !ok {
			return
		}
		cancel()
		f.finish(ex)
	}},
	// the other filter and the malformed requests
	{"kill-queue-filter", func(m *scenMon) {
		f := newSchedFixture(m)
		ctx, _ := f.ctx()
		_, ex, ok := f.startExecute(ctx, scenHashUncached)
		if !ok {
			return
		}
		for _, c := range []struct {
			label string
			req   *buildqueuestate.KillOperationsRequest
			want  string
		}{
			{"no filter", &buildqueuestate.KillOperationsRequest{}, "InvalidArgument"},
			{"size_class_queue_without_workers=<nil>", killByQueue(nil), "InvalidArgument"},
			{"size_class_queue_without_workers=//bad", killByQueue(scenQueue("//bad", 0)), "InvalidArgument"},
			{"size_class_queue_without_workers=other/0", killByQueue(scenQueue("other", 0)), "NotFound"},
			{"size_class_queue_without_workers=main/7", killByQueue(scenQueue("main", 7)), "NotFound"},
			{"size_class_queue_without_workers=main/0", killByQueue(scenQueue("main", 0)), "OK"},
		} {
			o, ok := f.do("KillOperations("+c.label+")", "KillOperations", func() error {
				_, err := f.bq.KillOperations(context.Background(), c.req)
				return err
			})
			m.want("KillOperations("+c.label+")", o, c.want)
			if !ok {
				return
			}
		}
		o, _ := f.finish(ex)
		m.want("Execute (queue killed)", o, "OK")
	}},
	{"wait-unknown", func(m *scenMon) {
		f := newSchedFixture(m)
		ctx, _ := f.ctx()
		o, _ := f.finish(f.startWait(ctx, "nonexistent"))
		m.want("WaitExecution", o, "NotFound")
	}},
	// WaitExecution has the same drop-lock / authorize / re-enter / retry shape
	{"wait-vanish", func(m *scenMon) {
		f := newSchedFixture(m)
		name, ok := f.abandonedOperation()
		if !ok {
			return
		}
		g := f.gate(f.execAuth)
		ctx, _ := f.ctx()
		w := f.startWait(ctx, name)
		if !m.reached(w, "the execute authorizer (lock released)", g.entered) {
			return
		}
		if !f.expire(name, w) {
			return
		}
		g.open()
		m.note("authorizer of " + w.label + " answers: permitted")
		o, _ := f.finish(w)
		m.want("WaitExecution (operation vanished during authorization)", o, "NotFound")
	}},
	{"wait-denied", func(m *scenMon) {
		f := newSchedFixture(m)
		ctx, cancel := f.ctx()
		name, ex, ok := f.startExecute(ctx, scenHashUncached)
		if !ok {
			return
		}
		f.execAuth.setDeny(true)
		o, ok := f.finish(f.startWait(ctx, name))
		m.want("WaitExecution", o, "PermissionDenied")
		if !ok {
			return
		}
		cancel()
		f.finish(ex)
	}},
	// attach to a running operation, then the client goes away
	{"wait-cancel", func(m *scenMon) {
		f := newSchedFixture(m)
		ctx, cancel := f.ctx()
		name, ex, ok := f.startExecute(ctx, scenHashUncached)
		if !ok {
			return
		}
		ctx2, cancel2 := f.ctx()
		g := f.gate(f.execAuth)
		w := f.startWait(ctx2, name)
		if !m.reached(w, "the execute authorizer (lock released)", g.entered) {
			return
		}
		g.open()
		time.Sleep(20 * time.Millisecond) // either order of attach / disconnect is a valid input
		cancel2()
		m.note("client of " + w.label + " disconnects")
		o, ok := f.finish(w)
		m.want("WaitExecution", o, "Canceled")
		if !ok {
			return
		}
		cancel()
		f.finish(ex)
	}},
	{"get-operation", func(m *scenMon) {
		f := newSchedFixture(m)
		o, ok := f.getOperation("nonexistent")
		m.want("GetOperation", o, "NotFound")
		if !ok {
			return
		}
		ctx, cancel := f.ctx()
		name, ex, ok := f.startExecute(ctx, scenHashUncached)
		if !ok {
			return
		}
		o, ok = f.getOperation(name)
		m.want("GetOperation", o, "OK")
		if !ok {
			return
		}
		cancel()
		f.finish(ex)
	}},
	{"list-operations", func(m *scenMon) {
		f := newSchedFixture(m)
		list := func(label string, req *buildqueuestate.ListOperationsRequest, want string) bool {
			o, ok := f.do("ListOperations("+label+")", "ListOperations", func() error {
				_, err := f.bq.ListOperations(context.Background(), req)
				return err
			})
			m.want("ListOperations("+label+")", o, want)
			return ok
		}
		if !list("empty queue", &buildqueuestate.ListOperationsRequest{PageSize: 10}, "OK") {
			return
		}
		ctx, cancel := f.ctx()
		name, ex, ok := f.startExecute(ctx, scenHashUncached)
		if !ok {
			return
		}
		if !list("page_size=10", &buildqueuestate.ListOperationsRequest{PageSize: 10}, "OK") ||
			!list("page_size=0", &buildqueuestate.ListOperationsRequest{}, "OK") ||
			!list("start_after="+f.name(name), &buildqueuestate.ListOperationsRequest{PageSize: 10,
				StartAfter: &buildqueuestate.ListOperationsRequest_StartAfter{OperationName: name}}, "OK") ||
			!list("filter_stage=COMPLETED", &buildqueuestate.ListOperationsRequest{PageSize: 10, FilterStage: remoteexecution.ExecutionStage_COMPLETED}, "OK") ||
			!list("filter_invocation_id=<empty Any>", &buildqueuestate.ListOperationsRequest{PageSize: 10, FilterInvocationId: &anypb.Any{}}, "OK") {
			return
		}
		cancel()
		f.finish(ex)
	}},
	// Execute: every early return, before and after the lock is taken
	{"execute-malformed", func(m *scenMon) {
		f := newSchedFixture(m)
		exec := func(label string, req *remoteexecution.ExecuteRequest, want ...string) bool {
			ctx, _ := f.ctx()
			st := &scenStream{ctx: ctx, ops: make(chan *longrunningpb.Operation, 64)}
			o, ok := f.do("Execute("+label+")", "Execute", func() error { return f.bq.Execute(req, st) })
			m.want("Execute("+label+")", o, want...)
			return ok
		}
		if !exec("instance name //bad", f.executeRequest("//bad", scenHashUncached), "InvalidArgument") ||
			!exec("malformed digest", f.executeRequest("main", "zz"), "InvalidArgument") ||
			!exec("no digest", &remoteexecution.ExecuteRequest{InstanceName: "main"}, "InvalidArgument") ||
			!exec("action not in the CAS", f.executeRequest("main", scenHashMissing), "NotFound") ||
			// no platform queue for this instance name: the error return inside the lock-held section
			!exec("instance name without workers", f.executeRequest("other", scenHashUncached), "Unavailable", "FailedPrecondition") {
			return
		}
		f.clock.advance(time.Hour)
		m.note("clock advances by 1h (past the start-up grace period)")
		if !exec("instance name without workers", f.executeRequest("other", scenHashCached), "Unavailable", "FailedPrecondition") {
			return
		}
		f.execAuth.setDeny(true)
		exec("authorization denied", f.executeRequest("main", scenHashUncached), "PermissionDenied")
	}},
	// the client's stream fails / the client is gone before the first update
	{"execute-send-fails", func(m *scenMon) {
		f := newSchedFixture(m)
		ctx, _ := f.ctx()
		st := &scenStream{ctx: ctx, sendErr: status.Error(codes.Unavailable, "stream broken"), ops: make(chan *longrunningpb.Operation, 64)}
		o, ok := f.do("Execute(main, action da39a3) [Send fails]", "Execute", func() error {
			return f.bq.Execute(f.executeRequest("main", scenHashUncached), st)
		})
		m.want("Execute", o, "Unavailable")
		if !ok {
			return
		}
		ctx2, cancel2 := f.ctx()
		cancel2()
		st2 := &scenStream{ctx: ctx2, ops: make(chan *longrunningpb.Operation, 64)}
		o, _ = f.do("Execute(main, action da39a3) [client already gone]", "Execute", func() error {
			return f.bq.Execute(f.executeRequest("main", scenHashUncached), st2)
		})
		m.want("Execute", o, "Canceled")
	}},
	// in-flight deduplication: second Execute of a cacheable action attaches to the first task
	{"execute-dedup", func(m *scenMon) {
		f := newSchedFixture(m)
		ctx1, cancel1 := f.ctx()
		name1, ex1, ok := f.startExecute(ctx1, scenHashCached)
		if !ok {
			return
		}
		ctx2, cancel2 := f.ctx()
		name2, ex2, ok := f.startExecute(ctx2, scenHashCached)
		if !ok {
			return
		}
		if name1 != name2 {
			m.note("second Execute got its own operation")
		}
		cancel2()
		if _, ok := f.finish(ex2); !ok {
			return
		}
		o, ok := f.kill(name1)
		m.want("KillOperations", o, "OK")
		if !ok {
			return
		}
		f.finish(ex1)
		cancel1()
	}},
	{"synchronize-malformed", func(m *scenMon) {
		f := newSchedFixture(m)
		syn := func(label string, req *remoteworker.SynchronizeRequest, want string) bool {
			o, ok := f.do("Synchronize("+label+")", "Synchronize", func() error {
				_, err := f.bq.Synchronize(context.Background(), req)
				return err
			})
			m.want("Synchronize("+label+")", o, want)
			return ok
		}
		id := map[string]string{"host": "h0", "thread": "0"}
		if !syn("instance name prefix //bad", &remoteworker.SynchronizeRequest{WorkerId: id, InstanceNamePrefix: "//bad", Platform: &remoteexecution.Platform{}}, "InvalidArgument") ||
			// inside the lock-held section: size class exceeds the predeclared maximum
			!syn("main, size class 5 > predeclared maximum", &remoteworker.SynchronizeRequest{WorkerId: id, InstanceNamePrefix: "main", Platform: &remoteexecution.Platform{}, SizeClass: 5}, "InvalidArgument") {
			return
		}
		f.syncAuth.setDeny(true)
		syn("authorization denied", &remoteworker.SynchronizeRequest{WorkerId: id, InstanceNamePrefix: "main", Platform: &remoteexecution.Platform{}}, "PermissionDenied")
	}},
	// administrative calls naming a queue / invocation that does not exist
	{"admin-unknown-queue", func(m *scenMon) {
		f := newSchedFixture(m)
		bg := context.Background()
		for _, q := range []struct {
			label string
			q     *buildqueuestate.SizeClassQueueName
			want  string
		}{{"<nil>", nil, "InvalidArgument"}, {"other/0", scenQueue("other", 0), "NotFound"}, {"main/0", scenQueue("main", 0), "OK"}} {
			inv := &buildqueuestate.InvocationName{SizeClassQueueName: q.q}
			pattern := map[string]string{"host": "h0"}
			steps := []struct {
				label, short string
				fn           func() error
			}{
				{"AddDrain", "modifyDrain", func() error {
					_, err := f.bq.AddDrain(bg, &buildqueuestate.AddOrRemoveDrainRequest{SizeClassQueueName: q.q, WorkerIdPattern: pattern})
					return err
				}},
				{"ListDrains", "ListDrains", func() error {
					_, err := f.bq.ListDrains(bg, &buildqueuestate.ListDrainsRequest{SizeClassQueueName: q.q})
					return err
				}},
				{"RemoveDrain", "modifyDrain", func() error {
					_, err := f.bq.RemoveDrain(bg, &buildqueuestate.AddOrRemoveDrainRequest{SizeClassQueueName: q.q, WorkerIdPattern: pattern})
					return err
				}},
				{"ListWorkers", "ListWorkers", func() error {
					_, err := f.bq.ListWorkers(bg, &buildqueuestate.ListWorkersRequest{PageSize: 10,
						Filter: &buildqueuestate.ListWorkersRequest_Filter{Type: &buildqueuestate.ListWorkersRequest_Filter_All{All: q.q}}})
					return err
				}},
				{"ListInvocationChildren", "ListInvocationChildren", func() error {
					_, err := f.bq.ListInvocationChildren(bg, &buildqueuestate.ListInvocationChildrenRequest{InvocationName: inv})
					return err
				}},
				{"ListQueuedOperations", "ListQueuedOperations", func() error {
					_, err := f.bq.ListQueuedOperations(bg, &buildqueuestate.ListQueuedOperationsRequest{InvocationName: inv, PageSize: 10})
					return err
				}},
			}
			for _, s := range steps {
				o, ok := f.do(s.label+"("+q.label+")", s.short, s.fn)
				m.want(s.label+"("+q.label+")", o, q.want)
				if !ok {
					return
				}
			}
		}
		f.drainAuth.setDeny(true)
		o, ok := f.do("AddDrain(main/0) [denied]", "modifyDrain", func() error {
			_, err := f.bq.AddDrain(bg, &buildqueuestate.AddOrRemoveDrainRequest{SizeClassQueueName: scenQueue("main", 0)})
			return err
		})
		m.want("AddDrain", o, "PermissionDenied")
		if !ok {
			return
		}
		o, _ = f.do("TerminateWorkers(host=h0)", "TerminateWorkers", func() error {
			_, err := f.bq.TerminateWorkers(bg, &buildqueuestate.TerminateWorkersRequest{WorkerIdPattern: map[string]string{"host": "h0"}})
			return err
		})
		m.want("TerminateWorkers", o, "OK")
	}},
}

func schedScenarioByName(name string) (func(m *scenMon), bool) {
	for _, s := range schedScenarios {
		if s.name == name {
			return s.body, true
		}
	}
	return nil, false
}

// runSchedScenarios runs every scheduler scenario once under the monitor.
func runSchedScenarios(o hx.Opts, res *hx.Result, checkerBad map[string]string, demonstrated map[string]bool) {
	for _, s := range schedScenarios {
		m := runScenario("sched", "build queue", s.name, res, s.body)
		reportScenario(m, "scheduler", res, checkerBad, demonstrated)
	}
}
