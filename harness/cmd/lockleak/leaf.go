package main

// File (leaf) part of the C14 lock monitor of the directory world in main.go:
// after every call that returned, the mutex of every regular file the history
// has opened so far must be free as well — the lock of the pool-backed file
// and, for files created through the NFS handle allocator, the lock of the
// handle pool (hook virtual.VerifLeafLocksAreFree). The catalogue entries
// below drive the early returns of the file's own entry points, e.g.
// VirtualOpenSelf on a file that has been unlinked and closed.

import (
	"github.com/buildbarn/bb-remote-execution/pkg/filesystem/virtual"
)

// lockedLeaves returns the ids (index in w.leaves, the order in which "create"
// ops opened them) of files one of whose mutexes is held although no call is
// in progress.
func (w *world) lockedLeaves() []int {
	w.mu.Lock()
	ls := append([]virtual.Leaf(nil), w.leaves...)
	w.mu.Unlock()
	var bad []int
	for i, l := range ls {
		if free, ok := virtual.VerifLeafLocksAreFree(l); ok && !free {
			bad = append(bad, i)
		}
	}
	return bad
}

func init() {
	// file ids are assigned in order of the successful "create" ops (0 = first)
	catalogue["VirtualOpenSelf"] = [][]string{
		// stale file: unlinked and closed, then opened through the old reference
		{"create 0 f 0", "remove 0 f", "write 0 0", "write 0 1", "lsetattr 0 1", "lsetattr 0 0"},
		{"create 0 f 0", "vremove 0 f 2", "write 0 1"},
		{"enter 0 a", "create 1 f 0", "removeall 0 a", "write 0 0", "lsetattr 0 1"},
		// live file: plain open, open with truncation, open through the directory with truncation
		{"create 0 f 0", "write 0 0", "write 0 1", "create 0 f 1", "create 0 f 3", "lsetattr 0 1", "lsetattr 0 0"},
		// a second name keeps the file alive after the first one is removed
		{"create 0 f 0", "link 0 g 0", "remove 0 f", "write 0 1", "remove 0 g", "write 0 1", "link 0 h 0"},
	}
}
