// lockleak is the executable side of property C14 (no call leaves a lock
// behind; concurrent calls never deadlock).
//
// The proof side is the lock-skeleton translation (tools/lockskel) plus the
// verified checker in Lean; this harness
//
//  1. asks the compiled driver (drv_lockskel, rebuilt from the skeletons that
//     were just regenerated from the source) which functions fail their
//     lock-balance obligation and on which path, and records the tables of
//     skipped / inlined functions and declared summaries in the evidence;
//  2. runs a monitor that is independent of all that on the REAL
//     InMemoryPrepopulatedDirectory: after every call of a generated (or
//     catalogued) call sequence, the mutex of every directory that was ever
//     created must be free (hook VerifLockIsFree), and every call must return
//     within a watchdog interval — "a failed call never blocks later calls on
//     the same directory or file";
//  3. maps each function reported by the checker to catalogued call
//     sequences that drive its early returns (e.g. "directory deleted ∧ name
//     absent" for CreateAndEnterPrepopulatedDirectory); if one of them leaves a
//     lock behind the finding is a `violation` with that sequence as replay,
//     otherwise it is reported as a mismatch naming function and path;
//  4. runs concurrent workloads (renames in opposite directions, removal of
//     directories being entered, bulk removals) under a watchdog.
package main

import (
	"context"
	"errors"
	"fmt"
	"io"
	"os"
	"sort"
	"strconv"
	"strings"
	"sync"
	"time"

	"github.com/buildbarn/bb-remote-execution/pkg/filesystem/pool"
	"github.com/buildbarn/bb-remote-execution/pkg/filesystem/virtual"
	"github.com/buildbarn/bb-storage/pkg/clock"
	"github.com/buildbarn/bb-storage/pkg/filesystem"
	"github.com/buildbarn/bb-storage/pkg/filesystem/path"

	"verifharness/internal/hx"
)

// ---- fakes ---------------------------------------------------------------------------

type rng struct {
	mu sync.Mutex
	r  *hx.Rand
}

func (g *rng) u64() uint64 {
	g.mu.Lock()
	defer g.mu.Unlock()
	return g.r.Uint64()
}
func (g *rng) Float64() float64     { return float64(g.u64()>>11) / (1 << 53) }
func (g *rng) Int64N(n int64) int64 { return int64(g.u64() % uint64(n)) }
func (g *rng) IntN(n int) int       { return int(g.u64() % uint64(n)) }
func (g *rng) Uint32() uint32       { return uint32(g.u64()) }
func (g *rng) Uint64() uint64       { return g.u64() }
func (g *rng) IsThreadSafe()        {}
func (g *rng) Read(p []byte) (int, error) {
	for i := range p {
		p[i] = byte(g.u64())
	}
	return len(p), nil
}
func (g *rng) Shuffle(n int, swap func(i, j int)) {
	for i := n - 1; i > 0; i-- {
		swap(i, g.IntN(i+1))
	}
}

type memFile struct {
	mu   sync.Mutex
	data []byte
}

func (f *memFile) Close() error { return nil }
func (f *memFile) ReadAt(p []byte, off int64) (int, error) {
	f.mu.Lock()
	defer f.mu.Unlock()
	if off >= int64(len(f.data)) {
		return 0, io.EOF
	}
	n := copy(p, f.data[off:])
	if n < len(p) {
		return n, io.EOF
	}
	return n, nil
}
func (f *memFile) WriteAt(p []byte, off int64) (int, error) {
	f.mu.Lock()
	defer f.mu.Unlock()
	if end := off + int64(len(p)); end > int64(len(f.data)) {
		f.data = append(f.data, make([]byte, end-int64(len(f.data)))...)
	}
	return copy(f.data[off:], p), nil
}
func (f *memFile) Sync() error { return nil }
func (f *memFile) Truncate(size int64) error {
	f.mu.Lock()
	defer f.mu.Unlock()
	if size <= int64(len(f.data)) {
		f.data = f.data[:size]
	} else {
		f.data = append(f.data, make([]byte, size-int64(len(f.data)))...)
	}
	return nil
}
func (f *memFile) Len() (int64, error) { return int64(len(f.data)), nil }
func (f *memFile) GetNextRegionOffset(off int64, rt filesystem.RegionType) (int64, error) {
	if off >= int64(len(f.data)) {
		return 0, io.EOF
	}
	if rt == filesystem.Data {
		return off, nil
	}
	return int64(len(f.data)), nil
}

type memPool struct{}

func (memPool) NewFile(holeSource pool.HoleSource, size uint64) (filesystem.FileReadWriter, error) {
	return &memFile{data: make([]byte, size)}, nil
}

type nullLogger struct{}

func (nullLogger) Log(err error) {}

var errInjected = errors.New("injected failure")

type failFlag struct {
	mu sync.Mutex
	on bool
}

func (f *failFlag) get() bool  { f.mu.Lock(); defer f.mu.Unlock(); return f.on }
func (f *failFlag) set(b bool) { f.mu.Lock(); f.on = b; f.mu.Unlock() }

type failingFileAllocator struct {
	base virtual.FileAllocator
	fail *failFlag
}

func (fa failingFileAllocator) NewFile(holeSource pool.HoleSource, isExecutable bool, size uint64, shareAccess virtual.ShareMask) (virtual.LinkableLeaf, error) {
	if fa.fail.get() {
		return nil, errInjected
	}
	return fa.base.NewFile(holeSource, isExecutable, size, shareAccess)
}

type failingSymlinkFactory struct {
	base virtual.SymlinkFactory
	fail *failFlag
}

func (sf failingSymlinkFactory) LookupSymlink(target path.Parser) (virtual.LinkableLeaf, error) {
	if sf.fail.get() {
		return nil, errInjected
	}
	return sf.base.LookupSymlink(target)
}

// fetcher is a lazy directory whose contents (one file, one sub-directory)
// can fail to load.
type fetcher struct {
	w    *world
	fail *failFlag
}

func (f *fetcher) FetchContents(fileReadMonitorFactory virtual.FileReadMonitorFactory) (map[path.Component]virtual.InitialChild, error) {
	if f.fail.get() {
		return nil, errInjected
	}
	leaf, err := f.w.baseFiles.NewFile(pool.ZeroHoleSource, false, 0, virtual.ShareMaskRead)
	if err != nil {
		return nil, err
	}
	leaf.VirtualClose(virtual.ShareMaskRead)
	return map[path.Component]virtual.InitialChild{
		path.MustNewComponent("a"): virtual.InitialChild{}.FromLeaf(leaf),
		path.MustNewComponent("b"): virtual.InitialChild{}.FromDirectory(virtual.EmptyInitialContentsFetcher),
	}, nil
}
func (f *fetcher) VirtualApply(data any) bool { return false }

type reporter struct{ n, limit int }

func (rp *reporter) ReportEntry(nextCookie uint64, name path.Component, child virtual.DirectoryChild, attributes *virtual.Attributes) bool {
	rp.n++
	return rp.n < rp.limit
}

// ---- world ---------------------------------------------------------------------------

var names = []string{"a", "b", "c", "a", "b", ".hidden"}

const (
	maskPlain  = virtual.AttributesMaskFileType | virtual.AttributesMaskInodeNumber
	maskLocked = virtual.AttributesMaskChangeID | virtual.AttributesMaskFileType
)

type world struct {
	mu         sync.Mutex
	dirs       []virtual.PrepopulatedDirectory // every directory object ever seen; index = id
	dirID      map[virtual.PrepopulatedDirectory]int
	leaves     []virtual.Leaf
	fail       failFlag
	fetchFail  failFlag
	baseFiles  virtual.FileAllocator
	files      virtual.FileAllocator
	symlinks   virtual.SymlinkFactory
	concurrent bool
}

func newWorld(seed uint64, nfs bool) *world {
	w := &world{dirID: map[virtual.PrepopulatedDirectory]int{}}
	g := &rng{r: hx.NewRand(seed + 77)}
	var ha virtual.StatefulHandleAllocator
	if nfs {
		ha = virtual.NewNFSHandleAllocator(g)
	} else {
		ha = virtual.NewFUSEHandleAllocator(g)
	}
	setter := func(requested virtual.AttributesMask, attributes *virtual.Attributes) {}
	w.baseFiles = virtual.NewHandleAllocatingFileAllocator(
		virtual.NewPoolBackedFileAllocator(memPool{}, nullLogger{}, setter, virtual.NoNamedAttributesFactory), ha)
	w.files = failingFileAllocator{base: w.baseFiles, fail: &w.fail}
	w.symlinks = failingSymlinkFactory{base: virtual.NewBaseSymlinkFactory(setter), fail: &w.fail}
	hidden := func(s string) bool { return strings.HasPrefix(s, ".") }
	root := virtual.NewInMemoryPrepopulatedDirectory(w.files, w.symlinks, nullLogger{}, ha,
		sort.Sort, hidden, clock.SystemClock, virtual.CaseSensitiveComponentNormalizer, setter, virtual.NoNamedAttributesFactory)
	w.addDir(root)
	return w
}

func (w *world) addDir(d virtual.PrepopulatedDirectory) int {
	w.mu.Lock()
	defer w.mu.Unlock()
	if id, ok := w.dirID[d]; ok {
		return id
	}
	if len(w.dirs) >= 24 {
		return -1
	}
	w.dirID[d] = len(w.dirs)
	w.dirs = append(w.dirs, d)
	return len(w.dirs) - 1
}

func (w *world) addLeaf(l virtual.Leaf) {
	w.mu.Lock()
	defer w.mu.Unlock()
	if len(w.leaves) < 16 {
		w.leaves = append(w.leaves, l)
	}
}

func (w *world) dir(i int) virtual.PrepopulatedDirectory {
	w.mu.Lock()
	defer w.mu.Unlock()
	if len(w.dirs) == 0 {
		return nil
	}
	return w.dirs[i%len(w.dirs)]
}

func (w *world) leaf(i int) virtual.Leaf {
	w.mu.Lock()
	defer w.mu.Unlock()
	if len(w.leaves) == 0 {
		return nil
	}
	return w.leaves[i%len(w.leaves)]
}

func (w *world) nDirs() int { w.mu.Lock(); defer w.mu.Unlock(); return len(w.dirs) }

func comp(s string) path.Component { return path.MustNewComponent(s) }

func errKind(err error) string {
	if err == nil {
		return "ok"
	}
	return "err"
}

// apply executes one op line against the real code and returns a coarse
// outcome ("ok", "err", a status number), used only for the histogram.
func (w *world) apply(op string) (outcome string) {
	defer func() {
		if r := recover(); r != nil {
			outcome = "panic"
			if os.Getenv("LOCKLEAK_DEBUG") != "" {
				fmt.Fprintf(os.Stderr, "panic in %q: %v\n", op, r)
			}
		}
	}()
	f := strings.Fields(op)
	ctx := context.Background()
	num := func(i int) int {
		if i >= len(f) {
			return 0
		}
		n, _ := strconv.Atoi(f[i])
		return n
	}
	mask := func(i int) virtual.AttributesMask {
		if i >= len(f) {
			return 0
		}
		switch f[i] {
		case "L":
			return maskLocked
		case "P":
			return maskPlain
		}
		return 0
	}
	str := func(i int) string {
		if i >= len(f) {
			return "a"
		}
		return f[i]
	}
	d := w.dir(num(1))
	var out virtual.Attributes
	switch f[0] {
	case "fail":
		w.fail.set(num(1) != 0)
		return "ok"
	case "fetchfail":
		w.fetchFail.set(num(1) != 0)
		return "ok"
	case "mkdir":
		c, _, s := d.VirtualMkdir(ctx, comp(str(2)), &virtual.Attributes{}, mask(3), &out)
		if s == virtual.StatusOK {
			w.addDir(c.(virtual.PrepopulatedDirectory))
		}
		return fmt.Sprint("s", int(s))
	case "enter":
		c, err := d.CreateAndEnterPrepopulatedDirectory(comp(str(2)))
		if err == nil {
			w.addDir(c)
		}
		return errKind(err)
	case "lookup":
		c, err := d.LookupChild(comp(str(2)))
		if err == nil {
			if cd, _ := c.GetPair(); cd != nil {
				w.addDir(cd)
			}
		}
		return errKind(err)
	case "lookupall":
		ds, _, err := d.LookupAllChildren()
		for _, e := range ds {
			w.addDir(e.Child)
		}
		return errKind(err)
	case "readdir":
		_, err := d.ReadDir()
		return errKind(err)
	case "remove":
		return errKind(d.Remove(comp(str(2))))
	case "removeall":
		return errKind(d.RemoveAll(comp(str(2))))
	case "rmchildren":
		return errKind(d.RemoveAllChildren(num(2) != 0))
	case "create":
		ca := (&virtual.Attributes{}).SetPermissions(virtual.PermissionsRead | virtual.PermissionsWrite)
		var eo *virtual.OpenExistingOptions
		if num(3)&1 != 0 {
			eo = &virtual.OpenExistingOptions{Truncate: num(3)&2 != 0}
		}
		if num(3)&4 != 0 {
			ca = nil
		}
		l, _, _, s := d.VirtualOpenChild(ctx, comp(str(2)), virtual.ShareMaskRead|virtual.ShareMaskWrite, ca, eo, maskPlain, &out)
		if s == virtual.StatusOK {
			w.addLeaf(l)
			l.VirtualClose(virtual.ShareMaskRead | virtual.ShareMaskWrite)
		}
		return fmt.Sprint("s", int(s))
	case "mknod":
		attr := &virtual.Attributes{}
		switch num(3) % 4 {
		case 0:
			attr.SetFileType(filesystem.FileTypeFIFO)
		case 1:
			attr.SetFileType(filesystem.FileTypeSocket)
		case 2:
			attr.SetFileType(filesystem.FileTypeSymlink)
			attr.SetSymlinkTarget(path.UNIXFormat.NewParser("target"))
		case 3:
			attr.SetFileType(filesystem.FileTypeBlockDevice)
		}
		_, _, s := d.VirtualMknod(ctx, comp(str(2)), attr, maskPlain, &out)
		return fmt.Sprint("s", int(s))
	case "link":
		l := w.leaf(num(3))
		if l == nil {
			return "noleaf"
		}
		_, s := d.VirtualLink(ctx, comp(str(2)), l, maskPlain, &out)
		return fmt.Sprint("s", int(s))
	case "vlookup":
		c, s := d.VirtualLookup(ctx, comp(str(2)), mask(3), &out)
		if s == virtual.StatusOK {
			if cd, _ := c.GetPair(); cd != nil {
				w.addDir(cd.(virtual.PrepopulatedDirectory))
			}
		}
		return fmt.Sprint("s", int(s))
	case "vreaddir":
		s := d.VirtualReadDir(ctx, uint64(num(2)), mask(3), &reporter{limit: 1 + num(4)})
		return fmt.Sprint("s", int(s))
	case "rename":
		target := w.dir(num(3))
		if w.concurrent {
			// never move a directory into its own subtree (the code does not reject that,
			// see the TODO in VirtualRename; cyclic hierarchies are outside this property):
			// concurrent workloads only rename inside one directory or between the two
			// fixed sibling directories #1 and #2
			if !(num(1) == num(3) || (num(1) == 1 && num(3) == 2) || (num(1) == 2 && num(3) == 1)) {
				target = d
			}
		} else if src, err := d.LookupChild(comp(str(2))); err == nil {
			if sd, _ := src.GetPair(); sd != nil && target != d && w.reaches(sd, target, 0) {
				return "skip-cycle"
			}
		}
		_, _, s := d.VirtualRename(ctx, comp(str(2)), target, comp(str(4)))
		return fmt.Sprint("s", int(s))
	case "vremove":
		_, s := d.VirtualRemove(ctx, comp(str(2)), num(3)&1 != 0, num(3)&2 != 0)
		return fmt.Sprint("s", int(s))
	case "getattr":
		d.VirtualGetAttributes(ctx, mask(2), &out)
		return "ok"
	case "setattr":
		in := &virtual.Attributes{}
		switch num(2) % 3 {
		case 0:
			in.SetSizeBytes(1)
		case 1:
			in.SetPermissions(virtual.PermissionsRead)
		}
		s := d.VirtualSetAttributes(ctx, in, maskLocked, &out)
		return fmt.Sprint("s", int(s))
	case "apply":
		d.VirtualApply(struct{}{})
		return "ok"
	case "hooks":
		setter := func(requested virtual.AttributesMask, attributes *virtual.Attributes) {}
		d.InstallHooks(w.files, w.symlinks, nullLogger{}, setter, virtual.NoNamedAttributesFactory)
		return "ok"
	case "children":
		// CreateChildren with one lazy sub-directory and one file
		leaf, err := w.baseFiles.NewFile(pool.ZeroHoleSource, false, 0, virtual.ShareMaskRead)
		if err != nil {
			return "err"
		}
		leaf.VirtualClose(virtual.ShareMaskRead)
		m := map[path.Component]virtual.InitialChild{
			comp(str(2)): virtual.InitialChild{}.FromDirectory(&fetcher{w: w, fail: &w.fetchFail}),
			comp(str(3)): virtual.InitialChild{}.FromLeaf(leaf),
		}
		if str(2) == str(3) {
			delete(m, comp(str(3)))
			leaf.Unlink()
		}
		err = d.CreateChildren(m, num(4) != 0)
		if err != nil && str(2) != str(3) {
			leaf.Unlink()
		}
		return errKind(err)
	case "filter":
		limit, removeEvery, n := 1+num(2), num(3), 0
		err := d.FilterChildren(func(node virtual.InitialChild, remove virtual.ChildRemover) bool {
			n++
			if removeEvery > 0 && n%removeEvery == 0 {
				remove()
			}
			return n < limit
		})
		return errKind(err)
	case "write":
		l := w.leaf(num(1))
		if l == nil {
			return "noleaf"
		}
		if s := l.VirtualOpenSelf(ctx, virtual.ShareMaskWrite, &virtual.OpenExistingOptions{Truncate: num(2)&1 != 0}, maskPlain, &out); s != virtual.StatusOK {
			return fmt.Sprint("s", int(s))
		}
		l.VirtualWrite(ctx, []byte("xyz"), uint64(num(2)))
		l.VirtualClose(virtual.ShareMaskWrite)
		return "ok"
	case "lsetattr":
		l := w.leaf(num(1))
		if l == nil {
			return "noleaf"
		}
		// only on a file that is still referenced (the kernel never passes a released handle)
		if s := l.VirtualOpenSelf(ctx, virtual.ShareMaskRead, &virtual.OpenExistingOptions{}, maskPlain, &out); s != virtual.StatusOK {
			return fmt.Sprint("s", int(s))
		}
		in := &virtual.Attributes{}
		if num(2)&1 != 0 {
			in.SetSizeBytes(uint64(num(2)))
		} else {
			in.SetPermissions(virtual.PermissionsRead | virtual.PermissionsExecute)
		}
		s := l.VirtualSetAttributes(ctx, in, maskPlain, &out)
		l.VirtualClose(virtual.ShareMaskRead)
		return fmt.Sprint("s", int(s))
	}
	return "bad-op"
}

// reaches: is `target` the directory `from` or inside its subtree?
func (w *world) reaches(from, target virtual.PrepopulatedDirectory, depth int) bool {
	if from == target {
		return true
	}
	if depth > 40 {
		return true
	}
	ds, _, err := from.LookupAllChildren()
	if err != nil {
		return false
	}
	for _, e := range ds {
		if w.reaches(e.Child, target, depth+1) {
			return true
		}
	}
	return false
}

// lockedDirs returns the ids of directories whose mutex is held although no
// call is in progress.
func (w *world) lockedDirs() []int {
	w.mu.Lock()
	ds := append([]virtual.PrepopulatedDirectory(nil), w.dirs...)
	w.mu.Unlock()
	var bad []int
	for i, d := range ds {
		if free, ok := virtual.VerifLockIsFree(d); ok && !free {
			bad = append(bad, i)
		}
	}
	return bad
}

var watchdog = hx.ScaledTimeout(3 * time.Second)

// runHistory executes ops sequentially; after every call the monitor checks
// that every directory lock is free. It returns "" or a description of the
// first violation, and the index of the op at which it happened.
func runHistory(seed uint64, nfs bool, ops []string, res *hx.Result) (string, int) {
	w := newWorld(seed, nfs)
	for i, op := range ops {
		done := make(chan string, 1)
		go func() { done <- w.apply(op) }()
		select {
		case o := <-done:
			if res != nil {
				res.Count("op:" + strings.Fields(op)[0])
				res.Count("outcome:" + strings.Fields(op)[0] + ":" + o)
				res.Evaluations++
			}
			if o == "bad-op" {
				return "bad-op " + op, i
			}
		case <-time.After(watchdog):
			return fmt.Sprintf("call %q did not return within %v (blocked on a lock that an earlier call left behind or that the call itself already holds)", op, watchdog), i
		}
		if bad := w.lockedDirs(); len(bad) > 0 {
			return fmt.Sprintf("after %q returned, the mutex of directory #%v is still held although no call is in progress", op, bad), i
		}
		if bad := w.lockedLeaves(); len(bad) > 0 { // leaf.go
			return fmt.Sprintf("after %q returned, the mutex of file #%v is still held although no call is in progress", op, bad), i
		}
	}
	return "", -1
}

// ---- generators ----------------------------------------------------------------------

func genOp(r *hx.Rand, nd int) string {
	d := r.Intn(nd + 2)
	n := names[r.Intn(len(names))]
	n2 := names[r.Intn(len(names))]
	m := []string{"P", "L"}[r.Intn(2)]
	switch r.Pick(10, 12, 4, 2, 3, 8, 5, 4, 6, 3, 3, 3, 6, 6, 10, 8, 2, 2, 1, 1, 4, 3, 2, 2, 2, 2) {
	case 0:
		return fmt.Sprintf("mkdir %d %s %s", d, n, m)
	case 1:
		return fmt.Sprintf("enter %d %s", d, n)
	case 2:
		return fmt.Sprintf("lookup %d %s", d, n)
	case 3:
		return fmt.Sprintf("lookupall %d", d)
	case 4:
		return fmt.Sprintf("readdir %d", d)
	case 5:
		return fmt.Sprintf("remove %d %s", d, n)
	case 6:
		return fmt.Sprintf("removeall %d %s", d, n)
	case 7:
		return fmt.Sprintf("rmchildren %d %d", d, r.Intn(2))
	case 8:
		return fmt.Sprintf("create %d %s %d", d, n, r.Intn(8))
	case 9:
		return fmt.Sprintf("mknod %d %s %d", d, n, r.Intn(4))
	case 10:
		return fmt.Sprintf("link %d %s %d", d, n, r.Intn(8))
	case 11:
		return fmt.Sprintf("vlookup %d %s %s", d, n, m)
	case 12:
		return fmt.Sprintf("vreaddir %d %d %s %d", d, r.Intn(4), m, r.Intn(5))
	case 13:
		return fmt.Sprintf("rename %d %s %d %s", d, n, r.Intn(nd+2), n2)
	case 14:
		return fmt.Sprintf("vremove %d %s %d", d, n, r.Intn(4))
	case 15:
		return fmt.Sprintf("fail %d", r.Intn(2))
	case 16:
		return fmt.Sprintf("fetchfail %d", r.Intn(2))
	case 17:
		return fmt.Sprintf("getattr %d %s", d, m)
	case 18:
		return fmt.Sprintf("setattr %d %d", d, r.Intn(3))
	case 19:
		return fmt.Sprintf("apply %d", d)
	case 20:
		return fmt.Sprintf("children %d %s %s %d", d, n, n2, r.Intn(2))
	case 21:
		return fmt.Sprintf("filter %d %d %d", d, r.Intn(6), r.Intn(3))
	case 22:
		return fmt.Sprintf("hooks %d", d)
	case 23:
		return fmt.Sprintf("write %d %d", r.Intn(8), r.Intn(4))
	case 24:
		return fmt.Sprintf("lsetattr %d %d", r.Intn(8), r.Intn(4))
	}
	return fmt.Sprintf("getattr %d %s", d, m)
}

// catalogue: call sequences that drive the early returns of the directory
// methods, keyed by the function whose paths they exercise. Directory ids are
// assigned in order of first appearance (0 = root).
var catalogue = map[string][][]string{
	"CreateAndEnterPrepopulatedDirectory": {
		// directory deleted ∧ name absent (the defect fixed in f1f0436)
		{"enter 0 a", "remove 0 a", "enter 1 b", "enter 1 b", "lookup 1 b"},
		{"enter 0 a", "vremove 0 a 3", "enter 1 b"},
		{"enter 0 a", "rmchildren 1 1", "enter 1 b", "readdir 1"},
		// name present: directory / leaf
		{"enter 0 a", "enter 0 a", "create 0 b 0", "enter 0 b", "enter 0 b"},
		// uninitialised directory whose contents fail to load
		{"fetchfail 1", "children 0 a c 0", "lookup 0 a", "enter 1 x", "fetchfail 0", "enter 1 x"},
	},
	"CreateChildren": {
		{"enter 0 a", "remove 0 a", "children 1 b c 0", "children 1 b c 1"},
		{"children 0 a b 0", "children 0 a c 0", "children 0 a c 1"},
		{"fetchfail 1", "children 0 a c 0", "lookup 0 a", "children 1 x y 0"},
	},
	"RemoveAll": {
		{"removeall 0 a", "enter 0 a", "enter 1 b", "removeall 0 a", "removeall 1 b"},
		{"fetchfail 1", "children 0 a c 0", "lookup 0 a", "removeall 1 x"},
	},
	"Remove": {
		{"remove 0 a", "enter 0 a", "enter 1 b", "remove 0 a", "remove 1 b", "remove 0 a"},
		{"fetchfail 1", "children 0 a c 0", "remove 0 a", "lookup 0 a", "remove 1 a"},
	},
	"VirtualRemove": {
		{"vremove 0 a 3", "enter 0 a", "enter 1 b", "vremove 0 a 3", "vremove 0 a 2", "vremove 0 a 0", "create 0 c 0", "vremove 0 c 1", "vremove 0 c 2"},
		{"fetchfail 1", "children 0 a c 0", "vremove 0 a 3", "lookup 0 a", "vremove 1 a 3"},
	},
	"VirtualRename": {
		{"enter 0 a", "enter 0 b", "rename 0 a 0 b", "rename 0 x 0 y", "enter 2 c", "rename 0 b 2 c"},
		{"enter 0 a", "enter 0 b", "enter 2 c", "rename 0 a 0 b", "create 0 f 0", "rename 0 f 0 a", "rename 0 a 0 f"},
		{"enter 0 a", "remove 0 a", "enter 0 b", "rename 0 b 1 x", "rename 1 x 0 y"},
		{"fetchfail 1", "children 0 a c 0", "lookup 0 a", "rename 0 c 1 x", "rename 1 x 0 y", "enter 0 d", "rename 0 d 0 a"},
	},
	"VirtualLookup": {
		{"enter 0 a", "vlookup 0 a P", "vlookup 0 a L", "vlookup 0 b L", "create 0 f 0", "vlookup 0 f L"},
		{"fetchfail 1", "children 0 a c 0", "lookup 0 a", "vlookup 1 a L"},
	},
	"VirtualReadDir": {
		{"enter 0 a", "enter 0 b", "create 0 f 0", "vreaddir 0 0 L 0", "vreaddir 0 0 L 9", "vreaddir 0 1 P 9"},
		{"fetchfail 1", "children 0 a c 0", "lookup 0 a", "vreaddir 1 0 L 9"},
	},
	"VirtualOpenChild": {
		{"create 0 f 0", "create 0 f 0", "create 0 f 1", "create 0 g 4", "enter 0 a", "create 0 a 1", "fail 1", "create 0 h 0", "fail 0", "create 0 h 0"},
		{"enter 0 a", "remove 0 a", "create 1 f 0"},
	},
	"VirtualMkdir": {
		{"mkdir 0 a L", "mkdir 0 a P", "enter 0 b", "remove 0 b", "mkdir 2 x P"},
	},
	"VirtualMknod": {
		{"mknod 0 a 0", "mknod 0 a 1", "mknod 0 b 2", "mknod 0 c 3", "fail 1", "mknod 0 d 2", "fail 0", "mknod 0 d 2"},
	},
	"VirtualLink": {
		{"create 0 f 0", "link 0 g 0", "link 0 g 0", "enter 0 a", "remove 0 a", "link 1 x 0"},
	},
	"LookupChild": {
		{"lookup 0 a", "enter 0 a", "lookup 0 a", "fetchfail 1", "children 0 b c 0", "lookup 0 b", "lookup 2 x"},
	},
	"LookupAllChildren": {{"enter 0 a", "create 0 f 0", "lookupall 0", "fetchfail 1", "children 0 b c 0", "lookup 0 b", "lookupall 2"}},
	"ReadDir":           {{"enter 0 a", "create 0 f 0", "readdir 0", "fetchfail 1", "children 0 b c 0", "lookup 0 b", "readdir 2"}},
	"removeAllChildren": {{"enter 0 a", "enter 1 b", "create 1 f 0", "rmchildren 0 0", "rmchildren 1 1", "children 0 x y 0", "rmchildren 0 1"}},
	"filterChildrenRecursive": {
		{"enter 0 a", "create 1 f 0", "children 0 x y 0", "filter 0 9 0", "filter 0 9 1", "filter 0 1 1"},
	},
	"VirtualGetAttributes": {{"getattr 0 L", "getattr 0 P", "setattr 0 0", "setattr 0 1", "setattr 0 2"}},
	"VirtualApply":         {{"apply 0", "children 0 a b 0", "lookup 0 a", "apply 1"}},
	"InstallHooks":         {{"hooks 0", "enter 0 a", "hooks 1"}},
}

// ---- concurrency ---------------------------------------------------------------------

// stress runs `workers` goroutines issuing random calls on a small shared
// hierarchy (opposite-direction renames, removals of directories being
// entered, bulk removals). All of them must finish within the watchdog.
func stress(seed uint64, nfs bool, workers, opsPer int, res *hx.Result) string {
	w := newWorld(seed, nfs)
	w.concurrent = true
	// fixed skeleton: /a /b /a/c /b/d
	for _, op := range []string{"enter 0 a", "enter 0 b", "enter 1 c", "enter 2 d"} {
		w.apply(op)
	}
	var wg sync.WaitGroup
	for g := 0; g < workers; g++ {
		wg.Add(1)
		go func(g int) {
			defer wg.Done()
			r := hx.NewRand(seed*1000 + uint64(g))
			for i := 0; i < opsPer; i++ {
				var op string
				switch r.Intn(10) {
				case 0: // renames in opposite directions between two directories
					if g%2 == 0 {
						op = "rename 1 c 2 c"
					} else {
						op = "rename 2 c 1 c"
					}
				case 1:
					if g%2 == 0 {
						op = "rename 1 x 2 y"
					} else {
						op = "rename 2 y 1 x"
					}
				case 2: // removal of a directory that is being entered
					op = []string{"remove 1 c", "vremove 1 c 3", "enter 1 c", "enter 3 x", "vlookup 1 c L", "vreaddir 1 0 L 9"}[r.Intn(6)]
				case 3: // bulk removals
					op = []string{"rmchildren 1 0", "rmchildren 3 1", "removeall 0 a", "enter 0 a", "children 1 x y 1"}[r.Intn(5)]
				default:
					op = genOp(r, w.nDirs())
					if strings.HasPrefix(op, "fail") || strings.HasPrefix(op, "fetchfail") {
						op = "vreaddir 0 0 L 9"
					}
				}
				w.apply(op)
			}
		}(g)
	}
	done := make(chan struct{})
	go func() { wg.Wait(); close(done) }()
	select {
	case <-done:
	case <-time.After(hx.ScaledTimeout(20 * time.Second)):
		return fmt.Sprintf("concurrent workload (%d goroutines x %d calls, seed %d) did not terminate within 20s: deadlock or leaked lock", workers, opsPer, seed)
	}
	if res != nil {
		res.Evaluations += workers * opsPer
		res.Count("stress:rounds")
	}
	if bad := w.lockedDirs(); len(bad) > 0 {
		return fmt.Sprintf("after a concurrent workload (seed %d) finished, the mutex of directory #%v is still held", seed, bad)
	}
	if bad := w.lockedLeaves(); len(bad) > 0 {
		return fmt.Sprintf("after a concurrent workload (seed %d) finished, the mutex of file #%v is still held", seed, bad)
	}
	return ""
}

// ---- main ----------------------------------------------------------------------------

func splitList(s string) []string {
	parts := strings.Split(s, " || ")
	if len(parts) <= 1 {
		return nil
	}
	return parts[1:]
}

func main() {
	o := hx.ParseFlags()
	res := hx.NewResult("lockleak", o,
		"a history counts when it contains at least one call that returned an error/non-OK status or found its directory deleted, and the lock monitor (every directory mutex free after every call, every call returns within the watchdog) was evaluated after each of its calls")
	defer res.Write(o)

	if o.Replay != "" {
		f, err := hx.LoadReplay(o.Replay)
		if err != nil {
			fmt.Fprintln(os.Stderr, err)
			os.Exit(2)
		}
		if len(f.History) == 0 {
			res.Notes = append(res.Notes, "replay has no call sequence (static finding); re-run ./check C14 to re-evaluate the obligation")
			return
		}
		if replayScenarios(f.History, res) { // "sched <scenario>" / "idle <scenario>" (sched.go, idle.go)
			return
		}
		if f.History[0] == "pile" {
			drv, err := hx.StartDriver("lockpile")
			if err != nil {
				drv = nil
			} else {
				defer drv.Close()
			}
			if v := runPileHistory(f.History[1:], drv, res); v.kind != "" {
				res.Report(hx.Finding{Kind: v.kind, Property: "C14", What: v.what, Name: "LockPile correspondence", History: f.History, Sig: hx.Sig("C14", "pile", v.kind)})
			}
			res.History(f.History, true)
			return
		}
		if strings.HasPrefix(f.History[0], "stress ") {
			var seed uint64
			var nfs bool
			fmt.Sscanf(f.History[0], "stress seed=%d nfs=%t", &seed, &nfs)
			if what := stress(seed, nfs, 8, 150, res); what != "" {
				res.Report(hx.Finding{Kind: "violation", Property: "C14", What: what, Name: "concurrent workload watchdog", History: f.History, Sig: hx.Sig("C14", "stress")})
			}
			return
		}
		for _, nfs := range []bool{false, true} {
			if what, _ := runHistory(o.Seed, nfs, f.History, res); what != "" {
				res.Report(hx.Finding{Kind: "violation", Property: "C14", What: what, Name: "lock monitor", History: f.History,
					Sig: hx.Sig("C14", "leak", strings.Join(f.History, ";"))})
				return
			}
		}
		res.History(f.History, true)
		return
	}

	// 1. the checker's verdict on the skeletons generated from the current source
	checkerBad := map[string]string{} // short function name -> explanation
	if drv, err := hx.StartDriver("lockskel"); err != nil {
		res.Report(hx.Finding{Kind: "mismatch", Property: "C14", What: "cannot start drv_lockskel: " + err.Error(),
			Name: "driver lockskel", Sig: "driver-lockskel"})
	} else {
		for _, q := range []string{"stats", "files", "skipped", "declared", "inlined", "needsnocaller", "eitherlock", "guardexempt"} {
			a, err := drv.Ask(q)
			if err != nil {
				res.Report(hx.Finding{Kind: "mismatch", Property: "C14", What: err.Error(), Name: "driver lockskel", Sig: "driver-lockskel"})
				break
			}
			if q == "stats" {
				res.Notes = append(res.Notes, "lockskel "+a)
				for _, kv := range strings.Fields(a) {
					if p := strings.SplitN(kv, "=", 2); len(p) == 2 {
						n, _ := strconv.Atoi(p[1])
						res.Histogram["skeleton:"+p[0]] = n
					}
				}
				continue
			}
			for _, e := range splitList(a) {
				res.Count(q + ": " + e)
			}
		}
		if a, err := drv.Ask("violations"); err == nil {
			for _, e := range splitList(a) {
				name := e
				if i := strings.Index(e, " @"); i >= 0 {
					name = e[:i]
				}
				short := name[strings.LastIndex(name, ".")+1:]
				checkerBad[short] = e
				res.Count("checker-violation: " + name)
			}
		}
		if a, err := drv.Ask("edges"); err == nil {
			for _, e := range splitList(a) {
				res.Count("acquired-while-holding: " + e)
			}
		}
		if a, err := drv.Ask("txviolations"); err == nil {
			for _, e := range splitList(a) {
				res.Report(hx.Finding{Kind: "mismatch", Property: "C14", Name: "BbRe.Properties.C14Generated.transactions_ok",
					What: "transaction (check-then-act) obligation fails: " + e, Sig: hx.Sig("C14", "tx", e)})
			}
		}
		if a, err := drv.Ask("orderviolations"); err == nil {
			for _, e := range splitList(a) {
				res.Report(hx.Finding{Kind: "mismatch", Property: "C14", Name: "BbRe.Properties.C14Generated.class_graph_ok",
					What: "lock-order obligation fails: " + e, Sig: hx.Sig("C14", "order", e)})
			}
		}
		drv.Close()
	}

	// 2. catalogue (always) — the monitor on the real code
	demonstrated := map[string]bool{}
	keys := make([]string, 0, len(catalogue))
	for k := range catalogue {
		keys = append(keys, k)
	}
	sort.Strings(keys)
	for _, fn := range keys {
		for _, h := range catalogue[fn] {
			if demonstrated[fn] {
				break
			}
			for _, nfs := range []bool{false, true} {
				what, at := runHistory(o.Seed, nfs, h, res)
				res.TracesVsImpl++
				if what != "" {
					hist := h[:at+1]
					hist = hx.Shrink(hist, func(c []string) bool {
						w, _ := runHistory(o.Seed, nfs, c, nil)
						return w != "" && !strings.HasPrefix(w, "bad-op")
					})
					demonstrated[fn] = true
					extra := ""
					if e, ok := checkerBad[fn]; ok {
						extra = " — the lock-balance checker reports the same function: " + e
					}
					res.Report(hx.Finding{Kind: "violation", Property: "C14", Name: "lock monitor (catalogue " + fn + ")",
						What: what + extra, History: hist, Sig: hx.Sig("C14", "leak", strings.Join(hist, ";"))})
					break
				}
			}
			res.History(h, true)
		}
	}
	// 2b. scenario runs on the real scheduler and IdleInvoker under the same monitor
	runSchedScenarios(o, res, checkerBad, demonstrated)
	runIdleScenarios(o, res, checkerBad, demonstrated)
	runNFSScenarios(o, res, checkerBad, demonstrated)
	// checker findings that no catalogued call sequence demonstrates
	for fn, e := range checkerBad {
		if !demonstrated[fn] {
			res.Report(hx.Finding{Kind: "mismatch", Property: "C14", Name: "BbRe.Properties.C14Generated.skeletons_consistent",
				What: "lock-balance obligation fails: " + e + " (no catalogued call sequence demonstrates it on the running code)",
				Sig:  hx.Sig("C14", "static", fn)})
		}
	}

	// 3. random call sequences
	r := hx.NewRand(o.Seed)
	nHist, nOps := 3000, 40
	if o.Tier == "thorough" {
		nHist, nOps = 6000, 60
	}
	nHist *= max(1, o.Scale)
	reported := 0
	for i := 0; i < nHist && reported < 3; i++ {
		ops := make([]string, 0, nOps)
		nd := 1
		for j := 0; j < nOps; j++ {
			ops = append(ops, genOp(r, nd))
			if strings.HasPrefix(ops[j], "enter") || strings.HasPrefix(ops[j], "mkdir") {
				nd++
			}
		}
		nfs := i%2 == 1
		before := res.Histogram["outcome-nonok"]
		what, at := runHistoryCounting(o.Seed+uint64(i), nfs, ops, res)
		res.TracesVsImpl++
		res.History(ops, res.Histogram["outcome-nonok"] > before)
		if what != "" {
			hist := hx.Shrink(ops[:at+1], func(c []string) bool {
				w, _ := runHistory(o.Seed+uint64(i), nfs, c, nil)
				return w != "" && !strings.HasPrefix(w, "bad-op")
			})
			res.Report(hx.Finding{Kind: "violation", Property: "C14", Name: "lock monitor (generated call sequence)",
				What: what, History: hist, Sig: hx.Sig("C14", "leak", strings.Join(hist, ";"))})
			reported++
		}
	}

	// 4. the real LockPile against Model/LockPile.lean
	runPile(o, res)

	// 5. concurrent workloads under a watchdog
	rounds := 30
	if o.Tier == "thorough" {
		rounds = 150
	}
	for i := 0; i < rounds; i++ {
		if what := stress(o.Seed*7919+uint64(i), i%2 == 1, 8, 150, res); what != "" {
			res.Report(hx.Finding{Kind: "violation", Property: "C14", Name: "concurrent workload watchdog", What: what,
				History: []string{fmt.Sprintf("stress seed=%d nfs=%v workers=8 ops=150", o.Seed*7919+uint64(i), i%2 == 1)},
				Sig:     hx.Sig("C14", "stress")})
			break
		}
	}
}

// runHistoryCounting is runHistory plus a count of non-OK outcomes (for the
// non-triviality rule).
func runHistoryCounting(seed uint64, nfs bool, ops []string, res *hx.Result) (string, int) {
	what, at := runHistory(seed, nfs, ops, res)
	n := 0
	for k, v := range res.Histogram {
		if strings.HasPrefix(k, "outcome:") && !strings.HasSuffix(k, ":ok") && !strings.HasSuffix(k, ":s0") {
			n += v
		}
	}
	res.Histogram["outcome-nonok"] = n
	return what, at
}
