package main

// Scenario runs for C14 on the real pkg/cleaner.IdleInvoker.
//
// IdleInvoker drops its mutex while the Cleaner function runs; an Acquire()
// that arrives meanwhile waits (lock released) for the cleaner or for its
// context. The scenarios drive every return of Acquire() and Release():
// uncontended, cleaner fails, waiting for a running cleaner, waiting and being
// cancelled / timing out. The cleaner is a fake whose next call can be made to
// block or to fail.
//
// Monitor (see scenMon in sched.go): every call returns within the watchdog
// once nothing it legitimately waits for is outstanding, and after every call
// that returned the IdleInvoker's mutex is free (hook VerifLockIsFree) — the
// calls that are in flight at that moment are parked inside the fake cleaner,
// where the real code holds no lock.

import (
	"context"
	"sync"
	"time"

	"github.com/buildbarn/bb-remote-execution/pkg/cleaner"
	"google.golang.org/grpc/codes"
	"google.golang.org/grpc/status"

	"verifharness/internal/hx"
)

type idleFixture struct {
	m     *scenMon
	ii    *cleaner.IdleInvoker
	mu    sync.Mutex
	fail  bool
	gate  *scenGate
	calls int
}

func newIdleFixture(m *scenMon) *idleFixture {
	f := &idleFixture{m: m}
	f.ii = cleaner.NewIdleInvoker(func(ctx context.Context) error {
		f.mu.Lock()
		f.calls++
		g, fail := f.gate, f.fail
		f.gate = nil
		f.mu.Unlock()
		if g != nil {
			close(g.entered)
			<-g.release
		}
		if fail {
			return status.Error(codes.Internal, "injected cleaner failure")
		}
		if err := ctx.Err(); err != nil {
			return status.FromContextError(err).Err()
		}
		return nil
	})
	m.lockFree = f.ii.VerifLockIsFree
	return f
}

func (f *idleFixture) setFail(b bool) {
	f.mu.Lock()
	f.fail = b
	f.mu.Unlock()
	if b {
		f.m.note("the cleaner fails from now on")
	} else {
		f.m.note("the cleaner succeeds from now on")
	}
}

// blockNextCleaner makes the next call of the cleaner block until released.
func (f *idleFixture) blockNextCleaner() *scenGate {
	g := newScenGate()
	f.mu.Lock()
	f.gate = g
	f.mu.Unlock()
	f.m.onCleanup(g.open)
	return g
}

func (f *idleFixture) startAcquire(label string, ctx context.Context) *scenCall {
	return f.m.start(label, "Acquire", func() error { return f.ii.Acquire(ctx) })
}

func (f *idleFixture) startRelease(label string) *scenCall {
	return f.m.start(label, "Release", func() error { return f.ii.Release(context.Background()) })
}

func (f *idleFixture) acquire(want string) bool {
	o, ok := f.m.await(f.startAcquire("Acquire()", context.Background()))
	f.m.want("Acquire()", o, want)
	return ok
}

func (f *idleFixture) release(want string) bool {
	o, ok := f.m.await(f.startRelease("Release()"))
	f.m.want("Release()", o, want)
	return ok
}

// laterCallsGetThrough: "a failed call never blocks later calls".
func (f *idleFixture) laterCallsGetThrough() bool {
	f.m.note("later calls:")
	return f.acquire("OK") && f.acquire("OK") && f.release("OK") && f.release("OK")
}

// waitingAcquireGivesUp is the shape shared by the cancellation scenarios:
// while `holder` is inside the cleaner, a second Acquire(ctx) has to wait and
// then gives up; `giveUp` makes its context end.
func (f *idleFixture) waitingAcquireGivesUp(holder *scenCall, g *scenGate, ctx context.Context, giveUp func(), want string) bool {
	m := f.m
	if !m.reached(holder, "the cleaner (lock released)", g.entered) {
		return false
	}
	w := f.startAcquire("Acquire(ctx2) [has to wait for the running cleaner]", ctx)
	// Give the second thread the opportunity to reach its select statement;
	// giving up before or after that point are both valid inputs that take
	// the same return path.
	time.Sleep(100 * time.Millisecond)
	giveUp()
	o, ok := m.await(w)
	m.want(w.label, o, want)
	if !ok {
		return false
	}
	g.open()
	m.note("the cleaner called by " + holder.label + " finishes")
	o, ok = m.await(holder)
	m.want(holder.label, o, "OK")
	return ok
}

var idleScenarios = []scenario{
	{"acquire-release", func(m *scenMon) {
		f := newIdleFixture(m)
		if !(f.acquire("OK") && f.acquire("OK") && f.release("OK") && f.release("OK") && f.acquire("OK") && f.release("OK")) {
			return
		}
		f.mu.Lock()
		calls := f.calls
		f.mu.Unlock()
		if calls != 4 {
			m.expect = append(m.expect, "the cleaner was not called on exactly the four idle/busy transitions")
		}
	}},
	{"acquire-cleaner-fails", func(m *scenMon) {
		f := newIdleFixture(m)
		f.setFail(true)
		if !(f.acquire("Internal") && f.acquire("Internal")) {
			return
		}
		f.setFail(false)
		f.laterCallsGetThrough()
	}},
	{"release-cleaner-fails", func(m *scenMon) {
		f := newIdleFixture(m)
		if !(f.acquire("OK") && f.acquire("OK") && f.release("OK")) {
			return
		}
		f.setFail(true)
		if !f.release("Internal") {
			return
		}
		f.setFail(false)
		f.laterCallsGetThrough()
	}},
	// Acquire with a context that is already cancelled: the cleaner is still
	// attempted and reports the cancellation.
	{"acquire-already-cancelled", func(m *scenMon) {
		f := newIdleFixture(m)
		ctx, cancel := context.WithCancel(context.Background())
		cancel()
		o, ok := m.await(f.startAcquire("Acquire(cancelled ctx)", ctx))
		m.want("Acquire(cancelled ctx)", o, "Canceled")
		if !ok {
			return
		}
		f.laterCallsGetThrough()
	}},
	// Contended, nobody gives up.
	{"acquire-waits-for-cleaner", func(m *scenMon) {
		f := newIdleFixture(m)
		g := f.blockNextCleaner()
		a1 := f.startAcquire("Acquire() [thread 1, runs the cleaner]", context.Background())
		if !m.reached(a1, "the cleaner (lock released)", g.entered) {
			return
		}
		a2 := f.startAcquire("Acquire() [thread 2, has to wait for the running cleaner]", context.Background())
		time.Sleep(50 * time.Millisecond)
		if !m.checkFree("thread 2 started waiting for the cleaner", "Acquire") {
			return
		}
		g.open()
		m.note("the cleaner finishes")
		for _, c := range []*scenCall{a1, a2} {
			o, ok := m.await(c)
			m.want(c.label, o, "OK")
			if !ok {
				return
			}
		}
		if f.release("OK") && f.release("OK") {
			f.laterCallsGetThrough()
		}
	}},
	// The seeded path: a waiting Acquire is cancelled while the cleaner of another Acquire runs.
	{"acquire-cancel-while-waiting", func(m *scenMon) {
		f := newIdleFixture(m)
		g := f.blockNextCleaner()
		a1 := f.startAcquire("Acquire() [thread 1, runs the cleaner]", context.Background())
		ctx2, cancel2 := context.WithCancel(context.Background())
		m.onCleanup(cancel2)
		if !f.waitingAcquireGivesUp(a1, g, ctx2, func() { cancel2(); m.note("ctx2 is cancelled") }, "Canceled") {
			return
		}
		if f.release("OK") {
			f.laterCallsGetThrough()
		}
	}},
	// Same, but the context runs into its deadline.
	{"acquire-deadline-while-waiting", func(m *scenMon) {
		f := newIdleFixture(m)
		g := f.blockNextCleaner()
		a1 := f.startAcquire("Acquire() [thread 1, runs the cleaner]", context.Background())
		ctx2, cancel2 := context.WithTimeout(context.Background(), 30*time.Millisecond)
		m.onCleanup(cancel2)
		if !f.waitingAcquireGivesUp(a1, g, ctx2, func() { m.note("ctx2 passes its deadline") }, "DeadlineExceeded") {
			return
		}
		if f.release("OK") {
			f.laterCallsGetThrough()
		}
	}},
	// Same, but the cleaner that is running was started by a Release.
	{"acquire-cancel-while-release-cleans", func(m *scenMon) {
		f := newIdleFixture(m)
		if !f.acquire("OK") {
			return
		}
		g := f.blockNextCleaner()
		r := f.startRelease("Release() [thread 1, runs the cleaner]")
		ctx2, cancel2 := context.WithCancel(context.Background())
		m.onCleanup(cancel2)
		if !f.waitingAcquireGivesUp(r, g, ctx2, func() { cancel2(); m.note("ctx2 is cancelled") }, "Canceled") {
			return
		}
		f.laterCallsGetThrough()
	}},
}

func idleScenarioByName(name string) (func(m *scenMon), bool) {
	for _, s := range idleScenarios {
		if s.name == name {
			return s.body, true
		}
	}
	return nil, false
}

// runIdleScenarios runs every IdleInvoker scenario once under the monitor.
func runIdleScenarios(o hx.Opts, res *hx.Result, checkerBad map[string]string, demonstrated map[string]bool) {
	for _, s := range idleScenarios {
		m := runScenario("idle", "IdleInvoker", s.name, res, s.body)
		reportScenario(m, "IdleInvoker", res, checkerBad, demonstrated)
	}
}
