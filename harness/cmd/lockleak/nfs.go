package main

// Scenario runs for C14 on the real NFSv4.0 and NFSv4.1 programs
// (pkg/filesystem/virtual/nfsv4) on top of a real in-memory directory tree
// with pool-backed files and a real OpenedFilesPool (test bed: internal/nfsx).
//
// Every scenario is a short sequence of COMPOUND requests that drives the
// error returns of the operations that take the server's locks: the program
// lock of NFSv4.0 (which OPEN drops and re-takes around VirtualOpenChild), and
// clientsLock plus the per-client lock of NFSv4.1 (SEQUENCE, CREATE_SESSION,
// OPEN, LOCK, ...). A few scenarios park a request inside the file system
// (lock released) and let other requests run meanwhile.
//
// Monitor (scenMon in sched.go): every COMPOUND returns within the watchdog;
// after every COMPOUND that returned, all of these can be acquired: the
// program's mutexes (hook VerifProgramHeldLocks), the mutexes of the
// OpenedFilesPool (VerifLocksAreFree), of every directory (VerifLockIsFree)
// and of every file and the NFS handle pool (VerifLeafLocksAreFree); and a
// later cheap COMPOUND of another client returns within the watchdog.

import (
	"context"
	"fmt"
	"strings"
	"time"

	"github.com/buildbarn/bb-remote-execution/pkg/filesystem/virtual"
	re_nfsv4 "github.com/buildbarn/bb-remote-execution/pkg/filesystem/virtual/nfsv4"
	"github.com/buildbarn/go-xdr/pkg/protocols/nfsv4"

	"verifharness/internal/hx"
	"verifharness/internal/nfsx"
)

// nfsStatus makes the status of a COMPOUND the outcome of a monitored call.
type nfsStatus nfsv4.Nfsstat4

func nfsStatusName(st nfsv4.Nfsstat4) string {
	if st == nfsv4.NFS4_OK {
		return "OK"
	}
	if n, ok := nfsv4.Nfsstat4_name[st]; ok {
		return n
	}
	return fmt.Sprintf("status-%d", uint32(st))
}

func (s nfsStatus) Error() string       { return nfsStatusName(nfsv4.Nfsstat4(s)) }
func (s nfsStatus) ScenOutcome() string { return nfsStatusName(nfsv4.Nfsstat4(s)) }

type nfsPanic string

func (s nfsPanic) Error() string       { return string(s) }
func (s nfsPanic) ScenOutcome() string { return "panic(" + string(s) + ")" }

type nfsFixture struct {
	m     *scenMon
	w     *nfsx.World
	p     nfsv4.Nfs4Program
	minor uint32

	dirs     []virtual.PrepopulatedDirectory
	dirNames []string
	leaves   []virtual.Leaf
	leafSeen map[virtual.Leaf]bool

	// the client that issues the "later" compounds
	probeClient uint64
	probeSess   [16]byte
	probeSeq    uint32

	// NFSv4.1: session of the client under test; next sequence id per slot
	cid  uint64
	sess [16]byte
	seq  [nfsx.Slots]uint32
}

type nfsCall struct {
	c   *scenCall
	res *nfsv4.Compound4res
}

func newNFSFixture(m *scenMon, minor uint32) *nfsFixture {
	f := &nfsFixture{m: m, w: nfsx.NewWorld(7, 2), minor: minor, leafSeen: map[virtual.Leaf]bool{}}
	if minor == 0 {
		f.p = f.w.NewNFS40()
	} else {
		f.p = f.w.NewNFS41()
	}
	f.dirs, f.dirNames = []virtual.PrepopulatedDirectory{f.w.Root}, []string{"/"}
	if ds, _, err := f.w.Root.LookupAllChildren(); err == nil {
		for _, d := range ds {
			f.dirs, f.dirNames = append(f.dirs, d.Child), append(f.dirNames, "/"+d.Name.String())
		}
	}
	m.onCleanup(f.w.ReleaseAll)
	m.lockFree = func() bool {
		if held := f.heldLocks(); len(held) > 0 {
			// names the locks in the monitor's message
			m.object = fmt.Sprintf("NFSv4.%d server (%s)", minor, strings.Join(held, ", "))
			return false
		}
		return true
	}
	// the client of the later compounds
	m.call("set-up: register the client that issues the later compounds", "setup", func() error {
		var err error
		if minor == 0 {
			f.probeClient, err = nfsx.Register40(f.p, "later-client", 9)
		} else {
			f.probeClient, _, f.probeSess, err = nfsx.Register41(f.p, "later-client", 9)
		}
		return err
	})
	return f
}

// heldLocks lists every mutex of the server that cannot be acquired.
func (f *nfsFixture) heldLocks() []string {
	var held []string
	if h, ok := re_nfsv4.VerifProgramHeldLocks(f.p); ok {
		held = append(held, h...)
	}
	if !f.w.Pool.VerifLocksAreFree() {
		held = append(held, "a lock of the OpenedFilesPool")
	}
	dirsFree := true
	for i, d := range f.dirs {
		if free, ok := virtual.VerifLockIsFree(d); ok && !free {
			held = append(held, "directory "+f.dirNames[i])
			dirsFree = false
		}
	}
	if dirsFree {
		// pick up files that requests created meanwhile
		for _, d := range f.dirs {
			if _, ls, err := d.LookupAllChildren(); err == nil {
				for _, l := range ls {
					if !f.leafSeen[l.Child] {
						f.leafSeen[l.Child] = true
						f.leaves = append(f.leaves, l.Child)
					}
				}
			}
		}
	}
	for i, l := range f.leaves {
		if free, ok := virtual.VerifLeafLocksAreFree(l); ok && !free {
			held = append(held, fmt.Sprintf("file #%d (its own lock or the lock of the NFS handle pool)", i))
		}
	}
	return held
}

func nfsOpNames(ops []nfsv4.NfsArgop4) string {
	names := make([]string, 0, len(ops))
	for _, op := range ops {
		n, ok := nfsv4.NfsOpnum4_name[op.GetArgop()]
		if !ok {
			n = fmt.Sprintf("op%d", uint32(op.GetArgop()))
		}
		names = append(names, strings.TrimPrefix(n, "OP_"))
	}
	return strings.Join(names, ",")
}

// startRaw sends one COMPOUND with explicit minor version and tag.
func (f *nfsFixture) startRaw(note, short string, minor uint32, tag string, ops ...nfsv4.NfsArgop4) *nfsCall {
	nc := &nfsCall{}
	label := fmt.Sprintf("v4.%d COMPOUND[%s]", minor, nfsOpNames(ops))
	if note != "" {
		label += " (" + note + ")"
	}
	nc.c = f.m.start(label, short, func() (err error) {
		defer func() {
			if r := recover(); r != nil {
				err = nfsPanic(fmt.Sprint(r))
			}
		}()
		res, err := f.p.NfsV4Nfsproc4Compound(context.Background(), &nfsv4.Compound4args{Tag: tag, Minorversion: minor, Argarray: ops})
		if err != nil {
			return err
		}
		nc.res = res
		if res.Status != nfsv4.NFS4_OK {
			return nfsStatus(res.Status)
		}
		return nil
	})
	return nc
}

func (f *nfsFixture) start(note, short string, ops ...nfsv4.NfsArgop4) *nfsCall {
	return f.startRaw(note, short, f.minor, "", ops...)
}

// later: a cheap compound of another client must get through (it takes the
// program lock, a directory lock and a file lock).
func (f *nfsFixture) later(short, when string) bool {
	if f.m.failed() {
		return false
	}
	tail := []nfsv4.NfsArgop4{nfsx.PutFH(f.w.DirHandles[0]), nfsx.Lookup("f"), nfsx.GetAttr(1 << nfsv4.FATTR4_SIZE)}
	var ops []nfsv4.NfsArgop4
	if f.minor == 0 {
		ops = append([]nfsv4.NfsArgop4{nfsx.Renew(f.probeClient)}, tail...)
	} else {
		f.probeSeq++
		ops = append([]nfsv4.NfsArgop4{nfsx.Sequence(f.probeSess, 0, f.probeSeq, false)}, tail...)
	}
	nc := f.start("", short, ops...)
	nc.c.label, nc.c.fn = nc.c.label+" (a later request of another client, "+when+")", "later-compound"
	f.m.trace = f.m.trace[:len(f.m.trace)-1]
	o, ok := f.m.await(nc.c)
	f.m.want("the later request", o, "OK")
	return ok
}

// finish waits for the reply, evaluates the monitor and sends a later request.
// want lists the acceptable statuses ("" = any), separated by "|".
func (f *nfsFixture) finish(nc *nfsCall, want string) (*nfsv4.Compound4res, bool) {
	o, ok := f.m.await(nc.c)
	if !ok {
		return nil, false
	}
	if want != "" {
		f.m.want(nc.c.label, o, strings.Split(want, "|")...)
	}
	if !f.later(nc.c.short, "after "+nc.c.label+" returned") {
		return nil, false
	}
	return nc.res, nc.res != nil
}

func (f *nfsFixture) do(note, short, want string, ops ...nfsv4.NfsArgop4) (*nfsv4.Compound4res, bool) {
	if f.m.failed() {
		return nil, false
	}
	return f.finish(f.start(note, short, ops...), want)
}

// ---- NFSv4.0 helpers ---------------------------------------------------------------------

func (f *nfsFixture) register40(id string, verifier byte) (uint64, bool) {
	var cid uint64
	o, ok := f.m.call("SETCLIENTID + SETCLIENTID_CONFIRM of client "+id, "opSetclientidConfirm", func() error {
		var err error
		cid, err = nfsx.Register40(f.p, id, verifier)
		return err
	})
	f.m.want("client registration", o, "OK")
	return cid, ok && o == "OK"
}

// open40 opens d<file>/f for a (new) open-owner and confirms it; returns the
// confirmed state ID. The open-owner's next seqid is seqid+2.
func (f *nfsFixture) open40(cid uint64, owner string, seqid uint32, file int, access uint32) (nfsv4.Stateid4, bool) {
	r, ok := f.do(fmt.Sprintf("open-owner %s opens d%d/f", owner, file), "txOpen", "OK",
		nfsx.PutFH(f.w.DirHandles[file]), nfsx.OpenNull(cid, owner, seqid, access, nfsx.NoCreate, "f"), nfsx.GetFH())
	if !ok {
		return nfsv4.Stateid4{}, false
	}
	sid, found := nfsx.OpenStateID(r)
	if !found {
		return sid, false
	}
	if nfsx.OpenNeedsConfirm(r) {
		r, ok = f.do("confirm open-owner "+owner, "txOpenConfirm", "OK", nfsx.PutFH(f.w.FileHandles[file]), nfsx.OpenConfirm(sid, seqid+1))
		if !ok {
			return sid, false
		}
		sid, found = nfsx.ResultStateID(r)
	}
	return sid, found
}

// seq40 tracks the seqid of an NFSv4.0 open-owner or lock-owner: a request
// uses the value n; the owner moves on unless the request failed with one of
// the statuses that leave the seqid alone (RFC 7530, section 9.1.7).
type seq40 struct{ n uint32 }

// do40 sends a compound whose last operation carries the owner's seqid.
func (f *nfsFixture) do40(o *seq40, note, short, want string, ops ...nfsv4.NfsArgop4) (*nfsv4.Compound4res, bool) {
	r, ok := f.do(note, short, want, ops...)
	if r != nil {
		switch r.Status {
		case nfsv4.NFS4ERR_STALE_CLIENTID, nfsv4.NFS4ERR_STALE_STATEID, nfsv4.NFS4ERR_BAD_STATEID, nfsv4.NFS4ERR_BAD_SEQID,
			nfsv4.NFS4ERR_BADXDR, nfsv4.NFS4ERR_RESOURCE, nfsv4.NFS4ERR_NOFILEHANDLE, nfsv4.NFS4ERR_MOVED:
		default:
			o.n++
		}
	}
	return r, ok
}

func bogusStateID() nfsv4.Stateid4 {
	return nfsv4.Stateid4{Seqid: 1, Other: [12]byte{0x76, 0x65, 0x72, 0x69, 9, 9, 9, 9, 9, 9, 9, 9}}
}

// ---- NFSv4.1 helpers ---------------------------------------------------------------------

func (f *nfsFixture) register41(owner string, verifier byte) bool {
	o, ok := f.m.call("EXCHANGE_ID + CREATE_SESSION of client "+owner, "opCreateSession", func() error {
		var err error
		f.cid, _, f.sess, err = nfsx.Register41(f.p, owner, verifier)
		return err
	})
	f.m.want("client registration", o, "OK")
	return ok && o == "OK"
}

// seqOp is the next SEQUENCE of the client under test on a slot.
func (f *nfsFixture) seqOp(slot uint32) nfsv4.NfsArgop4 {
	f.seq[slot]++
	return nfsx.Sequence(f.sess, slot, f.seq[slot], true)
}

// in41 runs ops inside the next SEQUENCE of slot 0.
func (f *nfsFixture) in41(note, short, want string, ops ...nfsv4.NfsArgop4) (*nfsv4.Compound4res, bool) {
	if f.m.failed() {
		return nil, false
	}
	return f.do(note, short, want, append([]nfsv4.NfsArgop4{f.seqOp(0)}, ops...)...)
}

// ---- scenarios ---------------------------------------------------------------------------

var nfsScenarios = []scenario{
	{"v40-compound-malformed", func(m *scenMon) {
		f := newNFSFixture(m, 0)
		f.finish(f.startRaw("wrong minor version", "NfsV4Nfsproc4Compound", 1, "", nfsx.PutRootFH()), "NFS4ERR_MINOR_VERS_MISMATCH")
		f.finish(f.startRaw("tag is not UTF-8", "NfsV4Nfsproc4Compound", 0, "\xff\xfe", nfsx.PutRootFH(), nfsx.GetFH()), "")
		f.finish(f.startRaw("no operations", "NfsV4Nfsproc4Compound", 0, ""), "OK")
		f.do("illegal operation", "NfsV4Nfsproc4Compound", "NFS4ERR_OP_ILLEGAL", &nfsv4.NfsArgop4_OP_ILLEGAL{})
		f.do("4.1 operation sent to 4.0", "NfsV4Nfsproc4Compound", "", nfsx.DestroyClientID(1))
		f.do("stale file handle", "opPutfh", "NFS4ERR_STALE|NFS4ERR_BADHANDLE", nfsx.PutFH([]byte{1, 2, 3, 4, 5, 6, 7, 8, 9}), nfsx.GetFH())
		f.do("empty file handle", "opPutfh", "NFS4ERR_STALE|NFS4ERR_BADHANDLE", nfsx.PutFH(nil), nfsx.GetFH())
		f.do("no current file handle", "opGetfh", "NFS4ERR_NOFILEHANDLE", nfsx.GetFH())
		f.do("lookup of a missing name", "opLookup", "NFS4ERR_NOENT", nfsx.PutRootFH(), nfsx.Lookup("missing"))
		f.do("lookup inside a file", "opLookup", "NFS4ERR_NOTDIR", nfsx.PutFH(f.w.FileHandles[0]), nfsx.Lookup("x"))
		f.do("remove of a missing name", "opRemove", "NFS4ERR_NOENT", nfsx.PutFH(f.w.DirHandles[0]), nfsx.Remove("missing"))
		f.do("read through the anonymous state ID of a directory", "opRead", "", nfsx.PutRootFH(), nfsx.Read(nfsv4.Stateid4{}, 0, 4))
	}},
	{"v40-client-registration", func(m *scenMon) {
		f := newNFSFixture(m, 0)
		f.do("unknown client id", "opSetclientidConfirm", "NFS4ERR_STALE_CLIENTID", nfsx.SetClientIDConfirm(12345, nfsv4.Verifier4{1}))
		f.do("unknown client id", "opRenew", "NFS4ERR_STALE_CLIENTID", nfsx.Renew(12345))
		r, ok := f.do("new client", "opSetclientid", "OK", nfsx.SetClientID("client-a", 1))
		if !ok {
			return
		}
		okRes, isOK := r.Resarray[0].(*nfsv4.NfsResop4_OP_SETCLIENTID).Opsetclientid.(*nfsv4.Setclientid4res_NFS4_OK)
		if !isOK {
			return
		}
		cid, verifier := okRes.Resok4.Clientid, okRes.Resok4.SetclientidConfirm
		f.do("unconfirmed client", "opRenew", "NFS4ERR_STALE_CLIENTID|NFS4ERR_EXPIRED", nfsx.Renew(cid))
		f.do("wrong confirmation verifier", "opSetclientidConfirm", "NFS4ERR_STALE_CLIENTID|NFS4ERR_CLID_INUSE", nfsx.SetClientIDConfirm(cid, nfsv4.Verifier4{0xee}))
		f.do("open by an unconfirmed client", "opOpen", "NFS4ERR_STALE_CLIENTID|NFS4ERR_EXPIRED",
			nfsx.PutFH(f.w.DirHandles[0]), nfsx.OpenNull(cid, "oo", 1, nfsx.AccessRead, nfsx.NoCreate, "f"))
		f.do("confirm", "opSetclientidConfirm", "OK", nfsx.SetClientIDConfirm(cid, verifier))
		f.do("confirm again", "opSetclientidConfirm", "", nfsx.SetClientIDConfirm(cid, verifier))
		f.do("confirmed client", "opRenew", "OK", nfsx.Renew(cid))
		f.do("same client reboots (new verifier)", "opSetclientid", "OK", nfsx.SetClientID("client-a", 2))
		f.do("same client, same verifier", "opSetclientid", "OK", nfsx.SetClientID("client-a", 2))
	}},
	// OPEN: every early return of opOpen / txOpen, which drops and re-takes the program lock
	{"v40-open-errors", func(m *scenMon) {
		f := newNFSFixture(m, 0)
		cid, ok := f.register40("client-a", 1)
		if !ok {
			return
		}
		d0, f0 := f.w.DirHandles[0], f.w.FileHandles[0]
		open := func(owner string, access uint32, how nfsx.OpenHow, name string) nfsv4.NfsArgop4 {
			return nfsx.OpenNull(cid, owner, 1, access, how, name)
		}
		f.do("unknown client id", "opOpen", "NFS4ERR_STALE_CLIENTID", nfsx.PutFH(d0), nfsx.OpenNull(999, "o0", 1, nfsx.AccessRead, nfsx.NoCreate, "f"))
		f.do("no current file handle", "txOpen", "NFS4ERR_NOFILEHANDLE", open("o1", nfsx.AccessRead, nfsx.NoCreate, "f"))
		f.do("missing file, no create", "txOpen", "NFS4ERR_NOENT", nfsx.PutFH(d0), open("o2", nfsx.AccessRead, nfsx.NoCreate, "missing"))
		f.do("current file handle is a file", "txOpen", "NFS4ERR_NOTDIR", nfsx.PutFH(f0), open("o3", nfsx.AccessRead, nfsx.NoCreate, "f"))
		f.do("name is a directory", "txOpen", "NFS4ERR_ISDIR", nfsx.PutRootFH(), open("o4", nfsx.AccessRead, nfsx.NoCreate, "d0"))
		f.do("empty name", "txOpen", "NFS4ERR_INVAL", nfsx.PutFH(d0), open("o5", nfsx.AccessRead, nfsx.NoCreate, ""))
		f.do("name with a slash", "txOpen", "NFS4ERR_BADNAME|NFS4ERR_INVAL", nfsx.PutFH(d0), open("o6", nfsx.AccessRead, nfsx.NoCreate, "a/b"))
		f.do("share access 0", "txOpen", "NFS4ERR_INVAL", nfsx.PutFH(d0), open("o7", 0, nfsx.NoCreate, "f"))
		deny := open("o8", nfsx.AccessRead, nfsx.NoCreate, "f").(*nfsv4.NfsArgop4_OP_OPEN)
		deny.Opopen.ShareDeny = nfsv4.OPEN4_SHARE_DENY_READ
		f.do("share deny read", "txOpen", "NFS4ERR_SHARE_DENIED", nfsx.PutFH(d0), deny)
		deny2 := open("o9", nfsx.AccessRead, nfsx.NoCreate, "f").(*nfsv4.NfsArgop4_OP_OPEN)
		deny2.Opopen.ShareDeny = 77
		f.do("share deny 77", "txOpen", "NFS4ERR_INVAL", nfsx.PutFH(d0), deny2)
		f.do("guarded create of an existing file", "txOpen", "NFS4ERR_EXIST", nfsx.PutFH(d0), open("o10", nfsx.AccessBoth, nfsx.Guarded, "f"))
		excl := open("o11", nfsx.AccessBoth, nfsx.NoCreate, "f").(*nfsv4.NfsArgop4_OP_OPEN)
		excl.Opopen.Openhow = &nfsv4.Openflag4_OPEN4_CREATE{How: &nfsv4.Createhow4_EXCLUSIVE4{Createverf: [8]byte{1}}}
		f.do("exclusive create of an existing file", "txOpen", "NFS4ERR_EXIST", nfsx.PutFH(d0), excl)
		badAttr := open("o12", nfsx.AccessBoth, nfsx.NoCreate, "g").(*nfsv4.NfsArgop4_OP_OPEN)
		badAttr.Opopen.Openhow = &nfsv4.Openflag4_OPEN4_CREATE{How: &nfsv4.Createhow4_UNCHECKED4{Createattrs: nfsv4.Fattr4{
			Attrmask: nfsv4.Bitmap4{1 << nfsv4.FATTR4_SIZE}, AttrVals: []byte{1, 2}}}}
		f.do("create attributes are truncated", "txOpen", "NFS4ERR_BADXDR", nfsx.PutFH(d0), badAttr)
		f.do("reclaim of a file this open-owner never opened", "txOpen", "NFS4ERR_RECLAIM_BAD", nfsx.PutFH(f0), nfsx.OpenPrevious(cid, "o13", 1, nfsx.AccessRead))
		f.do("reclaim without a file handle", "txOpen", "NFS4ERR_NOFILEHANDLE", nfsx.OpenPrevious(cid, "o14", 1, nfsx.AccessRead))
		cur := open("o15", nfsx.AccessRead, nfsx.NoCreate, "f").(*nfsv4.NfsArgop4_OP_OPEN)
		cur.Opopen.Claim = &nfsv4.OpenClaim4_CLAIM_DELEGATE_CUR{}
		f.do("claim delegate_cur", "txOpen", "NFS4ERR_RECLAIM_BAD", nfsx.PutFH(d0), cur)
		prev := open("o16", nfsx.AccessRead, nfsx.NoCreate, "f").(*nfsv4.NfsArgop4_OP_OPEN)
		prev.Opopen.Claim = &nfsv4.OpenClaim4_CLAIM_DELEGATE_PREV{}
		f.do("claim delegate_prev", "txOpen", "NFS4ERR_NOTSUPP", nfsx.PutFH(d0), prev)
		// unchecked create of a new file, then the same request again (replay) and a skipped seqid
		f.do("unchecked create of a new file", "txOpen", "OK", nfsx.PutFH(d0), open("o17", nfsx.AccessBoth, nfsx.Unchecked, "new"))
		f.do("replay of the previous OPEN", "opOpen", "OK", nfsx.PutFH(d0), open("o17", nfsx.AccessBoth, nfsx.Unchecked, "new"))
		if sid, ok := f.open40(cid, "o18", 1, 1, nfsx.AccessRead); ok {
			f.do("OPEN with a seqid from the future", "opOpen", "NFS4ERR_BAD_SEQID", nfsx.PutFH(d0), nfsx.OpenNull(cid, "o18", 9, nfsx.AccessRead, nfsx.NoCreate, "f"))
			f.do("upgrade: same open-owner opens the same file for writing", "txOpen", "OK",
				nfsx.PutFH(f.w.DirHandles[1]), nfsx.OpenNull(cid, "o18", 3, nfsx.AccessBoth, nfsx.UncheckedTruncate, "f"))
			f.do("reclaim with wider access", "txOpen", "", nfsx.PutFH(f.w.FileHandles[1]), nfsx.OpenPrevious(cid, "o18", 4, nfsx.AccessBoth))
			_ = sid
		}
	}},
	{"v40-confirm-close-errors", func(m *scenMon) {
		f := newNFSFixture(m, 0)
		cid, ok := f.register40("client-a", 1)
		if !ok {
			return
		}
		d0, f0, f1 := f.w.DirHandles[0], f.w.FileHandles[0], f.w.FileHandles[1]
		oo := &seq40{n: 1}
		r, ok := f.do40(oo, "first OPEN of open-owner oo", "txOpen", "OK", nfsx.PutFH(d0), nfsx.OpenNull(cid, "oo", oo.n, nfsx.AccessBoth, nfsx.NoCreate, "f"))
		if !ok {
			return
		}
		sid, _ := nfsx.OpenStateID(r)
		f.do("read before OPEN_CONFIRM", "opRead", "", nfsx.PutFH(f0), nfsx.Read(sid, 0, 4))
		f.do40(oo, "CLOSE before OPEN_CONFIRM", "opClose", "NFS4ERR_BAD_SEQID", nfsx.PutFH(f0), nfsx.Close(sid, oo.n))
		f.do40(oo, "bad seqid", "opOpenConfirm", "NFS4ERR_BAD_SEQID", nfsx.PutFH(f0), nfsx.OpenConfirm(sid, oo.n+5))
		f.do40(oo, "unknown state ID", "opOpenConfirm", "NFS4ERR_BAD_STATEID", nfsx.PutFH(f0), nfsx.OpenConfirm(bogusStateID(), oo.n))
		f.do40(oo, "special state ID", "opOpenConfirm", "NFS4ERR_BAD_STATEID", nfsx.PutFH(f0), nfsx.OpenConfirm(nfsv4.Stateid4{}, oo.n))
		f.do40(oo, "no current file handle", "txOpenConfirm", "NFS4ERR_NOFILEHANDLE", nfsx.OpenConfirm(sid, oo.n))
		f.do40(oo, "state ID of another file", "txOpenConfirm", "NFS4ERR_BAD_STATEID", nfsx.PutFH(f1), nfsx.OpenConfirm(sid, oo.n))
		f.do40(oo, "current file handle is a directory", "txOpenConfirm", "NFS4ERR_BAD_STATEID|NFS4ERR_ISDIR", nfsx.PutFH(d0), nfsx.OpenConfirm(sid, oo.n))
		unconfirmed, confirmSeq := sid, oo.n
		r, ok = f.do40(oo, "", "txOpenConfirm", "OK", nfsx.PutFH(f0), nfsx.OpenConfirm(unconfirmed, confirmSeq))
		if !ok {
			return
		}
		sid, _ = nfsx.ResultStateID(r)
		f.do("replay of OPEN_CONFIRM", "opOpenConfirm", "OK", nfsx.PutFH(f0), nfsx.OpenConfirm(unconfirmed, confirmSeq))
		f.do40(oo, "replayed seqid, other operation", "opClose", "NFS4ERR_BAD_SEQID", nfsx.PutFH(f0), nfsx.Close(sid, confirmSeq))
		old := sid
		old.Seqid--
		f.do40(oo, "old state ID seqid", "txClose", "NFS4ERR_OLD_STATEID", nfsx.PutFH(f0), nfsx.Close(old, oo.n))
		future := sid
		future.Seqid += 5
		f.do40(oo, "state ID seqid from the future", "txClose", "NFS4ERR_BAD_STATEID", nfsx.PutFH(f0), nfsx.Close(future, oo.n))
		f.do40(oo, "unknown state ID", "opClose", "NFS4ERR_BAD_STATEID", nfsx.PutFH(f0), nfsx.Close(bogusStateID(), oo.n))
		f.do40(oo, "special state ID", "opClose", "NFS4ERR_BAD_STATEID", nfsx.PutFH(f0), nfsx.Close(nfsv4.Stateid4{}, oo.n))
		f.do40(oo, "seqid from the future", "opClose", "NFS4ERR_BAD_SEQID", nfsx.PutFH(f0), nfsx.Close(sid, oo.n+6))
		f.do40(oo, "no current file handle", "txClose", "NFS4ERR_NOFILEHANDLE", nfsx.Close(sid, oo.n))
		f.do40(oo, "state ID of another file", "txClose", "NFS4ERR_BAD_STATEID", nfsx.PutFH(f1), nfsx.Close(sid, oo.n))
		f.do("write through an unknown state ID", "opWrite", "NFS4ERR_BAD_STATEID", nfsx.PutFH(f0), nfsx.Write(bogusStateID(), 0, []byte("x")))
		f.do40(oo, "downgrade to access 0", "txOpenDowngrade", "NFS4ERR_INVAL", nfsx.PutFH(f0), nfsx.OpenDowngrade(sid, oo.n, 0))
		r, ok = f.do40(oo, "downgrade to read", "txOpenDowngrade", "OK", nfsx.PutFH(f0), nfsx.OpenDowngrade(sid, oo.n, nfsx.AccessRead))
		if ok {
			sid, _ = nfsx.ResultStateID(r)
		}
		f.do40(oo, "downgrade back to both (not a subset)", "txOpenDowngrade", "NFS4ERR_INVAL", nfsx.PutFH(f0), nfsx.OpenDowngrade(sid, oo.n, nfsx.AccessBoth))
		f.do("write through a read-only open", "opWrite", "NFS4ERR_OPENMODE", nfsx.PutFH(f0), nfsx.Write(sid, 0, []byte("x")))
		open, closeSeq := sid, oo.n
		f.do40(oo, "", "txClose", "OK", nfsx.PutFH(f0), nfsx.Close(open, closeSeq))
		f.do("replay of CLOSE", "opClose", "OK", nfsx.PutFH(f0), nfsx.Close(open, closeSeq))
		f.do("read through the closed state ID", "opRead", "NFS4ERR_BAD_STATEID|NFS4ERR_OLD_STATEID", nfsx.PutFH(f0), nfsx.Read(open, 0, 4))
		f.do40(oo, "CLOSE of the closed state ID", "opClose", "NFS4ERR_BAD_STATEID|NFS4ERR_OLD_STATEID", nfsx.PutFH(f0), nfsx.Close(open, oo.n))
	}},
	{"v40-lock-errors", func(m *scenMon) {
		f := newNFSFixture(m, 0)
		a, ok := f.register40("client-a", 1)
		if !ok {
			return
		}
		b, ok := f.register40("client-b", 2)
		if !ok {
			return
		}
		d0, f0, f1 := f.w.DirHandles[0], f.w.FileHandles[0], f.w.FileHandles[1]
		sa, ok := f.open40(a, "oa", 1, 0, nfsx.AccessBoth)
		if !ok {
			return
		}
		sb, ok := f.open40(b, "ob", 1, 0, nfsx.AccessBoth)
		if !ok {
			return
		}
		oa, ob := &seq40{n: 3}, &seq40{n: 3} // open-owners: OPEN and OPEN_CONFIRM used 1 and 2
		W, R := nfsv4.WRITE_LT, nfsv4.READ_LT
		f.do40(oa, "length 0", "txLockCommon", "NFS4ERR_INVAL", nfsx.PutFH(f0), nfsx.LockNew(W, 0, 0, oa.n, sa, 1, a, "l0"))
		f.do40(oa, "range wraps around", "txLockCommon", "NFS4ERR_INVAL", nfsx.PutFH(f0), nfsx.LockNew(W, ^uint64(0)-1, 10, oa.n, sa, 1, a, "l1"))
		f.do40(oa, "no current file handle", "txLockInitial", "NFS4ERR_NOFILEHANDLE", nfsx.LockNew(W, 0, 10, oa.n, sa, 1, a, "l2"))
		f.do40(oa, "current file handle is a directory", "txLockInitial", "NFS4ERR_ISDIR|NFS4ERR_BAD_STATEID", nfsx.PutFH(d0), nfsx.LockNew(W, 0, 10, oa.n, sa, 1, a, "l3"))
		f.do40(oa, "unknown open state ID", "opLock", "NFS4ERR_BAD_STATEID", nfsx.PutFH(f0), nfsx.LockNew(W, 0, 10, oa.n, bogusStateID(), 1, a, "l4"))
		f.do40(oa, "open state ID of another file", "txLockInitial", "NFS4ERR_BAD_STATEID", nfsx.PutFH(f1), nfsx.LockNew(W, 0, 10, oa.n, sa, 1, a, "l5"))
		f.do40(oa, "open seqid from the future", "opLock", "NFS4ERR_BAD_SEQID", nfsx.PutFH(f0), nfsx.LockNew(W, 0, 10, oa.n+5, sa, 1, a, "l6"))
		f.do40(oa, "lock-owner of another client", "txLockInitial", "", nfsx.PutFH(f0), nfsx.LockNew(W, 200, 10, oa.n, sa, 1, b, "l7"))
		r, ok := f.do40(oa, "new lock-owner la takes WRITE [0,10)", "txLockInitial", "OK", nfsx.PutFH(f0), nfsx.LockNew(W, 0, 10, oa.n, sa, 1, a, "la"))
		if !ok {
			return
		}
		la, _ := nfsx.ResultStateID(r)
		lo := &seq40{n: 2} // lock-owner la: the LOCK above used 1
		f.do40(ob, "conflicting lock of another client", "txLockCommon", "NFS4ERR_DENIED", nfsx.PutFH(f0), nfsx.LockNew(W, 5, 10, ob.n, sb, 1, b, "lb"))
		f.do40(ob, "conflicting read lock of another client", "txLockCommon", "NFS4ERR_DENIED", nfsx.PutFH(f0), nfsx.LockNew(R, 0, 1, ob.n, sb, 1, b, "lb"))
		f.do("test by another client", "opLockt", "NFS4ERR_DENIED", nfsx.PutFH(f0), nfsx.LockT(W, 0, 100, b, "lb"))
		f.do("test by the holder", "opLockt", "OK", nfsx.PutFH(f0), nfsx.LockT(W, 0, 100, a, "la"))
		f.do("test by an unknown client", "opLockt", "NFS4ERR_STALE_CLIENTID", nfsx.PutFH(f0), nfsx.LockT(W, 0, 100, 999, "lx"))
		f.do("test with length 0", "opLockt", "NFS4ERR_INVAL", nfsx.PutFH(f0), nfsx.LockT(W, 0, 0, b, "lb"))
		f.do("test without a file handle", "opLockt", "NFS4ERR_NOFILEHANDLE", nfsx.LockT(W, 0, 10, b, "lb"))
		f.do("test on a directory", "opLockt", "NFS4ERR_ISDIR", nfsx.PutFH(d0), nfsx.LockT(W, 0, 10, b, "lb"))
		f.do40(lo, "existing lock-owner, unknown lock state ID", "opLock", "NFS4ERR_BAD_STATEID", nfsx.PutFH(f0), nfsx.LockExisting(W, 20, 5, bogusStateID(), lo.n))
		f.do40(lo, "existing lock-owner, seqid from the future", "opLock", "NFS4ERR_BAD_SEQID", nfsx.PutFH(f0), nfsx.LockExisting(W, 20, 5, la, lo.n+5))
		f.do40(lo, "existing lock-owner, open state ID instead of lock state ID", "opLock", "NFS4ERR_BAD_STATEID", nfsx.PutFH(f0), nfsx.LockExisting(W, 20, 5, sa, lo.n))
		f.do40(lo, "existing lock-owner, length 0", "txLockCommon", "NFS4ERR_INVAL", nfsx.PutFH(f0), nfsx.LockExisting(W, 20, 0, la, lo.n))
		f.do40(lo, "existing lock-owner, other file", "txLockSuccessive", "NFS4ERR_BAD_STATEID", nfsx.PutFH(f1), nfsx.LockExisting(W, 20, 5, la, lo.n))
		f.do40(oa, "lock-owner la announced as new again", "txLockInitial", "NFS4ERR_BAD_SEQID|NFS4ERR_BAD_STATEID", nfsx.PutFH(f0), nfsx.LockNew(W, 30, 5, oa.n, sa, 1, a, "la"))
		f.do40(lo, "unknown lock state ID", "opLocku", "NFS4ERR_BAD_STATEID", nfsx.PutFH(f0), nfsx.LockU(W, 0, 10, bogusStateID(), lo.n))
		f.do40(lo, "seqid from the future", "opLocku", "NFS4ERR_BAD_SEQID", nfsx.PutFH(f0), nfsx.LockU(W, 0, 10, la, lo.n+5))
		f.do40(lo, "length 0", "txLocku", "NFS4ERR_INVAL", nfsx.PutFH(f0), nfsx.LockU(W, 0, 0, la, lo.n))
		f.do40(lo, "no current file handle", "txLocku", "NFS4ERR_NOFILEHANDLE", nfsx.LockU(W, 0, 10, la, lo.n))
		f.do("while locks are held", "opReleaseLockowner", "NFS4ERR_LOCKS_HELD", nfsx.ReleaseLockOwner(a, "la"))
		f.do("unknown lock-owner", "opReleaseLockowner", "", nfsx.ReleaseLockOwner(a, "nobody"))
		f.do("unknown client", "opReleaseLockowner", "NFS4ERR_STALE_CLIENTID", nfsx.ReleaseLockOwner(999, "la"))
		f.do("read through the lock state ID", "opRead", "OK", nfsx.PutFH(f0), nfsx.Read(la, 0, 4))
		r, ok = f.do40(lo, "unlock a part", "txLocku", "OK", nfsx.PutFH(f0), nfsx.LockU(W, 2, 3, la, lo.n))
		if ok {
			la, _ = nfsx.ResultStateID(r)
		}
		// the server may refuse or release the locks (RFC 7530, section 16.2.4)
		f.do40(oa, "CLOSE while locks are held", "txClose", "OK|NFS4ERR_LOCKS_HELD", nfsx.PutFH(f0), nfsx.Close(sa, oa.n))
		f.do40(lo, "lock state ID after its open was closed", "opLocku", "", nfsx.PutFH(f0), nfsx.LockU(W, 0, 1000, la, lo.n))
		f.do("after the open was closed", "opReleaseLockowner", "", nfsx.ReleaseLockOwner(a, "la"))
		f.do40(ob, "lock that no longer conflicts", "txLockInitial", "OK", nfsx.PutFH(f0), nfsx.LockNew(W, 5, 10, ob.n, sb, 1, b, "lb"))
	}},
	// leases run out: enter() drops the lock to close the files of the expired client and retries
	{"v40-lease-expiry", func(m *scenMon) {
		f := newNFSFixture(m, 0)
		a, ok := f.register40("client-a", 1)
		if !ok {
			return
		}
		sa, ok := f.open40(a, "oa", 1, 0, nfsx.AccessBoth)
		if !ok {
			return
		}
		r, ok := f.do("lock-owner la takes WRITE [0,10)", "txLockInitial", "OK", nfsx.PutFH(f.w.FileHandles[0]), nfsx.LockNew(nfsv4.WRITE_LT, 0, 10, 3, sa, 1, a, "la"))
		if !ok {
			return
		}
		la, _ := nfsx.ResultStateID(r)
		f.w.Clock.Advance(2*nfsx.LeaseTime + time.Second)
		m.note("clock advances beyond the lease time; the next request that enters the server removes both clients and closes their files")
		// the client of the later requests has expired as well: register it anew first
		if o, ok := m.call("SETCLIENTID + SETCLIENTID_CONFIRM of the client that issues the later compounds", "enter", func() error {
			var err error
			f.probeClient, err = nfsx.Register40(f.p, "later-client", 10)
			return err
		}); !ok || o != "OK" {
			return
		}
		f.do("expired client", "opRenew", "NFS4ERR_EXPIRED|NFS4ERR_STALE_CLIENTID", nfsx.Renew(a))
		f.do("state ID of the expired client", "opRead", "NFS4ERR_EXPIRED|NFS4ERR_BAD_STATEID|NFS4ERR_STALE_STATEID", nfsx.PutFH(f.w.FileHandles[0]), nfsx.Read(sa, 0, 4))
		f.do("lock state ID of the expired client", "opLocku", "NFS4ERR_EXPIRED|NFS4ERR_BAD_STATEID|NFS4ERR_STALE_STATEID", nfsx.PutFH(f.w.FileHandles[0]), nfsx.LockU(nfsv4.WRITE_LT, 0, 10, la, 2))
		f.do("OPEN by the expired client", "opOpen", "NFS4ERR_EXPIRED|NFS4ERR_STALE_CLIENTID", nfsx.PutFH(f.w.DirHandles[0]), nfsx.OpenNull(a, "oa", 4, nfsx.AccessRead, nfsx.NoCreate, "f"))
		f.register40("client-a", 3)
	}},
	// txOpen has left the lock and is inside VirtualOpenChild while other requests arrive
	{"v40-open-in-flight", func(m *scenMon) {
		f := newNFSFixture(m, 0)
		a, ok := f.register40("client-a", 1)
		if !ok {
			return
		}
		d1 := f.w.DirHandles[1]
		for _, c := range []struct{ name, want string }{{"f", "OK"}, {"missing", "NFS4ERR_NOENT"}} {
			owner := "oo-" + c.name
			g := f.w.Park(1, "openchild")
			o1 := f.start("parked inside the file system", "txOpen", nfsx.PutFH(d1), nfsx.OpenNull(a, owner, 1, nfsx.AccessRead, nfsx.NoCreate, c.name))
			entered := make(chan struct{})
			go func() {
				for !g.Entered() {
					time.Sleep(time.Millisecond)
				}
				close(entered)
			}()
			if !m.reached(o1.c, "VirtualOpenChild (program lock released)", entered) {
				return
			}
			if !m.checkFree("OPEN left the program lock to call VirtualOpenChild", "txOpen") {
				return
			}
			if !f.later("txOpen", "while "+o1.c.label+" is inside VirtualOpenChild") {
				return
			}
			// the same open-owner sends another request: it has to wait for the transaction
			o2 := f.start("same open-owner, has to wait for the OPEN in flight", "opOpen", nfsx.PutFH(f.w.DirHandles[0]), nfsx.OpenNull(a, owner, 2, nfsx.AccessRead, nfsx.NoCreate, "f"))
			time.Sleep(30 * time.Millisecond)
			if !m.checkFree("a second OPEN of the same open-owner started waiting", "opOpen") {
				return
			}
			if !f.later("opOpen", "while two OPENs of one open-owner are in flight") {
				return
			}
			g.Release()
			m.note("VirtualOpenChild of the first OPEN continues")
			if _, ok := f.finish(o1, c.want); !ok {
				return
			}
			if _, ok := f.finish(o2, ""); !ok {
				return
			}
		}
	}},

	// ---- NFSv4.1 ----
	{"v41-sequence-errors", func(m *scenMon) {
		f := newNFSFixture(m, 1)
		if !f.register41("client-a", 1) {
			return
		}
		root := nfsx.PutRootFH()
		f.finish(f.startRaw("wrong minor version", "NfsV4Nfsproc4Compound", 0, "", nfsx.Sequence(f.sess, 0, 1, true), root), "NFS4ERR_MINOR_VERS_MISMATCH")
		f.do("first operation is not SEQUENCE", "NfsV4Nfsproc4Compound", "NFS4ERR_OP_NOT_IN_SESSION", root, nfsx.GetFH())
		f.do("no operations", "NfsV4Nfsproc4Compound", "OK")
		f.do("unknown session", "opSequence", "NFS4ERR_BADSESSION", nfsx.Sequence([16]byte{9, 9}, 0, 1, true), root)
		f.do("slot beyond the slot table", "opSequence", "NFS4ERR_BADSLOT", nfsx.Sequence(f.sess, nfsx.Slots, 1, true), root)
		f.do("slot far beyond the slot table", "opSequence", "NFS4ERR_BADSLOT", nfsx.Sequence(f.sess, 1<<30, 1, true), root)
		f.do("sequence id from the future", "opSequence", "NFS4ERR_SEQ_MISORDERED", nfsx.Sequence(f.sess, 0, 5, true), root)
		f.do("replay of sequence id 0 before any request", "opSequence", "NFS4ERR_SEQ_MISORDERED", nfsx.Sequence(f.sess, 0, 0, true), root)
		many := []nfsv4.NfsArgop4{nfsx.Sequence(f.sess, 0, 1, true)}
		for len(many) < nfsx.MaxOps+1 {
			many = append(many, root)
		}
		f.do("more operations than ca_maxoperations", "opSequence", "NFS4ERR_TOO_MANY_OPS", many...)
		f.do("slot 0, sequence id 1", "opSequence", "OK", nfsx.Sequence(f.sess, 0, 1, true), root, nfsx.GetFH())
		f.do("replay, same shape", "opSequence", "OK", nfsx.Sequence(f.sess, 0, 1, true), root, nfsx.GetFH())
		f.do("replay, different shape", "opSequence", "NFS4ERR_SEQ_FALSE_RETRY", nfsx.Sequence(f.sess, 0, 1, true), root)
		f.do("sequence id from the past", "opSequence", "NFS4ERR_SEQ_MISORDERED", nfsx.Sequence(f.sess, 0, 0, true), root)
		f.do("slot 0, sequence id 2, reply not cached", "opSequence", "OK", nfsx.Sequence(f.sess, 0, 2, false), root, nfsx.GetFH())
		f.do("replay of the uncached reply", "opSequence", "NFS4ERR_RETRY_UNCACHED_REP", nfsx.Sequence(f.sess, 0, 2, false), root, nfsx.GetFH())
		f.do("SEQUENCE in the middle of a compound", "opSequence", "NFS4ERR_SEQUENCE_POS", nfsx.Sequence(f.sess, 0, 3, true), root, nfsx.Sequence(f.sess, 1, 1, true))
		f.do("failing operation inside SEQUENCE", "opSequence", "NFS4ERR_NOFILEHANDLE", nfsx.Sequence(f.sess, 1, 1, true), nfsx.GetFH())
		f.do("4.0 only operation inside SEQUENCE", "opSequence", "NFS4ERR_OP_ILLEGAL|NFS4ERR_NOTSUPP", nfsx.Sequence(f.sess, 1, 2, true), nfsx.Renew(f.cid))
		f.do("illegal operation inside SEQUENCE", "opSequence", "NFS4ERR_OP_ILLEGAL", nfsx.Sequence(f.sess, 1, 3, true), &nfsv4.NfsArgop4_OP_ILLEGAL{})
		f.do("own client destroyed inside SEQUENCE", "opDestroyClientID", "NFS4ERR_CLIENTID_BUSY", nfsx.Sequence(f.sess, 1, 4, true), nfsx.DestroyClientID(f.cid))
		f.do("own session destroyed inside SEQUENCE", "opDestroySession", "", nfsx.Sequence(f.sess, 1, 5, true), nfsx.DestroySession(f.sess), nfsx.PutRootFH())
		f.do("destroyed session", "opSequence", "NFS4ERR_BADSESSION", nfsx.Sequence(f.sess, 1, 6, true), root)
	}},
	// two requests with the same slot and sequence id while the first one is still running
	{"v41-sequence-duplicate-in-flight", func(m *scenMon) {
		f := newNFSFixture(m, 1)
		if !f.register41("client-a", 1) {
			return
		}
		f0 := f.w.FileHandles[0]
		r, ok := f.in41("open d0/f", "opOpen", "OK", nfsx.PutFH(f0), nfsx.OpenFH(f.cid, "oo", nfsx.AccessBoth, nfsx.NoCreate))
		if !ok {
			return
		}
		sid, _ := nfsx.OpenStateID(r)
		g := f.w.Park(0, "read")
		m.onCleanup(g.Release)
		ops := func() []nfsv4.NfsArgop4 {
			return []nfsv4.NfsArgop4{nfsx.Sequence(f.sess, 1, 1, true), nfsx.PutFH(f0), nfsx.Read(sid, 0, 4)}
		}
		c1 := f.start("READ parked inside the file", "opSequence", ops()...)
		entered := make(chan struct{})
		go func() {
			for !g.Entered() {
				time.Sleep(time.Millisecond)
			}
			close(entered)
		}()
		if !m.reached(c1.c, "VirtualRead (no server lock held)", entered) {
			return
		}
		c2 := f.start("duplicate of the request in flight, same shape", "opSequence", ops()...)
		c3 := f.start("duplicate of the request in flight, different shape", "opSequence", nfsx.Sequence(f.sess, 1, 1, true), nfsx.PutRootFH())
		time.Sleep(30 * time.Millisecond)
		if !m.checkFree("two duplicates started waiting for the request in flight", "opSequence") {
			return
		}
		if !f.later("opSequence", "while three requests share slot 1") {
			return
		}
		f.do("other slot meanwhile", "opSequence", "OK", nfsx.Sequence(f.sess, 2, 1, true), nfsx.PutRootFH())
		g.Release()
		m.note("VirtualRead continues")
		if _, ok := f.finish(c1, "OK"); !ok {
			return
		}
		if _, ok := f.finish(c2, "OK"); !ok {
			return
		}
		f.finish(c3, "NFS4ERR_SEQ_FALSE_RETRY")
	}},
	{"v41-session-management", func(m *scenMon) {
		f := newNFSFixture(m, 1)
		f.do("unknown client id", "opCreateSession", "NFS4ERR_STALE_CLIENTID", nfsx.CreateSession(12345, 1))
		f.do("unknown session", "opDestroySession", "NFS4ERR_BADSESSION", nfsx.DestroySession([16]byte{7}))
		f.do("unknown client id", "opDestroyClientID", "NFS4ERR_STALE_CLIENTID", nfsx.DestroyClientID(12345))
		f.do("unknown session", "opBindConnToSession", "NFS4ERR_BADSESSION",
			&nfsv4.NfsArgop4_OP_BIND_CONN_TO_SESSION{OpbindConnToSession: nfsv4.BindConnToSession4args{BctsaSessid: [16]byte{7}, BctsaDir: nfsv4.CDFC4_FORE}})
		r, ok := f.do("new client", "opExchangeID", "OK", nfsx.ExchangeID("client-a", 1))
		if !ok {
			return
		}
		eok, isOK := r.Resarray[0].(*nfsv4.NfsResop4_OP_EXCHANGE_ID).OpexchangeId.(*nfsv4.ExchangeId4res_NFS4_OK)
		if !isOK {
			return
		}
		cid, seq := eok.EirResok4.EirClientid, eok.EirResok4.EirSequenceid
		f.do("not the only operation", "NfsV4Nfsproc4Compound", "NFS4ERR_NOT_ONLY_OP", nfsx.ExchangeID("client-a", 1), nfsx.PutRootFH())
		f.do("not the only operation", "NfsV4Nfsproc4Compound", "NFS4ERR_NOT_ONLY_OP", nfsx.CreateSession(cid, seq), nfsx.PutRootFH())
		f.do("not the only operation", "NfsV4Nfsproc4Compound", "NFS4ERR_NOT_ONLY_OP", nfsx.DestroyClientID(cid), nfsx.PutRootFH())
		f.do("wrong sequence id", "opCreateSession", "NFS4ERR_SEQ_MISORDERED", nfsx.CreateSession(cid, seq+5))
		f.do("unconfirmed client without sessions", "opDestroyClientID", "", nfsx.DestroyClientID(cid))
		r, ok = f.do("new client again", "opExchangeID", "OK", nfsx.ExchangeID("client-a", 1))
		if !ok {
			return
		}
		if eok, isOK = r.Resarray[0].(*nfsv4.NfsResop4_OP_EXCHANGE_ID).OpexchangeId.(*nfsv4.ExchangeId4res_NFS4_OK); !isOK {
			return
		}
		cid, seq = eok.EirResok4.EirClientid, eok.EirResok4.EirSequenceid
		r, ok = f.do("", "opCreateSession", "OK", nfsx.CreateSession(cid, seq))
		if !ok {
			return
		}
		cs, isOK := r.Resarray[0].(*nfsv4.NfsResop4_OP_CREATE_SESSION).OpcreateSession.(*nfsv4.CreateSession4res_NFS4_OK)
		if !isOK {
			return
		}
		sess := cs.CsrResok4.CsrSessionid
		f.do("replay of CREATE_SESSION", "opCreateSession", "OK", nfsx.CreateSession(cid, seq))
		f.do("sequence id from the future", "opCreateSession", "NFS4ERR_SEQ_MISORDERED", nfsx.CreateSession(cid, seq+7))
		f.do("known client, same verifier", "opExchangeID", "OK", nfsx.ExchangeID("client-a", 1))
		f.do("client with sessions", "opDestroyClientID", "NFS4ERR_CLIENTID_BUSY", nfsx.DestroyClientID(cid))
		f.do("known session", "opBindConnToSession", "OK",
			&nfsv4.NfsArgop4_OP_BIND_CONN_TO_SESSION{OpbindConnToSession: nfsv4.BindConnToSession4args{BctsaSessid: sess, BctsaDir: nfsv4.CDFC4_FORE}})
		f.do("second session", "opCreateSession", "OK", nfsx.CreateSession(cid, seq+1))
		f.do("", "opDestroySession", "OK", nfsx.DestroySession(sess))
		f.do("destroyed session", "opSequence", "NFS4ERR_BADSESSION", nfsx.Sequence(sess, 0, 1, true), nfsx.PutRootFH())
		f.do("destroyed session", "opDestroySession", "NFS4ERR_BADSESSION", nfsx.DestroySession(sess))
		f.do("client reboots (new verifier)", "opExchangeID", "OK", nfsx.ExchangeID("client-a", 2))
	}},
	{"v41-open-errors", func(m *scenMon) {
		f := newNFSFixture(m, 1)
		if !f.register41("client-a", 1) {
			return
		}
		d0, f0, f1 := f.w.DirHandles[0], f.w.FileHandles[0], f.w.FileHandles[1]
		open := func(owner string, access uint32, how nfsx.OpenHow, name string) nfsv4.NfsArgop4 {
			return nfsx.OpenNull(f.cid, owner, 0, access, how, name)
		}
		f.in41("no current file handle", "opOpen", "NFS4ERR_NOFILEHANDLE", nfsx.OpenFH(f.cid, "o0", nfsx.AccessRead, nfsx.NoCreate))
		f.in41("claim_fh of a directory", "opOpen", "NFS4ERR_ISDIR", nfsx.PutFH(d0), nfsx.OpenFH(f.cid, "o1", nfsx.AccessRead, nfsx.NoCreate))
		f.in41("missing file, no create", "opOpen", "NFS4ERR_NOENT", nfsx.PutFH(d0), open("o2", nfsx.AccessRead, nfsx.NoCreate, "missing"))
		f.in41("current file handle is a file", "opOpen", "NFS4ERR_NOTDIR", nfsx.PutFH(f0), open("o3", nfsx.AccessRead, nfsx.NoCreate, "f"))
		f.in41("name is a directory", "opOpen", "NFS4ERR_ISDIR", nfsx.PutRootFH(), open("o4", nfsx.AccessRead, nfsx.NoCreate, "d0"))
		f.in41("empty name", "opOpen", "NFS4ERR_INVAL", nfsx.PutFH(d0), open("o5", nfsx.AccessRead, nfsx.NoCreate, ""))
		f.in41("share access 0", "opOpen", "NFS4ERR_INVAL", nfsx.PutFH(d0), open("o6", 0, nfsx.NoCreate, "f"))
		deny := open("o7", nfsx.AccessRead, nfsx.NoCreate, "f").(*nfsv4.NfsArgop4_OP_OPEN)
		deny.Opopen.ShareDeny = nfsv4.OPEN4_SHARE_DENY_BOTH
		f.in41("share deny both", "opOpen", "NFS4ERR_SHARE_DENIED", nfsx.PutFH(d0), deny)
		f.in41("guarded create of an existing file", "opOpen", "NFS4ERR_EXIST", nfsx.PutFH(d0), open("o8", nfsx.AccessBoth, nfsx.Guarded, "f"))
		excl := open("o9", nfsx.AccessBoth, nfsx.NoCreate, "f").(*nfsv4.NfsArgop4_OP_OPEN)
		excl.Opopen.Openhow = &nfsv4.Openflag4_OPEN4_CREATE{How: &nfsv4.Createhow4_EXCLUSIVE4{Createverf: [8]byte{1}}}
		f.in41("exclusive create of an existing file", "opOpen", "", nfsx.PutFH(d0), excl)
		f.in41("reclaim", "opOpen", "", nfsx.PutFH(f0), nfsx.OpenPrevious(f.cid, "o10", 0, nfsx.AccessRead))
		prev := open("o11", nfsx.AccessRead, nfsx.NoCreate, "f").(*nfsv4.NfsArgop4_OP_OPEN)
		prev.Opopen.Claim = &nfsv4.OpenClaim4_CLAIM_DELEGATE_PREV{}
		f.in41("claim delegate_prev", "opOpen", "", nfsx.PutFH(d0), prev)
		r, ok := f.in41("open d0/f", "opOpen", "OK", nfsx.PutFH(d0), open("oo", nfsx.AccessRead, nfsx.NoCreate, "f"))
		if !ok {
			return
		}
		sid, _ := nfsx.OpenStateID(r)
		f.in41("upgrade with truncation", "opOpen", "OK", nfsx.PutFH(f0), nfsx.OpenFH(f.cid, "oo", nfsx.AccessBoth, nfsx.UncheckedTruncate))
		f.in41("unknown state ID", "opClose", "NFS4ERR_BAD_STATEID", nfsx.PutFH(f0), nfsx.Close(bogusStateID(), 0))
		f.in41("no current file handle", "opClose", "NFS4ERR_NOFILEHANDLE", nfsx.Close(sid, 0))
		f.in41("state ID of another file", "opClose", "NFS4ERR_BAD_STATEID", nfsx.PutFH(f1), nfsx.Close(sid, 0))
		old := sid
		old.Seqid = 99
		f.in41("state ID seqid from the future", "opClose", "NFS4ERR_BAD_STATEID", nfsx.PutFH(f0), nfsx.Close(old, 0))
		f.in41("write through the read-only state ID seqid", "opWrite", "", nfsx.PutFH(f0), nfsx.Write(sid, 0, []byte("x")))
		f.in41("downgrade to access 0", "opOpenDowngrade", "NFS4ERR_INVAL", nfsx.PutFH(f0), nfsx.OpenDowngrade(sid, 0, 0))
		cur := sid
		cur.Seqid = 0
		f.in41("", "opClose", "OK", nfsx.PutFH(f0), nfsx.Close(cur, 0))
		f.in41("CLOSE of the closed state ID", "opClose", "NFS4ERR_BAD_STATEID|NFS4ERR_OLD_STATEID", nfsx.PutFH(f0), nfsx.Close(cur, 0))
		f.in41("read through the closed state ID", "opRead", "NFS4ERR_BAD_STATEID|NFS4ERR_OLD_STATEID", nfsx.PutFH(f0), nfsx.Read(cur, 0, 4))
	}},
	{"v41-lock-errors", func(m *scenMon) {
		f := newNFSFixture(m, 1)
		if !f.register41("client-a", 1) {
			return
		}
		f0, f1 := f.w.FileHandles[0], f.w.FileHandles[1]
		// the second client: its own session, driven by hand on slot 0
		var b uint64
		var sessB [16]byte
		if o, ok := m.call("EXCHANGE_ID + CREATE_SESSION of client-b", "opCreateSession", func() error {
			var err error
			b, _, sessB, err = nfsx.Register41(f.p, "client-b", 2)
			return err
		}); !ok || o != "OK" {
			return
		}
		seqB := uint32(0)
		inB := func(note, short, want string, ops ...nfsv4.NfsArgop4) (*nfsv4.Compound4res, bool) {
			seqB++
			return f.do("client-b: "+note, short, want, append([]nfsv4.NfsArgop4{nfsx.Sequence(sessB, 0, seqB, true)}, ops...)...)
		}
		r, ok := f.in41("client-a opens d0/f", "opOpen", "OK", nfsx.PutFH(f0), nfsx.OpenFH(f.cid, "oa", nfsx.AccessBoth, nfsx.NoCreate))
		if !ok {
			return
		}
		sa, _ := nfsx.OpenStateID(r)
		sa.Seqid = 0
		r, ok = inB("opens d0/f", "opOpen", "OK", nfsx.PutFH(f0), nfsx.OpenFH(b, "ob", nfsx.AccessBoth, nfsx.NoCreate))
		if !ok {
			return
		}
		sb, _ := nfsx.OpenStateID(r)
		sb.Seqid = 0
		W, R := nfsv4.WRITE_LT, nfsv4.READ_LT
		f.in41("length 0", "opLock", "NFS4ERR_INVAL", nfsx.PutFH(f0), nfsx.LockNew(W, 0, 0, 0, sa, 0, f.cid, "la"))
		f.in41("no current file handle", "opLock", "NFS4ERR_NOFILEHANDLE", nfsx.LockNew(W, 0, 10, 0, sa, 0, f.cid, "la"))
		f.in41("unknown open state ID", "opLock", "NFS4ERR_BAD_STATEID", nfsx.PutFH(f0), nfsx.LockNew(W, 0, 10, 0, bogusStateID(), 0, f.cid, "la"))
		f.in41("open state ID of another file", "opLock", "NFS4ERR_BAD_STATEID", nfsx.PutFH(f1), nfsx.LockNew(W, 0, 10, 0, sa, 0, f.cid, "la"))
		r, ok = f.in41("new lock-owner la takes WRITE [0,10)", "opLock", "OK", nfsx.PutFH(f0), nfsx.LockNew(W, 0, 10, 0, sa, 0, f.cid, "la"))
		if !ok {
			return
		}
		la, _ := nfsx.ResultStateID(r)
		la.Seqid = 0
		inB("conflicting lock", "opLock", "NFS4ERR_DENIED", nfsx.PutFH(f0), nfsx.LockNew(W, 5, 10, 0, sb, 0, b, "lb"))
		inB("conflicting read lock", "opLock", "NFS4ERR_DENIED", nfsx.PutFH(f0), nfsx.LockNew(R, 9, 1, 0, sb, 0, b, "lb"))
		inB("test", "opLockt", "NFS4ERR_DENIED", nfsx.PutFH(f0), nfsx.LockT(W, 0, 100, b, "lb"))
		inB("test with length 0", "opLockt", "NFS4ERR_INVAL", nfsx.PutFH(f0), nfsx.LockT(W, 0, 0, b, "lb"))
		inB("test without a file handle", "opLockt", "NFS4ERR_NOFILEHANDLE", nfsx.LockT(W, 0, 10, b, "lb"))
		f.in41("test by the holder", "opLockt", "OK", nfsx.PutFH(f0), nfsx.LockT(W, 0, 100, f.cid, "la"))
		f.in41("existing lock-owner, unknown lock state ID", "opLock", "NFS4ERR_BAD_STATEID", nfsx.PutFH(f0), nfsx.LockExisting(W, 20, 5, bogusStateID(), 0))
		f.in41("existing lock-owner, open state ID instead of lock state ID", "opLock", "NFS4ERR_BAD_STATEID", nfsx.PutFH(f0), nfsx.LockExisting(W, 20, 5, sa, 0))
		f.in41("lock-owner la announced as new again", "opLock", "", nfsx.PutFH(f0), nfsx.LockNew(W, 30, 5, 0, sa, 0, f.cid, "la"))
		f.in41("unknown lock state ID", "opLocku", "NFS4ERR_BAD_STATEID", nfsx.PutFH(f0), nfsx.LockU(W, 0, 10, bogusStateID(), 0))
		f.in41("length 0", "opLocku", "NFS4ERR_INVAL", nfsx.PutFH(f0), nfsx.LockU(W, 0, 0, la, 0))
		f.in41("no current file handle", "opLocku", "NFS4ERR_NOFILEHANDLE", nfsx.LockU(W, 0, 10, la, 0))
		f.in41("lock state ID while locks are held", "opFreeStateid", "NFS4ERR_LOCKS_HELD", nfsx.FreeStateID(la))
		f.in41("open state ID", "opFreeStateid", "NFS4ERR_LOCKS_HELD|NFS4ERR_BAD_STATEID", nfsx.FreeStateID(sa))
		f.in41("unknown state ID", "opFreeStateid", "NFS4ERR_BAD_STATEID", nfsx.FreeStateID(bogusStateID()))
		f.in41("special state ID", "opFreeStateid", "NFS4ERR_BAD_STATEID", nfsx.FreeStateID(nfsv4.Stateid4{}))
		f.in41("known, unknown and special state IDs", "opTestStateid", "OK",
			&nfsv4.NfsArgop4_OP_TEST_STATEID{OptestStateid: nfsv4.TestStateid4args{TsStateids: []nfsv4.Stateid4{la, sa, sb, bogusStateID(), {}}}})
		f.in41("4.0 only operation", "opSequence", "NFS4ERR_OP_ILLEGAL|NFS4ERR_NOTSUPP", nfsx.ReleaseLockOwner(f.cid, "la"))
		f.in41("", "opLocku", "OK", nfsx.PutFH(f0), nfsx.LockU(W, 0, 100, la, 0))
		inB("lock that no longer conflicts", "opLock", "OK", nfsx.PutFH(f0), nfsx.LockNew(W, 5, 10, 0, sb, 0, b, "lb"))
		f.in41("lock state ID without locks", "opFreeStateid", "OK", nfsx.FreeStateID(la))
		f.in41("freed lock state ID", "opLocku", "NFS4ERR_BAD_STATEID", nfsx.PutFH(f0), nfsx.LockU(W, 0, 10, la, 0))
		f.in41("", "opClose", "OK", nfsx.PutFH(f0), nfsx.Close(sa, 0))
		// the server may refuse or release the locks (RFC 8881, section 18.2.3)
		inB("CLOSE while locks are held", "opClose", "OK|NFS4ERR_LOCKS_HELD", nfsx.PutFH(f0), nfsx.Close(sb, 0))
		inB("lock state ID after its open was closed", "opLocku", "", nfsx.PutFH(f0), nfsx.LockU(W, 5, 10, bogusStateID(), 0))
	}},
	// leases run out: enter() drops clientsLock to close the files of the expired client and retries
	{"v41-lease-expiry", func(m *scenMon) {
		f := newNFSFixture(m, 1)
		if !f.register41("client-a", 1) {
			return
		}
		f0 := f.w.FileHandles[0]
		r, ok := f.in41("open d0/f", "opOpen", "OK", nfsx.PutFH(f0), nfsx.OpenFH(f.cid, "oa", nfsx.AccessBoth, nfsx.NoCreate))
		if !ok {
			return
		}
		sa, _ := nfsx.OpenStateID(r)
		sa.Seqid = 0
		if _, ok = f.in41("lock-owner la takes WRITE [0,10)", "opLock", "OK", nfsx.PutFH(f0), nfsx.LockNew(nfsv4.WRITE_LT, 0, 10, 0, sa, 0, f.cid, "la")); !ok {
			return
		}
		f.w.Clock.Advance(2*nfsx.LeaseTime + time.Second)
		m.note("clock advances beyond the lease time; the next request that enters the server removes both clients and closes their files")
		// the client of the later requests has expired as well: register it anew first
		if o, ok := m.call("EXCHANGE_ID + CREATE_SESSION of the client that issues the later compounds", "enter", func() error {
			var err error
			f.probeClient, _, f.probeSess, err = nfsx.Register41(f.p, "later-client", 10)
			f.probeSeq = 0
			return err
		}); !ok || o != "OK" {
			return
		}
		f.in41("session of the expired client", "opSequence", "NFS4ERR_BADSESSION", nfsx.PutFH(f0), nfsx.Read(sa, 0, 4))
		f.do("expired client", "opDestroyClientID", "NFS4ERR_STALE_CLIENTID", nfsx.DestroyClientID(f.cid))
		f.do("expired client", "opCreateSession", "NFS4ERR_STALE_CLIENTID", nfsx.CreateSession(f.cid, 2))
	}},
}

func nfsScenarioByName(name string) (func(m *scenMon), bool) {
	for _, s := range nfsScenarios {
		if s.name == name {
			return s.body, true
		}
	}
	return nil, false
}

// runNFSScenarios runs every NFSv4 scenario once under the monitor.
func runNFSScenarios(o hx.Opts, res *hx.Result, checkerBad map[string]string, demonstrated map[string]bool) {
	for _, s := range nfsScenarios {
		m := runScenario("nfs", "NFSv4 server", s.name, res, s.body)
		reportScenario(m, "NFSv4", res, checkerBad, demonstrated)
	}
}
