package main

// Correspondence run for pkg/sync.LockPile (C14 part b): one goroutine uses a
// real LockPile over real sync.Mutexes, some of which the harness holds as the
// "environment". The same calls go to the Lean model (driver drv_lockpile,
// Model/LockPile.lean). Compared after every call and at every point at which
// the call is blocked: the set of mutexes held by the goroutine, the lock it is
// blocked on, the boolean returned by Lock. Monitor on the implementation
// alone (the conclusions of pile_no_hold_and_wait / pile_post / pile_unlock /
// pile_unlockAll): while a Lock call is blocked none of the pile's mutexes is
// held; when it returns all of them are; Lock returns true iff it never had to
// back off; Unlock/UnlockAll release exactly what they name.

import (
	"fmt"
	"runtime"
	"sort"
	"strings"
	"sync"
	"time"

	re_sync "github.com/buildbarn/bb-remote-execution/pkg/sync"

	"verifharness/internal/hx"
)

const nMutexes = 6

type pileCmd struct {
	op  string
	ids []int
}

type pileWorld struct {
	mu      [nMutexes]sync.Mutex
	env     map[int]bool
	cmds    chan pileCmd
	results chan string
	expect  map[int]int // lock -> number of times the pile has it (recursion+1), as requested by the ops
}

// pileWorkerLoop is the goroutine under test. Its name is looked for in stack dumps.
func pileWorkerLoop(w *pileWorld) {
	lp := re_sync.LockPile{}
	for c := range w.cmds {
		func() {
			defer func() {
				if r := recover(); r != nil {
					w.results <- "panic"
				}
			}()
			switch c.op {
			case "lock":
				ls := make([]re_sync.TryLocker, 0, len(c.ids))
				for _, i := range c.ids {
					ls = append(ls, &w.mu[i])
				}
				if lp.Lock(ls...) {
					w.results <- "ret=1"
				} else {
					w.results <- "ret=0"
				}
			case "unlock":
				lp.Unlock(&w.mu[c.ids[0]])
				w.results <- "ok"
			case "unlockall":
				lp.UnlockAll()
				w.results <- "ok"
			}
		}()
	}
}

// workerBlockedOnMutex reports whether the worker goroutine is parked inside sync.Mutex.Lock.
func workerBlockedOnMutex() bool {
	buf := make([]byte, 1<<16)
	for {
		n := runtime.Stack(buf, true)
		if n < len(buf) {
			buf = buf[:n]
			break
		}
		buf = make([]byte, 2*len(buf))
	}
	for _, g := range strings.Split(string(buf), "\n\n") {
		if strings.Contains(g, "pileWorkerLoop") {
			head := g
			if i := strings.Index(g, "\n"); i >= 0 {
				head = g[:i]
			}
			return strings.Contains(head, "sync.Mutex.Lock") || strings.Contains(head, "semacquire")
		}
	}
	return false
}

// heldByWorker probes the mutexes that the environment does not hold. Only
// called while the worker is parked (blocked or idle).
func (w *pileWorld) heldByWorker() []int {
	var held []int
	for i := range w.mu {
		if w.env[i] {
			continue
		}
		if w.mu[i].TryLock() {
			w.mu[i].Unlock()
		} else {
			held = append(held, i)
		}
	}
	return held
}

func showInts(xs []int) string {
	ss := make([]string, len(xs))
	for i, x := range xs {
		ss[i] = fmt.Sprint(x)
	}
	return "[" + strings.Join(ss, " ") + "]"
}

func field(s, key string) string {
	i := strings.Index(s, key+"=")
	if i < 0 {
		return ""
	}
	rest := s[i+len(key)+1:]
	if strings.HasPrefix(rest, "[") {
		return rest[:strings.Index(rest, "]")+1]
	}
	if j := strings.Index(rest, " "); j >= 0 {
		return rest[:j]
	}
	return rest
}

type pileVerdict struct {
	kind string // "", "violation", "mismatch"
	what string
}

// runPileHistory executes ops ("env hold l", "env release l", "lock a b", "unlock a",
// "unlockall", "grab l" = environment grabs l while a Lock call is backed off) against
// the real LockPile and the model.
func runPileHistory(ops []string, drv *hx.Driver, res *hx.Result) pileVerdict {
	w := &pileWorld{env: map[int]bool{}, cmds: make(chan pileCmd), results: make(chan string, 1), expect: map[int]int{}}
	go pileWorkerLoop(w)
	defer func() {
		// release everything so that the worker can finish
		for i := range w.mu {
			if w.env[i] {
				w.mu[i].Unlock()
				w.env[i] = false
			}
		}
		close(w.cmds)
	}()
	ask := func(line string) string {
		if drv == nil {
			return ""
		}
		a, err := drv.Ask(line)
		if err != nil {
			return "driver-error " + err.Error()
		}
		return a
	}
	if a := ask("reset"); drv != nil && a != "ok" {
		return pileVerdict{"mismatch", "driver reset: " + a}
	}
	pileLocks := func() []int {
		var ls []int
		for l, n := range w.expect {
			if n > 0 {
				ls = append(ls, l)
			}
		}
		sort.Ints(ls)
		return ls
	}
	for idx, op := range ops {
		f := strings.Fields(op)
		if res != nil {
			res.Count("pile-op:" + f[0])
			res.Evaluations++
		}
		switch f[0] {
		case "env":
			var l int
			fmt.Sscan(f[2], &l)
			if f[1] == "hold" {
				if w.env[l] || w.expect[l] > 0 {
					continue // not free
				}
				w.mu[l].Lock()
				w.env[l] = true
			} else {
				if !w.env[l] {
					continue
				}
				w.mu[l].Unlock()
				w.env[l] = false
			}
			if a := ask(op); drv != nil && a != "ok" {
				return pileVerdict{"mismatch", fmt.Sprintf("op %d %q: model answered %q", idx, op, a)}
			}
		case "lock":
			var ids []int
			for _, s := range f[1:] {
				var l int
				fmt.Sscan(s, &l)
				ids = append(ids, l)
			}
			heldBefore := len(pileLocks())
			for _, l := range ids {
				w.expect[l]++
			}
			model := ask(op)
			w.cmds <- pileCmd{"lock", ids}
			backoffs := 0
			for {
				// wait until the call returns or parks in Mutex.Lock
				var got string
				deadline := time.Now().Add(hx.ScaledTimeout(20 * time.Second))
				for got == "" {
					select {
					case got = <-w.results:
					case <-time.After(time.Millisecond):
						if workerBlockedOnMutex() {
							// make sure it is durably parked (not a transient state)
							time.Sleep(2 * time.Millisecond)
							if workerBlockedOnMutex() {
								got = "blocked"
							}
						} else if time.Now().After(deadline) {
							return pileVerdict{"violation", fmt.Sprintf("op %d %q neither returned nor blocked on a mutex within 20s", idx, op)}
						}
					}
				}
				if got == "panic" {
					if drv != nil && model != "panic" {
						return pileVerdict{"mismatch", fmt.Sprintf("op %d %q: implementation panicked, model: %s", idx, op, model)}
					}
					return pileVerdict{}
				}
				if got == "blocked" {
					backoffs++
					held := w.heldByWorker()
					// monitor: no hold-and-wait on pile locks
					for _, h := range held {
						if w.expect[h] > 0 {
							return pileVerdict{"violation", fmt.Sprintf("op %d %q: LockPile.Lock is blocked while still holding mutex %d of the pile (held %s, environment holds %v)", idx, op, h, showInts(held), envList(w.env))}
						}
					}
					if res != nil {
						res.Count("pile:blocked")
					}
					// which lock is it waiting for? the model says; without the model: any env-held pile lock
					var on int = -1
					if drv != nil {
						if !strings.HasPrefix(model, "blocked") {
							return pileVerdict{"mismatch", fmt.Sprintf("op %d %q: implementation is blocked (held %s), model: %s", idx, op, showInts(held), model)}
						}
						fmt.Sscan(field(model, "on"), &on)
						if field(model, "held") != showInts(held) {
							return pileVerdict{"mismatch", fmt.Sprintf("op %d %q blocked: implementation holds %s, model %s", idx, op, showInts(held), model)}
						}
					} else {
						for _, l := range pileLocks() {
							if w.env[l] {
								on = l
							}
						}
					}
					if on < 0 || !w.env[on] {
						return pileVerdict{"mismatch", fmt.Sprintf("op %d %q: blocked, but the awaited mutex %d is not held by the environment", idx, op, on)}
					}
					// optionally let the environment grab a mutex the call just released
					if idx+1 < len(ops) && strings.HasPrefix(ops[idx+1], "grab ") {
						var g int
						fmt.Sscan(strings.Fields(ops[idx+1])[1], &g)
						if !w.env[g] && g != on && w.mu[g].TryLock() {
							w.env[g] = true
							if a := ask(fmt.Sprintf("env hold %d", g)); drv != nil && a != "ok" {
								return pileVerdict{"mismatch", "grab: model answered " + a}
							}
						}
					}
					w.mu[on].Unlock()
					w.env[on] = false
					if a := ask(fmt.Sprintf("env release %d", on)); drv != nil && a != "ok" {
						return pileVerdict{"mismatch", "env release: model answered " + a}
					}
					model = ask("resume")
					continue
				}
				// returned
				held := w.heldByWorker()
				want := pileLocks()
				if showInts(held) != showInts(want) {
					return pileVerdict{"violation", fmt.Sprintf("op %d %q returned %s holding %s, but the pile consists of %s", idx, op, got, showInts(held), showInts(want))}
				}
				if heldBefore > 0 && backoffs > 0 && got == "ret=1" {
					return pileVerdict{"violation", fmt.Sprintf("op %d %q returned true although it released its %d held locks while backing off", idx, op, heldBefore)}
				}
				if backoffs == 0 && got == "ret=0" {
					return pileVerdict{"violation", fmt.Sprintf("op %d %q returned false although it never blocked", idx, op)}
				}
				if drv != nil {
					if !strings.HasPrefix(model, "done") || "ret="+field(model, "ret") != got || field(model, "held") != showInts(held) {
						return pileVerdict{"mismatch", fmt.Sprintf("op %d %q: implementation %s held %s, model: %s", idx, op, got, showInts(held), model)}
					}
				}
				if res != nil {
					res.Count("pile:lock-" + got)
				}
				break
			}
		case "grab":
			// consumed by the preceding lock
		case "unlock":
			var l int
			fmt.Sscan(f[1], &l)
			if w.expect[l] == 0 {
				continue
			}
			w.expect[l]--
			model := ask(op)
			w.cmds <- pileCmd{"unlock", []int{l}}
			got := <-w.results
			held := w.heldByWorker()
			if got != "ok" || showInts(held) != showInts(pileLocks()) {
				return pileVerdict{"violation", fmt.Sprintf("op %d %q: %s, holds %s afterwards, expected %s", idx, op, got, showInts(held), showInts(pileLocks()))}
			}
			if drv != nil && (!strings.HasPrefix(model, "ok") || field(model, "held") != showInts(held)) {
				return pileVerdict{"mismatch", fmt.Sprintf("op %d %q: implementation holds %s, model: %s", idx, op, showInts(held), model)}
			}
		case "unlockall":
			w.expect = map[int]int{}
			model := ask(op)
			w.cmds <- pileCmd{"unlockall", nil}
			got := <-w.results
			held := w.heldByWorker()
			if got != "ok" || len(held) != 0 {
				return pileVerdict{"violation", fmt.Sprintf("op %d %q: %s, still holds %s", idx, op, got, showInts(held))}
			}
			if drv != nil && !strings.HasPrefix(model, "ok held=[]") {
				return pileVerdict{"mismatch", fmt.Sprintf("op %d %q: model: %s", idx, op, model)}
			}
		}
	}
	return pileVerdict{}
}

func envList(env map[int]bool) []int {
	var ls []int
	for l, b := range env {
		if b {
			ls = append(ls, l)
		}
	}
	sort.Ints(ls)
	return ls
}

func genPileHistory(r *hx.Rand, n int) []string {
	var ops []string
	for i := 0; i < n; i++ {
		switch r.Pick(4, 2, 6, 2, 1) {
		case 0:
			ops = append(ops, fmt.Sprintf("env hold %d", r.Intn(nMutexes)))
		case 1:
			ops = append(ops, fmt.Sprintf("env release %d", r.Intn(nMutexes)))
		case 2:
			k := 1 + r.Intn(3)
			s := "lock"
			for j := 0; j < k; j++ {
				s += fmt.Sprintf(" %d", r.Intn(nMutexes))
			}
			ops = append(ops, s)
			if r.Chance(1, 2) {
				ops = append(ops, fmt.Sprintf("grab %d", r.Intn(nMutexes)))
			}
		case 3:
			ops = append(ops, fmt.Sprintf("unlock %d", r.Intn(nMutexes)))
		case 4:
			ops = append(ops, "unlockall")
		}
	}
	ops = append(ops, "unlockall")
	return ops
}

// runPile is the LockPile part of the harness.
func runPile(o hx.Opts, res *hx.Result) {
	drv, err := hx.StartDriver("lockpile")
	if err != nil {
		res.Report(hx.Finding{Kind: "mismatch", Property: "C14", What: "cannot start drv_lockpile: " + err.Error(), Name: "driver lockpile", Sig: "driver-lockpile"})
		drv = nil
	}
	if drv != nil {
		defer drv.Close()
	}
	r := hx.NewRand(o.Seed + 4242)
	n := 400
	if o.Tier == "thorough" {
		n = 3000
	}
	// the run of the non-vacuity example of the Lean file first
	fixed := [][]string{
		{"lock 1", "env hold 3", "lock 2 3 1", "unlock 1", "unlock 3", "unlockall"},
		{"env hold 0", "lock 0", "unlockall"},
		{"lock 0 1", "env hold 2", "env hold 3", "lock 2 3", "grab 0", "unlock 2", "unlockall"},
	}
	for i := 0; i < n+len(fixed); i++ {
		var ops []string
		if i < len(fixed) {
			ops = fixed[i]
		} else {
			ops = genPileHistory(r, 12)
		}
		v := runPileHistory(ops, drv, res)
		res.TracesVsImpl++
		blocked := res.Histogram["pile:blocked"]
		res.History(append([]string{"pile"}, ops...), blocked > 0)
		if v.kind != "" {
			hist := hx.Shrink(ops, func(c []string) bool { return runPileHistory(c, drv, nil).kind == v.kind })
			v2 := runPileHistory(hist, drv, nil)
			if v2.kind == "" {
				hist, v2 = ops, v
			}
			res.Report(hx.Finding{Kind: v2.kind, Property: "C14", Name: "LockPile correspondence (Model/LockPile.lean, C14.pile_no_hold_and_wait / pile_post / pile_unlock)",
				What: v2.what, History: append([]string{"pile"}, hist...), Sig: hx.Sig("C14", "pile", v2.kind, strings.Join(hist, ";"))})
			return
		}
	}
}
