package susclock

// Parts 4 and 5 of the C11 harness (model: lean/BbRe/Model/ExecStamp.lean, driver drv_execstamp).
//
// Part 4: the REAL builder.NewTimestampedBuildExecutor around a scripted inner
// BuildExecutor and the fake clock. A history moves the clock (mostly forwards,
// across second boundaries, sometimes backwards), lets the inner executor send
// state updates of every type in any order (also while the consumer of
// executionStateUpdates has not yet taken the previous one), and lets it return
// a response whose metadata may or may not contain a virtual execution duration
// and timestamps of its own. The returned ExecutedActionMetadata is compared
// field by field with the model (`W.start/update/finish`); a monitor judges:
// a reported virtual duration is passed through, the wall-time fallback is
// only used when none was reported and then equals completed - start >= 0, and
// stamps of a monotone clock are ordered.
//
// Part 5: the REAL timestampedBuildExecutor(localBuildExecutor) on a real
// SuspendableClock: the run stage is ended by the command itself, by a runner
// error with an arbitrary gRPC code, by the context handed to Execute being
// done (Canceled or DeadlineExceeded), by an I/O error logged on the build
// directory, or by the timeout, while storage reads suspend the clock. Status
// code, exit code, virtual_execution_duration, the end of the run stage and the
// stamps are compared with `stampedRun` and judged by a monitor.

import (
	"context"
	"errors"
	"fmt"
	"os"
	"strconv"
	"strings"
	"sync"
	"testing"
	"testing/synctest"
	"time"

	remoteexecution "github.com/bazelbuild/remote-apis/build/bazel/remote/execution/v2"
	"github.com/buildbarn/bb-remote-execution/pkg/builder"
	re_clock "github.com/buildbarn/bb-remote-execution/pkg/clock"
	"github.com/buildbarn/bb-remote-execution/pkg/filesystem/access"
	"github.com/buildbarn/bb-remote-execution/pkg/filesystem/pool"
	"github.com/buildbarn/bb-remote-execution/pkg/proto/remoteworker"
	runner_pb "github.com/buildbarn/bb-remote-execution/pkg/proto/runner"
	"github.com/buildbarn/bb-storage/pkg/digest"
	"github.com/buildbarn/bb-storage/pkg/filesystem/path"
	"github.com/buildbarn/bb-storage/pkg/util"

	"google.golang.org/grpc"
	"google.golang.org/grpc/codes"
	"google.golang.org/grpc/status"
	"google.golang.org/protobuf/types/known/durationpb"
	"google.golang.org/protobuf/types/known/emptypb"
	"google.golang.org/protobuf/types/known/timestamppb"

	"verifharness/internal/hx"
)

const nsPerSec = 1000000000

func tsTok(t *timestamppb.Timestamp) string {
	if t == nil {
		return "-"
	}
	return fmt.Sprintf("%d:%d", t.Seconds, t.Nanos)
}

func parseTsTok(s string) (*timestamppb.Timestamp, bool) {
	if s == "-" {
		return nil, true
	}
	p := strings.Split(s, ":")
	if len(p) != 2 {
		return nil, false
	}
	a, e1 := strconv.ParseInt(p[0], 10, 64)
	b, e2 := strconv.ParseInt(p[1], 10, 32)
	if e1 != nil || e2 != nil || a < 0 || b < 0 {
		return nil, false
	}
	return &timestamppb.Timestamp{Seconds: a, Nanos: int32(b)}, true
}

func tsNs(t *timestamppb.Timestamp) int64 { return t.Seconds*nsPerSec + int64(t.Nanos) }

func intTok(v int64) string {
	if v < 0 {
		return "n" + strconv.FormatInt(-v, 10)
	}
	return strconv.FormatInt(v, 10)
}

func metaTok(m *remoteexecution.ExecutedActionMetadata) string {
	v := "-"
	if d := m.GetVirtualExecutionDuration(); d != nil {
		v = intTok(int64(d.AsDuration()))
	}
	return strings.Join([]string{tsTok(m.GetQueuedTimestamp()), tsTok(m.GetWorkerStartTimestamp()), tsTok(m.GetWorkerCompletedTimestamp()),
		tsTok(m.GetInputFetchStartTimestamp()), tsTok(m.GetInputFetchCompletedTimestamp()),
		tsTok(m.GetExecutionStartTimestamp()), tsTok(m.GetExecutionCompletedTimestamp()),
		tsTok(m.GetOutputUploadStartTimestamp()), tsTok(m.GetOutputUploadCompletedTimestamp()), v}, " ")
}

// ---- part 4: timestampedBuildExecutor around a scripted inner executor ----------------------

type sCmd struct {
	update *remoteworker.CurrentState_Executing
	resp   *remoteexecution.ExecuteResponse
}

type sInner struct{ cmds chan sCmd }

func (in *sInner) CheckReadiness(context.Context) error { return nil }

func (in *sInner) Execute(ctx context.Context, filePool pool.FilePool, monitor access.UnreadDirectoryMonitor, digestFunction digest.Function, request *remoteworker.DesiredState_Executing, updates chan<- *remoteworker.CurrentState_Executing) *remoteexecution.ExecuteResponse {
	for c := range in.cmds {
		if c.resp != nil {
			return c.resp
		}
		updates <- c.update
	}
	return builder.NewDefaultExecuteResponse(request)
}

func stageUpdate(k int) *remoteworker.CurrentState_Executing {
	u := &remoteworker.CurrentState_Executing{ActionDigest: xEmptyDigest.GetProto()}
	switch k {
	case 0:
		u.ExecutionState = &remoteworker.CurrentState_Executing_FetchingInputs{FetchingInputs: &emptypb.Empty{}}
	case 1:
		u.ExecutionState = &remoteworker.CurrentState_Executing_Running{Running: &emptypb.Empty{}}
	case 2:
		u.ExecutionState = &remoteworker.CurrentState_Executing_UploadingOutputs{UploadingOutputs: &emptypb.Empty{}}
	}
	return u
}

// strace is what one stamping history produced.
type strace struct {
	lines     []string // the op lines for the model, with the readings the harness attributes to each receipt
	out       string   // metadata returned by the real wrapper
	worker    string
	done      bool
	problems  []string
	steps     int
	monotone  bool
	t0, tEnd  int64
	baseVirt  *int64
	baseClean bool // the inner executor set no timestamps of its own
	running   bool // a Running update was delivered
	held      bool // some update was received while the consumer was holding the previous one
	forwarded []int
	sent      []int
}

const defaultFin = "fin - - - - - - - - - -"

// stamp ops: "q <ts>" (first only) | "clk <ns>" | "upd <k> <hold>" | "take" | "fin <virt> <9 ts tokens>"
func runStampBubble(ops []string, s *strace) {
	fc := &fakeClock{}
	inner := &sInner{cmds: make(chan sCmd, 1)}
	be := builder.NewTimestampedBuildExecutor(inner, fc, "w")
	updates := make(chan *remoteworker.CurrentState_Executing)
	permit := make(chan struct{})
	var got []*remoteworker.CurrentState_Executing
	go func() {
		for {
			if _, ok := <-permit; !ok {
				for range updates {
				}
				return
			}
			u, ok := <-updates
			if !ok {
				return
			}
			got = append(got, u)
		}
	}()
	var queued *timestamppb.Timestamp
	i := 0
	for ; i < len(ops); i++ {
		f := strings.Fields(ops[i])
		if len(f) == 2 && f[0] == "q" {
			if t, ok := parseTsTok(f[1]); ok {
				queued = t
			}
		} else if len(f) == 2 && f[0] == "clk" {
			if v, err := strconv.ParseInt(f[1], 10, 64); err == nil && v >= 0 {
				fc.mu.Lock()
				fc.now = v
				fc.mu.Unlock()
			}
		} else {
			break
		}
	}
	s.monotone, s.baseClean = true, true
	s.t0 = fc.nowTicks()
	last := s.t0
	s.lines = append(s.lines, fmt.Sprintf("begin %s %d", tsTok(queued), s.t0))
	var resp *remoteexecution.ExecuteResponse
	go func() {
		defer func() {
			if r := recover(); r != nil {
				s.problems = append(s.problems, fmt.Sprintf("panic in timestampedBuildExecutor.Execute: %v", r))
			}
		}()
		resp = be.Execute(context.Background(), nil, nil, xDigestFunction, &remoteworker.DesiredState_Executing{
			ActionDigest:    xEmptyDigest.GetProto(),
			QueuedTimestamp: queued,
		}, updates)
		s.done = true
	}()
	synctest.Wait()

	held := false     // the wrapper is blocked forwarding an update the consumer holds
	pending := ""     // the inner executor is blocked handing this over ("upd k hold" / "fin …")
	finSent := false  // the inner executor has been told to return
	reading := func() int64 {
		now := fc.nowTicks()
		if now < last {
			s.monotone = false
		}
		last = now
		return now
	}
	// received: the wrapper has just received `line` (reading taken now).
	var received func(line string)
	received = func(line string) {
		f := strings.Fields(line)
		now := reading()
		if f[0] == "fin" {
			s.tEnd = now
			s.lines = append(s.lines, fmt.Sprintf("fin %d %s", now, strings.Join(f[1:], " ")))
			return
		}
		s.lines = append(s.lines, fmt.Sprintf("upd %s %d", f[1], now))
		k, _ := strconv.Atoi(f[1])
		s.forwarded = append(s.forwarded, k)
		if k == 1 {
			s.running = true
		}
		if f[2] == "1" {
			held = true
			return
		}
		permit <- struct{}{}
		synctest.Wait()
		s.steps++
		if pending != "" {
			p := pending
			pending = ""
			s.held = true
			received(p)
		}
	}
	send := func(line string) bool {
		f := strings.Fields(line)
		if f[0] == "fin" {
			if len(f) != 11 {
				return false
			}
			md := &remoteexecution.ExecutedActionMetadata{}
			if f[1] != "-" {
				neg := strings.HasPrefix(f[1], "n")
				v, err := strconv.ParseInt(strings.TrimPrefix(f[1], "n"), 10, 64)
				if err != nil {
					return false
				}
				if neg {
					v = -v
				}
				s.baseVirt = &v
				md.VirtualExecutionDuration = durationpb.New(time.Duration(v))
			}
			var ts [9]*timestamppb.Timestamp
			for j := 0; j < 9; j++ {
				t, ok := parseTsTok(f[2+j])
				if !ok {
					return false
				}
				ts[j] = t
				if t != nil && j > 0 {
					s.baseClean = false
				}
			}
			md.QueuedTimestamp, md.WorkerStartTimestamp, md.WorkerCompletedTimestamp = ts[0], ts[1], ts[2]
			md.InputFetchStartTimestamp, md.InputFetchCompletedTimestamp = ts[3], ts[4]
			md.ExecutionStartTimestamp, md.ExecutionCompletedTimestamp = ts[5], ts[6]
			md.OutputUploadStartTimestamp, md.OutputUploadCompletedTimestamp = ts[7], ts[8]
			finSent = true
			inner.cmds <- sCmd{resp: &remoteexecution.ExecuteResponse{Result: &remoteexecution.ActionResult{ExecutionMetadata: md}}}
		} else {
			k, err := strconv.Atoi(f[1])
			if err != nil || k < 0 || k > 3 || len(f) != 3 || (f[2] != "0" && f[2] != "1") {
				return false
			}
			s.sent = append(s.sent, k)
			inner.cmds <- sCmd{update: stageUpdate(k)}
		}
		synctest.Wait()
		s.steps++
		return true
	}
	do := func(line string) {
		f := strings.Fields(line)
		if len(f) == 0 || s.done {
			return
		}
		switch f[0] {
		case "clk":
			if v, err := strconv.ParseInt(f[len(f)-1], 10, 64); err == nil && len(f) == 2 && v >= 0 {
				fc.mu.Lock()
				fc.now = v
				fc.mu.Unlock()
			}
		case "upd", "fin":
			if finSent || pending != "" {
				return
			}
			if held {
				if send(line) {
					pending = line
				}
				return
			}
			if send(line) {
				received(line)
			}
		case "take":
			if !held {
				return
			}
			held = false
			permit <- struct{}{}
			synctest.Wait()
			s.steps++
			if pending != "" {
				p := pending
				pending = ""
				s.held = true
				received(p)
			}
		}
	}
	for ; i < len(ops); i++ {
		do(ops[i])
	}
	for n := 0; (held || pending != "") && n < 10; n++ {
		do("take")
	}
	if !finSent {
		do(defaultFin)
	}
	synctest.Wait()
	if s.done && resp != nil {
		s.out = metaTok(resp.GetResult().GetExecutionMetadata())
		s.worker = resp.GetResult().GetExecutionMetadata().GetWorker()
		if len(got) != len(s.forwarded) {
			s.problems = append(s.problems, fmt.Sprintf("the consumer received %d updates, the inner executor sent %d", len(got), len(s.forwarded)))
		}
	}
	close(permit)
	close(inner.cmds)
	synctest.Wait()
	close(updates)
	synctest.Wait()
}

func execStamp(t *testing.T, ops []string) *strace {
	s := &strace{}
	synctest.Test(t, func(t *testing.T) {
		defer func() {
			if r := recover(); r != nil {
				s.problems = append(s.problems, fmt.Sprintf("panic: %v", r))
			}
		}()
		runStampBubble(ops, s)
	})
	return s
}

// monitor: what the property (and the task's reading of it for the stamps) demands, on observables only.
func (s *strace) monitor() string {
	if len(s.problems) > 0 {
		return s.problems[0]
	}
	if !s.done {
		return "timestampedBuildExecutor.Execute did not return although the inner executor returned and all updates were taken"
	}
	f := strings.Fields(s.out)
	if len(f) != 10 {
		return "harness: cannot read the metadata " + s.out
	}
	if s.worker != "w" {
		return fmt.Sprintf("worker name %q reported, want %q", s.worker, "w")
	}
	if s.baseVirt != nil {
		if f[9] != intTok(*s.baseVirt) {
			return fmt.Sprintf("the inner executor reported a virtual execution duration of %d but %s is returned: the wall-time fallback must only apply when none was reported", *s.baseVirt, f[9])
		}
	}
	if !s.baseClean || !s.monotone {
		return ""
	}
	var ts [9]*timestamppb.Timestamp
	for j := 0; j < 9; j++ {
		ts[j], _ = parseTsTok(f[j])
	}
	ws, wd := ts[1], ts[2]
	if ws == nil || wd == nil || tsNs(ws) != s.t0 || tsNs(wd) != s.tEnd {
		return fmt.Sprintf("worker start/completed stamps %s/%s, the clock read %d at entry and %d at completion", f[1], f[2], s.t0, s.tEnd)
	}
	names := []string{"input fetch", "execution", "output upload"}
	for j := 0; j < 3; j++ {
		a, b := ts[3+2*j], ts[4+2*j]
		if a == nil && b == nil {
			continue
		}
		if a == nil || b == nil {
			return fmt.Sprintf("%s: only one of start/completed is set (%s/%s)", names[j], f[3+2*j], f[4+2*j])
		}
		if !(tsNs(ws) <= tsNs(a) && tsNs(a) <= tsNs(b) && tsNs(b) <= tsNs(wd)) {
			return fmt.Sprintf("%s stamps not ordered on a monotone clock: worker start %s <= start %s <= completed %s <= worker completed %s violated", names[j], f[1], f[3+2*j], f[4+2*j], f[2])
		}
	}
	if s.running && ts[5] == nil {
		return "a Running update was delivered but no execution start stamp is reported"
	}
	if s.baseVirt == nil {
		if ts[5] != nil && ts[6] != nil {
			want := tsNs(ts[6]) - tsNs(ts[5])
			if f[9] != intTok(want) || want < 0 {
				return fmt.Sprintf("no virtual duration was reported by the inner executor: the fallback must be execution completed - start = %d (never negative), got %s", want, f[9])
			}
		} else if f[9] != "-" {
			return fmt.Sprintf("virtual execution duration %s reported although the action never ran and the inner executor reported none", f[9])
		}
	}
	return ""
}

func (s *strace) compare(drv *hx.Driver) (line, exp, act string) {
	for i, l := range s.lines {
		ans, err := drv.Ask(l)
		if err != nil {
			return l, "an answer", "driver-error " + err.Error()
		}
		if i < len(s.lines)-1 {
			if ans != "ok" {
				return l, "ok", ans
			}
			continue
		}
		if ans != s.out {
			return strings.Join(s.lines, " ; "), ans, s.out
		}
	}
	return "", "", ""
}

func genStamp(r *hx.Rand) []string {
	var ops []string
	now := int64(0)
	step := func() {
		switch r.Intn(12) {
		case 0:
		case 1:
			now += nsPerSec * int64(1+r.Intn(3))
			now -= now % nsPerSec // a whole number of seconds: nanos = 0
		case 2:
			now += nsPerSec - now%nsPerSec + int64(r.Intn(3)) // just across a second boundary
		case 3:
			now += nsPerSec*int64(r.Intn(5)) + int64(r.Intn(nsPerSec))
		case 4:
			if r.Chance(1, 3) { // the wall clock steps back
				now -= int64(r.Intn(int(now%1000 + 1)))
			}
		default:
			now += int64(r.Intn(50))
		}
		ops = append(ops, fmt.Sprintf("clk %d", now))
	}
	rts := func() string {
		switch r.Intn(4) {
		case 0:
			return fmt.Sprintf("%d:0", 1+r.Intn(5))
		case 1:
			return fmt.Sprintf("0:%d", r.Intn(1000))
		}
		return fmt.Sprintf("%d:%d", r.Intn(6), r.Intn(1000))
	}
	if r.Chance(2, 3) {
		ops = append(ops, "q "+rts())
	}
	if r.Chance(3, 4) {
		now = int64(r.Intn(5))*nsPerSec + int64(r.Intn(1000))
		ops = append(ops, fmt.Sprintf("clk %d", now))
	}
	var stages []int
	switch r.Intn(6) {
	case 0, 1, 2:
		stages = []int{0, 1, 2}
	case 3:
		stages = []int{0}
		if r.Chance(1, 2) {
			stages = nil
		}
	default:
		for n := r.Intn(7); n > 0; n-- {
			stages = append(stages, r.Intn(4))
		}
	}
	holds := 0
	for _, k := range stages {
		step()
		h := 0
		if r.Chance(1, 3) {
			h = 1
			holds++
		}
		ops = append(ops, fmt.Sprintf("upd %d %d", k, h))
		if r.Chance(1, 2) {
			step()
		}
		if holds > 0 && r.Chance(1, 2) {
			ops = append(ops, "take")
		}
	}
	step()
	virt := "-"
	switch r.Intn(5) {
	case 0:
		virt = strconv.Itoa(r.Intn(100))
	case 1:
		virt = strconv.FormatInt(int64(r.Intn(4))*nsPerSec+int64(r.Intn(1000)), 10)
	case 2:
		if r.Chance(1, 4) {
			virt = "n" + strconv.Itoa(1+r.Intn(100))
		} else if r.Chance(1, 3) {
			virt = "0"
		}
	}
	toks := make([]string, 9)
	for j := range toks {
		toks[j] = "-"
	}
	if r.Chance(1, 4) { // an inner executor that stamps by itself
		for j := range toks {
			if r.Chance(1, 3) || ((j == 5 || j == 6) && r.Chance(1, 2)) {
				toks[j] = rts()
			}
		}
	}
	ops = append(ops, fmt.Sprintf("fin %s %s", virt, strings.Join(toks, " ")))
	for n := r.Intn(3); n > 0; n-- {
		step()
		ops = append(ops, "take")
	}
	return ops
}

type sverdict struct {
	monitor, line, exp, act string
	s                       *strace
}

func evaluateStamp(t *testing.T, ops []string, drv *hx.Driver) sverdict {
	s := execStamp(t, ops)
	v := sverdict{s: s, monitor: s.monitor()}
	if v.monitor == "" {
		v.line, v.exp, v.act = s.compare(drv)
	}
	return v
}

func reportStamp(t *testing.T, res *hx.Result, drv *hx.Driver, ops []string, v sverdict) {
	wantMonitor := v.monitor != ""
	fails := func(cand []string) bool {
		w := evaluateStamp(t, cand, drv)
		if wantMonitor {
			return w.monitor != ""
		}
		return w.monitor == "" && w.line != ""
	}
	min := hx.Shrink(ops, fails)
	w := evaluateStamp(t, min, drv)
	hist := append([]string{"scfg"}, min...)
	f := hx.Finding{Property: prop, History: hist}
	if w.monitor != "" {
		f.Kind, f.What = "violation", w.monitor
		f.Name = "C11 part 4: timestampedBuildExecutor passes a reported virtual duration through, falls back to completed - start >= 0 only when none was reported, stamps ordered"
	} else {
		f.Kind, f.What = "mismatch", "model (ExecStamp.stamp) and timestampedBuildExecutor.Execute disagree on: "+w.line
		f.Name = "correspondence Model/ExecStamp.lean W.start/update/finish <-> pkg/builder/timestamped_build_executor.go (theorems C11Stamp.virt_passed_through, fallback_only_without_report, stamps_ordered)"
		f.Expected, f.Actual = w.exp, w.act
	}
	f.Sig = hx.Sig(prop, "susclock-stamp", strings.Join(hist, ";"))
	res.Report(f)
}

func runStamp(t *testing.T, res *hx.Result, drv *hx.Driver, r *hx.Rand, o hx.Opts) bool {
	n := 3000 * o.Scale
	if o.Tier == "thorough" {
		n = 20000 * o.Scale
	}
	mismatches := 0
	for i := 0; i < n; i++ {
		ops := genStamp(r)
		v := evaluateStamp(t, ops, drv)
		res.Evaluations += v.s.steps + 1
		res.TracesVsImpl++
		switch {
		case v.s.baseVirt != nil:
			res.Count("stamp-virtual-reported-by-inner")
		case v.s.running:
			res.Count("stamp-wall-time-fallback")
		default:
			res.Count("stamp-no-virtual-duration")
		}
		if !v.s.baseClean {
			res.Count("stamp-inner-stamps-merged")
		}
		if !v.s.monotone {
			res.Count("stamp-clock-stepped-back")
		}
		if v.s.held {
			res.Count("stamp-update-received-after-hold")
		}
		if v.monitor != "" {
			reportStamp(t, res, drv, ops, v)
			return false
		}
		if v.line != "" {
			if mismatches == 0 {
				reportStamp(t, res, drv, ops, v)
			}
			mismatches++
		}
	}
	return mismatches == 0
}

// ---- part 5: run stage ended by anything, under the timestamping wrapper --------------------

// yOuter is the context handed to Execute; the harness ends it with an error of its choice.
type yOuter struct {
	mu   sync.Mutex
	done chan struct{}
	err  error
}

func (c *yOuter) Deadline() (time.Time, bool) { return time.Time{}, false }
func (c *yOuter) Done() <-chan struct{}       { return c.done }
func (c *yOuter) Value(any) any               { return nil }
func (c *yOuter) Err() error {
	c.mu.Lock()
	defer c.mu.Unlock()
	return c.err
}

func (c *yOuter) finish(err error) {
	c.mu.Lock()
	defer c.mu.Unlock()
	if c.err == nil {
		c.err = err
		close(c.done)
	}
}

type yBuildDirectory struct {
	xBuildDirectory
	creator *yCreator
}

func (d *yBuildDirectory) InstallHooks(_ pool.FilePool, l util.ErrorLogger) { d.creator.logger = l }
func (d *yBuildDirectory) EnterBuildDirectory(path.Component) (builder.BuildDirectory, error) {
	return d, nil
}

func (d *yBuildDirectory) EnterParentPopulatableDirectory(path.Component) (builder.ParentPopulatableDirectory, error) {
	return d, nil
}

func (d *yBuildDirectory) EnterUploadableDirectory(path.Component) (builder.UploadableDirectory, error) {
	return d, nil
}

type yCreator struct{ logger util.ErrorLogger }

func (c *yCreator) GetBuildDirectory(context.Context, *digest.Digest) (builder.BuildDirectory, *path.Trace, error) {
	return &yBuildDirectory{creator: c}, nil, nil
}

type yRunner struct {
	xRunner
	failCode codes.Code
}

func (r *yRunner) Run(ctx context.Context, in *runner_pb.RunRequest, opts ...grpc.CallOption) (*runner_pb.RunResponse, error) {
	r.started, r.startedAt = true, r.fc.nowTicks()
	select {
	case <-r.gate:
		if r.failCode != codes.OK {
			return nil, status.Error(r.failCode, "runner failure injected by the harness")
		}
		return &runner_pb.RunResponse{ExitCode: r.exitCode}, nil
	case <-ctx.Done():
		r.byCtx = true
		return nil, status.FromContextError(ctx.Err()).Err()
	}
}

type ytrace struct {
	tr       *trace
	cfg      xconfig
	begin    int64 // clock at the call of Execute
	t0       int64 // clock when runner.Run was entered
	started  bool
	done     bool
	forced   bool // Execute only returned when the harness released everything at the end of the history
	doneAt   int64
	end      int64
	hasEnd   bool
	endAt    int64
	endPre   bool
	endKind  int // 0 exit 1 runner error 2 outer 3 I/O error
	endCode  int64
	code     codes.Code
	respExit int32
	hasVirt  bool
	virt     int64
	meta     string
	md       *remoteexecution.ExecutedActionMetadata
}

func (y *ytrace) wantCode() codes.Code {
	switch y.endKind {
	case 0:
		return codes.OK
	case 2:
		if y.endCode == 1 {
			return codes.DeadlineExceeded
		}
		return codes.Canceled
	}
	return codes.Code(y.endCode)
}

func (y *ytrace) enderName() string {
	if !y.hasEnd {
		return "nothing but the timeout"
	}
	return []string{"the command exiting", "a runner error", "the context of Execute being done", "an I/O error on the build directory"}[y.endKind] +
		fmt.Sprintf(" at %d", y.endAt)
}

func execYCase(t *testing.T, c xconfig, ops []op) *ytrace {
	y := &ytrace{cfg: c, tr: &trace{cfg: config{maxS: c.maxS, thr: c.thr, start: c.start, mul: 1, rseed: c.rseed}}}
	synctest.Test(t, func(t *testing.T) {
		runYBubble(c, ops, y)
	})
	return y
}

func runYBubble(c xconfig, ops []op, y *ytrace) {
	tr := y.tr
	fc := &fakeClock{now: c.start}
	tr.fc = fc
	clk := re_clock.NewSuspendableClock(fc, time.Duration(c.maxS), time.Duration(c.thr))
	rng := hx.NewRand(c.rseed)
	reads := map[int]*readRec{}
	dead := false
	problem := func(s string) { tr.problems = append(tr.problems, s) }
	fireDue := func() {
		for i := 0; !dead && fc.fireOne(rng.Intn); i++ {
			synctest.Wait()
			tr.steps++
			if i > 5000 {
				problem("livelock: base timers keep becoming due at one instant")
				dead = true
			}
		}
	}
	advanceTo := func(target int64) {
		for !dead {
			w, ok := fc.nextDue()
			if !ok || w >= target {
				break
			}
			fc.set(w)
			fireDue()
		}
		fc.set(target)
	}
	runner := &yRunner{xRunner: xRunner{fc: fc, gate: make(chan struct{})}}
	creator := &yCreator{}
	be := builder.NewTimestampedBuildExecutor(
		builder.NewLocalBuildExecutor(xCAS{}, creator, runner, clk, time.Duration(1000000), nil, 10000, nil, false),
		fc, "w")
	updates := make(chan *remoteworker.CurrentState_Executing)
	go func() {
		for range updates {
		}
	}()
	outer := &yOuter{done: make(chan struct{})}
	released := false
	defer func() {
		if r := recover(); r != nil {
			problem(fmt.Sprintf("panic: %v", r))
		}
		for _, rd := range tr.reads {
			if !rd.released {
				rd.released = true
				close(rd.gate)
			}
		}
		outer.finish(context.Canceled)
		if !released {
			released = true
			close(runner.gate)
		}
		synctest.Wait()
		close(updates)
		synctest.Wait()
	}()
	y.begin = fc.nowTicks()
	go func() {
		defer func() {
			if r := recover(); r != nil {
				problem(fmt.Sprintf("panic in Execute: %v", r))
			}
		}()
		resp := be.Execute(outer, nil, nil, xDigestFunction, &remoteworker.DesiredState_Executing{
			ActionDigest: xEmptyDigest.GetProto(),
			Action: &remoteexecution.Action{
				CommandDigest:   xEmptyDigest.GetProto(),
				InputRootDigest: xEmptyDigest.GetProto(),
				Timeout:         durationpb.New(time.Duration(c.d)),
			},
		}, updates)
		y.doneAt = fc.nowTicks()
		y.code = status.FromProto(resp.GetStatus()).Code()
		y.respExit = resp.GetResult().GetExitCode()
		y.md = resp.GetResult().GetExecutionMetadata()
		if v := y.md.GetVirtualExecutionDuration(); v != nil {
			y.hasVirt, y.virt = true, int64(v.AsDuration())
		}
		y.meta = metaTok(y.md)
		y.done = true
	}()
	synctest.Wait()
	y.started, y.t0 = runner.started, runner.startedAt

	ended := false
	for i := 0; i < len(ops) && !dead; i++ {
		o := ops[i]
		if ended || o.t < fc.nowTicks() {
			continue
		}
		advanceTo(o.t)
		if !o.pre {
			fireDue()
		}
		if dead {
			break
		}
		now := fc.nowTicks()
		ender := func(kind int, code int64) {
			y.hasEnd, y.endAt, y.endPre, y.endKind, y.endCode = true, now, o.pre, kind, code
		}
		switch o.kind {
		case "read":
			if _, dup := reads[o.id]; dup {
				continue
			}
			rd := &readRec{id: o.id, kind: int(o.a) % nReadKinds, s: now, r: -1, gate: make(chan struct{})}
			reads[o.id] = rd
			tr.reads = append(tr.reads, rd)
			tr.events = append(tr.events, event{now, true})
			go startRead(clk, rd)
		case "done":
			rd := reads[o.id]
			if rd == nil || rd.released {
				continue
			}
			rd.released = true
			rd.r = now
			tr.events = append(tr.events, event{now, false})
			close(rd.gate)
		case "finish": // a = exit code, b = gRPC code of the runner's own error (0: none)
			if y.hasEnd || y.done || o.a < 0 || o.b < 0 || o.b > 16 {
				continue
			}
			if o.b == 0 {
				ender(0, o.a)
			} else {
				ender(1, o.b)
			}
			runner.exitCode, runner.failCode = o.a, codes.Code(o.b)
			released = true
			close(runner.gate)
		case "outer": // a = 0: Canceled, 1: DeadlineExceeded
			if y.hasEnd || y.done || (o.a != 0 && o.a != 1) {
				continue
			}
			ender(2, o.a)
			if o.a == 1 {
				outer.finish(context.DeadlineExceeded)
			} else {
				outer.finish(context.Canceled)
			}
		case "ioerr": // a = gRPC code of the logged error (2: a plain Go error)
			if y.hasEnd || y.done || creator.logger == nil || o.a < 1 || o.a > 16 {
				continue
			}
			ender(3, o.a)
			if o.a == 2 {
				creator.logger.Log(errors.New("I/O error injected by the harness"))
			} else {
				creator.logger.Log(status.Error(codes.Code(o.a), "I/O error injected by the harness"))
			}
		case "end":
			ended = true
		default:
			continue
		}
		synctest.Wait()
		tr.steps++
	}
	if !dead {
		fireDue()
	}
	y.end = fc.nowTicks()
	if !y.done {
		y.forced = true
	}
	for _, rd := range tr.reads {
		if rd.problem != "" {
			problem(rd.problem)
		}
	}
}

func (y *ytrace) monitor() string {
	if len(y.tr.problems) > 0 {
		return y.tr.problems[0]
	}
	c := y.cfg
	if !y.started {
		return "executor: runner.Run was never called"
	}
	name := fmt.Sprintf("action (command started at %d, timeout %d, ended by %s)", y.t0, c.d, y.enderName())
	wall := y.t0 + c.d + c.maxS
	if y.forced || !y.done {
		// the history ended while the command was still running
		if y.end >= wall {
			return fmt.Sprintf("%s: the command is still running at %d, past timeout + maximum compensation = %d", name, y.end, wall)
		}
		if u := y.tr.unsusp(y.t0, y.end); u >= c.d {
			return fmt.Sprintf("%s: the command is still running at %d although it has run for %d >= timeout while the worker was not stalled", name, y.end, u)
		}
		return ""
	}
	T := y.doneAt
	u := y.tr.unsusp(y.t0, T)
	if T > wall {
		return fmt.Sprintf("%s: the run stage ended at %d, later than timeout + maximum compensation = %d", name, T, wall)
	}
	if u > c.d {
		return fmt.Sprintf("%s: ran for %d of unsuspended time until %d, more than its timeout", name, u, T)
	}
	timedOutRightly := func() string {
		if y.code != codes.DeadlineExceeded {
			return fmt.Sprintf("%s: the command was killed by the timeout at %d but the action is reported with status %s, not DEADLINE_EXCEEDED", name, T, y.code)
		}
		if u+c.thr <= c.d && T != wall {
			return fmt.Sprintf("%s: killed early at %d: it had run for only %d while the worker was not stalled (threshold %d, wall bound %d not reached)", name, T, u, c.thr, wall)
		}
		return ""
	}
	if !y.hasEnd {
		if s := timedOutRightly(); s != "" {
			return s
		}
	} else {
		if T > y.endAt {
			return fmt.Sprintf("%s: the run stage ended only at %d", name, T)
		}
		want := y.wantCode()
		own := y.code == want && (y.endKind != 0 || int64(y.respExit) == y.endCode)
		inBudget := y.endAt < wall && y.tr.unsusp(y.t0, y.endAt)+c.thr <= c.d
		switch {
		case T < y.endAt:
			if s := timedOutRightly(); s != "" {
				return s
			}
			if inBudget {
				return fmt.Sprintf("%s: it was within its unsuspended budget then, but the run stage ended at %d", name, T)
			}
		case inBudget && !own:
			return fmt.Sprintf("%s within the unsuspended budget: status %s exit code %d reported, expected status %s (the timeout did not fire: not DEADLINE_EXCEEDED unless that is the ender's own code)", name, y.code, y.respExit, want)
		case !own:
			if s := timedOutRightly(); s != "" {
				return s + fmt.Sprintf(" (nor the ender's own status %s)", want)
			}
		}
	}
	if !y.hasVirt {
		return fmt.Sprintf("%s: no virtual execution duration is reported; the command ran for %d while the worker was not stalled (run stage %d..%d)", name, u, y.t0, T)
	}
	if y.virt != u {
		return fmt.Sprintf("%s: reported virtual execution duration %d, but the command ran for %d while the worker was not stalled on storage (run stage %d..%d)", name, y.virt, u, y.t0, T)
	}
	es, ec := y.md.GetExecutionStartTimestamp(), y.md.GetExecutionCompletedTimestamp()
	if es == nil || ec == nil {
		return name + ": execution start/completed stamps missing"
	}
	if !(tsNs(es) <= y.t0 && T <= tsNs(ec) && y.virt <= tsNs(ec)-tsNs(es)) {
		return fmt.Sprintf("%s: stamps execution start %d / completed %d do not enclose the run stage %d..%d with virtual duration %d", name, tsNs(es), tsNs(ec), y.t0, T, y.virt)
	}
	return ""
}

func (y *ytrace) compare(drv *hx.Driver) (line, exp, act string) {
	ask := func(l string) string {
		s, err := drv.Ask(l)
		if err != nil {
			return "driver-error " + err.Error()
		}
		return s
	}
	if s := ask(fmt.Sprintf("cfg %d %d", y.cfg.maxS, y.cfg.thr)); s != "ok" {
		return "cfg", "ok", s
	}
	for _, e := range y.tr.events {
		k := "r"
		if e.suspend {
			k = "s"
		}
		if s := ask(fmt.Sprintf("%s %d", k, e.t)); !strings.HasPrefix(s, "ok ") {
			return fmt.Sprintf("%s %d", k, e.t), "ok …", s
		}
	}
	line = fmt.Sprintf("srun %d %d %d %d %d %d %d", y.t0, y.cfg.d, y.begin, y.begin, y.begin, y.doneAt, y.doneAt)
	if y.hasEnd {
		p := 0
		if y.endPre {
			p = 1
		}
		line += fmt.Sprintf(" %d %d %d %d", y.endAt, p, y.endKind, y.endCode)
	}
	exp = ask(line)
	if y.forced {
		// the history ended before the model's end of the run stage?
		if f := strings.Fields(exp); len(f) > 4 {
			if inst, _ := strconv.ParseInt(f[3], 10, 64); inst > y.end {
				return "", "", ""
			}
		}
		return line, exp, "still running at the end of the history"
	}
	ex := "-"
	if y.code == codes.OK {
		ex = strconv.FormatInt(int64(y.respExit), 10)
	}
	v := "none"
	if y.hasVirt {
		v = strconv.FormatInt(y.virt, 10)
	}
	k := 0
	if y.code == codes.DeadlineExceeded && (!y.hasEnd || y.doneAt < y.endAt || y.wantCode() != codes.DeadlineExceeded) {
		k = 1
	}
	act = fmt.Sprintf("%d %s %s %d", int(y.code), ex, v, y.doneAt)
	// the `killed` flag is not observable when the ender's own code is DEADLINE_EXCEEDED at the same instant
	f := strings.SplitN(exp, " | ", 2)
	if len(f) != 2 {
		return line, exp, act + " … | " + y.meta
	}
	x := strings.Fields(f[0])
	if len(x) != 5 {
		return line, exp, act + " … | " + y.meta
	}
	ambiguous := y.hasEnd && y.doneAt == y.endAt && y.wantCode() == codes.DeadlineExceeded
	if strings.Join(x[:4], " ") != act || (!ambiguous && x[4] != strconv.Itoa(k)) || f[1] != y.meta {
		return line, exp, fmt.Sprintf("%s %d | %s", act, k, y.meta)
	}
	return "", "", ""
}

type yverdict struct {
	monitor, line, exp, act string
	y                       *ytrace
}

func evaluateY(t *testing.T, c xconfig, ops []op, drv *hx.Driver) yverdict {
	y := execYCase(t, c, ops)
	v := yverdict{y: y, monitor: y.monitor()}
	if v.monitor == "" {
		v.line, v.exp, v.act = y.compare(drv)
	}
	return v
}

func reportY(t *testing.T, res *hx.Result, drv *hx.Driver, c xconfig, ops []op, v yverdict) {
	wantMonitor := v.monitor != ""
	fails := func(cand []string) bool {
		w := evaluateY(t, c, parseOps(cand), drv)
		if wantMonitor {
			return w.monitor != ""
		}
		return w.monitor == "" && w.line != ""
	}
	min := hx.Shrink(strs(ops), fails)
	w := evaluateY(t, c, parseOps(min), drv)
	hist := append([]string{"y" + c.String()}, min...)
	f := hx.Finding{Property: prop, History: hist}
	if w.monitor != "" {
		f.Kind, f.What = "violation", w.monitor
		f.Name = "C11 part 5: DEADLINE_EXCEEDED iff the timeout killed the command (an outer cancellation, I/O error or runner error within the budget is reported with its own status), virtual_execution_duration = unsuspended run time in every outcome, stamps enclose the run"
	} else {
		f.Kind, f.What = "mismatch", "model (ExecStamp.stampedRun) and timestampedBuildExecutor(localBuildExecutor).Execute disagree on: "+w.line
		f.Name = "correspondence Model/ExecStamp.lean execRunX/stampedRun <-> pkg/builder/local_build_executor.go + timestamped_build_executor.go (theorems C11Stamp.ended_run, ender_in_budget, deadline_exceeded_iff, stamped_virtual_within_stamps)"
		f.Expected, f.Actual = w.exp, w.act
	}
	f.Sig = hx.Sig(prop, "susclock-xrun", strings.Join(hist, ";"))
	res.Report(f)
}

func runEnders(t *testing.T, res *hx.Result, drv *hx.Driver, xdrv *hx.Driver, r *hx.Rand, o hx.Opts) bool {
	n := 2500 * o.Scale
	if o.Tier == "thorough" {
		n = 15000 * o.Scale
	}
	mismatches := 0
	for i := 0; i < n; i++ {
		c, ops := genYCaseAimed(r, xdrv)
		v := evaluateY(t, c, ops, drv)
		res.Evaluations += v.y.tr.steps + 1
		res.TracesVsImpl++
		kind := "timeout-only"
		if v.y.hasEnd {
			kind = []string{"exit", "runner-error", "outer-context", "io-error"}[v.y.endKind]
		}
		how := "own-status"
		if v.y.forced {
			how = "running-at-end"
		} else if v.y.done && (!v.y.hasEnd || v.y.doneAt < v.y.endAt) {
			how = "killed-first"
		}
		res.Count("ender-" + kind + "-" + how)
		if v.y.done && len(v.y.tr.reads) > 0 && v.y.tr.unsusp(v.y.t0, v.y.doneAt) < v.y.doneAt-v.y.t0 {
			res.Count("ender-stalled-while-running-" + kind)
		}
		if v.monitor != "" {
			reportY(t, res, drv, c, ops, v)
			return false
		}
		if v.line != "" {
			if mismatches == 0 {
				reportY(t, res, drv, c, ops, v)
			}
			mismatches++
		}
	}
	return mismatches == 0
}

// genYCaseAimed uses the susclock driver (as part 3 does) to aim enders at the kill instant.
func genYCaseAimed(r *hx.Rand, susDrv *hx.Driver) (xconfig, []op) {
	c, ops := genXCase(r, susDrv)
	return genYFrom(r, c, ops)
}

func genYFrom(r *hx.Rand, c xconfig, ops []op) (xconfig, []op) {
	for i := range ops {
		if ops[i].kind != "finish" {
			continue
		}
		ops[i].a, ops[i].b = 0, 0
		switch r.Intn(8) {
		case 0:
			ops[i].a = int64(r.Intn(3))
		case 1:
			ops[i].b = []int64{13, 2, 4, 1, 14}[r.Intn(5)]
		case 2, 3, 4:
			ops[i].kind = "outer"
			if r.Chance(1, 4) {
				ops[i].a = 1
			}
		default:
			ops[i].kind = "ioerr"
			ops[i].a = []int64{13, 2, 14, 4, 1, 15}[r.Intn(6)]
		}
		if r.Chance(1, 5) { // a second ender later or at the same instant: must be ignored
			o := ops[i]
			o.t += int64(r.Intn(3))
			o.kind = []string{"outer", "ioerr", "finish"}[r.Intn(3)]
			o.a, o.b = 1, 0
			o.seq = len(ops)
			ops = append(ops, o)
		}
		break
	}
	normalise(ops)
	return c, ops
}

func replayStamp(t *testing.T, res *hx.Result, drv *hx.Driver, hist []string) {
	if strings.HasPrefix(hist[0], "yxcfg ") {
		c, err := parseXConfig(strings.TrimPrefix(hist[0], "y"))
		if err != nil {
			fmt.Fprintln(os.Stderr, err)
			os.Exit(3)
		}
		ops := parseOps(hist[1:])
		v := evaluateY(t, c, ops, drv)
		res.Evaluations = v.y.tr.steps + 1
		if v.monitor != "" || v.line != "" {
			reportY(t, res, drv, c, ops, v)
		}
		return
	}
	v := evaluateStamp(t, hist[1:], drv)
	res.Evaluations = v.s.steps + 1
	if v.monitor != "" || v.line != "" {
		reportStamp(t, res, drv, hist[1:], v)
	}
}
