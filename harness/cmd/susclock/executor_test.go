package susclock

// Part 3 of the C11 harness: the run stage of the REAL localBuildExecutor
// (pkg/builder/local_build_executor.go) on a real SuspendableClock over the
// fake base clock. "the action [is] reported as DEADLINE_EXCEEDED once it has
// run for its timeout … and the reported virtual execution duration equals the
// unsuspended time it ran" - for every way the command can end: exit code 0,
// non-zero exit code, runner error, killed by the timeout / the cap.
//
// A case is: clock parameters, the action's timeout, storage reads that
// suspend/resume the clock while the command runs (same read kinds as part 1,
// i.e. also through the real suspending decorators), and optionally the instant
// and manner in which the command ends by itself. The fake runner behaves like
// the gRPC client of bb_runner: it returns its own outcome when the harness
// releases it, or status.FromContextError(ctx.Err()) when its context is done
// first. Status code, exit code, virtual_execution_duration and the instant at
// which Execute returns are compared with Model/SusClock.lean (`execRun`) and
// judged by a monitor that only uses the harness's own record of the reads.

import (
	"context"
	"fmt"
	"os"
	"strconv"
	"strings"
	"testing"
	"testing/synctest"
	"time"

	remoteexecution "github.com/bazelbuild/remote-apis/build/bazel/remote/execution/v2"
	"github.com/buildbarn/bb-remote-execution/pkg/builder"
	re_clock "github.com/buildbarn/bb-remote-execution/pkg/clock"
	"github.com/buildbarn/bb-remote-execution/pkg/filesystem/access"
	"github.com/buildbarn/bb-remote-execution/pkg/filesystem/pool"
	"github.com/buildbarn/bb-remote-execution/pkg/proto/remoteworker"
	runner_pb "github.com/buildbarn/bb-remote-execution/pkg/proto/runner"
	"github.com/buildbarn/bb-storage/pkg/blobstore"
	"github.com/buildbarn/bb-storage/pkg/blobstore/buffer"
	"github.com/buildbarn/bb-storage/pkg/digest"
	"github.com/buildbarn/bb-storage/pkg/filesystem"
	"github.com/buildbarn/bb-storage/pkg/filesystem/path"
	"github.com/buildbarn/bb-storage/pkg/util"

	"google.golang.org/grpc"
	"google.golang.org/grpc/codes"
	"google.golang.org/grpc/status"
	"google.golang.org/protobuf/types/known/durationpb"
	"google.golang.org/protobuf/types/known/emptypb"

	"verifharness/internal/hx"
)

const xEmptySHA256 = "e3b0c44298fc1c149afbf4c8996fb92427ae41e4649b934ca495991b7852b855"

var (
	xDigestFunction = digest.MustNewFunction("", remoteexecution.DigestFunction_SHA256)
	xEmptyDigest    = digest.MustNewDigest("", remoteexecution.DigestFunction_SHA256, xEmptySHA256, 0)
)

// xCAS only serves the Command message.
type xCAS struct{ blobstore.BlobAccess }

func (xCAS) Get(ctx context.Context, d digest.Digest) buffer.Buffer {
	return buffer.NewProtoBufferFromProto(&remoteexecution.Command{Arguments: []string{"cc"}}, buffer.UserProvided)
}

// xBuildDirectory is a build directory in which every operation succeeds; no outputs, no server logs.
type xBuildDirectory struct{ builder.BuildDirectory }

func (d *xBuildDirectory) Close() error                                 { return nil }
func (d *xBuildDirectory) Mkdir(path.Component, os.FileMode) error      { return nil }
func (d *xBuildDirectory) InstallHooks(pool.FilePool, util.ErrorLogger) {}
func (d *xBuildDirectory) ReadDir() ([]filesystem.FileInfo, error)      { return nil, nil }
func (d *xBuildDirectory) EnterBuildDirectory(path.Component) (builder.BuildDirectory, error) {
	return d, nil
}

func (d *xBuildDirectory) EnterParentPopulatableDirectory(path.Component) (builder.ParentPopulatableDirectory, error) {
	return d, nil
}

func (d *xBuildDirectory) EnterUploadableDirectory(path.Component) (builder.UploadableDirectory, error) {
	return d, nil
}

func (d *xBuildDirectory) MergeDirectoryContents(context.Context, util.ErrorLogger, digest.Digest, access.UnreadDirectoryMonitor) error {
	return nil
}

func (d *xBuildDirectory) UploadFile(context.Context, path.Component, digest.Function, <-chan struct{}) (digest.Digest, error) {
	return xEmptyDigest, nil
}

type xBuildDirectoryCreator struct{}

func (xBuildDirectoryCreator) GetBuildDirectory(context.Context, *digest.Digest) (builder.BuildDirectory, *path.Trace, error) {
	return &xBuildDirectory{}, nil, nil
}

// xRunner: the command runs until the harness lets it end (finish) or its context is done.
type xRunner struct {
	fc        *fakeClock
	gate      chan struct{}
	exitCode  int64
	fail      bool
	started   bool
	startedAt int64
	returned  bool
	byCtx     bool
}

func (r *xRunner) CheckReadiness(context.Context, *runner_pb.CheckReadinessRequest, ...grpc.CallOption) (*emptypb.Empty, error) {
	return &emptypb.Empty{}, nil
}

func (r *xRunner) Run(ctx context.Context, in *runner_pb.RunRequest, opts ...grpc.CallOption) (*runner_pb.RunResponse, error) {
	r.started, r.startedAt = true, r.fc.nowTicks()
	defer func() { r.returned = true }()
	select {
	case <-r.gate:
		if r.fail {
			return nil, status.Error(codes.Internal, "runner failure injected by the harness")
		}
		return &runner_pb.RunResponse{ExitCode: r.exitCode}, nil
	case <-ctx.Done():
		r.byCtx = true
		return nil, status.FromContextError(ctx.Err()).Err()
	}
}

type xconfig struct {
	maxS, thr, start, d int64
	rseed               uint64
}

func (c xconfig) String() string {
	return fmt.Sprintf("xcfg %d %d %d %d %d", c.maxS, c.thr, c.start, c.d, c.rseed)
}

func parseXConfig(s string) (xconfig, error) {
	var c xconfig
	var k string
	_, err := fmt.Sscanf(s, "%s %d %d %d %d %d", &k, &c.maxS, &c.thr, &c.start, &c.d, &c.rseed)
	if err == nil && (k != "xcfg" || c.thr < 1 || c.maxS < 0 || c.start < 0 || c.d < 0) {
		err = fmt.Errorf("bad xcfg line %q", s)
	}
	return c, err
}

// xtrace is what one executor case produced.
type xtrace struct {
	tr        *trace // reads, events, problems (reuses the bookkeeping of part 1)
	cfg       xconfig
	t0        int64 // instant at which runner.Run was entered (= creation of the timeout context)
	started   bool
	done      bool
	doneAt    int64
	forced    bool // Execute only returned after the harness cancelled its outer context
	byCtx     bool
	hasFinish bool
	finishAt  int64
	finishPre bool
	exitCode  int64
	fail      bool
	code      codes.Code
	respExit  int32
	hasVirt   bool
	virt      int64
	end       int64
}

func execXCase(t *testing.T, c xconfig, ops []op) *xtrace {
	x := &xtrace{cfg: c, tr: &trace{cfg: config{maxS: c.maxS, thr: c.thr, start: c.start, mul: 1, rseed: c.rseed}}}
	synctest.Test(t, func(t *testing.T) {
		runXBubble(c, ops, x)
	})
	return x
}

func runXBubble(c xconfig, ops []op, x *xtrace) {
	tr := x.tr
	fc := &fakeClock{now: c.start}
	tr.fc = fc
	clk := re_clock.NewSuspendableClock(fc, time.Duration(c.maxS), time.Duration(c.thr))
	rng := hx.NewRand(c.rseed)
	reads := map[int]*readRec{}
	dead := false
	problem := func(s string) { tr.problems = append(tr.problems, s) }
	fireDue := func() {
		for i := 0; !dead && fc.fireOne(rng.Intn); i++ {
			synctest.Wait()
			tr.steps++
			if i > 5000 {
				problem("livelock: base timers keep becoming due at one instant")
				dead = true
			}
		}
	}
	advanceTo := func(target int64) {
		for !dead {
			w, ok := fc.nextDue()
			if !ok || w >= target {
				break
			}
			fc.set(w)
			fireDue()
		}
		fc.set(target)
	}

	runner := &xRunner{fc: fc, gate: make(chan struct{})}
	be := builder.NewLocalBuildExecutor(xCAS{}, xBuildDirectoryCreator{}, runner, clk,
		/* maximumWritableFileUploadDelay = */ time.Duration(1000000),
		/* inputRootCharacterDevices = */ nil,
		/* maximumMessageSizeBytes = */ 10000,
		/* environmentVariables = */ nil,
		/* forceUploadTreesAndDirectories = */ false)
	updates := make(chan *remoteworker.CurrentState_Executing)
	go func() {
		for range updates {
		}
	}()
	outer, cancelOuter := context.WithCancel(context.Background())
	released := false
	defer func() {
		if r := recover(); r != nil {
			problem(fmt.Sprintf("panic: %v", r))
		}
		for _, rd := range tr.reads {
			if !rd.released {
				rd.released = true
				close(rd.gate)
			}
		}
		cancelOuter()
		if !released {
			released = true
			close(runner.gate)
		}
		synctest.Wait()
		close(updates)
		synctest.Wait()
	}()

	go func() {
		defer func() {
			if r := recover(); r != nil {
				problem(fmt.Sprintf("panic in Execute: %v", r))
			}
		}()
		resp := be.Execute(outer, nil, nil, xDigestFunction, &remoteworker.DesiredState_Executing{
			ActionDigest: xEmptyDigest.GetProto(),
			Action: &remoteexecution.Action{
				CommandDigest:   xEmptyDigest.GetProto(),
				InputRootDigest: xEmptyDigest.GetProto(),
				Timeout:         durationpb.New(time.Duration(c.d)),
			},
		}, updates)
		x.doneAt = fc.nowTicks()
		x.code = status.FromProto(resp.GetStatus()).Code()
		x.respExit = resp.GetResult().GetExitCode()
		if v := resp.GetResult().GetExecutionMetadata().GetVirtualExecutionDuration(); v != nil {
			x.hasVirt, x.virt = true, int64(v.AsDuration())
		}
		x.done = true
	}()
	synctest.Wait()
	x.started, x.t0 = runner.started, runner.startedAt

	ended := false
	for i := 0; i < len(ops) && !dead; i++ {
		o := ops[i]
		if ended || o.t < fc.nowTicks() {
			continue
		}
		advanceTo(o.t)
		if !o.pre {
			fireDue()
		}
		if dead {
			break
		}
		now := fc.nowTicks()
		switch o.kind {
		case "read":
			if _, dup := reads[o.id]; dup {
				continue
			}
			rd := &readRec{id: o.id, kind: int(o.a) % nReadKinds, s: now, r: -1, gate: make(chan struct{})}
			reads[o.id] = rd
			tr.reads = append(tr.reads, rd)
			tr.events = append(tr.events, event{now, true})
			go startRead(clk, rd)
		case "done":
			rd := reads[o.id]
			if rd == nil || rd.released {
				continue
			}
			rd.released = true
			rd.r = now
			tr.events = append(tr.events, event{now, false})
			close(rd.gate)
		case "finish":
			if released || x.hasFinish {
				continue
			}
			x.hasFinish, x.finishAt, x.finishPre = true, now, o.pre
			x.exitCode, x.fail = o.a, o.b == 1
			runner.exitCode, runner.fail = o.a, o.b == 1
			released = true
			close(runner.gate)
		case "end":
			ended = true
		default:
			continue
		}
		synctest.Wait()
		tr.steps++
	}
	if !dead {
		fireDue()
	}
	x.end = fc.nowTicks()
	x.byCtx = runner.byCtx
	if !x.done {
		x.forced = true
	}
	for _, rd := range tr.reads {
		if rd.problem != "" {
			problem(rd.problem)
		}
	}
}

func outcomeName(x *xtrace) string {
	switch {
	case x.byCtx || !x.hasFinish:
		return "killed"
	case x.fail:
		return "runner-error"
	case x.exitCode == 0:
		return "exit-0"
	}
	return "exit-nonzero"
}

// monitor judges the property text on the implementation's observables alone.
func (x *xtrace) monitor() string {
	if len(x.tr.problems) > 0 {
		return x.tr.problems[0]
	}
	c := x.cfg
	if !x.started {
		return "executor: runner.Run was never called"
	}
	name := fmt.Sprintf("action (command started at %d, timeout %d, outcome %s)", x.t0, c.d, outcomeName(x))
	wall := x.t0 + c.d + c.maxS
	if x.forced {
		if x.end >= wall {
			return fmt.Sprintf("%s: the command is still running at %d, past timeout + maximum compensation = %d", name, x.end, wall)
		}
		if u := x.tr.unsusp(x.t0, x.end); u >= c.d {
			return fmt.Sprintf("%s: the command is still running at %d although it has run for %d >= timeout while the worker was not stalled", name, x.end, u)
		}
		return ""
	}
	T := x.doneAt
	u := x.tr.unsusp(x.t0, T)
	if T > wall {
		return fmt.Sprintf("%s: the run stage ended at %d, later than timeout + maximum compensation = %d", name, T, wall)
	}
	if x.byCtx {
		if x.code != codes.DeadlineExceeded {
			return fmt.Sprintf("%s: the command was killed by the timeout at %d but the action is reported with status %s, not DEADLINE_EXCEEDED", name, T, x.code)
		}
		if u > c.d {
			return fmt.Sprintf("%s: killed only at %d after %d of unsuspended time, more than its timeout", name, T, u)
		}
		if u+c.thr <= c.d && T != wall {
			return fmt.Sprintf("%s: killed early at %d: it had run for only %d while the worker was not stalled (threshold %d, wall bound %d not reached)", name, T, u, c.thr, wall)
		}
	} else {
		if x.code == codes.DeadlineExceeded {
			return fmt.Sprintf("%s: the command ended by itself at %d but the action is reported as DEADLINE_EXCEEDED", name, T)
		}
		if x.fail && x.code != codes.Internal || !x.fail && (x.code != codes.OK || int64(x.respExit) != x.exitCode) {
			return fmt.Sprintf("%s: reported status %s exit code %d, the runner returned exit code %d (failed=%v)", name, x.code, x.respExit, x.exitCode, x.fail)
		}
	}
	if x.hasFinish && !x.byCtx && T != x.finishAt {
		return fmt.Sprintf("%s: the command ended at %d but the run stage ended at %d", name, x.finishAt, T)
	}
	if x.hasFinish && x.byCtx && x.finishAt < wall && x.tr.unsusp(x.t0, x.finishAt)+c.thr <= c.d && T >= x.finishAt {
		return fmt.Sprintf("%s: the command ended at %d within its unsuspended budget but was killed by the timeout", name, x.finishAt)
	}
	if !x.hasVirt {
		return fmt.Sprintf("%s: no virtual execution duration is reported; the command ran for %d while the worker was not stalled on storage (run stage %d..%d)", name, u, x.t0, T)
	}
	if x.virt != u {
		return fmt.Sprintf("%s: reported virtual execution duration %d, but the command ran for %d while the worker was not stalled on storage (run stage %d..%d)", name, x.virt, u, x.t0, T)
	}
	return ""
}

// compare asks Model/SusClock.lean (execRun) for the same case.
func (x *xtrace) compare(drv *hx.Driver) (line, exp, act string) {
	ask := func(l string) string {
		s, err := drv.Ask(l)
		if err != nil {
			return "driver-error " + err.Error()
		}
		return s
	}
	if s := ask(fmt.Sprintf("cfg %d %d", x.cfg.maxS, x.cfg.thr)); s != "ok" {
		return "cfg", "ok", s
	}
	for _, e := range x.tr.events {
		k := "r"
		if e.suspend {
			k = "s"
		}
		if s := ask(fmt.Sprintf("%s %d", k, e.t)); !strings.HasPrefix(s, "ok ") {
			return fmt.Sprintf("%s %d", k, e.t), "ok …", s
		}
	}
	line = fmt.Sprintf("exec %d %d", x.t0, x.cfg.d)
	if x.hasFinish {
		p, k := 0, 0
		if x.finishPre {
			p = 1
		}
		if x.fail {
			k = 1
		}
		line += fmt.Sprintf(" %d %d %d %d", x.finishAt, p, k, x.exitCode)
	}
	exp = ask(line)
	if x.forced {
		// the history ended before the model's completion instant?
		f := strings.Fields(exp)
		if len(f) == 4 {
			if inst, _ := strconv.ParseInt(f[3], 10, 64); inst > x.end {
				return "", "", ""
			}
		}
		return line, exp, "still running at the end of the history"
	}
	st := map[codes.Code]string{codes.OK: "ok", codes.DeadlineExceeded: "deadline", codes.Internal: "runner-error"}[x.code]
	if st == "" {
		st = "code-" + x.code.String()
	}
	ex := "-"
	if st == "ok" {
		ex = strconv.FormatInt(int64(x.respExit), 10)
	}
	v := "none"
	if x.hasVirt {
		v = strconv.FormatInt(x.virt, 10)
	}
	act = fmt.Sprintf("%s %s %s %d", st, ex, v, x.doneAt)
	if act != exp {
		return line, exp, act
	}
	return "", "", ""
}

func genXCase(r *hx.Rand, drv *hx.Driver) (xconfig, []op) {
	c := xconfig{
		maxS:  []int64{0, 1, 2, 3, 5, 8, 13, 21, 40, 40}[r.Intn(10)],
		thr:   []int64{1, 1, 2, 3, 5, 8}[r.Intn(6)],
		start: int64(r.Intn(20)),
		rseed: r.Uint64() % 1000000,
	}
	c.d = []int64{0, 1, c.thr, c.thr + 1, int64(r.Intn(10)), int64(r.Intn(40)), int64(r.Intn(40))}[r.Intn(7)]
	var ops []op
	add := func(o op) {
		o.seq = len(ops)
		ops = append(ops, o)
	}
	wall := c.start + c.d + c.maxS
	span := int(c.d+c.maxS) + 10
	type iv struct{ s, r int64 }
	var reads []iv
	for i, n := 0, r.Intn(7); i < n; i++ {
		s := c.start + int64(r.Intn(span))
		if r.Chance(1, 4) && c.start > 0 {
			s = int64(r.Intn(int(c.start) + 1)) // already stalled when the command starts
		}
		l := []int64{0, 1, 2, int64(r.Intn(10)), int64(r.Intn(span))}[r.Intn(5)]
		reads = append(reads, iv{s, s + l})
	}
	if r.Chance(1, 3) { // stall across the first expiry
		e := c.start + c.d
		s := e - int64(r.Intn(5))
		if s < c.start {
			s = c.start
		}
		reads = append(reads, iv{s, e + int64(r.Intn(int(c.maxS)+3))})
	}
	for i, v := range reads {
		if v.s < c.start {
			// a read that began before the history: start it at the first instant
			v.s = c.start
			if v.r < v.s {
				v.r = v.s
			}
		}
		pre := r.Chance(1, 2)
		add(op{t: v.s, pre: pre, kind: "read", id: i, a: int64(r.Intn(nReadKinds))})
		if r.Chance(9, 10) {
			dpre := r.Chance(1, 2)
			if v.r == v.s && !pre {
				dpre = false
			}
			add(op{t: v.r, pre: dpre, kind: "done", id: i})
		}
	}
	if r.Chance(2, 3) {
		var tf int64
		switch r.Intn(4) {
		case 0:
			tf = c.start + int64(r.Intn(span))
		case 1:
			tf = c.start + int64(r.Intn(int(c.d)+1))
		default:
			// aim at the instant at which the model kills the command (tie), or next to it
			drv.Ask(fmt.Sprintf("cfg %d %d", c.maxS, c.thr))
			tl := append([]op(nil), ops...)
			normalise(tl)
			for _, o := range tl {
				k := "r"
				if o.kind == "read" {
					k = "s"
				}
				drv.Ask(fmt.Sprintf("%s %d", k, o.t))
			}
			tf = wall
			if ans, err := drv.Ask(fmt.Sprintf("exec %d %d", c.start, c.d)); err == nil {
				if f := strings.Fields(ans); len(f) == 4 {
					tf, _ = strconv.ParseInt(f[3], 10, 64)
				}
			}
			tf += int64(r.Intn(3)) - 1
		}
		if tf < c.start {
			tf = c.start
		}
		o := op{t: tf, pre: r.Chance(1, 2), kind: "finish"}
		switch r.Intn(3) {
		case 0:
		case 1:
			o.a = 1 + int64(r.Intn(100))
		case 2:
			o.b = 1
		}
		add(o)
	}
	add(op{t: wall + 1 + int64(r.Intn(5)), kind: "end"})
	normalise(ops)
	return c, ops
}

type xverdict struct {
	monitor, line, exp, act string
	x                       *xtrace
}

func evaluateX(t *testing.T, c xconfig, ops []op, drv *hx.Driver) xverdict {
	x := execXCase(t, c, ops)
	v := xverdict{x: x, monitor: x.monitor()}
	if v.monitor == "" {
		v.line, v.exp, v.act = x.compare(drv)
	}
	return v
}

func reportX(t *testing.T, res *hx.Result, drv *hx.Driver, c xconfig, ops []op, v xverdict) {
	wantMonitor := v.monitor != ""
	fails := func(cand []string) bool {
		w := evaluateX(t, c, parseOps(cand), drv)
		if wantMonitor {
			return w.monitor != ""
		}
		return w.monitor == "" && w.line != ""
	}
	min := hx.Shrink(strs(ops), fails)
	w := evaluateX(t, c, parseOps(min), drv)
	hist := append([]string{c.String()}, min...)
	f := hx.Finding{Property: prop, History: hist}
	if w.monitor != "" {
		f.Kind, f.What = "violation", w.monitor
		f.Name = "C11 part 3: executor reports DEADLINE_EXCEEDED iff the command was killed by the timeout, and virtual_execution_duration = unsuspended run time in every outcome"
	} else {
		f.Kind, f.What = "mismatch", "model (execRun) and localBuildExecutor.Execute disagree on: "+w.line
		f.Name = "correspondence Model/SusClock.lean execRun <-> pkg/builder/local_build_executor.go (theorems C11.exec_virtual_duration, exec_deadline, exec_in_budget)"
		f.Expected, f.Actual = w.exp, w.act
	}
	f.Sig = hx.Sig(prop, "susclock-exec", strings.Join(hist, ";"))
	res.Report(f)
}

// runExecutor runs the executor cases; false when a property violation was found.
func runExecutor(t *testing.T, res *hx.Result, drv *hx.Driver, r *hx.Rand, o hx.Opts) bool {
	n := 2500 * o.Scale
	if o.Tier == "thorough" {
		n = 15000 * o.Scale
	}
	mismatches := 0
	for i := 0; i < n; i++ {
		c, ops := genXCase(r, drv)
		v := evaluateX(t, c, ops, drv)
		res.Evaluations += v.x.tr.steps + 1
		res.TracesVsImpl++
		res.Count("exec-" + outcomeName(v.x))
		if len(v.x.tr.reads) > 0 && v.x.done && v.x.tr.unsusp(v.x.t0, v.x.doneAt) < v.x.doneAt-v.x.t0 {
			res.Count("exec-stalled-while-running-" + outcomeName(v.x))
		}
		if v.monitor != "" {
			reportX(t, res, drv, c, ops, v)
			return false
		}
		if v.line != "" {
			if mismatches == 0 {
				reportX(t, res, drv, c, ops, v)
			}
			mismatches++
		}
	}
	return mismatches == 0
}

func replayExecutor(t *testing.T, res *hx.Result, drv *hx.Driver, hist []string) {
	c, err := parseXConfig(hist[0])
	if err != nil {
		fmt.Fprintln(os.Stderr, err)
		os.Exit(3)
	}
	ops := parseOps(hist[1:])
	v := evaluateX(t, c, ops, drv)
	res.Evaluations = v.x.tr.steps + 1
	if v.monitor != "" || v.line != "" {
		reportX(t, res, drv, c, ops, v)
	}
}
