// Package susclock is the correspondence harness of property C11 (execution
// timeouts fire, compensated but bounded). It is written as a test
// (harness_test.go) because it needs testing/synctest to drive the goroutines
// inside pkg/clock.SuspendableClock one wake-up at a time.
package susclock
