package susclock

import (
	"context"
	"sync"
	"time"

	"github.com/buildbarn/bb-storage/pkg/clock"
)

// fakeClock is the base clock.Clock under the SuspendableClock. Time is an
// integer number of nanoseconds that only the harness moves; timers and
// context deadlines are delivered only when the harness says so (fireOne), one
// at a time, so that every wake-up of a goroutine inside the SuspendableClock
// is a separate, ordered event.
//
// A timer that becomes due at its stamp T may be delivered late (lateFn): the
// value T sits in the channel - in reality: the goroutine is waiting for
// c.lock or is not scheduled - while the harness goes on executing
// suspend/resume/cancel operations and advancing time; only at T+late the
// goroutine receives the (stale) value T. The same holds for deadlines of
// base contexts.
//
// Every base timer / base context is attributed to the SuspendableClock
// context or timer ("owner") on whose behalf it was created: the harness sets
// owner before it calls into the clock, and fireOne sets it to the owner of the
// item it delivers (only that owner's goroutine runs until the next
// synctest.Wait).
type fakeClock struct {
	mu     sync.Mutex
	now    int64
	timers []*fakeTimer
	ctxs   []*fakeCtx

	owner   string
	owners  map[string]*ownerRec
	lateFn  func() int64 // lateness of the next base timer / deadline
	posFn   func() int   // number of Suspend/Resume calls issued so far
	gaps    []*fakeTimer // every loop timer ever created (for the monitor)
	orphans int

	timersCreated int
}

// delivery is one expiry of a loop timer of an owner.
type delivery struct {
	stamp, late int64
	delivered   bool
	at          int64
	pos         int
}

type ownerRec struct {
	dlSet       bool
	dlStamp     int64 // deadline of the base context / stamp of maximumSuspensionTimer
	dlLate      int64
	dlDelivered bool
	dlPre       bool // deadline delivered while a loop timer was due for delivery at the same instant
	deliveries  []*delivery
}

type fakeTimer struct {
	c         *fakeClock
	owner     string
	expiry    int64 // stamp
	deliverAt int64
	ch        chan time.Time
	stopped   bool
	fired     bool
	endAt     int64 // delivery or Stop instant, -1 while pending
	deadline  bool  // maximumSuspensionTimer of a SuspendableClock timer
	dv        *delivery
}

func (t *fakeTimer) Stop() bool {
	t.c.mu.Lock()
	defer t.c.mu.Unlock()
	if t.fired || t.stopped {
		return false
	}
	t.stopped = true
	t.endAt = t.c.now
	return true
}

type fakeCtx struct {
	c         *fakeClock
	owner     string
	parent    context.Context
	deadline  int64
	deliverAt int64
	done      chan struct{}
	err       error
}

func (x *fakeCtx) Deadline() (time.Time, bool) { return time.Unix(0, x.deadline), true }
func (x *fakeCtx) Done() <-chan struct{}       { return x.done }
func (x *fakeCtx) Value(key any) any           { return x.parent.Value(key) }
func (x *fakeCtx) Err() error {
	x.c.mu.Lock()
	defer x.c.mu.Unlock()
	return x.err
}

func (x *fakeCtx) finish(err error) {
	x.c.mu.Lock()
	defer x.c.mu.Unlock()
	if x.err == nil {
		x.err = err
		close(x.done)
	}
}

func (c *fakeClock) Now() time.Time {
	c.mu.Lock()
	defer c.mu.Unlock()
	return time.Unix(0, c.now)
}

func (c *fakeClock) nowTicks() int64 {
	c.mu.Lock()
	defer c.mu.Unlock()
	return c.now
}

func (c *fakeClock) setOwner(o string) {
	c.mu.Lock()
	c.owner = o
	c.mu.Unlock()
}

// rec returns the record of the current owner (mu held).
func (c *fakeClock) rec() *ownerRec {
	if c.owners == nil {
		c.owners = map[string]*ownerRec{}
	}
	r := c.owners[c.owner]
	if r == nil {
		r = &ownerRec{}
		c.owners[c.owner] = r
	}
	return r
}

func (c *fakeClock) late() int64 {
	if c.lateFn == nil {
		return 0
	}
	return c.lateFn()
}

func (c *fakeClock) NewTimer(d time.Duration) (clock.Timer, <-chan time.Time) {
	c.mu.Lock()
	defer c.mu.Unlock()
	t := &fakeTimer{c: c, owner: c.owner, expiry: c.now + int64(d), ch: make(chan time.Time, 1), endAt: -1}
	late := c.late()
	t.deliverAt = t.expiry + late
	if c.owner == "" {
		c.orphans++
	} else {
		r := c.rec()
		if c.owner[0] == 't' && !r.dlSet {
			// first base timer of a SuspendableClock timer: maximumSuspensionTimer
			t.deadline = true
			r.dlSet, r.dlStamp, r.dlLate = true, t.expiry, late
		} else {
			t.dv = &delivery{stamp: t.expiry, late: late}
			r.deliveries = append(r.deliveries, t.dv)
			c.gaps = append(c.gaps, t)
		}
	}
	c.timers = append(c.timers, t)
	c.timersCreated++
	return t, t.ch
}

func (c *fakeClock) NewContextWithTimeout(parent context.Context, d time.Duration) (context.Context, context.CancelFunc) {
	c.mu.Lock()
	x := &fakeCtx{c: c, owner: c.owner, parent: parent, deadline: c.now + int64(d), done: make(chan struct{})}
	late := c.late()
	x.deliverAt = x.deadline + late
	if c.owner == "" {
		c.orphans++
	} else {
		r := c.rec()
		r.dlSet, r.dlStamp, r.dlLate = true, x.deadline, late
	}
	c.ctxs = append(c.ctxs, x)
	c.mu.Unlock()
	if parent.Done() != nil {
		if err := parent.Err(); err != nil {
			x.finish(err)
		} else {
			context.AfterFunc(parent, func() { x.finish(parent.Err()) })
		}
	}
	return x, func() { x.finish(context.Canceled) }
}

func (c *fakeClock) NewTicker(d time.Duration) (clock.Ticker, <-chan time.Time) {
	panic("fakeClock.NewTicker is not used by C11")
}

// nextDue returns the earliest instant at which something is to be delivered.
func (c *fakeClock) nextDue() (int64, bool) {
	c.mu.Lock()
	defer c.mu.Unlock()
	var best int64
	ok := false
	for _, t := range c.timers {
		if !t.stopped && !t.fired && (!ok || t.deliverAt < best) {
			best, ok = t.deliverAt, true
		}
	}
	for _, x := range c.ctxs {
		if x.err == nil && (!ok || x.deliverAt < best) {
			best, ok = x.deliverAt, true
		}
	}
	return best, ok
}

// pendingTie reports whether owner has a loop timer waiting for delivery at the current instant (mu held).
func (c *fakeClock) pendingTie(owner string) bool {
	for _, t := range c.timers {
		if t.owner == owner && !t.deadline && !t.stopped && !t.fired && t.deliverAt <= c.now {
			return true
		}
	}
	return false
}

// fireOne delivers one timer expiry or context deadline that is to be delivered
// at the current instant, chosen by pick among them; false if there is none.
func (c *fakeClock) fireOne(pick func(n int) int) bool {
	c.mu.Lock()
	var dueT []*fakeTimer
	var dueC []*fakeCtx
	keep := c.timers[:0]
	for _, t := range c.timers {
		if t.stopped || t.fired {
			continue
		}
		keep = append(keep, t)
		if t.deliverAt <= c.now {
			dueT = append(dueT, t)
		}
	}
	c.timers = keep
	keepC := c.ctxs[:0]
	for _, x := range c.ctxs {
		if x.err != nil {
			continue
		}
		keepC = append(keepC, x)
		if x.deliverAt <= c.now {
			dueC = append(dueC, x)
		}
	}
	c.ctxs = keepC
	n := len(dueT) + len(dueC)
	if n == 0 {
		c.mu.Unlock()
		return false
	}
	i := pick(n)
	if i < len(dueT) {
		t := dueT[i]
		t.fired = true
		t.endAt = c.now
		c.owner = t.owner
		if t.deadline {
			if r := c.owners[t.owner]; r != nil {
				r.dlDelivered, r.dlPre = true, c.pendingTie(t.owner)
			}
		} else if t.dv != nil {
			t.dv.delivered, t.dv.at = true, c.now
			if c.posFn != nil {
				t.dv.pos = c.posFn()
			}
		}
		c.mu.Unlock()
		t.ch <- time.Unix(0, t.expiry)
		return true
	}
	x := dueC[i-len(dueT)]
	c.owner = x.owner
	if r := c.owners[x.owner]; r != nil {
		r.dlDelivered, r.dlPre = true, c.pendingTie(x.owner)
	}
	c.mu.Unlock()
	x.finish(context.DeadlineExceeded)
	return true
}

func (c *fakeClock) set(t int64) {
	c.mu.Lock()
	defer c.mu.Unlock()
	if t > c.now {
		c.now = t
	}
}
