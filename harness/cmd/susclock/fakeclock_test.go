package susclock

import (
	"context"
	"sync"
	"time"

	"github.com/buildbarn/bb-storage/pkg/clock"
)

// fakeClock is the base clock.Clock under the SuspendableClock. Time is an
// integer number of nanoseconds that only the harness moves; timers and
// context deadlines are delivered only when the harness says so (fireOne), one
// at a time, so that every wake-up of a goroutine inside the SuspendableClock
// is a separate, ordered event.
type fakeClock struct {
	mu     sync.Mutex
	now    int64
	timers []*fakeTimer
	ctxs   []*fakeCtx

	timersCreated int
}

type fakeTimer struct {
	c       *fakeClock
	expiry  int64
	ch      chan time.Time
	stopped bool
	fired   bool
}

func (t *fakeTimer) Stop() bool {
	t.c.mu.Lock()
	defer t.c.mu.Unlock()
	if t.fired || t.stopped {
		return false
	}
	t.stopped = true
	return true
}

type fakeCtx struct {
	c        *fakeClock
	parent   context.Context
	deadline int64
	done     chan struct{}
	err      error
}

func (x *fakeCtx) Deadline() (time.Time, bool) { return time.Unix(0, x.deadline), true }
func (x *fakeCtx) Done() <-chan struct{}       { return x.done }
func (x *fakeCtx) Value(key any) any           { return x.parent.Value(key) }
func (x *fakeCtx) Err() error {
	x.c.mu.Lock()
	defer x.c.mu.Unlock()
	return x.err
}

func (x *fakeCtx) finish(err error) {
	x.c.mu.Lock()
	defer x.c.mu.Unlock()
	if x.err == nil {
		x.err = err
		close(x.done)
	}
}

func (c *fakeClock) Now() time.Time {
	c.mu.Lock()
	defer c.mu.Unlock()
	return time.Unix(0, c.now)
}

func (c *fakeClock) nowTicks() int64 {
	c.mu.Lock()
	defer c.mu.Unlock()
	return c.now
}

func (c *fakeClock) NewTimer(d time.Duration) (clock.Timer, <-chan time.Time) {
	c.mu.Lock()
	defer c.mu.Unlock()
	t := &fakeTimer{c: c, expiry: c.now + int64(d), ch: make(chan time.Time, 1)}
	c.timers = append(c.timers, t)
	c.timersCreated++
	return t, t.ch
}

func (c *fakeClock) NewContextWithTimeout(parent context.Context, d time.Duration) (context.Context, context.CancelFunc) {
	c.mu.Lock()
	x := &fakeCtx{c: c, parent: parent, deadline: c.now + int64(d), done: make(chan struct{})}
	c.ctxs = append(c.ctxs, x)
	c.mu.Unlock()
	if parent.Done() != nil {
		if err := parent.Err(); err != nil {
			x.finish(err)
		} else {
			context.AfterFunc(parent, func() { x.finish(parent.Err()) })
		}
	}
	return x, func() { x.finish(context.Canceled) }
}

func (c *fakeClock) NewTicker(d time.Duration) (clock.Ticker, <-chan time.Time) {
	panic("fakeClock.NewTicker is not used by C11")
}

// nextDue returns the earliest instant at which something is pending.
func (c *fakeClock) nextDue() (int64, bool) {
	c.mu.Lock()
	defer c.mu.Unlock()
	var best int64
	ok := false
	for _, t := range c.timers {
		if !t.stopped && !t.fired && (!ok || t.expiry < best) {
			best, ok = t.expiry, true
		}
	}
	for _, x := range c.ctxs {
		if x.err == nil && (!ok || x.deadline < best) {
			best, ok = x.deadline, true
		}
	}
	return best, ok
}

// fireOne delivers one timer expiry or context deadline that is due at the
// current instant, chosen by pick among the due ones; false if nothing is due.
func (c *fakeClock) fireOne(pick func(n int) int) bool {
	c.mu.Lock()
	var dueT []*fakeTimer
	var dueC []*fakeCtx
	keep := c.timers[:0]
	for _, t := range c.timers {
		if t.stopped || t.fired {
			continue
		}
		keep = append(keep, t)
		if t.expiry <= c.now {
			dueT = append(dueT, t)
		}
	}
	c.timers = keep
	keepC := c.ctxs[:0]
	for _, x := range c.ctxs {
		if x.err != nil {
			continue
		}
		keepC = append(keepC, x)
		if x.deadline <= c.now {
			dueC = append(dueC, x)
		}
	}
	c.ctxs = keepC
	n := len(dueT) + len(dueC)
	if n == 0 {
		c.mu.Unlock()
		return false
	}
	i := pick(n)
	if i < len(dueT) {
		t := dueT[i]
		t.fired = true
		c.mu.Unlock()
		t.ch <- time.Unix(0, t.expiry)
		return true
	}
	x := dueC[i-len(dueT)]
	c.mu.Unlock()
	x.finish(context.DeadlineExceeded)
	return true
}

func (c *fakeClock) set(t int64) {
	c.mu.Lock()
	defer c.mu.Unlock()
	if t > c.now {
		c.now = t
	}
}
