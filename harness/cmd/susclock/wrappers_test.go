package susclock

// Part 2 of the C11 harness: NewSuspendingBlobAccess and
// NewSuspendingDirectoryFetcher must suspend before and resume after every call
// exactly once - for Get/GetFromComposite the resume happens when the returned
// buffer is finalised (consumed, failed or discarded), so that the time spent
// streaming the blob is excluded as well.

import (
	"bytes"
	"context"
	"crypto/sha256"
	"encoding/hex"
	"errors"
	"fmt"
	"io"
	"strings"

	remoteexecution "github.com/bazelbuild/remote-apis/build/bazel/remote/execution/v2"
	re_blobstore "github.com/buildbarn/bb-remote-execution/pkg/blobstore"
	"github.com/buildbarn/bb-remote-execution/pkg/cas"
	"github.com/buildbarn/bb-storage/pkg/blobstore/buffer"
	"github.com/buildbarn/bb-storage/pkg/blobstore/slicing"
	"github.com/buildbarn/bb-storage/pkg/digest"

	"verifharness/internal/hx"
)

const helloData = "Hello, suspended world"

var (
	helloDigest = func() digest.Digest {
		h := sha256.Sum256([]byte(helloData))
		return digest.MustNewDigest("inst", remoteexecution.DigestFunction_SHA256, hex.EncodeToString(h[:]), int64(len(helloData)))
	}()
	errBoom = errors.New("storage failure injected by the harness")
)

type failingReader struct{ n int }

func (r *failingReader) Read(p []byte) (int, error) {
	if r.n > 0 && len(p) > 0 {
		r.n--
		p[0] = helloData[0]
		return 1, nil
	}
	return 0, errBoom
}
func (r *failingReader) Close() error { return nil }

// gatedStorage is the fake base BlobAccess / DirectoryFetcher. gate (optional)
// blocks every call until the harness releases it; probe (optional) observes
// the instrumented Suspendable from inside the base call.
type gatedStorage struct {
	gate  chan struct{}
	mode  string // Get: slice | error | reader | reader-err
	fail  bool
	probe *countingSuspendable
	calls int
	inner int // depth of the suspendable seen inside the base call
}

func (g *gatedStorage) enter() {
	g.calls++
	if g.probe != nil {
		g.inner = g.probe.depth
	}
	if g.gate != nil {
		<-g.gate
	}
}

func (g *gatedStorage) buf() buffer.Buffer {
	switch g.mode {
	case "error":
		return buffer.NewBufferFromError(errBoom)
	case "reader":
		return buffer.NewCASBufferFromReader(helloDigest, io.NopCloser(bytes.NewReader([]byte(helloData))), buffer.UserProvided)
	case "reader-err":
		return buffer.NewCASBufferFromReader(helloDigest, &failingReader{n: 3}, buffer.UserProvided)
	}
	return buffer.NewValidatedBufferFromByteSlice([]byte(helloData))
}

func (g *gatedStorage) err() error {
	if g.fail {
		return errBoom
	}
	return nil
}

func (g *gatedStorage) Get(ctx context.Context, d digest.Digest) buffer.Buffer {
	g.enter()
	return g.buf()
}

func (g *gatedStorage) GetFromComposite(ctx context.Context, p, c digest.Digest, s slicing.BlobSlicer) buffer.Buffer {
	g.enter()
	return g.buf()
}

func (g *gatedStorage) Put(ctx context.Context, d digest.Digest, b buffer.Buffer) error {
	g.enter()
	if b != nil {
		b.Discard()
	}
	return g.err()
}

func (g *gatedStorage) FindMissing(ctx context.Context, s digest.Set) (digest.Set, error) {
	g.enter()
	return s, g.err()
}

var someCapabilities = &remoteexecution.ServerCapabilities{}

func (g *gatedStorage) GetCapabilities(ctx context.Context, i digest.InstanceName) (*remoteexecution.ServerCapabilities, error) {
	g.enter()
	if g.fail {
		return nil, errBoom
	}
	return someCapabilities, nil
}

var someDirectory = &remoteexecution.Directory{}

func (g *gatedStorage) dir() (*remoteexecution.Directory, error) {
	g.enter()
	if g.fail {
		return nil, errBoom
	}
	return someDirectory, nil
}

func (g *gatedStorage) GetDirectory(ctx context.Context, d digest.Digest) (*remoteexecution.Directory, error) {
	return g.dir()
}

func (g *gatedStorage) GetTreeRootDirectory(ctx context.Context, d digest.Digest) (*remoteexecution.Directory, error) {
	return g.dir()
}

func (g *gatedStorage) GetTreeChildDirectory(ctx context.Context, t, c digest.Digest) (*remoteexecution.Directory, error) {
	return g.dir()
}

type countingSuspendable struct {
	suspends, resumes, depth int
	bad                      string
}

func (s *countingSuspendable) Suspend() { s.suspends++; s.depth++ }
func (s *countingSuspendable) Resume() {
	if s.depth == 0 {
		s.bad = "Resume() without a Suspend() outstanding"
		return
	}
	s.resumes++
	s.depth--
}

var (
	getModes   = []string{"slice", "error", "reader", "reader-err"}
	consumers  = []string{"tobyteslice", "discard", "toreader-close", "toreader-readall", "tochunkreader", "intowriter", "readat", "toproto", "clonecopy", "sizethendiscard"}
	plainCalls = []string{"put", "findmissing", "getcapabilities", "getdirectory", "gettreerootdirectory", "gettreechilddirectory"}
)

func consume(b buffer.Buffer, how string) {
	switch how {
	case "tobyteslice":
		b.ToByteSlice(1000)
	case "discard":
		b.Discard()
	case "toreader-close":
		b.ToReader().Close()
	case "toreader-readall":
		r := b.ToReader()
		io.ReadAll(r)
		r.Close()
	case "tochunkreader":
		r := b.ToChunkReader(0, 5)
		for {
			if _, err := r.Read(); err != nil {
				break
			}
		}
		r.Close()
	case "intowriter":
		b.IntoWriter(io.Discard)
	case "readat":
		var p [4]byte
		b.ReadAt(p[:], 2)
	case "toproto":
		b.ToProto(&remoteexecution.Directory{}, 1000)
	case "clonecopy":
		b1, b2 := b.CloneCopy(1000)
		b1.Discard()
		b2.ToByteSlice(1000)
	case "sizethendiscard":
		b.GetSizeBytes()
		b.Discard()
	}
}

// runWrapperPath executes one call path; returns a description of what is wrong, or "".
func runWrapperPath(method, mode, how string) (bad string) {
	defer func() {
		if r := recover(); r != nil {
			bad = fmt.Sprintf("panic: %v", r)
		}
	}()
	ctx := context.Background()
	s := &countingSuspendable{}
	g := &gatedStorage{mode: mode, fail: mode == "fail", probe: s}
	ba := re_blobstore.NewSuspendingBlobAccess(g, s)
	df := cas.NewSuspendingDirectoryFetcher(g, s)
	var err error
	passthrough := true
	switch method {
	case "get", "getfromcomposite":
		var b buffer.Buffer
		if method == "get" {
			b = ba.Get(ctx, helloDigest)
		} else {
			b = ba.GetFromComposite(ctx, helloDigest, helloDigest, nil)
		}
		if s.suspends != 1 {
			return fmt.Sprintf("after %s returned: %d Suspend() calls, want 1", method, s.suspends)
		}
		if strings.HasPrefix(mode, "reader") && s.depth != 1 {
			return fmt.Sprintf("%s returned a buffer that still has to be streamed, but the clock is not suspended any more (depth %d)", method, s.depth)
		}
		consume(b, how)
	case "put":
		err = ba.Put(ctx, helloDigest, buffer.NewValidatedBufferFromByteSlice([]byte(helloData)))
	case "findmissing":
		var out digest.Set
		in := helloDigest.ToSingletonSet()
		out, err = ba.FindMissing(ctx, in)
		passthrough = out.Length() == 1
	case "getcapabilities":
		var c *remoteexecution.ServerCapabilities
		c, err = ba.GetCapabilities(ctx, helloDigest.GetInstanceName())
		passthrough = (c == someCapabilities) == (mode != "fail")
	case "getdirectory", "gettreerootdirectory", "gettreechilddirectory":
		var d *remoteexecution.Directory
		switch method {
		case "getdirectory":
			d, err = df.GetDirectory(ctx, helloDigest)
		case "gettreerootdirectory":
			d, err = df.GetTreeRootDirectory(ctx, helloDigest)
		default:
			d, err = df.GetTreeChildDirectory(ctx, helloDigest, helloDigest)
		}
		passthrough = (d == someDirectory) == (mode != "fail")
	default:
		return "unknown method " + method
	}
	if s.bad != "" {
		return s.bad
	}
	if g.calls != 1 {
		return fmt.Sprintf("base called %d times, want 1", g.calls)
	}
	if g.inner != 1 {
		return fmt.Sprintf("the base call ran with %d suspensions outstanding, want 1", g.inner)
	}
	if s.suspends != 1 || s.resumes != 1 {
		return fmt.Sprintf("%d Suspend() and %d Resume() calls after the call was finished, want 1 and 1 (the clock stays suspended / is resumed twice)", s.suspends, s.resumes)
	}
	if method != "get" && method != "getfromcomposite" {
		if (err != nil) != (mode == "fail") || (err != nil && err != errBoom) || !passthrough {
			return fmt.Sprintf("result of the base call was not passed through (err=%v)", err)
		}
	}
	return ""
}

func wrapperFinding(res *hx.Result, line, bad string) {
	res.Report(hx.Finding{
		Kind: "violation", Property: prop, History: []string{line},
		What: "suspending decorator, call path [" + line + "]: " + bad,
		Name: "C11 part 2: every storage call suspends and resumes the clock exactly once",
		Sig:  hx.Sig(prop, "susclock-wrap", line),
	})
}

func allWrapperPaths() [][3]string {
	var out [][3]string
	for _, m := range []string{"get", "getfromcomposite"} {
		for _, mode := range getModes {
			for _, how := range consumers {
				out = append(out, [3]string{m, mode, how})
			}
		}
	}
	for _, m := range plainCalls {
		out = append(out, [3]string{m, "ok", "-"}, [3]string{m, "fail", "-"})
	}
	return out
}

// runWrappers checks every call path once, then random nestings of streamed reads.
func runWrappers(res *hx.Result, r *hx.Rand, o hx.Opts) {
	for _, p := range allWrapperPaths() {
		line := fmt.Sprintf("wrap %s %s %s", p[0], p[1], p[2])
		res.Evaluations++
		res.Count("wrap-" + p[0])
		if bad := runWrapperPath(p[0], p[1], p[2]); bad != "" {
			wrapperFinding(res, line, bad)
			return
		}
	}
	rounds := 200
	if o.Tier == "thorough" {
		rounds = 2000
	}
	for i := 0; i < rounds; i++ {
		// several streamed reads open at once, finalised in random order
		n := 2 + r.Intn(4)
		line := "wrap nested"
		s := &countingSuspendable{}
		var bufs []buffer.Buffer
		var hows []string
		for j := 0; j < n; j++ {
			mode := []string{"reader", "reader-err"}[r.Intn(2)]
			how := consumers[r.Intn(len(consumers))]
			line += fmt.Sprintf(" %s/%s", mode, how)
			bufs = append(bufs, re_blobstore.NewSuspendingBlobAccess(&gatedStorage{mode: mode}, s).Get(context.Background(), helloDigest))
			hows = append(hows, how)
		}
		bad := ""
		if s.depth != n {
			bad = fmt.Sprintf("%d streamed reads open but %d suspensions outstanding", n, s.depth)
		}
		for len(bufs) > 0 && bad == "" {
			k := r.Intn(len(bufs))
			line += fmt.Sprintf(" fin%d", k)
			func() {
				defer func() {
					if rec := recover(); rec != nil {
						bad = fmt.Sprintf("panic: %v", rec)
					}
				}()
				consume(bufs[k], hows[k])
			}()
			bufs = append(bufs[:k], bufs[k+1:]...)
			hows = append(hows[:k], hows[k+1:]...)
			if bad == "" && s.depth != len(bufs) {
				bad = fmt.Sprintf("%d streamed reads open but %d suspensions outstanding", len(bufs), s.depth)
			}
		}
		if bad == "" && s.bad != "" {
			bad = s.bad
		}
		res.Evaluations++
		res.Count("wrap-nested")
		if bad != "" {
			wrapperFinding(res, line, bad)
			return
		}
	}
}

func replayWrappers(res *hx.Result, hist []string) {
	for _, line := range hist {
		f := strings.Fields(line)
		if len(f) == 4 && f[0] == "wrap" {
			res.Evaluations++
			if bad := runWrapperPath(f[1], f[2], f[3]); bad != "" {
				wrapperFinding(res, line, bad)
			}
		} else if len(f) >= 2 && f[1] == "nested" {
			// a nested finding is re-checked through the exhaustive single-path list
			for _, p := range allWrapperPaths() {
				if bad := runWrapperPath(p[0], p[1], p[2]); bad != "" {
					wrapperFinding(res, fmt.Sprintf("wrap %s %s %s", p[0], p[1], p[2]), bad)
					return
				}
			}
		}
	}
}
