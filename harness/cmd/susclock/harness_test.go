package susclock

// Correspondence harness + monitor for C11.
//
// Part 1 (this file): the REAL pkg/clock.SuspendableClock runs over fakeClock
// inside a testing/synctest bubble. A history is a list of timed operations
// (storage reads that suspend/resume the clock - directly or through the real
// NewSuspendingBlobAccess / NewSuspendingDirectoryFetcher decorators -,
// NewContextWithTimeout, CancelFunc, parent cancellation, NewTimer, Stop). The
// harness moves the fake time from instant to instant, delivers every base
// timer expiry / base context deadline that is due at an instant one at a time
// (random order) and waits with synctest.Wait until all goroutines are parked
// again. In 2 of 5 histories expiries are delivered LATE (cfg field g): a timer
// due at its stamp T is handed to the clock's goroutine only at T+late
// (late <= g, drawn per timer from the history's seed) while the history goes
// on suspending, resuming, cancelling and advancing in between - the window in
// which the real goroutine waits for c.lock; the goroutine then works with the
// stale stamp T on the current clock state. Deadlines of base contexts are
// delayed likewise. The harness attributes every base timer to the
// context/timer it belongs to and tells the model, per expiry, how late it was
// handled and after how many Suspend/Resume calls.
// Observables (instant at which Done() closes, Err(), the
// UnsuspendedDurationKey value, timer firing instant and published value, Stop
// results) are compared with Model/SusClock.lean (driver drv_susclock), and
// judged by a monitor that uses nothing but the harness's own record of when
// reads started and ended and of when expiries were due and delivered: wall
// bound, never early, cancellation prompt, and "never late / reported
// duration" modulo the unsuspended time that elapsed while expiries were
// waiting to be handled (exactly, when nothing is late).
//
// Part 2 (wrappers_test.go): every call path of the two decorators suspends and
// resumes an instrumented Suspendable exactly once.

import (
	"context"
	"errors"
	"fmt"
	"os"
	"sort"
	"strconv"
	"strings"
	"testing"
	"testing/synctest"
	"time"

	re_blobstore "github.com/buildbarn/bb-remote-execution/pkg/blobstore"
	"github.com/buildbarn/bb-remote-execution/pkg/cas"
	re_clock "github.com/buildbarn/bb-remote-execution/pkg/clock"
	"github.com/buildbarn/bb-storage/pkg/clock"
	"github.com/buildbarn/bb-storage/pkg/digest"

	"verifharness/internal/hx"
)

const prop = "C11"

type config struct {
	maxS, thr, start, mul int64
	rseed                 uint64
	g                     int64 // base timer expiries / deadlines are handled up to g ticks late (0: never)
}

func (c config) String() string {
	return fmt.Sprintf("cfg %d %d %d %d %d %d", c.maxS, c.thr, c.start, c.mul, c.rseed, c.g)
}

// op kinds: read id kind | done id | ctx id d par | cancel id | pcancel id |
// timer id d | stop id | end
type op struct {
	t    int64
	pre  bool // executed before the timers due at instant t are delivered
	kind string
	id   int
	a    int64
	b    int64
	seq  int
}

func (o op) String() string {
	p := 0
	if o.pre {
		p = 1
	}
	return fmt.Sprintf("%d %d %s %d %d %d", o.t, p, o.kind, o.id, o.a, o.b)
}

func parseConfig(s string) (config, error) {
	var c config
	var k string
	_, err := fmt.Sscanf(s, "%s %d %d %d %d %d %d", &k, &c.maxS, &c.thr, &c.start, &c.mul, &c.rseed, &c.g)
	if err != nil { // histories recorded before late delivery existed
		c.g = 0
		_, err = fmt.Sscanf(s, "%s %d %d %d %d %d", &k, &c.maxS, &c.thr, &c.start, &c.mul, &c.rseed)
	}
	if err == nil && (k != "cfg" || c.thr < 1 || c.mul < 1 || c.maxS < 0 || c.start < 0 || c.g < 0) {
		err = fmt.Errorf("bad cfg line %q", s)
	}
	return c, err
}

func parseOps(lines []string) []op {
	var ops []op
	for i, l := range lines {
		var o op
		var p int
		if _, err := fmt.Sscanf(l, "%d %d %s %d %d %d", &o.t, &p, &o.kind, &o.id, &o.a, &o.b); err != nil {
			continue
		}
		o.pre = p == 1
		o.seq = i
		ops = append(ops, o)
	}
	normalise(ops)
	return ops
}

// normalise orders ops by instant; within an instant the "pre" ones come first.
func normalise(ops []op) {
	sort.SliceStable(ops, func(i, j int) bool {
		if ops[i].t != ops[j].t {
			return ops[i].t < ops[j].t
		}
		if ops[i].pre != ops[j].pre {
			return ops[i].pre
		}
		return ops[i].seq < ops[j].seq
	})
}

func strs(ops []op) []string {
	out := make([]string, len(ops))
	for i, o := range ops {
		out[i] = o.String()
	}
	return out
}

// ---- trace of one execution ---------------------------------------------------

type ctxRec struct {
	id        int
	t0, d     int64
	par       bool
	ctx       context.Context
	cancel    context.CancelFunc
	deadline  int64
	hasDL     bool
	hasCancel bool
	cancelAt  int64
	cancelPre bool
	done      bool
	doneAt    int64
	err       error
	dur       time.Duration
	durOK     bool
	earlyErr  bool
	running   bool // still running at the end instant, after all due events
}

type timerRec struct {
	id       int
	t0, d    int64
	tm       clock.Timer
	hasStop  bool
	stopAt   int64
	stopPre  bool
	stopRets []bool
	fired    bool
	firedAt  int64
	val      int64
}

type readRec struct {
	id       int
	kind     int
	s, r     int64
	gate     chan struct{}
	released bool
	finished bool
	problem  string
}

type event struct {
	t       int64
	suspend bool
}

type trace struct {
	cfg      config
	ctxs     []*ctxRec
	timers   []*timerRec
	reads    []*readRec
	events   []event
	end      int64
	problems []string
	steps    int
	baseTmrs int
	fc       *fakeClock
}

const nReadKinds = 7

func errClass(err error) string {
	switch {
	case err == nil:
		return "nil"
	case errors.Is(err, context.DeadlineExceeded):
		return "deadline"
	case errors.Is(err, context.Canceled):
		return "canceled"
	}
	return "other"
}

// startRead runs one storage read in its own goroutine: Suspend at the start,
// Resume when the gate is released. Kinds 1.. go through the real decorators.
func startRead(clk *re_clock.SuspendableClock, rd *readRec) {
	ctx := context.Background()
	defer func() {
		if r := recover(); r != nil {
			rd.problem = fmt.Sprintf("panic in read kind %d: %v", rd.kind, r)
		}
		rd.finished = true
	}()
	gated := &gatedStorage{gate: rd.gate}
	switch rd.kind {
	case 0:
		clk.Suspend()
		<-rd.gate
		clk.Resume()
	case 1:
		re_blobstore.NewSuspendingBlobAccess(gated, clk).FindMissing(ctx, digest.EmptySet)
	case 2:
		b := re_blobstore.NewSuspendingBlobAccess(&gatedStorage{mode: "reader"}, clk).Get(ctx, helloDigest)
		<-rd.gate
		if data, err := b.ToByteSlice(100); err != nil || string(data) != helloData {
			rd.problem = fmt.Sprintf("Get/ToByteSlice returned %q, %v", data, err)
		}
	case 3:
		b := re_blobstore.NewSuspendingBlobAccess(&gatedStorage{mode: "reader"}, clk).Get(ctx, helloDigest)
		<-rd.gate
		b.Discard()
	case 4:
		cas.NewSuspendingDirectoryFetcher(gated, clk).GetDirectory(ctx, helloDigest)
	case 5:
		gated.fail = true
		if err := re_blobstore.NewSuspendingBlobAccess(gated, clk).Put(ctx, helloDigest, nil); err == nil {
			rd.problem = "Put did not return the error of the base"
		}
	case 6:
		b := re_blobstore.NewSuspendingBlobAccess(&gatedStorage{mode: "reader-err"}, clk).Get(ctx, helloDigest)
		<-rd.gate
		if _, err := b.ToByteSlice(100); err == nil {
			rd.problem = "Get/ToByteSlice on a failing reader returned no error"
		}
	}
}

// execHistory runs one history against the real clock inside a synctest bubble.
func execHistory(t *testing.T, c config, ops []op) *trace {
	tr := &trace{cfg: c}
	synctest.Test(t, func(t *testing.T) {
		runBubble(c, ops, tr)
	})
	return tr
}

func runBubble(c config, ops []op, tr *trace) {
	m := c.mul
	fc := &fakeClock{now: c.start * m}
	tr.fc = fc
	clk := re_clock.NewSuspendableClock(fc, time.Duration(c.maxS*m), time.Duration(c.thr*m))
	rng := hx.NewRand(c.rseed)
	lateRng := hx.NewRand(c.rseed + 0x5eed)
	fc.lateFn = func() int64 {
		if c.g == 0 || lateRng.Chance(2, 5) {
			return 0
		}
		return (1 + int64(lateRng.Intn(int(c.g)))) * m
	}
	fc.posFn = func() int { return len(tr.events) }
	quit := make(chan struct{})
	ctxs := map[int]*ctxRec{}
	timers := map[int]*timerRec{}
	reads := map[int]*readRec{}
	parents := map[int]context.Context{}
	parentCancels := map[int]context.CancelFunc{}
	parentCancelled := map[int]bool{}
	dead := false
	problem := func(s string) { tr.problems = append(tr.problems, s) }

	parent := func(id int) context.Context {
		if p, ok := parents[id]; ok {
			return p
		}
		p, cf := context.WithCancel(context.Background())
		parents[id], parentCancels[id] = p, cf
		return p
	}
	fireDue := func() {
		for i := 0; !dead && fc.fireOne(rng.Intn); i++ {
			synctest.Wait()
			fc.setOwner("")
			tr.steps++
			if i > 5000 {
				problem("livelock: base timers keep becoming due at one instant (a timer is re-armed with a non-positive duration forever)")
				dead = true
			}
		}
	}
	advanceTo := func(target int64) {
		for !dead {
			w, ok := fc.nextDue()
			if !ok || w >= target {
				break
			}
			fc.set(w)
			fireDue()
		}
		fc.set(target)
	}
	checkErrNil := func() {
		for _, cr := range tr.ctxs {
			if !cr.done && !cr.earlyErr && cr.ctx.Err() != nil {
				cr.earlyErr = true
			}
		}
	}
	defer func() {
		if r := recover(); r != nil {
			problem(fmt.Sprintf("panic: %v", r))
		}
		// leave the bubble with nothing blocked
		for _, rd := range tr.reads {
			if !rd.released {
				rd.released = true
				close(rd.gate)
			}
		}
		for _, cr := range tr.ctxs {
			cr.cancel()
		}
		for _, cf := range parentCancels {
			cf()
		}
		for _, tm := range tr.timers {
			tm.tm.Stop()
		}
		close(quit)
		synctest.Wait()
		tr.baseTmrs = fc.timersCreated
	}()

	ended := false
	for i := 0; i < len(ops) && !dead; i++ {
		o := ops[i]
		if ended || o.t*m < fc.nowTicks() {
			continue
		}
		advanceTo(o.t * m)
		if !o.pre {
			fireDue()
		}
		if dead {
			break
		}
		now := fc.nowTicks()
		switch o.kind {
		case "read":
			if _, dup := reads[o.id]; dup {
				continue
			}
			rd := &readRec{id: o.id, kind: int(o.a) % nReadKinds, s: now, r: -1, gate: make(chan struct{})}
			reads[o.id] = rd
			tr.reads = append(tr.reads, rd)
			tr.events = append(tr.events, event{now, true})
			go startRead(clk, rd)
		case "done":
			rd := reads[o.id]
			if rd == nil || rd.released {
				continue
			}
			rd.released = true
			rd.r = now
			tr.events = append(tr.events, event{now, false})
			close(rd.gate)
		case "ctx":
			if _, dup := ctxs[o.id]; dup {
				continue
			}
			cr := &ctxRec{id: o.id, t0: now, d: o.a * m, par: o.b == 1}
			p := context.Background()
			if cr.par {
				p = parent(o.id)
				if parentCancelled[o.id] {
					cr.hasCancel, cr.cancelAt, cr.cancelPre = true, now, true
				}
			}
			fc.setOwner(fmt.Sprintf("c%d", o.id))
			cr.ctx, cr.cancel = clk.NewContextWithTimeout(p, time.Duration(cr.d))
			if dl, ok := cr.ctx.Deadline(); ok {
				cr.hasDL, cr.deadline = true, dl.UnixNano()
			}
			ctxs[o.id] = cr
			tr.ctxs = append(tr.ctxs, cr)
			go func() {
				<-cr.ctx.Done()
				cr.doneAt = fc.nowTicks()
				cr.err = cr.ctx.Err()
				cr.dur, cr.durOK = cr.ctx.Value(re_clock.UnsuspendedDurationKey{}).(time.Duration)
				cr.done = true
			}()
		case "cancel":
			cr := ctxs[o.id]
			if cr == nil {
				continue
			}
			if !cr.hasCancel {
				cr.hasCancel, cr.cancelAt, cr.cancelPre = true, now, o.pre
			}
			cr.cancel()
		case "pcancel":
			parent(o.id)
			parentCancelled[o.id] = true
			if cr := ctxs[o.id]; cr != nil && cr.par && !cr.hasCancel {
				cr.hasCancel, cr.cancelAt, cr.cancelPre = true, now, o.pre
			}
			parentCancels[o.id]()
		case "timer":
			if _, dup := timers[o.id]; dup {
				continue
			}
			tm := &timerRec{id: o.id, t0: now, d: o.a * m}
			var ch <-chan time.Time
			fc.setOwner(fmt.Sprintf("t%d", o.id))
			tm.tm, ch = clk.NewTimer(time.Duration(tm.d))
			timers[o.id] = tm
			tr.timers = append(tr.timers, tm)
			go func() {
				select {
				case v := <-ch:
					tm.firedAt = fc.nowTicks()
					tm.val = v.UnixNano()
					tm.fired = true
				case <-quit:
				}
			}()
		case "stop":
			tm := timers[o.id]
			if tm == nil {
				continue
			}
			if !tm.hasStop {
				tm.hasStop, tm.stopAt, tm.stopPre = true, now, o.pre
			}
			tm.stopRets = append(tm.stopRets, tm.tm.Stop())
		case "end":
			ended = true
		default:
			continue
		}
		// same-instant reads may race for the clock's lock: no wait between them
		if (o.kind == "read" || o.kind == "done") && i+1 < len(ops) && ops[i+1].t == o.t && ops[i+1].pre &&
			o.pre && (ops[i+1].kind == "read" || ops[i+1].kind == "done") {
			continue
		}
		synctest.Wait()
		fc.setOwner("")
		tr.steps++
		checkErrNil()
	}
	if !dead {
		fireDue()
	}
	checkErrNil()
	tr.end = fc.nowTicks()
	for _, cr := range tr.ctxs {
		cr.running = !cr.done
	}
	for _, rd := range tr.reads {
		if rd.problem != "" {
			problem(rd.problem)
		}
	}
}

// ---- monitor: the property, judged on the implementation's trace alone -------------

// unsusp is the time in [a,b) during which no read was in progress, computed
// from the harness's own record of the reads.
func (tr *trace) unsusp(a, b int64) int64 {
	if b <= a {
		return 0
	}
	type iv struct{ s, r int64 }
	var ivs []iv
	for _, rd := range tr.reads {
		s, r := rd.s, rd.r
		if r < 0 || r > b {
			r = b
		}
		if s < a {
			s = a
		}
		if s < r {
			ivs = append(ivs, iv{s, r})
		}
	}
	sort.Slice(ivs, func(i, j int) bool { return ivs[i].s < ivs[j].s })
	covered, hi := int64(0), a
	for _, v := range ivs {
		if v.r <= hi {
			continue
		}
		if v.s > hi {
			hi = v.s
		}
		covered += v.r - hi
		hi = v.r
	}
	return (b - a) - covered
}

// gap is the unsuspended time that elapsed, up to instant x, while base timer
// expiries were waiting to be handled (between a timer's stamp and its delivery
// or Stop). It is what the goroutines of the clock could not know about in
// time: the budget rules are judged modulo this amount. 0 when nothing is late.
func (tr *trace) gap(x int64) int64 {
	var g int64
	if tr.fc == nil {
		return 0
	}
	for _, t := range tr.fc.gaps {
		end := t.endAt
		if end < 0 || end > x {
			end = x
		}
		if t.expiry < end {
			g += tr.unsusp(t.expiry, end)
		}
	}
	return g
}

// wallOf returns the wall-clock bound of owner plus the lateness with which the
// harness delivers the deadline of its base context (or its maximumSuspensionTimer).
func (tr *trace) wallOf(owner string, bound int64) int64 {
	if tr.fc != nil {
		if r := tr.fc.owners[owner]; r != nil && r.dlSet {
			return bound + r.dlLate
		}
	}
	return bound
}

func (tr *trace) monitor() string {
	if len(tr.problems) > 0 {
		return tr.problems[0]
	}
	m := tr.cfg.mul
	maxS, thr := tr.cfg.maxS*m, tr.cfg.thr*m
	late := tr.cfg.g > 0
	if tr.fc != nil && tr.fc.orphans > 0 {
		return "harness: a base timer or context was created that cannot be attributed to a context/timer of the history"
	}
	for _, cr := range tr.ctxs {
		name := fmt.Sprintf("context %d (created at %d, timeout %d)", cr.id, cr.t0, cr.d)
		bound := cr.t0 + cr.d + maxS
		wall := tr.wallOf(fmt.Sprintf("c%d", cr.id), bound)
		if cr.earlyErr {
			return name + ": Err() was non-nil before Done() was closed"
		}
		if cr.running {
			// still running at the end instant, after everything to be delivered by then was delivered
			if tr.end >= wall {
				return fmt.Sprintf("%s still running at %d, past the wall-clock bound timeout + maximum suspension = %d (deadline delivered at %d)", name, tr.end, bound, wall)
			}
			u, g := tr.unsusp(cr.t0, tr.end), tr.gap(tr.end)
			if u > cr.d+g || (!late && u >= cr.d) {
				return fmt.Sprintf("%s still running at %d although %d of unsuspended time has passed (timeout %d; %d of it elapsed while expiries waited to be handled)", name, tr.end, u, cr.d, g)
			}
			continue
		}
		if !cr.done {
			return name + ": never completed, not even after cancellation"
		}
		T := cr.doneAt
		u, g := tr.unsusp(cr.t0, T), tr.gap(T)
		if T > wall {
			return fmt.Sprintf("%s completed at %d, later than timeout + maximum suspension = %d (deadline delivered at %d)", name, T, bound, wall)
		}
		if u > cr.d+g {
			return fmt.Sprintf("%s completed at %d after %d of unsuspended time, more than its timeout (only %d of it elapsed while expiries waited to be handled)", name, T, u, g)
		}
		if cr.hasCancel && T > cr.cancelAt {
			return fmt.Sprintf("%s was cancelled at %d but completed only at %d", name, cr.cancelAt, T)
		}
		exact := !late
		switch errClass(cr.err) {
		case "deadline":
			if u+thr <= cr.d && T != wall {
				return fmt.Sprintf("%s timed out early at %d: only %d of unsuspended time had passed (timeout %d, threshold %d, wall bound %d not reached)", name, T, u, cr.d, thr, wall)
			}
		case "canceled":
			if !cr.hasCancel || cr.cancelAt != T {
				return fmt.Sprintf("%s reports Canceled at %d but nobody cancelled it then", name, T)
			}
			exact = true
		default:
			return fmt.Sprintf("%s completed with unexpected error %v", name, cr.err)
		}
		if !cr.durOK {
			return name + ": Value(UnsuspendedDurationKey{}) is not a time.Duration"
		}
		dur := int64(cr.dur)
		if exact && dur != u {
			return fmt.Sprintf("%s reports unsuspended duration %d but it ran for %d of unsuspended time (completed at %d)", name, dur, u, T)
		}
		// expiries handled late: the charge is taken at the stamp of the last expiry, which lies at most
		// the waiting time before the completion instant; never more than really ran, never more than
		// timeout + waiting time
		if dur > u || dur+g < u || dur > cr.d+g {
			return fmt.Sprintf("%s reports unsuspended duration %d; it ran for %d of unsuspended time (completed at %d), timeout %d, %d elapsed while expiries waited to be handled", name, dur, u, T, cr.d, g)
		}
		if !cr.hasDL || cr.deadline+(wall-bound) < T {
			return fmt.Sprintf("%s: Deadline() = %d is not an upper bound of the completion instant %d (deadline delivered %d late)", name, cr.deadline, T, wall-bound)
		}
	}
	for _, tm := range tr.timers {
		name := fmt.Sprintf("timer %d (created at %d, duration %d)", tm.id, tm.t0, tm.d)
		bound := tm.t0 + tm.d + maxS
		wall := tr.wallOf(fmt.Sprintf("t%d", tm.id), bound)
		stoppedEarly := tm.hasStop && len(tm.stopRets) > 0 && tm.stopRets[0]
		if !tm.fired {
			if stoppedEarly {
				continue
			}
			if tr.end >= wall {
				return fmt.Sprintf("%s has not fired at %d, past duration + maximum suspension = %d (delivered at %d)", name, tr.end, bound, wall)
			}
			u, g := tr.unsusp(tm.t0, tr.end), tr.gap(tr.end)
			if u > tm.d+g || (!late && u >= tm.d) {
				return fmt.Sprintf("%s has not fired at %d although %d of unsuspended time has passed (duration %d; %d of it while expiries waited)", name, tr.end, u, tm.d, g)
			}
			continue
		}
		T := tm.firedAt
		u, g := tr.unsusp(tm.t0, T), tr.gap(T)
		if stoppedEarly && T >= tm.stopAt {
			return fmt.Sprintf("%s fired at %d although Stop() returned true at %d", name, T, tm.stopAt)
		}
		if T > wall {
			return fmt.Sprintf("%s fired at %d, later than duration + maximum suspension = %d (delivered at %d)", name, T, bound, wall)
		}
		if u > tm.d+g {
			return fmt.Sprintf("%s fired at %d after %d of unsuspended time, more than its duration (only %d of it while expiries waited)", name, T, u, g)
		}
		if u+thr <= tm.d && T != wall {
			return fmt.Sprintf("%s fired early at %d: only %d of unsuspended time had passed (threshold %d)", name, T, u, thr)
		}
		if tm.val > T || tm.val+tr.cfg.g*m < T {
			return fmt.Sprintf("%s fired at %d but published time %d (expiries are handled at most %d late)", name, T, tm.val, tr.cfg.g*m)
		}
	}
	return ""
}

// ---- correspondence with the Lean model -----------------------------------------------

type cmp struct {
	mismatch, expected, actual string
	flags                      map[string]bool
	evals                      int
}

func (tr *trace) compare(drv *hx.Driver) (out cmp) {
	out.flags = map[string]bool{}
	fail := func(line, exp, act string) cmp {
		out.mismatch, out.expected, out.actual = line, exp, act
		return out
	}
	ask := func(line string) string {
		s, err := drv.Ask(line)
		if err != nil {
			return "driver-error " + err.Error()
		}
		return s
	}
	m := tr.cfg.mul
	if s := ask(fmt.Sprintf("cfg %d %d", tr.cfg.maxS*m, tr.cfg.thr*m)); s != "ok" {
		return fail("cfg", "ok", s)
	}
	depth := 0
	for _, e := range tr.events {
		k := "r"
		if e.suspend {
			k = "s"
			depth++
			if depth >= 2 {
				out.flags["overlapping-reads"] = true
			}
		} else {
			depth--
		}
		if s := ask(fmt.Sprintf("%s %d", k, e.t)); !strings.HasPrefix(s, "ok ") {
			return fail(fmt.Sprintf("%s %d", k, e.t), "ok …", s)
		}
	}
	b2i := func(b bool) int {
		if b {
			return 1
		}
		return 0
	}
	// query asks the model for the fate of a context/timer, telling it when and in which clock state
	// each of its base timer expiries was handled (all on time when g = 0) and how late the deadline
	// of its base context was delivered. Answer: instant, reason, duration, stamp of the last expiry.
	query := func(owner string, t0, d int64, hasC bool, cAt int64, cPre bool) (string, int64, string, int64, int64) {
		if !hasC {
			// the harness cancels everything that is left at the end instant, after all due events
			cAt, cPre = tr.end, false
		}
		var dlLate int64
		dlPre := false
		var dv []*delivery
		if tr.fc != nil {
			if r := tr.fc.owners[owner]; r != nil {
				dlLate, dlPre, dv = r.dlLate, r.dlPre, r.deliveries
			}
		}
		line := fmt.Sprintf("ctxl %d %d %d %d %d %d %d", t0, d, cAt, b2i(cPre), tr.cfg.g*m, dlLate, b2i(dlPre))
		for _, x := range dv {
			line += fmt.Sprintf(" %d %d", x.late, x.pos)
			if x.delivered && x.late > 0 {
				out.flags["expiry-handled-late"] = true
				if x.pos > 0 && tr.events[x.pos-1].t > x.stamp {
					out.flags["call-between-due-and-handled"] = true
				}
			}
		}
		ans := ask(line)
		f := strings.Fields(ans)
		if len(f) != 4 {
			return line, -1, ans, 0, 0
		}
		inst, _ := strconv.ParseInt(f[0], 10, 64)
		dur, _ := strconv.ParseInt(f[2], 10, 64)
		stamp, _ := strconv.ParseInt(f[3], 10, 64)
		return line, inst, f[1], dur, stamp
	}
	for _, cr := range tr.ctxs {
		out.evals++
		line, inst, reason, dur, _ := query(fmt.Sprintf("c%d", cr.id), cr.t0, cr.d, cr.hasCancel, cr.cancelAt, cr.cancelPre)
		exp := fmt.Sprintf("%d %s %d", inst, reason, dur)
		if inst < 0 {
			return fail(line, "instant reason dur stamp", reason)
		}
		if !cr.hasCancel && inst == tr.end && reason == "cancelled" {
			// model: still running when the history ends
			if !cr.running {
				return fail(line, "still running at end "+exp, fmt.Sprintf("%d %s %d", cr.doneAt, errClass(cr.err), int64(cr.dur)))
			}
			out.flags["running-at-end"] = true
			continue
		}
		want := map[string]string{"timeout": "deadline", "capped": "deadline", "cancelled": "canceled"}[reason]
		act := fmt.Sprintf("%d %s %d", cr.doneAt, errClass(cr.err), int64(cr.dur))
		if cr.running || cr.doneAt != inst || errClass(cr.err) != want || int64(cr.dur) != dur {
			if cr.running {
				act = "still running at end"
			}
			return fail(line, exp, act)
		}
		out.flags["ctx-"+reason] = true
		if reason != "cancelled" && inst > cr.t0+cr.d {
			out.flags["compensated"] = true
		}
		if reason == "timeout" && dur < cr.d {
			out.flags["timeout-below-threshold"] = true
		}
		if cr.hasCancel && cr.cancelAt == inst {
			out.flags["cancel-at-completion-instant-"+reason] = true
		}
		if m == 1 {
			if s := ask(fmt.Sprintf("unsusp %d %d", cr.t0, inst)); s != strconv.FormatInt(tr.unsusp(cr.t0, inst), 10) {
				return fail(fmt.Sprintf("unsusp %d %d (monitor's interval arithmetic vs Lean specification)", cr.t0, inst), s, strconv.FormatInt(tr.unsusp(cr.t0, inst), 10))
			}
		}
	}
	for _, tm := range tr.timers {
		out.evals++
		line, inst, reason, _, stamp := query(fmt.Sprintf("t%d", tm.id), tm.t0, tm.d, tm.hasStop, tm.stopAt, tm.stopPre)
		if inst < 0 {
			return fail(line, "instant reason dur stamp", reason)
		}
		val := stamp // the published time is the stamp of the expiry that was handled …
		if reason == "capped" {
			val = tm.t0 + tm.d + tr.cfg.maxS*m // … or of the maximum suspension timer
		}
		exp := fmt.Sprintf("fires at %d value %d (%s)", inst, val, reason)
		act := "does not fire"
		if tm.fired {
			act = fmt.Sprintf("fires at %d value %d", tm.firedAt, tm.val)
		}
		if reason == "cancelled" {
			exp = fmt.Sprintf("stopped at %d, never fires", inst)
			if tm.fired {
				return fail("timer: "+line, exp, act)
			}
			for i, r := range tm.stopRets {
				if r != (i == 0) {
					return fail("timer: "+line, exp+", Stop() results true,false,…", fmt.Sprint(tm.stopRets))
				}
			}
			out.flags["timer-stopped"] = true
			continue
		}
		if !tm.fired || tm.firedAt != inst || tm.val != val {
			return fail("timer: "+line, exp, act)
		}
		for _, r := range tm.stopRets {
			if r {
				return fail("timer: "+line, exp+", Stop() after firing returns false", fmt.Sprint(tm.stopRets))
			}
		}
		out.flags["timer-"+reason] = true
		if inst > tm.t0+tm.d {
			out.flags["compensated"] = true
		}
	}
	return out
}

// ---- generator ------------------------------------------------------------------------------

func gen(r *hx.Rand, drv *hx.Driver) (config, []op) {
	c := config{
		maxS:  []int64{0, 1, 2, 3, 5, 8, 13, 21, 40, 40}[r.Intn(10)],
		thr:   []int64{1, 1, 2, 3, 5, 8}[r.Intn(6)],
		start: int64(r.Intn(20)),
		mul:   1,
		rseed: r.Uint64() % 1000000,
	}
	if r.Chance(1, 8) {
		c.mul = 1000000
	}
	if r.Chance(2, 5) { // base timer expiries / deadlines handled late
		c.g = []int64{1, 2, 3, 5, 8, 12}[r.Intn(6)]
	}
	var ops []op
	add := func(o op) {
		o.seq = len(ops)
		ops = append(ops, o)
	}
	horizon := int64(40 + r.Intn(80))
	type iv struct{ s, r int64 }
	var reads []iv
	nReads := r.Intn(9)
	cluster := c.start + int64(r.Intn(40))
	for i := 0; i < nReads; i++ {
		s := c.start + int64(r.Intn(int(horizon)))
		if r.Chance(1, 2) {
			s = cluster + int64(r.Intn(12))
		}
		l := []int64{0, 1, 2, 3, int64(r.Intn(10)), int64(r.Intn(40))}[r.Intn(6)]
		reads = append(reads, iv{s, s + l})
	}
	type cx struct {
		timer    bool
		t0, d    int64
		par, pre bool
	}
	var cxs []cx
	n := 1 + r.Intn(3)
	for i := 0; i < n; i++ {
		x := cx{timer: r.Chance(1, 4), t0: c.start + int64(r.Intn(30)), par: r.Chance(1, 4), pre: r.Chance(1, 2)}
		x.d = []int64{0, 1, c.thr - 1, c.thr, c.thr + 1, int64(r.Intn(10)), int64(r.Intn(50)), int64(r.Intn(50)), 10000}[r.Intn(9)]
		cxs = append(cxs, x)
		// reads that start or end exactly at the first expiry, or straddle it
		if r.Chance(1, 3) {
			e := x.t0 + x.d
			switch r.Intn(4) {
			case 0:
				reads = append(reads, iv{e, e + int64(r.Intn(15))})
			case 1:
				s := e - int64(r.Intn(10))
				if s < 0 {
					s = 0
				}
				reads = append(reads, iv{s, e})
			case 2:
				s := e - int64(r.Intn(10))
				if s < 0 {
					s = 0
				}
				reads = append(reads, iv{s, e + int64(r.Intn(15))})
			case 3:
				reads = append(reads, iv{x.t0, x.t0 + x.d + c.maxS + int64(r.Intn(5))})
			}
		}
	}
	// model's prediction of the uncancelled completion instants: used only to aim cancellations,
	// stops and further reads at the interesting instants
	predict := func(x cx) int64 {
		type e struct {
			t int64
			s bool
		}
		var es []e
		for _, v := range reads {
			if v.s >= c.start {
				es = append(es, e{v.s, true}, e{v.r, false})
			}
		}
		sort.SliceStable(es, func(i, j int) bool {
			if es[i].t != es[j].t {
				return es[i].t < es[j].t
			}
			return es[i].s && !es[j].s
		})
		drv.Ask(fmt.Sprintf("cfg %d %d", c.maxS, c.thr))
		for _, v := range es {
			k := "r"
			if v.s {
				k = "s"
			}
			drv.Ask(fmt.Sprintf("%s %d", k, v.t))
		}
		ans, _ := drv.Ask(fmt.Sprintf("ctx %d %d", x.t0, x.d))
		f := strings.Fields(ans)
		if len(f) == 3 {
			v, _ := strconv.ParseInt(f[0], 10, 64)
			return v
		}
		return x.t0 + x.d
	}
	maxT := c.start + horizon
	for i, x := range cxs {
		kind, ckind := "ctx", "cancel"
		if x.timer {
			kind, ckind, x.par = "timer", "stop", false
		}
		par := int64(0)
		if x.par {
			par = 1
		}
		add(op{t: x.t0, pre: x.pre, kind: kind, id: i, a: x.d, b: par})
		if x.t0+x.d+c.maxS > maxT && x.d < 1000 {
			maxT = x.t0 + x.d + c.maxS
		}
		if r.Chance(3, 5) {
			var tc int64
			switch r.Intn(7) {
			case 0:
				tc = x.t0 + int64(r.Intn(80))
			case 1:
				tc = x.t0 + x.d
			case 2:
				tc = x.t0 + x.d + c.maxS
			case 3:
				tc = x.t0
			default:
				p := predict(x)
				tc = p
				if r.Chance(1, 3) {
					tc = p - 1 + int64(r.Intn(3))
				}
				if r.Chance(1, 3) {
					reads = append(reads, iv{p, p + int64(r.Intn(10))})
				}
			}
			if tc < x.t0 {
				tc = x.t0
			}
			pre := r.Chance(1, 2)
			if tc == x.t0 && !x.pre {
				pre = false
			}
			if x.par && r.Chance(1, 2) {
				ckind = "pcancel"
				if r.Chance(1, 6) { // parent already cancelled when the context is created
					tc, pre = x.t0-int64(r.Intn(3)), true
					if tc < c.start {
						tc = c.start
					}
				}
			}
			add(op{t: tc, pre: pre, kind: ckind, id: i})
			if r.Chance(1, 8) { // again: must be harmless
				add(op{t: tc + int64(r.Intn(5)), pre: r.Chance(1, 2), kind: ckind, id: i})
			}
		}
	}
	for i, v := range reads {
		if v.s < c.start {
			continue
		}
		pre := r.Chance(1, 2)
		add(op{t: v.s, pre: pre, kind: "read", id: i, a: int64(r.Intn(nReadKinds))})
		if r.Chance(9, 10) {
			dpre := r.Chance(1, 2)
			if v.r == v.s && !pre {
				dpre = false
			}
			add(op{t: v.r, pre: dpre, kind: "done", id: i})
		}
	}
	end := maxT + int64(r.Intn(10))
	if r.Chance(1, 3) {
		end = c.start + int64(r.Intn(int(horizon)))
	}
	add(op{t: end, kind: "end"})
	normalise(ops)
	return c, ops
}

// ---- main ---------------------------------------------------------------------------------------

type verdict struct {
	monitor string
	cmp     cmp
	tr      *trace
}

func evaluate(t *testing.T, c config, ops []op, drv *hx.Driver) verdict {
	tr := execHistory(t, c, ops)
	v := verdict{tr: tr, monitor: tr.monitor()}
	if v.monitor == "" {
		v.cmp = tr.compare(drv)
	}
	return v
}

func TestHarness(t *testing.T) {
	o := hx.ParseFlags()
	res := hx.NewResult("susclock", o, "part 1: real SuspendableClock over a fake base clock in a synctest bubble; histories of 0-12 storage reads "+
		"(direct Suspend/Resume or through the real suspending BlobAccess/DirectoryFetcher decorators; nested, overlapping, zero-length, starting/ending exactly at timer expiries), "+
		"1-3 contexts/timers with timeouts 0..50 and 10000, maximumSuspension 0..40, threshold 1..8, cancellation by CancelFunc/parent/Stop at random and at model-predicted expiry instants "+
		"with both tie orders; in 2/5 of the histories base timer expiries and base deadlines are handled up to g=1..12 ticks late with suspend/resume/cancel in between; non-trivial = some context or timer completed by deadline strictly later than creation+timeout (compensated) and at least two reads overlapped; "+
		"distinct = hash of the op list. part 3: the real localBuildExecutor.Execute on the real clock with a fake runner that ends by itself (exit 0 / non-zero / runner error, at random instants and at the model-predicted kill instant with both tie orders) or is killed by its context, 0-7 reads stalling the worker while the command runs; status code, exit code, virtual_execution_duration and end of the run stage compared with execRun and judged by a monitor. part 4: the real NewTimestampedBuildExecutor around a scripted inner executor (updates of every type in any order, consumer holding updates, clock steps across second boundaries and backwards, inner executor with/without virtual duration and with stamps of its own) vs ExecStamp.stamp plus monitor (pass-through, fallback = completed - start >= 0 only without report, ordered stamps). part 5: timestampedBuildExecutor(localBuildExecutor) with the run stage ended by exit / runner error / outer context done (Canceled, DeadlineExceeded) / I/O error / timeout, at random and model-predicted kill instants with both tie orders, under storage stalls, vs ExecStamp.stampedRun plus monitor. part 2: every call path of NewSuspendingBlobAccess/NewSuspendingDirectoryFetcher x outcome x buffer consumption, suspends==resumes==1")
	drv, err := hx.StartDriver("susclock")
	if err != nil {
		fmt.Fprintln(os.Stderr, "cannot start model driver:", err)
		os.Exit(3)
	}
	defer drv.Close()
	sdrv, err := hx.StartDriver("execstamp")
	if err != nil {
		fmt.Fprintln(os.Stderr, "cannot start model driver:", err)
		os.Exit(3)
	}
	defer sdrv.Close()

	report := func(c config, ops []op, v verdict) {
		wantMonitor := v.monitor != ""
		fails := func(cand []string) bool {
			w := evaluate(t, c, parseOps(cand), drv)
			if wantMonitor {
				return w.monitor != ""
			}
			return w.monitor == "" && w.cmp.mismatch != ""
		}
		min := hx.Shrink(strs(ops), fails)
		w := evaluate(t, c, parseOps(min), drv)
		hist := append([]string{c.String()}, min...)
		f := hx.Finding{Property: prop, History: hist}
		if w.monitor != "" {
			f.Kind, f.What, f.Name = "violation", w.monitor, "C11 monitor on SuspendableClock (wall bound / fires / not early / reported duration)"
		} else {
			f.Kind, f.What = "mismatch", "model and SuspendableClock disagree on: "+w.cmp.mismatch
			f.Name = "correspondence Model/SusClock.lean <-> pkg/clock/suspendable_clock.go (theorems C11.wall_bound, fires_after_budget, not_early, reported_duration)"
			f.Expected, f.Actual = w.cmp.expected, w.cmp.actual
		}
		f.Sig = hx.Sig(prop, "susclock", strings.Join(hist, ";"))
		res.Report(f)
	}

	if o.Replay != "" {
		f, err := hx.LoadReplay(o.Replay)
		if err != nil {
			fmt.Fprintln(os.Stderr, err)
			os.Exit(3)
		}
		if len(f.History) > 0 && (f.History[0] == "scfg" || strings.HasPrefix(f.History[0], "yxcfg ")) {
			replayStamp(t, res, sdrv, f.History)
			res.ModelLines = sdrv.Lines
		} else if len(f.History) > 0 && strings.HasPrefix(f.History[0], "wrap ") {
			replayWrappers(res, f.History)
		} else if len(f.History) > 0 && strings.HasPrefix(f.History[0], "xcfg ") {
			replayExecutor(t, res, drv, f.History)
		} else if len(f.History) > 0 {
			c, err := parseConfig(f.History[0])
			if err != nil {
				fmt.Fprintln(os.Stderr, err)
				os.Exit(3)
			}
			ops := parseOps(f.History[1:])
			v := evaluate(t, c, ops, drv)
			res.Evaluations = v.tr.steps
			if v.monitor != "" || v.cmp.mismatch != "" {
				report(c, ops, v)
			}
		}
		res.ModelLines += drv.Lines
		res.Write(o)
		return
	}

	runWrappers(res, hx.NewRand(o.Seed+7777), o)
	if len(res.Findings) == 0 && !runExecutor(t, res, drv, hx.NewRand(o.Seed+424242), o) {
		res.ModelLines = drv.Lines
		res.Write(o)
		return
	}
	if len(res.Findings) == 0 && (!runStamp(t, res, sdrv, hx.NewRand(o.Seed+515151), o) ||
		!runEnders(t, res, sdrv, drv, hx.NewRand(o.Seed+616161), o)) {
		res.ModelLines = drv.Lines + sdrv.Lines
		res.Write(o)
		return
	}

	histories := 10000 * o.Scale
	if o.Tier == "thorough" {
		histories = 80000 * o.Scale
	}
	rng := hx.NewRand(o.Seed)
	// Stop at the first history that violates the property itself. After a mere disagreement with the
	// model keep looking (for a bounded number of histories) for a history that does.
	mismatches, budget := 0, histories
	for h := 0; h < histories && h < budget; h++ {
		c, ops := gen(rng, drv)
		v := evaluate(t, c, ops, drv)
		res.Evaluations += v.tr.steps + v.cmp.evals
		res.TracesVsImpl++
		for k := range v.cmp.flags {
			res.Count("history-with-" + k)
		}
		for _, x := range ops {
			res.Count("op-" + x.kind)
		}
		for _, rd := range v.tr.reads {
			res.Count(fmt.Sprintf("read-kind-%d", rd.kind))
		}
		if c.mul > 1 {
			res.Count("history-scaled-1e6")
		}
		res.History(append([]string{c.String()}, strs(ops)...), v.cmp.flags["compensated"] && v.cmp.flags["overlapping-reads"])
		if v.monitor != "" {
			report(c, ops, v)
			break
		}
		if v.cmp.mismatch != "" {
			if mismatches == 0 {
				report(c, ops, v)
				budget = h + 3000
			}
			mismatches++
		}
	}
	if mismatches > 1 {
		res.Notes = append(res.Notes, fmt.Sprintf("%d further histories disagreed with the model", mismatches-1))
	}
	res.ModelLines = drv.Lines + sdrv.Lines
	res.Write(o)
}
