package idle

// Fakes for the C12 harness: an instrumented cleaner, a fake runner and an
// in-memory root build directory with per-thread views and fault injection.
// Everything that happens is appended to one ordered event log; the monitor and
// the model tie are both computed from that log alone.

import (
	"context"
	"fmt"
	"os"
	"sort"
	"sync"
	"sync/atomic"

	"github.com/buildbarn/bb-remote-execution/pkg/builder"
	"github.com/buildbarn/bb-remote-execution/pkg/cleaner"
	"github.com/buildbarn/bb-remote-execution/pkg/filesystem/access"
	"github.com/buildbarn/bb-remote-execution/pkg/filesystem/pool"
	runner_pb "github.com/buildbarn/bb-remote-execution/pkg/proto/runner"
	"github.com/buildbarn/bb-storage/pkg/digest"
	"github.com/buildbarn/bb-storage/pkg/filesystem"
	"github.com/buildbarn/bb-storage/pkg/filesystem/path"
	"github.com/buildbarn/bb-storage/pkg/util"

	"google.golang.org/grpc/codes"
	"google.golang.org/grpc/status"
	"google.golang.org/protobuf/types/known/emptypb"
)

const maxThreads = 5

type tkey struct{}

// ev is one entry of the implementation trace.
type ev struct {
	kind string // cstart cend admit view handout ret panic
	t    int
	op   string // view: mkdir enter rmdir removeall closechild write rootclose other
	name string // view/handout: directory name
	res  string // cend: ok|err; view: result token; handout: empty|nonempty; ret: gRPC code; panic: message
}

func (e ev) String() string {
	return fmt.Sprintf("%s(t=%d %s %s %s)", e.kind, e.t, e.op, e.name, e.res)
}

type node struct {
	name    string
	entries map[string]bool
}

type relCmd struct {
	e1, childErr, removeAllFault bool
}

type thread struct {
	id        int
	kind      string // raw run chk dir
	arg       string // dir: d0 d1 d2 or -
	busy      bool   // a goroutine is running a call of this thread
	ctx       context.Context
	cancel    context.CancelFunc
	cancelled bool
	relCh     chan relCmd
	// faults for the directory operations of this thread's current call
	fMkdir, fEnter, fRmdir, fChildClose, fRemoveAll bool
	dir                                             builder.BuildDirectory
	node                                            *node
	creator                                         builder.BuildDirectoryCreator
}

type world struct {
	mu     sync.Mutex
	log    []ev
	ii     *cleaner.IdleInvoker
	gate   chan string // harness -> blocked cleaner call: outcome pattern, one of o|e per chained cleaner
	root   map[string]*node
	nextID atomic.Uint64
	th     [maxThreads]*thread
	runner runner_pb.RunnerServer
	files  int
}

func (w *world) emit(e ev) {
	w.mu.Lock()
	w.log = append(w.log, e)
	w.mu.Unlock()
}

func (w *world) drain() []ev {
	w.mu.Lock()
	l := w.log
	w.log = nil
	w.mu.Unlock()
	return l
}

func threadOf(ctx context.Context) int {
	if v, ok := ctx.Value(tkey{}).(int); ok {
		return v
	}
	return -1
}

// Error codes of the chained cleaners by position (so that "first error" is observable).
var subCodes = []codes.Code{codes.Unavailable, codes.DeadlineExceeded, codes.FailedPrecondition, codes.OutOfRange}

// cleanerFn is the Cleaner of the IdleInvoker: it reports that it runs, blocks
// until the harness lets it go on and then runs the REAL cleaner.NewChainedCleaner
// over one instrumented cleaner per character of the pattern the harness sent
// ('e' = fails with the code of its position; every one fails with Canceled when
// the context is cancelled, as real cleaners do).  This is what cmd/bb_runner
// builds: IdleInvoker(ChainedCleaner(process table, temporary directories, command)).
// Whether the environment is clean afterwards is recorded from what the
// individual cleaners did, not from what ChainedCleaner returns; a fully
// successful run empties the root build directory (cleaner.NewDirectoryCleaner).
func (w *world) cleanerFn(ctx context.Context) error {
	t := threadOf(ctx)
	w.emit(ev{kind: "cstart", t: t})
	pat := <-w.gate
	invoked, failed := 0, false
	subs := make([]cleaner.Cleaner, len(pat))
	for j := range pat {
		j := j
		subs[j] = func(ctx context.Context) error {
			code := codes.OK
			if ctx.Err() != nil {
				code = codes.Canceled
			} else if pat[j] == 'e' {
				code = subCodes[j%len(subCodes)]
			}
			w.mu.Lock()
			invoked++
			failed = failed || code != codes.OK
			w.log = append(w.log, ev{kind: "sub", t: t, op: fmt.Sprint(j), res: code.String()})
			w.mu.Unlock()
			if code != codes.OK {
				return status.Error(code, "injected cleaner failure")
			}
			return nil
		}
	}
	err := cleaner.NewChainedCleaner(subs)(ctx)
	w.mu.Lock()
	ok := invoked == len(pat) && !failed
	if ok {
		w.root = map[string]*node{}
	}
	w.log = append(w.log, ev{kind: "chainret", t: t, res: status.Code(err).String()})
	w.log = append(w.log, ev{kind: "cend", t: t, res: map[bool]string{true: "ok", false: "err"}[ok]})
	w.mu.Unlock()
	return err
}

// fakeRunner is the base of cleanRunner: a call is a user of the environment
// from entry to return.
type fakeRunner struct{ w *world }

func (r fakeRunner) use(ctx context.Context) error {
	t := threadOf(ctx)
	r.w.emit(ev{kind: "admit", t: t})
	cmd := <-r.w.th[t].relCh
	if cmd.e1 {
		return status.Error(codes.Aborted, "injected runner failure")
	}
	return nil
}

func (r fakeRunner) Run(ctx context.Context, req *runner_pb.RunRequest) (*runner_pb.RunResponse, error) {
	if err := r.use(ctx); err != nil {
		return nil, err
	}
	return &runner_pb.RunResponse{}, nil
}

func (r fakeRunner) CheckReadiness(ctx context.Context, req *runner_pb.CheckReadinessRequest) (*emptypb.Empty, error) {
	if err := r.use(ctx); err != nil {
		return nil, err
	}
	return &emptypb.Empty{}, nil
}

var errUnimplemented = status.Error(codes.Unimplemented, "not part of the C12 fake")

// stubDirectory supplies the BuildDirectory methods the decorators never call.
type stubDirectory struct{}

func (stubDirectory) EnterParentPopulatableDirectory(name path.Component) (builder.ParentPopulatableDirectory, error) {
	return nil, errUnimplemented
}

func (stubDirectory) EnterUploadableDirectory(name path.Component) (builder.UploadableDirectory, error) {
	return nil, errUnimplemented
}

func (stubDirectory) Lstat(name path.Component) (filesystem.FileInfo, error) {
	return filesystem.FileInfo{}, errUnimplemented
}

func (stubDirectory) Readlink(name path.Component) (path.Parser, error) { return nil, errUnimplemented }

func (stubDirectory) UploadFile(ctx context.Context, name path.Component, digestFunction digest.Function, writableFileUploadDelay <-chan struct{}) (digest.Digest, error) {
	return digest.BadDigest, errUnimplemented
}

func (stubDirectory) InstallHooks(filePool pool.FilePool, errorLogger util.ErrorLogger) {}

func (stubDirectory) MergeDirectoryContents(ctx context.Context, errorLogger util.ErrorLogger, digest digest.Digest, monitor access.UnreadDirectoryMonitor) error {
	return errUnimplemented
}

// rootView is thread t's handle on the shared root build directory (in
// bb_worker every worker thread builds its own decorator stack over the one
// root directory).
type rootView struct {
	stubDirectory
	w *world
	t int
}

func (v *rootView) log(op, name, res string) {
	v.w.log = append(v.w.log, ev{kind: "view", t: v.t, op: op, name: name, res: res})
}

func (v *rootView) Close() error {
	v.w.mu.Lock()
	defer v.w.mu.Unlock()
	v.log("rootclose", "", "ok")
	return nil
}

func (v *rootView) Mkdir(name path.Component, perm os.FileMode) error {
	v.w.mu.Lock()
	defer v.w.mu.Unlock()
	th := v.w.th[v.t]
	n := name.String()
	if th.fMkdir {
		th.fMkdir = false
		v.log("mkdir", n, "fault")
		return status.Error(codes.PermissionDenied, "injected mkdir failure")
	}
	if _, ok := v.w.root[n]; ok {
		v.log("mkdir", n, "exists")
		return status.Error(codes.AlreadyExists, "file exists")
	}
	v.w.root[n] = &node{name: n, entries: map[string]bool{}}
	v.log("mkdir", n, "ok")
	return nil
}

func (v *rootView) Mknod(name path.Component, perm os.FileMode, deviceNumber filesystem.DeviceNumber) error {
	v.w.mu.Lock()
	defer v.w.mu.Unlock()
	v.log("other", name.String(), "mknod-in-root")
	return errUnimplemented
}

func (v *rootView) ReadDir() ([]filesystem.FileInfo, error) {
	v.w.mu.Lock()
	defer v.w.mu.Unlock()
	v.log("other", "", "readdir-root")
	return nil, errUnimplemented
}

func (v *rootView) EnterBuildDirectory(name path.Component) (builder.BuildDirectory, error) {
	v.w.mu.Lock()
	defer v.w.mu.Unlock()
	th := v.w.th[v.t]
	n := name.String()
	if th.fEnter {
		th.fEnter = false
		v.log("enter", n, "fault")
		return nil, status.Error(codes.ResourceExhausted, "injected enter failure")
	}
	nd, ok := v.w.root[n]
	if !ok {
		v.log("enter", n, "missing")
		return nil, status.Error(codes.NotFound, "no such directory")
	}
	v.log("enter", n, "ok")
	return &childView{w: v.w, t: v.t, node: nd}, nil
}

func (v *rootView) Remove(name path.Component) error {
	v.w.mu.Lock()
	defer v.w.mu.Unlock()
	th := v.w.th[v.t]
	n := name.String()
	if th.fRmdir {
		th.fRmdir = false
		v.log("rmdir", n, "fault")
		return status.Error(codes.PermissionDenied, "injected remove failure")
	}
	nd, ok := v.w.root[n]
	if !ok || len(nd.entries) != 0 {
		v.log("rmdir", n, "kept")
		return status.Error(codes.FailedPrecondition, "directory missing or not empty")
	}
	delete(v.w.root, n)
	v.log("rmdir", n, "removed")
	return nil
}

func (v *rootView) RemoveAll(name path.Component) error {
	v.w.mu.Lock()
	defer v.w.mu.Unlock()
	th := v.w.th[v.t]
	n := name.String()
	if th.fRemoveAll {
		th.fRemoveAll = false
		v.log("removeall", n, "fault")
		return status.Error(codes.PermissionDenied, "injected removeall failure")
	}
	delete(v.w.root, n)
	v.log("removeall", n, "removed")
	return nil
}

// childView is a directory handed out to an action.
type childView struct {
	stubDirectory
	w    *world
	t    int
	node *node
}

func (c *childView) log(op, name, res string) {
	c.w.log = append(c.w.log, ev{kind: "view", t: c.t, op: op, name: name, res: res})
}

func (c *childView) Close() error {
	c.w.mu.Lock()
	defer c.w.mu.Unlock()
	th := c.w.th[c.t]
	if th.fChildClose {
		th.fChildClose = false
		c.log("closechild", c.node.name, "err")
		return status.Error(codes.DataLoss, "injected close failure")
	}
	c.log("closechild", c.node.name, "ok")
	return nil
}

func (c *childView) create(name path.Component) error {
	c.w.mu.Lock()
	defer c.w.mu.Unlock()
	n := name.String()
	if c.node.entries[n] {
		c.log("write", c.node.name, "exists")
		return status.Error(codes.AlreadyExists, "file exists")
	}
	c.node.entries[n] = true
	c.log("write", c.node.name, n)
	return nil
}

func (c *childView) Mkdir(name path.Component, perm os.FileMode) error { return c.create(name) }

func (c *childView) Mknod(name path.Component, perm os.FileMode, deviceNumber filesystem.DeviceNumber) error {
	return c.create(name)
}

func (c *childView) ReadDir() ([]filesystem.FileInfo, error) {
	c.w.mu.Lock()
	defer c.w.mu.Unlock()
	var names []string
	for n := range c.node.entries {
		names = append(names, n)
	}
	sort.Strings(names)
	out := make([]filesystem.FileInfo, 0, len(names))
	for _, n := range names {
		out = append(out, filesystem.NewFileInfo(path.MustNewComponent(n), filesystem.FileTypeRegularFile, false))
	}
	return out, nil
}

func (c *childView) Remove(name path.Component) error    { return errUnimplemented }
func (c *childView) RemoveAll(name path.Component) error { return errUnimplemented }
func (c *childView) EnterBuildDirectory(name path.Component) (builder.BuildDirectory, error) {
	return nil, errUnimplemented
}
