// Package idle is the C12 correspondence harness (see harness_test.go); it is built with `go test -c`.
package idle
