package idle

// Correspondence harness + monitor for C12 (each action runs isolated and
// leaves nothing behind).  Real code under test: cleaner.IdleInvoker,
// runner.NewCleanRunner, builder.NewSharedBuildDirectoryCreator(
// NewCleanBuildDirectoryCreator(NewRootBuildDirectoryCreator(root), invoker), &counter)
// stacked per worker thread as cmd/bb_worker/main.go does.  Every blocking
// call runs in its own goroutine inside a testing/synctest bubble; after each
// injected event synctest.Wait() returns at the end of the lock-held segment(s)
// the event enabled.

import (
	"context"
	"fmt"
	"io"
	"log"
	"os"
	"sort"
	"strconv"
	"strings"
	"sync/atomic"
	"testing"
	"testing/synctest"
	"time"

	remoteexecution "github.com/bazelbuild/remote-apis/build/bazel/remote/execution/v2"
	"github.com/buildbarn/bb-remote-execution/pkg/builder"
	"github.com/buildbarn/bb-remote-execution/pkg/cleaner"
	runner_pb "github.com/buildbarn/bb-remote-execution/pkg/proto/runner"
	"github.com/buildbarn/bb-remote-execution/pkg/runner"
	"github.com/buildbarn/bb-storage/pkg/digest"
	"github.com/buildbarn/bb-storage/pkg/filesystem"
	"github.com/buildbarn/bb-storage/pkg/filesystem/path"

	"google.golang.org/grpc/status"

	"verifharness/internal/hx"
)

// Digests used for digest-named actions.  d0 and d2 differ but share their
// first 16 hex characters, i.e. the directory name.
var digests = map[string]string{
	"d0": "a1b2c3d4e5f60718" + strings.Repeat("0", 48),
	"d1": "0123456789abcdef" + strings.Repeat("1", 48),
	"d2": "a1b2c3d4e5f60718" + strings.Repeat("2", 48),
}

// ---------------------------------------------------------------------------
// Monitor: the property, judged on the implementation's event log only.
//
// What the log order means.  Events are appended when they are *reported*, which
// for an admission (Acquire returning) or a departure (Release being entered) is
// some time after / before the lock-held segment that performed it.  Only three
// things are exact: the order of one thread's own events, the order of the
// operations on the fake root directory (performed and logged under the fake's
// lock), and that cstart/cend are logged while the cleaner call is running.  The
// rules below use nothing else: overlap is judged (a) by operations reported
// inside a cleaner call and (b) at quiescence (a running cleaner stays running
// until the harness finishes it, so an overlap is still there when every
// goroutine is blocked); "exactly at 0->1 / 1->0" is judged per segment from the
// user count at the previous quiescent point, which is exact.

type monitor struct {
	phase        [maxThreads]string // out acq in rel (per thread, from its own events)
	kind         [maxThreads]string
	cleaner      int // thread inside the cleaner call, -1 if none
	cleanerPhase string
	dirty        bool // somebody was admitted since the last cleaning after a 1->0 transition started
	viol         string
	entered      map[int]string // directory threads: name of the directory entered and not yet closed
	heldName     map[int]string
	heldNode     map[int]*node
	admittedDir  [maxThreads]bool // dir thread: performed its first root operation in this call
	handedOut    [maxThreads]bool
	closeStarted [maxThreads]bool
	preCleanFail [maxThreads]bool // the cleaner called by this thread's Acquire failed
	relCleanFail [maxThreads]bool // the cleaner called by this thread's Release failed
	faulted      [maxThreads]bool // a directory fault was injected (and hit) in the current call
	rmFaulted    [maxThreads]bool // ... in RemoveAll
	flags        map[string]bool
	// per segment
	users0      int    // users at the previous quiescent point
	cleaner0    int    // cleaner at the previous quiescent point
	segAdmitted []int  // threads that showed they were admitted in this segment
	segCend     string // "", "acq ok", "acq err", "rel ok", "rel err"
	segCendBy   int
	segRelClean bool // a cleaning after a 1->0 transition started in this segment
}

func newMonitor() *monitor {
	m := &monitor{cleaner: -1, cleaner0: -1, entered: map[int]string{}, heldName: map[int]string{}, heldNode: map[int]*node{}, flags: map[string]bool{}}
	for i := range m.phase {
		m.phase[i] = "out"
	}
	return m
}

func (m *monitor) fail(format string, a ...any) {
	if m.viol == "" {
		m.viol = fmt.Sprintf(format, a...)
	}
}

func (m *monitor) users() int {
	n := 0
	for _, p := range m.phase {
		if p == "in" {
			n++
		}
	}
	return n
}

func (m *monitor) admit(t int) {
	if m.phase[t] != "acq" {
		m.fail("thread %d became a user without a pending Acquire (phase %s)", t, m.phase[t])
	}
	m.phase[t] = "in"
	m.segAdmitted = append(m.segAdmitted, t)
}

// beginSegment is called before an event is injected (at a quiescent point).
func (m *monitor) beginSegment() {
	m.users0, m.cleaner0 = m.users(), m.cleaner
	m.segAdmitted, m.segCend, m.segCendBy, m.segRelClean = nil, "", -1, false
}

func (m *monitor) feed(w *world, e ev) {
	t := e.t
	if t < 0 || t >= maxThreads {
		m.fail("event %v carries no thread identity", e)
		return
	}
	if m.cleaner != -1 && (e.kind == "admit" || e.kind == "view" || e.kind == "handout") {
		// reported between cstart and cend: it happened while the cleaner call was running
		m.fail("thread %d was admitted to / used the environment (%s %s %s) while the cleaner (called by thread %d) is running", t, e.kind, e.op, e.name, m.cleaner)
	}
	switch e.kind {
	case "panic":
		m.fail("panic in thread %d: %s", t, e.res)
		m.phase[t] = "out"
	case "cstart":
		if m.cleaner != -1 {
			m.fail("cleaner started by thread %d while the cleaner call of thread %d is still running", t, m.cleaner)
		}
		switch m.phase[t] {
		case "acq":
			m.cleanerPhase = "acq"
		case "in":
			m.phase[t] = "rel"
			m.cleanerPhase = "rel"
			m.segRelClean = true
			m.flags["post-clean"] = true
		default:
			m.fail("cleaner called by thread %d which is neither acquiring nor releasing (phase %s)", t, m.phase[t])
		}
		m.cleaner = t
	case "cend":
		if m.cleaner != t {
			m.fail("cleaner of thread %d finished but thread %d was recorded as cleaning", t, m.cleaner)
		}
		m.cleaner = -1
		m.segCend, m.segCendBy = m.cleanerPhase+" "+e.res, t
		m.preCleanFail[t] = m.cleanerPhase == "acq" && e.res != "ok"
		m.relCleanFail[t] = m.cleanerPhase == "rel" && e.res != "ok"
		m.flags["clean-"+e.res] = true
	case "admit":
		m.admit(t)
	case "view":
		if m.kind[t] == "dir" && m.phase[t] == "acq" {
			// the first operation on the root directory: GetBuildDirectory got past Acquire
			m.admit(t)
			m.admittedDir[t] = true
		}
		if m.phase[t] != "in" {
			m.fail("thread %d used the build directory (%s %s) outside its acquisition (phase %s)", t, e.op, e.name, m.phase[t])
		}
		switch e.op {
		case "rootclose":
			m.fail("Close() was called on the shared root build directory by thread %d", t)
		case "other":
			m.fail("unexpected operation %s on the root build directory by thread %d", e.res, t)
		case "mkdir":
			if e.res == "fault" {
				m.faulted[t] = true
			}
			if e.res == "exists" {
				m.flags["name-collision"] = true
			}
		case "enter":
			if e.res == "fault" {
				m.faulted[t] = true
			} else if e.res == "ok" {
				// root operations are logged in their real order: whoever entered this
				// name before and has not started to close it still holds it
				for o, n := range m.entered {
					if o != t && n == e.name {
						m.fail("threads %d and %d hold the same build directory %q at the same time", o, t, e.name)
					}
				}
				m.entered[t] = e.name
			}
		case "rmdir":
			if e.res == "fault" {
				m.faulted[t] = true
			}
		case "closechild":
			m.closeStarted[t] = true
			delete(m.entered, t)
			if e.res != "ok" {
				m.faulted[t] = true
			}
		case "removeall":
			if e.res == "fault" {
				m.faulted[t] = true
				m.rmFaulted[t] = true
			}
		}
	case "handout":
		th := w.th[t]
		for o, nd := range m.heldNode {
			if o != t && nd == th.node && !m.closeStarted[o] {
				m.fail("threads %d and %d were handed the same build directory %q", o, t, e.name)
			}
		}
		if e.res != "empty" {
			m.fail("thread %d was handed build directory %q which is not empty", t, e.name)
		}
		m.heldNode[t] = th.node
		m.heldName[t] = e.name
		m.handedOut[t] = true
		m.flags["handout"] = true
	case "ret":
		switch m.phase[t] {
		case "in":
			// left without cleaning; whether that was a 1->0 transition is judged at quiescence
		case "rel":
			if m.cleaner == t {
				m.fail("Release of thread %d returned while its cleaner call is still running", t)
			}
			if m.relCleanFail[t] && e.res == "OK" {
				m.fail("the call of thread %d returned success although a cleaner of the cleaning run after it (1->0) failed: something was left behind unreported", t)
			}
			m.relCleanFail[t] = false
		case "acq":
			// Acquire failed: only allowed after a cancellation or a failed pre-clean of this thread
			if e.res == "OK" {
				m.fail("call of thread %d returned success without ever being admitted", t)
			} else if !m.preCleanFail[t] && !(w.th[t] != nil && w.th[t].cancelled) {
				m.fail("Acquire of thread %d failed with %s although its pre-clean did not fail and its context was not cancelled", t, e.res)
			}
			m.preCleanFail[t] = false
		default:
			m.fail("thread %d returned twice", t)
		}
		m.phase[t] = "out"
		if m.kind[t] == "dir" {
			m.dirReturn(w, t, e)
		}
	}
}

// dirReturn judges a returning GetBuildDirectory/Close of a directory thread.
func (m *monitor) dirReturn(w *world, t int, e ev) {
	th := w.th[t]
	defer func() {
		delete(m.heldNode, t)
		delete(m.heldName, t)
		delete(m.entered, t)
		m.admittedDir[t], m.handedOut[t], m.closeStarted[t], m.faulted[t], m.rmFaulted[t] = false, false, false, false, false
	}()
	w.mu.Lock()
	defer w.mu.Unlock()
	if m.handedOut[t] {
		nd := m.heldNode[t]
		if !m.closeStarted[t] {
			m.fail("thread %d returned from Close() without closing its build directory", t)
		}
		// after Close: the directory (and so everything in it) is gone, unless its
		// removal was made to fail (then Close must not report success)
		if m.rmFaulted[t] && e.res == "OK" {
			m.fail("Close() of thread %d returned OK although removing build directory %q failed", t, nd.name)
		}
		if !m.rmFaulted[t] {
			if cur, ok := w.root[nd.name]; ok && cur == nd {
				m.fail("build directory %q of thread %d still exists (with %d entries) after Close() returned %s although no removal fault was injected",
					nd.name, t, len(nd.entries), e.res)
			}
		}
		return
	}
	if m.admittedDir[t] {
		// GetBuildDirectory failed after admission
		if e.res == "OK" {
			m.fail("GetBuildDirectory of thread %d returned success without handing out a directory", t)
		}
		if th.arg == "-" && !m.faulted[t] {
			m.fail("GetBuildDirectory of thread %d (action that may run in parallel, no fault injected) failed with %s: no directory of its own", t, e.res)
		}
	}
}

// quiescent is evaluated when all goroutines are durably blocked; trigger is
// the kind of event that started the segment (acq fin cancel rel write).
func (m *monitor) quiescent(w *world, trigger string) {
	users := m.users()
	if m.cleaner != -1 && users > 0 {
		m.fail("the cleaner (called by thread %d, %s) is running while %d users are running", m.cleaner,
			map[string]string{"acq": "before an Acquire", "rel": "in a Release"}[m.cleanerPhase], users)
	}
	// admissions: only onto a busy system with no cleaning in progress, or right after a successful pre-clean
	if len(m.segAdmitted) > 0 {
		m.dirty = true
		switch {
		case m.segCend == "acq ok":
		case m.segCend == "acq err":
			m.fail("thread %d was admitted (its Acquire returned nil) although a cleaner of the cleaning run before it failed", m.segAdmitted[0])
		case m.segCend != "":
			m.fail("thread %d was admitted although the cleaner call that just finished was %q, not a successful cleaning before an Acquire", m.segAdmitted[0], m.segCend)
		case m.cleaner0 != -1:
			m.fail("thread %d was admitted while the cleaner (called by thread %d) was running", m.segAdmitted[0], m.cleaner0)
		case m.users0 == 0:
			m.fail("thread %d was admitted on an idle system (0->1 users) without a successful cleaning immediately before", m.segAdmitted[0])
		}
	}
	if m.segCend == "acq ok" {
		found := false
		for _, t := range m.segAdmitted {
			found = found || t == m.segCendBy
		}
		if !found {
			m.fail("the cleaning before the Acquire of thread %d succeeded but the thread was not admitted", m.segCendBy)
		}
	}
	if m.segRelClean {
		m.dirty = false
	}
	if users == 0 && m.cleaner == -1 && m.dirty {
		m.fail("the last user left (1->0 users) without the cleaner being called")
	}
	for t := 0; t < maxThreads; t++ {
		if m.phase[t] == "acq" && m.cleaner != t {
			if m.cleaner == -1 {
				m.fail("Acquire of thread %d is still blocked although no cleaning is in progress", t)
			}
			if w.th[t] != nil && w.th[t].cancelled {
				m.fail("Acquire of thread %d is still blocked although its context was cancelled", t)
			}
		}
	}
}

// ---------------------------------------------------------------------------
// One history.

type outcome struct {
	monitor  string
	mismatch string
	expected string
	actual   string
	flags    map[string]bool
	steps    int
	ops      []string
	counts   map[string]int
}

type hist struct {
	w   *world
	m   *monitor
	drv *hx.Driver
	out *outcome
	// tie state
	mphase  [maxThreads]string // out acq in rel, as emitted to the model
	acqTok  [maxThreads]string
	relTok  [maxThreads]string
	begun   [maxThreads]bool
	relE1   [maxThreads]bool
	acqCode [maxThreads]string // code of the failed cleaning of this thread's Acquire / Release (from Model chained)
	relCode [maxThreads]string
	seen    map[int]bool
	waited  [maxThreads]bool
	fileSeq int
}

func newHist(drv *hx.Driver) *hist {
	w := &world{root: map[string]*node{}}
	w.gate = make(chan string)
	w.ii = cleaner.NewIdleInvoker(w.cleanerFn)
	w.runner = runner.NewCleanRunner(fakeRunner{w}, w.ii)
	h := &hist{w: w, m: newMonitor(), drv: drv, seen: map[int]bool{}}
	h.out = &outcome{flags: map[string]bool{}, counts: map[string]int{}}
	for i := range h.mphase {
		h.mphase[i] = "out"
	}
	return h
}

func (h *hist) mismatch(name, exp, act string) {
	if h.out.mismatch == "" {
		h.out.mismatch, h.out.expected, h.out.actual = name, exp, act
	}
}

func (h *hist) failed() bool { return h.out.monitor != "" || h.out.mismatch != "" }

// tieBroken: model and implementation already disagreed in this history; it goes
// on without the model so that the monitor can still find a failing input.
func (h *hist) tieBroken() bool { return h.drv == nil || h.out.mismatch != "" }

func (h *hist) ask(line string) string {
	if h.tieBroken() {
		return ""
	}
	r, err := h.drv.Ask(line)
	if err != nil {
		h.mismatch("model driver: "+line, "an answer", err.Error())
		return ""
	}
	if r == "disabled" || r == "bad-op" {
		h.mismatch("model correspondence: step "+line+" is not enabled in the model", r, "the implementation performed it")
	}
	return r
}

// idleItem is one Idle model step of a segment.  attr says which call of the
// thread the model's return token belongs to.
type idleItem struct {
	line string
	t    int
	kind string // fixed wake rel
	attr string // acq rel
}

// runIdle sends the items in the given order; it returns the predicted call
// results and whether every step was enabled.
func (h *hist) runIdle(items []idleItem) (acq, rel map[int]string, ok bool, bad string) {
	acq, rel, ok = map[int]string{}, map[int]string{}, true
	for _, it := range items {
		r, err := h.drv.Ask(it.line)
		if err != nil {
			return acq, rel, false, it.line + ": " + err.Error()
		}
		if r == "disabled" || r == "bad-op" {
			return acq, rel, false, it.line + ": " + r
		}
		tok, _, _ := strings.Cut(r, " | ")
		if tok == "-" {
			continue
		}
		ts, res, _ := strings.Cut(tok, ":")
		t, _ := strconv.Atoi(ts)
		if it.attr == "acq" {
			acq[t] = res
		} else {
			rel[t] = res
		}
	}
	return acq, rel, true, ""
}

// permutations of the movable items (wake / rel) that keep `wake t` before `rel t`.
func orders(items []idleItem, visit func([]idleItem) bool) bool {
	var fixedPart, movable []idleItem
	for _, it := range items {
		if it.kind == "fixed" {
			fixedPart = append(fixedPart, it)
		} else {
			movable = append(movable, it)
		}
	}
	used := make([]bool, len(movable))
	cur := append([]idleItem(nil), fixedPart...)
	var rec func() bool
	rec = func() bool {
		if len(cur) == len(fixedPart)+len(movable) {
			return visit(cur)
		}
		for i, it := range movable {
			if used[i] {
				continue
			}
			if it.kind == "rel" { // its own wake (if any) must come first
				blocked := false
				for j, o := range movable {
					if !used[j] && o.kind == "wake" && o.t == it.t {
						blocked = true
					}
				}
				if blocked {
					continue
				}
			}
			used[i] = true
			cur = append(cur, it)
			if rec() {
				return true
			}
			cur = cur[:len(cur)-1]
			used[i] = false
		}
		return false
	}
	return rec()
}

func (h *hist) askDir(line, want string) {
	r := h.ask(line)
	if h.tieBroken() || r == "" || want == "" {
		return
	}
	tok, _, _ := strings.Cut(r, " | ")
	if tok != want {
		h.mismatch("BuildDirs correspondence: "+line, tok, want)
	}
}

// finPattern: "ok" / "err" (two chained cleaners, both succeed / both fail) or
// "p" followed by one of o|e per chained cleaner (1..4).
func finPattern(a string) string {
	switch {
	case a == "ok":
		return "oo"
	case a == "err":
		return "ee"
	case len(a) >= 2 && len(a) <= 5 && a[0] == 'p' && strings.Trim(a[1:], "oe") == "":
		return a[1:]
	}
	return ""
}

var codeIDs = map[string]string{"OK": "0", "Unavailable": "1", "DeadlineExceeded": "2", "FailedPrecondition": "3", "OutOfRange": "4", "Canceled": "9"}
var idCodes = map[string]string{"0": "OK", "1": "Unavailable", "2": "DeadlineExceeded", "3": "FailedPrecondition", "4": "OutOfRange", "9": "Canceled"}

func codeOf(err error) string {
	return status.Code(err).String()
}

// start launches the goroutine of one call of thread t.
func (h *hist) start(th *thread) {
	w := h.w
	th.busy = true
	th.cancelled = false
	th.dir, th.node = nil, nil
	base, cancel := context.WithCancel(context.Background())
	th.ctx = context.WithValue(base, tkey{}, th.id)
	th.cancel = cancel
	th.relCh = make(chan relCmd)
	t := th.id
	go func() {
		defer func() {
			if r := recover(); r != nil {
				w.emit(ev{kind: "panic", t: t, res: fmt.Sprint(r)})
			}
		}()
		switch th.kind {
		case "raw":
			if err := w.ii.Acquire(th.ctx); err != nil {
				w.emit(ev{kind: "ret", t: t, res: codeOf(err)})
				return
			}
			w.emit(ev{kind: "admit", t: t})
			<-th.relCh
			err := w.ii.Release(th.ctx)
			w.emit(ev{kind: "ret", t: t, res: codeOf(err)})
		case "run":
			resp, err := w.runner.Run(th.ctx, &runner_pb.RunRequest{})
			if err == nil && resp == nil {
				w.emit(ev{kind: "panic", t: t, res: "Run returned neither a response nor an error"})
			}
			w.emit(ev{kind: "ret", t: t, res: codeOf(err)})
		case "chk":
			resp, err := w.runner.CheckReadiness(th.ctx, &runner_pb.CheckReadinessRequest{})
			if err == nil && resp == nil {
				w.emit(ev{kind: "panic", t: t, res: "CheckReadiness returned neither a response nor an error"})
			}
			w.emit(ev{kind: "ret", t: t, res: codeOf(err)})
		case "dir":
			var dg *digest.Digest
			if hash, ok := digests[th.arg]; ok {
				d := digest.MustNewDigest("verif", remoteexecution.DigestFunction_SHA256, hash, 1)
				dg = &d
			}
			bd, p, err := th.creator.GetBuildDirectory(th.ctx, dg)
			if err != nil {
				w.emit(ev{kind: "ret", t: t, res: codeOf(err)})
				return
			}
			name, res := "", "empty"
			if p != nil {
				name = p.GetUNIXString()
				name = name[strings.LastIndex(name, "/")+1:]
			}
			if cv, ok := bd.(interface {
				ReadDir() ([]filesystem.FileInfo, error)
			}); ok {
				if l, err := cv.ReadDir(); err != nil || len(l) != 0 {
					res = "nonempty"
				}
			}
			w.mu.Lock()
			th.dir = bd
			th.node = w.root[name]
			if th.node == nil {
				// handed out a directory that is not a child of the root under the reported name
				th.node = &node{name: name, entries: map[string]bool{}}
				res = "nonempty"
			}
			w.log = append(w.log, ev{kind: "handout", t: t, name: name, res: res})
			w.mu.Unlock()
			cmd := <-th.relCh
			w.mu.Lock()
			th.fChildClose, th.fRemoveAll = cmd.childErr, cmd.removeAllFault
			w.mu.Unlock()
			err = bd.Close()
			w.emit(ev{kind: "ret", t: t, res: codeOf(err)})
		}
	}()
}

// status of thread t as observed (from the monitor's view of the event log).
func (h *hist) obs(t int) string {
	switch h.m.phase[t] {
	case "acq":
		if h.m.cleaner == t {
			return "cleanA"
		}
		return "wait"
	case "in":
		return "in"
	case "rel":
		if h.m.cleaner == t {
			return "cleanR"
		}
		return "rel?"
	}
	return "out"
}

// enabled lists the events that can be injected now (from observed state).
func (h *hist) enabled(threads int, kinds bool) []string {
	var ops []string
	unusedDone := false
	acq := func(t int) {
		ops = append(ops, fmt.Sprintf("acq %d raw", t))
		if kinds {
			ops = append(ops, fmt.Sprintf("acq %d dir d0 0", t), fmt.Sprintf("acq %d dir - m", t))
		}
	}
	for t := 0; t < threads; t++ {
		th := h.w.th[t]
		switch {
		case th == nil:
			if !unusedDone {
				acq(t)
				unusedDone = true
			}
		case !th.busy:
			acq(t)
		case h.obs(t) == "wait" && !th.cancelled:
			ops = append(ops, fmt.Sprintf("cancel %d", t))
		case h.obs(t) == "in":
			ops = append(ops, fmt.Sprintf("rel %d 0", t))
		}
	}
	if h.m.cleaner != -1 {
		ops = append(ops, "fin ok", "fin err")
		if kinds {
			ops = append(ops, "fin peo")
		}
	}
	return ops
}

// exec injects one event; false = not applicable in the current state (skipped).
func (h *hist) exec(op string) bool {
	f := strings.Fields(op)
	if len(f) == 0 {
		return false
	}
	w := h.w
	thr := func(i int) (int, bool) {
		if len(f) <= i {
			return 0, false
		}
		t, err := strconv.Atoi(f[i])
		return t, err == nil && t >= 0 && t < maxThreads
	}
	h.m.beginSegment()
	var upfront []string
	var cleanerBefore = h.m.cleaner
	var waitersBefore []int
	for t := 0; t < maxThreads; t++ {
		if h.obs(t) == "wait" {
			waitersBefore = append(waitersBefore, t)
		}
	}
	switch f[0] {
	case "acq":
		t, ok := thr(1)
		if !ok || len(f) < 3 || (w.th[t] != nil && w.th[t].busy) {
			return false
		}
		kind := f[2]
		th := w.th[t]
		if th == nil {
			th = &thread{id: t}
			w.mu.Lock()
			w.th[t] = th
			w.mu.Unlock()
			// bb_worker: one decorator stack per worker thread over shared root, invoker and counter
			th.creator = builder.NewSharedBuildDirectoryCreator(
				builder.NewCleanBuildDirectoryCreator(
					builder.NewRootBuildDirectoryCreator(&rootView{w: w, t: t}),
					w.ii),
				&w.nextID)
		}
		switch kind {
		case "raw", "run", "chk":
		case "dir":
			if len(f) < 5 {
				return false
			}
			if _, ok := digests[f[3]]; !ok && f[3] != "-" {
				return false
			}
			th.arg = f[3]
			w.mu.Lock()
			th.fMkdir, th.fEnter, th.fRmdir = strings.Contains(f[4], "m"), strings.Contains(f[4], "e"), strings.Contains(f[4], "r")
			th.fChildClose, th.fRemoveAll = false, false
			w.mu.Unlock()
		default:
			return false
		}
		th.kind = kind
		h.m.kind[t] = kind
		h.m.phase[t] = "acq"
		h.mphase[t] = "acq"
		h.acqTok[t], h.relTok[t], h.begun[t] = "", "", false
		h.seen[t] = true
		upfront = append(upfront, fmt.Sprintf("acq %d", t))
		h.out.counts["acq-"+kind]++
		h.start(th)
	case "fin":
		if h.m.cleaner == -1 || len(f) < 2 {
			return false
		}
		pat := finPattern(f[1])
		if pat == "" {
			return false
		}
		h.out.counts["fin-"+map[bool]string{true: "err", false: "ok"}[strings.Contains(pat, "e")]]++
		if i := strings.Index(pat, "e"); i >= 0 && !strings.Contains(pat[i:], "o") {
			h.out.counts["fin-err-tail"]++
		} else if i >= 0 {
			h.out.counts["fin-err-then-ok"]++
		}
		w.gate <- pat
	case "cancel":
		t, ok := thr(1)
		if !ok || w.th[t] == nil || !w.th[t].busy || w.th[t].cancelled {
			return false
		}
		switch h.obs(t) {
		case "wait": // the parked Acquire returns
			upfront = append(upfront, fmt.Sprintf("cancel %d", t))
			h.out.flags["cancel"] = true
		case "in", "cleanA", "cleanR":
			// no segment of the invoker: the context is what the cleaners of this
			// thread's (current or next) cleaning run will see
			h.out.flags["cancel-cleaning"] = true
		default:
			return false
		}
		w.th[t].cancelled = true
		w.th[t].cancel()
		h.out.counts["cancel"]++
	case "rel":
		t, ok := thr(1)
		if !ok || w.th[t] == nil || h.obs(t) != "in" || len(f) < 3 {
			return false
		}
		th := w.th[t]
		if th.kind == "dir" && th.dir == nil {
			return false
		}
		cmd := relCmd{e1: strings.Contains(f[2], "1") && (th.kind == "run" || th.kind == "chk"),
			childErr:       strings.Contains(f[2], "c") && th.kind == "dir",
			removeAllFault: strings.Contains(f[2], "a") && th.kind == "dir"}
		h.relE1[t] = cmd.e1
		h.out.counts["rel-"+th.kind]++
		th.relCh <- cmd
	case "write":
		t, ok := thr(1)
		if !ok || w.th[t] == nil || w.th[t].kind != "dir" || h.obs(t) != "in" || w.th[t].dir == nil {
			return false
		}
		h.fileSeq++
		h.out.counts["write"]++
		func() {
			defer func() {
				if r := recover(); r != nil {
					w.emit(ev{kind: "panic", t: t, res: fmt.Sprint(r)})
				}
			}()
			w.th[t].dir.Mknod(path.MustNewComponent(fmt.Sprintf("f%d", h.fileSeq)), 0o666, filesystem.NewDeviceNumberFromMajorMinor(1, 3))
		}()
	default:
		return false
	}
	h.out.ops = append(h.out.ops, op)
	h.out.steps++
	h.segment(f, upfront, cleanerBefore, waitersBefore)
	return true
}

// segment lets the implementation run to quiescence, then feeds the monitor and
// replays the same segment on the Lean model.
func (h *hist) segment(f []string, upfront []string, cleanerBefore int, waitersBefore []int) {
	synctest.Wait()
	progress.Add(1)
	evs := h.w.drain()
	for _, e := range evs {
		h.m.feed(h.w, e)
		if e.kind == "ret" || e.kind == "panic" {
			if e.t >= 0 && e.t < maxThreads && h.w.th[e.t] != nil {
				h.w.th[e.t].busy = false
			}
		}
	}
	h.m.quiescent(h.w, f[0])
	for t := 0; t < maxThreads; t++ {
		if h.obs(t) == "wait" {
			h.waited[t] = true
			h.out.flags["waited"] = true
		}
	}
	if h.m.viol != "" {
		h.out.monitor = h.m.viol
		return
	}
	if h.tieBroken() {
		return
	}
	// ---- model side ----
	// (1) Idle steps of this segment, in the order the log suggests.
	var items []idleItem
	cleanCode, chainOK := "", false
	_ = cleanCode
	for _, l := range upfront {
		t, _ := strconv.Atoi(strings.Fields(l)[1])
		items = append(items, idleItem{line: l, t: t, kind: "fixed", attr: "acq"})
	}
	pendingWake := map[int]bool{}
	if f[0] == "fin" {
		attr := "rel"
		if h.mphase[cleanerBefore] == "acq" {
			attr = "acq"
		}
		// the chained cleaner: what the individual cleaners answered -> Model chained
		var outs []string
		observedRet := ""
		for _, e := range evs {
			if e.kind == "sub" {
				outs = append(outs, codeIDs[e.res])
			}
			if e.kind == "chainret" {
				observedRet = e.res
			}
			if e.kind == "cend" {
				break
			}
		}
		ans := strings.Fields(h.ask("chain " + strings.Join(outs, " ")))
		if h.tieBroken() || len(ans) != 2 {
			return
		}
		if want := fmt.Sprint(len(finPattern(f[1]))); ans[1] != want || fmt.Sprint(len(outs)) != want {
			h.mismatch("ChainedCleaner correspondence: number of cleaners invoked (theorem C12.chained_invokes_all)", want+" (model "+ans[1]+")", fmt.Sprint(len(outs)))
			return
		}
		if idCodes[ans[0]] != observedRet {
			h.mismatch("ChainedCleaner correspondence: result for outcomes ["+strings.Join(outs, " ")+"] (theorems C12.chained_nil_iff / C12.chained_first_error)", idCodes[ans[0]], observedRet)
			return
		}
		cleanCode = idCodes[ans[0]]
		chainOK = ans[0] == "0"
		items = append(items, idleItem{line: fmt.Sprintf("done %d %s", cleanerBefore, map[bool]string{true: "ok", false: "err"}[chainOK]), t: cleanerBefore, kind: "fixed", attr: attr})
		if attr == "acq" {
			h.acqCode[cleanerBefore] = cleanCode
		} else {
			h.relCode[cleanerBefore] = cleanCode
		}
		// close(wakeup) wakes every parked Acquire; the order in which they re-take
		// the lock is the Go scheduler's choice
		for _, t := range waitersBefore {
			pendingWake[t] = true
		}
	}
	phase := h.mphase
	wake := func(t int) {
		if pendingWake[t] {
			delete(pendingWake, t)
			items = append(items, idleItem{line: fmt.Sprintf("wake %d", t), t: t, kind: "wake", attr: "acq"})
		}
	}
	leaveIdle := func(t int) {
		if phase[t] == "in" {
			phase[t] = "rel"
			items = append(items, idleItem{line: fmt.Sprintf("rel %d", t), t: t, kind: "rel", attr: "rel"})
		}
	}
	for _, e := range evs {
		t := e.t
		switch e.kind {
		case "admit":
			wake(t)
			phase[t] = "in"
		case "view":
			if phase[t] == "acq" {
				wake(t)
				phase[t] = "in"
			}
		case "cstart":
			wake(t)
			leaveIdle(t)
		case "ret":
			wake(t)
			leaveIdle(t)
			phase[t] = "out"
		}
	}
	for _, t := range waitersBefore { // woken, found a new cleaning in progress, parked again
		wake(t)
	}
	// observed Idle state
	var ts []int
	for t := range h.seen {
		ts = append(ts, t)
	}
	sort.Ints(ts)
	pcs := make([]string, len(ts))
	for i, t := range ts {
		pcs[i] = fmt.Sprintf("%d:%s", t, h.obs(t))
	}
	cl := 0
	if h.m.cleaner != -1 {
		cl = 1
	}
	observed := fmt.Sprintf("u=%d w=%d p=0 pcs=%s", h.m.users(), cl, strings.Join(pcs, ","))
	h.drv.Ask("isave")
	var acqTok, relTok map[int]string
	firstDump, firstBad := "", ""
	tried := 0
	found := orders(items, func(cand []idleItem) bool {
		if tried > 0 {
			h.drv.Ask("irestore")
		}
		tried++
		a, r, ok, bad := h.runIdle(cand)
		dump, _ := h.drv.Ask("idump")
		if tried == 1 {
			firstDump, firstBad = dump, bad
		}
		if ok && dump == observed {
			acqTok, relTok = a, r
			return true
		}
		return false
	})
	if tried > 1 {
		h.out.flags["reordered-wakeups"] = true
	}
	if !found {
		exp := firstDump
		if firstBad != "" {
			exp = "step not enabled in the model: " + firstBad
		}
		h.mismatch(fmt.Sprintf("Idle state correspondence after %q: no order of the %d model steps of this segment explains the observed state (theorems C12.idle_inv / C12.transitions / C12.no_stuck_waiter)", strings.Join(f, " "), len(items)), exp, observed)
		return
	}
	for t, r := range acqTok {
		h.acqTok[t] = r
	}
	for t, r := range relTok {
		h.relTok[t] = r
	}

	// (2) BuildDirs steps, in log order (each root operation is atomic and logged under the fake's lock).
	if f[0] == "fin" {
		h.askDir("dclean "+map[bool]string{true: "ok", false: "err"}[chainOK], "ok")
	}
	// directory threads admitted in this segment: begin + name, counter names in issue order
	type adm struct {
		t    int
		num  uint64
		name string
	}
	var adms []adm
	for _, e := range evs {
		if e.kind == "view" && e.op == "mkdir" && h.w.th[e.t].kind == "dir" && !h.begun[e.t] {
			h.begun[e.t] = true
			a := adm{t: e.t, name: e.name, num: ^uint64(0)}
			if h.w.th[e.t].arg == "-" {
				if n, err := strconv.ParseUint(e.name, 10, 64); err == nil {
					a.num = n
				}
			}
			adms = append(adms, a)
		}
	}
	sort.SliceStable(adms, func(i, j int) bool { return adms[i].num < adms[j].num })
	for _, a := range adms {
		arg := "-"
		if hash, ok := digests[h.w.th[a.t].arg]; ok {
			arg = hash[:16]
		}
		h.askDir(fmt.Sprintf("dbegin %d %s", a.t, arg), "ok")
		h.askDir(fmt.Sprintf("dname %d", a.t), "name "+a.name)
	}
	flag := func(b bool) string {
		if b {
			return "1"
		}
		return "0"
	}
	leaveDir := func(t int) {
		if h.mphase[t] == "in" {
			if h.begun[t] {
				h.askDir(fmt.Sprintf("drel %d", t), "ok")
			}
			h.mphase[t] = "rel"
		}
	}
	for _, e := range evs {
		t := e.t
		switch e.kind {
		case "admit":
			h.mphase[t] = "in"
		case "cstart":
			leaveDir(t)
		case "view":
			if h.mphase[t] == "acq" {
				h.mphase[t] = "in"
			}
			switch e.op {
			case "mkdir":
				h.askDir(fmt.Sprintf("dmkdir %d %s", t, flag(e.res == "fault")), e.res)
			case "enter":
				if e.res != "ok" {
					h.askDir(fmt.Sprintf("denter %d %s", t, flag(e.res == "fault")), "fail")
				}
				// a successful enter is compared at the handout event (with emptiness)
			case "rmdir":
				h.askDir(fmt.Sprintf("drmdir %d %s", t, flag(e.res == "fault")), map[string]string{"fault": "kept"}[e.res]+map[string]string{"kept": "kept", "removed": "removed"}[e.res])
			case "write":
				if strings.HasPrefix(e.res, "f") {
					h.askDir(fmt.Sprintf("dwrite %d %s", t, e.res[1:]), "ok")
				}
			case "closechild":
				h.askDir(fmt.Sprintf("dcc %d %s", t, flag(e.res != "ok")), "ok")
			case "removeall":
				h.askDir(fmt.Sprintf("dra %d %s", t, flag(e.res == "fault")), e.res)
			}
		case "handout":
			h.askDir(fmt.Sprintf("denter %d 0", t), "ok "+e.res)
		case "ret":
			leaveDir(t)
			h.compareReturn(t, e.res)
			h.mphase[t] = "out"
		}
	}
	h.compareDirs(ts)
}

// compareReturn checks the gRPC code a finished call returned against the
// result the model predicts for it.
func (h *hist) compareReturn(t int, code string) {
	th := h.w.th[t]
	want := ""
	b := map[bool]string{true: "1", false: "0"}
	switch {
	case h.acqTok[t] == "err":
		want = h.acqCode[t]
	case h.acqTok[t] == "cancelled":
		want = "Canceled"
	case th.kind == "raw":
		want = map[string]string{"ok": "OK", "err": h.relCode[t]}[h.relTok[t]]
	case th.kind == "run" || th.kind == "chk":
		r := h.ask(fmt.Sprintf("runres %s %s", b[h.relE1[t]], b[h.relTok[t] == "err"]))
		want = map[string]string{"0": "OK", "1": "Aborted", "2": h.relCode[t]}[r]
	case th.kind == "dir":
		r := h.ask(fmt.Sprintf("dfin %d %s", t, b[h.relTok[t] == "err"]))
		tok, _, _ := strings.Cut(r, " | ")
		want = map[string]string{"ret ok": "OK", "ret internal": "Internal", "ret childErr": "DataLoss", "ret cleanErr": h.relCode[t]}[tok]
	}
	if want != code {
		h.mismatch(fmt.Sprintf("result of the %s call of thread %d (theorems C12.transitions / C12.close_result)", th.kind, t), want, code)
	}
}

// compareDirs compares the root build directory and the directory threads at
// quiescence with Model/BuildDirs.lean.
func (h *hist) compareDirs(ts []int) {
	if h.failed() {
		return
	}
	w := h.w
	dpcs := make([]string, len(ts))
	active := 0
	for i, t := range ts {
		d := "idle"
		th := w.th[t]
		if th.kind == "dir" && th.busy {
			switch h.m.phase[t] {
			case "in":
				active++
				d = "hold:" + h.m.heldName[t]
			case "rel":
				d = "rel"
			}
		}
		dpcs[i] = fmt.Sprintf("%d:%s", t, d)
	}
	w.mu.Lock()
	var names []string
	for n := range w.root {
		names = append(names, n)
	}
	sort.Strings(names)
	ents := make([]string, len(names))
	for i, n := range names {
		var fs []int
		for f := range w.root[n].entries {
			k, _ := strconv.Atoi(strings.TrimPrefix(f, "f"))
			fs = append(fs, k)
		}
		sort.Ints(fs)
		ss := make([]string, len(fs))
		for j, k := range fs {
			ss[j] = strconv.Itoa(k)
		}
		ents[i] = n + ":" + strings.Join(ss, ".")
	}
	w.mu.Unlock()
	got := fmt.Sprintf("next=%d active=%d root=%s pcs=%s", w.nextID.Load(), active, strings.Join(ents, ","), strings.Join(dpcs, ","))
	exp := h.ask("ddump")
	if exp != got {
		h.mismatch("BuildDirs state correspondence Model/BuildDirs.lean <-> root build directory after "+h.out.ops[len(h.out.ops)-1]+" (theorem C12.distinct_dirs)", exp, got)
	}
}

// finish ends the history: every goroutine must terminate before the bubble does.
func (h *hist) finish() {
	w := h.w
	for round := 0; round < 4*maxThreads+8; round++ {
		alive := false
		for t := 0; t < maxThreads; t++ {
			if w.th[t] != nil && w.th[t].busy {
				alive = true
			}
		}
		if !alive {
			return
		}
		// let everything run to completion without judging it any further
		select {
		case w.gate <- "o":
		default:
		}
		for t := 0; t < maxThreads; t++ {
			th := w.th[t]
			if th == nil || !th.busy {
				continue
			}
			th.cancel()
			select {
			case th.relCh <- relCmd{}:
			default:
			}
		}
		synctest.Wait()
		for _, e := range w.drain() {
			if (e.kind == "ret" || e.kind == "panic") && e.t >= 0 && e.t < maxThreads && w.th[e.t] != nil {
				w.th[e.t].busy = false
			}
		}
	}
}

var progress atomic.Int64
var currentHistory atomic.Value

// runHistory executes one history in a fresh bubble.  next returns the next
// event to inject given the history so far ("" = stop).
func runHistory(t *testing.T, drv *hx.Driver, next func(h *hist, step int) string) *outcome {
	var out *outcome
	synctest.Test(t, func(t *testing.T) {
		if drv != nil {
			drv.Ask("reset")
		}
		h := newHist(drv)
		out = h.out
		for step := 0; h.out.monitor == ""; step++ {
			op := next(h, step)
			if op == "" {
				break
			}
			currentHistory.Store(append(append([]string(nil), h.out.ops...), op))
			h.exec(op)
		}
		for k, v := range h.m.flags {
			out.flags[k] = v
		}
		h.finish()
	})
	return out
}

func fixed(ops []string) func(h *hist, step int) string {
	return func(h *hist, step int) string {
		if step >= len(ops) {
			return ""
		}
		return ops[step]
	}
}

// ---------------------------------------------------------------------------
// Generators.

func randomOp(r *hx.Rand, h *hist, threads int, profile int) string {
	w := h.w
	var cands []string
	var weights []int
	add := func(wt int, op string) { cands = append(cands, op); weights = append(weights, wt) }
	faults := func(set string, num int) string {
		s := ""
		for _, c := range set {
			if r.Chance(num, 10) {
				s += string(c)
			}
		}
		if s == "" {
			return "0"
		}
		return s
	}
	for t := 0; t < threads; t++ {
		th := w.th[t]
		switch {
		case th == nil || !th.busy:
			var kind string
			switch profile {
			case 0: // invoker only
				kind = "raw"
			case 1: // directories
				kind = "dir"
				if r.Chance(1, 6) {
					kind = "raw"
				}
			default:
				kind = []string{"raw", "run", "chk", "dir", "dir"}[r.Intn(5)]
			}
			op := fmt.Sprintf("acq %d %s", t, kind)
			if kind == "dir" {
				arg := []string{"-", "-", "d0", "d0", "d1", "d2"}[r.Intn(6)]
				op += " " + arg + " " + faults("mer", 1)
			}
			add(6, op)
		case h.obs(t) == "wait" && !th.cancelled:
			add(3, fmt.Sprintf("cancel %d", t))
		case (h.obs(t) == "cleanA" || h.obs(t) == "cleanR") && !th.cancelled:
			add(1, fmt.Sprintf("cancel %d", t))
		case h.obs(t) == "in":
			if !th.cancelled && r.Chance(1, 4) {
				add(1, fmt.Sprintf("cancel %d", t))
			}
			if th.kind == "dir" && th.dir == nil {
				continue
			}
			add(5, fmt.Sprintf("rel %d %s", t, faults("1ca", 2)))
			if th.kind == "dir" {
				add(3, fmt.Sprintf("write %d", t))
			}
		}
	}
	if h.m.cleaner != -1 {
		// keep the cleaner running for a while so that others pile up behind it
		add(4, "fin ok")
		add(1, "fin err")
		// 1..4 chained cleaners: a single failure at a random position, or independent failures
		k := 1 + r.Intn(4)
		pat := []byte(strings.Repeat("o", k))
		if r.Chance(1, 2) {
			pat[r.Intn(k)] = 'e'
		} else {
			for i := range pat {
				if r.Chance(1, 3) {
					pat[i] = 'e'
				}
			}
		}
		add(4, "fin p"+string(pat))
	}
	if len(cands) == 0 {
		return ""
	}
	return cands[r.Pick(weights...)]
}

// malformed ops must be skipped without effect.
var junk = []string{"", "acq", "acq 9 raw", "acq 0 foo", "fin maybe", "fin p", "fin pooooo", "fin pxo", "rel 7 0", "cancel x", "write 0", "acq 0 dir zz 0", "rel 0"}

func TestHarness(t *testing.T) {
	o := hx.ParseFlags()
	log.SetOutput(io.Discard) // sharedBuildDirectoryCreator logs the injected Remove failures
	res := hx.NewResult("idle", o, "histories of events (acq t raw|run|chk|dir, fin ok|err, cancel t, rel t, write t) over <=5 threads driving the real IdleInvoker / cleanRunner / shared+clean+root build directory creators in a synctest bubble, one lock-held segment at a time: (a) all event orders of raw Acquire/Release/cancel/cleaner ok|err for 3 threads up to a fixed length, (b) random longer ones with cleaner failures, cancellations and directory faults; the invoker's cleaner is the real NewChainedCleaner over 1-4 instrumented cleaners (fin p<o|e...>: failure at every position, contexts cancelled before/while cleaning); non-trivial = at least one Acquire had to wait for a running cleaner and at least one cleaning after a 1->0 transition completed; distinct = hash of the event list")
	drv, err := hx.StartDriver("idle")
	if err != nil {
		fmt.Fprintln(os.Stderr, "cannot start model driver:", err)
		os.Exit(3)
	}
	defer drv.Close()

	// watchdog: a mutation can make the real code block on its mutex for ever,
	// which synctest cannot see; report the history instead of hanging
	stop := make(chan struct{})
	defer close(stop)
	go func() {
		last, lastChange := progress.Load(), time.Now()
		for {
			select {
			case <-stop:
				return
			case <-time.After(2 * time.Second):
			}
			if p := progress.Load(); p != last {
				last, lastChange = p, time.Now()
			} else if time.Since(lastChange) > hx.StallLimit(90*time.Second) {
				ops, _ := currentHistory.Load().([]string)
				res.Report(hx.Finding{Kind: "violation", Property: "C12", History: ops,
					Name: "C12 monitor: every blocked call returns",
					What: "the implementation did not reach quiescence within the load-scaled stall limit (at least 240 s of real time) after the last event of this history (a call is blocked outside any channel wait)",
					Sig:  hx.Sig("C12", "idle", "hang")})
				res.ModelLines = drv.Lines
				res.Write(o)
				os.Exit(0)
			}
		}
	}()

	account := func(out *outcome) {
		res.Evaluations += out.steps
		res.TracesVsImpl++
		for k := range out.flags {
			res.Count("history-with-" + k)
		}
		for k, v := range out.counts {
			res.Histogram["op-"+k] += v
		}
		res.History(out.ops, out.flags["waited"] && out.flags["post-clean"] && (out.flags["clean-ok"] || out.flags["clean-err"]))
	}

	// After the first model/implementation disagreement the remaining histories run
	// without the model: the monitor keeps looking for an input that violates the
	// property itself.
	var firstMismatch *outcome
	violation := false
	cur := func() *hx.Driver {
		if firstMismatch != nil {
			return nil
		}
		return drv
	}
	var report func(out *outcome)
	handle := func(out *outcome) {
		if out.mismatch != "" && firstMismatch == nil {
			firstMismatch = out
		}
		if out.monitor != "" {
			violation = true
			report(out)
		}
	}
	report = func(out *outcome) {
		wantMonitor := out.monitor != ""
		fails := func(cand []string) bool {
			r := runHistory(t, drv, fixed(cand))
			if wantMonitor {
				return r.monitor != ""
			}
			return r.mismatch != ""
		}
		min := hx.Shrink(out.ops, fails)
		r := runHistory(t, drv, fixed(min))
		if r.monitor == "" && r.mismatch == "" { // not reproducible after shrinking: report the original
			min, r = out.ops, out
		}
		f := hx.Finding{Property: "C12", History: min}
		if r.monitor != "" {
			f.Kind, f.What, f.Name = "violation", r.monitor, "C12 monitor on the implementation trace (cleaner/user exclusion, cleaning exactly at 0->1 and 1->0, no stuck waiter, distinct empty removed directories)"
		} else {
			f.Kind, f.What, f.Name = "mismatch", r.mismatch, "correspondence Model/Idle.lean + Model/BuildDirs.lean <-> idle_invoker.go / clean_runner.go / *_build_directory_creator.go (theorems C12.idle_inv, C12.exclusion, C12.transitions, C12.no_stuck_waiter, C12.distinct_dirs)"
			f.Expected, f.Actual = r.expected, r.actual
		}
		f.Sig = hx.Sig("C12", "idle", strings.Join(min, ";"))
		res.Report(f)
	}

	if o.Replay != "" {
		f, err := hx.LoadReplay(o.Replay)
		if err != nil {
			fmt.Fprintln(os.Stderr, err)
			os.Exit(3)
		}
		out := runHistory(t, drv, fixed(f.History))
		account(out)
		if out.monitor != "" {
			report(out)
		} else if out.mismatch != "" {
			report(out)
		}
		res.ModelLines = drv.Lines
		res.Write(o)
		return
	}

	// (a) exhaustive: every order of enabled events up to a fixed length
	shard, shards := 0, 1
	if o.Tier == "thorough" {
		shard, shards = int(o.Seed%12), 12
	}
	leaves := 0
	exhaustive := func(length, threads int, kinds bool) {
		choice := make([]int, length)
		for done := false; !done && !violation; {
			sizes := make([]int, length)
			skipped := false
			out := runHistory(t, cur(), func(h *hist, step int) string {
				if step >= length {
					return ""
				}
				if step == 4 && shards > 1 { // thorough: the 12 shards partition the tree by the first four choices
					k := 0
					for i := 0; i < 4; i++ {
						k = k*7 + choice[i]
					}
					if k%shards != shard {
						skipped = true
						return ""
					}
				}
				en := h.enabled(threads, kinds)
				sizes[step] = len(en)
				if len(en) == 0 {
					return ""
				}
				if choice[step] >= len(en) { // the Go scheduler resolved an earlier wake-up differently
					choice[step] = len(en) - 1
				}
				return en[choice[step]]
			})
			if !skipped {
				leaves++
				account(out)
				res.Count("exhaustive-leaf")
				handle(out)
			}
			// next choice vector
			i := length - 1
			for ; i >= 0; i-- {
				if sizes[i] > 0 && choice[i]+1 < sizes[i] {
					choice[i]++
					for j := i + 1; j < length; j++ {
						choice[j] = 0
					}
					break
				}
			}
			done = i < 0
		}
	}
	if o.Tier == "thorough" {
		exhaustive(10, 3, false)
		exhaustive(7, 3, true)
	} else {
		exhaustive(8, 3, false)
		exhaustive(5, 3, true)
	}

	// (b) random histories
	histories := 1500 * o.Scale
	if o.Tier == "thorough" {
		histories = 12000 * o.Scale
	}
	rng := hx.NewRand(o.Seed)
	for n := 0; n < histories && !violation; n++ {
		threads := 2 + rng.Intn(4)
		profile := rng.Intn(3)
		n := 6 + rng.Intn(40)
		withJunk := rng.Chance(1, 10)
		out := runHistory(t, cur(), func(h *hist, step int) string {
			if step >= n {
				return ""
			}
			if withJunk && rng.Chance(1, 8) {
				j := junk[rng.Intn(len(junk))]
				if j != "" {
					return j
				}
			}
			return randomOp(rng, h, threads, profile)
		})
		account(out)
		res.Count(fmt.Sprintf("random-profile-%d", profile))
		handle(out)
	}
	if firstMismatch != nil {
		firstMismatch.monitor = ""
		report(firstMismatch)
	}
	res.Histogram["exhaustive-leaves"] = leaves
	res.ModelLines = drv.Lines
	res.Write(o)
}
