package nfsreplay

import (
	"bytes"
	"fmt"
	"strings"
	"testing"
	"testing/synctest"

	"github.com/buildbarn/go-xdr/pkg/protocols/nfsv4"

	"verifharness/internal/hx"
	"verifharness/internal/nfsx"
)

// ---------------------------------------------------------------------------
// NFSv4.0: history ops (first op of the history is "v40"; two clients are
// registered up front)
//
//	open R C O Q F A H [park]   OPEN(CLAIM_NULL "f" in d<F>) by client C, open-owner O, seqid Q, access A, createhow H
//	oprev R C O Q F A [park]    OPEN(CLAIM_PREVIOUS) on file F
//	confirm R X Q               OPEN_CONFIRM with the state ID returned by request X, seqid Q
//	down R X Q A                OPEN_DOWNGRADE
//	close R X Q                 CLOSE
//	lock R X Q LQ off len T [lo=K]
//	                            LOCK with open_to_lock_owner4: open seqid Q, lock seqid LQ, lock-owner "lo<R>" (new)
//	                            or, with lo=K, the lock-owner of the earlier LOCK request K (nested lock-owner transaction)
//	lockx R Y Q off len T       LOCK, existing lock-owner: lock state ID of request Y, lock seqid Q
//	locku R Y Q off len         LOCKU
//	dup R                       retransmit request R (identical arguments)
//	rel R                       release the gate at which request R (an OPEN) is parked
//
// Every request is the compound [PUTFH, <op>]. A state ID "returned by request
// X" is the one in X's first reply that carried one.
// ---------------------------------------------------------------------------

const have40 = true

const (
	kOpen = iota
	kConfirm
	kDown
	kClose
	kLock
	kLocku
)

var advancingExcluded = map[uint32]bool{10022: true, 10023: true, 10025: true, 10026: true, 10036: true, 10018: true, 10020: true, 10019: true}

type req40 struct {
	id       int
	kind     int
	lockTx   bool // lock-owner transaction (lockx, locku)
	client   int
	owner    int // harness index of the open-owner (client, name); -1 unknown
	ownerKey string
	seq      uint32
	file     int
	args     []nfsv4.NfsArgop4
	argSid   nfsv4.Stateid4
	parkKind string
	gate     *nfsx.Gate
	dirLock  int // directory whose lock the parked call holds (-1 none)
	calls    []*call40
	mark     int
	lockOwn  int
	lockSeq  uint32
	falseOf  *req40
	consCall *call40 // the call that ran the transaction which advanced the owner under this seqid
}

type call40 struct {
	id          int
	req         *req40
	done        chan struct{}
	res         *nfsv4.Compound4res
	err         error
	bytes       []byte
	returned    bool
	observed    bool
	effBefore   int
	label       int
	mOut        string
	mOwner      string
	finished    bool
	retransOf   *call40
	fresh       bool
	accepted    bool // the transaction was started for this call (or it waits for / is the running one)
	consumed    bool // ... and advanced the owner's seqid
	expectBad   bool
	lockInOrder bool // client view: successor of the lock-owner's last accepted lock seqid
	inOrder     bool // client view: successor of the confirmed owner's last accepted seqid, nothing in flight, no nested lock-owner involved
	opStatus    uint32
}

type run40 struct {
	t   *testing.T
	w   *nfsx.World
	p   nfsv4.Nfs4Program
	drv *hx.Driver
	out *outcome

	clients        []uint64
	reqs           map[int]*req40
	calls          []*call40
	owners         map[string]int
	others         map[[12]byte]int
	confirmed      map[int]bool
	lastCons       map[int]*req40 // owner -> last request that advanced its seqid
	touched        map[int]int
	consumed       map[[2]int]*req40 // (owner, seq) -> request that advanced the owner under that seqid
	lockCons       map[[2]int]*req40 // (lock other, seq)
	dirBusy        map[int]int       // directory -> owner of the OPEN parked inside its lock
	lastLock       map[int]*req40    // lock-owner -> last request that advanced its lock seqid
	inflight       map[int]*req40    // owner -> request whose transaction is running (OPEN parked)
	lockOtherOwner map[int]int       // lock state ID other (canonical) -> lock-owner
	otherFile      map[int]string    // open state ID other (canonical) -> file handle GETFH returned when it was opened
	dirty          map[int]bool      // owner -> a request since the last advance failed without advancing (it may have dropped the cache)
	label          int
}

func newRun40(t *testing.T, w *nfsx.World, drv *hx.Driver, out *outcome) *run40 {
	r := &run40{t: t, w: w, p: w.NewNFS40(), drv: drv, out: out, reqs: map[int]*req40{}, owners: map[string]int{},
		others: map[[12]byte]int{}, confirmed: map[int]bool{}, lastCons: map[int]*req40{}, touched: map[int]int{},
		consumed: map[[2]int]*req40{}, lockCons: map[[2]int]*req40{}, dirBusy: map[int]int{}, lastLock: map[int]*req40{}, inflight: map[int]*req40{}, dirty: map[int]bool{}, otherFile: map[int]string{}, lockOtherOwner: map[int]int{}}
	for c := 0; c < 2; c++ {
		id, err := nfsx.Register40(r.p, fmt.Sprintf("client%d", c), 1)
		if err != nil {
			out.monitor = "SETCLIENTID failed: " + err.Error()
		}
		r.clients = append(r.clients, id)
	}
	if drv != nil {
		if o, err := drv.Ask("40 reset"); err != nil || o != "ok" {
			r.failMismatch("driver", "ok", o, "reset: %v", err)
		}
	}
	return r
}

func (r *run40) failMonitor(format string, a ...any) {
	if r.out.monitor == "" {
		r.out.monitor = fmt.Sprintf(format, a...)
	}
}

func (r *run40) failMismatch(name, expected, actual, format string, a ...any) {
	if r.out.mismatch == "" {
		r.out.mismatch = fmt.Sprintf(format, a...)
		r.out.name, r.out.expected, r.out.actual = name, expected, actual
	}
}

const name40 = "correspondence Model/Replay40.lean <-> nfs40_program.go (startTransaction / complete / replay checks; theorems C19.same_reply_40, seq_advance_rule_40, false_retry_40, misordered_no_effect_40)"

func (r *run40) ask(line string) string {
	if r.drv == nil || r.out.mismatch != "" {
		return ""
	}
	o, err := r.drv.Ask("40 " + line)
	if err != nil {
		r.failMismatch("driver", "", "", "driver: %v", err)
		return ""
	}
	r.out.steps++
	return o
}

func (r *run40) other(sid nfsv4.Stateid4) int {
	if _, ok := r.others[sid.Other]; !ok {
		r.others[sid.Other] = len(r.others)
	}
	return r.others[sid.Other]
}

// lockSeqOf: the lock seqid the request carried (LOCK with a new/named lock-owner: LQ).
func (q *req40) lockSeqOf() uint32 {
	if q.lockTx {
		return q.seq
	}
	return q.lockSeq
}

func (q *req40) firstReturned() *call40 {
	for _, c := range q.calls {
		if c.returned {
			return c
		}
	}
	return nil
}

func (q *req40) orig() *call40 {
	for _, c := range q.calls {
		if c.accepted {
			return c
		}
	}
	return nil
}

// opRes is the result of the transaction op of a [PUTFH, op] compound (nil if
// the compound stopped before it).
func opRes(res *nfsv4.Compound4res) nfsv4.NfsResop4 {
	if len(res.Resarray) >= 2 {
		return res.Resarray[1]
	}
	return nil
}

// opSt is the status of the transaction op: the compound's status, unless
// operations after it were evaluated (then it succeeded).
func opSt(res *nfsv4.Compound4res) uint32 {
	if len(res.Resarray) > 2 {
		return 0
	}
	return uint32(res.Status)
}

func opBytes(res *nfsv4.Compound4res) []byte {
	o := opRes(res)
	if o == nil {
		return nil
	}
	var b bytes.Buffer
	o.WriteTo(&b)
	return b.Bytes()
}

// sidOf: the state ID carried by the first reply of request x that had one.
func (r *run40) sidOf(x int) (nfsv4.Stateid4, *req40) {
	q, ok := r.reqs[x]
	if !ok {
		return nfsv4.Stateid4{Seqid: 1, Other: [12]byte{0x76, 0x65, 0x72, 0x69, 9, 9}}, nil
	}
	for _, c := range q.calls {
		if c.returned && c.res != nil {
			if sid, ok := nfsx.OpenStateID(c.res); ok {
				return sid, q
			}
			if sid, ok := nfsx.ResultStateID(c.res); ok {
				return sid, q
			}
		}
	}
	return nfsv4.Stateid4{Seqid: 1, Other: [12]byte{0x76, 0x65, 0x72, 0x69, 9, 9}}, q
}

func (r *run40) ownerIndex(client, owner int) (int, string) {
	key := fmt.Sprintf("%d/%d", client, owner)
	if _, ok := r.owners[key]; !ok {
		r.owners[key] = len(r.owners)
	}
	return r.owners[key], key
}

func kindOfRes(x nfsv4.NfsResop4) int {
	switch x.(type) {
	case *nfsv4.NfsResop4_OP_OPEN:
		return kOpen
	case *nfsv4.NfsResop4_OP_OPEN_CONFIRM:
		return kConfirm
	case *nfsv4.NfsResop4_OP_OPEN_DOWNGRADE:
		return kDown
	case *nfsv4.NfsResop4_OP_CLOSE:
		return kClose
	case *nfsv4.NfsResop4_OP_LOCK:
		return kLock
	case *nfsv4.NfsResop4_OP_LOCKU:
		return kLocku
	}
	return -1
}

func opStatus(res *nfsv4.Compound4res) uint32 { return uint32(res.Status) }

func (r *run40) build(f []string) (*req40, bool) {
	arg := func(i int) int {
		if i < len(f) {
			return atoi(f[i])
		}
		return 0
	}
	if len(f) < 2 {
		return nil, false
	}
	q := &req40{id: arg(1), owner: -1, dirLock: -1, lockOwn: 0}
	if _, dup := r.reqs[q.id]; dup || q.id < 0 {
		return nil, false
	}
	body := f
	if last := f[len(f)-1]; last == "park" {
		q.parkKind = "open"
		body = f[:len(f)-1]
	}
	reuse := -1
	if last := body[len(body)-1]; strings.HasPrefix(last, "lo=") {
		reuse = atoi(last[3:])
		body = body[:len(body)-1]
		r.out.refs[reuse] = true
	}
	n := len(body)
	lt := func(i int) nfsv4.NfsLockType4 {
		if arg(i)%2 == 1 {
			return nfsv4.READ_LT
		}
		return nfsv4.WRITE_LT
	}
	switch f[0] {
	case "open":
		if n != 8 {
			return nil, false
		}
		q.kind, q.client, q.seq, q.file = kOpen, arg(2)%2, uint32(arg(4)), arg(5)%numFiles
		q.owner, q.ownerKey = r.ownerIndex(q.client, arg(3)%numOwners)
		q.args = []nfsv4.NfsArgop4{nfsx.PutFH(r.w.DirHandles[q.file]),
			nfsx.OpenNull(r.clients[q.client], fmt.Sprintf("oo%d", arg(3)%numOwners), q.seq, uint32(1+arg(6)%3), nfsx.OpenHow(arg(7)%3), "f"), nfsx.GetFH()}
		if q.parkKind != "" {
			q.parkKind = "openchild"
		}
	case "oprev":
		if n != 7 {
			return nil, false
		}
		q.kind, q.client, q.seq, q.file = kOpen, arg(2)%2, uint32(arg(4)), arg(5)%numFiles
		q.owner, q.ownerKey = r.ownerIndex(q.client, arg(3)%numOwners)
		q.args = []nfsv4.NfsArgop4{nfsx.PutFH(r.w.FileHandles[q.file]),
			nfsx.OpenPrevious(r.clients[q.client], fmt.Sprintf("oo%d", arg(3)%numOwners), q.seq, uint32(1+arg(6)%3)), nfsx.GetFH()}
	case "confirm", "down", "close", "lock":
		r.out.refs[arg(2)] = true
		sid, x := r.sidOf(arg(2))
		if x != nil {
			q.file, q.client, q.owner, q.ownerKey = x.file, x.client, x.owner, x.ownerKey
		}
		q.argSid, q.seq = sid, uint32(arg(3))
		fh := nfsx.PutFH(r.w.FileHandles[q.file])
		switch f[0] {
		case "confirm":
			if n != 4 {
				return nil, false
			}
			q.kind, q.args = kConfirm, []nfsv4.NfsArgop4{fh, nfsx.OpenConfirm(sid, q.seq)}
		case "down":
			if n != 5 {
				return nil, false
			}
			q.kind, q.args = kDown, []nfsv4.NfsArgop4{fh, nfsx.OpenDowngrade(sid, q.seq, uint32(1+arg(4)%3))}
		case "close":
			if n != 4 {
				return nil, false
			}
			q.kind, q.args = kClose, []nfsv4.NfsArgop4{fh, nfsx.Close(sid, q.seq)}
		case "lock":
			if n != 8 {
				return nil, false
			}
			q.kind, q.lockSeq = kLock, uint32(arg(4))
			q.lockOwn = q.id
			if k, ok := r.reqs[reuse]; ok && k.kind == kLock && !k.lockTx && k.client == q.client && r.lockOwnerUsable(k.lockOwn, q) {
				// the lock-owner of an earlier LOCK of the same client
				q.lockOwn = k.lockOwn
			}
			q.args = []nfsv4.NfsArgop4{fh, nfsx.LockNew(lt(7), uint64(arg(5)), uint64(1+arg(6)), q.seq, sid, q.lockSeq, r.clients[q.client], fmt.Sprintf("lo%d", q.lockOwn))}
		}
	case "lockx", "locku":
		r.out.refs[arg(2)] = true
		sid, y := r.sidOf(arg(2))
		if y != nil {
			q.file, q.client = y.file, y.client
		}
		// the lock-owner is the one the presented lock state ID belongs to (request Y may
		// have been answered with another LOCK's cached reply)
		q.lockOwn = -1
		if lk, ok := r.lockOtherOwner[r.other(sid)]; ok {
			q.lockOwn = lk
		}
		q.lockTx, q.argSid, q.seq = true, sid, uint32(arg(3))
		fh := nfsx.PutFH(r.w.FileHandles[q.file])
		if f[0] == "lockx" {
			if n != 7 {
				return nil, false
			}
			q.kind, q.args = kLock, []nfsv4.NfsArgop4{fh, nfsx.LockExisting(lt(6), uint64(arg(4)), uint64(1+arg(5)), sid, q.seq)}
		} else {
			if n != 6 {
				return nil, false
			}
			q.kind, q.args = kLocku, []nfsv4.NfsArgop4{fh, nfsx.LockU(nfsv4.WRITE_LT, uint64(arg(4)), uint64(1+arg(5)), sid, q.seq)}
		}
	default:
		return nil, false
	}
	if q.parkKind != "" && q.kind != kOpen {
		return nil, false
	}
	return q, true
}

// lockOwnerUsable: a lock-owner may lock a file through ONE open-owner only
// (through two it makes CLOSE panic, notes/findings/C18-nfs41-shared-lockowner-close-panics.md,
// a known C18 finding); different files may belong to different open-owners.
func (r *run40) lockOwnerUsable(lk int, q *req40) bool {
	for _, p := range r.reqs {
		if p.kind == kLock && !p.lockTx && p.lockOwn == lk && p.file == q.file && p.owner != q.owner {
			// only a LOCK that succeeded associates the lock-owner with the file
			// (a false retry answered with another LOCK's cached reply does not either)
			if pc := p.firstReturned(); p.falseOf == nil && (pc == nil || pc.res.Status == 0) {
				return false
			}
		}
	}
	return true
}

func (r *run40) start(q *req40) {
	c := &call40{id: len(r.calls), req: q, done: make(chan struct{}), label: r.label}
	r.calls = append(r.calls, c)
	r.out.defs[c.label] = q.id // every call of a request whose replies are referenced later stays in the reference run
	first := len(q.calls) == 0
	// client-side classification
	if !q.lockTx && q.owner >= 0 {
		k2 := [2]int{q.owner, int(q.seq)}
		last := r.lastCons[q.owner]
		if x := r.inflight[q.owner]; x != nil && x != q {
			last = x // a newer request of the owner is executing: this one is handled after it
		}
		// a retransmission / reuse of a consumed seqid is without effect if the owner is
		// confirmed (BAD_SEQID or cache), or if the consumer is still the owner's last
		// transaction and nothing that may have dropped the cache happened since
		noEffect := func(x *req40) bool {
			return r.confirmed[q.owner] || (last == x && !r.dirty[q.owner])
		}
		cons := r.consumed[k2]
		if cons != nil && cons != q && noEffect(cons) {
			// (also when q was sent and refused before the other request consumed the seqid)
			q.falseOf = cons
			r.out.dropped[c.label] = true
		} else if cons == q && noEffect(q) {
			c.retransOf = q.consCall
			r.out.dropped[c.label] = true
		} else if q.falseOf != nil && !first {
			if noEffect(q.falseOf) {
				r.out.dropped[c.label] = true
			} else {
				q.falseOf = nil // may be executed as a request of its own now
			}
		}
		if o := q.orig(); o != nil && !o.returned && c.retransOf == nil && q.falseOf == nil {
			// the original is executing right now
			c.retransOf = o
			r.out.dropped[c.label] = true
		}
		if !first && c.retransOf == nil && q.falseOf == nil {
			r.touched[q.owner]++
			q.mark = r.touched[q.owner]
		}
		c.fresh = r.touched[q.owner] == q.mark
		if r.confirmed[q.owner] && last != nil && c.retransOf == nil && q.falseOf == nil {
			c.expectBad = q.seq != last.seq && q.seq != nextSeq40(last.seq)
			c.inOrder = q.seq == nextSeq40(last.seq) && r.inflight[q.owner] == nil && r.consumed[k2] == nil &&
				(q.kind != kLock || q.lockOwn == q.id)
		}
	} else if q.lockTx {
		lk := q.lockOwn
		if l := r.lastLock[lk]; lk >= 0 && l != nil && first && q.seq == nextSeq40(l.lockSeqOf()) {
			c.lockInOrder = true
		}
		if o := q.firstReturned(); o != nil && !advancingExcluded[uint32(o.res.Status)] {
			// the lock-owner's seqid was advanced by the original: no effect from now on
			c.retransOf = o
			r.out.dropped[c.label] = true
			c.fresh = r.lastLock[lk] == q
		}
	}
	if !first && !r.out.dropped[c.label] {
		r.out.refs[q.id] = true
	}
	q.calls = append(q.calls, c)

	// model (open-owner transactions)
	if !q.lockTx {
		mOwner := q.owner
		if mOwner < 0 {
			mOwner = 9999
		}
		out := r.ask(fmt.Sprintf("arrive %d %d %d %d %d %d %d", c.id, q.kind, mOwner, r.other(q.argSid), q.argSid.Seqid, q.seq, q.id))
		fs := strings.Fields(out)
		if len(fs) >= 1 {
			c.mOut = out
			if (fs[0] == "started" || fs[0] == "waiting") && len(fs) == 2 {
				c.mOut, c.mOwner = fs[0], fs[1]
			}
		}
	}

	if q.parkKind != "" && first {
		q.gate = r.w.ParkFor(c.id, q.file, q.parkKind)
	}
	c.effBefore = r.w.LogLen()
	r.w.SetTag(c.id)
	go func() {
		c.res, c.err = nfsx.Compound(r.p, 0, q.args...)
		close(c.done)
	}()
	synctest.Wait()
	r.collect()
}

func nextSeq40(q uint32) uint32 {
	if q == 0xffffffff {
		return 1
	}
	return q + 1
}

func (r *run40) collect() {
	for i := 0; i < len(r.calls); i++ {
		c := r.calls[i]
		if c.observed {
			continue
		}
		select {
		case <-c.done:
		default:
			continue
		}
		c.returned, c.observed = true, true
		if c.err != nil {
			r.failMonitor("call %d (request %d): %v", c.id, c.req.id, c.err)
			return
		}
		c.bytes = nfsx.Marshal(c.res)
		r.out.replies[c.label] = c.bytes
		q := c.req
		if g := q.gate; g != nil && !g.Entered() && c == q.calls[0] {
			r.w.Disarm(g)
			q.gate = nil
		}
		if q.dirLock >= 0 && c == q.calls[0] {
			delete(r.dirBusy, q.dirLock)
		}
		if q.owner >= 0 && r.inflight[q.owner] == q && c == q.calls[0] {
			delete(r.inflight, q.owner)
		}
		r.onReturn(c)
	}
	for _, c := range r.calls {
		if !c.returned && !c.accepted {
			c.accepted = true
			if g := c.req.gate; g != nil && g.Entered() && c == c.req.calls[0] {
				if c.req.dirLock >= 0 {
					r.dirBusy[c.req.dirLock] = c.req.owner
				}
				if c.req.owner >= 0 {
					r.inflight[c.req.owner] = c.req
				}
			}
		}
	}
}

func respLine(kind int, res *nfsv4.Compound4res, r *run40, body int) string {
	st := opSt(res)
	sid := "- 0"
	if s, ok := nfsx.OpenStateID(res); ok {
		sid = fmt.Sprintf("%d %d", r.other(s), s.Seqid)
	} else if s, ok := nfsx.ResultStateID(res); ok {
		sid = fmt.Sprintf("%d %d", r.other(s), s.Seqid)
	}
	return fmt.Sprintf("%d %d %s %d", kind, st, sid, body)
}

func (r *run40) onReturn(c *call40) {
	q := c.req
	res := c.res
	st := opSt(res)
	effects := 0
	for _, e := range r.w.Log()[c.effBefore:] {
		if e.Tag == c.id {
			effects++
		}
	}
	op := opRes(res)
	if op == nil {
		r.failMonitor("request %d: the compound stopped before the operation (status %d)", q.id, st)
		return
	}
	if kindOfRes(op) != q.kind {
		r.failMonitor("request %d (kind %d) was answered with a result of another operation type", q.id, q.kind)
	}
	// coverage
	switch st {
	case 10026:
		r.out.flags["misordered"] = true
	case 10025:
		r.out.flags["bad-stateid"] = true
	}

	// ---- monitor ----
	if c.expectBad && st != 10026 && st != 10025 {
		r.failMonitor("request %d has seqid %d on a confirmed open-owner whose last seqid is %d: expected NFS4ERR_BAD_SEQID, got status %d", q.id, q.seq, r.lastCons[q.owner].seq, st)
	}
	if c.expectBad && effects != 0 {
		r.failMonitor("request %d with an out-of-order seqid had side effects", q.id)
	}
	if o := c.retransOf; o != nil && o != c && q.lockTx {
		if c.fresh && !bytes.Equal(c.bytes, o.bytes) && st != 10025 {
			r.failMonitor("retransmission (call %d) of lock request %d got a reply that differs from the original's (status %d vs %d)", c.id, q.id, st, uint32(o.res.Status))
		}
	} else if o != nil && o != c {
		if !o.returned {
			r.failMonitor("retransmission (call %d) of request %d returned before the original (call %d) finished", c.id, q.id, o.id)
		} else if c.fresh && r.lastCons[q.owner] == q {
			if !bytes.Equal(c.bytes, o.bytes) && bytes.Equal(opBytes(c.res), opBytes(o.res)) && q.kind == kOpen {
				// the OPEN result is the cached one, but what follows it in the compound
				// differs (the defect fixed by 2dc060f; stable signature for this class)
				if r.out.monitor == "" {
					r.out.sigClass = knownOpenFHSig
				}
				r.failMonitor("retransmission (call %d) of the compound [PUTFH, OPEN, GETFH] (request %d): OPEN is answered from the cache but GETFH then returns another file handle than in the original reply (the replayed OPEN does not set the current filehandle)", c.id, q.id)
			} else if !bytes.Equal(c.bytes, o.bytes) {
				r.failMonitor("retransmission (call %d) of request %d got a reply that differs from the original's (status %d vs %d)", c.id, q.id, st, uint32(o.res.Status))
			} else {
				r.out.flags["dup-cached"] = true
				if c.mOut == "waiting" || strings.HasPrefix(c.mOut, "waiting") {
					r.out.flags["dup-inflight-completed"] = true
				}
			}
		}
	}
	if f := q.falseOf; f != nil && f.kind != q.kind && r.lastCons[q.owner] == f && st != 10026 && st != 10025 {
		r.failMonitor("request %d (kind %d) reuses the seqid of request %d (kind %d) and was not refused (status %d)", q.id, q.kind, f.id, f.kind, st)
	}
	if f := q.falseOf; f != nil && f.kind == q.kind && (q.kind == kConfirm || q.kind == kDown || q.kind == kClose) && q.argSid != f.argSid &&
		f.consCall != nil && opSt(f.consCall.res) == 0 {
		// same seqid, same operation type, another state ID (another file, or another
		// state-ID seqid) than the request whose OK reply (which names ITS state ID) is
		// cached: content differs, so it must be refused, without effect. (A cached
		// error reply carries no state ID; type and seqid are all RFC 7530 9.1.9 asks for.)
		if st == 0 && bytes.Equal(opBytes(c.res), opBytes(f.consCall.res)) {
			r.failMonitor("request %d presents another state ID than request %d but reuses its seqid and was answered with that request's reply", q.id, f.id)
		} else if st != 10026 && st != 10025 {
			r.failMonitor("request %d presents another state ID than request %d but reuses its seqid: expected NFS4ERR_BAD_SEQID, got status %d", q.id, f.id, st)
		}
		if effects != 0 {
			r.failMonitor("request %d, a false retry of request %d, had side effects", q.id, f.id)
		}
		r.out.flags["false-retry-same-type-other-stateid"] = true
	}
	if c.lockInOrder && st == 10026 {
		r.failMonitor("lock request %d carries the successor (%d) of its lock-owner's last accepted lock seqid (%d) and was refused with NFS4ERR_BAD_SEQID", q.id, q.seq, r.lastLock[q.lockOwn].lockSeqOf())
	}
	if c.inOrder && st == 10026 {
		r.failMonitor("request %d carries the successor (%d) of its confirmed open-owner's last accepted seqid and was refused with NFS4ERR_BAD_SEQID: the in-order request is rejected (the successor is computed wrongly, or a request that was itself refused has consumed the seqid)", q.id, q.seq)
	}
	if q.falseOf != nil && (st == 10026) {
		r.out.flags["false-retry"] = true
	}
	if effects > 0 {
		r.out.flags["executed-with-effects"] = true
	}

	// ---- client bookkeeping: did this call run a transaction that advanced the seqid? ----
	if c.retransOf == nil && q.falseOf == nil && advancingExcluded[st] && !q.lockTx && q.owner >= 0 {
		r.dirty[q.owner] = true
	}
	if c.retransOf == nil && q.falseOf == nil && !advancingExcluded[st] {
		if q.lockTx {
			if q.lockOwn >= 0 {
				r.lastLock[q.lockOwn] = q
			}
		} else {
			r.advance(c, st)
			if q.kind == kLock && st == 0 {
				if sid, ok := nfsx.ResultStateID(res); ok {
					if _, seen := r.lockOtherOwner[r.other(sid)]; !seen {
						r.lockOtherOwner[r.other(sid)] = q.lockOwn
					}
				}
			}
			if q.kind == kLock && (st == 0 || st == 10010) {
				// OK / DENIED: the nested lock-owner transaction ran (or replayed the cached
				// seqid): the lock-owner's last seqid is this request's lock seqid
				r.lastLock[q.lockOwn] = q
			}
		}
	}
	if q.lockTx {
		r.modelLockTx(c)
		return
	}
	// ---- model ----
	r.compareReturn(c)
}

// advance is called when the model/implementation agree that call c ran the
// transaction and it completed with status st.
func (r *run40) advance(c *call40, st uint32) {
	q := c.req
	if q.owner < 0 {
		return
	}
	if !advancingExcluded[st] {
		k2 := [2]int{q.owner, int(q.seq)}
		if q.kind == kOpen && !r.confirmed[q.owner] {
			// OPEN on an unconfirmed owner reinitialised it: earlier seqids mean nothing now
			for k := range r.consumed {
				if k[0] == q.owner {
					delete(r.consumed, k)
				}
			}
		}
		r.dirty[q.owner] = false
		r.consumed[k2] = q
		r.lastCons[q.owner] = q
		q.consCall = c
		if q.kind == kConfirm && st == 0 {
			r.confirmed[q.owner] = true
		}
	}
}

// checkFH compares the current filehandle after the operation (what GETFH
// behind OPEN returned) with the model's `fh=<state ID other | ->`: the file
// the model names, or unchanged (= the handle PUTFH set).
func (r *run40) checkFH(c *call40, fh string, defining bool) {
	if r.drv == nil || r.out.mismatch != "" || len(c.res.Resarray) != 3 {
		return
	}
	g, ok := c.res.Resarray[2].(*nfsv4.NfsResop4_OP_GETFH)
	if !ok {
		return
	}
	gok, ok := g.Opgetfh.(*nfsv4.Getfh4res_NFS4_OK)
	if !ok {
		return
	}
	actual := string(gok.Resok4.Object)
	name := name40 + " / current filehandle after OPEN (theorem C19.same_reply_compound_40)"
	fh = strings.TrimPrefix(fh, "fh=")
	if fh == "-" {
		if put, ok := c.req.args[0].(*nfsv4.NfsArgop4_OP_PUTFH); ok && actual != string(put.Opputfh.Object) {
			r.failMismatch(name, "unchanged", "changed", "call %d (request %d): the model leaves the current filehandle alone, GETFH returned another handle", c.id, c.req.id)
		}
		return
	}
	f := atoi(fh)
	if known, ok := r.otherFile[f]; ok {
		if known != actual {
			r.failMismatch(name, "file of state ID "+fh, "another handle", "call %d (request %d): GETFH behind OPEN does not return the file the model says is current", c.id, c.req.id)
		}
	} else if defining {
		r.otherFile[f] = actual
	}
}

func (r *run40) checkReply(c *call40, want string) {
	op := opRes(c.res)
	st := opSt(c.res)
	switch {
	case strings.HasPrefix(want, "e:"):
		code := uint32(atoi(want[2:]))
		if st != code {
			r.failMismatch(name40, want, fmt.Sprintf("status %d", st), "call %d (request %d): model refuses with %d, implementation answered %d", c.id, c.req.id, code, st)
		}
	case strings.HasPrefix(want, "c:"):
		parts := strings.Split(want[2:], "/")
		if len(parts) != 4 {
			r.failMismatch("driver", want, "", "unparsable reply")
			return
		}
		b := atoi(parts[3])
		if uint32(atoi(parts[1])) != st || b >= len(r.calls) || !bytes.Equal(opBytes(r.calls[b].res), opBytes(c.res)) || op == nil {
			r.failMismatch(name40, want, fmt.Sprintf("status %d", st), "call %d (request %d): the reply is not the cached response of call %d", c.id, c.req.id, b)
		}
	default:
		r.failMismatch("driver", want, "", "unparsable reply")
	}
}

func (r *run40) compareReturn(c *call40) {
	q := c.req
	st := opSt(c.res)
	if r.drv == nil || r.out.mismatch != "" {
		return
	}
	switch {
	case strings.HasPrefix(c.mOut, "reply "):
		rf := strings.Fields(strings.TrimPrefix(c.mOut, "reply "))
		if len(rf) != 2 {
			r.failMismatch("driver", c.mOut, "", "unparsable reply line")
			return
		}
		r.checkReply(c, rf[0])
		r.checkFH(c, rf[1], false)
	case c.mOut == "started":
		if c.finished {
			return
		}
		c.finished = true
		lockOwn, lockSeq := 0, uint32(0)
		if q.kind == kLock {
			lockOwn, lockSeq = q.lockOwn, q.lockSeq
		}
		reached := 0
		if q.kind == kLock && st != 10025 && st != 10024 && st != 10020 {
			reached = 1 // txLockInitial got past the open state ID to the lock-owner
		}
		line := fmt.Sprintf("finish %s %s %d %d %d", c.mOwner, respLine(q.kind, c.res, r, c.id), lockOwn, lockSeq, reached)
		out := r.ask(line)
		fs := strings.Fields(out)
		if len(fs) < 5 || fs[0] != "done" || atoi(fs[1]) != c.id {
			r.failMismatch(name40, out, "", "model refused %q", line)
			return
		}
		r.checkReply(c, fs[2])
		r.checkFH(c, fs[3], true)
		// woken calls retry
		if len(fs) == 6 {
			for _, w := range strings.Split(fs[5], ",") {
				wc := r.calls[atoi(w)]
				wq := wc.req
				mOwner := wq.owner
				if mOwner < 0 {
					mOwner = 9999
				}
				o := r.ask(fmt.Sprintf("arrive %d %d %d %d %d %d %d", wc.id, wq.kind, mOwner, r.other(wq.argSid), wq.argSid.Seqid, wq.seq, wq.id))
				ofs := strings.Fields(o)
				wc.mOut = o
				if len(ofs) == 2 && (ofs[0] == "started" || ofs[0] == "waiting") {
					wc.mOut, wc.mOwner = ofs[0], ofs[1]
				}
				wc.finished = false
			}
		}
	case c.mOut == "waiting":
		r.failMismatch(name40, "waiting", fmt.Sprintf("returned status %d", st), "call %d (request %d) returned although the model keeps it waiting for the owner's transaction", c.id, q.id)
	default:
		r.failMismatch(name40, c.mOut, "", "model rejected the arrival of call %d", c.id)
	}
}

func (r *run40) modelLockTx(c *call40) {
	q := c.req
	if r.drv == nil || r.out.mismatch != "" {
		return
	}
	out := r.ask(fmt.Sprintf("locktx %d %d %d %d %s", q.kind, r.other(q.argSid), q.argSid.Seqid, q.seq, respLine(q.kind, c.res, r, c.id)))
	fs := strings.Fields(out)
	if len(fs) != 3 || fs[0] != "reply" {
		r.failMismatch(name40, out, "", "model refused the lock-owner transaction of call %d", c.id)
		return
	}
	r.checkReply(c, fs[1])
	if fs[2] == "exec=0" && strings.HasPrefix(fs[1], "c:") {
		r.out.flags["lock-dup-cached"] = true
	}
}

func (r *run40) checkBlocked() {
	if r.drv == nil || r.out.mismatch != "" {
		return
	}
	for _, c := range r.calls {
		if !c.returned && strings.HasPrefix(c.mOut, "reply ") {
			r.failMismatch(name40, c.mOut, "still blocked", "call %d (request %d) is still blocked in the implementation although the model answered it", c.id, c.req.id)
			return
		}
	}
}

func (r *run40) op(op string) bool {
	f := strings.Fields(op)
	if len(f) == 0 {
		return false
	}
	switch f[0] {
	case "dup":
		if len(f) != 2 {
			return false
		}
		q, ok := r.reqs[atoi(f[1])]
		if !ok {
			return false
		}
		if x := r.inflight[q.owner]; q.owner >= 0 && x != nil && x != q &&
			(!r.confirmed[q.owner] || r.consumed[[2]int{q.owner, int(q.seq)}] != q) {
			// the outcome would depend on the order in which the waiting calls are woken:
			// on an unconfirmed owner a stale OPEN is re-executed (RFC 7530 16.18.5), and a
			// request that was refused before could now be executed. A client does not
			// have several different requests of one owner outstanding.
			return false
		}
		r.start(q)
		return true
	case "rel":
		if len(f) != 2 {
			return false
		}
		q, ok := r.reqs[atoi(f[1])]
		if !ok || q.gate == nil || !q.gate.Entered() || q.calls[0].returned {
			return false
		}
		r.w.SetTag(q.calls[0].id)
		q.gate.Release()
		q.gate = nil
		synctest.Wait()
		r.collect()
		return true
	}
	q, ok := r.build(f)
	if !ok {
		return false
	}
	if x := r.inflight[q.owner]; q.owner >= 0 && x != nil && x.seq != q.seq {
		return false // a client does not use the next seqid of an owner before the reply to the previous one
	}
	r.reqs[q.id] = q
	r.out.defs[r.label] = q.id
	if q.owner >= 0 {
		r.touched[q.owner]++
		q.mark = r.touched[q.owner]
	}
	r.start(q)
	return true
}

func isClaimNull(q *req40) bool {
	if len(q.args) < 2 {
		return false
	}
	o, ok := q.args[1].(*nfsv4.NfsArgop4_OP_OPEN)
	if !ok {
		return false
	}
	_, ok = o.Opopen.Claim.(*nfsv4.OpenClaim4_CLAIM_NULL)
	return ok
}

func (r *run40) finalize() {
	for guard := 0; guard < 20; guard++ {
		progress := false
		for _, c0 := range r.calls {
			q := c0.req
			if c0 == q.calls[0] && q.gate != nil && q.gate.Entered() && !c0.returned {
				r.w.SetTag(c0.id)
				q.gate.Release()
				q.gate = nil
				synctest.Wait()
				r.collect()
				progress = true
			}
		}
		if !progress {
			break
		}
	}
	r.w.ReleaseAll()
	synctest.Wait()
	r.collect()
	for _, c := range r.calls {
		if !c.returned {
			r.failMonitor("call %d (request %d) never returned although the transaction it waited for has finished", c.id, c.req.id)
			break
		}
	}
	if r.out.monitor == "" {
		r.checkBlocked()
	}
}
