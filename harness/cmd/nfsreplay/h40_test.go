package nfsreplay

import (
	"testing"

	"verifharness/internal/hx"
	"verifharness/internal/nfsx"
)

const have40 = false

type run40 struct {
	label int
}

func newRun40(t *testing.T, w *nfsx.World, drv *hx.Driver, out *outcome) *run40 { return &run40{} }
func (r *run40) op(op string) bool                                               { return false }
func (r *run40) finalize()                                                       {}
func (r *run40) checkBlocked()                                                   {}
func makeGen40(rnd *hx.Rand) func(state any, step int) string {
	return func(any, int) string { return "" }
}
