package nfsreplay

import (
	"fmt"

	"verifharness/internal/hx"
	"verifharness/internal/nfsx"
)

type gen40 struct {
	rnd        *hx.Rand
	nextID     int
	pendingDup int
}

func makeGen40(rnd *hx.Rand) func(state any, step int) string {
	g := &gen40{rnd: rnd, pendingDup: -1}
	return func(state any, step int) string { return g.next(state.(*run40), step) }
}

type chain40 struct {
	owner, file int
	latest      int // request whose reply carried the latest state ID of this open
	closed      bool
}

// chains scans the replies: per (owner, file) the request that returned the
// most recent open state ID; lock chains likewise per LOCK request.
func (g *gen40) chains(r *run40) (opens []chain40, locks []int) {
	idx := map[[2]int]int{}
	lockLatest := map[int]int{} // lock other -> request id
	for id := 0; id < g.nextID; id++ {
		q, ok := r.reqs[id]
		if !ok || q.owner < 0 && !q.lockTx {
			continue
		}
		c := q.firstReturned()
		if c == nil || c.res == nil || c.res.Status != 0 {
			continue
		}
		if q.lockTx || q.kind == kLock {
			if sid, ok := nfsx.ResultStateID(c.res); ok {
				lockLatest[r.other(sid)] = id
			}
			continue
		}
		key := [2]int{q.owner, q.file}
		i, seen := idx[key]
		if !seen {
			i = len(opens)
			idx[key] = i
			opens = append(opens, chain40{owner: q.owner, file: q.file})
		}
		opens[i].latest = id
		opens[i].closed = q.kind == kClose
	}
	for _, id := range lockLatest {
		locks = append(locks, id)
	}
	// deterministic order
	for i := 0; i < len(locks); i++ {
		for j := i + 1; j < len(locks); j++ {
			if locks[j] < locks[i] {
				locks[i], locks[j] = locks[j], locks[i]
			}
		}
	}
	return
}

func (g *gen40) parked(r *run40) []*req40 {
	var out []*req40
	for id := 0; id < g.nextID; id++ {
		if q, ok := r.reqs[id]; ok && q.gate != nil && q.gate.Entered() && !q.calls[0].returned {
			out = append(out, q)
		}
	}
	return out
}

// seqFor picks the seqid for a new request of the owner: mostly the successor
// of the last one that advanced, sometimes the same (false retry) or another.
func (g *gen40) seqFor(r *run40, owner int) uint32 {
	rnd := g.rnd
	base := g.firstSeq()
	if last := r.lastCons[owner]; last != nil {
		base = nextSeq40(last.seq)
		switch rnd.Pick(84, 7, 4, 3, 2) {
		case 1:
			return last.seq // same seqid, (probably) other content
		case 2:
			return base + 1
		case 3:
			return last.seq - 1
		case 4:
			return base + uint32(2+rnd.Intn(5))
		}
	}
	return base
}

// firstSeq: the seqid a new open-owner / lock-owner starts with (the client is
// free to choose): small, or just below 2^31 or 2^32 so that the stream crosses
// the signed boundary or wraps (0xffffffff is followed by 1, never 0).
func (g *gen40) firstSeq() uint32 {
	switch g.rnd.Pick(6, 2, 2) {
	case 1:
		return 0x7fffffff - uint32(g.rnd.Intn(3))
	case 2:
		return 0xffffffff - uint32(g.rnd.Intn(3))
	}
	return uint32(1 + g.rnd.Intn(3))
}

func (g *gen40) next(r *run40, step int) string {
	rnd := g.rnd
	opens, locks := g.chains(r)
	parked := g.parked(r)
	id := g.nextID
	newOpen := func() string {
		c, o := rnd.Intn(2), rnd.Intn(numOwners)
		owner, _ := r.ownerIndex(c, o)
		f := rnd.Intn(numFiles)
		g.nextID++
		op := fmt.Sprintf("open %d %d %d %d %d %d %d", id, c, o, g.seqFor(r, owner), f, rnd.Intn(3), rnd.Intn(3))
		if len(parked) < 2 && rnd.Chance(1, 3) {
			op += " park"
		}
		return op
	}
	if len(opens) == 0 && len(r.reqs) == 0 {
		return newOpen()
	}
	// an unconfirmed owner with an open: confirm it most of the time
	for _, ch := range opens {
		if !r.confirmed[ch.owner] && !ch.closed && rnd.Chance(1, 2) {
			g.nextID++
			return fmt.Sprintf("confirm %d %d %d", id, ch.latest, g.seqFor(r, ch.owner))
		}
	}
	// --- targeted moves -------------------------------------------------------
	stateSeq := func(x int) uint32 { sid, _ := r.sidOf(x); return sid.Seqid }
	// (a) false retry of the same operation type on a SIBLING file of the owner: the
	// owner's last request was CLOSE / OPEN_DOWNGRADE / OPEN_CONFIRM; reuse its seqid
	// on another open file, preferably one whose state ID is at the same seqid
	if rnd.Chance(1, 7) {
		var cands [][2]int // (chain index, exact?)
		for i, ch := range opens {
			last := r.lastCons[ch.owner]
			if last == nil || ch.closed || last.file == ch.file || (last.kind != kClose && last.kind != kDown && last.kind != kConfirm) {
				continue
			}
			exact := 0
			if stateSeq(ch.latest) == last.argSid.Seqid {
				exact = 1
			}
			cands = append(cands, [2]int{i, exact})
		}
		var pick []int
		for _, cnd := range cands {
			if cnd[1] == 1 {
				pick = append(pick, cnd[0])
			}
		}
		if len(pick) == 0 || rnd.Chance(1, 4) {
			pick = pick[:0]
			for _, cnd := range cands {
				pick = append(pick, cnd[0])
			}
		}
		if len(pick) > 0 {
			ch := opens[pick[rnd.Intn(len(pick))]]
			last := r.lastCons[ch.owner]
			g.nextID++
			switch last.kind {
			case kClose:
				return fmt.Sprintf("close %d %d %d", id, ch.latest, last.seq)
			case kDown:
				return fmt.Sprintf("down %d %d %d %d", id, ch.latest, last.seq, rnd.Intn(3))
			default:
				return fmt.Sprintf("confirm %d %d %d", id, ch.latest, last.seq)
			}
		}
	}
	// (b) bring the state IDs of two open files of one owner to the same seqid
	// (OPEN again = upgrade, or OPEN_DOWNGRADE, on the one that is behind)
	if rnd.Chance(1, 8) {
		for i, a := range opens {
			for j, b := range opens {
				if i == j || a.owner != b.owner || a.closed || b.closed || !r.confirmed[a.owner] || stateSeq(a.latest) >= stateSeq(b.latest) {
					continue
				}
				g.nextID++
				if rnd.Chance(1, 2) {
					return fmt.Sprintf("down %d %d %d %d", id, a.latest, g.seqFor(r, a.owner), 2)
				}
				var c, o int
				for k, v := range r.owners {
					if v == a.owner {
						fmt.Sscanf(k, "%d/%d", &c, &o)
					}
				}
				return fmt.Sprintf("open %d %d %d %d %d %d %d", id, c, o, g.seqFor(r, a.owner), a.file, 2, 0)
			}
		}
	}
	// (c) LOCK with open_to_lock_owner4 naming an EXISTING lock-owner of the same
	// open-owner (nested lock-owner transaction): on another file with the next,
	// the cached or an out-of-order lock seqid, or on the file it already holds
	if rnd.Chance(1, 7) {
		type lockOwner struct {
			k       int
			owner   int
			lastSeq uint32
		}
		var los []lockOwner
		for k := 0; k < g.nextID; k++ {
			q, ok := r.reqs[k]
			if !ok || q.kind != kLock || q.lockTx || q.lockOwn != q.id || q.owner < 0 {
				continue
			}
			c := q.firstReturned()
			if c == nil || c.res.Status != 0 {
				continue
			}
			lo := lockOwner{k: k, owner: q.owner, lastSeq: q.lockSeq}
			for j := k + 1; j < g.nextID; j++ {
				if p, ok := r.reqs[j]; ok && p.lockOwn == k && (p.kind == kLock || p.kind == kLocku) {
					if pc := p.firstReturned(); pc != nil && !advancingExcluded[opSt(pc.res)] {
						if p.lockTx {
							lo.lastSeq = p.seq
						} else {
							lo.lastSeq = p.lockSeq
						}
					}
				}
			}
			los = append(los, lo)
		}
		if len(los) > 0 {
			lo := los[rnd.Intn(len(los))]
			var cands []chain40
			clientOf := func(owner int) int {
				for k, v := range r.owners {
					if v == owner {
						var c, o int
						fmt.Sscanf(k, "%d/%d", &c, &o)
						return c
					}
				}
				return -1
			}
			for _, ch := range opens {
				// same open-owner, or another open-owner of the same client (the runner
				// refuses it if the lock-owner already holds that file through another one)
				if !ch.closed && (ch.owner == lo.owner || clientOf(ch.owner) == clientOf(lo.owner)) {
					cands = append(cands, ch)
				}
			}
			if len(cands) > 0 {
				ch := cands[rnd.Intn(len(cands))]
				lq := nextSeq40(lo.lastSeq)
				switch rnd.Pick(55, 15, 15, 15) {
				case 1:
					lq = lo.lastSeq
				case 2:
					lq = lo.lastSeq + 5
				case 3:
					lq = lo.lastSeq - 1
				}
				g.nextID++
				return fmt.Sprintf("lock %d %d %d %d %d %d %d lo=%d", id, ch.latest, g.seqFor(r, ch.owner), lq, rnd.Intn(20), rnd.Intn(10), rnd.Intn(2), lo.k)
			}
		}
	}
	// (d) a lock-owner with state on two files: after its latest LOCK/LOCKU on one file,
	// CLOSE the OTHER file (an unrelated open-owner transaction), then retransmit
	if g.pendingDup >= 0 {
		d := g.pendingDup
		g.pendingDup = -1
		return fmt.Sprintf("dup %d", d)
	}
	if rnd.Chance(1, 6) {
		for k := g.nextID - 1; k >= 0; k-- {
			q, ok := r.reqs[k]
			if !ok || !q.lockTx || r.lastLock[q.lockOwn] != q {
				continue
			}
			for _, ch := range opens {
				if ch.closed || ch.file == q.file || !r.confirmed[ch.owner] {
					continue
				}
				held := false
				for _, p := range r.reqs {
					if p.kind == kLock && !p.lockTx && p.lockOwn == q.lockOwn && p.file == ch.file && p.owner == ch.owner {
						if pc := p.firstReturned(); pc != nil && pc.res.Status == 0 {
							held = true
						}
					}
				}
				if held {
					g.pendingDup = k
					g.nextID++
					return fmt.Sprintf("close %d %d %d", id, ch.latest, g.seqFor(r, ch.owner))
				}
			}
			break
		}
	}
	choice := rnd.Pick(18, 30, 8, 24, 6+10*len(parked), 4)
	switch choice {
	case 0:
		return newOpen()
	case 1: // operation on an existing open
		if len(opens) == 0 {
			return newOpen()
		}
		ch := opens[rnd.Intn(len(opens))]
		x := ch.latest
		if rnd.Chance(1, 10) && x > 0 {
			x = rnd.Intn(x) // an older state ID
		}
		g.nextID++
		q := g.seqFor(r, ch.owner)
		switch rnd.Pick(3, 4, 4, 1, 2) {
		case 0:
			return fmt.Sprintf("down %d %d %d %d", id, x, q, rnd.Intn(3))
		case 1:
			return fmt.Sprintf("close %d %d %d", id, x, q)
		case 2:
			return fmt.Sprintf("lock %d %d %d %d %d %d %d", id, x, q, g.firstSeq(), rnd.Intn(20), rnd.Intn(10), rnd.Intn(2))
		case 3:
			return fmt.Sprintf("confirm %d %d %d", id, x, q)
		default:
			owner := ch.owner
			var c, o int
			for k, v := range r.owners {
				if v == owner {
					fmt.Sscanf(k, "%d/%d", &c, &o)
				}
			}
			op := fmt.Sprintf("oprev %d %d %d %d %d %d", id, c, o, q, ch.file, rnd.Intn(3))
			if len(parked) < 2 && rnd.Chance(1, 2) {
				op += " park"
			}
			return op
		}
	case 2: // lock-owner transactions
		if len(locks) == 0 {
			return ""
		}
		y := locks[rnd.Intn(len(locks))]
		yq := r.reqs[y]
		// the lock-owner's next seqid as the client knows it
		q := uint32(0)
		if yq.lockTx {
			q = nextSeq40(yq.seq)
		} else {
			q = nextSeq40(yq.lockSeq)
		}
		switch rnd.Pick(80, 8, 6, 6) {
		case 1:
			q--
		case 2:
			q++
		case 3:
			q += 3
		}
		g.nextID++
		if rnd.Chance(1, 2) {
			return fmt.Sprintf("lockx %d %d %d %d %d %d", id, y, q, rnd.Intn(20), rnd.Intn(10), rnd.Intn(2))
		}
		return fmt.Sprintf("locku %d %d %d %d %d", id, y, q, rnd.Intn(20), rnd.Intn(10))
	case 3: // retransmission
		var cands []*req40
		mode := rnd.Pick(5, 3, 2)
		for i := 0; i < g.nextID; i++ {
			q, ok := r.reqs[i]
			if !ok {
				continue
			}
			switch mode {
			case 0: // the owner's most recent request
				if q.owner >= 0 && r.touched[q.owner] == q.mark || q.lockTx {
					cands = append(cands, q)
				}
			case 1:
				if q.gate != nil && q.gate.Entered() && !q.calls[0].returned {
					cands = append(cands, q)
				}
			default:
				cands = append(cands, q)
			}
		}
		if len(cands) == 0 {
			return ""
		}
		return fmt.Sprintf("dup %d", cands[rnd.Intn(len(cands))].id)
	case 4:
		if len(parked) == 0 {
			return ""
		}
		return fmt.Sprintf("rel %d", parked[rnd.Intn(len(parked))].id)
	default: // a request with a made-up state ID
		g.nextID++
		return fmt.Sprintf("close %d %d %d", id, 1000+rnd.Intn(5), 1+rnd.Intn(5))
	}
}
