// Package nfsreplay ties lean/BbRe/Model/Replay41.lean and Replay40.lean to
// pkg/filesystem/virtual/nfsv4/nfs41_program.go / nfs40_program.go (C19:
// retransmitted requests execute once and get the same reply) and decides the
// property on the implementation's own trace.
//
// Both REAL programs run in-process (internal/nfsx) on a real
// InMemoryPrepopulatedDirectory with instrumented files. A history is a
// sequence of client actions: new requests, retransmissions (identical
// arguments), "false retries" (same identifiers, other operations),
// misordered sequence ids, session management, and `rel` events that release a
// request parked inside a file's VirtualOpenSelf/VirtualWrite/VirtualRead, so
// that a retransmission can arrive WHILE the original executes. Every history
// runs in a testing/synctest bubble, one lock-held segment at a time.
//
// Compared with the Lean model after every step: which calls return, park or
// execute, status and result op numbers of every reply, and the reply BYTES
// (the model says whose bytes they must be: an error constant, the full result
// of execution b, or its RETRY_UNCACHED_REP reduction).
//
// NFSv4.0 histories (h40_test.go) do the same per open-owner / lock-owner: OPEN
// (by name, parked before the directory lock, or CLAIM_PREVIOUS, parked in the
// file), OPEN_CONFIRM, OPEN_DOWNGRADE, CLOSE, LOCK, LOCKU with retransmissions,
// reused and out-of-order seqids, duplicates waiting for a running OPEN.
// A go/ast fact check ties `transactionShouldComplete` to the model's table.
//
// Monitor (implementation only, no model): (1) a retransmission of the most
// recent request of a slot/owner gets the original's reply byte for byte (4.1:
// or the RETRY_UNCACHED_REP form if it did not ask for caching) and never
// before the original finished; (2) REFERENCE RUN: the same history without
// the retransmissions of accepted requests yields the same effect log on the
// instrumented files and byte-identical replies for all other requests
// (a retransmission has no effect whatsoever); (3) every call returns once
// everything it can wait for has finished; (4) every reply has the shape of
// the request it answers (op numbers one by one); (5) a sequence id that is
// neither the last nor its successor is refused without side effects.
package nfsreplay

import (
	"fmt"
	"os"
	"sort"
	"strings"
	"sync/atomic"
	"testing"
	"testing/synctest"
	"time"

	"verifharness/internal/hx"
	"verifharness/internal/nfsx"
)

const rule = "generated client histories against the real NFSv4.1 and NFSv4.0 programs: new state-changing compounds (OPEN by handle or name, WRITE/READ with open, lock or anonymous state IDs, CLOSE, LOCK/LOCKU, open-write-close, failing and over-long compounds, DESTROY_SESSION), each re-sent 0-3 times immediately, later, after other requests and while the original is parked inside a file operation, false retries, misordered ids, CREATE_SESSION replays; non-trivial = at least one retransmission answered from the cache, one retransmission that arrived while its original was executing and completed with its result, and one refused (misordered or false-retry) request; distinct = hash of the executed op list"

const worldSeed = 7

// knownInflightSig is the stable signature of the defect described in
// notes/findings/C19-inflight-join-ignores-content.md.
// knownOpenFHSig: stable signature of the violation class of notes/findings/C19-nfs40-replayed-open-current-fh.md (fixed by 2dc060f)
const knownOpenFHSig = "nfs40 replayed OPEN does not set the current filehandle"

const knownInflightSig = "nfs41 SEQUENCE joins an in-flight request with the same ids without comparing the operations"

var (
	progress       atomic.Int64
	currentHistory atomic.Value
)

// effectStrings renders the effect log; consecutive VirtualClose calls come
// from one leavesToClose batch whose order may depend on Go map iteration, so
// every maximal run of closes is sorted.
func effectStrings(w *nfsx.World) []string {
	var out []string
	runStart := -1
	flush := func() {
		if runStart >= 0 {
			sort.Strings(out[runStart:])
			runStart = -1
		}
	}
	for _, e := range w.Log() {
		if e.Kind == "close" {
			if runStart < 0 {
				runStart = len(out)
			}
		} else {
			flush()
		}
		out = append(out, fmt.Sprintf("%s:%d:%d:%d:%d:%v", e.Kind, e.Leaf, e.Share, e.Off, e.Len, e.Trunc))
	}
	flush()
	return out
}

type genFunc func(step int) string

// runOnce executes a history (ops[0] = "v41" | "v40") once.
func runOnce(t *testing.T, ops []string, labels []int, drv *hx.Driver, gen func(r any, step int) string, steps int) (out outcome) {
	out = outcome{flags: map[string]bool{}, replies: map[int][]byte{}, dropped: map[int]bool{}, refs: map[int]bool{}, defs: map[int]int{}}
	if len(ops) == 0 {
		return
	}
	currentHistory.Store(ops)
	defer func() {
		if p := recover(); p != nil {
			// synctest: goroutines of the bubble are still blocked (a call that never
			// returns); the monitor has recorded it in finalize().
			if out.monitor == "" {
				out.monitor = fmt.Sprintf("panic while running the history: %v", p)
			}
		}
	}()
	out.executed = []string{ops[0]}
	synctest.Test(t, func(t *testing.T) {
		w := nfsx.NewWorld(worldSeed, numFiles)
		var exec func(op string) bool
		var finalize func()
		var state any
		switch ops[0] {
		case "v41":
			r := newRun41(t, w, drv, &out)
			exec, finalize, state = r.op, r.finalize, r
			defer func() { out.effects = effectStrings(w) }()
			runLoop(&out, ops, labels, gen, steps, state, exec, func(l int) { r.label = l }, r.checkBlocked)
		case "v40":
			r := newRun40(t, w, drv, &out)
			exec, finalize, state = r.op, r.finalize, r
			defer func() { out.effects = effectStrings(w) }()
			runLoop(&out, ops, labels, gen, steps, state, exec, func(l int) { r.label = l }, r.checkBlocked)
		default:
			return
		}
		finalize()
	})
	return
}

func runLoop(out *outcome, ops []string, labels []int, gen func(r any, step int) string, steps int, state any,
	exec func(string) bool, setLabel func(int), after func()) {
	do := func(op string, label int) {
		progress.Add(1)
		setLabel(label)
		currentHistory.Store(append(append([]string(nil), out.executed...), op))
		if exec(op) {
			out.executed = append(out.executed, op)
			after()
		}
	}
	if gen != nil {
		for i := 0; i < steps && out.monitor == ""; i++ {
			op := gen(state, i)
			if op == "" {
				continue
			}
			do(op, len(out.executed))
		}
		return
	}
	for i, op := range ops[1:] {
		if out.monitor != "" {
			break
		}
		l := len(out.executed)
		if labels != nil {
			l = labels[i+1]
		}
		do(op, l)
	}
}

// runHistory = main run (with the model) + reference run without the
// retransmissions (implementation only).
func runHistory(t *testing.T, ops []string, drv *hx.Driver, gen func(r any, step int) string, steps int) outcome {
	out := runOnce(t, ops, nil, drv, gen, steps)
	if out.monitor != "" || len(out.dropped) == 0 {
		return out
	}
	// reference run: labels of executed ops are their indexes in out.executed
	var ref []string
	var labels []int
	for i, op := range out.executed {
		if id, isDef := out.defs[i]; i > 0 && out.dropped[i] && !(isDef && out.refs[id]) {
			continue
		}
		ref = append(ref, op)
		labels = append(labels, i)
	}
	ro := runOnce(t, ref, labels, nil, nil, 0)
	out.steps += len(ref)
	if ro.monitor != "" {
		out.monitor = "reference run (history without its retransmissions): " + ro.monitor
		return out
	}
	if len(ro.executed) != len(ref) {
		out.monitor = fmt.Sprintf("reference run executed %d of %d ops: removing retransmissions changed what the client could do", len(ro.executed), len(ref))
		return out
	}
	if a, b := strings.Join(out.effects, " "), strings.Join(ro.effects, " "); a != b {
		out.monitor = fmt.Sprintf("retransmissions changed the side effects on the files: with them [%s], without them [%s]", a, b)
		return out
	}
	for l, rb := range ro.replies {
		if mb, ok := out.replies[l]; !ok || string(mb) != string(rb) {
			out.monitor = fmt.Sprintf("the reply to op %d (%s) differs between the history with and without retransmissions: a retransmission had an effect on later requests", l, out.executed[l])
			return out
		}
	}
	return out
}

func nontrivial(o *outcome) bool {
	return o.flags["dup-cached"] && o.flags["dup-inflight-completed"] && (o.flags["misordered"] || o.flags["false-retry"])
}

func TestHarness(t *testing.T) {
	o := hx.ParseFlags()
	res := hx.NewResult("nfsreplay", o, rule)
	drv, err := hx.StartDriver("replay")
	if err != nil {
		fmt.Fprintln(os.Stderr, "cannot start model driver:", err)
		os.Exit(3)
	}
	defer drv.Close()

	// watchdog: a mutation can make the real code block on a mutex, which
	// synctest cannot see; report the history instead of hanging.
	stop := make(chan struct{})
	defer close(stop)
	go func() {
		last, lastChange := progress.Load(), time.Now()
		for {
			select {
			case <-stop:
				return
			case <-time.After(2 * time.Second):
			}
			if p := progress.Load(); p != last {
				last, lastChange = p, time.Now()
			} else if time.Since(lastChange) > hx.StallLimit(90*time.Second) {
				ops, _ := currentHistory.Load().([]string)
				res.Report(hx.Finding{Kind: "violation", Property: "C19", History: ops,
					Name: "C19 monitor: every call returns",
					What: "the implementation did not reach the end of a step within the load-scaled stall limit (at least 240 s of real time) (blocked outside any channel wait)",
					Sig:  hx.Sig("C19", "nfsreplay", "hang")})
				res.ModelLines = drv.Lines
				res.Write(o)
				os.Exit(0)
			}
		}
	}()

	account := func(out *outcome) {
		res.Evaluations += out.steps
		res.TracesVsImpl++
		for k := range out.flags {
			res.Count(k)
		}
		for _, op := range out.executed {
			res.Count("op-" + strings.Fields(op)[0])
		}
		res.History(out.executed, nontrivial(out))
	}

	report := func(ops []string, out outcome) {
		wantMonitor := out.monitor != ""
		fails := func(cand []string) bool {
			if len(cand) == 0 || cand[0] != ops[0] {
				return false
			}
			r := runHistory(t, cand, drv, nil, 0)
			if wantMonitor {
				return r.monitor != ""
			}
			return r.monitor == "" && r.mismatch != ""
		}
		min := hx.Shrink(ops, fails)
		r := runHistory(t, min, drv, nil, 0)
		if (wantMonitor && r.monitor == "") || (!wantMonitor && r.mismatch == "") {
			min, r = ops, out
		}
		f := hx.Finding{Property: "C19", History: min}
		if r.monitor != "" {
			f.Kind, f.What = "violation", r.monitor
			f.Name = "C19 monitor on the real NFSv4 program: retransmissions have no effect, get the original's reply, and every call returns (at_most_once, same_reply, inflight_duplicate_completes, false_retry, misordered_no_effect)"
			if r.mismatch != "" {
				f.Expected, f.Actual = r.expected, r.actual
			}
		} else {
			f.Kind, f.What, f.Name = "mismatch", r.mismatch, r.name
			f.Expected, f.Actual = r.expected, r.actual
		}
		f.Sig = hx.Sig("C19", "nfsreplay", strings.Join(min, ";"))
		if r.joinClass {
			f.Sig = knownInflightSig
		}
		if r.monitor != "" && r.sigClass != "" {
			f.Sig = r.sigClass
		}
		res.Report(f)
	}

	if o.Replay != "" {
		f, err := hx.LoadReplay(o.Replay)
		if err != nil {
			fmt.Fprintln(os.Stderr, err)
			os.Exit(3)
		}
		out := runHistory(t, f.History, drv, nil, 0)
		account(&out)
		if out.monitor != "" || out.mismatch != "" {
			report(f.History, out)
		}
		res.ModelLines = drv.Lines
		res.Write(o)
		return
	}

	// fact tie: the status table of transactionShouldComplete
	if d := checkShouldCompleteTable(drv); d != "" {
		res.Report(hx.Finding{Kind: "mismatch", Property: "C19", What: "transactionShouldComplete differs from Replay40.shouldComplete: " + d,
			Name: "fact tie for theorem C19.seq_advance_rule_40 / should_complete_table_40", Sig: hx.Sig("C19", "should-complete-table"), History: []string{}})
	} else {
		res.Count("fact-tie-shouldComplete-ok")
	}

	mismatches, violations := 0, 0
	handle := func(ops []string, out outcome) {
		switch {
		case out.monitor != "" && violations < 3:
			violations++
			report(ops, out)
		case out.monitor == "" && out.mismatch != "":
			res.Count("mismatching-history")
			if mismatches < 2 {
				mismatches++
				report(ops, out)
			}
		}
	}
	for _, h := range regressionHistories {
		out := runHistory(t, h, drv, nil, 0)
		account(&out)
		res.Count("fixed-witness")
		handle(h, out)
	}

	n := 1200
	if o.Tier == "thorough" {
		n = 6000
	}
	n *= o.Scale
	rnd := hx.NewRand(o.Seed)
	for i := 0; i < n && violations < 3; i++ {
		version := "v41"
		if i%2 == 1 && have40 {
			version = "v40"
		}
		steps := 12 + rnd.Intn(40)
		var g func(r any, step int) string
		if version == "v41" {
			g = makeGen41(rnd)
		} else {
			g = makeGen40(rnd)
		}
		out := runHistory(t, []string{version}, drv, g, steps)
		// when the model lost track, go on without it to look for a failing input
		if out.monitor == "" && out.mismatch != "" {
			again := runHistory(t, out.executed, nil, nil, 0)
			if again.monitor != "" {
				out.monitor = again.monitor
			}
		}
		account(&out)
		handle(out.executed, out)
	}
	res.ModelLines = drv.Lines
	res.Write(o)
}
