package nfsreplay

import (
	"bytes"
	"fmt"
	"strconv"
	"strings"
	"testing"
	"testing/synctest"

	"github.com/buildbarn/go-xdr/pkg/protocols/nfsv4"

	"verifharness/internal/hx"
	"verifharness/internal/nfsx"
)

// ---------------------------------------------------------------------------
// NFSv4.1: history ops (first op of the history is "v41")
//
//	reg C V            EXCHANGE_ID(client C, verifier V) + CREATE_SESSION with the announced sequence id
//	exch C V           EXCHANGE_ID only
//	cs I D             CREATE_SESSION of incarnation I with its last sequence id + D (0 replay, 1 next, 2.. misordered)
//	destroy S          DESTROY_SESSION (own compound)
//	send R S L Q K body... [park=kind:leaf]
//	                   new request R on session S, slot L, sequence id Q, sa_cachethis K
//	dup R              retransmit request R (identical arguments)
//	fdup R N V         "false retry": new request N with the session/slot/sequence id of R, body variant V
//	rel R              release the gate at which request R is parked
//
// Bodies (F = file index, O = owner index, X = id of an earlier request whose
// OPEN / LOCK result provides the state ID, -1 = anonymous):
//
//	open F O A H | openn F O A H | write F X off len | read F X off cnt | close F X |
//	lock F X LO off len T | locku F X off len | owc F O | bad F | many N | dsess S | empty
// ---------------------------------------------------------------------------

const (
	numFiles   = 3
	numOwners  = 3
	stSeqMis   = uint32(nfsv4.NFS4ERR_SEQ_MISORDERED)
	stBadSess  = uint32(nfsv4.NFS4ERR_BADSESSION)
	stBadSlot  = uint32(nfsv4.NFS4ERR_BADSLOT)
	stFalseRe  = uint32(nfsv4.NFS4ERR_SEQ_FALSE_RETRY)
	stTooMany  = uint32(nfsv4.NFS4ERR_TOO_MANY_OPS)
	stUncached = uint32(nfsv4.NFS4ERR_RETRY_UNCACHED_REP)
)

type req41 struct {
	id         int
	sess, slot int
	seq        uint32
	cache      bool
	body       []string
	args       []nfsv4.NfsArgop4 // complete Argarray (with SEQUENCE), built once
	parkKind   string
	parkLeaf   int
	gate       *nfsx.Gate
	calls      []*call41
	// client-side knowledge used by the monitor
	dsess   int    // session destroyed by the body (-1 none)
	mark    int    // number of requests that had been sent on the slot including this one
	falseOf *req41 // the request that consumed this (session, slot, sequence id) before: q is a false retry of it
	msess   int    // session index told to the model (a session that did not exist when the arguments were built never exists for them)
}

type call41 struct {
	id       int
	req      *req41
	kind     string // send | dup | fdup
	done     chan struct{}
	res      *nfsv4.Compound4res
	err      error
	bytes    []byte
	returned bool
	observed bool // the return has been processed by the runner
	// monitor bookkeeping
	effBefore    int
	accepted     bool // implementation started executing it (or joined): SEQUENCE did not fail
	retransOf    *call41
	fresh        bool // no other request on the slot since the original arrived
	origAccepted bool // the original had been accepted when this dup was sent
	modelExec    bool // the model says this call executes the operations
	finished     bool // `finish` has been sent to the model for this call
	expectMis    bool // client knows the sequence id is neither last nor next
	mOut         string
	label        int // index of the op that issued the call in the original history
	origInflight bool
	joined       *call41 // the call executing on the slot with the same sequence id when this one was issued
}

type outcome struct {
	monitor  string
	mismatch string
	name     string
	expected string
	actual   string
	steps    int
	flags    map[string]bool
	executed []string
	// for the reference run
	replies   map[int][]byte // key: label (op index in the original history) of the op that issued the call
	effects   []string
	dropped   map[int]bool // labels of retransmissions of accepted requests (left out of the reference run)
	joinClass bool         // the violation is an in-flight false retry answered with the original's reply
	sigClass  string       // stable signature of the violation class, if it has one
	refs      map[int]bool // request ids whose replies later ops take state IDs from
	defs      map[int]int  // label of an op -> id of the request it introduced
}

type run41 struct {
	t      *testing.T
	w      *nfsx.World
	p      nfsv4.Nfs4Program
	drv    *hx.Driver
	legacy bool
	out    *outcome

	sessions [][16]byte // canonical index -> real id
	sessCID  []uint64
	incs     []incInfo // model incarnation index -> client id etc.
	incByKey map[[2]int]int
	reqs     map[int]*req41
	calls    []*call41
	// client view per (session, slot)
	lastDone map[[2]int]uint32 // last sequence id whose reply (SEQUENCE ok) was received
	busy     map[[2]int]*req41 // accepted and not yet returned
	touched  map[[2]int]int    // number of requests sent on the slot (for freshness)
	consumed map[[3]int]*req41 // (session, slot, sequence id) -> the request the server accepted under these ids
	label    int               // label of the op being executed
}

type incInfo struct {
	clientID uint64
	csLast   uint32 // sequence id of the last CREATE_SESSION the harness knows to have been executed
	known    bool
	client   int
	ver      int
	csBytes  map[int][]byte // session index -> reply bytes of the CREATE_SESSION that created it
}

func (r *run41) failMonitor(format string, a ...any) {
	if r.out.monitor == "" {
		r.out.monitor = fmt.Sprintf(format, a...)
	}
}

func (r *run41) failMismatch(name, expected, actual, format string, a ...any) {
	if r.out.mismatch == "" {
		r.out.mismatch = fmt.Sprintf(format, a...)
		r.out.name, r.out.expected, r.out.actual = name, expected, actual
	}
}

func (r *run41) ask(line string) string {
	if r.drv == nil || r.out.mismatch != "" {
		return ""
	}
	o, err := r.drv.Ask("41 " + line)
	if err != nil {
		r.failMismatch("driver", "", "", "driver: %v", err)
		return ""
	}
	r.out.steps++
	return o
}

func (r *run41) sessionID(s int) [16]byte {
	if s >= 0 && s < len(r.sessions) {
		return r.sessions[s]
	}
	var b [16]byte
	b[0], b[1] = 0xEE, byte(s)
	return b
}

func (r *run41) sessionClient(s int) uint64 {
	if s >= 0 && s < len(r.sessCID) {
		return r.sessCID[s]
	}
	return 0
}

func seqErrBytes(code uint32) []byte {
	return nfsx.Marshal(&nfsv4.Compound4res{Status: nfsv4.Nfsstat4(code), Resarray: []nfsv4.NfsResop4{
		&nfsv4.NfsResop4_OP_SEQUENCE{Opsequence: &nfsv4.Sequence4res_default{SrStatus: nfsv4.Nfsstat4(code)}}}})
}

// uncachedBytes builds the reduced reply RFC 8881 2.10.6.1.3 allows for a
// retry of a request that did not ask for caching.
func uncachedBytes(orig *nfsv4.Compound4res) []byte {
	if orig == nil || len(orig.Resarray) < 2 {
		return nil
	}
	b := bytes.NewBuffer(nil)
	orig.Resarray[1].GetResop().WriteTo(b)
	nfsv4.NFS4ERR_RETRY_UNCACHED_REP.WriteTo(b)
	second, _, err := nfsv4.ReadNfsResop4(b)
	if err != nil {
		return nil
	}
	return nfsx.Marshal(&nfsv4.Compound4res{Status: nfsv4.NFS4ERR_RETRY_UNCACHED_REP, Tag: orig.Tag,
		Resarray: []nfsv4.NfsResop4{orig.Resarray[0], second}})
}

func joinU32(xs []uint32, sep string) string {
	s := make([]string, len(xs))
	for i, x := range xs {
		s[i] = strconv.FormatUint(uint64(x), 10)
	}
	return strings.Join(s, sep)
}

// sidOf returns the state ID produced by request x (OPEN, else LOCK/...), with
// seqid 0 ("most recent") unless exact.
func (r *run41) sidOf(x int, exact bool) nfsv4.Stateid4 {
	if x < 0 {
		return nfsv4.Stateid4{}
	}
	r.out.refs[x] = true
	q, ok := r.reqs[x]
	if !ok || q.orig() == nil || !q.orig().returned {
		return nfsv4.Stateid4{Seqid: 1, Other: [12]byte{9, 9, 9}}
	}
	res := q.orig().res
	sid, ok := nfsx.OpenStateID(res)
	if !ok {
		sid, ok = nfsx.ResultStateID(res)
	}
	if !ok {
		return nfsv4.Stateid4{Seqid: 1, Other: [12]byte{9, 9, 9}}
	}
	if !exact {
		sid.Seqid = 0
	}
	return sid
}

func atoi(s string) int { n, _ := strconv.Atoi(s); return n }

// buildBody turns body tokens into operations; ok=false when malformed.
func (r *run41) buildBody(q *req41, b []string) ([]nfsv4.NfsArgop4, bool) {
	if len(b) == 0 {
		return nil, false
	}
	n := func(i int) int {
		if i < len(b) {
			return atoi(b[i])
		}
		return 0
	}
	file := func(i int) []byte { return r.w.FileHandles[((n(i)%numFiles)+numFiles)%numFiles] }
	cid := r.sessionClient(q.sess)
	owner := func(i int) string { return fmt.Sprintf("owner%d", n(i)) }
	switch b[0] {
	case "open":
		return []nfsv4.NfsArgop4{nfsx.PutFH(file(1)), nfsx.OpenFH(cid, owner(2), uint32(1+n(3)%3), nfsx.OpenHow(n(4)%3))}, len(b) == 5
	case "openn":
		return []nfsv4.NfsArgop4{nfsx.PutFH(r.w.DirHandles[n(1)%numFiles]), nfsx.OpenNull(cid, owner(2), 0, uint32(1+n(3)%3), nfsx.OpenHow(n(4)%4), "f"), nfsx.GetFH()}, len(b) == 5
	case "write":
		data := bytes.Repeat([]byte{byte('A' + q.id%26)}, 1+n(4)%8)
		return []nfsv4.NfsArgop4{nfsx.PutFH(file(1)), nfsx.Write(r.sidOf(n(2), false), uint64(n(3)), data)}, len(b) == 5
	case "read":
		return []nfsv4.NfsArgop4{nfsx.PutFH(file(1)), nfsx.Read(r.sidOf(n(2), false), uint64(n(3)), uint32(n(4)))}, len(b) == 5
	case "close":
		return []nfsv4.NfsArgop4{nfsx.PutFH(file(1)), nfsx.Close(r.sidOf(n(2), false), 0)}, len(b) == 3
	case "lock":
		lt := nfsv4.NfsLockType4(nfsv4.WRITE_LT)
		if n(6)%2 == 1 {
			lt = nfsv4.READ_LT
		}
		return []nfsv4.NfsArgop4{nfsx.PutFH(file(1)), nfsx.LockNew(lt, uint64(n(4)), uint64(1+n(5)), 0, r.sidOf(n(2), false), 0, cid, fmt.Sprintf("lo%d", n(3)))}, len(b) == 7
	case "locku":
		return []nfsv4.NfsArgop4{nfsx.PutFH(file(1)), nfsx.LockU(nfsv4.WRITE_LT, uint64(n(3)), uint64(1+n(4)), r.sidOf(n(2), false), 0)}, len(b) == 5
	case "owc":
		cur := nfsv4.Stateid4{Seqid: 1}
		return []nfsv4.NfsArgop4{nfsx.PutFH(file(1)), nfsx.OpenFH(cid, owner(2), nfsx.AccessBoth, nfsx.NoCreate),
			nfsx.Write(cur, 0, []byte{byte('a' + q.id%26)}), nfsx.Close(cur, 0)}, len(b) == 3
	case "bad":
		return []nfsv4.NfsArgop4{nfsx.PutFH(file(1)), nfsx.Lookup("x"), nfsx.Write(nfsv4.Stateid4{}, 0, []byte("zz"))}, len(b) == 2
	case "many":
		k := n(1)
		if k < 0 || k > 40 {
			return nil, false
		}
		ops := make([]nfsv4.NfsArgop4, k)
		for i := range ops {
			ops[i] = nfsx.PutRootFH()
		}
		return ops, len(b) == 2
	case "dsess":
		q.dsess = n(1)
		return []nfsv4.NfsArgop4{nfsx.DestroySession(r.sessionID(n(1)))}, len(b) == 2
	case "empty":
		return nil, len(b) == 1
	}
	return nil, false
}

// variant builds the body of a false retry from the original's operations.
func variant(orig []nfsv4.NfsArgop4, v int) []nfsv4.NfsArgop4 {
	ops := append([]nfsv4.NfsArgop4(nil), orig[1:]...)
	switch v % 4 {
	case 0: // replace the last operation by another kind
		if len(ops) == 0 {
			return []nfsv4.NfsArgop4{nfsx.PutRootFH()}
		}
		ops[len(ops)-1] = nfsx.GetAttr(1 << nfsv4.FATTR4_SIZE)
	case 1: // one more operation
		ops = append(ops, nfsx.GetFH())
	case 2: // one operation less
		if len(ops) > 0 {
			ops = ops[:len(ops)-1]
		}
	case 3: // replace the first operation
		if len(ops) == 0 {
			return []nfsv4.NfsArgop4{nfsx.GetFH()}
		}
		ops[0] = nfsx.PutRootFH()
	}
	return ops
}

func (r *run41) slotKey(q *req41) [2]int { return [2]int{q.sess, q.slot} }

// orig is the first call of the request that the server accepted (executed or
// is executing); nil when every call so far was refused by SEQUENCE.
func (q *req41) orig() *call41 {
	for _, c := range q.calls {
		if c.accepted {
			return c
		}
	}
	return nil
}

// start issues one call of request q and processes what happens up to the
// point where everything is blocked again.
func (r *run41) start(q *req41, kind string) {
	c := &call41{id: len(r.calls), req: q, kind: kind, done: make(chan struct{})}
	r.calls = append(r.calls, c)
	key := r.slotKey(q)
	first := len(q.calls) == 0
	k3 := [3]int{q.sess, q.slot, int(q.seq)}
	if cons := r.consumed[k3]; cons != nil && cons != q {
		// another request was accepted under these ids (possibly after q was first sent
		// and refused): from now on q is a false retry of it
		q.falseOf = cons
	}
	if o := q.orig(); o != nil && q.falseOf == nil {
		c.retransOf = o
		c.origAccepted = true
		c.origInflight = !o.returned
	} else if !first && q.falseOf == nil {
		// re-sending a request the server never accepted is a new request
		r.touched[key]++
		q.mark = r.touched[key]
	}
	if q.falseOf != nil {
		if o := q.falseOf.orig(); o != nil && !o.returned {
			c.joined = o
		}
	}
	c.fresh = r.touched[key] == q.mark
	c.label = r.label
	r.out.defs[c.label] = q.id // every call of a request whose replies are referenced later stays in the reference run
	if c.retransOf != nil || q.falseOf != nil {
		// the ids were consumed before: whatever this call is answered, it must not have any effect
		r.out.dropped[c.label] = true
	} else if !first {
		r.out.refs[q.id] = true
	}
	q.calls = append(q.calls, c)

	// client view: is the sequence id out of order?
	alive := q.msess >= 0 && q.msess < len(r.sessions)
	if alive && q.slot < nfsx.Slots {
		last := r.lastDone[key]
		_, inflight := r.busy[key]
		_ = inflight
		c.expectMis = q.seq != last && q.seq != last+1
	}

	// model
	ops := nfsx.ArgNums(q.args)[1:]
	cacheBit := 0
	if q.cache {
		cacheBit = 1
	}
	line := fmt.Sprintf("arrive %d %d %d %d %d %d %s", c.id, q.msess, q.slot, q.seq, cacheBit, q.id, joinU32(ops, " "))
	c.mOut = r.ask(strings.TrimSpace(line))

	// implementation
	if q.parkKind != "" && first {
		q.gate = r.w.ParkFor(c.id, q.parkLeaf, q.parkKind)
	}
	c.effBefore = r.w.LogLen()
	r.w.SetTag(c.id)
	go func() {
		c.res, c.err = nfsx.Compound(r.p, 1, q.args...)
		close(c.done)
	}()
	synctest.Wait()
	r.collect()
}

// collect processes every call that has returned since the last time.
func (r *run41) collect() {
	for _, c := range r.calls {
		if c.observed {
			continue
		}
		select {
		case <-c.done:
		default:
			continue
		}
		c.returned, c.observed = true, true
		if c.err != nil {
			r.failMonitor("call %d (request %d): %v", c.id, c.req.id, c.err)
			return
		}
		c.bytes = nfsx.Marshal(c.res)
		r.out.replies[c.label] = c.bytes
		if g := c.req.gate; g != nil && !g.Entered() && c == c.req.calls[0] {
			r.w.Disarm(g)
			c.req.gate = nil
		}
		r.onReturn(c)
	}
	// calls that did not return: accepted when parked at their gate or waiting
	for _, c := range r.calls {
		if !c.returned && !c.accepted {
			c.accepted = true
			r.consume(c.req)
			if c.retransOf == nil && c.req.falseOf == nil && r.busy[r.slotKey(c.req)] == nil {
				r.busy[r.slotKey(c.req)] = c.req
			}
		}
	}
}

func seqOK(res *nfsv4.Compound4res) bool {
	if len(res.Resarray) == 0 {
		return false
	}
	s, ok := res.Resarray[0].(*nfsv4.NfsResop4_OP_SEQUENCE)
	if !ok {
		return false
	}
	_, ok = s.Opsequence.(*nfsv4.Sequence4res_NFS4_OK)
	return ok
}

// shapeConsistent: a reply can only belong to a request whose operations it
// answers one by one (same op number, or OP_ILLEGAL), completely when the
// status is OK.
func shapeConsistent(args []uint32, res []uint32, status uint32) bool {
	if len(res) > len(args) {
		return false
	}
	if status == 0 && len(res) != len(args) {
		return false
	}
	for i := range res {
		if res[i] != args[i] && res[i] != uint32(nfsv4.OP_ILLEGAL) {
			return false
		}
	}
	return true
}

func (r *run41) onReturn(c *call41) {
	q := c.req
	key := r.slotKey(q)
	res := c.res
	status := uint32(res.Status)
	ok := seqOK(res)
	if ok {
		c.accepted = true
		r.consume(q)
	}
	effects := r.w.LogLen() - c.effBefore

	// ---- monitor (implementation only) ----
	if !shapeConsistent(nfsx.ArgNums(q.args), nfsx.OpNums(res), status) {
		if c.joined != nil {
			r.out.joinClass = true
			r.failMonitor("request %d (ops %v) arrived while request %d with the same session/slot/sequence id but other operations was executing and was answered with THAT request's reply (ops %v, status %d)",
				q.id, nfsx.ArgNums(q.args), c.joined.req.id, nfsx.OpNums(res), status)
		}
		r.failMonitor("request %d (ops %v) was answered with a reply of another shape (ops %v, status %d): a reply of a different request",
			q.id, nfsx.ArgNums(q.args), nfsx.OpNums(res), status)
	}
	if c.expectMis && c.retransOf == nil && q.falseOf == nil {
		if status != stSeqMis && status != stBadSess {
			r.failMonitor("request %d has sequence id %d on a slot whose last id is %d: expected NFS4ERR_SEQ_MISORDERED, got status %d", q.id, q.seq, r.lastDone[key], status)
		}
		if effects != 0 && len(r.busy) == 0 {
			r.failMonitor("misordered request %d had side effects", q.id)
		}
	}
	if c.retransOf != nil && q.falseOf == nil {
		o := c.retransOf
		if !o.returned && status != stBadSess {
			r.failMonitor("retransmission (call %d) of request %d returned before the original (call %d) finished", c.id, q.id, o.id)
		} else if c.fresh && status != stBadSess {
			same := bytes.Equal(c.bytes, o.bytes)
			// a duplicate that arrived while the original was executing completes with the
			// original's result; only a later retry may get the reduced uncached form
			unc := !q.cache && !c.origInflight && bytes.Equal(c.bytes, uncachedBytes(o.res))
			if !same && !unc {
				r.failMonitor("retransmission (call %d) of request %d got a reply that differs from the original's (status %d vs %d)", c.id, q.id, status, uint32(o.res.Status))
			}
		}
	}

	// ---- coverage flags ----
	switch status {
	case stSeqMis:
		r.out.flags["misordered"] = true
	case stFalseRe:
		r.out.flags["false-retry"] = true
	case stTooMany:
		r.out.flags["too-many-ops"] = true
	case stBadSess:
		r.out.flags["badsession"] = true
	case stBadSlot:
		r.out.flags["badslot"] = true
	case stUncached:
		r.out.flags["dup-uncached-rep"] = true
	}
	if c.retransOf != nil && c.origAccepted && bytes.Equal(c.bytes, c.retransOf.bytes) {
		if c.origInflight {
			r.out.flags["dup-inflight-completed"] = true
		} else {
			r.out.flags["dup-cached"] = true
		}
	}
	if q.falseOf != nil && ok {
		r.out.flags["false-retry-answered-from-cache"] = true
	}
	if effects > 0 && len(res.Resarray) > 1 {
		r.out.flags["executed-with-effects"] = true
	}

	// ---- client bookkeeping ----
	if c.retransOf == nil && q.falseOf == nil {
		if ok {
			r.lastDone[key] = q.seq
		}
		if r.busy[key] == q {
			delete(r.busy, key)
		}
	}
	if c.modelExecPending() {
		// sessions destroyed by the compound: tell the model before `finish`
		for i, x := range res.Resarray {
			ds, isDS := x.(*nfsv4.NfsResop4_OP_DESTROY_SESSION)
			if !isDS || ds.OpdestroySession.DsrStatus != nfsv4.NFS4_OK || i >= len(q.args) {
				continue
			}
			if a, isArg := q.args[i].(*nfsv4.NfsArgop4_OP_DESTROY_SESSION); isArg {
				for idx, sid := range r.sessions {
					if sid == a.OpdestroySession.DsaSessionid {
						r.expectLine("destroy "+strconv.Itoa(idx), "ok")
					}
				}
			}
		}
	}

	// ---- model ----
	r.compareReturn(c)
}

// consume records q as the request the server accepted under its ids (unless
// another one was accepted under them before).
func (r *run41) consume(q *req41) {
	k3 := [3]int{q.sess, q.slot, int(q.seq)}
	if q.falseOf == nil && r.consumed[k3] == nil {
		r.consumed[k3] = q
	}
}

func (c *call41) modelExecPending() bool { return c.mOut == "started" && !c.finished }

func (r *run41) expectLine(line, want string) {
	got := r.ask(line)
	if r.drv != nil && r.out.mismatch == "" && got != want {
		r.failMismatch("correspondence Model/Replay41.lean <-> nfs41_program.go", got, want, "model and implementation disagree on %q", line)
	}
}

// describe renders the actual reply in the model's vocabulary, checking the
// bytes against what the model's body denotes.
func (r *run41) checkCRes(c *call41, cres string) {
	parts := strings.Split(cres, "/")
	if len(parts) != 3 {
		r.failMismatch("driver", cres, "", "unparsable model reply %q", cres)
		return
	}
	nums := nfsx.OpNums(c.res)
	actual := fmt.Sprintf("%d/%s/%s", uint32(c.res.Status), parts[1], joinU32(nums[1:], ","))
	name := "correspondence Model/Replay41.lean <-> nfs41_program.go (theorems C19.same_reply_41, false_retry_41, misordered_no_effect_41)"
	if actual != cres {
		r.failMismatch(name, cres, actual, "call %d (request %d): model reply %s, implementation %s", c.id, c.req.id, cres, actual)
		return
	}
	var want []byte
	body := parts[1]
	n := atoi(body[1:])
	switch body[0] {
	case 'e':
		want = seqErrBytes(uint32(n))
	case 'f':
		if n < len(r.calls) {
			want = r.calls[n].bytes
		}
	case 'u':
		if n < len(r.calls) {
			want = uncachedBytes(r.calls[n].res)
		}
	}
	if !bytes.Equal(want, c.bytes) {
		r.failMismatch(name, cres, fmt.Sprintf("%d bytes differing from what %s denotes", len(c.bytes), body), "call %d (request %d): reply bytes are not those of %s", c.id, c.req.id, body)
	}
}

func (r *run41) compareReturn(c *call41) {
	if r.drv == nil || r.out.mismatch != "" {
		return
	}
	name := "correspondence Model/Replay41.lean <-> nfs41_program.go (opSequence decision)"
	switch {
	case strings.HasPrefix(c.mOut, "reply "):
		r.checkCRes(c, strings.TrimPrefix(c.mOut, "reply "))
	case c.mOut == "started":
		if c.finished {
			return
		}
		c.finished = true
		nums := nfsx.OpNums(c.res)
		if !seqOK(c.res) {
			r.failMismatch(name, "started", fmt.Sprintf("status %d", uint32(c.res.Status)), "call %d: the model executes request %d, the implementation rejected it", c.id, c.req.id)
			return
		}
		line := fmt.Sprintf("finish %d %d %d %d %s", c.req.msess, c.req.slot, uint32(c.res.Status), c.id, joinU32(nums[1:], " "))
		out := r.ask(strings.TrimSpace(line))
		if !strings.HasPrefix(out, "deliver ") {
			r.failMismatch(name, out, "", "model refused %q", line)
			return
		}
		// every delivery of the model must have happened in the implementation
		for _, d := range strings.Fields(strings.TrimPrefix(out, "deliver ")) {
			kv := strings.SplitN(d, "=", 2)
			id := atoi(kv[0])
			if id >= len(r.calls) {
				continue
			}
			dc := r.calls[id]
			if dc == c {
				r.checkCRes(dc, kv[1])
				continue
			}
			dc.mOut = "reply " + kv[1] // processed when (if) the waiter returns
		}
	case c.mOut == "parked":
		r.failMismatch(name, "parked", fmt.Sprintf("returned status %d", uint32(c.res.Status)), "call %d (request %d) returned although the model keeps it parked", c.id, c.req.id)
	case c.mOut == "bad-op":
		r.failMismatch(name, "bad-op", "", "model rejected the arrival of call %d", c.id)
	}
}

// checkBlocked: after a step, compare who is still blocked with the model.
func (r *run41) checkBlocked() {
	if r.drv == nil || r.out.mismatch != "" {
		return
	}
	for _, c := range r.calls {
		if c.returned {
			continue
		}
		if strings.HasPrefix(c.mOut, "reply ") {
			// the model has answered this call: the implementation must have too.
			// Decided by the monitor at the end of the history (termination);
			// here it is only a disagreement.
			r.failMismatch("correspondence Model/Replay41.lean <-> nfs41_program.go (theorem C19.inflight_duplicate_completes)",
				c.mOut, "still blocked", "call %d (request %d) is still blocked in the implementation although the model delivered its reply", c.id, c.req.id)
			return
		}
	}
}

func (r *run41) op(op string) bool {
	f := strings.Fields(op)
	if len(f) == 0 {
		return false
	}
	arg := func(i int) int {
		if i < len(f) {
			return atoi(f[i])
		}
		return 0
	}
	switch f[0] {
	case "reg", "exch":
		if len(f) != 3 {
			return false
		}
		cl, ver := arg(1)%4, arg(2)%4
		res, err := nfsx.Compound(r.p, 1, nfsx.ExchangeID(fmt.Sprintf("client%d", cl), byte(ver)))
		if err != nil {
			r.failMonitor("%v", err)
			return true
		}
		okRes, isOK := res.Resarray[0].(*nfsv4.NfsResop4_OP_EXCHANGE_ID).OpexchangeId.(*nfsv4.ExchangeId4res_NFS4_OK)
		if !isOK {
			r.failMonitor("EXCHANGE_ID failed with status %d", uint32(res.Status))
			return true
		}
		eir := okRes.EirResok4
		conf := 0
		if eir.EirFlags&nfsv4.EXCHGID4_FLAG_CONFIRMED_R != 0 {
			conf = 1
		}
		obs := eir.EirSequenceid - 1
		out := r.ask(fmt.Sprintf("exch %d %d %d", cl, ver, obs))
		var k, mc int
		var ms uint32
		if r.drv != nil && r.out.mismatch == "" {
			var ms64 uint64
			if _, err := fmt.Sscanf(out, "inc %d %d %d", &k, &mc, &ms64); err != nil {
				r.failMismatch("driver", out, "", "unparsable %q", out)
				return true
			}
			ms = uint32(ms64)
			if mc != conf || ms != eir.EirSequenceid {
				r.failMismatch("correspondence Model/Replay41.lean <-> nfs41_program.go (opExchangeID)", out,
					fmt.Sprintf("confirmed=%d seq=%d", conf, eir.EirSequenceid), "EXCHANGE_ID(client %d, verifier %d)", cl, ver)
				return true
			}
		} else {
			// without a model: own numbering by (client, verifier, client id)
			kk, ok := r.incByKey[[2]int{cl, ver}]
			if !ok || r.incs[kk].clientID != eir.EirClientid {
				kk = len(r.incs)
			}
			k = kk
		}
		for len(r.incs) <= k {
			r.incs = append(r.incs, incInfo{csBytes: map[int][]byte{}})
		}
		if r.incs[k].clientID != eir.EirClientid {
			r.incs[k] = incInfo{clientID: eir.EirClientid, client: cl, ver: ver, csBytes: map[int][]byte{}}
		}
		r.incByKey[[2]int{cl, ver}] = k
		if conf == 0 {
			r.incs[k].csLast, r.incs[k].known = obs, true
		}
		if f[0] == "reg" {
			return r.createSession(k, 1)
		}
		return true
	case "cs":
		if len(f) != 3 || arg(1) < 0 || arg(1) >= len(r.incs) || arg(2) < 0 || arg(2) > 3 {
			return false
		}
		return r.createSession(arg(1), uint32(arg(2)))
	case "destroy":
		if len(f) != 2 {
			return false
		}
		res, err := nfsx.Compound(r.p, 1, nfsx.DestroySession(r.sessionID(arg(1))))
		if err != nil {
			r.failMonitor("%v", err)
			return true
		}
		want := "badsession"
		if res.Status == nfsv4.NFS4_OK {
			want = "ok"
		}
		r.expectLine(fmt.Sprintf("destroy %d", arg(1)), want)
		return true
	case "send":
		if len(f) < 7 {
			return false
		}
		id := arg(1)
		if _, dup := r.reqs[id]; dup || id < 0 {
			return false
		}
		q := &req41{id: id, sess: arg(2), slot: arg(3), seq: uint32(arg(4)), cache: arg(5) == 1, dsess: -1}
		body := f[6:]
		if last := body[len(body)-1]; strings.HasPrefix(last, "park=") {
			kv := strings.Split(strings.TrimPrefix(last, "park="), ":")
			if len(kv) != 2 {
				return false
			}
			q.parkKind, q.parkLeaf = kv[0], atoi(kv[1])%numFiles
			if q.parkKind != "open" && q.parkKind != "write" && q.parkKind != "read" && q.parkKind != "openchild" {
				return false
			}
			body = body[:len(body)-1]
		}
		if q.slot < 0 || q.slot > nfsx.Slots+1 || q.sess < 0 {
			return false
		}
		ops, ok := r.buildBody(q, body)
		if !ok {
			return false
		}
		// OPEN(CLAIM_NULL) is parked before the directory lock is taken ("openchild");
		// a park inside the leaf's open would hold the directory lock
		if (body[0] == "openn") != (q.parkKind == "openchild") && q.parkKind != "" {
			return false
		}
		q.body = body
		q.msess = q.sess
		if q.sess >= len(r.sessions) {
			q.msess = 100000 + q.sess
		}
		q.args = append([]nfsv4.NfsArgop4{nfsx.Sequence(r.sessionID(q.sess), uint32(q.slot), q.seq, q.cache)}, ops...)
		r.reqs[id] = q
		r.out.defs[r.label] = id
		r.touched[r.slotKey(q)]++
		q.mark = r.touched[r.slotKey(q)]
		r.start(q, "send")
		return true
	case "dup":
		if len(f) != 2 {
			return false
		}
		q, ok := r.reqs[arg(1)]
		if !ok {
			return false
		}
		r.start(q, "dup")
		return true
	case "fdup":
		if len(f) != 4 {
			return false
		}
		o, ok := r.reqs[arg(1)]
		id := arg(2)
		if _, dup := r.reqs[id]; !ok || dup || id < 0 {
			return false
		}
		q := &req41{id: id, sess: o.sess, msess: o.msess, slot: o.slot, seq: o.seq, cache: o.cache, dsess: -1, body: []string{"variant", f[3]}}
		q.args = append([]nfsv4.NfsArgop4{o.args[0]}, variant(o.args, arg(3))...)
		r.reqs[id] = q
		r.out.defs[r.label] = id
		r.touched[r.slotKey(q)]++
		q.mark = r.touched[r.slotKey(q)]
		r.start(q, "fdup")
		return true
	case "rel":
		if len(f) != 2 {
			return false
		}
		q, ok := r.reqs[arg(1)]
		if !ok || q.gate == nil || !q.gate.Entered() || q.calls[0].returned {
			return false
		}
		r.w.SetTag(q.calls[0].id)
		q.gate.Release()
		q.gate = nil
		synctest.Wait()
		r.collect()
		return true
	}
	return false
}

func (r *run41) createSession(k int, delta uint32) bool {
	inc := &r.incs[k]
	seq := inc.csLast + delta
	res, err := nfsx.Compound(r.p, 1, nfsx.CreateSession(inc.clientID, seq))
	if err != nil {
		r.failMonitor("%v", err)
		return true
	}
	b := nfsx.Marshal(res)
	actual := ""
	name := "correspondence Model/Replay41.lean <-> nfs41_program.go (opCreateSession, theorem C19.create_session_replay)"
	switch cs := res.Resarray[0].(*nfsv4.NfsResop4_OP_CREATE_SESSION).OpcreateSession.(type) {
	case *nfsv4.CreateSession4res_NFS4_OK:
		sid := cs.CsrResok4.CsrSessionid
		idx := -1
		for i, s := range r.sessions {
			if s == sid {
				idx = i
			}
		}
		if idx < 0 {
			idx = len(r.sessions)
			r.sessions = append(r.sessions, sid)
			r.sessCID = append(r.sessCID, inc.clientID)
			inc.csBytes[idx] = b
			inc.csLast = seq
			actual = fmt.Sprintf("created %d", idx)
			if delta != 1 {
				r.failMonitor("CREATE_SESSION with sequence id last+%d created a new session", delta)
			}
		} else {
			actual = fmt.Sprintf("cached %d", idx)
			// monitor: a replayed CREATE_SESSION returns the original reply and creates nothing
			if !bytes.Equal(inc.csBytes[idx], b) {
				r.failMonitor("retransmitted CREATE_SESSION of incarnation %d returned a reply that differs from the original's", k)
			}
		}
	default:
		switch res.Status {
		case nfsv4.NFS4ERR_SEQ_MISORDERED:
			actual = "misordered"
			if delta == 0 {
				actual = "cached-misordered"
			}
		case nfsv4.NFS4ERR_STALE_CLIENTID:
			actual = "stale"
		case nfsv4.NFS4ERR_DELAY:
			actual = "delay"
		default:
			actual = fmt.Sprintf("status-%d", uint32(res.Status))
		}
	}
	got := r.ask(fmt.Sprintf("cs %d %d", k, seq))
	if r.drv != nil && r.out.mismatch == "" && got != actual {
		r.failMismatch(name, got, actual, "CREATE_SESSION(incarnation %d, sequence id last+%d)", k, delta)
	}
	return true
}

// finalize releases every gate, lets everything run to completion and applies
// the termination part of the monitor.
func (r *run41) finalize() {
	for guard := 0; guard < 20; guard++ {
		progress := false
		for _, c0 := range r.calls {
			q := c0.req
			if c0 == q.calls[0] && q.gate != nil && q.gate.Entered() && !q.calls[0].returned {
				r.w.SetTag(q.calls[0].id)
				q.gate.Release()
				q.gate = nil
				synctest.Wait()
				r.collect()
				progress = true
			}
		}
		if !progress {
			break
		}
	}
	r.w.ReleaseAll()
	synctest.Wait()
	r.collect()
	for _, c := range r.calls {
		if !c.returned {
			r.failMonitor("call %d (request %d, %s) never returned although every operation it could wait for has finished: a duplicate SEQUENCE that arrived while the original was executing is not woken up",
				c.id, c.req.id, c.kind)
			break
		}
	}
	if r.out.monitor == "" {
		r.checkBlocked()
	}
}
