// Package nfsreplay is the C19 correspondence harness (NFSv4 retransmissions
// execute once and get the same reply); see harness_test.go.
package nfsreplay
