package nfsreplay

import (
	"fmt"
	"go/ast"
	"go/parser"
	"go/token"
	"os"
	"path/filepath"
	"sort"

	"github.com/buildbarn/go-xdr/pkg/protocols/nfsv4"

	"verifharness/internal/hx"
)

// checkShouldCompleteTable ties the status table of the Lean model
// (`Replay40.shouldComplete`, theorem C19.should_complete_table_40) to the Go
// source: `transactionShouldComplete` must be a conjunction of `st != CODE`
// for exactly the codes the model excludes. Returns a description of the
// disagreement, or "".
func checkShouldCompleteTable(drv *hx.Driver) string {
	repo := os.Getenv("VERIF_REPO")
	if repo == "" {
		repo = "/repo"
	}
	file := filepath.Join(repo, "pkg/filesystem/virtual/nfsv4/nfs40_program.go")
	fset := token.NewFileSet()
	f, err := parser.ParseFile(fset, file, nil, 0)
	if err != nil {
		return "cannot parse " + file + ": " + err.Error()
	}
	byName := map[string]uint32{}
	for v, n := range nfsv4.Nfsstat4_name {
		byName[n] = uint32(v)
	}
	source := map[uint32]bool{}
	found, shapeOK := false, true
	for _, d := range f.Decls {
		fd, ok := d.(*ast.FuncDecl)
		if !ok || fd.Name.Name != "transactionShouldComplete" || fd.Body == nil {
			continue
		}
		found = true
		if len(fd.Body.List) != 1 {
			shapeOK = false
			break
		}
		param := fd.Type.Params.List[0].Names[0].Name
		if sw, isSwitch := fd.Body.List[0].(*ast.SwitchStmt); isSwitch {
			// switch st { case A, B: return false; default: return true }
			if id, ok := sw.Tag.(*ast.Ident); !ok || id.Name != param || sw.Init != nil {
				shapeOK = false
				break
			}
			sawDefault := false
			for _, cl := range sw.Body.List {
				cc := cl.(*ast.CaseClause)
				val := ""
				if len(cc.Body) == 1 {
					if ret, ok := cc.Body[0].(*ast.ReturnStmt); ok && len(ret.Results) == 1 {
						if id, ok := ret.Results[0].(*ast.Ident); ok {
							val = id.Name
						}
					}
				}
				if cc.List == nil {
					sawDefault = true
					if val != "true" {
						shapeOK = false
					}
					continue
				}
				if val != "false" {
					shapeOK = false
				}
				for _, e := range cc.List {
					sel, ok := e.(*ast.SelectorExpr)
					if !ok {
						shapeOK = false
						continue
					}
					v, known := byName[sel.Sel.Name]
					if !known {
						shapeOK = false
						continue
					}
					source[v] = true
				}
			}
			if !sawDefault {
				shapeOK = false
			}
			continue
		}
		ret, ok := fd.Body.List[0].(*ast.ReturnStmt)
		if !ok || len(ret.Results) != 1 {
			shapeOK = false
			break
		}
		var walk func(e ast.Expr)
		walk = func(e ast.Expr) {
			switch x := e.(type) {
			case *ast.ParenExpr:
				walk(x.X)
			case *ast.BinaryExpr:
				switch x.Op {
				case token.LAND:
					walk(x.X)
					walk(x.Y)
				case token.NEQ:
					sel, ok := x.Y.(*ast.SelectorExpr)
					id, ok2 := x.X.(*ast.Ident)
					if !ok || !ok2 || id.Name != fd.Type.Params.List[0].Names[0].Name {
						shapeOK = false
						return
					}
					v, known := byName[sel.Sel.Name]
					if !known {
						shapeOK = false
						return
					}
					source[v] = true
				default:
					shapeOK = false
				}
			default:
				shapeOK = false
			}
		}
		walk(ret.Results[0])
	}
	if !found {
		return "transactionShouldComplete not found in " + file
	}
	if !shapeOK {
		return "transactionShouldComplete is neither a conjunction of `st != NFS4ERR_…` comparisons nor a switch returning false for listed codes"
	}
	var diff []string
	check := func(st uint32) {
		out, err := drv.Ask(fmt.Sprintf("40 should %d", st))
		if err != nil {
			diff = append(diff, err.Error())
			return
		}
		model := out == "1"
		if model == source[st] { // source[st] = excluded = does NOT complete
			diff = append(diff, fmt.Sprintf("status %d (%s): source completes=%v, model completes=%v", st, nfsv4.Nfsstat4_name[nfsv4.Nfsstat4(st)], !source[st], model))
		}
	}
	var all []uint32
	for v := range nfsv4.Nfsstat4_name {
		all = append(all, uint32(v))
	}
	sort.Slice(all, func(i, j int) bool { return all[i] < all[j] })
	for _, st := range all {
		check(st)
	}
	if len(diff) > 0 {
		return fmt.Sprintf("%v", diff)
	}
	return ""
}
