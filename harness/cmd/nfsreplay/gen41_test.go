package nfsreplay

import (
	"fmt"
	"testing"

	"verifharness/internal/hx"
	"verifharness/internal/nfsx"
)

func newRun41(t *testing.T, w *nfsx.World, drv *hx.Driver, out *outcome) *run41 {
	r := &run41{t: t, w: w, p: w.NewNFS41(), drv: drv, out: out,
		incByKey: map[[2]int]int{}, reqs: map[int]*req41{},
		lastDone: map[[2]int]uint32{}, busy: map[[2]int]*req41{}, touched: map[[2]int]int{}, consumed: map[[3]int]*req41{}}
	if drv != nil {
		if o, err := drv.Ask(fmt.Sprintf("41 cfg %d %d 0 0", nfsx.MaxOps, nfsx.Slots)); err != nil || o != "ok" {
			r.failMismatch("driver", "ok", o, "cfg: %v", err)
		}
	}
	return r
}

// regressionHistories are always run first: the witness of the defect fixed by
// 90324f7 (duplicate SEQUENCE while the original is parked) and a few
// hand-written corner cases.
var regressionHistories = [][]string{
	{"v41", "reg 0 1", "send 0 0 0 1 1 open 0 0 2 0", "send 1 0 1 1 1 write 0 0 0 4 park=write:0", "dup 1", "rel 1"},
	{"v41", "reg 0 1", "send 0 0 0 1 1 write 1 -1 0 3 park=write:1", "dup 0", "dup 0", "rel 0", "dup 0"},
	{"v41", "reg 0 1", "send 0 0 0 1 0 owc 0 0", "dup 0", "send 1 0 0 2 1 owc 0 0", "dup 1", "dup 0", "send 2 0 0 4 1 empty", "fdup 1 3 0", "fdup 1 4 1", "fdup 1 5 2"},
	{"v41", "reg 0 1", "send 0 0 0 1 1 many 11", "send 1 0 0 2 1 many 12", "dup 0", "send 2 0 0 2 1 bad 0", "fdup 2 3 1", "dup 2"},
	{"v41", "reg 0 1", "send 8 0 2 1 0 write 2 -1 25 4 park=write:2", "fdup 8 14 1", "fdup 8 15 0", "dup 8", "rel 8", "dup 14", "dup 8"},
	{"v40", "open 0 0 0 1 0 2 0", "dup 0", "confirm 1 0 2", "dup 1", "dup 0", "close 2 1 3", "dup 2", "open 3 0 0 4 1 2 0", "dup 2", "close 4 0 3"},
	{"v40", "open 0 0 0 5 0 2 0 park", "dup 0", "dup 0", "rel 0", "confirm 1 0 6", "oprev 2 0 0 7 0 2 park", "dup 2", "rel 2", "lock 3 2 8 1 0 5 0", "dup 3", "lockx 4 3 2 10 5 0", "dup 4", "locku 5 4 3 0 5", "dup 5", "dup 4"},
	// CLOSE of a sibling file that reuses the previous CLOSE's seqid, the two state IDs being at the same seqid
	{"v40", "open 0 0 0 1 0 2 0", "confirm 1 0 2", "open 2 0 0 3 1 0 0", "open 3 0 0 4 1 2 0", "close 4 1 5", "dup 4", "close 5 3 5", "close 6 3 6"},
	// nested lock-owner transaction of LOCK(open_to_lock_owner4) on an existing lock-owner: out-of-order lock seqid,
	// then an in-order request; cached lock seqid; proper; already associated
	{"v40", "open 0 0 0 1 0 2 0", "confirm 1 0 2", "lock 2 1 3 100 0 5 0", "open 3 0 0 4 1 2 0", "lock 4 3 5 105 0 5 0 lo=2", "down 5 3 5 2",
		"lock 6 5 6 100 8 5 0 lo=2", "lock 7 5 7 101 8 5 0 lo=2", "lock 8 1 8 102 20 5 0 lo=2", "down 9 5 8 1", "lock 10 5 10 102 30 2 0 lo=2"},
	// one lock-owner with lock state on two files (one open-owner; two open-owners): LOCKU on b, CLOSE of a, retransmitted LOCKU
	{"v40", "open 0 0 0 1 0 2 0", "confirm 1 0 2", "lock 2 1 3 100 0 5 0", "open 3 0 0 4 1 2 0", "lock 4 3 5 101 0 5 0 lo=2", "locku 5 4 102 0 5", "close 6 1 6", "dup 5", "lockx 7 5 103 8 2 0"},
	{"v40", "open 0 0 0 1 0 2 0", "confirm 1 0 2", "lock 2 1 3 100 0 5 0", "open 3 0 1 1 1 2 0", "confirm 4 3 2", "lock 5 4 3 101 0 5 0 lo=2", "locku 6 5 102 0 5", "close 7 1 4", "dup 6"},
	// owner and lock-owner seqids crossing 2^31 and wrapping after 2^32-1 (successor of 0xffffffff is 1)
	{"v40", "open 0 0 0 2147483646 0 2 0", "confirm 1 0 2147483647", "lock 2 1 2147483648 4294967294 0 5 0", "dup 2", "lockx 3 2 4294967295 8 2 0", "lockx 4 3 1 12 2 0", "lockx 5 4 0 20 2 0", "close 6 1 2147483649", "dup 6"},
	{"v40", "open 0 0 0 4294967294 0 2 0", "confirm 1 0 4294967295", "down 2 1 1 2", "down 3 2 0 2", "close 4 2 2", "dup 4"},
	{"v41", "reg 0 1", "cs 0 0", "cs 0 2", "reg 0 2", "cs 0 0", "send 0 0 0 1 1 empty", "send 1 1 0 1 1 empty", "reg 1 1", "send 2 2 0 1 1 dsess 2", "dup 2"},
}

// ---- generator ---------------------------------------------------------------

type gen41 struct {
	rnd    *hx.Rand
	nextID int
	opens  []int // request ids of OPEN bodies
	locks  []int
}

func makeGen41(rnd *hx.Rand) func(state any, step int) string {
	g := &gen41{rnd: rnd}
	return func(state any, step int) string { return g.next(state.(*run41), step) }
}

func (g *gen41) pickReq(r *run41, pred func(q *req41) bool) *req41 {
	var cands []*req41
	for id := 0; id < g.nextID; id++ {
		if q, ok := r.reqs[id]; ok && pred(q) {
			cands = append(cands, q)
		}
	}
	if len(cands) == 0 {
		return nil
	}
	// prefer recent ones
	if g.rnd.Chance(2, 3) && len(cands) > 3 {
		cands = cands[len(cands)-3:]
	}
	return cands[g.rnd.Intn(len(cands))]
}

func (g *gen41) parked(r *run41) []*req41 {
	var out []*req41
	for id := 0; id < g.nextID; id++ {
		if q, ok := r.reqs[id]; ok && q.gate != nil && q.gate.Entered() && !q.calls[0].returned {
			out = append(out, q)
		}
	}
	return out
}

func (g *gen41) body(r *run41, allowPark bool) (string, string) {
	rnd := g.rnd
	f := rnd.Intn(numFiles)
	pick := func(xs []int) int {
		if len(xs) == 0 || rnd.Chance(1, 6) {
			return -1
		}
		return xs[rnd.Intn(len(xs))]
	}
	park := ""
	body := ""
	kind := rnd.Pick(22, 6, 22, 8, 10, 8, 5, 10, 4, 3, 1, 1)
	switch kind {
	case 0:
		body = fmt.Sprintf("open %d %d %d %d", f, rnd.Intn(numOwners), rnd.Intn(3), rnd.Intn(3))
		park = fmt.Sprintf("open:%d", f)
	case 1:
		body = fmt.Sprintf("openn %d %d %d %d", f, rnd.Intn(numOwners), rnd.Intn(3), rnd.Intn(4))
		park = fmt.Sprintf("openchild:%d", f)
	case 2:
		x := pick(g.opens)
		if x >= 0 {
			if q := r.reqs[x]; q != nil && len(q.body) > 1 {
				f = atoi(q.body[1]) % numFiles
			}
		}
		body = fmt.Sprintf("write %d %d %d %d", f, x, rnd.Intn(40), rnd.Intn(8))
		park = fmt.Sprintf("write:%d", f)
	case 3:
		x := pick(g.opens)
		if x >= 0 {
			if q := r.reqs[x]; q != nil && len(q.body) > 1 {
				f = atoi(q.body[1]) % numFiles
			}
		}
		body = fmt.Sprintf("read %d %d %d %d", f, x, rnd.Intn(40), 1+rnd.Intn(16))
		park = fmt.Sprintf("read:%d", f)
	case 4:
		x := pick(g.opens)
		if x >= 0 {
			if q := r.reqs[x]; q != nil && len(q.body) > 1 {
				f = atoi(q.body[1]) % numFiles
			}
		}
		body = fmt.Sprintf("close %d %d", f, x)
	case 5:
		x := pick(g.opens)
		if x >= 0 {
			if q := r.reqs[x]; q != nil && len(q.body) > 1 {
				f = atoi(q.body[1]) % numFiles
			}
		}
		// one lock-owner per open-owner: sharing a lock-owner between two open-owners of
		// a file makes CLOSE panic (notes/findings/C18-nfs41-shared-lockowner-close-panics.md)
		lo := 0
		if x >= 0 {
			if q := r.reqs[x]; q != nil && len(q.body) > 2 {
				lo = atoi(q.body[2])
			}
		}
		body = fmt.Sprintf("lock %d %d %d %d %d %d", f, x, lo, rnd.Intn(20), rnd.Intn(10), rnd.Intn(2))
	case 6:
		x := pick(g.locks)
		if x >= 0 {
			if q := r.reqs[x]; q != nil && len(q.body) > 1 {
				f = atoi(q.body[1]) % numFiles
			}
		}
		body = fmt.Sprintf("locku %d %d %d %d", f, x, rnd.Intn(20), rnd.Intn(10))
	case 7:
		body = fmt.Sprintf("owc %d %d", f, rnd.Intn(numOwners))
		park = fmt.Sprintf("%s:%d", []string{"open", "write"}[rnd.Intn(2)], f)
	case 8:
		body = fmt.Sprintf("bad %d", f)
	case 9:
		body = fmt.Sprintf("many %d", []int{0, 1, 10, 11, 12, 13}[rnd.Intn(6)])
	case 10:
		body = fmt.Sprintf("dsess %d", rnd.Intn(len(r.sessions)+1))
	default:
		body = "empty"
	}
	if !allowPark || park == "" || !rnd.Chance(1, 3) {
		park = ""
	}
	return body, park
}

func (g *gen41) next(r *run41, step int) string {
	rnd := g.rnd
	if len(r.sessions) == 0 {
		return fmt.Sprintf("reg %d %d", rnd.Intn(2), 1+rnd.Intn(2))
	}
	parked := g.parked(r)
	choice := rnd.Pick(46, 24, 8, 6+8*len(parked), 1, 2, 1, 4)
	switch choice {
	case 0: // new request
		sess := rnd.Intn(len(r.sessions))
		if rnd.Chance(1, 40) {
			sess = len(r.sessions) + rnd.Intn(2)
		}
		slot := rnd.Intn(nfsx.Slots)
		if rnd.Chance(1, 40) {
			slot = nfsx.Slots + rnd.Intn(2)
		}
		key := [2]int{sess, slot}
		// prefer an idle slot
		for tries := 0; tries < 3 && r.busy[key] != nil; tries++ {
			slot = rnd.Intn(nfsx.Slots)
			key = [2]int{sess, slot}
		}
		seq := r.lastDone[key] + 1
		if r.busy[key] != nil {
			seq = r.busy[key].seq + 1 // misordered while busy
			if rnd.Chance(1, 2) {
				seq = r.busy[key].seq // same id as the request in flight, other content
			}
		}
		switch rnd.Pick(85, 4, 4, 3, 2, 2) {
		case 1:
			seq += 1
		case 2:
			seq -= 1
		case 3:
			seq += uint32(2 + rnd.Intn(5))
		case 4:
			seq = 0
		case 5:
			seq = 4294967295
		}
		body, park := g.body(r, len(parked) < 2)
		id := g.nextID
		g.nextID++
		if fs := body[:4]; fs == "open" || fs == "owc " {
			g.opens = append(g.opens, id)
		}
		if body[:5] == "lock " {
			g.locks = append(g.locks, id)
		}
		cache := 1
		if rnd.Chance(1, 3) {
			cache = 0
		}
		op := fmt.Sprintf("send %d %d %d %d %d %s", id, sess, slot, seq, cache, body)
		if park != "" {
			op += " park=" + park
		}
		return op
	case 1: // retransmission
		var q *req41
		switch rnd.Pick(4, 4, 2) {
		case 0: // the most recent request of its slot
			q = g.pickReq(r, func(q *req41) bool { return r.touched[r.slotKey(q)] == q.mark })
		case 1: // a request that is executing right now
			if len(parked) > 0 {
				q = parked[rnd.Intn(len(parked))]
			}
		}
		if q == nil {
			q = g.pickReq(r, func(q *req41) bool { return true })
		}
		if q == nil {
			return ""
		}
		return fmt.Sprintf("dup %d", q.id)
	case 2: // false retry
		var q *req41
		if len(parked) > 0 && rnd.Chance(1, 2) {
			q = parked[rnd.Intn(len(parked))]
		} else {
			q = g.pickReq(r, func(q *req41) bool { return true })
		}
		if q == nil {
			return ""
		}
		id := g.nextID
		g.nextID++
		return fmt.Sprintf("fdup %d %d %d", q.id, id, rnd.Intn(4))
	case 3:
		if len(parked) == 0 {
			return ""
		}
		return fmt.Sprintf("rel %d", parked[rnd.Intn(len(parked))].id)
	case 4:
		return fmt.Sprintf("destroy %d", rnd.Intn(len(r.sessions)+1))
	case 5:
		return fmt.Sprintf("reg %d %d", rnd.Intn(2), 1+rnd.Intn(2))
	case 6:
		return fmt.Sprintf("exch %d %d", rnd.Intn(2), 1+rnd.Intn(3))
	default:
		if len(r.incs) == 0 {
			return ""
		}
		return fmt.Sprintf("cs %d %d", rnd.Intn(len(r.incs)), rnd.Pick(5, 3, 2))
	}
}
