// Command dir ties Model/Dir.lean to
// pkg/filesystem/virtual/in_memory_prepopulated_directory.go and decides C13 on
// the implementation's own trace with an independent reference hierarchy
// (ref.go): results and error codes, returned child identities, link counts,
// listings, the exactly-once rule of paginated VirtualReadDir under interleaved
// mutation, and the change counter rule.
package main

import (
	"context"
	"fmt"
	"os"
	"regexp"
	"sort"
	"strconv"
	"strings"
	"sync"
	"syscall"
	"time"

	"github.com/buildbarn/bb-remote-execution/pkg/filesystem/pool"
	"github.com/buildbarn/bb-remote-execution/pkg/filesystem/virtual"
	"github.com/buildbarn/bb-storage/pkg/clock"
	"github.com/buildbarn/bb-storage/pkg/filesystem"
	"github.com/buildbarn/bb-storage/pkg/filesystem/path"

	"verifharness/internal/hx"
)

// Names in byte order (= order used by sort.Sort on path components), so that
// the model's ordering by name id is the implementation's ordering by string.
var names = []string{"._H", "._h", "A", "B", "a", "b", "c", "d"}

// Hidden-files patterns of the configuration space. The matcher is applied to the
// ORIGINAL name of an entry, never to its normalised form (model: `P.hidden e.name`;
// reference: hidden[e.name]): the second pattern needs an upper-case character, so
// under the case-folding normaliser "._H" is hidden although its normal form "._h"
// does not match, and "._h" is an ordinary file.
var hiddenPatterns = []*regexp.Regexp{regexp.MustCompile(`^\._`), regexp.MustCompile(`^\._H$`)}

var ctx = context.Background()

func statusName(s virtual.Status) string {
	switch s {
	case virtual.StatusOK:
		return "ok"
	case virtual.StatusErrExist:
		return "exist"
	case virtual.StatusErrIO:
		return "io"
	case virtual.StatusErrIsDir:
		return "isdir"
	case virtual.StatusErrNoEnt:
		return "noent"
	case virtual.StatusErrNotDir:
		return "notdir"
	case virtual.StatusErrNotEmpty:
		return "notempty"
	case virtual.StatusErrPerm:
		return "perm"
	case virtual.StatusErrStale:
		return "stale"
	case virtual.StatusErrXDev:
		return "xdev"
	case virtual.StatusErrSymlink:
		return "symlink"
	}
	return fmt.Sprintf("status%d", int(s))
}

func errName(err error) string {
	switch err {
	case nil:
		return "ok"
	case syscall.ENOENT:
		return "noent"
	case syscall.EEXIST:
		return "exist"
	case syscall.ENOTEMPTY:
		return "notempty"
	}
	return "io"
}

type irep struct {
	cookie uint64
	name   int
	child  any
	isDir  bool
	typed  string
	lazy   bool
}

type implOut struct {
	status     string
	hasChild   bool
	child      any
	childIsDir bool
	ci         [][2]uint64
	aux        *uint64
	reports    []irep
	noCookies  bool
}

type tmplRec struct {
	f    virtual.InitialContentsFetcher
	ref  *rtmpl
	used bool
}

// chain is the part of a paginated listing up to some returned cookie.
type chain struct {
	gens  []int        // reported entries (attach generations) in order
	alive map[int]bool // entries present at every page so far
	pages int
}

type finding struct {
	kind string // "violation" | "mismatch"
	what string
	name string
	exp  string
	act  string
}

type runner struct {
	drv  *hx.Driver
	fold bool
	nfs  bool
	seed uint64

	ha             virtual.StatefulHandleAllocator
	fileAllocator  virtual.FileAllocator
	baseFiles      virtual.FileAllocator
	symlinkFactory virtual.SymlinkFactory
	baseSymlinks   virtual.SymlinkFactory
	normalizer     virtual.ComponentNormalizer
	fetchFail      bool
	allocFail      bool
	symlinkSeq     int

	mDirs   []any
	mDirID  map[any]int
	mLeaves []any
	mLeafID map[any]int
	tmpls   []*tmplRec

	ref     *refFS
	rDirOf  map[any]*rdir
	rLeafOf map[any]*rleaf

	cookieGen map[*rdir]map[uint64]int // cookie (nextCookie) -> generation it was reported for
	genCookie map[*rdir]map[int]uint64
	chains    map[*rdir]map[uint64]*chain
	returned  map[int][]uint64 // model dir id -> cookies returned so far (generator)

	configured bool
	dead       bool
	cycle      bool
	steps      int
	skipped    int
	opIndex    int
	flags      map[string]bool
	counts     map[string]int
	fail       *finding
	mm         *finding

	signal   *signalNormalizer // the normaliser of the hierarchy; can announce that a name is being normalised
	hiddenRe *regexp.Regexp
	feMode   bool       // kernel-facing calls go through a front end (FUSE or NFSv4.0)
	fe       *frontEnds // set once the first root exists

	park *parkState // a listing is running concurrently (concurrent-listing mode)
	rec  *[]lineRec // when set: one record per applied line
}

// parkState: T1 sits inside FetchContents of a lazy child directory (holding its
// lock), T2 runs VirtualReadDir on the parent with an attributes mask that needs
// that lock; the main goroutine keeps mutating until cjoin opens the gate.
type parkState struct {
	line    string
	rd      *rdir // directory being listed
	d       any
	child   any // the directory whose lock is held
	rchild  *rdir
	f       *fetcher
	first   uint64
	k       int
	start   map[int]*rent  // entries at the start of the listing, by generation
	cookies map[int]uint64 // their cookies (from the dump taken before the listing)
	t1Done  chan struct{}
	t2Done  chan virtual.Status
	rp      *gatedReporter
}

type gatedReporter struct {
	reporter
	waitFor int // name id whose report is announced on reached (-1: none)
	reached chan struct{}
	once    sync.Once
}

func (rp *gatedReporter) ReportEntry(nextCookie uint64, name path.Component, child virtual.DirectoryChild, attributes *virtual.Attributes) bool {
	ok := rp.reporter.ReportEntry(nextCookie, name, child, attributes)
	if ok && rp.waitFor >= 0 && nameID(name.String()) == rp.waitFor {
		rp.once.Do(func() { close(rp.reached) })
	}
	return ok
}

func newRunner(drv *hx.Driver) *runner {
	return &runner{drv: drv, mDirID: map[any]int{}, mLeafID: map[any]int{}, rDirOf: map[any]*rdir{},
		rLeafOf: map[any]*rleaf{}, cookieGen: map[*rdir]map[uint64]int{}, genCookie: map[*rdir]map[int]uint64{},
		chains: map[*rdir]map[uint64]*chain{}, returned: map[int][]uint64{}, flags: map[string]bool{}, counts: map[string]int{}}
}

func (r *runner) violation(format string, a ...any) {
	if r.fail == nil {
		r.fail = &finding{kind: "violation", what: fmt.Sprintf(format, a...), name: "C13 reference hierarchy / listing / change counter monitor on the implementation trace"}
	}
}

// mismatch records a disagreement between model and implementation. The model
// is dropped and the history continues under the monitor alone: when the
// implementation also breaks the property itself, that is what gets reported.
func (r *runner) mismatch(name, what, exp, act string) {
	if r.mm == nil {
		r.mm = &finding{kind: "mismatch", what: what, name: name, exp: exp, act: act}
	}
	r.dropModel()
}

// dropModel: from here on the history runs under the monitor alone. Identifiers
// keep counting from where the model stood, so that the numbering of a history
// is "order of allocation" throughout (the shrinker relies on that).
func (r *runner) dropModel() {
	if r.drv == nil {
		return
	}
	if d, l, _, ok := r.modelSizes(); ok {
		for len(r.mDirs) < d {
			r.mDirs = append(r.mDirs, nil)
		}
		for len(r.mLeaves) < l {
			r.mLeaves = append(r.mLeaves, nil)
		}
	}
	r.drv = nil
}

func (r *runner) modelSizes() (d, l, t int, ok bool) {
	if r.drv == nil {
		return 0, 0, 0, false
	}
	out, err := r.drv.Ask("sizes")
	if err != nil {
		return 0, 0, 0, false
	}
	if n, _ := fmt.Sscanf(out, "%d %d %d", &d, &l, &t); n != 3 {
		return 0, 0, 0, false
	}
	return d, l, t, true
}

// sizes: how many directory / leaf / template ids have been handed out so far.
func (r *runner) sizes() [3]int {
	if d, l, t, ok := r.modelSizes(); ok {
		return [3]int{d, l, t}
	}
	return [3]int{len(r.mDirs), len(r.mLeaves), len(r.tmpls)}
}

// lineRec: the ids a history line allocated (recorded for the shrinker).
type lineRec struct {
	before, after [3]int
}

func (r *runner) result() *finding {
	if r.fail != nil {
		return r.fail
	}
	return r.mm
}

func (r *runner) ask(line string) string {
	if r.drv == nil {
		return ""
	}
	out, err := r.drv.Ask(line)
	if err != nil {
		return "driver-error " + err.Error()
	}
	return out
}

func comp(n int) path.Component { return path.MustNewComponent(names[n]) }

func nameID(s string) int {
	for i, n := range names {
		if n == s {
			return i
		}
	}
	return -1
}

func (r *runner) configure(fold, nfs bool) {
	r.fold, r.nfs, r.configured = fold, nfs, true
	if r.hiddenRe == nil {
		r.hiddenRe = hiddenPatterns[0]
	}
	g := rng{hx.NewRand(r.seed + 77)}
	if nfs {
		r.ha = virtual.NewNFSHandleAllocator(g)
	} else {
		r.ha = virtual.NewFUSEHandleAllocator(g)
	}
	setter := func(requested virtual.AttributesMask, attributes *virtual.Attributes) {}
	r.baseFiles = virtual.NewHandleAllocatingFileAllocator(
		virtual.NewPoolBackedFileAllocator(memPool{}, nullLogger{}, setter, virtual.NoNamedAttributesFactory), r.ha)
	r.fileAllocator = failingFileAllocator{base: r.baseFiles, fail: &r.allocFail}
	no := false
	r.baseSymlinks = statefulSymlinkFactory{base: virtual.NewBaseSymlinkFactory(setter), allocator: r.ha, fail: &no}
	r.symlinkFactory = statefulSymlinkFactory{base: virtual.NewBaseSymlinkFactory(setter), allocator: r.ha, fail: &r.allocFail}
	r.signal = &signalNormalizer{base: virtual.CaseSensitiveComponentNormalizer}
	if fold {
		r.signal.base = virtual.CaseInsensitiveComponentNormalizer
	}
	r.normalizer = r.signal
	norm := make([]int, len(names))
	hidden := make([]bool, len(names))
	cfg := []string{"cfg", strconv.Itoa(len(names))}
	for i, n := range names {
		norm[i] = i
		if fold {
			norm[i] = nameID(strings.ToLower(n))
		}
		hidden[i] = r.hiddenRe.MatchString(n)
	}
	for i := range names {
		cfg = append(cfg, strconv.Itoa(norm[i]))
	}
	for i := range names {
		if hidden[i] {
			cfg = append(cfg, "1")
		} else {
			cfg = append(cfg, "0")
		}
	}
	r.ref = newRef(norm, hidden)
	r.tmpls = []*tmplRec{{f: virtual.EmptyInitialContentsFetcher, ref: r.ref.empty}}
	if out := r.ask(strings.Join(cfg, " ")); r.drv != nil && out != "ok" {
		r.mismatch("driver configuration", "cfg rejected", "ok", out)
	}
}

func (r *runner) newRoot() virtual.PrepopulatedDirectory {
	setter := func(requested virtual.AttributesMask, attributes *virtual.Attributes) {}
	return virtual.NewInMemoryPrepopulatedDirectory(r.fileAllocator, r.symlinkFactory, nullLogger{}, r.ha,
		sort.Sort, r.hiddenRe.MatchString, clock.SystemClock, r.normalizer, setter, virtual.NoNamedAttributesFactory)
}

// ---- identity binding ------------------------------------------------------------

func (r *runner) bindModelDir(id int, p any) bool {
	if cur, ok := r.mDirID[p]; ok {
		return cur == id
	}
	for len(r.mDirs) <= id {
		r.mDirs = append(r.mDirs, nil)
	}
	if r.mDirs[id] != nil {
		return false
	}
	r.mDirs[id] = p
	r.mDirID[p] = id
	return true
}

func (r *runner) bindModelLeaf(id int, p any) bool {
	if cur, ok := r.mLeafID[p]; ok {
		return cur == id
	}
	for len(r.mLeaves) <= id {
		r.mLeaves = append(r.mLeaves, nil)
	}
	if r.mLeaves[id] != nil {
		return false
	}
	r.mLeaves[id] = p
	r.mLeafID[p] = id
	return true
}

func (r *runner) bindModelChild(tok string, p any, isDir bool) bool {
	if len(tok) < 2 {
		return false
	}
	id, err := strconv.Atoi(tok[1:])
	if err != nil {
		return false
	}
	if tok[0] == 'D' {
		return isDir && r.bindModelDir(id, p)
	}
	if tok[0] == 'L' {
		return !isDir && r.bindModelLeaf(id, p)
	}
	return false
}

func (r *runner) bindRefDir(d *rdir, p any) bool {
	if cur, ok := r.rDirOf[p]; ok {
		return cur == d
	}
	if d.impl != nil {
		return false
	}
	d.impl = p
	r.rDirOf[p] = d
	return true
}

func (r *runner) bindRefLeaf(l *rleaf, p any) bool {
	if cur, ok := r.rLeafOf[p]; ok {
		return cur == l
	}
	if l.impl != nil {
		return false
	}
	l.impl = p
	r.rLeafOf[p] = l
	return true
}

func (r *runner) bindRefChild(d *rdir, l *rleaf, p any, isDir bool) bool {
	if isDir {
		return d != nil && r.bindRefDir(d, p)
	}
	return l != nil && r.bindRefLeaf(l, p)
}

// ---- model output ---------------------------------------------------------------

type modelOut struct {
	status string
	child  string
	ci     string
	aux    string
	r      []string
}

func parseModel(line string) modelOut {
	var m modelOut
	for i, w := range strings.Fields(line) {
		switch {
		case i == 0:
			m.status = w
		case strings.HasPrefix(w, "c="):
			m.child = w[2:]
		case strings.HasPrefix(w, "ci="):
			m.ci = w[3:]
		case strings.HasPrefix(w, "aux="):
			m.aux = w[4:]
		case strings.HasPrefix(w, "r="):
			m.r = strings.Split(w[2:], ";")
		}
	}
	return m
}

func (o implOut) String() string {
	parts := []string{o.status}
	if o.status != "ok" {
		return o.status
	}
	if o.hasChild {
		parts = append(parts, fmt.Sprintf("c=<%T %p>", o.child, o.child))
	}
	if len(o.ci) > 0 {
		var cs []string
		for _, c := range o.ci {
			cs = append(cs, fmt.Sprintf("%d:%d", c[0], c[1]))
		}
		parts = append(parts, "ci="+strings.Join(cs, ","))
	}
	if o.aux != nil {
		parts = append(parts, fmt.Sprintf("aux=%d", *o.aux))
	}
	if len(o.reports) > 0 {
		var rs []string
		for _, e := range o.reports {
			if e.typed != "" {
				rs = append(rs, fmt.Sprintf("%d:%s", e.name, e.typed))
			} else {
				rs = append(rs, fmt.Sprintf("%d:%d:%p", e.cookie, e.name, e.child))
			}
		}
		parts = append(parts, "r="+strings.Join(rs, ";"))
	}
	return strings.Join(parts, " ")
}

// cmpModel compares the implementation's result with the model's output line.
func (r *runner) cmpModel(op string, o implOut, line string) {
	if r.drv == nil {
		// monitor-only mode (model dropped after a mismatch, or shrinking without
		// a model): objects seen for the first time get the next free id
		fresh := func(p any, isDir bool) {
			if p == nil {
				return
			}
			if isDir {
				if _, ok := r.mDirID[p]; !ok {
					r.bindModelDir(len(r.mDirs), p)
				}
			} else if _, ok := r.mLeafID[p]; !ok {
				r.bindModelLeaf(len(r.mLeaves), p)
			}
		}
		if o.status == "ok" {
			if o.hasChild {
				fresh(o.child, o.childIsDir)
			}
			for _, e := range o.reports {
				if e.typed == "" && !e.lazy {
					fresh(e.child, e.isDir)
				}
			}
		}
		return
	}
	if r.fail != nil {
		return
	}
	bad := func(why string) {
		r.mismatch("correspondence Model/Dir.lean <-> in_memory_prepopulated_directory.go (C13.refines_posix, C13.change_counter, C13.readdir_exactly_once)",
			fmt.Sprintf("%s: %s", op, why), line, o.String())
	}
	m := parseModel(line)
	if m.status != o.status {
		bad("status differs")
		return
	}
	if o.status != "ok" {
		return
	}
	if o.hasChild {
		if m.child == "" || !r.bindModelChild(m.child, o.child, o.childIsDir) {
			bad("returned child is not the object the model expects")
			return
		}
	}
	if len(o.ci) > 0 {
		var cs []string
		for _, c := range o.ci {
			cs = append(cs, fmt.Sprintf("%d:%d", c[0], c[1]))
		}
		if strings.Join(cs, ",") != m.ci {
			bad("ChangeInfo differs")
			return
		}
	}
	if o.aux != nil && m.aux != strconv.FormatUint(*o.aux, 10) {
		bad("attribute (link count / change id) differs")
		return
	}
	if len(o.reports) != len(m.r) {
		bad("number of reported entries differs")
		return
	}
	for i, e := range o.reports {
		f := strings.Split(m.r[i], ":")
		if e.typed != "" {
			if m.r[i] != fmt.Sprintf("%d:%s", e.name, e.typed) {
				bad(fmt.Sprintf("entry %d differs", i))
				return
			}
			continue
		}
		if len(f) != 3 {
			bad("malformed model report")
			return
		}
		if !o.noCookies && f[0] != strconv.FormatUint(e.cookie, 10) {
			bad(fmt.Sprintf("cookie of entry %d differs", i))
			return
		}
		if e.lazy {
			if !strings.HasPrefix(f[2], "D") {
				bad(fmt.Sprintf("entry %d: implementation reports an uninitialised directory", i))
				return
			}
			continue
		}
		if f[1] != strconv.Itoa(e.name) || !r.bindModelChild(f[2], e.child, e.isDir) {
			bad(fmt.Sprintf("entry %d differs", i))
			return
		}
	}
}

// ---- implementation helpers -------------------------------------------------------

func dirOf(p any) virtual.PrepopulatedDirectory { return p.(virtual.PrepopulatedDirectory) }

func changeID(p any) uint64 {
	var a virtual.Attributes
	dirOf(p).VirtualGetAttributes(ctx, virtual.AttributesMaskChangeID, &a)
	return a.GetChangeID()
}

func linkCount(p any) uint64 {
	var a virtual.Attributes
	p.(virtual.Leaf).VirtualGetAttributes(ctx, virtual.AttributesMaskLinkCount, &a)
	return uint64(a.GetLinkCount())
}

func kindOfType(t filesystem.FileType) string {
	switch t {
	case filesystem.FileTypeDirectory:
		return "D"
	case filesystem.FileTypeRegularFile:
		return "K0"
	case filesystem.FileTypeFIFO:
		return "K1"
	case filesystem.FileTypeSocket:
		return "K2"
	case filesystem.FileTypeSymlink:
		return "K3"
	}
	return "K?"
}

type reporter struct {
	k       int
	entries []irep
}

func (rp *reporter) ReportEntry(nextCookie uint64, name path.Component, child virtual.DirectoryChild, attributes *virtual.Attributes) bool {
	if len(rp.entries) >= rp.k {
		return false
	}
	d, l := child.GetPair()
	e := irep{cookie: nextCookie, name: nameID(name.String())}
	if d != nil {
		e.child, e.isDir = d, true
	} else {
		e.child = l
	}
	rp.entries = append(rp.entries, e)
	return true
}

func (r *runner) newHarnessLeaf(kind int) virtual.LinkableLeaf {
	switch kind {
	case 0:
		l, err := r.baseFiles.NewFile(pool.ZeroHoleSource, false, 0, 0)
		if err != nil {
			panic(err)
		}
		return l
	case 1:
		return r.ha.New().AsLinkableLeaf(virtual.NewSpecialFile(filesystem.FileTypeFIFO, nil))
	case 2:
		return r.ha.New().AsLinkableLeaf(virtual.NewSpecialFile(filesystem.FileTypeSocket, nil))
	default:
		r.symlinkSeq++
		l, err := r.baseSymlinks.LookupSymlink(path.UNIXFormat.NewParser(fmt.Sprintf("t%d", r.symlinkSeq)))
		if err != nil {
			panic(err)
		}
		return l
	}
}

// children of a createchildren / deftmpl line: (name L leaf | name D tmpl)*.
type childSpec struct {
	name int
	leaf int
	tmpl int
	dir  bool
}

func parseChildSpecs(f []string) ([]childSpec, bool) {
	var cs []childSpec
	for len(f) >= 3 {
		n, e1 := strconv.Atoi(f[0])
		x, e2 := strconv.Atoi(f[2])
		if e1 != nil || e2 != nil || n < 0 || n >= len(names) || x < 0 {
			return nil, false
		}
		switch f[1] {
		case "L":
			cs = append(cs, childSpec{name: n, leaf: x})
		case "D":
			cs = append(cs, childSpec{name: n, tmpl: x, dir: true})
		default:
			return nil, false
		}
		f = f[3:]
	}
	return cs, len(f) == 0
}

// usable checks that every referenced leaf/template exists and has not been
// handed over before (each InitialChild carries its own reference), and that no
// name occurs twice (a Go map cannot express that).
func (r *runner) usable(cs []childSpec) bool {
	seenN := map[int]bool{}
	seenL := map[int]bool{}
	seenT := map[int]bool{}
	for _, c := range cs {
		if seenN[c.name] {
			return false
		}
		seenN[c.name] = true
		if c.dir {
			if c.tmpl >= len(r.tmpls) || (c.tmpl != 0 && (r.tmpls[c.tmpl].used || seenT[c.tmpl])) {
				return false
			}
			seenT[c.tmpl] = true
		} else {
			if c.leaf >= len(r.mLeaves) || r.mLeaves[c.leaf] == nil || seenL[c.leaf] {
				return false
			}
			rl := r.rLeafOf[r.mLeaves[c.leaf]]
			if rl == nil || rl.handedOver || rl.everAttached {
				return false
			}
			seenL[c.leaf] = true
		}
	}
	return true
}

func (r *runner) buildChildren(cs []childSpec) (map[path.Component]virtual.InitialChild, []rtchild) {
	m := map[path.Component]virtual.InitialChild{}
	var rc []rtchild
	for _, c := range cs {
		if c.dir {
			t := r.tmpls[c.tmpl]
			if c.tmpl != 0 {
				t.used = true
			}
			m[comp(c.name)] = virtual.InitialChild{}.FromDirectory(t.f)
			rc = append(rc, rtchild{name: c.name, tmpl: t.ref})
		} else {
			p := r.mLeaves[c.leaf]
			rl := r.rLeafOf[p]
			rl.handedOver = true
			m[comp(c.name)] = virtual.InitialChild{}.FromLeaf(p.(virtual.LinkableLeaf))
			rc = append(rc, rtchild{name: c.name, leaf: rl})
		}
	}
	return m, rc
}

// ---- monitor: change counter -----------------------------------------------------

type dirSnap struct {
	cid        uint64
	gens       string
	wasPending bool
}

func gensKey(d *rdir) string {
	var g []int
	for _, e := range d.ents {
		g = append(g, e.gen)
	}
	sort.Ints(g)
	return fmt.Sprint(g)
}

func (r *runner) snapshot() map[any]dirSnap {
	m := map[any]dirSnap{}
	for _, p := range r.mDirs {
		if p == nil || (r.park != nil && p == r.park.child) {
			continue
		}
		if rd := r.rDirOf[p]; rd != nil {
			m[p] = dirSnap{cid: changeID(p), gens: gensKey(rd), wasPending: rd.pending != nil}
		}
	}
	return m
}

func (r *runner) checkCounters(op string, pre map[any]dirSnap) {
	for p, s := range pre {
		rd := r.rDirOf[p]
		now := changeID(p)
		modified := gensKey(rd) != s.gens
		switch {
		case now < s.cid:
			r.violation("%s: change counter of directory D%d went back from %d to %d", op, r.mDirID[p], s.cid, now)
		case modified && now == s.cid:
			r.violation("%s: directory D%d was modified but its change counter stayed %d", op, r.mDirID[p], now)
		case !modified && !s.wasPending && now != s.cid:
			r.violation("%s: directory D%d was not modified but its change counter went from %d to %d", op, r.mDirID[p], s.cid, now)
		}
	}
}

// checkChangeInfo: Before/After are the counter values before/after the call.
func (r *runner) checkChangeInfo(op string, p any, ci [2]uint64, pre map[any]dirSnap) {
	now := changeID(p)
	if ci[1] != now {
		r.violation("%s: ChangeInfo.After=%d but the directory's change counter is %d", op, ci[1], now)
	}
	if s, ok := pre[p]; ok && !s.wasPending && ci[0] != s.cid {
		r.violation("%s: ChangeInfo.Before=%d but the directory's change counter was %d", op, ci[0], s.cid)
	}
	if ci[0] > ci[1] {
		r.violation("%s: ChangeInfo.Before=%d > After=%d", op, ci[0], ci[1])
	}
}

// ---- monitor: paginated listing ---------------------------------------------------

func (r *runner) checkPage(op string, rd *rdir, first uint64, k int, page []irep) {
	if r.cookieGen[rd] == nil {
		r.cookieGen[rd] = map[uint64]int{}
		r.genCookie[rd] = map[int]uint64{}
		r.chains[rd] = map[uint64]*chain{}
	}
	cur := rd.gens()
	var ch *chain
	if first == 0 {
		ch = &chain{alive: map[int]bool{}}
		for g := range cur {
			ch.alive[g] = true
		}
	} else if prev, ok := r.chains[rd][first]; ok {
		ch = &chain{gens: append([]int(nil), prev.gens...), alive: map[int]bool{}, pages: prev.pages}
		for g := range prev.alive {
			if _, still := cur[g]; still {
				ch.alive[g] = true
			}
		}
	}
	if ch != nil {
		ch.pages++
	}
	last := first
	for i, e := range page {
		if e.cookie <= last {
			r.violation("%s: entry %d has cookie %d, not greater than %d", op, i, e.cookie, last)
			return
		}
		last = e.cookie
		ent, ok := rd.ents[r.ref.norm[e.name]]
		if !ok || ent.name != e.name {
			r.violation("%s: reported name %s that is not in the directory", op, names[e.name])
			return
		}
		if !r.bindRefChild(ent.dir, ent.leaf, e.child, e.isDir) {
			r.violation("%s: entry %s reported with the wrong child object", op, names[e.name])
			return
		}
		if !r.ref.visible(ent) {
			r.violation("%s: hidden file %s was listed", op, names[e.name])
			return
		}
		if g, ok := r.cookieGen[rd][e.cookie]; ok && g != ent.gen {
			r.violation("%s: cookie %d was reused for a different entry (%s)", op, e.cookie, names[e.name])
			return
		}
		if c, ok := r.genCookie[rd][ent.gen]; ok && c != e.cookie {
			r.violation("%s: entry %s was reported with cookie %d and later %d", op, names[e.name], c, e.cookie)
			return
		}
		r.cookieGen[rd][e.cookie] = ent.gen
		r.genCookie[rd][ent.gen] = e.cookie
		if ch != nil {
			for _, g := range ch.gens {
				if g == ent.gen {
					r.violation("%s: entry %s reported twice in one listing", op, names[e.name])
					return
				}
			}
			ch.gens = append(ch.gens, ent.gen)
			r.chains[rd][e.cookie] = &chain{gens: append([]int(nil), ch.gens...), alive: ch.alive, pages: ch.pages}
		}
	}
	if ch != nil && len(page) < k {
		r.flags["listing-complete"] = true
		if ch.pages > 1 && len(ch.gens) > 1 {
			r.flags["listing-multipage"] = true
		}
		for g := range ch.alive {
			ent := cur[g]
			if !r.ref.visible(ent) {
				continue
			}
			n := 0
			for _, x := range ch.gens {
				if x == g {
					n++
				}
			}
			if n != 1 {
				r.violation("%s: listing ended; entry %s existed from its first to its last page but was reported %d times", op, names[ent.name], n)
				return
			}
		}
	}
}

// ---- one operation -----------------------------------------------------------------

func atoi(s string) int {
	n, err := strconv.Atoi(s)
	if err != nil {
		return -1
	}
	return n
}

func (r *runner) implDir(id int) any {
	if id < 0 || id >= len(r.mDirs) {
		return nil
	}
	return r.mDirs[id]
}

func (r *runner) implLeaf(id int) any {
	if id < 0 || id >= len(r.mLeaves) {
		return nil
	}
	return r.mLeaves[id]
}

func validName(n int) bool { return n >= 0 && n < len(names) }

// protect runs one call into the implementation; a panic becomes status "panic".
func protect(f func() implOut) (o implOut) {
	defer func() {
		if rec := recover(); rec != nil {
			o = implOut{status: "panic"}
		}
	}()
	return f()
}

func (r *runner) skip() { r.skipped++ }

// watch lets a watchdog see which history is running: a call that never returns
// (a directory lock left behind by an earlier call) must not hang the check.
var watch struct {
	sync.Mutex
	lines []string
	beat  time.Time
}

func heartbeat(line string, reset bool) {
	watch.Lock()
	if reset {
		watch.lines = nil
	}
	if line != "" {
		watch.lines = append(watch.lines, line)
	}
	watch.beat = time.Now()
	watch.Unlock()
}

func startWatchdog(res *hx.Result, o hx.Opts, drv *hx.Driver) {
	heartbeat("", true)
	go func() {
		for {
			time.Sleep(2 * time.Second)
			watch.Lock()
			stuck := time.Since(watch.beat) > hx.StallLimit(60*time.Second)
			lines := append([]string(nil), watch.lines...)
			watch.Unlock()
			if stuck {
				what := "the call did not return within the load-scaled stall limit (at least 240 s) (a directory lock left behind by an earlier call?)"
				if n := len(lines); n > 0 {
					what = lines[n-1] + ": " + what
				}
				res.Report(hx.Finding{Kind: "violation", Property: "C13", What: what,
					Name: "C13 monitor: every call returns", History: lines, Sig: hx.Sig("C13", "dir", "hang", strings.Join(lines, ";"))})
				res.ModelLines = drv.Lines
				res.Write(o)
				os.Exit(0)
			}
		}
	}()
}

// apply executes one history line and then makes sure that no directory lock was
// left behind (C14's hook VerifLockIsFree on every directory the harness knows).
func (r *runner) apply(line string) {
	if r.fail != nil || r.dead {
		return
	}
	var before [3]int
	if r.rec != nil {
		if !r.configured { // the driver still holds the store of the previous history
			before = [3]int{0, 0, 1}
		} else {
			before = r.sizes()
		}
	}
	r.apply1(line)
	r.checkLocks(line)
	if r.rec != nil {
		after := r.sizes()
		for i := range after {
			if after[i] < before[i] {
				after[i] = before[i]
			}
		}
		*r.rec = append(*r.rec, lineRec{before: before, after: after})
	}
}

// checkLocks: C14's hook on every directory the harness knows. Called right after
// the implementation returned, before anything else takes a directory lock.
func (r *runner) checkLocks(line string) {
	if r.dead || (r.fail != nil && r.fail.kind == "violation") {
		return
	}
	for id, p := range r.mDirs {
		if p == nil {
			continue
		}
		if r.park != nil && (p == r.park.d || p == r.park.child) {
			continue // held on purpose by the concurrent listing / the gated fetcher
		}
		if free, ok := virtual.VerifLockIsFree(dirOf(p)); ok && !free {
			r.fail = &finding{kind: "violation", what: fmt.Sprintf("%s: the call returned but the lock of directory D%d is still held (the next call on it would never return)", line, id),
				name: "C13 correspondence, C14-flavoured: every call releases the directory locks it took (VerifLockIsFree)"}
			r.dead = true // touching that directory again would hang
			return
		}
	}
}

// apply1 executes one history line on implementation, model and reference.
func (r *runner) apply1(line string) {
	heartbeat(line, false)
	f := strings.Fields(line)
	if len(f) == 0 {
		return
	}
	if f[0] == "config" {
		if r.configured || len(f) < 3 || len(f) > 5 {
			r.skip()
			return
		}
		r.feMode = len(f) >= 4 && f[3] == "1"
		if len(f) == 5 && f[4] == "1" {
			r.hiddenRe = hiddenPatterns[1]
		}
		r.configure(f[1] == "1", f[2] == "1")
		return
	}
	if !r.configured {
		r.configure(false, false)
	}
	r.opIndex++
	arg := func(i int) int {
		if i < len(f) {
			return atoi(f[i])
		}
		return -1
	}
	d := r.implDir(arg(1))
	var rd *rdir
	if d != nil {
		rd = r.rDirOf[d]
	}
	needDir := map[string]bool{"mkdir": true, "mknod": true, "open": true, "link": true, "lookup": true, "readdir": true,
		"rename": true, "vremove": true, "getattr": true, "lookupchild": true, "lookupall": true, "readdirb": true,
		"remove": true, "removeall": true, "removeallchildren": true, "createchildren": true, "createandenter": true,
		"filter": true, "installhooks": true}
	if needDir[f[0]] && (d == nil || rd == nil) {
		r.skip()
		return
	}
	if r.park != nil && r.blockedWhileParked(f, d, rd, arg) {
		r.skip()
		return
	}
	needName := map[string]bool{"mkdir": true, "mknod": true, "open": true, "link": true, "lookup": true, "rename": true,
		"vremove": true, "lookupchild": true, "remove": true, "removeall": true, "createandenter": true}
	if needName[f[0]] && !validName(arg(2)) {
		r.skip()
		return
	}
	n := arg(2)
	var o implOut
	var ro rout
	var pre map[any]dirSnap
	std := func(modelLine string, impl func() implOut, ref func() rout) {
		pre = r.snapshot()
		o = protect(impl)
		if o.status == "front-end-disagrees" { // recorded by disagree(); nothing sensible to compare
			r.dead = true
			ro = rout{status: o.status}
			return
		}
		if o.status != "panic" {
			r.checkLocks(line)
		}
		r.cmpModel(line, o, r.ask(modelLine))
		ro = ref()
		if o.status == "panic" {
			r.dead = true
			r.flags["panic"] = true
		}
		if r.fail == nil && o.status != ro.status {
			r.violation("%s: implementation answered %s, the reference hierarchy says %s", line, o.status, ro.status)
		}
	}
	checkChild := func() {
		if r.fail == nil && o.status == "ok" && o.hasChild {
			if !r.bindRefChild(ro.dir, ro.leaf, o.child, o.childIsDir) {
				r.violation("%s: returned child is not the object that was put under that name", line)
			}
		}
	}
	finish := func() {
		if r.fail == nil && !r.dead {
			r.checkCounters(line, pre)
		}
		r.steps++
		r.counts["op-"+f[0]]++
		r.counts["status-"+o.status]++
	}
	mask := virtual.AttributesMaskLinkCount | virtual.AttributesMaskInodeNumber
	if r.opIndex%2 == 0 {
		mask |= virtual.AttributesMaskChangeID
	}

	switch f[0] {
	case "newroot":
		fs := arg(1)
		if fs < 0 || len(f) != 2 {
			r.skip()
			return
		}
		root := r.newRoot()
		m := parseModel(r.ask(line))
		if r.drv != nil && (m.status != "ok" || !r.bindModelChild(m.child, root, true)) {
			r.mismatch("driver", "newroot", "ok c=D<new>", m.status+" "+m.child)
			return
		}
		if r.drv == nil {
			r.bindModelDir(len(r.mDirs), root)
		}
		r.bindRefDir(r.ref.newDir(fs, r.ref.empty), root)
		if r.feMode && r.fe == nil {
			r.setupFrontEnds(root)
			r.flags["front-end-"+r.fe.kind] = true
		}
		r.steps++

	case "newleaf":
		k := arg(1)
		if k < 0 || k > 3 || len(f) != 2 {
			r.skip()
			return
		}
		l := r.newHarnessLeaf(k)
		m := parseModel(r.ask(line))
		if r.drv != nil && (m.status != "ok" || !r.bindModelChild(m.child, l, false)) {
			r.mismatch("driver", "newleaf", "ok c=L<new>", m.status+" "+m.child)
			return
		}
		if r.drv == nil {
			r.bindModelLeaf(len(r.mLeaves), l)
		}
		r.bindRefLeaf(&rleaf{kind: k}, l)
		r.steps++

	case "deftmpl":
		cs, ok := parseChildSpecs(f[1:])
		if !ok || !r.usable(cs) {
			r.skip()
			return
		}
		children, rc := r.buildChildren(cs)
		m := parseModel(r.ask(line))
		if r.drv != nil && (m.status != "ok" || m.aux != strconv.Itoa(len(r.tmpls))) {
			r.mismatch("driver", "deftmpl", fmt.Sprintf("ok aux=%d", len(r.tmpls)), m.status+" aux="+m.aux)
			return
		}
		r.tmpls = append(r.tmpls, &tmplRec{f: &fetcher{children: children, fail: &r.fetchFail}, ref: &rtmpl{children: rc}})
		r.steps++

	case "fetchfail", "allocfail":
		b := arg(1)
		if b != 0 && b != 1 {
			r.skip()
			return
		}
		if f[0] == "fetchfail" {
			r.fetchFail, r.ref.fetchFail = b == 1, b == 1
		} else {
			r.allocFail, r.ref.allocFail = b == 1, b == 1
		}
		r.ask(line)
		r.flags["fault"] = r.flags["fault"] || b == 1
		r.steps++

	case "installhooks":
		setter := func(requested virtual.AttributesMask, attributes *virtual.Attributes) {}
		std(line, func() implOut {
			dirOf(d).InstallHooks(r.fileAllocator, r.symlinkFactory, nullLogger{}, setter, virtual.NoNamedAttributesFactory)
			return implOut{status: "ok"}
		}, func() rout { return rout{status: "ok"} })
		finish()

	case "mkdir":
		std(line, func() implOut {
			if o, ok := r.feMkdir(line, d, rd, n); ok {
				return o
			}
			var out virtual.Attributes
			c, ci, s := dirOf(d).VirtualMkdir(ctx, comp(n), &virtual.Attributes{}, mask, &out)
			if s != virtual.StatusOK {
				return implOut{status: statusName(s)}
			}
			return implOut{status: "ok", hasChild: true, child: c, childIsDir: true, ci: [][2]uint64{{ci.Before, ci.After}}}
		}, func() rout { return r.ref.mkdir(rd, n) })
		checkChild()
		if r.fail == nil && o.status == "ok" && len(o.ci) > 0 {
			r.checkChangeInfo(line, d, o.ci[0], pre)
		}
		finish()

	case "mknod":
		k := arg(3)
		if k < 1 || k > 4 {
			r.skip()
			return
		}
		std(line, func() implOut {
			if o, ok := r.feMknod(line, d, rd, n, k); ok {
				return o
			}
			var out virtual.Attributes
			attr := &virtual.Attributes{}
			switch k {
			case 1:
				attr.SetFileType(filesystem.FileTypeFIFO)
			case 2:
				attr.SetFileType(filesystem.FileTypeSocket)
			case 3:
				r.symlinkSeq++
				attr.SetFileType(filesystem.FileTypeSymlink)
				attr.SetSymlinkTarget(path.UNIXFormat.NewParser(fmt.Sprintf("t%d", r.symlinkSeq)))
			default:
				attr.SetFileType(filesystem.FileTypeBlockDevice)
			}
			c, ci, s := dirOf(d).VirtualMknod(ctx, comp(n), attr, mask, &out)
			if s != virtual.StatusOK {
				return implOut{status: statusName(s)}
			}
			return implOut{status: "ok", hasChild: true, child: c, ci: [][2]uint64{{ci.Before, ci.After}}}
		}, func() rout { return r.ref.mknod(rd, n, k) })
		checkChild()
		if r.fail == nil && o.status == "ok" && len(o.ci) > 0 {
			r.checkChangeInfo(line, d, o.ci[0], pre)
		}
		finish()

	case "open":
		create, existing := arg(3) == 1, arg(4) == 1
		if !create && !existing {
			r.skip()
			return
		}
		std(line, func() implOut {
			if o, ok := r.feOpen(line, d, rd, n, create, existing); ok {
				return o
			}
			var out virtual.Attributes
			var ca *virtual.Attributes
			var eo *virtual.OpenExistingOptions
			if create {
				ca = (&virtual.Attributes{}).SetPermissions(virtual.PermissionsRead | virtual.PermissionsWrite)
			}
			if existing {
				eo = &virtual.OpenExistingOptions{}
			}
			l, _, ci, s := dirOf(d).VirtualOpenChild(ctx, comp(n), virtual.ShareMaskRead, ca, eo, mask, &out)
			if s != virtual.StatusOK {
				return implOut{status: statusName(s)}
			}
			l.VirtualClose(virtual.ShareMaskRead)
			return implOut{status: "ok", hasChild: true, child: l, ci: [][2]uint64{{ci.Before, ci.After}}}
		}, func() rout { return r.ref.open(rd, n, create, existing) })
		checkChild()
		if r.fail == nil && o.status == "ok" && len(o.ci) > 0 {
			r.checkChangeInfo(line, d, o.ci[0], pre)
		}
		finish()

	case "link":
		l := r.implLeaf(arg(3))
		var rl *rleaf
		if l != nil {
			rl = r.rLeafOf[l]
		}
		if rl == nil || !rl.everAttached {
			r.skip()
			return
		}
		std(line, func() implOut {
			if o, ok := r.feLink(line, d, rd, n, l, rl); ok {
				return o
			}
			var out virtual.Attributes
			ci, s := dirOf(d).VirtualLink(ctx, comp(n), l.(virtual.Leaf), mask, &out)
			if s != virtual.StatusOK {
				return implOut{status: statusName(s)}
			}
			return implOut{status: "ok", ci: [][2]uint64{{ci.Before, ci.After}}}
		}, func() rout { return r.ref.link(rd, n, rl) })
		if r.fail == nil && o.status == "ok" && len(o.ci) > 0 {
			r.checkChangeInfo(line, d, o.ci[0], pre)
		}
		if o.status == "ok" {
			r.flags["hardlink"] = true
		}
		finish()

	case "lookup":
		std(line, func() implOut {
			if o, ok := r.feLookup(line, d, rd, n); ok {
				return o
			}
			var out virtual.Attributes
			c, s := dirOf(d).VirtualLookup(ctx, comp(n), mask, &out)
			if s != virtual.StatusOK {
				return implOut{status: statusName(s)}
			}
			cd, cl := c.GetPair()
			if cd != nil {
				a := changeID(cd)
				if mask&virtual.AttributesMaskChangeID != 0 {
					a = out.GetChangeID()
				}
				return implOut{status: "ok", hasChild: true, child: cd, childIsDir: true, aux: &a}
			}
			a := uint64(out.GetLinkCount())
			return implOut{status: "ok", hasChild: true, child: cl, aux: &a}
		}, func() rout { return r.ref.lookup(rd, n) })
		checkChild()
		if r.fail == nil && o.status == "ok" && !o.childIsDir {
			if want := uint64(r.ref.nlink(ro.leaf)); *o.aux != want {
				r.violation("%s: link count is %d but %d names refer to the file", line, *o.aux, want)
			}
		}
		finish()

	case "readdir":
		c, k := arg(2), arg(3)
		if c < 0 || k < 1 {
			r.skip()
			return
		}
		std(line, func() implOut {
			if o, ok := r.feReaddir(line, d, rd, c, k); ok {
				return o
			}
			rp := &reporter{k: k}
			if s := dirOf(d).VirtualReadDir(ctx, uint64(c), mask, rp); s != virtual.StatusOK {
				return implOut{status: statusName(s)}
			}
			return implOut{status: "ok", reports: rp.entries}
		}, func() rout { return r.ref.list(rd, true) })
		if r.fail == nil && o.status == "ok" {
			r.checkPage(line, rd, uint64(c), k, o.reports)
			id := arg(1)
			for _, e := range o.reports {
				r.returned[id] = append(r.returned[id], e.cookie)
			}
		}
		finish()

	case "rename":
		d2 := r.implDir(arg(3))
		n2 := arg(4)
		var rd2 *rdir
		if d2 != nil {
			rd2 = r.rDirOf[d2]
		}
		if rd2 == nil || !validName(n2) {
			r.skip()
			return
		}
		std(line, func() implOut {
			if o, ok := r.feRename(line, d, rd, n, d2, rd2, n2); ok {
				return o
			}
			ci1, ci2, s := dirOf(d).VirtualRename(ctx, comp(n), dirOf(d2), comp(n2))
			if s != virtual.StatusOK {
				return implOut{status: statusName(s)}
			}
			return implOut{status: "ok", ci: [][2]uint64{{ci1.Before, ci1.After}, {ci2.Before, ci2.After}}}
		}, func() rout { return r.ref.rename(rd, n, rd2, n2) })
		if r.fail == nil && o.status == "ok" && len(o.ci) == 2 {
			r.checkChangeInfo(line, d, o.ci[0], pre)
			r.checkChangeInfo(line, d2, o.ci[1], pre)
		}
		if o.status == "ok" {
			r.flags["rename"] = true
		}
		if !r.cycle && r.ref.hasCycle() {
			r.cycle = true
			r.flags["cycle"] = true
		}
		finish()

	case "vremove":
		a, b := arg(3) == 1, arg(4) == 1
		std(line, func() implOut {
			if o, ok := r.feRemove(line, d, rd, n, a, b); ok {
				return o
			}
			ci, s := dirOf(d).VirtualRemove(ctx, comp(n), a, b)
			if s != virtual.StatusOK {
				return implOut{status: statusName(s)}
			}
			return implOut{status: "ok", ci: [][2]uint64{{ci.Before, ci.After}}}
		}, func() rout { return r.ref.vremove(rd, n, a, b) })
		if r.fail == nil && o.status == "ok" && len(o.ci) > 0 {
			r.checkChangeInfo(line, d, o.ci[0], pre)
		}
		if o.status == "ok" {
			r.flags["remove"] = true
		}
		finish()

	case "getattr":
		std(line, func() implOut {
			a := changeID(d)
			return implOut{status: "ok", aux: &a}
		}, func() rout { return rout{status: "ok"} })
		finish()

	case "lookupchild":
		std(line, func() implOut {
			c, err := dirOf(d).LookupChild(comp(n))
			if err != nil {
				return implOut{status: errName(err)}
			}
			cd, cl := c.GetPair()
			if cd != nil {
				return implOut{status: "ok", hasChild: true, child: cd, childIsDir: true}
			}
			return implOut{status: "ok", hasChild: true, child: cl}
		}, func() rout { return r.ref.lookup(rd, n) })
		checkChild()
		finish()

	case "lookupall":
		std(line, func() implOut {
			ds, ls, err := dirOf(d).LookupAllChildren()
			if err != nil {
				return implOut{status: errName(err)}
			}
			o := implOut{status: "ok"}
			for _, e := range ds {
				o.reports = append(o.reports, irep{name: nameID(e.Name.String()), child: e.Child, isDir: true})
			}
			for _, e := range ls {
				o.reports = append(o.reports, irep{name: nameID(e.Name.String()), child: e.Child})
			}
			return o
		}, func() rout { return r.ref.list(rd, true) })
		r.checkListing(line, o, ro, false)
		finish()

	case "readdirb":
		std(line, func() implOut {
			es, err := dirOf(d).ReadDir()
			if err != nil {
				return implOut{status: errName(err)}
			}
			o := implOut{status: "ok"}
			for _, e := range es {
				o.reports = append(o.reports, irep{name: nameID(e.Name().String()), typed: kindOfType(e.Type())})
			}
			return o
		}, func() rout { return r.ref.list(rd, true) })
		r.checkListing(line, o, ro, true)
		finish()

	case "remove":
		std(line, func() implOut { return implOut{status: errName(dirOf(d).Remove(comp(n)))} },
			func() rout { return r.ref.vremove(rd, n, true, true) })
		finish()

	case "removeall":
		std(line, func() implOut { return implOut{status: errName(dirOf(d).RemoveAll(comp(n)))} },
			func() rout { return r.ref.removeAll(rd, n) })
		r.flags["bulk"] = true
		finish()

	case "removeallchildren":
		b := arg(2) == 1
		std(line, func() implOut { return implOut{status: errName(dirOf(d).RemoveAllChildren(b))} },
			func() rout { return r.ref.removeAllChildren(rd, b) })
		r.flags["bulk"] = true
		finish()

	case "createchildren":
		ow := arg(2) == 1
		cs, ok := parseChildSpecs(f[3:])
		if len(f) < 3 || !ok || !r.usable(cs) {
			r.skip()
			return
		}
		children, rc := r.buildChildren(cs)
		std(line, func() implOut { return implOut{status: errName(dirOf(d).CreateChildren(children, ow))} },
			func() rout { return r.ref.createChildren(rd, ow, rc) })
		if o.status == "ok" {
			r.flags["bulk"] = true
		}
		finish()

	case "createandenter":
		std(line, func() implOut {
			c, err := dirOf(d).CreateAndEnterPrepopulatedDirectory(comp(n))
			if err != nil {
				return implOut{status: errName(err)}
			}
			return implOut{status: "ok", hasChild: true, child: c, childIsDir: true}
		}, func() rout { return r.ref.createAndEnter(rd, n) })
		checkChild()
		finish()

	case "filter":
		limit, rmMask, sync := arg(2), arg(3), arg(4) == 1
		if limit < 1 || rmMask < 0 || r.cycle {
			r.skip()
			return
		}
		r.filter(line, d, rd, arg(1), limit, rmMask, sync)

	case "check":
		r.checkAll(line)

	case "clist":
		r.clist(line, f)

	case "crename", "cremove":
		r.crace(line, f)

	case "cjoin":
		if r.park == nil {
			r.skip()
			return
		}
		r.cjoin()

	default:
		r.skip()
	}
}

// ---- concurrent-listing mode ------------------------------------------------------

// blockedWhileParked: operations that would need the lock that T1 holds (they
// would only return after cjoin), or that the mode does not support.
func (r *runner) blockedWhileParked(f []string, d any, rd *rdir, arg func(int) int) bool {
	pk := r.park
	switch f[0] {
	case "clist", "crename", "cremove", "filter", "check", "fetchfail", "removeallchildren", "installhooks", "newroot":
		return true
	}
	if d == pk.child {
		return true
	}
	onChild := func(dir *rdir, name int) bool {
		if dir == nil || name < 0 || name >= len(names) {
			return false
		}
		e, ok := dir.ents[r.ref.norm[name]]
		return ok && e.dir == pk.rchild
	}
	switch f[0] {
	case "rename":
		d2 := r.implDir(arg(3))
		if d2 == nil || d2 == pk.child {
			return true
		}
		// the target name must not be the held directory (rename locks it)
		return onChild(r.rDirOf[d2], arg(4))
	case "readdir":
		return true // sequential listings take the same child locks
	case "createchildren":
		return arg(2) == 1 // overwrite may have to destroy the held directory
	case "mkdir", "mknod", "open", "link", "lookupall", "readdirb", "getattr", "newleaf", "deftmpl", "allocfail":
		return false
	}
	if f[0] == "removeall" && rd != nil && validName(arg(2)) {
		// a recursive removal must not reach the held directory
		if e, ok := rd.ents[r.ref.norm[arg(2)]]; ok && e.isDir() && r.ref.below(e.dir, pk.rchild) {
			return true
		}
	}
	// lookup / lookupchild / vremove / remove / removeall / createandenter: not on the held directory
	return onChild(rd, arg(2))
}

// clist d n c k: start a listing of d from cookie c (page size k) that will park
// on the lock of d's lazy child directory n.
func (r *runner) clist(line string, f []string) {
	if r.park != nil || len(f) != 5 {
		r.skip()
		return
	}
	d := r.implDir(atoi(f[1]))
	n, c, k := atoi(f[2]), atoi(f[3]), atoi(f[4])
	if d == nil || !validName(n) || c < 0 || k < 1 || r.fetchFail {
		r.skip()
		return
	}
	rd := r.rDirOf[d]
	if rd == nil || rd.pending != nil {
		r.skip()
		return
	}
	e, ok := rd.ents[r.ref.norm[n]]
	if !ok || e.dir == nil || e.dir.pending == nil || e.dir.pending == r.ref.empty {
		r.skip()
		return
	}
	var ft *fetcher
	for _, t := range r.tmpls {
		if t.ref == e.dir.pending {
			ft, _ = t.f.(*fetcher)
		}
	}
	if ft == nil {
		r.skip()
		return
	}
	// from here on the history is judged by the monitor alone (the model's
	// VirtualReadDir is atomic per page)
	r.dropModel()
	got, err := dirOf(d).LookupChild(comp(e.name))
	cd, _ := got.GetPair()
	if err != nil || cd == nil || !r.bindRefDir(e.dir, cd) {
		r.violation("%s: LookupChild(%s) does not return the directory that is there", line, names[e.name])
		return
	}
	if _, ok := r.mDirID[cd]; !ok {
		r.bindModelDir(len(r.mDirs), cd)
	}
	dump, _ := virtual.VerifDumpDirectory(dirOf(d))
	pk := &parkState{line: line, rd: rd, d: d, child: cd, rchild: e.dir, f: ft, first: uint64(c), k: k,
		start: rd.gens(), cookies: map[int]uint64{}, t1Done: make(chan struct{}), t2Done: make(chan virtual.Status, 1)}
	// the entry reported just before the held directory, if the page gets that far
	pred, pos := -1, 0
	for _, de := range dump.Entries {
		id := nameID(de.Name)
		if ent, ok := rd.ents[nameID(de.NormalizedName)]; ok && ent.name == id {
			pk.cookies[ent.gen] = de.Cookie
		}
		if de.Cookie < uint64(c) || (de.Directory == nil && r.hiddenRe.MatchString(de.Name)) {
			continue
		}
		if de.Directory != nil && any(de.Directory) == cd {
			break
		}
		pos++
		if pos <= k {
			pred = id
		}
	}
	ft.gate, ft.entered = make(chan struct{}), make(chan struct{})
	go func() { // T1
		defer close(pk.t1Done)
		defer func() { recover() }()
		dirOf(cd).LookupChild(comp(0))
	}()
	<-ft.entered
	pk.rp = &gatedReporter{reporter: reporter{k: k}, waitFor: pred, reached: make(chan struct{})}
	started := make(chan struct{})
	go func() { // T2
		st := virtual.StatusErrIO
		defer func() {
			recover()
			pk.t2Done <- st
		}()
		close(started)
		st = dirOf(d).VirtualReadDir(ctx, uint64(c), virtual.AttributesMaskChangeID|virtual.AttributesMaskInodeNumber, pk.rp)
	}()
	<-started
	if pred >= 0 {
		select {
		case <-pk.rp.reached:
		case st := <-pk.t2Done:
			pk.t2Done <- st
		}
	} else {
		time.Sleep(2 * time.Millisecond)
	}
	r.park = pk
	r.flags["concurrent-listing"] = true
	r.steps++
	r.counts["op-clist"]++
}

// cjoin opens the gate, waits for both goroutines and judges the listing.
func (r *runner) cjoin() {
	pk := r.park
	close(pk.f.gate)
	st := <-pk.t2Done
	<-pk.t1Done
	pk.f.gate = nil
	r.park = nil
	r.ref.lookup(pk.rchild, 0) // T1's LookupChild initialised the directory
	r.steps++
	r.counts["op-cjoin"]++
	line := pk.line + " … cjoin"
	if st != virtual.StatusOK {
		r.violation("%s: concurrent VirtualReadDir answered %s", line, statusName(st))
		return
	}
	page := pk.rp.entries
	end := pk.rd.gens()
	seen := map[int]int{}
	last := pk.first
	for i, e := range page {
		if e.cookie <= last {
			r.violation("%s: entry %d (%s) has cookie %d, not greater than %d: the listing went back", line, i, names[e.name], e.cookie, last)
			return
		}
		last = e.cookie
		// the entry must have been there at some time during the listing
		var ent *rent
		for _, m := range []map[int]*rent{end, pk.start} {
			for _, x := range m {
				if x.name == e.name && (ent == nil || x.gen > ent.gen) && r.matches(x, e) {
					ent = x
				}
			}
		}
		if ent == nil {
			r.violation("%s: reported %s, which was not in the directory during the listing (or not that object)", line, names[e.name])
			return
		}
		if !r.ref.visible(ent) {
			r.violation("%s: hidden file %s was listed", line, names[e.name])
			return
		}
		seen[ent.gen]++
		if seen[ent.gen] > 1 {
			r.violation("%s: entry %s reported twice in one page", line, names[e.name])
			return
		}
	}
	if len(page) < pk.k { // the page ran to the end of the directory
		for g, ent := range pk.start {
			if _, still := end[g]; !still || !r.ref.visible(ent) {
				continue
			}
			if ck, ok := pk.cookies[g]; !ok || ck < pk.first {
				continue
			}
			if seen[g] != 1 {
				r.violation("%s: entry %s existed throughout the listing but was reported %d times", line, names[ent.name], seen[g])
				return
			}
		}
		r.flags["concurrent-listing-complete"] = true
	}
}

// matches: the reported child is the object of the reference entry.
func (r *runner) matches(x *rent, e irep) bool {
	if x.isDir() != e.isDir {
		return false
	}
	if x.isDir() {
		return x.dir.impl == nil || x.dir.impl == e.child
	}
	return x.leaf.impl == nil || x.leaf.impl == e.child
}

// checkListing compares LookupAllChildren / ReadDir with the reference contents.
func (r *runner) checkListing(line string, o implOut, ro rout, typed bool) {
	if r.fail != nil || o.status != "ok" {
		return
	}
	want := map[int]rrep{}
	for _, e := range ro.reports {
		want[e.name] = e
	}
	if len(want) != len(o.reports) {
		r.violation("%s: %d entries listed, the directory has %d visible entries", line, len(o.reports), len(want))
		return
	}
	prev := ""
	for _, e := range o.reports {
		w, ok := want[e.name]
		if !ok || e.name < 0 {
			r.violation("%s: listed a name that is not in the directory", line)
			return
		}
		delete(want, e.name)
		if typed {
			exp := "D"
			if w.leaf != nil {
				exp = fmt.Sprintf("K%d", w.leaf.kind)
			}
			if e.typed != exp {
				r.violation("%s: %s listed with type %s, expected %s", line, names[e.name], e.typed, exp)
				return
			}
			if names[e.name] < prev {
				r.violation("%s: listing not sorted by name", line)
				return
			}
			prev = names[e.name]
		} else if !r.bindRefChild(w.dir, w.leaf, e.child, e.isDir) {
			r.violation("%s: %s listed with the wrong child object", line, names[e.name])
			return
		}
	}
}

// filter runs FilterChildren with a callback that stops at its limit-th
// invocation and invokes the removers selected by rmMask (inside the callback
// when sync, after the traversal otherwise).
func (r *runner) filter(line string, d any, rd *rdir, id, limit, rmMask int, sync bool) {
	// Give every directory and leaf below d its identity first (the callbacks only
	// hand out leaves and fetchers): the dumps name the children without
	// initialising anything.
	for n := -1; n != len(r.mDirs)+len(r.mLeaves) && r.fail == nil; {
		n = len(r.mDirs) + len(r.mLeaves)
		r.checkAll(line)
		r.steps--
	}
	if r.fail != nil {
		return
	}
	pre := r.snapshot()
	mo := parseModel(r.ask(fmt.Sprintf("filter %d %d", id, limit)))
	// reference: the multiset of things a full traversal visits
	var exp []rrep
	var owners []*rdir
	r.ref.walk(rd, map[*rdir]bool{}, &exp, &owners)
	type call struct {
		rep     irep
		remove  virtual.ChildRemover
		result  string
		done    bool
		owner   *rdir // what the remover removed, as resolved on the reference hierarchy
		name    int
		wasInit map[*rdir]bool
	}
	var calls []*call
	// applyRef performs on the reference hierarchy what the remover did: the
	// entry (owner, name) that refers to the callback's leaf and that is gone
	// from the implementation afterwards.
	applyRef := func(c *call) {
		if r.fail != nil {
			return
		}
		if c.result != "ok" {
			r.violation("%s: remover answered %s", line, c.result)
			return
		}
		if c.rep.lazy {
			t := r.tmplOf(c.rep.child)
			var cands []*rdir
			for j, e := range exp {
				if e.lazy && owners[j].pending != nil && owners[j].pending == t {
					cands = append(cands, owners[j])
				}
			}
			// the directory that has just become initialised
			for _, cand := range cands {
				if cand.impl == nil || c.wasInit[cand] {
					continue
				}
				if dump, ok := virtual.VerifDumpDirectory(dirOf(cand.impl)); ok && dump.Initialized {
					r.ref.removeAllChildren(cand, false)
					c.owner = cand
					return
				}
			}
			for _, cand := range cands {
				if cand.impl == nil {
					r.ref.removeAllChildren(cand, false)
					c.owner = cand
					return
				}
			}
			r.violation("%s: remover of an uninitialised directory that the hierarchy does not have", line)
			return
		}
		rl := r.rLeafOf[c.rep.child]
		unbound := -1
		for j, e := range exp {
			if e.lazy || e.leaf != rl {
				continue
			}
			cur, ok := owners[j].ents[r.ref.norm[e.name]]
			if !ok || cur.leaf != rl || cur.name != e.name {
				continue
			}
			if owners[j].impl == nil {
				if unbound < 0 {
					unbound = j
				}
				continue
			}
			got, err := dirOf(owners[j].impl).LookupChild(comp(e.name))
			_, gl := got.GetPair()
			if err != nil || any(gl) != c.rep.child {
				r.ref.vremove(owners[j], e.name, true, true)
				c.owner, c.name = owners[j], e.name
				return
			}
		}
		if unbound >= 0 { // a directory the implementation has not handed out yet
			r.ref.vremove(owners[unbound], exp[unbound].name, true, true)
			c.owner, c.name = owners[unbound], exp[unbound].name
			return
		}
		r.violation("%s: remover answered ok but no name of the file disappeared", line)
	}
	run := func(c *call) {
		c.done = true
		if c.rep.lazy {
			c.wasInit = map[*rdir]bool{}
			for j, e := range exp {
				if e.lazy && owners[j].impl != nil {
					if dump, ok := virtual.VerifDumpDirectory(dirOf(owners[j].impl)); ok && dump.Initialized {
						c.wasInit[owners[j]] = true
					}
				}
			}
		}
		func() {
			defer func() {
				if rec := recover(); rec != nil {
					c.result = "panic"
				}
			}()
			c.result = errName(c.remove())
		}()
		applyRef(c)
	}
	o := protect(func() implOut {
		err := dirOf(d).FilterChildren(func(node virtual.InitialChild, remove virtual.ChildRemover) bool {
			c := &call{remove: remove}
			if fd, fl := node.GetPair(); fd != nil {
				c.rep = irep{lazy: true, child: fd}
			} else {
				c.rep = irep{child: fl, name: -1}
			}
			calls = append(calls, c)
			// every visited leaf must be a leaf of the hierarchy below d
			if !c.rep.lazy {
				known := false
				for _, e := range exp {
					if !e.lazy && (e.leaf.impl == c.rep.child || (e.leaf.impl == nil && r.rLeafOf[c.rep.child] == nil)) {
						known = true
						if e.leaf.impl == nil {
							r.bindRefLeaf(e.leaf, c.rep.child)
						}
						break
					}
				}
				if !known {
					r.violation("%s: callback %d got a file that is not below the directory", line, len(calls)-1)
				}
			}
			if sync && rmMask&(1<<(len(calls)-1)) != 0 {
				run(c)
			}
			return len(calls) < limit
		})
		return implOut{status: errName(err)}
	})
	if !sync {
		for i, c := range calls {
			if rmMask&(1<<i) != 0 {
				run(c)
			}
		}
	}
	total := len(exp)
	if limit < total {
		total = limit
	}
	if r.fail == nil && (o.status != "ok" || len(calls) != total) {
		r.violation("%s: FilterChildren returned %s after %d callbacks, the hierarchy has %d leaves/uninitialised directories (limit %d)", line, o.status, len(calls), len(exp), limit)
	}
	// no object more often than the hierarchy has it
	if r.fail == nil {
		cnt := map[any]int{}
		for _, c := range calls {
			if !c.rep.lazy {
				cnt[c.rep.child]++
			}
		}
		for p, n := range cnt {
			have := 0
			for _, e := range exp {
				if !e.lazy && e.leaf.impl == p {
					have++
				}
			}
			if n > have {
				r.violation("%s: a file with %d names below the directory was visited %d times", line, have, n)
			}
		}
	}
	// model: the traversal order (leaves of a directory, then its sub-directories,
	// both in list order) is the code's, not the property's: when the sequence of
	// callbacks is the model's, everything is compared position by position;
	// otherwise (the monitor above has accepted the visit as a legal one) the model
	// is only told which removals took place.
	if r.drv != nil && r.fail == nil {
		same := mo.status == o.status && len(mo.r) == len(calls)
		var mfs [][]string
		if same {
			for i, c := range calls {
				mf := strings.Split(mo.r[i], ":")
				mfs = append(mfs, mf)
				if len(mf) != 3 || c.rep.lazy != strings.HasPrefix(mf[2], "D") {
					same = false
					break
				}
				if !c.rep.lazy {
					if id, ok := r.mLeafID[c.rep.child]; ok && fmt.Sprintf("L%d", id) != mf[2] {
						same = false
						break
					}
				}
			}
		}
		if !same {
			r.counts["filter-order-differs-from-model"]++
		}
		for i, c := range calls {
			if r.drv == nil {
				break
			}
			if same && !c.rep.lazy && !r.bindModelChild(mfs[i][2], c.rep.child, false) {
				r.mismatch("correspondence Model/Dir.lean filterWalk <-> filterChildrenRecursive", fmt.Sprintf("%s: callback %d: leaf differs", line, i), strings.Join(mo.r, ";"), fmt.Sprintf("%d callbacks", len(calls)))
				break
			}
			if !c.done {
				continue
			}
			// which entry went away is taken from the reference hierarchy's resolution
			// (it looked at the implementation); the model's own position is only used
			// when that directory has no model id yet
			var ml string
			id, ok := -1, false
			if c.owner != nil && c.owner.impl != nil {
				id, ok = r.mDirID[c.owner.impl]
			}
			switch {
			case ok && c.rep.lazy:
				ml = fmt.Sprintf("removeallchildren %d 0", id)
			case ok:
				ml = fmt.Sprintf("remove %d %d", id, c.name)
			case same && c.rep.lazy:
				ml = fmt.Sprintf("removeallchildren %s 0", mfs[i][2][1:])
			case same:
				ml = fmt.Sprintf("remove %s %s", mfs[i][0], mfs[i][1])
			default:
				r.dropModel() // cannot name the directory in model ids: continue under the monitor alone
				continue
			}
			if got := parseModel(r.ask(ml)); got.status != c.result {
				r.mismatch("correspondence Model/Dir.lean <-> ChildRemover", line+": "+ml, got.status, c.result)
				break
			}
		}
	}
	if r.fail == nil {
		r.checkCounters(line, pre)
	}
	r.flags["bulk"] = true
	r.steps++
	r.counts["op-filter"]++
}

func (r *runner) tmplOf(f any) *rtmpl {
	for _, t := range r.tmpls {
		if any(t.f) == f {
			return t.ref
		}
	}
	return nil
}

// checkAll compares the representation of every known directory with the model
// (exactly) and with the reference hierarchy (as a set of entries), validates
// contents_inv on the real structure and compares link counts.
func (r *runner) checkAll(line string) {
	if r.park != nil {
		return // a directory lock is held on purpose
	}
	for id, p := range r.mDirs {
		if p == nil || r.fail != nil {
			continue
		}
		rd := r.rDirOf[p]
		dump, ok := virtual.VerifDumpDirectory(dirOf(p))
		if !ok {
			continue
		}
		inv := "C13.contents_inv validated on the implementation (VerifDumpDirectory)"
		if dump.Inconsistency != "" {
			r.mismatch(inv, fmt.Sprintf("D%d: %s", id, dump.Inconsistency), "", "")
			return
		}
		seen := map[string]bool{}
		var parts []string
		for i, e := range dump.Entries {
			if i > 0 && dump.Entries[i-1].Cookie >= e.Cookie {
				r.mismatch(inv, fmt.Sprintf("D%d: cookies not strictly increasing along the list", id), "", "")
				return
			}
			if e.Cookie >= dump.ChangeID {
				r.mismatch(inv, fmt.Sprintf("D%d: cookie %d not below changeID %d", id, e.Cookie, dump.ChangeID), "", "")
				return
			}
			if seen[e.NormalizedName] {
				r.mismatch(inv, fmt.Sprintf("D%d: normalised name %q twice", id, e.NormalizedName), "", "")
				return
			}
			seen[e.NormalizedName] = true
			child := "?"
			var cp any
			isDir := e.Directory != nil
			if isDir {
				cp = e.Directory
			} else {
				cp = e.Leaf
			}
			if isDir {
				if cid, ok := r.mDirID[cp]; ok {
					child = fmt.Sprintf("D%d", cid)
				}
			} else if cid, ok := r.mLeafID[cp]; ok {
				child = fmt.Sprintf("L%d", cid)
			}
			parts = append(parts, fmt.Sprintf("%d:%d:%d:%s", nameID(e.Name), nameID(e.NormalizedName), e.Cookie, child))
			// reference: same name, same object
			if rd != nil && rd.pending == nil {
				ent, ok := rd.ents[nameID(e.NormalizedName)]
				if !ok || ent.name != nameID(e.Name) || !r.bindRefChild(ent.dir, ent.leaf, cp, isDir) {
					r.violation("%s: directory D%d contains %s, which the reference hierarchy does not have there (or not that object)", line, id, e.Name)
					return
				}
			}
		}
		if dump.IsDeleted && len(dump.Entries) > 0 {
			r.mismatch(inv, fmt.Sprintf("D%d: deleted directory has entries", id), "", "")
			return
		}
		if rd != nil {
			if rd.pending == nil && dump.Initialized && len(rd.ents) != len(dump.Entries) {
				r.violation("%s: directory D%d has %d entries, the reference hierarchy has %d", line, id, len(dump.Entries), len(rd.ents))
				return
			}
			if dump.Initialized && rd.pending == nil && rd.removed != dump.IsDeleted {
				r.violation("%s: directory D%d deleted=%v, the reference hierarchy says %v", line, id, dump.IsDeleted, rd.removed)
				return
			}
		}
		if r.drv != nil {
			b := func(x bool) int {
				if x {
					return 1
				}
				return 0
			}
			got := fmt.Sprintf("lazy=%d del=%d cid=%d e=%s", b(!dump.Initialized), b(dump.IsDeleted), dump.ChangeID, strings.Join(parts, ";"))
			exp := r.ask(fmt.Sprintf("dump %d", id))
			// children never seen before are bound by position
			if exp != got && strings.Contains(got, "?") {
				ef, gf := strings.Split(exp, ";"), strings.Split(got, ";")
				if len(ef) == len(gf) {
					for i := range gf {
						if strings.HasSuffix(gf[i], "?") && i < len(dump.Entries) {
							tok := ef[i][strings.LastIndex(ef[i], ":")+1:]
							e := dump.Entries[i]
							if e.Directory != nil {
								r.bindModelChild(tok, e.Directory, true)
							} else {
								r.bindModelChild(tok, e.Leaf, false)
							}
							gf[i] = gf[i][:len(gf[i])-1] + tok
						}
					}
					got = strings.Join(gf, ";")
				}
			}
			if exp != got {
				r.mismatch("correspondence Model/Dir.lean <-> in_memory_prepopulated_directory.go (state: entries in list order, cookies, changeID, isDeleted, initialised)",
					fmt.Sprintf("%s: state of D%d differs", line, id), exp, got)
				return
			}
		}
	}
	for id, p := range r.mLeaves {
		if p == nil || r.fail != nil {
			continue
		}
		rl := r.rLeafOf[p]
		if rl == nil || !rl.everAttached {
			continue
		}
		have := linkCount(p)
		if want := uint64(r.ref.nlink(rl)); have != want {
			r.violation("%s: leaf L%d has link count %d but %d names refer to it", line, id, have, want)
			return
		}
		if r.drv != nil {
			if exp := r.ask(fmt.Sprintf("leafinfo %d", id)); exp != fmt.Sprintf("links=%d", have) {
				r.mismatch("correspondence Model/Dir.lean ghost link count <-> Link()/Unlink() calls (C13.contents_inv)", fmt.Sprintf("%s: L%d", line, id), exp, fmt.Sprintf("links=%d", have))
				return
			}
		}
	}
	r.steps++
}

// ---- generator -----------------------------------------------------------------------

type generator struct {
	rnd      *hx.Rand
	r        *runner
	nextLeaf int
	nextTmpl int
	roots    int
	// histories with listings that run concurrently with the mutations (the model
	// is dropped at the first such listing, so only some histories have them)
	concurrent bool
}

func (g *generator) pickDir() int {
	var live, dead []int
	for id, p := range g.r.mDirs {
		if p == nil {
			continue
		}
		if rd := g.r.rDirOf[p]; rd != nil && !rd.removed {
			live = append(live, id)
		} else {
			dead = append(dead, id)
		}
	}
	if len(dead) > 0 && (len(live) == 0 || g.rnd.Chance(1, 6)) {
		return dead[g.rnd.Intn(len(dead))]
	}
	if len(live) == 0 {
		return 0
	}
	return live[g.rnd.Intn(len(live))]
}

func (g *generator) liveDirs() int {
	n := 0
	for _, p := range g.r.mDirs {
		if p != nil {
			if rd := g.r.rDirOf[p]; rd != nil && !rd.removed {
				n++
			}
		}
	}
	return n
}

// pickName: mostly a name that exists (or one whose normal form exists), otherwise any.
func (g *generator) pickName(d int, wantPresent bool) int {
	p := g.r.implDir(d)
	if p != nil {
		if rd := g.r.rDirOf[p]; rd != nil {
			var present, absent []int
			for n := range names {
				if _, ok := rd.ents[g.r.ref.norm[n]]; ok {
					present = append(present, n)
				} else {
					absent = append(absent, n)
				}
			}
			if wantPresent && len(present) > 0 && g.rnd.Chance(5, 6) {
				return present[g.rnd.Intn(len(present))]
			}
			if !wantPresent && len(absent) > 0 && g.rnd.Chance(5, 6) {
				return absent[g.rnd.Intn(len(absent))]
			}
		}
	}
	return g.rnd.Intn(len(names))
}

func (g *generator) pickLeaf() int {
	var c []int
	for id, p := range g.r.mLeaves {
		if p != nil {
			if rl := g.r.rLeafOf[p]; rl != nil && rl.everAttached {
				c = append(c, id)
			}
		}
	}
	if len(c) == 0 {
		return -1
	}
	return c[g.rnd.Intn(len(c))]
}

func b2i(b bool) int {
	if b {
		return 1
	}
	return 0
}

// children builds the lines defining fresh leaves/templates and returns the child list.
func (g *generator) children(depth int, lines *[]string) string {
	n := 1 + g.rnd.Intn(3)
	used := map[int]bool{}
	var parts []string
	for i := 0; i < n; i++ {
		nm := g.rnd.Intn(len(names))
		if used[g.r.ref.norm[nm]] && !g.rnd.Chance(1, 40) { // rarely: two names with one normal form (panic case)
			continue
		}
		if used[nm] {
			continue
		}
		used[nm] = true
		used[g.r.ref.norm[nm]] = true
		if depth < 2 && g.rnd.Chance(1, 3) {
			if g.rnd.Chance(1, 4) {
				parts = append(parts, fmt.Sprintf("%d D 0", nm))
				continue
			}
			sub := g.children(depth+1, lines)
			*lines = append(*lines, "deftmpl"+sub)
			parts = append(parts, fmt.Sprintf("%d D %d", nm, g.nextTmpl))
			g.nextTmpl++
		} else {
			*lines = append(*lines, fmt.Sprintf("newleaf %d", g.rnd.Intn(4)))
			parts = append(parts, fmt.Sprintf("%d L %d", nm, g.nextLeaf))
			g.nextLeaf++
		}
	}
	s := ""
	for _, p := range parts {
		s += " " + p
	}
	return s
}

// absentName returns a name whose normal form is free in rd (-1: none).
func (g *generator) absentName(rd *rdir, avoid map[int]bool) int {
	var c []int
	for n := range names {
		if _, ok := rd.ents[g.r.ref.norm[n]]; !ok && !avoid[g.r.ref.norm[n]] && !g.r.ref.hidden[n] {
			c = append(c, n)
		}
	}
	if len(c) == 0 {
		return -1
	}
	return c[g.rnd.Intn(len(c))]
}

// concurrentScenario: a lazy sub-directory with a gated fetcher between ordinary
// entries, then a listing that will park on its lock.
func (g *generator) concurrentScenario() []string {
	r := g.r
	var cands []int
	for id, p := range r.mDirs {
		if p == nil {
			continue
		}
		if rd := r.rDirOf[p]; rd != nil && !rd.removed && rd.pending == nil {
			cands = append(cands, id)
		}
	}
	if len(cands) == 0 || r.fetchFail || r.allocFail {
		return nil
	}
	d := cands[g.rnd.Intn(len(cands))]
	rd := r.rDirOf[r.mDirs[d]]
	used := map[int]bool{}
	pick := func() int {
		n := g.absentName(rd, used)
		if n >= 0 {
			used[r.ref.norm[n]] = true
		}
		return n
	}
	var lines []string
	visible := 0
	for _, e := range rd.ents {
		if r.ref.visible(e) {
			visible++
		}
	}
	for i := visible; i < 1+g.rnd.Intn(3); i++ {
		if n := pick(); n >= 0 {
			lines = append(lines, fmt.Sprintf("open %d %d 1 0", d, n))
		}
	}
	child := pick()
	if child < 0 {
		return nil
	}
	lines = append(lines, fmt.Sprintf("newleaf %d", g.rnd.Intn(4)), fmt.Sprintf("deftmpl %d L %d", g.rnd.Intn(len(names)), g.nextLeaf),
		fmt.Sprintf("createchildren %d 0 %d D %d", d, child, g.nextTmpl))
	for i := g.rnd.Intn(3); i > 0; i-- {
		if n := pick(); n >= 0 {
			lines = append(lines, fmt.Sprintf("mkdir %d %d", d, n))
		}
	}
	c := uint64(0)
	if rs := r.returned[d]; len(rs) > 0 && g.rnd.Chance(1, 3) {
		c = rs[g.rnd.Intn(len(rs))]
	}
	k := 10
	if g.rnd.Chance(1, 4) {
		k = 1 + g.rnd.Intn(4)
	}
	return append(lines, fmt.Sprintf("clist %d %d %d %d", d, child, c, k))
}

// hiddenOnlyScenario: a directory whose only entries are files with hidden names
// (every name variant, so that patterns depending on the case are exercised) is
// listed and then removed, removed in bulk, or has another directory renamed over it.
func (g *generator) hiddenOnlyScenario() []string {
	r := g.r
	d := g.pickDir()
	p := r.implDir(d)
	if p == nil {
		return nil
	}
	rd := r.rDirOf[p]
	if rd == nil || rd.removed || rd.pending != nil {
		return nil
	}
	n := g.absentName(rd, nil)
	var hid []int
	for i := range names {
		if r.ref.hidden[i] {
			hid = append(hid, i)
		}
	}
	if n < 0 || len(hid) == 0 {
		return nil
	}
	nd := len(r.mDirs) // id the new directory gets (model and harness count alike here)
	if r.drv != nil {
		if dd, _, _, ok := r.modelSizes(); ok {
			nd = dd
		}
	}
	lines := []string{fmt.Sprintf("mkdir %d %d", d, n)}
	h := hid[g.rnd.Intn(len(hid))]
	if g.rnd.Chance(1, 2) {
		lines = append(lines, fmt.Sprintf("open %d %d 1 0", nd, h))
	} else {
		lines = append(lines, fmt.Sprintf("mknod %d %d %d", nd, h, 1+g.rnd.Intn(3)))
	}
	if g.rnd.Chance(1, 2) {
		lines = append(lines, fmt.Sprintf("readdir %d 0 5", nd))
	}
	switch g.rnd.Pick(3, 2, 2) {
	case 0:
		lines = append(lines, fmt.Sprintf("vremove %d %d 1 %d", d, n, g.rnd.Intn(2)))
	case 1:
		lines = append(lines, fmt.Sprintf("remove %d %d", d, n))
	default:
		if m := g.absentName(rd, map[int]bool{r.ref.norm[n]: true}); m >= 0 {
			lines = append(lines, fmt.Sprintf("mkdir %d %d", d, m), fmt.Sprintf("rename %d %d %d %d", d, m, d, n))
		}
	}
	return lines
}

// raceScenario: a lazy directory C with a gated fetcher (empty, or holding only a
// hidden file, so that a directory can be renamed over it), a source directory, and
// a crename / cremove line that drives the three-party race on C's lock.
func (g *generator) raceScenario() []string {
	r := g.r
	var cands []int
	for id, p := range r.mDirs {
		if p == nil {
			continue
		}
		if rd := r.rDirOf[p]; rd != nil && !rd.removed && rd.pending == nil {
			cands = append(cands, id)
		}
	}
	if len(cands) == 0 || r.fetchFail || r.allocFail {
		return nil
	}
	dNew := cands[g.rnd.Intn(len(cands))]
	rdNew := r.rDirOf[r.mDirs[dNew]]
	dOld := dNew
	if g.rnd.Chance(1, 3) {
		dOld = cands[g.rnd.Intn(len(cands))]
	}
	rdOld := r.rDirOf[r.mDirs[dOld]]
	if rdOld.fs != rdNew.fs {
		dOld, rdOld = dNew, rdNew
	}
	used := map[int]bool{}
	n := g.absentName(rdNew, used)
	if n < 0 {
		return nil
	}
	used[r.ref.norm[n]] = true
	var lines []string
	// the lazy destination: usually something a directory may be renamed over
	var hid []int
	for i := range names {
		if r.ref.hidden[i] {
			hid = append(hid, i)
		}
	}
	switch {
	case g.rnd.Chance(1, 2):
		lines = append(lines, "deftmpl")
	case len(hid) > 0 && g.rnd.Chance(2, 3):
		lines = append(lines, fmt.Sprintf("newleaf %d", g.rnd.Intn(4)), fmt.Sprintf("deftmpl %d L %d", hid[g.rnd.Intn(len(hid))], g.nextLeaf))
	default:
		lines = append(lines, fmt.Sprintf("newleaf %d", g.rnd.Intn(4)), fmt.Sprintf("deftmpl %d L %d", g.rnd.Intn(len(names)), g.nextLeaf))
	}
	lines = append(lines, fmt.Sprintf("createchildren %d 0 %d D %d", dNew, n, g.nextTmpl), fmt.Sprintf("lookupchild %d %d", dNew, n))
	if g.rnd.Chance(1, 4) {
		return append(lines, fmt.Sprintf("cremove %d %d %d", dNew, n, g.rnd.Intn(4)))
	}
	src := -1
	if dOld == dNew {
		src = g.absentName(rdOld, used)
	} else {
		src = g.absentName(rdOld, nil)
	}
	if src < 0 {
		return nil
	}
	if g.rnd.Chance(4, 5) {
		lines = append(lines, fmt.Sprintf("mkdir %d %d", dOld, src))
	} else {
		lines = append(lines, fmt.Sprintf("open %d %d 1 0", dOld, src))
	}
	return append(lines, fmt.Sprintf("crename %d %d %d %d %d", dOld, src, dNew, n, g.rnd.Intn(4)))
}

// whileParked: mostly what makes the parked listing interesting — the entry it
// waits on goes away, entries before / after it come and go — and the join.
func (g *generator) whileParked() []string {
	r, pk := g.r, g.r.park
	d := r.mDirID[pk.d]
	switch g.rnd.Pick(5, 5, 3, 3, 4) {
	case 0:
		return []string{"cjoin"}
	case 1: // detach the entry the listing is parked on
		for _, e := range pk.rd.ents {
			if e.dir == pk.rchild {
				d2 := d
				if g.rnd.Chance(1, 3) {
					d2 = g.pickDir()
				}
				return []string{fmt.Sprintf("rename %d %d %d %d", d, e.name, d2, g.pickName(d2, false))}
			}
		}
		return nil
	case 2:
		return []string{fmt.Sprintf("open %d %d 1 0", d, g.pickName(d, false))}
	case 3:
		return []string{fmt.Sprintf("vremove %d %d 1 1", d, g.pickName(d, true))}
	}
	return nil
}

// next produces the next op lines from the current abstract state.
func (g *generator) next() []string {
	r := g.r
	if r.park != nil {
		if ls := g.whileParked(); ls != nil {
			return ls
		}
	} else if g.concurrent && g.rnd.Chance(1, 25) {
		if ls := g.concurrentScenario(); ls != nil {
			return ls
		}
	} else if g.rnd.Chance(1, 40) {
		if ls := g.hiddenOnlyScenario(); ls != nil {
			return ls
		}
	} else if r.fe == nil && g.rnd.Chance(1, 30) {
		if ls := g.raceScenario(); ls != nil {
			return ls
		}
	}
	d := g.pickDir()
	few := g.liveDirs() < 6
	wDir := 2
	if few {
		wDir = 10
	}
	switch g.rnd.Pick(wDir, 6, 9, 6, 7, 16, 12, 9, 2, 3, 4, 3, 3, 2, 1, 4, wDir/2+1, 2, 1, 1, 2, 4) {
	case 0:
		return []string{fmt.Sprintf("mkdir %d %d", d, g.pickName(d, false))}
	case 1:
		return []string{fmt.Sprintf("mknod %d %d %d", d, g.pickName(d, false), 1+g.rnd.Pick(5, 5, 8, 1))}
	case 2:
		c, e := true, false
		switch g.rnd.Pick(5, 2, 3) {
		case 1:
			c, e = false, true
		case 2:
			c, e = true, true
		}
		return []string{fmt.Sprintf("open %d %d %d %d", d, g.pickName(d, g.rnd.Chance(1, 3)), b2i(c), b2i(e))}
	case 3:
		if l := g.pickLeaf(); l >= 0 {
			return []string{fmt.Sprintf("link %d %d %d", d, g.pickName(d, false), l)}
		}
		return nil
	case 4:
		return []string{fmt.Sprintf("lookup %d %d", d, g.pickName(d, true))}
	case 5:
		// paginated listing: mostly continue from the last returned cookie
		k := 1 + g.rnd.Intn(3)
		if g.rnd.Chance(1, 5) {
			k = 1 + g.rnd.Intn(10)
		}
		c := uint64(0)
		if rs := r.returned[d]; len(rs) > 0 {
			switch g.rnd.Pick(12, 3, 2, 1) {
			case 0:
				c = rs[len(rs)-1]
			case 1:
				c = rs[g.rnd.Intn(len(rs))]
			case 3:
				c = uint64(g.rnd.Intn(20))
			}
		}
		return []string{fmt.Sprintf("readdir %d %d %d", d, c, k)}
	case 6:
		d2 := d
		if g.rnd.Chance(1, 2) {
			d2 = g.pickDir()
		}
		n1 := g.pickName(d, true)
		n2 := g.pickName(d2, g.rnd.Chance(1, 2))
		line := fmt.Sprintf("rename %d %d %d %d", d, n1, d2, n2)
		// a directory moved below itself makes the hierarchy cyclic (upstream TODO); keep that rare
		if p, p2 := r.implDir(d), r.implDir(d2); p != nil && p2 != nil {
			if rd, rd2 := r.rDirOf[p], r.rDirOf[p2]; rd != nil && rd2 != nil {
				if e, ok := rd.ents[r.ref.norm[n1]]; ok && e.isDir() && r.ref.below(e.dir, rd2) && !g.rnd.Chance(1, 8) {
					return nil
				}
			}
		}
		return []string{line}
	case 7:
		a, b := true, true
		switch g.rnd.Pick(4, 3, 3, 1) {
		case 1:
			a, b = true, false
		case 2:
			a, b = false, true
		case 3:
			a, b = false, false
		}
		return []string{fmt.Sprintf("vremove %d %d %d %d", d, g.pickName(d, true), b2i(a), b2i(b))}
	case 8:
		return []string{fmt.Sprintf("getattr %d", d)}
	case 9:
		return []string{fmt.Sprintf("lookupchild %d %d", d, g.pickName(d, true))}
	case 10:
		return []string{fmt.Sprintf("lookupall %d", d)}
	case 11:
		return []string{fmt.Sprintf("readdirb %d", d)}
	case 12:
		return []string{fmt.Sprintf("remove %d %d", d, g.pickName(d, true))}
	case 13:
		return []string{fmt.Sprintf("removeall %d %d", d, g.pickName(d, true))}
	case 14:
		return []string{fmt.Sprintf("removeallchildren %d %d", d, b2i(g.rnd.Chance(1, 3)))}
	case 15:
		var lines []string
		cs := g.children(0, &lines)
		return append(lines, fmt.Sprintf("createchildren %d %d%s", d, b2i(g.rnd.Chance(1, 2)), cs))
	case 16:
		return []string{fmt.Sprintf("createandenter %d %d", d, g.pickName(d, g.rnd.Chance(1, 2)))}
	case 17:
		if r.cycle {
			return nil
		}
		return []string{fmt.Sprintf("filter %d %d %d %d", d, 1+g.rnd.Intn(12), g.rnd.Intn(64)*b2i(g.rnd.Chance(2, 3)), b2i(g.rnd.Chance(1, 2)))}
	case 18:
		return []string{fmt.Sprintf("installhooks %d", d)}
	case 19:
		if g.roots < 2 {
			g.roots++
			return []string{fmt.Sprintf("newroot %d", g.roots-1)}
		}
		return nil
	case 20:
		if g.rnd.Chance(1, 2) {
			return []string{fmt.Sprintf("fetchfail %d", b2i(!r.fetchFail))}
		}
		return []string{fmt.Sprintf("allocfail %d", b2i(!r.allocFail))}
	default:
		return []string{"check"}
	}
}

// ---- driving ----------------------------------------------------------------------------

type outcome struct {
	fail    *finding
	steps   int
	skipped int
	flags   map[string]bool
	counts  map[string]int
}

func replay(lines []string, drv *hx.Driver, seed uint64) outcome {
	out, _ := replayRec(lines, drv, seed, false)
	return out
}

func replayRec(lines []string, drv *hx.Driver, seed uint64, record bool) (outcome, []lineRec) {
	heartbeat("", true)
	r := newRunner(drv)
	r.seed = seed
	var recs []lineRec
	if record {
		r.rec = &recs
	}
	for _, l := range lines {
		r.apply(l)
	}
	if r.park != nil {
		r.cjoin()
	}
	if !r.dead {
		r.apply("check")
	}
	return outcome{fail: r.result(), steps: r.steps, skipped: r.skipped, flags: r.flags, counts: r.counts}, recs
}

// ---- id-aware shrinking -------------------------------------------------------------
//
// Identifiers in a history are allocation order (directories, leaves, templates).
// Dropping a line shifts everything allocated later, so a plain delta debugger
// only ever removes suffixes.  rewrite drops a set of lines together with every
// later line that refers to something those lines allocated, and renumbers the
// references of the lines that stay.

// refKinds tells, for the tokens of a line, which are ids (0 dir, 1 leaf, 2 template).
func refKinds(f []string) map[int]int {
	m := map[int]int{}
	triples := func(from int) {
		for i := from; i+2 < len(f); i += 3 {
			switch f[i+1] {
			case "L":
				m[i+2] = 1
			case "D":
				m[i+2] = 2
			}
		}
	}
	if len(f) == 0 {
		return m
	}
	switch f[0] {
	case "mkdir", "mknod", "open", "lookup", "readdir", "vremove", "getattr", "lookupchild", "lookupall", "readdirb",
		"remove", "removeall", "removeallchildren", "createandenter", "filter", "installhooks", "clist", "cremove":
		m[1] = 0
	case "crename":
		m[1], m[3] = 0, 0
	case "link":
		m[1], m[3] = 0, 1
	case "rename":
		m[1], m[3] = 0, 0
	case "createchildren":
		m[1] = 0
		triples(3)
	case "deftmpl":
		triples(1)
	}
	return m
}

func rewrite(lines []string, recs []lineRec, drop func(int) bool) []string {
	maps := [3]map[int]int{{}, {}, {0: 0}}
	next := [3]int{0, 0, 1}
	var out []string
	for j, line := range lines {
		f := strings.Fields(line)
		dropped := drop(j)
		kinds := refKinds(f)
		if !dropped {
			for pos, kind := range kinds {
				if pos < len(f) {
					if id, err := strconv.Atoi(f[pos]); err == nil {
						if nw, ok := maps[kind][id]; ok && nw < 0 {
							dropped = true
						}
					}
				}
			}
		}
		if !dropped {
			for pos, kind := range kinds {
				if pos < len(f) {
					if id, err := strconv.Atoi(f[pos]); err == nil {
						if nw, ok := maps[kind][id]; ok {
							f[pos] = strconv.Itoa(nw)
						}
					}
				}
			}
			out = append(out, strings.Join(f, " "))
		}
		if j < len(recs) {
			for kind := 0; kind < 3; kind++ {
				for id := recs[j].before[kind]; id < recs[j].after[kind]; id++ {
					if kind == 2 && id == 0 {
						continue
					}
					if dropped {
						maps[kind][id] = -1
					} else {
						maps[kind][id] = next[kind]
						next[kind]++
					}
				}
			}
		}
	}
	return out
}

// shrinkIDs: delta debugging with rewrite; try(cand) says whether cand still fails
// and returns its allocation records.
func shrinkIDs(lines []string, try func([]string) (bool, []lineRec)) []string {
	ok, recs := try(lines)
	if !ok {
		return lines
	}
	cur := lines
	for round := 0; round < 3; round++ {
		before := len(cur)
		for chunk := (len(cur) + 1) / 2; chunk >= 1; chunk /= 2 {
			for i := 0; i+chunk <= len(cur); {
				cand := rewrite(cur, recs, func(j int) bool { return j >= i && j < i+chunk })
				if os.Getenv("SHRINKDBG") != "" {
					fmt.Fprintln(os.Stderr, "try", chunk, i, len(cur), len(cand))
				}
				if len(cand) < len(cur) {
					if ok, r2 := try(cand); ok {
						cur, recs = cand, r2
						continue
					}
				}
				i += chunk
			}
		}
		if len(cur) == before {
			break
		}
	}
	return cur
}

// feShare/12 of the histories issue their kernel-facing calls through a front end.
var feShare = 3

func generate(rnd *hx.Rand, drv *hx.Driver, seed uint64, n int) ([]string, outcome) {
	heartbeat("", true)
	r := newRunner(drv)
	r.seed = seed
	g := &generator{rnd: rnd, r: r, roots: 1, concurrent: rnd.Chance(1, 4)}
	lines := []string{fmt.Sprintf("config %d %d %d %d", b2i(rnd.Chance(1, 2)), b2i(rnd.Chance(1, 2)), b2i(rnd.Chance(feShare, 12)), b2i(rnd.Chance(1, 3))), "newroot 0"}
	for _, l := range lines {
		r.apply(l)
	}
	for len(lines) < n && r.fail == nil && !r.dead {
		// the ids the model will hand out next
		g.nextLeaf, g.nextTmpl = len(r.mLeaves), len(r.tmpls)
		if r.fetchFail || r.allocFail {
			if rnd.Chance(1, 4) { // faults do not stay on for long
				next := "fetchfail 0"
				if r.allocFail {
					next = "allocfail 0"
				}
				lines = append(lines, next)
				r.apply(next)
				continue
			}
		}
		for _, l := range g.next() {
			lines = append(lines, l)
			r.apply(l)
		}
	}
	if r.park != nil {
		lines = append(lines, "cjoin")
		r.cjoin()
	}
	if !r.dead {
		r.apply("check")
	}
	return lines, outcome{fail: r.result(), steps: r.steps, skipped: r.skipped, flags: r.flags, counts: r.counts}
}

func main() {
	o := hx.ParseFlags()
	res := hx.NewResult("dir", o, "random histories (≤300 ops) over ≤2 roots, ~6 live directories and 8 names (case variants; hidden-files pattern ^\\._ matching two of them, or - a third of the histories - ^\\._H$ which needs an upper-case character and matches one; the matcher is applied to the original name, not the normalised one), "+
		"case-sensitive or case-folding normaliser, FUSE or NFS handle allocator, mixing every Virtual* call with LookupChild/LookupAllChildren/ReadDir/Remove/RemoveAll/"+
		"RemoveAllChildren/CreateChildren(overwrite, lazy sub-directories)/CreateAndEnterPrepopulatedDirectory/FilterChildren/InstallHooks, paginated VirtualReadDir (page size 1-10, resumed from the "+
		"last, an earlier or an arbitrary cookie) interleaved with the mutations, fetcher and allocator faults; in a quarter of the histories also listings that run concurrently with the mutations "+
		"(clist/cjoin: a VirtualReadDir with a change-ID attribute mask in its own goroutine is parked on the lock of a lazy child directory whose InitialContentsFetcher blocks on a harness gate, the main goroutine renames/removes/creates entries meanwhile, "+
		"then the gate opens; every history may also contain forced three-party races on the lock-drop window of getAndLockIfDirectory (crename/cremove: T1 holds the lock of a lazy directory inside its fetcher, T2 = VirtualRename onto it / VirtualRemove of it has dropped its parent locks and waits, "+
		"the main goroutine removes / renames away / replaces the rename's source or the entry being removed, then the gate opens; judged by: no panic, no hang, results and contents are those of some sequential order of the calls on the reference hierarchy, the Lean model run in that order agrees; "+
		"all waits have timeouts and a scenario that could not be driven into the window is only counted); in a quarter (quick) to 5/12 (thorough) of the histories the kernel-facing calls are issued through a front end instead of directly - FUSE requests built in-process against fuse.NewSimpleRawFileSystem "+
		"(LOOKUP, MKDIR, MKNOD, SYMLINK, CREATE+RELEASE, LINK, RENAME, UNLINK, RMDIR, READDIR, READDIRPLUS) or NFSv4.0 COMPOUNDs against nfsv4.NewNFS40Program (PUTFH/SAVEFH, LOOKUP, CREATE, LINK, RENAME, REMOVE, READDIR, GETFH) - and the translated answers "+
		"(errno/nfsstat4, node id/file handle -> object, offsets/cookies) go through the same model comparison and monitor; after every call C14's VerifLockIsFree is asked about every known directory; such interleavings inside one page are covered by the harness and the reference monitor only - the model is dropped for the rest of that history, its readdir theorems quantify over interleavings at page granularity); non-trivial = the history completed a listing that took more than one page, "+
		"performed a successful rename, a successful remove and a bulk call; distinct = hash of the op list")
	drv, err := hx.StartDriver("dir")
	if err != nil {
		fmt.Fprintln(os.Stderr, "cannot start model driver:", err)
		os.Exit(3)
	}
	defer drv.Close()
	startWatchdog(res, o, drv)

	report := func(lines []string, seed uint64, first *finding) {
		try := func(cand []string) (bool, []lineRec) {
			out, recs := replayRec(cand, drv, seed, true)
			if os.Getenv("SHRINKDBG") != "" {
				fmt.Fprintln(os.Stderr, "  result", out.fail != nil, cand)
				if out.fail != nil {
					fmt.Fprintln(os.Stderr, "  ", out.fail.kind, out.fail.what)
				}
			}
			return out.fail != nil && out.fail.kind == first.kind, recs
		}
		min := shrinkIDs(lines, try)
		out := replay(min, drv, seed)
		fd := out.fail
		if fd == nil {
			fd, min = first, lines
		}
		res.Report(hx.Finding{Kind: fd.kind, Property: "C13", What: fd.what, Name: fd.name, History: min,
			Expected: fd.exp, Actual: fd.act, Sig: hx.Sig("C13", "dir", fd.kind, strings.Join(min, ";"))})
	}

	if o.Replay != "" {
		f, err := hx.LoadReplay(o.Replay)
		if err != nil {
			fmt.Fprintln(os.Stderr, err)
			os.Exit(3)
		}
		out := replay(f.History, drv, o.Seed)
		res.Evaluations = out.steps
		if out.fail != nil {
			report(f.History, o.Seed, out.fail)
		}
		res.ModelLines = drv.Lines
		res.Write(o)
		return
	}

	histories := 1500 * o.Scale
	if o.Tier == "thorough" {
		histories = 8000 * o.Scale
		feShare = 5
	}
	rnd := hx.NewRand(o.Seed)
	for h := 0; h < histories && len(res.Findings) == 0; h++ {
		n := 10 + rnd.Intn(120)
		if rnd.Chance(1, 8) {
			n = 300
		}
		lines, out := generate(rnd, drv, o.Seed, n)
		res.Evaluations += out.steps
		res.TracesVsImpl++
		for k := range out.flags {
			res.Count("history-with-" + k)
		}
		for k, v := range out.counts {
			res.Histogram[k] += v
		}
		res.Histogram["ops-skipped"] += out.skipped
		res.History(lines, out.flags["listing-multipage"] && out.flags["rename"] && out.flags["remove"] && out.flags["bulk"])
		if out.fail != nil {
			report(lines, o.Seed, out.fail)
		}
	}
	res.ModelLines = drv.Lines
	res.Write(o)
}
