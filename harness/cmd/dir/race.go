package main

// Forced three-party races on the lock-drop window of getAndLockIfDirectory():
//
//	T1  sits inside the InitialContentsFetcher of a lazy directory C (gate), i.e.
//	    holds C's lock;
//	T2  is a call that has locked its parent directories and now needs C's lock
//	    (VirtualRename onto C, VirtualRemove of C): LockPile drops the parent locks
//	    and blocks on C;
//	T0  (main goroutine) changes, in exactly that window, what T2 looked at or is
//	    about to look at (removes / renames away / replaces the rename's source, or
//	    the entry being removed), then opens the gate.
//
// The theorems of Properties/C13.lean are about sequences of whole calls; this
// window is exercised, not modelled.  The outcome is judged by (a) no call
// panics or hangs and (b) the observed results and the final contents are those
// of SOME sequential order of the calls on the reference hierarchy (T2 at any
// position among T0's calls); the Lean model is then run in that order.  Every
// wait has a timeout; a scenario that could not be driven into the window is
// counted ("race-not-driven") and still judged, never reported by itself.

import (
	"fmt"
	"strings"
	"sync"
	"time"
	"verifharness/internal/hx"

	"github.com/buildbarn/bb-remote-execution/pkg/filesystem/virtual"
	"github.com/buildbarn/bb-storage/pkg/filesystem/path"
)

// signalNormalizer tells when a given name is normalised: VirtualRename /
// VirtualRemove normalise the name right before getAndLockIfDirectory(), with the
// parent locks held.
type signalNormalizer struct {
	base virtual.ComponentNormalizer
	mu   sync.Mutex
	name string
	ch   chan struct{}
}

func (s *signalNormalizer) Normalize(c path.Component) virtual.NormalizedComponent {
	s.mu.Lock()
	if s.ch != nil && c.String() == s.name {
		close(s.ch)
		s.ch = nil
	}
	s.mu.Unlock()
	return s.base.Normalize(c)
}

func (s *signalNormalizer) arm(name string) chan struct{} {
	ch := make(chan struct{})
	s.mu.Lock()
	s.name, s.ch = name, ch
	s.mu.Unlock()
	return ch
}

func (s *signalNormalizer) disarm() {
	s.mu.Lock()
	s.ch = nil
	s.mu.Unlock()
}

func waitFor(ch <-chan struct{}, d time.Duration) bool {
	select {
	case <-ch:
		return true
	case <-time.After(d):
		return false
	}
}

// ---- copies of the reference hierarchy ------------------------------------------------

type refCopy struct {
	fs   *refFS
	dir  map[*rdir]*rdir
	leaf map[*rleaf]*rleaf
	tmpl map[*rtmpl]*rtmpl
}

func (r *runner) cloneRef() *refCopy {
	c := &refCopy{dir: map[*rdir]*rdir{}, leaf: map[*rleaf]*rleaf{}, tmpl: map[*rtmpl]*rtmpl{}}
	old := r.ref
	c.fs = &refFS{norm: old.norm, hidden: old.hidden, gen: old.gen, fetchFail: old.fetchFail, allocFail: old.allocFail}
	var cl func(l *rleaf) *rleaf
	var ct func(t *rtmpl) *rtmpl
	var cd func(d *rdir) *rdir
	cl = func(l *rleaf) *rleaf {
		if l == nil {
			return nil
		}
		if n, ok := c.leaf[l]; ok {
			return n
		}
		n := &rleaf{}
		*n = *l
		c.leaf[l] = n
		return n
	}
	ct = func(t *rtmpl) *rtmpl {
		if t == nil {
			return nil
		}
		if n, ok := c.tmpl[t]; ok {
			return n
		}
		n := &rtmpl{used: t.used}
		c.tmpl[t] = n
		for _, ch := range t.children {
			n.children = append(n.children, rtchild{name: ch.name, leaf: cl(ch.leaf), tmpl: ct(ch.tmpl)})
		}
		return n
	}
	cd = func(d *rdir) *rdir {
		if d == nil {
			return nil
		}
		if n, ok := c.dir[d]; ok {
			return n
		}
		n := &rdir{removed: d.removed, fs: d.fs, impl: d.impl, ents: map[int]*rent{}}
		c.dir[d] = n
		n.pending = ct(d.pending)
		for k, e := range d.ents {
			n.ents[k] = &rent{name: e.name, gen: e.gen, dir: cd(e.dir), leaf: cl(e.leaf)}
		}
		return n
	}
	c.fs.empty = ct(old.empty)
	for _, d := range old.dirs {
		c.fs.dirs = append(c.fs.dirs, cd(d))
	}
	for _, l := range r.rLeafOf {
		cl(l)
	}
	for _, t := range r.tmpls {
		ct(t.ref)
	}
	return c
}

// adopt makes a copy the reference hierarchy of the run.
func (r *runner) adopt(c *refCopy) {
	r.ref = c.fs
	for p, d := range r.rDirOf {
		r.rDirOf[p] = c.dir[d]
	}
	for p, l := range r.rLeafOf {
		r.rLeafOf[p] = c.leaf[l]
	}
	for _, t := range r.tmpls {
		t.ref = c.tmpl[t.ref]
	}
	// listings in progress refer to the old objects: they start over
	r.cookieGen = map[*rdir]map[uint64]int{}
	r.genCookie = map[*rdir]map[int]uint64{}
	r.chains = map[*rdir]map[uint64]*chain{}
}

// ---- the calls of a scenario ------------------------------------------------------------

type raceCall struct {
	line string // history / model line of the call
	impl func() implOut
	ref  func(f *refFS, dir func(*rdir) *rdir) rout
	out  implOut
}

func (r *runner) contentsMatch(rd *rdir, p any) bool {
	dump, ok := virtual.VerifDumpDirectory(dirOf(p))
	if !ok || !dump.Initialized || rd.pending != nil {
		return true // nothing comparable without side effects
	}
	if dump.IsDeleted != rd.removed || len(dump.Entries) != len(rd.ents) {
		return false
	}
	for _, e := range dump.Entries {
		ent, ok := rd.ents[nameID(e.NormalizedName)]
		if !ok || ent.name != nameID(e.Name) || ent.isDir() != (e.Directory != nil) {
			return false
		}
		if ent.isDir() && ent.dir.impl != nil && ent.dir.impl != any(e.Directory) {
			return false
		}
		if !ent.isDir() && ent.leaf.impl != nil && ent.leaf.impl != any(e.Leaf) {
			return false
		}
	}
	return true
}

// crace runs one scenario. kind "rename": T2 = VirtualRename(dOld, src -> dNew, n);
// kind "remove": T2 = VirtualRemove(dNew, n). n names the lazy directory whose lock T1 holds.
func (r *runner) crace(line string, f []string) {
	kind := "rename"
	var dOld, dNew any
	var src, n, mode int
	if f[0] == "crename" && len(f) == 6 {
		dOld, src, dNew, n, mode = r.implDir(atoi(f[1])), atoi(f[2]), r.implDir(atoi(f[3])), atoi(f[4]), atoi(f[5])
	} else if f[0] == "cremove" && len(f) == 4 {
		kind = "remove"
		dNew, n, mode = r.implDir(atoi(f[1])), atoi(f[2]), atoi(f[3])
		dOld, src = dNew, n
	} else {
		r.skip()
		return
	}
	if r.park != nil || dOld == nil || dNew == nil || !validName(src) || !validName(n) || mode < 0 || mode > 3 || r.fetchFail || r.fe != nil {
		r.skip()
		return
	}
	rdOld, rdNew := r.rDirOf[dOld], r.rDirOf[dNew]
	if rdOld == nil || rdNew == nil || rdNew.pending != nil || rdOld.pending != nil || rdOld.removed || rdNew.removed {
		r.skip()
		return
	}
	e, ok := rdNew.ents[r.ref.norm[n]]
	if !ok || e.dir == nil || e.dir.pending == nil || e.dir.pending == r.ref.empty || e.dir.impl == nil {
		r.skip()
		return
	}
	child, rchild := e.dir.impl, e.dir
	childID, haveID := r.mDirID[child]
	if !haveID {
		r.skip()
		return
	}
	var ft *fetcher
	for _, t := range r.tmpls {
		if t.ref == rchild.pending {
			ft, _ = t.f.(*fetcher)
		}
	}
	if ft == nil {
		r.skip()
		return
	}
	idOld, idNew := r.mDirID[dOld], r.mDirID[dNew]
	// a free name for "rename away" / the unrelated control
	free := -1
	for i := range names {
		_, used := rdOld.ents[r.ref.norm[i]]
		if !used && !r.ref.hidden[i] && r.ref.norm[i] != r.ref.norm[src] && r.ref.norm[i] != r.ref.norm[n] {
			free = i
			break
		}
	}
	if free < 0 {
		r.skip()
		return
	}

	mkCall := func(l string) *raceCall {
		g := strings.Fields(l)
		a := func(i int) int { return atoi(g[i]) }
		c := &raceCall{line: l}
		switch g[0] {
		case "vremove":
			d := r.implDir(a(1))
			c.impl = func() implOut {
				_, s := dirOf(d).VirtualRemove(ctx, comp(a(2)), true, true)
				return implOut{status: statusName(s)}
			}
			c.ref = func(fs *refFS, dir func(*rdir) *rdir) rout { return fs.vremove(dir(r.rDirOf[d]), a(2), true, true) }
		case "mkdir":
			d := r.implDir(a(1))
			c.impl = func() implOut {
				var out virtual.Attributes
				cd, _, s := dirOf(d).VirtualMkdir(ctx, comp(a(2)), &virtual.Attributes{}, virtual.AttributesMaskInodeNumber, &out)
				if s != virtual.StatusOK {
					return implOut{status: statusName(s)}
				}
				return implOut{status: "ok", hasChild: true, child: cd, childIsDir: true}
			}
			c.ref = func(fs *refFS, dir func(*rdir) *rdir) rout { return fs.mkdir(dir(r.rDirOf[d]), a(2)) }
		case "rename":
			d, d2 := r.implDir(a(1)), r.implDir(a(3))
			c.impl = func() implOut {
				_, _, s := dirOf(d).VirtualRename(ctx, comp(a(2)), dirOf(d2), comp(a(4)))
				return implOut{status: statusName(s)}
			}
			c.ref = func(fs *refFS, dir func(*rdir) *rdir) rout {
				return fs.rename(dir(r.rDirOf[d]), a(2), dir(r.rDirOf[d2]), a(4))
			}
		}
		return c
	}
	var t2 *raceCall
	var inter []*raceCall
	if kind == "rename" {
		t2 = mkCall(fmt.Sprintf("rename %d %d %d %d", idOld, src, idNew, n))
		switch mode {
		case 0:
			inter = []*raceCall{mkCall(fmt.Sprintf("vremove %d %d 1 1", idOld, src))}
		case 1:
			inter = []*raceCall{mkCall(fmt.Sprintf("rename %d %d %d %d", idOld, src, idOld, free))}
		case 2:
			inter = []*raceCall{mkCall(fmt.Sprintf("vremove %d %d 1 1", idOld, src)), mkCall(fmt.Sprintf("mkdir %d %d", idOld, src))}
		default:
			inter = []*raceCall{mkCall(fmt.Sprintf("mkdir %d %d", idOld, free))}
		}
	} else {
		t2 = mkCall(fmt.Sprintf("vremove %d %d 1 1", idNew, n))
		switch mode {
		case 0:
			inter = []*raceCall{mkCall(fmt.Sprintf("rename %d %d %d %d", idNew, n, idNew, free))}
		case 1, 2:
			inter = []*raceCall{mkCall(fmt.Sprintf("rename %d %d %d %d", idNew, n, idNew, free)), mkCall(fmt.Sprintf("mkdir %d %d", idNew, n))}
		default:
			inter = []*raceCall{mkCall(fmt.Sprintf("mkdir %d %d", idNew, free))}
		}
	}

	// --- drive it
	r.counts["op-"+f[0]]++
	r.steps++
	driven := true
	ft.gate, ft.entered = make(chan struct{}), make(chan struct{})
	t1Done := make(chan struct{})
	go func() { // T1
		defer close(t1Done)
		defer func() { recover() }()
		dirOf(child).LookupChild(comp(0))
	}()
	if !waitFor(ft.entered, hx.ScaledTimeout(5*time.Second)) {
		// the fetcher was never entered: nothing is held, nothing to judge
		close(ft.gate)
		waitFor(t1Done, hx.ScaledTimeout(5*time.Second))
		ft.gate = nil
		r.counts["race-not-driven"]++
		r.dead = true
		return
	}
	parked := r.signal.arm(names[n])
	t2Done := make(chan struct{})
	go func() { // T2
		defer close(t2Done)
		t2.out = protect(t2.impl)
	}()
	select {
	case <-parked:
	case <-t2Done:
		driven = false
	case <-time.After(hx.ScaledTimeout(5 * time.Second)):
		driven = false
	}
	r.signal.disarm()
	// T0: these calls need the parent lock, which T2 only gives up when it parks on the child
	interDone := make(chan struct{})
	go func() {
		defer close(interDone)
		for _, c := range inter {
			c.out = protect(c.impl)
		}
	}()
	hung := !waitFor(interDone, hx.ScaledTimeout(20*time.Second))
	close(ft.gate)
	if !waitFor(t2Done, hx.ScaledTimeout(20*time.Second)) || !waitFor(t1Done, hx.ScaledTimeout(20*time.Second)) || (hung && !waitFor(interDone, hx.ScaledTimeout(20*time.Second))) {
		r.violation("%s: a call of the race scenario did not return", line)
		r.dead = true
		return
	}
	ft.gate = nil
	if !driven {
		r.counts["race-not-driven"]++
	} else {
		r.flags["race-window"] = true
	}

	// --- (a) nothing may panic
	all := append([]*raceCall{t2}, inter...)
	for _, c := range all {
		if c.out.status == "panic" {
			r.violation("%s: %s panicked while %s ran in the window in which it had dropped the parent locks", line, c.line, describe(all, c))
			r.dead = true
			return
		}
	}

	// --- (b) some sequential order explains results and contents
	var chosen *refCopy
	var chosenNew map[*raceCall]*rdir
	var order []*raceCall
	var tried []string
	// when the window was driven, T2 finished after all of T0's calls: try that order
	// first (the reference cannot tell orders with equal results apart, cookies can)
	var positions []int
	for p := len(inter); p >= 0; p-- {
		positions = append(positions, p)
	}
	if !driven {
		for i, j := 0, len(positions)-1; i < j; i, j = i+1, j-1 {
			positions[i], positions[j] = positions[j], positions[i]
		}
	}
	for _, p := range positions {
		if chosen != nil {
			break
		}
		seq := append(append(append([]*raceCall(nil), inter[:p]...), t2), inter[p:]...)
		cp := r.cloneRef()
		dir := func(d *rdir) *rdir { return cp.dir[d] }
		cp.fs.lookup(cp.dir[rchild], 0) // T1 initialised the directory first (it held the lock)
		okAll := true
		var pred []string
		newDirs := map[*raceCall]*rdir{}
		for _, c := range seq {
			ro := c.ref(cp.fs, dir)
			pred = append(pred, c.line+" -> "+ro.status)
			if ro.status != c.out.status {
				okAll = false
			}
			newDirs[c] = ro.dir
		}
		tried = append(tried, strings.Join(pred, "; "))
		if !okAll {
			continue
		}
		// objects created by the calls get their identity, then the contents must agree
		for c, nd := range newDirs {
			if nd != nil && c.out.hasChild {
				nd.impl = c.out.child
			}
		}
		if r.contentsMatch(cp.dir[rdOld], dOld) && r.contentsMatch(cp.dir[rdNew], dNew) && r.contentsMatch(cp.dir[rchild], child) {
			chosen, chosenNew, order = cp, newDirs, seq
		}
	}
	if chosen == nil {
		var obs []string
		for _, c := range all {
			obs = append(obs, c.line+" -> "+c.out.status)
		}
		r.violation("%s: results/contents of the concurrent calls [%s] are not those of any sequential order; orders tried: {%s}", line, strings.Join(obs, "; "), strings.Join(tried, " | "))
		return
	}
	r.adopt(chosen)
	for c, nd := range chosenNew {
		if nd != nil && c.out.hasChild {
			r.rDirOf[c.out.child] = nd
		}
	}

	// --- the Lean model, sequentially, in that order
	if r.drv != nil {
		seq := append([]*raceCall{{line: fmt.Sprintf("lookupchild %d 0", childID), out: implOut{status: "-"}}}, order...)
		for _, c := range seq {
			m := r.ask(c.line)
			if c.out.status == "-" {
				continue
			}
			o := c.out
			o.ci = nil
			r.cmpModel(line+" / "+c.line, o, m)
		}
	}
}

func describe(all []*raceCall, except *raceCall) string {
	var s []string
	for _, c := range all {
		if c != except {
			s = append(s, c.line)
		}
	}
	return strings.Join(s, ", ")
}
