package main

import (
	"sort"
)

// Reference hierarchy used by the monitor: a plain map-based POSIX-style
// directory tree, written independently of the Lean model and of the
// implementation's representation (no cookies, no change counters, no lists).
// Directories are inodes (operations address a directory object plus a name,
// exactly like the Directory interface does), entries are kept in a map by
// normalised name, hard links are several entries pointing to one rleaf, the
// link count of a leaf is the number of entries that point to it.
//
// Documented deviations of the code from textbook POSIX that the reference
// mirrors (each is a decision of upstream, not a finding):
//  D1 rename of a directory into its own subtree is not rejected (upstream
//     TODO in VirtualRename); the subtree becomes an unreachable cycle.
//  D2 files matching the hidden-files pattern do not block rmdir / rename over
//     a directory; they are unlinked together with the directory, and they
//     are never listed.
//  D3 a directory object that was removed (or tombstoned by
//     RemoveAllChildren(true)) stays a valid handle: lookups say ENOENT, every
//     creation says ENOENT.
//  D4 directories are created lazily: contents given by an
//     InitialContentsFetcher appear on first access; a failing fetcher makes
//     the access fail with EIO and changes nothing.
//  D5 VirtualRemove with removeDirectory=false on a directory is EPERM, with
//     removeLeaf=false on a leaf is ENOTDIR (NFSv4 REMOVE / FUSE rmdir+unlink).
//  D6 VirtualOpenChild(existing) on a non-regular leaf is StatusErrSymlink;
//     VirtualLink of a leaf whose link count dropped to zero is ESTALE;
//     VirtualMknod of anything but FIFO/socket/symlink is EPERM.
//  D7 CreateAndEnterPrepopulatedDirectory replaces a leaf of that name.
//  D8 error precedence follows the code (e.g. rename: missing source is
//     reported before type conflicts; a tombstoned target directory before a
//     missing source).

type rleaf struct {
	kind         int
	everAttached bool
	handedOver   bool // reference given away in a createchildren / template
	impl         any
}

type rent struct {
	name int
	dir  *rdir
	leaf *rleaf
	gen  int
}

func (e *rent) isDir() bool { return e.dir != nil }

type rtchild struct {
	name int
	leaf *rleaf
	tmpl *rtmpl
}

type rtmpl struct {
	children []rtchild
	used     bool
}

type rdir struct {
	pending *rtmpl
	ents    map[int]*rent
	removed bool
	fs      int
	impl    any
}

type refFS struct {
	norm      []int
	hidden    []bool
	dirs      []*rdir
	gen       int
	empty     *rtmpl
	fetchFail bool
	allocFail bool
}

type rrep struct {
	name int
	dir  *rdir
	leaf *rleaf
	lazy bool
}

type rout struct {
	status  string
	dir     *rdir
	leaf    *rleaf
	reports []rrep
}

func newRef(norm []int, hidden []bool) *refFS {
	return &refFS{norm: norm, hidden: hidden, empty: &rtmpl{}}
}

func (f *refFS) newDir(fs int, t *rtmpl) *rdir {
	d := &rdir{pending: t, ents: map[int]*rent{}, fs: fs}
	f.dirs = append(f.dirs, d)
	return d
}

func (f *refFS) nlink(l *rleaf) int {
	n := 0
	for _, d := range f.dirs {
		for _, e := range d.ents {
			if e.leaf == l {
				n++
			}
		}
	}
	return n
}

func (f *refFS) put(d *rdir, name int, cd *rdir, cl *rleaf) {
	f.gen++
	d.ents[f.norm[name]] = &rent{name: name, dir: cd, leaf: cl, gen: f.gen}
	if cl != nil {
		cl.everAttached = true
	}
}

// populate a directory from a list of template children (sorted by name).
func (f *refFS) populate(d *rdir, cs []rtchild) string {
	cs = append([]rtchild(nil), cs...)
	sort.SliceStable(cs, func(i, j int) bool { return cs[i].name < cs[j].name })
	for _, c := range cs {
		if _, ok := d.ents[f.norm[c.name]]; ok || d.removed {
			return "panic"
		}
		if c.leaf != nil {
			f.put(d, c.name, nil, c.leaf)
		} else {
			f.put(d, c.name, f.newDir(d.fs, c.tmpl), nil)
		}
	}
	return ""
}

// access materialises a lazily defined directory (D4).
func (f *refFS) access(d *rdir) string {
	if d.pending == nil {
		return ""
	}
	if d.pending != f.empty && f.fetchFail {
		return "io"
	}
	t := d.pending
	d.pending = nil
	return f.populate(d, t.children)
}

func (f *refFS) onlyHidden(d *rdir) bool {
	for _, e := range d.ents {
		if e.isDir() || !f.hidden[e.name] {
			return false
		}
	}
	return true
}

func (f *refFS) visible(e *rent) bool { return e.isDir() || !f.hidden[e.name] }

// tombstone: the directory is gone; whatever hidden files it had go with it.
func (f *refFS) tombstone(d *rdir) {
	d.pending = nil
	d.ents = map[int]*rent{}
	d.removed = true
}

// destroy a detached subtree (RemoveAll / RemoveAllChildren).
func (f *refFS) destroy(d *rdir) {
	kids := d.ents
	f.tombstone(d)
	for _, e := range kids {
		if e.isDir() {
			f.destroy(e.dir)
		}
	}
}

func (f *refFS) creatable(d *rdir, name int) string {
	if d.removed {
		return "noent"
	}
	if _, ok := d.ents[f.norm[name]]; ok {
		return "exist"
	}
	return ""
}

func (f *refFS) mkdir(d *rdir, name int) rout {
	if s := f.access(d); s != "" {
		return rout{status: s}
	}
	if s := f.creatable(d, name); s != "" {
		return rout{status: s}
	}
	nd := f.newDir(d.fs, f.empty)
	f.put(d, name, nd, nil)
	return rout{status: "ok", dir: nd}
}

func (f *refFS) mknod(d *rdir, name, kind int) rout {
	if s := f.access(d); s != "" {
		return rout{status: s}
	}
	if s := f.creatable(d, name); s != "" {
		return rout{status: s}
	}
	if kind < 1 || kind > 3 {
		return rout{status: "perm"}
	}
	if kind == 3 && f.allocFail {
		return rout{status: "io"}
	}
	l := &rleaf{kind: kind}
	f.put(d, name, nil, l)
	return rout{status: "ok", leaf: l}
}

func (f *refFS) open(d *rdir, name int, create, existing bool) rout {
	if s := f.access(d); s != "" {
		return rout{status: s}
	}
	if e, ok := d.ents[f.norm[name]]; ok {
		if !existing {
			return rout{status: "exist"}
		}
		if e.isDir() {
			return rout{status: "isdir"}
		}
		if e.leaf.kind != 0 {
			return rout{status: "symlink"}
		}
		return rout{status: "ok", leaf: e.leaf}
	}
	if d.removed || !create {
		return rout{status: "noent"}
	}
	if f.allocFail {
		return rout{status: "io"}
	}
	l := &rleaf{kind: 0}
	f.put(d, name, nil, l)
	return rout{status: "ok", leaf: l}
}

func (f *refFS) link(d *rdir, name int, l *rleaf) rout {
	if s := f.access(d); s != "" {
		return rout{status: s}
	}
	if s := f.creatable(d, name); s != "" {
		return rout{status: s}
	}
	if f.nlink(l) == 0 {
		return rout{status: "stale"}
	}
	f.put(d, name, nil, l)
	return rout{status: "ok"}
}

func (f *refFS) lookup(d *rdir, name int) rout {
	if s := f.access(d); s != "" {
		return rout{status: s}
	}
	if e, ok := d.ents[f.norm[name]]; ok {
		return rout{status: "ok", dir: e.dir, leaf: e.leaf}
	}
	return rout{status: "noent"}
}

func (f *refFS) list(d *rdir, onlyVisible bool) rout {
	if s := f.access(d); s != "" {
		return rout{status: s}
	}
	o := rout{status: "ok"}
	for _, e := range d.ents {
		if !onlyVisible || f.visible(e) {
			o.reports = append(o.reports, rrep{name: e.name, dir: e.dir, leaf: e.leaf})
		}
	}
	return o
}

func (f *refFS) vremove(d *rdir, name int, rmDir, rmLeaf bool) rout {
	if s := f.access(d); s != "" {
		return rout{status: s}
	}
	e, ok := d.ents[f.norm[name]]
	if !ok {
		return rout{status: "noent"}
	}
	if e.isDir() {
		if !rmDir {
			return rout{status: "perm"}
		}
		if s := f.access(e.dir); s != "" {
			return rout{status: s}
		}
		if !f.onlyHidden(e.dir) {
			return rout{status: "notempty"}
		}
		f.tombstone(e.dir)
	} else if !rmLeaf {
		return rout{status: "notdir"}
	}
	delete(d.ents, f.norm[name])
	return rout{status: "ok"}
}

func (f *refFS) rename(dOld *rdir, oldName int, dNew *rdir, newName int) rout {
	if s := f.access(dOld); s != "" {
		return rout{status: s}
	}
	if s := f.access(dNew); s != "" {
		return rout{status: s}
	}
	src, haveSrc := dOld.ents[f.norm[oldName]]
	dst, haveDst := dNew.ents[f.norm[newName]]
	if !haveDst && dNew.removed {
		return rout{status: "noent"}
	}
	if !haveSrc {
		return rout{status: "noent"}
	}
	if haveDst {
		if dst.isDir() {
			if !src.isDir() {
				return rout{status: "isdir"}
			}
			if dst.dir == src.dir {
				return rout{status: "ok"}
			}
			if dOld.fs != dNew.fs {
				return rout{status: "xdev"}
			}
			if s := f.access(dst.dir); s != "" {
				return rout{status: s}
			}
			if !f.onlyHidden(dst.dir) {
				return rout{status: "notempty"}
			}
			f.tombstone(dst.dir)
		} else {
			if src.isDir() {
				return rout{status: "notdir"}
			}
			if dst.leaf == src.leaf {
				return rout{status: "ok"}
			}
		}
	} else if src.isDir() && dOld.fs != dNew.fs {
		return rout{status: "xdev"}
	}
	delete(dOld.ents, f.norm[oldName])
	delete(dNew.ents, f.norm[newName])
	f.put(dNew, newName, src.dir, src.leaf)
	return rout{status: "ok"}
}

func (f *refFS) removeAll(d *rdir, name int) rout {
	if s := f.access(d); s != "" {
		return rout{status: s}
	}
	e, ok := d.ents[f.norm[name]]
	if !ok {
		return rout{status: "noent"}
	}
	delete(d.ents, f.norm[name])
	if e.isDir() {
		f.destroy(e.dir)
	}
	return rout{status: "ok"}
}

func (f *refFS) removeAllChildren(d *rdir, deleteSelf bool) rout {
	kids := d.ents
	d.ents = map[int]*rent{}
	d.pending = nil
	if deleteSelf {
		d.removed = true
	}
	for _, e := range kids {
		if e.isDir() {
			f.destroy(e.dir)
		}
	}
	return rout{status: "ok"}
}

func (f *refFS) createChildren(d *rdir, overwrite bool, cs []rtchild) rout {
	if s := f.access(d); s != "" {
		return rout{status: s}
	}
	if d.removed {
		return rout{status: "noent"}
	}
	var victims []*rent
	for _, c := range cs {
		if e, ok := d.ents[f.norm[c.name]]; ok {
			if !overwrite {
				return rout{status: "exist"}
			}
			victims = append(victims, e)
			delete(d.ents, f.norm[c.name])
		}
	}
	if s := f.populate(d, cs); s != "" {
		return rout{status: s}
	}
	for _, e := range victims {
		if e.isDir() {
			f.destroy(e.dir)
		}
	}
	return rout{status: "ok"}
}

func (f *refFS) createAndEnter(d *rdir, name int) rout {
	if s := f.access(d); s != "" {
		return rout{status: s}
	}
	if e, ok := d.ents[f.norm[name]]; ok {
		if e.isDir() {
			return rout{status: "ok", dir: e.dir}
		}
		delete(d.ents, f.norm[name])
	} else if d.removed {
		return rout{status: "noent"}
	}
	nd := f.newDir(d.fs, f.empty)
	f.put(d, name, nd, nil)
	return rout{status: "ok", dir: nd}
}

// walk lists what FilterChildren visits: every leaf of every materialised
// directory below d and every not yet materialised directory.
func (f *refFS) walk(d *rdir, seen map[*rdir]bool, out *[]rrep, owner *[]*rdir) {
	if seen[d] {
		return
	}
	seen[d] = true
	if d.pending != nil {
		*out = append(*out, rrep{dir: d, lazy: true})
		*owner = append(*owner, d)
		return
	}
	for _, e := range d.sorted() {
		if !e.isDir() {
			*out = append(*out, rrep{name: e.name, leaf: e.leaf})
			*owner = append(*owner, d)
		}
	}
	for _, e := range d.sorted() {
		if e.isDir() {
			f.walk(e.dir, seen, out, owner)
		}
	}
}

// sorted returns the entries in the order in which they were put there.
func (d *rdir) sorted() []*rent {
	es := make([]*rent, 0, len(d.ents))
	for _, e := range d.ents {
		es = append(es, e)
	}
	sort.Slice(es, func(i, j int) bool { return es[i].gen < es[j].gen })
	return es
}

// gens is the set of entries of a directory, by attach generation.
func (d *rdir) gens() map[int]*rent {
	m := map[int]*rent{}
	for _, e := range d.ents {
		m[e.gen] = e
	}
	return m
}

// hasCycle reports whether some directory is reachable from itself (after D1).
func (f *refFS) hasCycle() bool {
	state := map[*rdir]int{}
	var visit func(d *rdir) bool
	visit = func(d *rdir) bool {
		if state[d] == 1 {
			return true
		}
		if state[d] == 2 {
			return false
		}
		state[d] = 1
		for _, e := range d.ents {
			if e.isDir() && visit(e.dir) {
				return true
			}
		}
		state[d] = 2
		return false
	}
	for _, d := range f.dirs {
		if visit(d) {
			return true
		}
	}
	return false
}

// below reports whether x is d or a descendant of d (materialised part).
func (f *refFS) below(d, x *rdir) bool {
	seen := map[*rdir]bool{}
	var visit func(c *rdir) bool
	visit = func(c *rdir) bool {
		if c == x {
			return true
		}
		if seen[c] {
			return false
		}
		seen[c] = true
		for _, e := range c.ents {
			if e.isDir() && visit(e.dir) {
				return true
			}
		}
		return false
	}
	return visit(d)
}
